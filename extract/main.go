// nvextract: the translator half of the model-to-code tie (DESIGN.md §1).
//
// It re-reads the repository on every check and regenerates lean/NV/Gen/*.lean: constants,
// tables and small straight-line blocks translated statement by statement.  Property theorems
// mention these generated definitions, so `lake build` re-proves them against what the code says
// now.  When a source shape is not supported by the translator it prints a line
// `FALLBACK <item>: <reason>` and emits a definition that aliases the hand model; the tie for
// that item is then carried by the correspondence check alone (recorded in the evidence).
package main

import (
	"bytes"
	"flag"
	"fmt"
	"go/ast"
	"go/parser"
	"go/token"
	"os"
	"path/filepath"
	"strconv"
	"strings"
)

var repo, outDir, forProp, declFile string
var fset = token.NewFileSet()

func parseFile(rel string) (*ast.File, error) {
	return parser.ParseFile(fset, filepath.Join(repo, rel), nil, parser.ParseComments)
}

// writeIfChanged avoids touching files whose content is unchanged so lake does not rebuild.
func writeIfChanged(name string, content string) {
	p := filepath.Join(outDir, name)
	old, err := os.ReadFile(p)
	if err == nil && bytes.Equal(old, []byte(content)) {
		return
	}
	if err := os.WriteFile(p, []byte(content), 0644); err != nil {
		fmt.Println("ERROR write", p, err)
		os.Exit(1)
	}
	fmt.Println("UPDATED", name)
}

// intConsts collects package-level integer constants with literal or simple arithmetic values.
func intConsts(f *ast.File) map[string]int64 {
	res := map[string]int64{}
	for _, d := range f.Decls {
		gd, ok := d.(*ast.GenDecl)
		if !ok || gd.Tok != token.CONST {
			continue
		}
		for _, s := range gd.Specs {
			vs := s.(*ast.ValueSpec)
			for i, n := range vs.Names {
				if i < len(vs.Values) {
					if v, ok := evalInt(vs.Values[i], res); ok {
						res[n.Name] = v
					}
				}
			}
		}
	}
	return res
}

func evalInt(e ast.Expr, env map[string]int64) (int64, bool) {
	switch e := e.(type) {
	case *ast.BasicLit:
		if e.Kind == token.INT {
			v, err := strconv.ParseInt(e.Value, 0, 64)
			return v, err == nil
		}
	case *ast.Ident:
		v, ok := env[e.Name]
		return v, ok
	case *ast.ParenExpr:
		return evalInt(e.X, env)
	case *ast.BinaryExpr:
		a, ok1 := evalInt(e.X, env)
		b, ok2 := evalInt(e.Y, env)
		if !ok1 || !ok2 {
			return 0, false
		}
		switch e.Op {
		case token.ADD:
			return a + b, true
		case token.SUB:
			return a - b, true
		case token.MUL:
			return a * b, true
		case token.SHL:
			return a << uint(b), true
		}
	}
	return 0, false
}

func findFunc(f *ast.File, name string) *ast.FuncDecl {
	for _, d := range f.Decls {
		if fd, ok := d.(*ast.FuncDecl); ok && fd.Name.Name == name {
			return fd
		}
	}
	return nil
}

func main() {
	flag.StringVar(&repo, "repo", "/repo", "repository root")
	flag.StringVar(&outDir, "out", "", "output directory (lean/NV/Gen)")
	flag.StringVar(&forProp, "for", "", "property id: run the expensive extractions only when needed")
	flag.StringVar(&declFile, "declared", "/verif/extract/declared_fresh.json", "declared-fresh sites (C15)")
	flag.Parse()
	if outDir == "" {
		fmt.Println("ERROR -out required")
		os.Exit(2)
	}
	_ = os.MkdirAll(outDir, 0755)
	genProxy()
	genProxyCFG()
	genUpstream()
	genDiscovery()
	genConfig()
	genCache()
	genRun()
	genTTL()
	genResolv()
	genClientInfo()
	genQuery()
	genLocal()
	genManager()
	genManagerCFG()
	genRouter()
	genListen()
	genSvcStart()
	genHooks()
	genActivate()
	genManagerDo()
	genLastMod()
	genDispatch()
	genReadOnly()
	genPkgState()
	genBounds()
	genMsgBounds()
	if forProp == "" || forProp == "C15" {
		genLockset()
	}
}

type lines struct{ b strings.Builder }

func (l *lines) f(format string, a ...interface{}) { fmt.Fprintf(&l.b, format+"\n", a...) }
