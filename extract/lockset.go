package main

// C15: lock-discipline facts. For every struct that owns a sync.Mutex / sync.RWMutex, every
// access to one of its fields anywhere in the package is recorded together with the mode in
// which that struct's mutex is held at that program point. The mode is computed by a forward
// dataflow over the function's CFG (go/cfg), callees of the same package being analysed in the
// caller's lock state (so `…Locked` naming is not trusted: the state comes from the call site).
//
// Approximations (trusted base, DESIGN.md §3):
//   * a lock is identified by (struct type, mutex field), not by instance;
//   * function values and interface calls are not followed; closures started with `go` or passed
//     as callbacks are analysed with no lock held; deferred closures with the state at the defer;
//   * an object built by a composite literal / new in the same function is `fresh` (unpublished)
//     until it is returned, stored, passed on or captured;
//   * sites listed in declared_fresh.json are accepted as fresh with a written justification.

import (
	"encoding/json"
	"fmt"
	"go/ast"
	"go/build"
	"go/importer"
	"go/parser"
	"go/token"
	"go/types"
	"os"
	"path/filepath"
	"sort"
	"strings"

	"nvextract/cfg"
)

type lsAccess struct {
	Pkg, Ty, Field string
	Kind           string // read | write | atomic
	Mode           string // none | r | w
	Fresh          bool
	Fn             string
	Pos            string
	Line           string
}

type lockState map[string]string // "T.mu" -> "r" | "w"

func (s lockState) key() string {
	var ks []string
	for k, v := range s {
		ks = append(ks, k+"="+v)
	}
	sort.Strings(ks)
	return strings.Join(ks, ",")
}

func (s lockState) clone() lockState {
	c := lockState{}
	for k, v := range s {
		c[k] = v
	}
	return c
}

// meet: a lock counts as held after a join only in the weakest mode both paths agree on
func meet(a, b lockState) lockState {
	c := lockState{}
	for k, v := range a {
		if w, ok := b[k]; ok {
			if v == w {
				c[k] = v
			} else {
				c[k] = "r" // one path holds it for writing, the other for reading
			}
		}
	}
	return c
}

type lsPkg struct {
	rel     string
	fset    *token.FileSet
	files   []*ast.File
	info    *types.Info
	pkg     *types.Package
	funcs   map[types.Object]*ast.FuncDecl
	mutexOf map[*types.Named]string // guarded struct -> its mutex field
	callers map[types.Object]int
	once    map[types.Object]bool // functions only ever run through sync.Once.Do
	acc     []lsAccess
	seen    map[string]bool
	src     map[string][]string
	depth   int
}

func loadPkg(rel string) (*lsPkg, error) {
	dir := filepath.Join(repo, rel)
	fs := token.NewFileSet()
	ctx := build.Default
	ctx.GOOS, ctx.GOARCH = "linux", "amd64"
	ents, err := os.ReadDir(dir)
	if err != nil {
		return nil, err
	}
	p := &lsPkg{rel: rel, fset: fs, funcs: map[types.Object]*ast.FuncDecl{}, mutexOf: map[*types.Named]string{},
		callers: map[types.Object]int{}, once: map[types.Object]bool{}, seen: map[string]bool{}, src: map[string][]string{}}
	for _, e := range ents {
		n := e.Name()
		if !strings.HasSuffix(n, ".go") || strings.HasSuffix(n, "_test.go") || strings.HasPrefix(n, "zz_verif") {
			continue
		}
		if ok, _ := ctx.MatchFile(dir, n); !ok {
			continue
		}
		f, err := parser.ParseFile(fs, filepath.Join(dir, n), nil, 0)
		if err != nil {
			return nil, err
		}
		p.files = append(p.files, f)
	}
	p.info = &types.Info{Selections: map[*ast.SelectorExpr]*types.Selection{}, Uses: map[*ast.Ident]types.Object{},
		Defs: map[*ast.Ident]types.Object{}, Types: map[ast.Expr]types.TypeAndValue{}}
	conf := types.Config{Importer: importer.ForCompiler(fs, "source", nil), Error: func(error) {}}
	p.pkg, _ = conf.Check(rel, fs, p.files, p.info)
	if p.pkg == nil {
		return nil, fmt.Errorf("type check of %s produced no package", rel)
	}
	for _, f := range p.files {
		for _, d := range f.Decls {
			if fd, ok := d.(*ast.FuncDecl); ok && fd.Body != nil {
				if o := p.info.Defs[fd.Name]; o != nil {
					p.funcs[o] = fd
				}
			}
		}
	}
	// guarded structs
	sc := p.pkg.Scope()
	for _, n := range sc.Names() {
		tn, ok := sc.Lookup(n).(*types.TypeName)
		if !ok {
			continue
		}
		named, ok := tn.Type().(*types.Named)
		if !ok {
			continue
		}
		st, ok := named.Underlying().(*types.Struct)
		if !ok {
			continue
		}
		for i := 0; i < st.NumFields(); i++ {
			if isMutexType(st.Field(i).Type()) && !st.Field(i).Embedded() {
				p.mutexOf[named] = st.Field(i).Name()
				break
			}
		}
	}
	// static in-package callers
	for _, f := range p.files {
		ast.Inspect(f, func(n ast.Node) bool {
			if c, ok := n.(*ast.CallExpr); ok {
				if o := p.calleeObj(c); o != nil {
					p.callers[o]++
				}
				// x.once.Do(f): f runs at most once and happens-before every return of Do
				if fs, ok := c.Fun.(*ast.SelectorExpr); ok && fs.Sel.Name == "Do" && len(c.Args) == 1 {
					if tv, ok := p.info.Types[fs.X]; ok && isOnceType(tv.Type) {
						var id *ast.Ident
						switch a := c.Args[0].(type) {
						case *ast.Ident:
							id = a
						case *ast.SelectorExpr:
							id = a.Sel
						}
						if id != nil {
							if o := p.info.Uses[id]; o != nil {
								if _, ok := p.funcs[o]; ok {
									p.once[o] = true
								}
							}
						}
					}
				}
			}
			return true
		})
	}
	return p, nil
}

func isMutexType(t types.Type) bool {
	n, ok := t.(*types.Named)
	if !ok || n.Obj().Pkg() == nil {
		return false
	}
	return n.Obj().Pkg().Path() == "sync" && (n.Obj().Name() == "Mutex" || n.Obj().Name() == "RWMutex")
}

func isOnceType(t types.Type) bool {
	if p, ok := t.(*types.Pointer); ok {
		t = p.Elem()
	}
	n, ok := t.(*types.Named)
	return ok && n.Obj().Pkg() != nil && n.Obj().Pkg().Path() == "sync" && n.Obj().Name() == "Once"
}

func isAtomicType(t types.Type) bool {
	if p, ok := t.(*types.Pointer); ok {
		t = p.Elem()
	}
	n, ok := t.(*types.Named)
	return ok && n.Obj().Pkg() != nil && n.Obj().Pkg().Path() == "sync/atomic"
}

func (p *lsPkg) calleeObj(c *ast.CallExpr) types.Object {
	var id *ast.Ident
	switch f := c.Fun.(type) {
	case *ast.Ident:
		id = f
	case *ast.SelectorExpr:
		id = f.Sel
	default:
		return nil
	}
	o := p.info.Uses[id]
	if o == nil {
		return nil
	}
	if _, ok := p.funcs[o]; ok {
		return o
	}
	return nil
}

// structOf returns the guarded struct a field selection belongs to.
func (p *lsPkg) fieldOwner(sel *ast.SelectorExpr) (*types.Named, *types.Var) {
	s := p.info.Selections[sel]
	if s == nil || s.Kind() != types.FieldVal {
		return nil, nil
	}
	v, ok := s.Obj().(*types.Var)
	if !ok {
		return nil, nil
	}
	t := s.Recv()
	if pt, ok := t.(*types.Pointer); ok {
		t = pt.Elem()
	}
	named, ok := t.(*types.Named)
	if !ok {
		return nil, nil
	}
	if _, ok := p.mutexOf[named]; !ok {
		return nil, nil
	}
	if len(s.Index()) != 1 {
		return nil, nil // promoted through embedding: owned by the embedded type
	}
	return named, v
}

// mutexOp recognises x.mu.Lock() etc. and returns (lock key, operation).
func (p *lsPkg) mutexOp(c *ast.CallExpr) (string, string) {
	sel, ok := c.Fun.(*ast.SelectorExpr)
	if !ok {
		return "", ""
	}
	switch sel.Sel.Name {
	case "Lock", "Unlock", "RLock", "RUnlock":
	default:
		return "", ""
	}
	inner, ok := sel.X.(*ast.SelectorExpr)
	if !ok {
		return "", ""
	}
	named, v := p.fieldOwnerAny(inner)
	if named == nil || !isMutexType(v.Type()) {
		return "", ""
	}
	return named.Obj().Name() + "." + v.Name(), sel.Sel.Name
}

func (p *lsPkg) fieldOwnerAny(sel *ast.SelectorExpr) (*types.Named, *types.Var) {
	s := p.info.Selections[sel]
	if s == nil || s.Kind() != types.FieldVal {
		return nil, nil
	}
	v, _ := s.Obj().(*types.Var)
	t := s.Recv()
	if pt, ok := t.(*types.Pointer); ok {
		t = pt.Elem()
	}
	named, _ := t.(*types.Named)
	if named == nil || v == nil {
		return nil, nil
	}
	return named, v
}

type fnCtx struct {
	name      string
	writes    map[*ast.SelectorExpr]bool
	atomics   map[*ast.SelectorExpr]bool
	freshVars map[types.Object]token.Pos // fresh until this position
	freshFrom map[types.Object]token.Pos // … and from this one (its first assignment from a freshly built object)
	staleFrom map[types.Object]token.Pos // first assignment of something else (an existing, possibly shared object) to the variable
}

// prepass classifies selector expressions of a function body as written / atomically accessed
// and finds variables holding freshly built objects.
func (p *lsPkg) prepass(name string, body ast.Node) *fnCtx {
	c := &fnCtx{name: name, writes: map[*ast.SelectorExpr]bool{}, atomics: map[*ast.SelectorExpr]bool{}, freshVars: map[types.Object]token.Pos{},
		freshFrom: map[types.Object]token.Pos{}, staleFrom: map[types.Object]token.Pos{}}
	base := func(e ast.Expr) *ast.SelectorExpr {
		for {
			switch x := e.(type) {
			case *ast.ParenExpr:
				e = x.X
			case *ast.IndexExpr:
				e = x.X
			case *ast.StarExpr:
				e = x.X
			case *ast.SliceExpr:
				e = x.X
			case *ast.SelectorExpr:
				return x
			default:
				return nil
			}
		}
	}
	isFreshExpr := func(e ast.Expr) bool {
		switch x := e.(type) {
		case *ast.CompositeLit:
			return true
		case *ast.UnaryExpr:
			_, ok := x.X.(*ast.CompositeLit)
			return x.Op == token.AND && ok
		case *ast.CallExpr:
			return isIdent(x.Fun, "new")
		}
		return false
	}
	escape := func(e ast.Node, pos token.Pos) {
		ast.Inspect(e, func(n ast.Node) bool {
			if id, ok := n.(*ast.Ident); ok {
				if o := p.info.Uses[id]; o != nil {
					if end, ok := c.freshVars[o]; ok && pos < end {
						c.freshVars[o] = pos
					}
				}
			}
			return true
		})
	}
	ast.Inspect(body, func(n ast.Node) bool {
		switch s := n.(type) {
		case *ast.AssignStmt:
			for i, l := range s.Lhs {
				if b := base(l); b != nil {
					c.writes[b] = true
				}
				if id, ok := l.(*ast.Ident); ok && i < len(s.Rhs) && len(s.Lhs) == len(s.Rhs) && isFreshExpr(s.Rhs[i]) {
					o := p.info.Defs[id]
					if o == nil {
						o = p.info.Uses[id]
					}
					if o != nil {
						c.freshVars[o] = token.Pos(1 << 30)
						if from, ok := c.freshFrom[o]; !ok || s.Pos() < from {
							c.freshFrom[o] = s.Pos()
						}
					}
				} else if id, ok := l.(*ast.Ident); ok && id.Name != "_" {
					// the variable now names something that was not built here
					o := p.info.Defs[id]
					if o == nil {
						o = p.info.Uses[id]
					}
					if o != nil {
						if from, ok := c.staleFrom[o]; !ok || s.Pos() < from {
							c.staleFrom[o] = s.Pos()
						}
					}
				}
			}
			// storing a fresh object anywhere but a plain local publishes it
			for i, r := range s.Rhs {
				if i < len(s.Lhs) {
					if _, plain := s.Lhs[i].(*ast.Ident); !plain {
						escape(r, s.Pos())
					}
				}
			}
		case *ast.IncDecStmt:
			if b := base(s.X); b != nil {
				c.writes[b] = true
			}
		case *ast.ReturnStmt:
			for _, r := range s.Results {
				escape(r, s.Pos())
			}
		case *ast.FuncLit:
			escape(s.Body, s.Pos())
		case *ast.CallExpr:
			if isIdent(s.Fun, "delete") && len(s.Args) > 0 {
				if b := base(s.Args[0]); b != nil {
					c.writes[b] = true
				}
			}
			// sync/atomic functions on &x.f, and methods of sync/atomic types held in fields
			if fs, ok := s.Fun.(*ast.SelectorExpr); ok {
				if pk, ok := fs.X.(*ast.Ident); ok {
					if pn, ok := p.info.Uses[pk].(*types.PkgName); ok && pn.Imported().Path() == "sync/atomic" {
						for _, a := range s.Args {
							if u, ok := a.(*ast.UnaryExpr); ok && u.Op == token.AND {
								if b := base(u.X); b != nil {
									c.atomics[b] = true
								}
							}
						}
					}
				}
				if inner, ok := fs.X.(*ast.SelectorExpr); ok {
					if tv, ok := p.info.Types[inner]; ok && isAtomicType(tv.Type) {
						c.atomics[inner] = true
					}
				}
			}
			if p.calleeObj(s) != nil || true {
				for _, a := range s.Args {
					escape(a, s.Pos())
					// a map or slice field handed to another function may be mutated by it
					if b, ok := a.(*ast.SelectorExpr); ok {
						if tv, ok := p.info.Types[b]; ok {
							switch tv.Type.Underlying().(type) {
							case *types.Map:
								if !isBuiltinCall(p, s) {
									c.writes[b] = true
								}
							}
						}
					}
				}
				if fs, ok := s.Fun.(*ast.SelectorExpr); ok {
					escape(fs.X, s.Pos())
				}
			}
		case *ast.UnaryExpr:
			if s.Op == token.AND {
				if b := base(s.X); b != nil && !c.atomics[b] {
					// address taken: decided after the walk (atomic args are marked by the call case,
					// which is visited before its arguments)
					if !c.atomics[b] {
						c.writes[b] = true
					}
				}
			}
		}
		return true
	})
	for b := range c.atomics {
		delete(c.writes, b)
	}
	return c
}

func isBuiltinCall(p *lsPkg, c *ast.CallExpr) bool {
	if id, ok := c.Fun.(*ast.Ident); ok {
		_, isB := p.info.Uses[id].(*types.Builtin)
		return isB
	}
	return false
}

func (p *lsPkg) lineAt(pos token.Position) string {
	ls, ok := p.src[pos.Filename]
	if !ok {
		b, _ := os.ReadFile(pos.Filename)
		ls = strings.Split(string(b), "\n")
		p.src[pos.Filename] = ls
	}
	if pos.Line >= 1 && pos.Line <= len(ls) {
		return strings.TrimSpace(ls[pos.Line-1])
	}
	return ""
}

// analyze runs the lock-state dataflow over body starting in state entry.
func (p *lsPkg) analyze(name string, body *ast.BlockStmt, entry lockState) {
	k := fmt.Sprintf("%s@%d|%s", name, body.Pos(), entry.key())
	if p.seen[k] || p.depth > 12 {
		return
	}
	p.seen[k] = true
	p.depth++
	defer func() { p.depth-- }()
	ctx := p.prepass(name, body)
	g := cfg.New(body, mayReturn)
	in := map[*cfg.Block]lockState{}
	if len(g.Blocks) == 0 {
		return
	}
	in[g.Blocks[0]] = entry.clone()
	work := []*cfg.Block{g.Blocks[0]}
	visits := map[*cfg.Block]int{}
	for len(work) > 0 {
		b := work[0]
		work = work[1:]
		visits[b]++
		if visits[b] > 50 {
			continue
		}
		st := in[b].clone()
		for _, n := range b.Nodes {
			p.transfer(ctx, n, st, visits[b] == 1)
		}
		for _, s := range b.Succs {
			old, ok := in[s]
			var nw lockState
			if !ok {
				nw = st.clone()
			} else {
				nw = meet(old, st)
			}
			if !ok || nw.key() != old.key() {
				in[s] = nw
				work = append(work, s)
			}
		}
	}
	// second pass with the fixpoint states: record accesses
	for _, b := range g.Blocks {
		st0, ok := in[b]
		if !ok {
			continue
		}
		st := st0.clone()
		for _, n := range b.Nodes {
			p.record(ctx, n, st)
		}
	}
}

// transfer applies the lock operations of node n to st (no recording).
func (p *lsPkg) transfer(ctx *fnCtx, n ast.Node, st lockState, first bool) {
	if _, ok := n.(*ast.DeferStmt); ok {
		return // a deferred unlock releases at exit, not here
	}
	inspectNoLit(n, func(x ast.Node) {
		if c, ok := x.(*ast.CallExpr); ok {
			if key, op := p.mutexOp(c); key != "" {
				switch op {
				case "Lock":
					st[key] = "w"
				case "RLock":
					st[key] = "r"
				default:
					delete(st, key)
				}
			}
		}
	})
}

func (p *lsPkg) record(ctx *fnCtx, n ast.Node, st lockState) {
	switch s := n.(type) {
	case *ast.DeferStmt:
		if lit, ok := s.Call.Fun.(*ast.FuncLit); ok {
			p.analyze(ctx.name+".defer", lit.Body, st)
		}
		return
	case *ast.GoStmt:
		if lit, ok := s.Call.Fun.(*ast.FuncLit); ok {
			p.analyze(ctx.name+".go", lit.Body, lockState{})
		} else if o := p.calleeObj(s.Call); o != nil {
			p.analyze(o.Name(), p.funcs[o].Body, lockState{})
		}
		return
	}
	ast.Inspect(n, func(x ast.Node) bool {
		switch e := x.(type) {
		case *ast.FuncLit:
			p.analyze(ctx.name+".func", e.Body, lockState{})
			return false
		case *ast.CallExpr:
			if key, op := p.mutexOp(e); key != "" {
				switch op {
				case "Lock":
					st[key] = "w"
				case "RLock":
					st[key] = "r"
				default:
					delete(st, key)
				}
				return false
			}
			if o := p.calleeObj(e); o != nil {
				// arguments first (they are evaluated in the caller), then the callee in this state
				p.analyze(o.Name(), p.funcs[o].Body, st.clone())
			}
		case *ast.SelectorExpr:
			named, v := p.fieldOwner(e)
			if named == nil || isMutexType(v.Type()) {
				return true
			}
			kind := "read"
			if ctx.atomics[e] {
				kind = "atomic"
			} else if ctx.writes[e] {
				kind = "write"
			}
			mode := st[named.Obj().Name()+"."+p.mutexOf[named]]
			if mode == "" {
				mode = "none"
			}
			fresh := false
			root := e.X
			for {
				if pe, ok := root.(*ast.ParenExpr); ok {
					root = pe.X
					continue
				}
				break
			}
			if id, ok := root.(*ast.Ident); ok {
				if o := p.info.Uses[id]; o != nil {
					if end, ok := ctx.freshVars[o]; ok && e.Pos() < end && e.Pos() >= ctx.freshFrom[o] {
						// … and nothing that was not built here has been assigned to the variable before this access
						if st, stale := ctx.staleFrom[o]; !stale || e.Pos() < st {
							fresh = true
						}
					}
				}
			}
			pos := p.fset.Position(e.Pos())
			rel, _ := filepath.Rel(repo, pos.Filename)
			p.acc = append(p.acc, lsAccess{Pkg: p.rel, Ty: named.Obj().Name(), Field: v.Name(), Kind: kind, Mode: mode,
				Fresh: fresh, Fn: ctx.name, Pos: fmt.Sprintf("%s:%d", rel, pos.Line), Line: p.lineAt(pos)})
		}
		return true
	})
}

type declaredFresh struct {
	Func, Field, LineText, Why string
}

func genLockset() {
	pkgs := []string{"discovery", "resolver/endpoint", "resolver", "arp", "ndp"}
	var all []lsAccess
	ok := true
	for _, rel := range pkgs {
		p, err := loadPkg(rel)
		if err != nil {
			fmt.Println("FALLBACK lockset", rel+":", err)
			ok = false
			continue
		}
		// roots: functions nobody in the package calls, and exported ones; analysed with no lock held
		var roots []types.Object
		for o := range p.funcs {
			if p.callers[o] == 0 || o.Exported() {
				roots = append(roots, o)
			}
		}
		sort.Slice(roots, func(i, j int) bool { return roots[i].Pos() < roots[j].Pos() })
		for _, o := range roots {
			n0 := len(p.acc)
			p.analyze(o.Name(), p.funcs[o].Body, lockState{})
			if p.once[o] && p.callers[o] == 0 {
				for i := n0; i < len(p.acc); i++ {
					p.acc[i].Fresh = true // published by sync.Once
				}
			}
		}
		all = append(all, p.acc...)
	}
	// declared-fresh sites
	var decl []declaredFresh
	if b, err := os.ReadFile(declFile); err == nil {
		_ = json.Unmarshal(b, &decl)
	} else {
		fmt.Println("NOTE no declared_fresh.json:", err)
	}
	// de-duplicate
	seen := map[string]bool{}
	var uniq []lsAccess
	for _, a := range all {
		for _, d := range decl {
			if d.Func == a.Fn && d.Field == a.Ty+"."+a.Field && d.LineText == a.Line {
				a.Fresh = true
			}
		}
		k := fmt.Sprintf("%s|%s|%s|%s|%s|%v|%s", a.Pkg, a.Ty, a.Field, a.Kind, a.Mode, a.Fresh, a.Pos)
		if !seen[k] {
			seen[k] = true
			uniq = append(uniq, a)
		}
	}
	sort.Slice(uniq, func(i, j int) bool {
		a, b := uniq[i], uniq[j]
		if a.Pkg != b.Pkg {
			return a.Pkg < b.Pkg
		}
		if a.Ty != b.Ty {
			return a.Ty < b.Ty
		}
		if a.Field != b.Field {
			return a.Field < b.Field
		}
		return a.Pos < b.Pos
	})
	var l lines
	l.f("-- GENERATED by /verif/extract (lockset.go) from discovery, resolver/endpoint, resolver, arp, ndp. Do not edit.")
	l.f("import NV.Model.Lockset")
	l.f("namespace NV.Gen.Lockset")
	l.f("open NV.Lockset")
	l.f("def extracted : Bool := %v", ok)
	l.f("def accesses : List Access := [")
	for i, a := range uniq {
		sep := ","
		if i == len(uniq)-1 {
			sep = ""
		}
		l.f("  ⟨%q, %q, .%s, .%s, %v, %q⟩%s", a.Pkg+"."+a.Ty, a.Field, a.Kind, a.Mode, a.Fresh, a.Fn+" "+a.Pos, sep)
	}
	l.f("]")
	l.f("end NV.Gen.Lockset")
	writeIfChanged("Lockset.lean", l.b.String())
	b, _ := json.MarshalIndent(uniq, "", " ")
	_ = os.WriteFile(filepath.Join(outDir, "lockset.json"), b, 0644)
}
