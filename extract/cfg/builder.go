// Copyright 2016 The Go Authors. All rights reserved.
// Use of this source code is governed by a BSD-style
// license that can be found in the LICENSE file.

package cfg

// This file implements the CFG construction pass.

import (
	"fmt"
	"go/ast"
	"go/token"
)

type builder struct {
	cfg       *CFG
	mayReturn func(*ast.CallExpr) bool
	current   *Block
	lblocks   map[string]*lblock // labeled blocks
	targets   *targets           // linked stack of branch targets
}

func (b *builder) stmt(_s ast.Stmt) {
	// The label of the current statement.  If non-nil, its _goto
	// target is always set; its _break and _continue are set only
	// within the body of switch/typeswitch/select/for/range.
	// It is effectively an additional default-nil parameter of stmt().
	var label *lblock
start:
	switch s := _s.(type) {
	case *ast.BadStmt,
		*ast.SendStmt,
		*ast.IncDecStmt,
		*ast.GoStmt,
		*ast.DeferStmt,
		*ast.EmptyStmt,
		*ast.AssignStmt:
		// No effect on control flow.
		b.add(s)

	case *ast.ExprStmt:
		b.add(s)
		if call, ok := s.X.(*ast.CallExpr); ok && !b.mayReturn(call) {
			// Calls to panic, os.Exit, etc, never return.
			b.current = b.newBlock(KindUnreachable, s)
		}

	case *ast.DeclStmt:
		// Treat each var ValueSpec as a separate statement.
		d := s.Decl.(*ast.GenDecl)
		if d.Tok == token.VAR {
			for _, spec := range d.Specs {
				if spec, ok := spec.(*ast.ValueSpec); ok {
					b.add(spec)
				}
			}
		}

	case *ast.LabeledStmt:
		label = b.labeledBlock(s.Label, s)
		b.jump(label._goto)
		b.current = label._goto
		_s = s.Stmt
		goto start // effectively: tailcall stmt(g, s.Stmt, label)

	case *ast.ReturnStmt:
		b.add(s)
		b.current = b.newBlock(KindUnreachable, s)

	case *ast.BranchStmt:
		b.branchStmt(s)

	case *ast.BlockStmt:
		b.stmtList(s.List)

	case *ast.IfStmt:
		if s.Init != nil {
			b.stmt(s.Init)
		}
		then := b.newBlock(KindIfThen, s)
		done := b.newBlock(KindIfDone, s)
		_else := done
		if s.Else != nil {
			_else = b.newBlock(KindIfElse, s)
		}
		b.add(s.Cond)
		b.ifelse(then, _else)
		b.current = then
		b.stmt(s.Body)
		b.jump(done)

		if s.Else != nil {
			b.current = _else
			b.stmt(s.Else)
			b.jump(done)
		}

		b.current = done

	case *ast.SwitchStmt:
		b.switchStmt(s, label)

	case *ast.TypeSwitchStmt:
		b.typeSwitchStmt(s, label)

	case *ast.SelectStmt:
		b.selectStmt(s, label)

	case *ast.ForStmt:
		b.forStmt(s, label)

	case *ast.RangeStmt:
		b.rangeStmt(s, label)

	default:
		panic(fmt.Sprintf("unexpected statement kind: %T", s))
	}
}

func (b *builder) stmtList(list []ast.Stmt) {
	for _, s := range list {
		b.stmt(s)
	}
}

func (b *builder) branchStmt(s *ast.BranchStmt) {
	var block *Block
	switch s.Tok {
	case token.BREAK:
		if s.Label != nil {
			if lb := b.labeledBlock(s.Label, nil); lb != nil {
				block = lb._break
			}
		} else {
			for t := b.targets; t != nil && block == nil; t = t.tail {
				block = t._break
			}
		}

	case token.CONTINUE:
		if s.Label != nil {
			if lb := b.labeledBlock(s.Label, nil); lb != nil {
				block = lb._continue
			}
		} else {
			for t := b.targets; t != nil && block == nil; t = t.tail {
				block = t._continue
			}
		}

	case token.FALLTHROUGH:
		for t := b.targets; t != nil && block == nil; t = t.tail {
			block = t._fallthrough
		}

	case token.GOTO:
		if s.Label != nil {
			block = b.labeledBlock(s.Label, nil)._goto
		}
	}
	if block == nil { // ill-typed (e.g. undefined label)
		block = b.newBlock(KindUnreachable, s)
	}
	b.jump(block)
	b.current = b.newBlock(KindUnreachable, s)
}

func (b *builder) switchStmt(s *ast.SwitchStmt, label *lblock) {
	if s.Init != nil {
		b.stmt(s.Init)
	}
	if s.Tag != nil {
		b.add(s.Tag)
	}
	done := b.newBlock(KindSwitchDone, s)
	if label != nil {
		label._break = done
	}
	// We pull the default case (if present) down to the end.
	// But each fallthrough label must point to the next
	// body block in source order, so we preallocate a
	// body block (fallthru) for the next case.
	// Unfortunately this makes for a confusing block order.
	var defaultBody *[]ast.Stmt
	var defaultFallthrough *Block
	var fallthru, defaultBlock *Block
	ncases := len(s.Body.List)
	for i, clause := range s.Body.List {
		body := fallthru
		if body == nil {
			body = b.newBlock(KindSwitchCaseBody, clause) // first case only
		}

		// Preallocate body block for the next case.
		fallthru = done
		if i+1 < ncases {
			fallthru = b.newBlock(KindSwitchCaseBody, s.Body.List[i+1])
		}

		cc := clause.(*ast.CaseClause)
		if cc.List == nil {
			// Default case.
			defaultBody = &cc.Body
			defaultFallthrough = fallthru
			defaultBlock = body
			continue
		}

		var nextCond *Block
		for _, cond := range cc.List {
			nextCond = b.newBlock(KindSwitchNextCase, cc)
			b.add(cond) // one half of the tag==cond condition
			b.ifelse(body, nextCond)
			b.current = nextCond
		}
		b.current = body
		b.targets = &targets{
			tail:         b.targets,
			_break:       done,
			_fallthrough: fallthru,
		}
		b.stmtList(cc.Body)
		b.targets = b.targets.tail
		b.jump(done)
		b.current = nextCond
	}
	if defaultBlock != nil {
		b.jump(defaultBlock)
		b.current = defaultBlock
		b.targets = &targets{
			tail:         b.targets,
			_break:       done,
			_fallthrough: defaultFallthrough,
		}
		b.stmtList(*defaultBody)
		b.targets = b.targets.tail
	}
	b.jump(done)
	b.current = done
}

func (b *builder) typeSwitchStmt(s *ast.TypeSwitchStmt, label *lblock) {
	if s.Init != nil {
		b.stmt(s.Init)
	}
	if s.Assign != nil {
		b.add(s.Assign)
	}

	done := b.newBlock(KindSwitchDone, s)
	if label != nil {
		label._break = done
	}
	var default_ *ast.CaseClause
	for _, clause := range s.Body.List {
		cc := clause.(*ast.CaseClause)
		if cc.List == nil {
			default_ = cc
			continue
		}
		body := b.newBlock(KindSwitchCaseBody, cc)
		var next *Block
		for _, casetype := range cc.List {
			next = b.newBlock(KindSwitchNextCase, cc)
			// casetype is a type, so don't call b.add(casetype).
			// This block logically contains a type assertion,
			// x.(casetype), but it's unclear how to represent x.
			_ = casetype
			b.ifelse(body, next)
			b.current = next
		}
		b.current = body
		b.typeCaseBody(cc, done)
		b.current = next
	}
	if default_ != nil {
		b.typeCaseBody(default_, done)
	} else {
		b.jump(done)
	}
	b.current = done
}

func (b *builder) typeCaseBody(cc *ast.CaseClause, done *Block) {
	b.targets = &targets{
		tail:   b.targets,
		_break: done,
	}
	b.stmtList(cc.Body)
	b.targets = b.targets.tail
	b.jump(done)
}

func (b *builder) selectStmt(s *ast.SelectStmt, label *lblock) {
	// First evaluate channel expressions.
	// TODO(adonovan): fix: evaluate only channel exprs here.
	for _, clause := range s.Body.List {
		if comm := clause.(*ast.CommClause).Comm; comm != nil {
			b.stmt(comm)
		}
	}

	done := b.newBlock(KindSelectDone, s)
	if label != nil {
		label._break = done
	}

	var defaultBody *[]ast.Stmt
	for _, cc := range s.Body.List {
		clause := cc.(*ast.CommClause)
		if clause.Comm == nil {
			defaultBody = &clause.Body
			continue
		}
		body := b.newBlock(KindSelectCaseBody, clause)
		next := b.newBlock(KindSelectAfterCase, clause)
		b.ifelse(body, next)
		b.current = body
		b.targets = &targets{
			tail:   b.targets,
			_break: done,
		}
		switch comm := clause.Comm.(type) {
		case *ast.ExprStmt: // <-ch
			// nop
		case *ast.AssignStmt: // x := <-states[state].Chan
			b.add(comm.Lhs[0])
		}
		b.stmtList(clause.Body)
		b.targets = b.targets.tail
		b.jump(done)
		b.current = next
	}
	if defaultBody != nil {
		b.targets = &targets{
			tail:   b.targets,
			_break: done,
		}
		b.stmtList(*defaultBody)
		b.targets = b.targets.tail
		b.jump(done)
	}
	b.current = done
}

func (b *builder) forStmt(s *ast.ForStmt, label *lblock) {
	//	...init...
	//      jump loop
	// loop:
	//      if cond goto body else done
	// body:
	//      ...body...
	//      jump post
	// post:				 (target of continue)
	//      ...post...
	//      jump loop
	// done:                                 (target of break)
	if s.Init != nil {
		b.stmt(s.Init)
	}
	body := b.newBlock(KindForBody, s)
	done := b.newBlock(KindForDone, s) // target of 'break'
	loop := body                       // target of back-edge
	if s.Cond != nil {
		loop = b.newBlock(KindForLoop, s)
	}
	cont := loop // target of 'continue'
	if s.Post != nil {
		cont = b.newBlock(KindForPost, s)
	}
	if label != nil {
		label._break = done
		label._continue = cont
	}
	b.jump(loop)
	b.current = loop
	if loop != body {
		b.add(s.Cond)
		b.ifelse(body, done)
		b.current = body
	}
	b.targets = &targets{
		tail:      b.targets,
		_break:    done,
		_continue: cont,
	}
	b.stmt(s.Body)
	b.targets = b.targets.tail
	b.jump(cont)

	if s.Post != nil {
		b.current = cont
		b.stmt(s.Post)
		b.jump(loop) // back-edge
	}
	b.current = done
}

func (b *builder) rangeStmt(s *ast.RangeStmt, label *lblock) {
	b.add(s.X)

	if s.Key != nil {
		b.add(s.Key)
	}
	if s.Value != nil {
		b.add(s.Value)
	}

	//      ...
	// loop:                                   (target of continue)
	// 	if ... goto body else done
	// body:
	//      ...
	// 	jump loop
	// done:                                   (target of break)

	loop := b.newBlock(KindRangeLoop, s)
	b.jump(loop)
	b.current = loop

	body := b.newBlock(KindRangeBody, s)
	done := b.newBlock(KindRangeDone, s)
	b.ifelse(body, done)
	b.current = body

	if label != nil {
		label._break = done
		label._continue = loop
	}
	b.targets = &targets{
		tail:      b.targets,
		_break:    done,
		_continue: loop,
	}
	b.stmt(s.Body)
	b.targets = b.targets.tail
	b.jump(loop) // back-edge
	b.current = done
}

// -------- helpers --------

// Destinations associated with unlabeled for/switch/select stmts.
// We push/pop one of these as we enter/leave each construct and for
// each BranchStmt we scan for the innermost target of the right type.
type targets struct {
	tail         *targets // rest of stack
	_break       *Block
	_continue    *Block
	_fallthrough *Block
}

// Destinations associated with a labeled block.
// We populate these as labels are encountered in forward gotos or
// labeled statements.
type lblock struct {
	_goto     *Block
	_break    *Block
	_continue *Block
}

// labeledBlock returns the branch target associated with the
// specified label, creating it if needed.
func (b *builder) labeledBlock(label *ast.Ident, stmt *ast.LabeledStmt) *lblock {
	lb := b.lblocks[label.Name]
	if lb == nil {
		lb = &lblock{_goto: b.newBlock(KindLabel, nil)}
		if b.lblocks == nil {
			b.lblocks = make(map[string]*lblock)
		}
		b.lblocks[label.Name] = lb
	}
	// Fill in the label later (in case of forward goto).
	// Stmt may be set already if labels are duplicated (ill-typed).
	if stmt != nil && lb._goto.Stmt == nil {
		lb._goto.Stmt = stmt
	}
	return lb
}

// newBlock appends a new unconnected basic block to b.cfg's block
// slice and returns it.
// It does not automatically become the current block.
// comment is an optional string for more readable debugging output.
func (b *builder) newBlock(kind BlockKind, stmt ast.Stmt) *Block {
	g := b.cfg
	block := &Block{
		Index: int32(len(g.Blocks)),
		Kind:  kind,
		Stmt:  stmt,
	}
	block.Succs = block.succs2[:0]
	g.Blocks = append(g.Blocks, block)
	return block
}

func (b *builder) add(n ast.Node) {
	b.current.Nodes = append(b.current.Nodes, n)
}

// jump adds an edge from the current block to the target block,
// and sets b.current to nil.
func (b *builder) jump(target *Block) {
	b.current.Succs = append(b.current.Succs, target)
	b.current = nil
}

// ifelse emits edges from the current block to the t and f blocks,
// and sets b.current to nil.
func (b *builder) ifelse(t, f *Block) {
	b.current.Succs = append(b.current.Succs, t, f)
	b.current = nil
}
