// Copyright 2016 The Go Authors. All rights reserved.
// Use of this source code is governed by a BSD-style
// license that can be found in the LICENSE file.

// Package cfg constructs a simple control-flow graph (CFG) of the
// statements and expressions within a single function.
//
// Use cfg.New to construct the CFG for a function body.
//
// The blocks of the CFG contain all the function's non-control
// statements.  The CFG does not contain control statements such as If,
// Switch, Select, and Branch, but does contain their subexpressions;
// also, each block records the control statement (Block.Stmt) that
// gave rise to it and its relationship (Block.Kind) to that statement.
//
// For example, this source code:
//
//	if x := f(); x != nil {
//		T()
//	} else {
//		F()
//	}
//
// produces this CFG:
//
//	1:  x := f()		Body
//	    x != nil
//	    succs: 2, 3
//	2:  T()			IfThen
//	    succs: 4
//	3:  F()			IfElse
//	    succs: 4
//	4:			IfDone
//
// The CFG does contain Return statements; even implicit returns are
// materialized (at the position of the function's closing brace).
//
// The CFG does not record conditions associated with conditional branch
// edges, nor the short-circuit semantics of the && and || operators,
// nor abnormal control flow caused by panic.  If you need this
// information, use golang.org/x/tools/go/ssa instead.
package cfg

import (
	"bytes"
	"fmt"
	"go/ast"
	"go/format"
	"go/token"
)

// A CFG represents the control-flow graph of a single function.
//
// The entry point is Blocks[0]; there may be multiple return blocks.
type CFG struct {
	fset   *token.FileSet
	Blocks []*Block // block[0] is entry; order otherwise undefined
}

// A Block represents a basic block: a list of statements and
// expressions that are always evaluated sequentially.
//
// A block may have 0-2 successors: zero for a return block or a block
// that calls a function such as panic that never returns; one for a
// normal (jump) block; and two for a conditional (if) block.
type Block struct {
	Nodes []ast.Node // statements, expressions, and ValueSpecs
	Succs []*Block   // successor nodes in the graph
	Index int32      // index within CFG.Blocks
	Live  bool       // block is reachable from entry
	Kind  BlockKind  // block kind
	Stmt  ast.Stmt   // statement that gave rise to this block (see BlockKind for details)

	succs2 [2]*Block // underlying array for Succs
}

// A BlockKind identifies the purpose of a block.
// It also determines the possible types of its Stmt field.
type BlockKind uint8

const (
	KindInvalid BlockKind = iota // Stmt=nil

	KindUnreachable     // unreachable block after {Branch,Return}Stmt / no-return call ExprStmt
	KindBody            // function body BlockStmt
	KindForBody         // body of ForStmt
	KindForDone         // block after ForStmt
	KindForLoop         // head of ForStmt
	KindForPost         // post condition of ForStmt
	KindIfDone          // block after IfStmt
	KindIfElse          // else block of IfStmt
	KindIfThen          // then block of IfStmt
	KindLabel           // labeled block of BranchStmt (Stmt may be nil for dangling label)
	KindRangeBody       // body of RangeStmt
	KindRangeDone       // block after RangeStmt
	KindRangeLoop       // head of RangeStmt
	KindSelectCaseBody  // body of SelectStmt
	KindSelectDone      // block after SelectStmt
	KindSelectAfterCase // block after a CommClause
	KindSwitchCaseBody  // body of CaseClause
	KindSwitchDone      // block after {Type.}SwitchStmt
	KindSwitchNextCase  // secondary expression of a multi-expression CaseClause
)

func (kind BlockKind) String() string {
	return [...]string{
		KindInvalid:         "Invalid",
		KindUnreachable:     "Unreachable",
		KindBody:            "Body",
		KindForBody:         "ForBody",
		KindForDone:         "ForDone",
		KindForLoop:         "ForLoop",
		KindForPost:         "ForPost",
		KindIfDone:          "IfDone",
		KindIfElse:          "IfElse",
		KindIfThen:          "IfThen",
		KindLabel:           "Label",
		KindRangeBody:       "RangeBody",
		KindRangeDone:       "RangeDone",
		KindRangeLoop:       "RangeLoop",
		KindSelectCaseBody:  "SelectCaseBody",
		KindSelectDone:      "SelectDone",
		KindSelectAfterCase: "SelectAfterCase",
		KindSwitchCaseBody:  "SwitchCaseBody",
		KindSwitchDone:      "SwitchDone",
		KindSwitchNextCase:  "SwitchNextCase",
	}[kind]
}

// New returns a new control-flow graph for the specified function body,
// which must be non-nil.
//
// The CFG builder calls mayReturn to determine whether a given function
// call may return.  For example, calls to panic, os.Exit, and log.Fatal
// do not return, so the builder can remove infeasible graph edges
// following such calls.  The builder calls mayReturn only for a
// CallExpr beneath an ExprStmt.
func New(body *ast.BlockStmt, mayReturn func(*ast.CallExpr) bool) *CFG {
	b := builder{
		mayReturn: mayReturn,
		cfg:       new(CFG),
	}
	b.current = b.newBlock(KindBody, body)
	b.stmt(body)

	// Compute liveness (reachability from entry point), breadth-first.
	q := make([]*Block, 0, len(b.cfg.Blocks))
	q = append(q, b.cfg.Blocks[0]) // entry point
	for len(q) > 0 {
		b := q[len(q)-1]
		q = q[:len(q)-1]

		if !b.Live {
			b.Live = true
			q = append(q, b.Succs...)
		}
	}

	// Does control fall off the end of the function's body?
	// Make implicit return explicit.
	if b.current != nil && b.current.Live {
		b.add(&ast.ReturnStmt{
			Return: body.End() - 1,
		})
	}

	return b.cfg
}

func (b *Block) String() string {
	return fmt.Sprintf("block %d (%s)", b.Index, b.comment(nil))
}

func (b *Block) comment(fset *token.FileSet) string {
	s := b.Kind.String()
	if fset != nil && b.Stmt != nil {
		s = fmt.Sprintf("%s@L%d", s, fset.Position(b.Stmt.Pos()).Line)
	}
	return s
}

// Return returns the return statement at the end of this block if present, nil
// otherwise.
//
// When control falls off the end of the function, the ReturnStmt is synthetic
// and its [ast.Node.End] position may be beyond the end of the file.
func (b *Block) Return() (ret *ast.ReturnStmt) {
	if len(b.Nodes) > 0 {
		ret, _ = b.Nodes[len(b.Nodes)-1].(*ast.ReturnStmt)
	}
	return
}

// Format formats the control-flow graph for ease of debugging.
func (g *CFG) Format(fset *token.FileSet) string {
	var buf bytes.Buffer
	for _, b := range g.Blocks {
		fmt.Fprintf(&buf, ".%d: # %s\n", b.Index, b.comment(fset))
		for _, n := range b.Nodes {
			fmt.Fprintf(&buf, "\t%s\n", formatNode(fset, n))
		}
		if len(b.Succs) > 0 {
			fmt.Fprintf(&buf, "\tsuccs:")
			for _, succ := range b.Succs {
				fmt.Fprintf(&buf, " %d", succ.Index)
			}
			buf.WriteByte('\n')
		}
		buf.WriteByte('\n')
	}
	return buf.String()
}

// Dot returns the control-flow graph in the [Dot graph description language].
// Use a command such as 'dot -Tsvg' to render it in a form viewable in a browser.
// This method is provided as a debugging aid; the details of the
// output are unspecified and may change.
//
// [Dot graph description language]: ​​https://en.wikipedia.org/wiki/DOT_(graph_description_language)
func (g *CFG) Dot(fset *token.FileSet) string {
	var buf bytes.Buffer
	buf.WriteString("digraph CFG {\n")
	buf.WriteString("  node [shape=box];\n")
	for _, b := range g.Blocks {
		// node label
		var text bytes.Buffer
		text.WriteString(b.comment(fset))
		for _, n := range b.Nodes {
			fmt.Fprintf(&text, "\n%s", formatNode(fset, n))
		}

		// node and edges
		fmt.Fprintf(&buf, "  n%d [label=%q];\n", b.Index, &text)
		for _, succ := range b.Succs {
			fmt.Fprintf(&buf, "  n%d -> n%d;\n", b.Index, succ.Index)
		}
	}
	buf.WriteString("}\n")
	return buf.String()
}

func formatNode(fset *token.FileSet, n ast.Node) string {
	var buf bytes.Buffer
	format.Node(&buf, fset, n)
	// Indent secondary lines by a tab.
	return string(bytes.Replace(buf.Bytes(), []byte("\n"), []byte("\n\t"), -1))
}
