package main

import (
	"fmt"
	"go/ast"
	"go/token"
	"os"
	"path/filepath"
	"strconv"
	"strings"
)

// genConfig regenerates lean/NV/Gen/Config.lean (property C17):
//   * optTable        the option table built by config.(*Config).flagSet: one entry per
//                     fs.BoolVar/StringVar/StringsVar/DurationVar/UintVar/Var call (name, kind, default,
//                     whether the entry is bound to a Config field)
//   * configUintBits  the bit size ConfigUint.Set passes to strconv.ParseUint
//   * flagTrue/False  the spellings ConfigFlag.Set accepts
// Unsupported source shapes fall back to the hand model (FALLBACK line, tie by correspondence only).

func leanStr(s string) string {
	var b strings.Builder
	b.WriteByte('"')
	for _, r := range s {
		switch {
		case r == '"' || r == '\\':
			b.WriteByte('\\')
			b.WriteRune(r)
		case r == '\n':
			b.WriteString("\\n")
		case r == '\t':
			b.WriteString("\\t")
		case r < 0x20 || r == 0x7f:
			fmt.Fprintf(&b, "\\x%02x", r)
		default:
			b.WriteRune(r)
		}
	}
	b.WriteByte('"')
	return b.String()
}

// stringConsts collects string constants of the non-windows, non-test files of a package directory.
func stringConsts(dir string) map[string]string {
	res := map[string]string{}
	files, _ := filepath.Glob(filepath.Join(repo, dir, "*.go"))
	for _, p := range files {
		base := filepath.Base(p)
		if strings.HasSuffix(base, "_test.go") || strings.HasSuffix(base, "_windows.go") {
			continue
		}
		f, err := parseFile(filepath.Join(dir, base))
		if err != nil {
			continue
		}
		for _, d := range f.Decls {
			gd, ok := d.(*ast.GenDecl)
			if !ok || (gd.Tok != token.CONST && gd.Tok != token.VAR) {
				continue
			}
			for _, s := range gd.Specs {
				vs := s.(*ast.ValueSpec)
				for i, n := range vs.Names {
					if i < len(vs.Values) {
						if bl, ok := vs.Values[i].(*ast.BasicLit); ok && bl.Kind == token.STRING {
							if v, err := strconv.Unquote(bl.Value); err == nil {
								res[n.Name] = v
							}
						}
					}
				}
			}
		}
	}
	return res
}

var durUnits = map[string]int64{"Nanosecond": 1, "Microsecond": 1e3, "Millisecond": 1e6, "Second": 1e9, "Minute": 60e9, "Hour": 3600e9}

func evalDur(e ast.Expr) (int64, bool) {
	switch e := e.(type) {
	case *ast.BasicLit:
		return evalInt(e, nil)
	case *ast.ParenExpr:
		return evalDur(e.X)
	case *ast.SelectorExpr:
		if x, ok := e.X.(*ast.Ident); ok && x.Name == "time" {
			v, ok := durUnits[e.Sel.Name]
			return v, ok
		}
	case *ast.BinaryExpr:
		a, ok1 := evalDur(e.X)
		b, ok2 := evalDur(e.Y)
		if ok1 && ok2 {
			switch e.Op {
			case token.MUL:
				return a * b, true
			case token.ADD:
				return a + b, true
			}
		}
	}
	return 0, false
}

func methodOf(f *ast.File, recv, name string) *ast.FuncDecl {
	for _, d := range f.Decls {
		fd, ok := d.(*ast.FuncDecl)
		if !ok || fd.Name.Name != name || fd.Recv == nil || len(fd.Recv.List) != 1 {
			continue
		}
		t := fd.Recv.List[0].Type
		if st, ok := t.(*ast.StarExpr); ok {
			t = st.X
		}
		if id, ok := t.(*ast.Ident); ok && id.Name == recv {
			return fd
		}
	}
	return nil
}

func structFieldTypes(f *ast.File, name string) map[string]string {
	res := map[string]string{}
	ast.Inspect(f, func(n ast.Node) bool {
		ts, ok := n.(*ast.TypeSpec)
		if !ok || ts.Name.Name != name {
			return true
		}
		if st, ok := ts.Type.(*ast.StructType); ok {
			for _, fl := range st.Fields.List {
				if id, ok := fl.Type.(*ast.Ident); ok {
					for _, n := range fl.Names {
						res[n.Name] = id.Name
					}
				}
			}
		}
		return false
	})
	return res
}

func optTableFromSource() ([]string, error) {
	f, err := parseFile("config/config.go")
	if err != nil {
		return nil, err
	}
	fd := methodOf(f, "Config", "flagSet")
	if fd == nil {
		return nil, fmt.Errorf("method (*Config).flagSet not found")
	}
	if len(fd.Recv.List[0].Names) != 1 {
		return nil, fmt.Errorf("unnamed receiver")
	}
	recv := fd.Recv.List[0].Names[0].Name
	consts := stringConsts("config")
	fields := structFieldTypes(f, "Config")
	var rows []string
	var ferr error
	for _, st := range fd.Body.List {
		es, ok := st.(*ast.ExprStmt)
		if !ok {
			continue // assignments, the `if cmd != ""` block (flag-only options), return
		}
		call, ok := es.X.(*ast.CallExpr)
		if !ok {
			continue
		}
		sel, ok := call.Fun.(*ast.SelectorExpr)
		if !ok {
			continue
		}
		if x, ok := sel.X.(*ast.Ident); !ok || x.Name != "fs" {
			continue
		}
		if len(call.Args) < 3 {
			return nil, fmt.Errorf("fs.%s with %d arguments at %s", sel.Sel.Name, len(call.Args), fset.Position(call.Pos()))
		}
		nameLit, ok := call.Args[1].(*ast.BasicLit)
		if !ok || nameLit.Kind != token.STRING {
			return nil, fmt.Errorf("option name is not a string literal at %s", fset.Position(call.Pos()))
		}
		name, _ := strconv.Unquote(nameLit.Value)
		// bound to a field of the receiver?
		bound, field := false, ""
		if u, ok := call.Args[0].(*ast.UnaryExpr); ok && u.Op == token.AND {
			if s, ok := u.X.(*ast.SelectorExpr); ok {
				if x, ok := s.X.(*ast.Ident); ok && x.Name == recv {
					bound, field = true, s.Sel.Name
				}
			}
		}
		if !bound {
			if c, ok := call.Args[0].(*ast.CallExpr); !ok || fmt.Sprint(c.Fun) != "new" {
				return nil, fmt.Errorf("option %s: unsupported target expression at %s", name, fset.Position(call.Pos()))
			}
		}
		b := "true"
		if !bound {
			b = "false"
		}
		var kind, dflt string
		switch sel.Sel.Name {
		case "BoolVar":
			id, ok := call.Args[2].(*ast.Ident)
			if !ok || (id.Name != "true" && id.Name != "false") {
				return nil, fmt.Errorf("option %s: default is not true/false", name)
			}
			kind, dflt = ".bool", ".b "+id.Name
		case "StringsVar":
			kind, dflt = ".strings", ".ss []"
		case "StringVar":
			var v string
			switch a := call.Args[2].(type) {
			case *ast.BasicLit:
				v, _ = strconv.Unquote(a.Value)
			case *ast.Ident:
				var ok bool
				if v, ok = consts[a.Name]; !ok {
					return nil, fmt.Errorf("option %s: default %s is not a string constant of the package", name, a.Name)
				}
			default:
				return nil, fmt.Errorf("option %s: unsupported default expression", name)
			}
			kind, dflt = ".string", ".s "+leanStr(v)+".toList"
		case "DurationVar":
			v, ok := evalDur(call.Args[2])
			if !ok || v < 0 {
				return nil, fmt.Errorf("option %s: unsupported duration default", name)
			}
			kind, dflt = ".duration", fmt.Sprintf(".d %d", v)
		case "UintVar":
			v, ok := evalInt(call.Args[2], nil)
			if !ok || v < 0 {
				return nil, fmt.Errorf("option %s: unsupported uint default", name)
			}
			kind, dflt = ".uint", fmt.Sprintf(".u %d", v)
		case "Var":
			switch fields[field] {
			case "Profiles":
				kind, dflt = ".profiles", ".ps []"
			case "Forwarders":
				kind, dflt = ".forwarders", ".fs []"
			default:
				return nil, fmt.Errorf("option %s: fs.Var on a field of type %q", name, fields[field])
			}
		default:
			ferr = fmt.Errorf("unknown registration fs.%s for option %s", sel.Sel.Name, name)
			continue
		}
		rows = append(rows, fmt.Sprintf("  ⟨%s, %s, %s, %s⟩", leanStr(name), kind, dflt, b))
	}
	if ferr != nil {
		return nil, ferr
	}
	if len(rows) == 0 {
		return nil, fmt.Errorf("no option registration found")
	}
	return rows, nil
}

func configUintBits() (int64, error) {
	f, err := parseFile("host/service/config.go")
	if err != nil {
		return 0, err
	}
	fd := methodOf(f, "ConfigUint", "Set")
	if fd == nil {
		return 0, fmt.Errorf("ConfigUint.Set not found")
	}
	var bits int64 = -1
	var perr error
	ast.Inspect(fd.Body, func(n ast.Node) bool {
		call, ok := n.(*ast.CallExpr)
		if !ok {
			return true
		}
		if s, ok := call.Fun.(*ast.SelectorExpr); ok && s.Sel.Name == "ParseUint" && len(call.Args) == 3 {
			if b, ok := evalInt(call.Args[1], nil); !ok || b != 10 {
				perr = fmt.Errorf("ParseUint base is not the literal 10")
				return false
			}
			switch a := call.Args[2].(type) {
			case *ast.BasicLit:
				if v, ok := evalInt(a, nil); ok {
					bits = v
					if v == 0 {
						bits = 64 // bitSize 0 means int size
					}
				}
			case *ast.SelectorExpr:
				q := fmt.Sprint(a.X) + "." + a.Sel.Name
				if q == "strconv.IntSize" || q == "bits.UintSize" {
					bits = 64 // 64-bit platform (assumption recorded in the evidence)
				}
			}
		}
		return true
	})
	if perr != nil {
		return 0, perr
	}
	if bits < 0 {
		return 0, fmt.Errorf("bit size of strconv.ParseUint in ConfigUint.Set not recognised")
	}
	return bits, nil
}

func configFlagSpellings() (tr, fa []string, err error) {
	f, err := parseFile("host/service/config.go")
	if err != nil {
		return nil, nil, err
	}
	fd := methodOf(f, "ConfigFlag", "Set")
	if fd == nil {
		return nil, nil, fmt.Errorf("ConfigFlag.Set not found")
	}
	var sw *ast.SwitchStmt
	for _, st := range fd.Body.List {
		if s, ok := st.(*ast.SwitchStmt); ok {
			sw = s
		}
	}
	if sw == nil || sw.Tag == nil {
		return nil, nil, fmt.Errorf("ConfigFlag.Set is not a switch on the value")
	}
	for _, c := range sw.Body.List {
		cc := c.(*ast.CaseClause)
		if cc.List == nil {
			continue // default: error
		}
		if len(cc.Body) != 1 {
			return nil, nil, fmt.Errorf("case body of ConfigFlag.Set is not a single assignment")
		}
		as, ok := cc.Body[0].(*ast.AssignStmt)
		if !ok || len(as.Rhs) != 1 {
			return nil, nil, fmt.Errorf("case body of ConfigFlag.Set is not an assignment")
		}
		id, ok := as.Rhs[0].(*ast.Ident)
		if !ok || (id.Name != "true" && id.Name != "false") {
			return nil, nil, fmt.Errorf("case of ConfigFlag.Set assigns something else than true/false")
		}
		for _, e := range cc.List {
			bl, ok := e.(*ast.BasicLit)
			if !ok || bl.Kind != token.STRING {
				return nil, nil, fmt.Errorf("case label of ConfigFlag.Set is not a string literal")
			}
			v, _ := strconv.Unquote(bl.Value)
			if id.Name == "true" {
				tr = append(tr, leanStr(v))
			} else {
				fa = append(fa, leanStr(v))
			}
		}
	}
	return tr, fa, nil
}

func genConfig() {
	if _, err := os.Stat(filepath.Join(repo, "config", "config.go")); err != nil {
		fmt.Println("FALLBACK config:", err)
	}
	var l lines
	l.f("-- GENERATED by /verif/extract from the repository (config/config.go, host/service/config.go).")
	l.f("-- Do not edit: rewritten on every check.")
	l.f("import NV.Model.Config")
	l.f("namespace NV.Gen.Config")
	l.f("open NV.Config")
	l.f("/-- one row per fs.BoolVar/StringVar/StringsVar/DurationVar/UintVar/Var call of `(*Config).flagSet`, in source order -/")
	if rows, err := optTableFromSource(); err != nil {
		fmt.Println("FALLBACK config.optTable:", err)
		l.f("def optTable : List Opt := NV.Config.optTable")
	} else {
		l.f("def optTable : List Opt := [\n%s\n]", strings.Join(rows, ",\n"))
	}
	l.f("/-- bit size passed to strconv.ParseUint by `ConfigUint.Set` -/")
	if b, err := configUintBits(); err != nil {
		fmt.Println("FALLBACK config.configUintBits:", err)
		l.f("def configUintBits : Nat := NV.Config.uintFileBits")
	} else {
		l.f("def configUintBits : Nat := %d", b)
	}
	l.f("/-- spellings accepted by `ConfigFlag.Set` -/")
	if tr, fa, err := configFlagSpellings(); err != nil {
		fmt.Println("FALLBACK config.flagSpellings:", err)
		l.f("def flagTrue : List Str := NV.Config.fileTrue")
		l.f("def flagFalse : List Str := NV.Config.fileFalse")
	} else {
		l.f("def flagTrue : List Str := [%s].map String.toList", strings.Join(tr, ", "))
		l.f("def flagFalse : List Str := [%s].map String.toList", strings.Join(fa, ", "))
	}
	l.f("end NV.Gen.Config")
	writeIfChanged("Config.lean", l.b.String())
}
