package main

import (
	"bytes"
	"fmt"
	"go/ast"
	"go/printer"
	"go/token"
	"strings"
)

// C07: the per-record TTL block of resolver/cache.go `updateTTL` (the body of
// `if query.Type(qtype) != query.TypeOPT { … }`) translated statement by statement, plus the
// constant query.TypeOPT.  uint32 `+`/`-` are emitted modulo 2^32 (the translator does not assume
// that a guard prevents the wrap; the Lean tie theorem proves agreement with the hand model).

func nodeText(n ast.Node) string {
	var b bytes.Buffer
	_ = printer.Fprint(&b, fset, n)
	return b.String()
}

type ttlTr struct {
	mut    map[string]bool // mutable locals
	params map[string]bool
	err    error
}

func (t *ttlTr) fail(n ast.Node, msg string) {
	if t.err == nil {
		t.err = fmt.Errorf("%s `%s` at %s", msg, nodeText(n), fset.Position(n.Pos()))
	}
}

func (t *ttlTr) expr(e ast.Expr) string {
	switch e := e.(type) {
	case *ast.ParenExpr:
		return "(" + t.expr(e.X) + ")"
	case *ast.BasicLit:
		if v, ok := evalInt(e, nil); ok && v >= 0 {
			return fmt.Sprint(v)
		}
	case *ast.Ident:
		if t.mut[e.Name] || t.params[e.Name] {
			return e.Name
		}
	case *ast.BinaryExpr:
		x, y := t.expr(e.X), t.expr(e.Y)
		switch e.Op {
		case token.GTR:
			return "(" + x + " > " + y + ")"
		case token.LSS:
			return "(" + x + " < " + y + ")"
		case token.GEQ:
			return "(" + x + " ≥ " + y + ")"
		case token.LEQ:
			return "(" + x + " ≤ " + y + ")"
		case token.EQL:
			return "(" + x + " = " + y + ")"
		case token.NEQ:
			return "(" + x + " ≠ " + y + ")"
		case token.LAND:
			return "(" + x + " ∧ " + y + ")"
		case token.LOR:
			return "(" + x + " ∨ " + y + ")"
		case token.ADD:
			return "((" + x + " + " + y + ") % 4294967296)"
		case token.SUB:
			return "((" + x + " + 4294967296 - " + y + ") % 4294967296)"
		}
	}
	t.fail(e, "unsupported expression")
	return "0"
}

func (t *ttlTr) stmts(l *lines, ss []ast.Stmt, ind string) {
	if len(ss) == 0 {
		l.f("%spure ()", ind)
	}
	for _, s := range ss {
		t.stmt(l, s, ind)
	}
}

func (t *ttlTr) stmt(l *lines, s ast.Stmt, ind string) {
	switch s := s.(type) {
	case *ast.BlockStmt:
		t.stmts(l, s.List, ind)
	case *ast.IfStmt:
		if s.Init != nil {
			t.fail(s, "if with init")
			return
		}
		l.f("%sif %s then", ind, t.expr(s.Cond))
		t.stmts(l, s.Body.List, ind+"  ")
		if s.Else != nil {
			l.f("%selse", ind)
			t.stmt(l, s.Else, ind+"  ")
		}
	case *ast.AssignStmt:
		if len(s.Lhs) == 1 && len(s.Rhs) == 1 {
			if id, ok := s.Lhs[0].(*ast.Ident); ok && t.mut[id.Name] {
				switch s.Tok {
				case token.ASSIGN:
					l.f("%s%s := %s", ind, id.Name, t.expr(s.Rhs[0]))
					return
				case token.SUB_ASSIGN:
					l.f("%s%s := ((%s + 4294967296 - %s) %% 4294967296)", ind, id.Name, id.Name, t.expr(s.Rhs[0]))
					return
				case token.ADD_ASSIGN:
					l.f("%s%s := ((%s + %s) %% 4294967296)", ind, id.Name, id.Name, t.expr(s.Rhs[0]))
					return
				}
			}
		}
		t.fail(s, "unsupported assignment")
	default:
		t.fail(s, "unsupported statement")
	}
}

// isCallOn reports whether e is `fn(<slice>, args…)` and returns the text of the first argument.
func isCallOn(e ast.Expr, fn string, nargs int) (string, []ast.Expr, bool) {
	c, ok := e.(*ast.CallExpr)
	if !ok || len(c.Args) != nargs {
		return "", nil, false
	}
	id, ok := c.Fun.(*ast.Ident)
	if !ok || id.Name != fn {
		return "", nil, false
	}
	return nodeText(c.Args[0]), c.Args, true
}

func ttlBlock() (string, error) {
	f, err := parseFile("resolver/cache.go")
	if err != nil {
		return "", err
	}
	fd := findFunc(f, "updateTTL")
	if fd == nil {
		return "", fmt.Errorf("updateTTL not found")
	}
	// parameters must be the four we pass through
	var pnames []string
	for _, p := range fd.Type.Params.List {
		for _, n := range p.Names {
			pnames = append(pnames, n.Name)
		}
	}
	if strings.Join(pnames, ",") != "msg,age,maxAge,maxTTL" {
		return "", fmt.Errorf("updateTTL parameters are %v", pnames)
	}
	var cands []*ast.IfStmt
	ast.Inspect(fd.Body, func(n ast.Node) bool {
		if is, ok := n.(*ast.IfStmt); ok && is.Init == nil && is.Else == nil {
			if be, ok := is.Cond.(*ast.BinaryExpr); ok && be.Op == token.NEQ &&
				nodeText(be.X) == "query.Type(qtype)" && nodeText(be.Y) == "query.TypeOPT" {
				cands = append(cands, is)
				return false
			}
		}
		return true
	})
	if len(cands) != 1 {
		return "", fmt.Errorf("expected exactly one `if query.Type(qtype) != query.TypeOPT` block, found %d", len(cands))
	}
	body := cands[0].Body.List
	if len(body) < 2 {
		return "", fmt.Errorf("TTL block too short")
	}
	// first statement: ttl := unpackUint32(msg[off-6:])
	first, ok := body[0].(*ast.AssignStmt)
	if !ok || first.Tok != token.DEFINE || len(first.Lhs) != 1 || len(first.Rhs) != 1 || nodeText(first.Lhs[0]) != "ttl" {
		return "", fmt.Errorf("TTL block does not start with `ttl := …`")
	}
	rdSlice, _, ok := isCallOn(first.Rhs[0], "unpackUint32", 1)
	if !ok {
		return "", fmt.Errorf("ttl is not read with unpackUint32")
	}
	// last statement: packUint32(msg[off-6:], ttl)
	last, ok := body[len(body)-1].(*ast.ExprStmt)
	if !ok {
		return "", fmt.Errorf("TTL block does not end with the packUint32 call")
	}
	wrSlice, args, ok := isCallOn(last.X, "packUint32", 2)
	if !ok || nodeText(args[1]) != "ttl" {
		return "", fmt.Errorf("TTL block does not end with packUint32(…, ttl)")
	}
	if rdSlice != wrSlice {
		return "", fmt.Errorf("TTL read from %s but written to %s", rdSlice, wrSlice)
	}
	t := &ttlTr{mut: map[string]bool{"ttl": true, "minTTL": true},
		params: map[string]bool{"age": true, "maxAge": true, "maxTTL": true, "i": true, "additionalsIdx": true}}
	var l lines
	t.stmts(&l, body[1:len(body)-1], "  ")
	if t.err != nil {
		return "", t.err
	}
	return strings.TrimRight(l.b.String(), "\n") + "\n", nil
}

func genTTL() {
	var l lines
	l.f("-- GENERATED by /verif/extract from the repository (resolver/cache.go, resolver/query/query.go).")
	l.f("-- Do not edit: rewritten on every check.")
	l.f("import NV.Model.TTL")
	l.f("namespace NV.Gen")
	opt := int64(-1)
	if f, err := parseFile("resolver/query/query.go"); err == nil {
		if v, ok := intConsts(f)["TypeOPT"]; ok {
			opt = v
		}
	}
	if opt >= 0 {
		l.f("def typeOPT : Nat := %d", opt)
	} else {
		fmt.Println("FALLBACK typeOPT: query.TypeOPT not found as an integer literal")
		l.f("def typeOPT : Nat := NV.TTL.typeOPT")
	}
	body, err := ttlBlock()
	if err != nil {
		fmt.Println("FALLBACK ttlBlock:", err)
		l.f("def ttlBlock (ttl0 age maxAge maxTTL minTTL0 i additionalsIdx : Nat) : Nat × Nat :=")
		l.f("  (NV.TTL.clampTTL (NV.TTL.aged ttl0 age) maxTTL,")
		l.f("   if i < additionalsIdx then NV.TTL.minStep minTTL0 (NV.TTL.aged ttl0 age) age maxAge else minTTL0)")
	} else {
		l.f("/-- the body of `if query.Type(qtype) != query.TypeOPT { … }` in `updateTTL`, statement by statement:")
		l.f("`ttl0` is the value read by `unpackUint32`, the first component is the value written by `packUint32` -/")
		l.f("def ttlBlock (ttl0 age maxAge maxTTL minTTL0 i additionalsIdx : Nat) : Nat × Nat := Id.run do")
		l.f("  let mut ttl := ttl0")
		l.f("  let mut minTTL := minTTL0")
		l.b.WriteString(body)
		l.f("  return (ttl, minTTL)")
	}
	l.f("end NV.Gen")
	writeIfChanged("TTL.lean", l.b.String())
}
