package main

import (
	"fmt"
	"go/ast"
	"go/token"
	"strings"
)

// C01 ("never another client's answer"): ownership of the pooled buffers of proxy/udp.go and
// proxy/tcp.go. For every variable v assigned from `*<pool>.Get().(*[]byte)` the CFG of the
// function (and of the handler closure it is handed to) is projected on "this goroutine owns v":
//   v := *pool.Get()…            -> .acq
//   pool.Put(&v)                 -> .rel          (inside a deferred function literal: .deferRel)
//   go func(){ … v … }()         -> .spawn        when the closure puts v back itself (ownership
//                                                  moves to the new goroutine); a closure that only
//                                                  uses v is a PROBLEM (two goroutines, one owner)
//   any other mention of v       -> .need         (read, write, slice, argument)
// A use of v after `pool.Put(&v)` inside the same deferred function is reported as a problem and
// encoded as a second release. NV.C01.pool_cert_ok checks every certificate with the "leak
// allowed" exit rule (a buffer still owned at `return` is dropped to the garbage collector, which
// is safe); with `cert_soundL`/`point_okL` this gives, on every path: no use and no Put of a buffer
// the goroutine does not own (no use-after-put, no double put).

type poolWalk struct {
	v        string
	pool     string
	problems []string
}

// isGetAssign recognises `v := *pool.Get().(*[]byte)` (also `=`); returns variable and pool names.
func isGetAssign(n ast.Node) (v, pool string, ok bool) {
	a, isA := n.(*ast.AssignStmt)
	if !isA || len(a.Lhs) != 1 || len(a.Rhs) != 1 {
		return
	}
	id, isI := a.Lhs[0].(*ast.Ident)
	if !isI {
		return
	}
	txt := nodeText(a.Rhs[0])
	i := strings.Index(txt, ".Get()")
	if i < 0 || !strings.HasPrefix(txt, "*") {
		return
	}
	return id.Name, strings.TrimPrefix(txt[:i], "*"), true
}

// isPutOf recognises `pool.Put(&v)`.
func (w *poolWalk) isPutOf(n ast.Node) bool {
	c, ok := n.(*ast.CallExpr)
	if !ok || len(c.Args) != 1 {
		return false
	}
	sel, ok := c.Fun.(*ast.SelectorExpr)
	if !ok || sel.Sel.Name != "Put" {
		return false
	}
	u, ok := c.Args[0].(*ast.UnaryExpr)
	return ok && u.Op == token.AND && isIdent(u.X, w.v)
}

func (w *poolWalk) mentions(n ast.Node) int {
	k := 0
	ast.Inspect(n, func(x ast.Node) bool {
		if id, ok := x.(*ast.Ident); ok && id.Name == w.v {
			k++
		}
		return true
	})
	return k
}

func (w *poolWalk) putsAnywhere(n ast.Node) int {
	k := 0
	ast.Inspect(n, func(x ast.Node) bool {
		if w.isPutOf(x) {
			k++
		}
		return true
	})
	return k
}

// deferredEvents: the body of a deferred function literal, statement by statement.
func (w *poolWalk) deferredEvents(lit *ast.FuncLit) []ev {
	var evs []ev
	put := false
	for _, st := range lit.Body.List {
		es, isE := st.(*ast.ExprStmt)
		if isE && w.isPutOf(es.X) {
			evs = append(evs, evDeferRel)
			put = true
			continue
		}
		if w.putsAnywhere(st) > 0 {
			w.problems = append(w.problems, fmt.Sprintf("%s is put back conditionally inside a deferred function at %s", w.v, fset.Position(st.Pos())))
			evs = append(evs, evDeferRel, evDeferRel)
			continue
		}
		if put && w.mentions(st) > 0 {
			w.problems = append(w.problems, fmt.Sprintf("%s is used after it was put back, inside a deferred function at %s", w.v, fset.Position(st.Pos())))
			evs = append(evs, evDeferRel)
		}
	}
	return evs
}

func (w *poolWalk) classify(n ast.Node) []ev {
	switch s := n.(type) {
	case *ast.GoStmt:
		lit, ok := s.Call.Fun.(*ast.FuncLit)
		if !ok {
			if w.mentions(s.Call) > 0 {
				w.problems = append(w.problems, fmt.Sprintf("%s is handed to a goroutine that is not a function literal at %s", w.v, fset.Position(s.Pos())))
				return []ev{evRel, evRel}
			}
			return nil
		}
		if w.mentions(lit.Body) == 0 {
			return nil
		}
		// redeclared inside (its own Get)? then the closure's v is another variable
		redecl := false
		ast.Inspect(lit.Body, func(x ast.Node) bool {
			if v, _, ok := isGetAssign(x); ok && v == w.v {
				if a := x.(*ast.AssignStmt); a.Tok == token.DEFINE {
					redecl = true
				}
			}
			return true
		})
		if redecl {
			return nil
		}
		if w.putsAnywhere(lit.Body) > 0 {
			return []ev{evSpawn}
		}
		w.problems = append(w.problems, fmt.Sprintf("%s is used by a goroutine that does not own it at %s", w.v, fset.Position(s.Pos())))
		return []ev{evRel, evRel}
	case *ast.DeferStmt:
		if lit, ok := s.Call.Fun.(*ast.FuncLit); ok {
			return w.deferredEvents(lit)
		}
		if w.mentions(s.Call) > 0 {
			return []ev{evNeed}
		}
		return nil
	}
	if v, _, ok := isGetAssign(n); ok && v == w.v {
		return []ev{evAcq}
	}
	var evs []ev
	// puts first in source order relative to other mentions inside one node is not tracked: a node
	// is either a Put statement or a use
	if es, ok := n.(*ast.ExprStmt); ok && w.isPutOf(es.X) {
		return []ev{evRel}
	}
	uses := 0
	inspectNoLit(n, func(x ast.Node) {
		if w.isPutOf(x) {
			evs = append(evs, evRel)
		}
		if id, ok := x.(*ast.Ident); ok && id.Name == w.v {
			uses++
		}
	})
	if uses > len(evs) { // mentions beyond the `&v` of the puts
		evs = append([]ev{evNeed}, evs...)
	}
	return evs
}

type poolProj struct {
	name   string
	p      *prog
	fn, v  string
	handed bool
}

func genPoolCFG(l *lines) (problems []string) {
	var names []string
	for _, it := range []struct{ file, fn string }{{"proxy/udp.go", "serveUDP"}, {"proxy/tcp.go", "serveTCPConn"}} {
		f, err := parseFile(it.file)
		if err != nil {
			fmt.Println("FALLBACK poolcfg:", err)
			continue
		}
		fd := findFunc(f, it.fn)
		if fd == nil || fd.Body == nil {
			fmt.Println("FALLBACK poolcfg:", it.fn, "not found")
			continue
		}
		// pooled variables of the function body (closures excluded) and of each `go` closure
		var outer []string
		inspectNoLit(fd.Body, func(x ast.Node) {
			if v, _, ok := isGetAssign(x); ok {
				outer = append(outer, v)
			}
		})
		var closures []*ast.FuncLit
		inspectNoLit(fd.Body, func(x ast.Node) {
			if g, ok := x.(*ast.GoStmt); ok {
				if lit, ok := g.Call.Fun.(*ast.FuncLit); ok {
					closures = append(closures, lit)
				}
			}
		})
		for _, v := range outer {
			w := &poolWalk{v: v}
			p := buildProg(fmt.Sprintf("pool_%s_%s", it.fn, v), fd.Body, w.classify, [2]int{0, 0}, false)
			p.lean(l)
			names = append(names, p.name)
			problems = append(problems, p.problems...)
			problems = append(problems, w.problems...)
			for k, lit := range closures {
				if (&poolWalk{v: v}).mentions(lit.Body) == 0 {
					continue
				}
				// the handler owns the captured buffer from its first instruction
				w2 := &poolWalk{v: v}
				hp := buildProg(fmt.Sprintf("pool_%s_handler%d_%s", it.fn, k, v), lit.Body, w2.classify, [2]int{1, 0}, true)
				hp.lean(l)
				names = append(names, hp.name)
				problems = append(problems, hp.problems...)
				problems = append(problems, w2.problems...)
			}
		}
		for k, lit := range closures {
			var inner []string
			inspectNoLit(lit.Body, func(x ast.Node) {
				if v, _, ok := isGetAssign(x); ok {
					inner = append(inner, v)
				}
			})
			for _, v := range inner {
				w := &poolWalk{v: v}
				hp := buildProg(fmt.Sprintf("pool_%s_handler%d_%s", it.fn, k, v), lit.Body, w.classify, [2]int{0, 0}, true)
				hp.lean(l)
				names = append(names, hp.name)
				problems = append(problems, hp.problems...)
				problems = append(problems, w.problems...)
			}
		}
	}
	// a buffer still owned at a return is dropped to the garbage collector: not a problem here
	kept := problems[:0]
	for _, pr := range problems {
		var h, d int
		if i := strings.Index(pr, " holds "); i >= 0 && strings.Contains(pr, ": exit at block") {
			if _, err := fmt.Sscanf(pr[i:], " holds %d units with %d deferred releases", &h, &d); err == nil && h >= d {
				continue
			}
		}
		kept = append(kept, pr)
	}
	problems = kept
	l.f("/-- every function / handler closure projected on the ownership of one pooled buffer variable (C01) -/")
	l.f("def allPools : List (String × Prog × Cert × St × Bool) := [")
	for i, n := range names {
		sep := ","
		if i == len(names)-1 {
			sep = ""
		}
		l.f("  (\"%s\", %s, %s_cert, %s_init, %s_strict)%s", n, n, n, n, n, sep)
	}
	l.f("]")
	return problems
}
