package main

import (
	"fmt"
	"go/ast"
	"go/token"
	"strings"

	"nvextract/cfg"
)

// Resource-event CFGs (NV.Model.CFG): the CFG of a function body (go/cfg, vendored from
// golang.org/x/tools v0.29.0) projected on one counted resource.

type ev int

const (
	evAcq ev = iota
	evRel
	evSpawn
	evDeferRel
	evNeed
)

var evLean = map[ev]string{evAcq: ".acq", evRel: ".rel", evSpawn: ".spawn", evDeferRel: ".deferRel", evNeed: ".need"}

type progBlock struct {
	evs   []ev
	succs []int
	pos   token.Pos
}

type prog struct {
	name   string
	blocks []progBlock
	cert   [][2]int
	init   [2]int
	strict bool
	// problems found while computing the certificate (human-readable, for the replay file)
	problems []string
}

// classifier returns the events of one CFG node, in evaluation order.
type classifier func(n ast.Node) []ev

func mayReturn(c *ast.CallExpr) bool {
	if id, ok := c.Fun.(*ast.Ident); ok && id.Name == "panic" {
		return false
	}
	return true
}

func buildProg(name string, body *ast.BlockStmt, cl classifier, init [2]int, strict bool) *prog {
	return buildProgE(name, body, cl, nil, init, strict)
}

// edgeClassifier returns events that happen ON the k-th outgoing edge of a block (k = 0: the
// condition ending the block is true, k = 1: false). Such an edge is split by a synthetic block
// carrying the events, so the Lean CFG model needs no notion of edge events.
type edgeClassifier func(b *cfg.Block, k int) []ev

func buildProgE(name string, body *ast.BlockStmt, cl classifier, ecl edgeClassifier, init [2]int, strict bool) *prog {
	g := cfg.New(body, mayReturn)
	idx := map[*cfg.Block]int{}
	var live []*cfg.Block
	// keep blocks reachable from the entry only
	var visit func(b *cfg.Block)
	visit = func(b *cfg.Block) {
		if _, ok := idx[b]; ok {
			return
		}
		idx[b] = len(live)
		live = append(live, b)
		for _, s := range b.Succs {
			visit(s)
		}
	}
	if len(g.Blocks) > 0 {
		visit(g.Blocks[0])
	}
	p := &prog{name: name, init: init, strict: strict}
	p.blocks = make([]progBlock, len(live))
	for i, b := range live {
		pb := progBlock{}
		for _, n := range b.Nodes {
			pb.evs = append(pb.evs, cl(n)...)
			if pb.pos == token.NoPos {
				pb.pos = n.Pos()
			}
		}
		for _, s := range b.Succs {
			pb.succs = append(pb.succs, idx[s])
		}
		p.blocks[i] = pb
	}
	if ecl != nil {
		for i, b := range live {
			for k := range b.Succs {
				if evs := ecl(b, k); len(evs) > 0 {
					p.blocks = append(p.blocks, progBlock{evs: evs, succs: []int{p.blocks[i].succs[k]}, pos: p.blocks[i].pos})
					p.blocks[i].succs[k] = len(p.blocks) - 1
				}
			}
		}
	}
	p.computeCert()
	return p
}

func apply(e ev, s [2]int) [2]int {
	switch e {
	case evAcq:
		s[0]++
	case evRel, evSpawn:
		s[0]--
	case evDeferRel:
		s[1]++
	}
	return s
}

// computeCert propagates the entry state forward (first visit wins); inconsistencies are left
// for the Lean check to reject and are described in p.problems.
func (p *prog) computeCert() {
	n := len(p.blocks)
	p.cert = make([][2]int, n)
	seen := make([]bool, n)
	if n == 0 {
		return
	}
	type item struct {
		b int
		s [2]int
	}
	work := []item{{0, p.init}}
	for len(work) > 0 {
		it := work[0]
		work = work[1:]
		if seen[it.b] {
			if p.cert[it.b] != it.s {
				p.problems = append(p.problems, fmt.Sprintf("%s: block %d (%s) is reached holding %d and holding %d units",
					p.name, it.b, fset.Position(p.blocks[it.b].pos), p.cert[it.b][0]-p.cert[it.b][1], it.s[0]-it.s[1]))
			}
			continue
		}
		seen[it.b] = true
		p.cert[it.b] = it.s
		s := it.s
		for _, e := range p.blocks[it.b].evs {
			if e == evNeed && s[0] < 1 {
				p.problems = append(p.problems, fmt.Sprintf("%s: block %d (%s) calls a function that needs the resource held, holding %d",
					p.name, it.b, fset.Position(p.blocks[it.b].pos), s[0]))
			}
			s = apply(e, s)
			if s[0] < 0 {
				p.problems = append(p.problems, fmt.Sprintf("%s: block %d (%s) releases a unit it does not hold",
					p.name, it.b, fset.Position(p.blocks[it.b].pos)))
			}
			if p.strict && s[1] > 0 && s[0] != s[1] {
				p.problems = append(p.problems, fmt.Sprintf("%s: block %d (%s): a panic here would unwind holding %d units with %d deferred releases",
					p.name, it.b, fset.Position(p.blocks[it.b].pos), s[0], s[1]))
			}
		}
		if len(p.blocks[it.b].succs) == 0 && s[0] != s[1] {
			p.problems = append(p.problems, fmt.Sprintf("%s: exit at block %d (%s) holds %d units with %d deferred releases",
				p.name, it.b, fset.Position(p.blocks[it.b].pos), s[0], s[1]))
		}
		for _, j := range p.blocks[it.b].succs {
			work = append(work, item{j, s})
		}
	}
}

func (p *prog) lean(l *lines) {
	l.f("def %s : Prog := [", p.name)
	for i, b := range p.blocks {
		var es []string
		for _, e := range b.evs {
			es = append(es, evLean[e])
		}
		var ss []string
		for _, s := range b.succs {
			ss = append(ss, fmt.Sprint(s))
		}
		sep := ","
		if i == len(p.blocks)-1 {
			sep = ""
		}
		l.f("  ⟨[%s], [%s]⟩%s", strings.Join(es, ", "), strings.Join(ss, ", "), sep)
	}
	l.f("]")
	var cs []string
	for _, c := range p.cert {
		cs = append(cs, fmt.Sprintf("(%d, %d)", c[0], c[1]))
	}
	l.f("def %s_cert : Cert := [%s]", p.name, strings.Join(cs, ", "))
	l.f("def %s_init : St := (%d, %d)", p.name, p.init[0], p.init[1])
	l.f("def %s_strict : Bool := %v", p.name, p.strict)
}

// inspectNoLit walks n without descending into function literals.
func inspectNoLit(n ast.Node, f func(ast.Node)) {
	ast.Inspect(n, func(x ast.Node) bool {
		if x == nil {
			return false
		}
		if _, ok := x.(*ast.FuncLit); ok {
			return false
		}
		f(x)
		return true
	})
}

func isIdent(e ast.Expr, name string) bool {
	id, ok := e.(*ast.Ident)
	return ok && id.Name == name
}
