module nvextract

go 1.20
