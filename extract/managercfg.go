package main

import (
	"fmt"
	"go/ast"
	"go/token"
	"sort"
	"strings"
)

// C09 (and C08): lock discipline of resolver/endpoint/manager.go.
//
// Every listed method is projected on each mutex/mode it can touch:
//   Manager methods:        mW (m.mu Lock/Unlock), mR (m.mu RLock/RUnlock)
//   activeEnpoint methods:  eW, eR, and eA (either mode; carries the `need` of …Locked callees
//                           that only read; callees that assign a receiver field also `need` eW)
// Events: Lock/RLock = acq, Unlock/RUnlock = rel, `defer x.mu.Unlock()` = deferRel, call of a
// `…Locked` method on the receiver = need.  A `…Locked` function starts in state (1,1): it holds
// the lock and the caller is responsible for exactly one release, so the exit test
// `held = deferred` reads "returns with the lock still held exactly once".
// Anything the classifier does not understand (a mutex reached through another expression than
// the receiver, a …Locked call on another object) makes the whole file fall back.

var managerFuncs = []string{"Test", "testLocked", "getActiveEndpoint", "Do", "shouldTest", "setTesting", "test", "do",
	"findBestEndpointLocked", "newActiveEndpointLocked", "testTimeExceededLocked", "resetLastTestLocked"}

type lockProj struct {
	suffix string // mW mR eW eR eA
	typ    string // receiver type owning the mutex
	w, r   bool   // which modes count
}

var lockProjs = []lockProj{
	{"mW", "Manager", true, false}, {"mR", "Manager", false, true},
	{"eW", "activeEnpoint", true, false}, {"eR", "activeEnpoint", false, true}, {"eA", "activeEnpoint", true, true},
}

func recvOf(fd *ast.FuncDecl) (name, typ string) {
	if fd.Recv == nil || len(fd.Recv.List) != 1 || len(fd.Recv.List[0].Names) != 1 {
		return "", ""
	}
	name = fd.Recv.List[0].Names[0].Name
	t := fd.Recv.List[0].Type
	if s, ok := t.(*ast.StarExpr); ok {
		t = s.X
	}
	if id, ok := t.(*ast.Ident); ok {
		typ = id.Name
	}
	return
}

// writesRecvField reports whether fd assigns to a field of its receiver.
func writesRecvField(fd *ast.FuncDecl) bool {
	rn, _ := recvOf(fd)
	found := false
	ast.Inspect(fd.Body, func(x ast.Node) bool {
		switch s := x.(type) {
		case *ast.AssignStmt:
			for _, l := range s.Lhs {
				if se, ok := l.(*ast.SelectorExpr); ok && isIdent(se.X, rn) {
					found = true
				}
			}
		case *ast.IncDecStmt:
			if se, ok := s.X.(*ast.SelectorExpr); ok && isIdent(se.X, rn) {
				found = true
			}
		}
		return !found
	})
	return found
}

type lockExtract struct {
	file    *ast.File
	foreign map[string]bool // other identifiers whose .mu is locked in this function
	only    string          // when set: project on THIS identifier's mutex instead of the receiver's
	recv    string          // receiver identifier of the function being projected
	typ     string          // its type
	proj    lockProj
	err     error
	nEvent  int
}

// lockCall recognises `<recv>.mu.<Lock|Unlock|RLock|RUnlock>()`; other `.mu.` uses are unsupported.
func (x *lockExtract) lockCall(c *ast.CallExpr) (op string, ok bool) {
	se, ok1 := c.Fun.(*ast.SelectorExpr)
	if !ok1 {
		return "", false
	}
	switch se.Sel.Name {
	case "Lock", "Unlock", "RLock", "RUnlock", "TryLock", "TryRLock":
	default:
		return "", false
	}
	mu, ok2 := se.X.(*ast.SelectorExpr)
	if !ok2 || mu.Sel.Name != "mu" {
		return "", false
	}
	if strings.HasPrefix(se.Sel.Name, "Try") {
		x.err = fmt.Errorf("unsupported mutex use at %s", fset.Position(c.Pos()))
		return "", false
	}
	if id, ok := mu.X.(*ast.Ident); ok && !isIdent(mu.X, x.recv) {
		// the mutex of another object held in a local variable (e.g. `ae.mu` inside a Manager
		// method): projected separately, see the `<fn>_<ident>W` programs
		if x.only == id.Name {
			return se.Sel.Name, true
		}
		if x.foreign == nil {
			x.foreign = map[string]bool{}
		}
		x.foreign[id.Name] = true
		return "", false
	}
	if !isIdent(mu.X, x.recv) {
		x.err = fmt.Errorf("unsupported mutex use at %s", fset.Position(c.Pos()))
		return "", false
	}
	if x.only != "" {
		return "", false
	}
	return se.Sel.Name, true
}

func (x *lockExtract) classify(n ast.Node) []ev {
	var evs []ev
	mine := x.proj.typ == x.typ
	if d, ok := n.(*ast.DeferStmt); ok {
		if op, ok := x.lockCall(d.Call); ok && mine {
			if (op == "Unlock" && x.proj.w) || (op == "RUnlock" && x.proj.r) {
				evs = append(evs, evDeferRel)
			} else if op == "Lock" || op == "RLock" {
				x.err = fmt.Errorf("deferred acquire at %s", fset.Position(d.Pos()))
			}
		} else if lit, ok := d.Call.Fun.(*ast.FuncLit); ok {
			// a deferred closure touching a mutex is not understood
			ast.Inspect(lit.Body, func(y ast.Node) bool {
				if c, ok := y.(*ast.CallExpr); ok {
					if _, ok := x.lockCall(c); ok {
						x.err = fmt.Errorf("mutex used inside a deferred closure at %s", fset.Position(c.Pos()))
					}
				}
				return true
			})
		}
		x.nEvent += len(evs)
		return evs
	}
	inspectNoLit(n, func(y ast.Node) {
		c, ok := y.(*ast.CallExpr)
		if !ok {
			return
		}
		if op, ok := x.lockCall(c); ok {
			if !mine {
				return
			}
			switch {
			case op == "Lock" && x.proj.w, op == "RLock" && x.proj.r:
				evs = append(evs, evAcq)
			case op == "Unlock" && x.proj.w, op == "RUnlock" && x.proj.r:
				evs = append(evs, evRel)
			}
			return
		}
		if se, ok := c.Fun.(*ast.SelectorExpr); ok && strings.HasSuffix(se.Sel.Name, "Locked") {
			if !isIdent(se.X, x.recv) {
				x.err = fmt.Errorf("…Locked method called on another object at %s", fset.Position(c.Pos()))
				return
			}
			if !mine {
				return
			}
			callee := findFunc(x.file, se.Sel.Name)
			switch x.proj.suffix {
			case "mW", "eA":
				evs = append(evs, evNeed)
			case "eW":
				if callee == nil || writesRecvField(callee) {
					evs = append(evs, evNeed)
				}
			}
		}
	})
	x.nEvent += len(evs)
	return evs
}

func genManagerCFG() (problems []string) {
	var l lines
	l.f("-- GENERATED by /verif/extract from resolver/endpoint/manager.go (go/cfg). Do not edit.")
	l.f("import NV.Model.CFG")
	l.f("namespace NV.Gen.ManagerCFG")
	l.f("open NV.CFG")
	var names []string
	var body lines
	fail := func(why string) {
		fmt.Println("FALLBACK managercfg:", why)
		names = nil
		body = lines{}
	}
	f, err := parseFile("resolver/endpoint/manager.go")
	if err != nil {
		fail(err.Error())
	} else {
	outer:
		for _, fn := range managerFuncs {
			fd := findFunc(f, fn)
			if fd == nil || fd.Body == nil {
				fail(fn + " not found")
				break
			}
			rn, rt := recvOf(fd)
			if rn == "" || (rt != "Manager" && rt != "activeEnpoint") {
				fail(fn + ": unexpected receiver")
				break
			}
			for _, pj := range lockProjs {
				if pj.typ != rt {
					continue
				}
				init := [2]int{0, 0}
				if strings.HasSuffix(fn, "Locked") && (pj.suffix == "mW" || pj.suffix == "eA") {
					init = [2]int{1, 1}
				}
				if strings.HasSuffix(fn, "Locked") && pj.suffix == "eW" && writesRecvField(fd) {
					init = [2]int{1, 1}
				}
				x := &lockExtract{file: f, recv: rn, typ: rt, proj: pj}
				p := buildProg(fn+"_"+pj.suffix, fd.Body, x.classify, init, false)
				if x.err != nil {
					fail(x.err.Error())
					break outer
				}
				p.lean(&body)
				body.f("def %s_events : Nat := %d", p.name, x.nEvent)
				names = append(names, p.name)
				problems = append(problems, p.problems...)
				// write-lock projections of other objects' mutexes used in this function
				if pj.suffix == "mW" || pj.suffix == "eW" {
					var ids []string
					for id := range x.foreign {
						ids = append(ids, id)
					}
					sort.Strings(ids)
					for _, id := range ids {
						y := &lockExtract{file: f, recv: rn, typ: rt, only: id, proj: lockProj{"fW", rt, true, true}}
						fp := buildProg(fn+"_"+id+"W", fd.Body, y.classify, [2]int{0, 0}, false)
						if y.err != nil {
							fail(y.err.Error())
							break outer
						}
						fp.lean(&body)
						body.f("def %s_events : Nat := %d", fp.name, y.nEvent)
						names = append(names, fp.name)
						problems = append(problems, fp.problems...)
					}
				}
			}
		}
	}
	l.b.WriteString(body.b.String())
	l.f("/-- every extracted (function, mutex/mode) projection with its certificate, entry state and strictness -/")
	l.f("def all : List (String × Prog × Cert × St × Bool) := [")
	for i, n := range names {
		sep := ","
		if i == len(names)-1 {
			sep = ""
		}
		l.f("  (\"%s\", %s, %s_cert, %s_init, %s_strict)%s", n, n, n, n, n, sep)
	}
	l.f("]")
	l.f("/-- names of the projections whose certificate the extractor itself found inconsistent (informational) -/")
	l.f("def problemCount : Nat := %d", len(problems))
	l.f("end NV.Gen.ManagerCFG")
	writeIfChanged("ManagerCFG.lean", l.b.String())
	for _, p := range problems {
		fmt.Println("PROBLEM", p)
	}
	return problems
}

var _ = token.NoPos
