package main

// C20: regenerate lean/NV/Gen/Router.lean from router/*/setup.go and router/detect_linux.go:
// per firmware the dnsmasq template literal, ListenPort, the drop-in path, the `c.Listens`
// assignments of Configure, every all-literal exec.Command argv outside the detection helpers,
// the exported fields of the Router struct (the template's data), the String() literal; for ddwrt
// the nvram names saved and the variables set; and the order of detectRouter.
// Anything of an unexpected shape falls back to the hand constants (FALLBACK line).

import (
	"fmt"
	"go/ast"
	"go/parser"
	"go/token"
	"os"
	"path/filepath"
	"sort"
	"strconv"
	"strings"
)

var routerFirmwares = []string{"openwrt", "merlin", "ddwrt", "edgeos", "synology", "ubios", "firewalla", "generic"}

func leanBytesR(s string) string {
	if len(s) == 0 {
		return "([] : Bytes)"
	}
	var b strings.Builder
	b.WriteString("([")
	for i := 0; i < len(s); i++ {
		if i > 0 {
			b.WriteString(", ")
		}
		fmt.Fprintf(&b, "%d", s[i])
	}
	b.WriteString("] : Bytes)")
	return b.String()
}

func leanComment(s string) string {
	q := strconv.Quote(s)
	q = strings.ReplaceAll(q, "-/", "-\\/")
	return q
}

func isSel(e ast.Expr, x, sel string) bool {
	se, ok := e.(*ast.SelectorExpr)
	if !ok || se.Sel.Name != sel {
		return false
	}
	id, ok := se.X.(*ast.Ident)
	return ok && (x == "" || id.Name == x)
}

type fwFacts struct {
	name, tmpl, port, path string
	listens                [][]string // parts: "L<text>" literal, "P" the ListenPort field
	cmds                   [][]string
	fields                 []string // "S<name>" string field, "B<name>" bool field
	nvSave                 []string
	nvSet                  []string // "L<lit>" or "R<lit>" (R: + rendered template)
}

func parsePkg(dir string) ([]*ast.File, error) {
	ents, err := os.ReadDir(dir)
	if err != nil {
		return nil, err
	}
	var fs []*ast.File
	var names []string
	for _, e := range ents {
		if strings.HasSuffix(e.Name(), ".go") && !strings.HasSuffix(e.Name(), "_test.go") {
			names = append(names, e.Name())
		}
	}
	sort.Strings(names)
	for _, n := range names {
		f, err := parser.ParseFile(fset, filepath.Join(dir, n), nil, 0)
		if err != nil {
			return nil, err
		}
		fs = append(fs, f)
	}
	return fs, nil
}

func pkgFunc(fs []*ast.File, name string, recv bool) *ast.FuncDecl {
	for _, f := range fs {
		for _, d := range f.Decls {
			if fd, ok := d.(*ast.FuncDecl); ok && fd.Name.Name == name && (fd.Recv != nil) == recv && fd.Body != nil {
				return fd
			}
		}
	}
	return nil
}

// listenParts translates one element of `[]string{...}` assigned to c.Listens.
func listenParts(e ast.Expr) ([]string, error) {
	if s, ok := strLit(e); ok {
		return []string{"L" + s}, nil
	}
	switch e := e.(type) {
	case *ast.BinaryExpr:
		if e.Op == token.ADD {
			if s, ok := strLit(e.X); ok && isSel(e.Y, "", "ListenPort") {
				return []string{"L" + s, "P"}, nil
			}
		}
	case *ast.CallExpr:
		if isSel(e.Fun, "net", "JoinHostPort") && len(e.Args) == 2 {
			if h, ok := strLit(e.Args[0]); ok && !strings.Contains(h, ":") && isSel(e.Args[1], "", "ListenPort") {
				return []string{"L" + h + ":", "P"}, nil
			}
		}
	}
	return nil, fmt.Errorf("unsupported listen expression at %s", fset.Position(e.Pos()))
}

func extractFirmware(fw string) (*fwFacts, error) {
	fs, err := parsePkg(filepath.Join(repo, "router", fw))
	if err != nil {
		return nil, err
	}
	ff := &fwFacts{}
	// String()
	if fd := pkgFunc(fs, "String", true); fd != nil {
		for _, st := range fd.Body.List {
			if rs, ok := st.(*ast.ReturnStmt); ok && len(rs.Results) == 1 {
				if s, ok := strLit(rs.Results[0]); ok {
					ff.name = s
				}
			}
		}
		if ff.name == "" {
			return nil, fmt.Errorf("String() does not return a literal")
		}
	}
	// struct fields
	for _, f := range fs {
		for _, d := range f.Decls {
			gd, ok := d.(*ast.GenDecl)
			if !ok {
				continue
			}
			for _, sp := range gd.Specs {
				switch sp := sp.(type) {
				case *ast.TypeSpec:
					st, ok := sp.Type.(*ast.StructType)
					if sp.Name.Name != "Router" || !ok {
						continue
					}
					for _, fl := range st.Fields.List {
						id, ok := fl.Type.(*ast.Ident)
						for _, n := range fl.Names {
							if !n.IsExported() {
								continue
							}
							if !ok || (id.Name != "string" && id.Name != "bool") {
								return nil, fmt.Errorf("exported field %s of unsupported type", n.Name)
							}
							if id.Name == "string" {
								ff.fields = append(ff.fields, "S"+n.Name)
							} else {
								ff.fields = append(ff.fields, "B"+n.Name)
							}
						}
					}
				case *ast.ValueSpec:
					if gd.Tok == token.VAR && len(sp.Names) == 1 && sp.Names[0].Name == "tmpl" && len(sp.Values) == 1 {
						s, ok := strLit(sp.Values[0])
						if !ok {
							return nil, fmt.Errorf("tmpl is not a string literal")
						}
						ff.tmpl = s
					}
				}
			}
		}
	}
	// New(): the composite literal
	if nf := pkgFunc(fs, "New", false); nf != nil {
		locals := map[string]string{}
		var ferr error
		ast.Inspect(nf.Body, func(n ast.Node) bool {
			switch n := n.(type) {
			case *ast.AssignStmt:
				if n.Tok == token.DEFINE && len(n.Lhs) == 1 && len(n.Rhs) == 1 {
					if id, ok := n.Lhs[0].(*ast.Ident); ok {
						if s, ok := strLit(n.Rhs[0]); ok {
							locals[id.Name] = s
						}
					}
				}
			case *ast.CompositeLit:
				if id, ok := n.Type.(*ast.Ident); !ok || id.Name != "Router" {
					return true
				}
				for _, el := range n.Elts {
					kv, ok := el.(*ast.KeyValueExpr)
					if !ok {
						continue
					}
					k, _ := kv.Key.(*ast.Ident)
					if k == nil {
						continue
					}
					switch k.Name {
					case "ListenPort":
						s, ok := strLit(kv.Value)
						if !ok {
							ferr = fmt.Errorf("ListenPort is not a literal")
						}
						ff.port = s
					case "DNSMasqPath":
						if s, ok := strLit(kv.Value); ok {
							ff.path = s
						} else if id, ok := kv.Value.(*ast.Ident); ok && locals[id.Name] != "" {
							ff.path = locals[id.Name]
						} else if ce, ok := kv.Value.(*ast.CallExpr); ok && isSel(ce.Fun, "filepath", "Join") && len(ce.Args) == 2 {
							base, ok1 := strLit(ce.Args[1])
							dir := ""
							if c2, ok := ce.Args[0].(*ast.CallExpr); ok {
								if id, ok := c2.Fun.(*ast.Ident); ok {
									dir = uniformReturn(fs, id.Name)
								}
							}
							if !ok1 || dir == "" {
								ferr = fmt.Errorf("DNSMasqPath: unsupported filepath.Join shape")
							}
							ff.path = dir + "/" + base
						} else {
							ferr = fmt.Errorf("DNSMasqPath: unsupported expression")
						}
					}
				}
			}
			return true
		})
		if ferr != nil {
			return nil, ferr
		}
	}
	// ListenPort must be the constant of New(): the templates (some spell the port out instead of
	// using {{.ListenPort}}) and c.Listens agree only as long as nothing else assigns the field
	for _, f := range fs {
		var rerr error
		ast.Inspect(f, func(n ast.Node) bool {
			if a, ok := n.(*ast.AssignStmt); ok {
				for _, lh := range a.Lhs {
					if sel, ok := lh.(*ast.SelectorExpr); ok && sel.Sel.Name == "ListenPort" {
						rerr = fmt.Errorf("ListenPort is assigned outside New() at %s: not the constant the template and c.Listens are built from", fset.Position(a.Pos()))
					}
				}
			}
			return true
		})
		if rerr != nil {
			return nil, rerr
		}
	}
	// Configure: c.Listens assignments in source order
	if cf := pkgFunc(fs, "Configure", true); cf != nil {
		var ferr error
		ast.Inspect(cf.Body, func(n ast.Node) bool {
			as, ok := n.(*ast.AssignStmt)
			if !ok || len(as.Lhs) != 1 || len(as.Rhs) != 1 || !isSel(as.Lhs[0], "", "Listens") {
				return true
			}
			cl, ok := as.Rhs[0].(*ast.CompositeLit)
			if !ok || len(cl.Elts) != 1 {
				ferr = fmt.Errorf("c.Listens assigned something that is not a one-element literal")
				return true
			}
			ps, err := listenParts(cl.Elts[0])
			if err != nil {
				ferr = err
				return true
			}
			ff.listens = append(ff.listens, ps)
			return true
		})
		if ferr != nil {
			return nil, ferr
		}
	}
	// literal exec.Command argv's outside New and detection helpers; nvram calls
	seen := map[string]bool{}
	for _, f := range fs {
		for _, d := range f.Decls {
			fd, ok := d.(*ast.FuncDecl)
			if !ok || fd.Body == nil || fd.Name.Name == "New" || fd.Name.Name == "isUnifi" || fd.Name.Name == "dnsmaskConfDir" {
				continue
			}
			ast.Inspect(fd.Body, func(n ast.Node) bool {
				ce, ok := n.(*ast.CallExpr)
				if !ok {
					return true
				}
				if isSel(ce.Fun, "exec", "Command") {
					var argv []string
					for _, a := range ce.Args {
						s, ok := strLit(a)
						if !ok {
							return true
						}
						argv = append(argv, s)
					}
					k := strings.Join(argv, "\x00")
					if !seen[k] {
						seen[k] = true
						ff.cmds = append(ff.cmds, argv)
					}
				}
				if isSel(ce.Fun, "internal", "NVRAM") {
					for _, a := range ce.Args {
						if s, ok := strLit(a); ok {
							ff.nvSave = append(ff.nvSave, s)
						} else {
							ff.nvSave = append(ff.nvSave, "?")
						}
					}
				}
				if isSel(ce.Fun, "internal", "SetNVRAM") && !ce.Ellipsis.IsValid() {
					for _, a := range ce.Args {
						if s, ok := strLit(a); ok {
							ff.nvSet = append(ff.nvSet, "L"+s)
						} else if be, ok := a.(*ast.BinaryExpr); ok && be.Op == token.ADD {
							s, ok1 := strLit(be.X)
							c2, ok2 := be.Y.(*ast.CallExpr)
							if ok1 && ok2 && isSel(c2.Fun, "buf", "String") {
								ff.nvSet = append(ff.nvSet, "R"+s)
							} else {
								ff.nvSet = append(ff.nvSet, "?")
							}
						} else {
							ff.nvSet = append(ff.nvSet, "?")
						}
					}
				}
				return true
			})
		}
	}
	for _, v := range append(append([]string{}, ff.nvSave...), ff.nvSet...) {
		if v == "?" {
			return nil, fmt.Errorf("nvram call with an unsupported argument")
		}
	}
	return ff, nil
}

// uniformReturn: the string literal returned by every return statement of a package function
// that returns a literal ("" when they differ or none exists).
func uniformReturn(fs []*ast.File, name string) string {
	fd := pkgFunc(fs, name, false)
	if fd == nil {
		return ""
	}
	res := ""
	okAll := true
	ast.Inspect(fd.Body, func(n ast.Node) bool {
		rs, ok := n.(*ast.ReturnStmt)
		if !ok || len(rs.Results) != 1 {
			return true
		}
		if s, ok := strLit(rs.Results[0]); ok {
			if res != "" && res != s {
				okAll = false
			}
			res = s
		}
		return true
	})
	if !okAll {
		return ""
	}
	return res
}

func detectOrder() ([]string, error) {
	f, err := parseFile("router/detect_linux.go")
	if err != nil {
		return nil, err
	}
	fd := findFunc(f, "detectRouter")
	if fd == nil {
		return nil, fmt.Errorf("detectRouter not found")
	}
	var order []string
	for _, st := range fd.Body.List {
		switch st := st.(type) {
		case *ast.IfStmt:
			as, ok := st.Init.(*ast.AssignStmt)
			if !ok || len(as.Rhs) != 1 {
				return nil, fmt.Errorf("detectRouter: unsupported if")
			}
			ce, ok := as.Rhs[0].(*ast.CallExpr)
			if !ok {
				return nil, fmt.Errorf("detectRouter: unsupported if")
			}
			se, ok := ce.Fun.(*ast.SelectorExpr)
			id, ok2 := se.X.(*ast.Ident)
			if !ok || !ok2 || se.Sel.Name != "New" {
				return nil, fmt.Errorf("detectRouter: unsupported call")
			}
			order = append(order, id.Name)
		case *ast.ReturnStmt:
			if len(st.Results) == 1 {
				if ce, ok := st.Results[0].(*ast.CallExpr); ok {
					if se, ok := ce.Fun.(*ast.SelectorExpr); ok {
						if id, ok := se.X.(*ast.Ident); ok && se.Sel.Name == "New" {
							order = append(order, id.Name)
							continue
						}
					}
				}
			}
			return nil, fmt.Errorf("detectRouter: unsupported return")
		default:
			return nil, fmt.Errorf("detectRouter: unsupported statement")
		}
	}
	return order, nil
}

func genRouter() {
	var l lines
	var portReassigned []string
	l.f("-- GENERATED by /verif/extract from the repository (router/*/setup.go, router/openwrt/dnsmasq.go,")
	l.f("-- router/detect_linux.go).  Do not edit: rewritten on every check.")
	l.f("import NV.Model.RouterBase")
	l.f("namespace NV.Gen.Router")
	l.f("open NV NV.Router")
	for _, fw := range routerFirmwares {
		ff, err := extractFirmware(fw)
		if err != nil {
			if strings.Contains(err.Error(), "ListenPort is assigned outside New()") {
				portReassigned = append(portReassigned, fw)
			}
			fmt.Printf("FALLBACK router.%s: %v\n", fw, err)
			l.f("def %s : FwConsts := NV.Router.Hand.%s", fw, fw)
			if fw == "ddwrt" {
				l.f("def ddwrtSaveNames : List Bytes := NV.Router.Hand.ddwrtSaveNames")
				l.f("def ddwrtSetVars : List (Bytes × Bool) := NV.Router.Hand.ddwrtSetVars")
			}
			continue
		}
		l.f("-- %s: template %s", fw, leanComment(ff.tmpl))
		l.f("def %s : FwConsts where", fw)
		l.f("  name := %s  -- %s", leanBytesR(ff.name), leanComment(ff.name))
		l.f("  tmpl := %s", leanBytesR(ff.tmpl))
		l.f("  listenPort := %s  -- %s", leanBytesR(ff.port), leanComment(ff.port))
		l.f("  path := %s  -- %s", leanBytesR(ff.path), leanComment(ff.path))
		var ls []string
		for _, ps := range ff.listens {
			var xs []string
			for _, p := range ps {
				if p == "P" {
					xs = append(xs, ".port")
				} else {
					xs = append(xs, ".lit "+leanBytesR(p[1:]))
				}
			}
			ls = append(ls, "["+strings.Join(xs, ", ")+"]")
		}
		l.f("  listens := [%s]  -- %v", strings.Join(ls, ", "), ff.listens)
		var cs []string
		for _, argv := range ff.cmds {
			var xs []string
			for _, a := range argv {
				xs = append(xs, leanBytesR(a))
			}
			cs = append(cs, "["+strings.Join(xs, ", ")+"]")
		}
		l.f("  cmds := [%s]  -- %q", strings.Join(cs, ", "), ff.cmds)
		var fl []string
		for _, f := range ff.fields {
			fl = append(fl, fmt.Sprintf("(%s, %v)", leanBytesR(f[1:]), f[0] == 'B'))
		}
		l.f("  fields := [%s]  -- %v", strings.Join(fl, ", "), ff.fields)
		if fw == "ddwrt" {
			var ns []string
			for _, n := range ff.nvSave {
				ns = append(ns, leanBytesR(n))
			}
			l.f("def ddwrtSaveNames : List Bytes := [%s]  -- %q", strings.Join(ns, ", "), ff.nvSave)
			var vs []string
			for _, v := range ff.nvSet {
				vs = append(vs, fmt.Sprintf("(%s, %v)", leanBytesR(v[1:]), v[0] == 'R'))
			}
			l.f("def ddwrtSetVars : List (Bytes × Bool) := [%s]  -- %q (true: + rendered template)", strings.Join(vs, ", "), ff.nvSet)
		}
	}
	order, err := detectOrder()
	if err != nil {
		fmt.Printf("FALLBACK router.detectOrder: %v\n", err)
		l.f("def detectOrder : List Bytes := NV.Router.Hand.detectOrder")
	} else {
		var xs []string
		for _, o := range order {
			xs = append(xs, leanBytesR(o))
		}
		l.f("def detectOrder : List Bytes := [%s]  -- %q", strings.Join(xs, ", "), order)
	}
	l.f("/-- firmwares whose Router.ListenPort is assigned somewhere else than in New(): there the port of the")
	l.f("template / of c.Listens is not the constant the model uses -/")
	l.f("def portReassigned : List String := [%s]", quoteJoin(portReassigned))
	l.f("end NV.Gen.Router")
	writeIfChanged("Router.lean", l.b.String())
}
