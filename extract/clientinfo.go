package main

import (
	"fmt"
	"go/ast"
	"go/token"
	"sort"
	"strconv"
	"strings"
)

// C14: facts regenerated from resolver/doh.go (DOH.resolve header construction, headerValue) and
// run.go (shortID constants) into lean/NV/Gen/ClientInfo.lean.  Anything not recognised falls back
// to an alias of the hand model (`FALLBACK …`), leaving the tie to the correspondence check.

// hdrAlias: name of the http.Header parameter of a helper whose statements are being read in
// place of its call (`setHeaders(req.Header, ci)`).
var hdrAlias string

// headerSet matches `req.Header.Set(k, v)` and returns its arguments.
func headerSet(s ast.Stmt) (k string, v ast.Expr, ok bool) {
	es, isExpr := s.(*ast.ExprStmt)
	if !isExpr {
		return
	}
	call, isCall := es.X.(*ast.CallExpr)
	if !isCall || len(call.Args) != 2 {
		return
	}
	sel, isSel := call.Fun.(*ast.SelectorExpr)
	if !isSel || sel.Sel.Name != "Set" {
		return
	}
	if id, isID := sel.X.(*ast.Ident); isID && hdrAlias != "" && id.Name == hdrAlias {
		// `h.Set(k, v)` inside a helper that was handed `req.Header` as h
	} else {
		inner, isSel2 := sel.X.(*ast.SelectorExpr)
		if !isSel2 || inner.Sel.Name != "Header" {
			return
		}
	}
	k, ok = strLit(call.Args[0])
	return k, call.Args[1], ok
}

// ciField matches `ci.F` → F.
func ciField(e ast.Expr) (string, bool) {
	if sel, ok := e.(*ast.SelectorExpr); ok {
		if id, ok := sel.X.(*ast.Ident); ok && id.Name == "ci" {
			return sel.Sel.Name, true
		}
	}
	return "", false
}

// ciValue matches `ci.F` or `headerValue(ci.F)`.
func ciValue(e ast.Expr) (field string, sanitised bool, ok bool) {
	if f, ok := ciField(e); ok {
		return f, false, true
	}
	if call, isCall := e.(*ast.CallExpr); isCall && len(call.Args) == 1 {
		if id, isID := call.Fun.(*ast.Ident); isID && id.Name == "headerValue" {
			if f, ok := ciField(call.Args[0]); ok {
				return f, true, true
			}
		}
	}
	return "", false, false
}

func isEmptyStr(e ast.Expr) bool { s, ok := strLit(e); return ok && s == "" }

type devHdr struct {
	key, field string
	sanitised  bool
}

// deviceBlock matches
//
//	if ci.F != "" { req.Header.Set(K, ci.F) }
//	if v := headerValue(ci.F); v != "" { req.Header.Set(K, v) }
func deviceBlock(s ast.Stmt) (d devHdr, ok bool) {
	is, isIf := s.(*ast.IfStmt)
	if !isIf || is.Else != nil || len(is.Body.List) != 1 {
		return
	}
	cond, isBin := is.Cond.(*ast.BinaryExpr)
	if !isBin || cond.Op != token.NEQ || !isEmptyStr(cond.Y) {
		return
	}
	k, v, isSet := headerSet(is.Body.List[0])
	if !isSet {
		return
	}
	if is.Init == nil {
		f, san, okv := ciValue(cond.X)
		f2, san2, okv2 := ciValue(v)
		if !okv || !okv2 || f != f2 || san != san2 {
			return
		}
		return devHdr{k, f, san}, true
	}
	as, isAs := is.Init.(*ast.AssignStmt)
	if !isAs || as.Tok != token.DEFINE || len(as.Lhs) != 1 || len(as.Rhs) != 1 {
		return
	}
	lhs, isID := as.Lhs[0].(*ast.Ident)
	cx, isID2 := cond.X.(*ast.Ident)
	vx, isID3 := v.(*ast.Ident)
	if !isID || !isID2 || !isID3 || lhs.Name != cx.Name || lhs.Name != vx.Name {
		return
	}
	f, san, okv := ciValue(as.Rhs[0])
	if !okv {
		return
	}
	return devHdr{k, f, san}, true
}

func byteLit(e ast.Expr) (int64, bool) {
	if bl, ok := e.(*ast.BasicLit); ok {
		switch bl.Kind {
		case token.INT:
			v, err := strconv.ParseInt(bl.Value, 0, 64)
			return v, err == nil
		case token.CHAR:
			r, _, _, err := strconv.UnquoteChar(strings.Trim(bl.Value, "'"), '\'')
			return int64(r), err == nil && r < 256
		}
	}
	return 0, false
}

// byteCond translates a boolean expression over the byte variable `v` into a Lean Bool term over `c : Nat`.
func byteCond(e ast.Expr, v string) (string, bool) {
	switch e := e.(type) {
	case *ast.ParenExpr:
		return byteCond(e.X, v)
	case *ast.UnaryExpr:
		if e.Op == token.NOT {
			if x, ok := byteCond(e.X, v); ok {
				return "(!" + x + ")", true
			}
		}
	case *ast.BinaryExpr:
		if e.Op == token.LAND || e.Op == token.LOR {
			a, ok1 := byteCond(e.X, v)
			b, ok2 := byteCond(e.Y, v)
			op := " && "
			if e.Op == token.LOR {
				op = " || "
			}
			return "(" + a + op + b + ")", ok1 && ok2
		}
		ops := map[token.Token]string{token.GEQ: "≥", token.LEQ: "≤", token.GTR: ">", token.LSS: "<", token.EQL: "=", token.NEQ: "≠"}
		op, okop := ops[e.Op]
		id, isID := e.X.(*ast.Ident)
		n, okn := byteLit(e.Y)
		if okop && isID && id.Name == v && okn {
			return fmt.Sprintf("decide (c %s %d)", op, n), true
		}
	}
	return "", false
}

// keepByteExpr finds, in headerValue, the single `if c := s[i]; COND { … append … }` inside the loop.
func keepByteExpr(fd *ast.FuncDecl) (string, error) {
	var found []string
	var bad error
	ast.Inspect(fd.Body, func(n ast.Node) bool {
		is, ok := n.(*ast.IfStmt)
		if !ok {
			return true
		}
		v := ""
		if as, ok := is.Init.(*ast.AssignStmt); ok && as.Tok == token.DEFINE && len(as.Lhs) == 1 {
			if id, ok := as.Lhs[0].(*ast.Ident); ok {
				if _, isIdx := as.Rhs[0].(*ast.IndexExpr); isIdx {
					v = id.Name
				}
			}
		}
		if v == "" || is.Else != nil {
			bad = fmt.Errorf("unsupported if statement at %s", fset.Position(is.Pos()))
			return false
		}
		hasAppend := false
		ast.Inspect(is.Body, func(m ast.Node) bool {
			if c, ok := m.(*ast.CallExpr); ok {
				if id, ok := c.Fun.(*ast.Ident); ok && id.Name == "append" {
					hasAppend = true
				}
			}
			return true
		})
		x, okc := byteCond(is.Cond, v)
		if !okc || !hasAppend {
			bad = fmt.Errorf("unsupported condition at %s", fset.Position(is.Pos()))
			return false
		}
		found = append(found, x)
		return false
	})
	if bad != nil {
		return "", bad
	}
	if len(found) != 1 {
		return "", fmt.Errorf("expected one byte test, found %d", len(found))
	}
	return found[0], nil
}

func genClientInfo() {
	var l lines
	l.f("-- GENERATED by /verif/extract from the repository (resolver/doh.go, run.go).")
	l.f("-- Do not edit: rewritten on every check.")
	l.f("import NV.Model.ClientInfo")
	l.f("namespace NV.Gen.CI")
	l.f("open NV")

	// ---- DOH.resolve: header construction
	var fixed [][2]string
	var dev []devHdr
	// statement indexes: the ExtraHeaders loop must come after the fixed headers (extras may
	// override them) and before the device blocks (device values override extras)
	rangeIdx, lastFixed, firstDev := -1, -1, 1<<30
	herr := func() error {
		f, err := parseFile("resolver/doh.go")
		if err != nil {
			return err
		}
		fd := findFunc(f, "resolve")
		if fd == nil || fd.Recv == nil {
			return fmt.Errorf("DOH.resolve not found")
		}
		// a call `helper(req.Header, ci)` of a function of this file stands for the helper's statements
		var body []ast.Stmt
		for _, s := range fd.Body.List {
			inlined := false
			if es, ok := s.(*ast.ExprStmt); ok {
				if c, ok := es.X.(*ast.CallExpr); ok {
					if id, ok := c.Fun.(*ast.Ident); ok {
						for ai, a := range c.Args {
							if nodeText(a) != "req.Header" {
								continue
							}
							if hd := findFunc(f, id.Name); hd != nil && hd.Body != nil && hd.Recv == nil {
								var params []string
								for _, fl := range hd.Type.Params.List {
									for _, n := range fl.Names {
										params = append(params, n.Name)
									}
								}
								if ai < len(params) && hdrAlias == "" {
									hdrAlias = params[ai]
									body = append(body, hd.Body.List...)
									inlined = true
								}
							}
						}
					}
				}
			}
			if !inlined {
				body = append(body, s)
			}
		}
		defer func() { hdrAlias = "" }()
		for idx, s := range body {
			if rs, ok := s.(*ast.RangeStmt); ok {
				if sel, ok := rs.X.(*ast.SelectorExpr); ok && sel.Sel.Name == "ExtraHeaders" {
					rangeIdx = idx
				}
			}
			if k, v, ok := headerSet(s); ok {
				lit, isLit := strLit(v)
				if !isLit {
					return fmt.Errorf("Header.Set(%q, non-literal) outside a device block at %s", k, fset.Position(s.Pos()))
				}
				fixed = append(fixed, [2]string{k, lit})
				lastFixed = idx
				continue
			}
			if d, ok := deviceBlock(s); ok {
				dev = append(dev, d)
				if idx < firstDev {
					firstDev = idx
				}
				continue
			}
			// any other statement mentioning Header.Set is a shape we do not understand
			mentions := false
			if _, isRange := s.(*ast.RangeStmt); !isRange {
				ast.Inspect(s, func(n ast.Node) bool {
					if sel, ok := n.(*ast.SelectorExpr); ok && sel.Sel.Name == "Set" {
						if in, ok := sel.X.(*ast.SelectorExpr); ok && in.Sel.Name == "Header" {
							mentions = true
						}
					}
					return !mentions
				})
			}
			if mentions {
				return fmt.Errorf("unsupported header statement at %s", fset.Position(s.Pos()))
			}
		}
		if len(fixed) == 0 && len(dev) == 0 {
			return fmt.Errorf("no header statements recognised")
		}
		if rangeIdx < 0 {
			return fmt.Errorf("loop over r.ExtraHeaders not found")
		}
		// keys are distinct map keys: the order among fixed (resp. device) statements is irrelevant
		sort.Slice(fixed, func(i, j int) bool { return fixed[i][0] < fixed[j][0] })
		sort.Slice(dev, func(i, j int) bool { return dev[i].key < dev[j].key })
		return nil
	}()
	if herr != nil {
		fmt.Println("FALLBACK clientinfo.headers:", herr)
		l.f("def fixedHeaders : List (Bytes × Bytes) := NV.CI.fixedHeaders")
		l.f("def deviceHeaders : List (Bytes × String × Bool) :=")
		l.f("  [(NV.CI.kDevId, \"ID\", false), (NV.CI.kDevIp, \"IP\", false), (NV.CI.kDevModel, \"Model\", false), (NV.CI.kDevName, \"Name\", true)]")
		l.f("def extrasAfterFixed : Bool := true")
		l.f("def extrasBeforeDevice : Bool := true")
	} else {
		var p []string
		for _, kv := range fixed {
			p = append(p, fmt.Sprintf("(%s, %s)", leanBytes(kv[0]), leanBytes(kv[1])))
		}
		l.f("/-- `req.Header.Set(<literal>, <literal>)` statements of DOH.resolve, sorted by key -/")
		l.f("def fixedHeaders : List (Bytes × Bytes) := [%s]", strings.Join(p, ",\n  "))
		p = nil
		for _, d := range dev {
			p = append(p, fmt.Sprintf("(%s, %q, %v)", leanBytes(d.key), d.field, d.sanitised))
		}
		l.f("/-- `if ci.F != \"\" { req.Header.Set(K, ci.F) }` blocks, sorted by key: (K, F, value passes through headerValue) -/")
		l.f("def deviceHeaders : List (Bytes × String × Bool) := [%s]", strings.Join(p, ",\n  "))
		l.f("/-- the `for name, values := range r.ExtraHeaders` loop comes after every fixed Set … -/")
		l.f("def extrasAfterFixed : Bool := %v", lastFixed < rangeIdx)
		l.f("/-- … and before every device block -/")
		l.f("def extrasBeforeDevice : Bool := %v", rangeIdx < firstDev)
	}

	// ---- headerValue: the byte test
	kb, kerr := func() (string, error) {
		f, err := parseFile("resolver/doh.go")
		if err != nil {
			return "", err
		}
		fd := findFunc(f, "headerValue")
		if fd == nil {
			return "", fmt.Errorf("headerValue not found")
		}
		return keepByteExpr(fd)
	}()
	if kerr != nil {
		fmt.Println("FALLBACK clientinfo.keepByte:", kerr)
		l.f("def keepByte (c : Nat) : Bool := NV.CI.keepByte (UInt8.ofNat c)")
	} else {
		l.f("/-- the byte test of `headerValue` (resolver/doh.go), translated operator by operator -/")
		l.f("def keepByte (c : Nat) : Bool := %s", kb)
	}

	// ---- shortID constants
	minCap, base, cut, pad := int64(-1), int64(-1), int64(-1), int64(-1)
	serr := func() error {
		f, err := parseFile("run.go")
		if err != nil {
			return err
		}
		fd := findFunc(f, "shortID")
		if fd == nil {
			return fmt.Errorf("shortID not found")
		}
		ast.Inspect(fd.Body, func(n ast.Node) bool {
			switch n := n.(type) {
			case *ast.IfStmt:
				if be, ok := n.Cond.(*ast.BinaryExpr); ok && be.Op == token.LSS {
					if id, ok := be.X.(*ast.Ident); ok && id.Name == "l" {
						if v, ok := byteLit(be.Y); ok {
							minCap = v
						}
					}
				}
			case *ast.CallExpr:
				if sel, ok := n.Fun.(*ast.SelectorExpr); ok && sel.Sel.Name == "AppendUint" && len(n.Args) == 3 {
					if v, ok := byteLit(n.Args[2]); ok {
						base = v
					}
				}
				if id, ok := n.Fun.(*ast.Ident); ok && id.Name == "append" && len(n.Args) == 2 {
					if bl, ok := n.Args[1].(*ast.BasicLit); ok && bl.Kind == token.CHAR {
						if v, ok := byteLit(bl); ok {
							pad = v
						}
					}
				}
			case *ast.SliceExpr:
				if n.Low == nil && n.High != nil {
					if v, ok := byteLit(n.High); ok && v > 0 {
						cut = v
					}
				}
			}
			return true
		})
		if minCap < 0 || base < 0 || cut < 0 || pad < 0 {
			return fmt.Errorf("constants not all found (minCap=%d base=%d cut=%d pad=%d)", minCap, base, cut, pad)
		}
		return nil
	}()
	if serr != nil {
		fmt.Println("FALLBACK clientinfo.shortID:", serr)
		minCap, base, cut, pad = 13, 32, 5, 48
	}
	l.f("def shortIDMinCap : Nat := %d", minCap)
	l.f("def shortIDBase : Nat := %d", base)
	l.f("def shortIDLen : Nat := %d", cut)
	l.f("def shortIDPad : Nat := %d", pad)
	l.f("end NV.Gen.CI")
	writeIfChanged("ClientInfo.lean", l.b.String())
}
