/-
  NV.Lemmas.Activate — net.SplitHostPort / net.ParseIP model lemmas used by NV.Props.C19.
-/
import NV.Model.Activate
namespace NV.Activate

theorem lastIndexOf_go_none (c : Char) : ∀ (s : S) (i : Nat) (best : Option Nat), (∀ x ∈ s, x ≠ c) →
    lastIndexOf.go c i best s = best := by
  intro s
  induction s with
  | nil => intros; rfl
  | cons x xs ih =>
    intro i best h
    have hx : (x == c) = false := by simpa using h x (by simp)
    simp only [lastIndexOf.go, hx]
    exact ih _ _ (fun y hy => h y (by simp [hy]))

theorem lastIndexOf_go_append (c : Char) : ∀ (a b : S) (i : Nat) (best : Option Nat), (∀ x ∈ b, x ≠ c) →
    lastIndexOf.go c i best (a ++ c :: b) = some (i + a.length) := by
  intro a
  induction a with
  | nil =>
    intro b i best hb
    simp only [List.nil_append, lastIndexOf.go, beq_self_eq_true, ↓reduceIte]
    simpa using lastIndexOf_go_none c b (i + 1) (some i) hb
  | cons x xs ih =>
    intro b i best hb
    simp only [List.cons_append, lastIndexOf.go]
    rw [ih b (i + 1) _ hb]
    simp; omega

theorem lastIndexOf_append (c : Char) (a b : S) (hb : ∀ x ∈ b, x ≠ c) :
    lastIndexOf c (a ++ c :: b) = some a.length := by
  simpa [lastIndexOf] using lastIndexOf_go_append c a b 0 none hb

/-- a host and a port without ':', '[' or ']' joined by ':' split back into themselves -/
theorem splitHostPort_join (h p : S) (hh : ∀ x ∈ h, x ≠ ':' ∧ x ≠ '[' ∧ x ≠ ']')
    (hp : ∀ x ∈ p, x ≠ ':' ∧ x ≠ '[' ∧ x ≠ ']') : splitHostPort (h ++ ':' :: p) = some (h, p) := by
  have hl := lastIndexOf_append ':' h p (fun x hx => (hp x hx).1)
  have hhead : ((h ++ ':' :: p).head? == some '[') = false := by
    cases h with
    | nil => simp
    | cons x xs => simpa using (hh x (by simp)).2.1
  simp only [splitHostPort, hl, hhead]
  simp
  exact ⟨fun hm => (hh _ hm).1 rfl, ⟨fun hm => (hh _ hm).2.1 rfl, fun hm => (hp _ hm).2.1 rfl⟩,
    fun hm => (hh _ hm).2.2 rfl, fun hm => (hp _ hm).2.2 rfl⟩

end NV.Activate

namespace NV.Activate

def ipChar (c : Char) : Bool := isHex c || c == ':' || c == '.'

theorem splitOn_go_chars (c : Char) (P : Char → Prop) : ∀ (s cur : S),
    (∀ p ∈ splitOn.go c cur s, ∀ x ∈ p, P x) → (∀ x ∈ cur, P x) ∧ ∀ x ∈ s, x = c ∨ P x := by
  intro s
  induction s with
  | nil =>
    intro cur h
    refine ⟨fun x hx => h cur.reverse (by simp [splitOn.go]) x (by simpa using hx), by simp⟩
  | cons y ys ih =>
    intro cur h
    by_cases hy : (y == c) = true
    · simp only [splitOn.go, hy, ↓reduceIte] at h
      have h1 := ih [] (fun p hp => h p (by simp [hp]))
      refine ⟨fun x hx => h cur.reverse (by simp) x (by simpa using hx), ?_⟩
      intro x hx
      rcases List.mem_cons.1 hx with rfl | hx
      · left; simpa using hy
      · exact h1.2 x hx
    · have hy' : (y == c) = false := by simpa using hy
      simp only [splitOn.go, hy', Bool.false_eq_true, ↓reduceIte] at h
      have h1 := ih (y :: cur) h
      refine ⟨fun x hx => h1.1 x (by simp [hx]), ?_⟩
      intro x hx
      rcases List.mem_cons.1 hx with rfl | hx
      · right; exact h1.1 x (by simp)
      · exact h1.2 x hx

theorem splitOn_chars (c : Char) (P : Char → Prop) (s : S)
    (h : ∀ p ∈ splitOn c s, ∀ x ∈ p, P x) : ∀ x ∈ s, x = c ∨ P x :=
  (splitOn_go_chars c P s [] h).2

theorem isDigit_ipChar (c : Char) (h : isDigit c = true) : ipChar c = true := by
  simp [ipChar, isHex, h]

theorem v4Field_chars (f : S) (h : v4Field f = true) : ∀ x ∈ f, isDigit x = true := by
  simp only [v4Field, Bool.and_eq_true, List.all_eq_true] at h
  exact h.1.1.2

theorem isIPv4_chars (s : S) (h : isIPv4 s = true) : ∀ x ∈ s, ipChar x = true := by
  simp only [isIPv4, Bool.and_eq_true, List.all_eq_true] at h
  intro x hx
  rcases splitOn_chars '.' (fun c => isDigit c = true) s (fun p hp => v4Field_chars p (h.2 p hp)) x hx with rfl | hd
  · decide
  · exact isDigit_ipChar x hd

theorem v6Group_chars (g : S) (h : v6Group g = true) : ∀ x ∈ g, ipChar x = true := by
  simp only [v6Group, Bool.and_eq_true, List.all_eq_true] at h
  intro x hx
  simp [ipChar, h.2 x hx]

theorem v6Groups_chars (parts : List S) (n : Nat) (h : v6Groups parts = some n) :
    ∀ p ∈ parts, ∀ x ∈ p, ipChar x = true := by
  unfold v6Groups at h
  intro p hp
  have hp' : p ∈ parts.reverse := by simpa using hp
  cases hr : parts.reverse with
  | nil => rw [hr] at hp'; simp at hp'
  | cons last rest =>
    rw [hr] at h hp'
    simp only at h
    split at h
    · split at h
      · rename_i hc
        simp only [Bool.and_eq_true, List.all_eq_true] at hc
        rcases List.mem_cons.1 hp' with rfl | hm
        · exact isIPv4_chars _ hc.1
        · exact v6Group_chars _ (hc.2 p hm)
      · simp at h
    · split at h
      · rename_i hc
        simp only [List.all_eq_true] at hc
        exact v6Group_chars _ (hc p hp')
      · simp at h

theorem v6Side_chars (s : S) (n : Nat) (h : v6Side s = some n) : ∀ x ∈ s, ipChar x = true := by
  unfold v6Side at h
  split at h
  · rename_i he
    have : s = [] := by simpa using he
    subst this; simp
  · intro x hx
    rcases splitOn_chars ':' (fun c => ipChar c = true) s (v6Groups_chars _ n h) x hx with rfl | h1
    · decide
    · exact h1

theorem findDouble_split : ∀ (s : S) (k i : Nat), findDouble s k = some i →
    ∃ j, i = k + j ∧ s = s.take j ++ ':' :: ':' :: s.drop (j + 2) := by
  intro s
  induction s with
  | nil => intro k i h; simp [findDouble] at h
  | cons x xs ih =>
    intro k i h
    cases xs with
    | nil => simp [findDouble] at h
    | cons y ys =>
      simp only [findDouble] at h
      split at h
      · rename_i hc
        simp only [Bool.and_eq_true, beq_iff_eq] at hc
        obtain ⟨rfl, rfl⟩ := hc
        simp only [Option.some.injEq] at h
        exact ⟨0, by omega, by simp⟩
      · obtain ⟨j, hj, hs⟩ := ih (k + 1) i h
        refine ⟨j + 1, by omega, ?_⟩
        have : (x :: y :: ys).take (j + 1) ++ ':' :: ':' :: (x :: y :: ys).drop (j + 1 + 2) =
            x :: ((y :: ys).take j ++ ':' :: ':' :: (y :: ys).drop (j + 2)) := by
          simp [List.take_succ_cons]
        rw [this, ← hs]

theorem isIPv6_chars (s : S) (h : isIPv6 s = true) : ∀ x ∈ s, ipChar x = true := by
  unfold isIPv6 at h
  split at h
  · simp at h
  · split at h
    · -- no "::"
      split at h
      · rename_i hg
        intro x hx
        rcases splitOn_chars ':' (fun c => ipChar c = true) s (v6Groups_chars _ 8 hg) x hx with rfl | h1
        · decide
        · exact h1
      · simp at h
    · rename_i i hd
      obtain ⟨j, hj, hs⟩ := findDouble_split s 0 i hd
      have hij : i = j := by omega
      subst hij
      simp only at h
      split at h
      · simp at h
      · split at h
        · simp at h
        · split at h
          · rename_i a b ha hb
            intro x hx
            rw [hs] at hx
            simp only [List.mem_append, List.mem_cons] at hx
            rcases hx with hx | rfl | rfl | hx
            · exact v6Side_chars _ a ha x hx
            · decide
            · decide
            · exact v6Side_chars _ b hb x hx
          · simp at h

theorem parseIP_chars (s : S) (h : parseIP s = true) : s ≠ [] ∧ ∀ x ∈ s, ipChar x = true := by
  simp only [parseIP, Bool.or_eq_true] at h
  refine ⟨?_, ?_⟩
  · rintro rfl
    rcases h with h | h <;> revert h <;> decide
  · rcases h with h | h
    · exact isIPv4_chars s h
    · exact isIPv6_chars s h

end NV.Activate
