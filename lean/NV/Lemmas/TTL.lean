/-
  NV.Lemmas.TTL — helper lemmas for C07 (not obligations): byte-list surgery (`setBytes`,
  `take`/`drop`, big-endian reads) and the characterisation of one `rrStep`.
-/
import NV.Model.TTL
import NV.Spec.Msg
namespace NV.TTL
open NV

theorem set_take_succ (m : Bytes) (off : Nat) (v : UInt8) (h : off < m.length) :
    (m.set off v).take (off + 1) = m.take off ++ [v] := by
  induction m generalizing off with
  | nil => simp at h
  | cons x t ih =>
    cases off with
    | zero => simp
    | succ o => simp at h; simp [ih o h]

theorem setBytes_eq (m : Bytes) (off : Nat) (vs : Bytes) (h : off + vs.length ≤ m.length) :
    setBytes m off vs = m.take off ++ vs ++ m.drop (off + vs.length) := by
  induction vs generalizing m off with
  | nil => simp [setBytes]
  | cons v vs ih =>
    simp only [List.length_cons] at h
    have h1 : off < m.length := by omega
    rw [setBytes, ih (m.set off v) (off + 1) (by simp; omega)]
    rw [set_take_succ m off v h1]
    have : (m.set off v).drop (off + 1 + vs.length) = m.drop (off + (vs.length + 1)) := by
      rw [List.drop_set_of_lt (by omega)]; congr 1; omega
    rw [this]; simp


theorem byteAt_eq (b : Bytes) (i : Nat) (h : i < b.length) : byteAt b i = (b[i]).toNat := by
  simp [byteAt, List.getD_eq_getElem?_getD, h]

theorem unpackUint16_drop (b : Bytes) (l : Nat) (h : l + 2 ≤ b.length) :
    unpackUint16 (b.drop l) = .ok (rd16 b l) := by
  have h0 : l < b.length := by omega
  have h1 : l + 1 < b.length := by omega
  rw [List.drop_eq_getElem_cons h0, List.drop_eq_getElem_cons h1]
  simp [unpackUint16, rd16, byteAt_eq, h0, h1]

theorem unpackUint32_drop (b : Bytes) (l : Nat) (h : l + 4 ≤ b.length) :
    unpackUint32 (b.drop l) = .ok (rd32 b l) := by
  have h0 : l < b.length := by omega
  have h1 : l + 1 < b.length := by omega
  have h2 : l + 2 < b.length := by omega
  have h3 : l + 3 < b.length := by omega
  rw [List.drop_eq_getElem_cons h0, List.drop_eq_getElem_cons h1, List.drop_eq_getElem_cons h2,
    List.drop_eq_getElem_cons h3]
  simp [unpackUint32, rd32, byteAt_eq, h0, h1, h2, h3]

theorem sliceFrom_ok (b : Bytes) (k : Nat) (h : k ≤ b.length) : sliceFrom b k = .ok (b.drop k) := by
  simp [sliceFrom, h]

theorem packUint32At_ok (m : Bytes) (k n : Nat) (h : k + 4 ≤ m.length) :
    packUint32At m k n = .ok (setBytes m k (be32 n)) := by
  have : k ≤ m.length := by omega
  simp [packUint32At, h, this]

@[simp] theorem be32_length (n : Nat) : (be32 n).length = 4 := rfl
@[simp] theorem be16_length (n : Nat) : (be16 n).length = 2 := rfl

theorem byteAt_append_left (a b : Bytes) (i : Nat) (h : i < a.length) : byteAt (a ++ b) i = byteAt a i := by
  simp [byteAt, List.getD_eq_getElem?_getD, List.getElem?_append_left h]

theorem byteAt_append_right (a b : Bytes) (i : Nat) (h : a.length ≤ i) :
    byteAt (a ++ b) i = byteAt b (i - a.length) := by
  simp [byteAt, List.getD_eq_getElem?_getD, List.getElem?_append_right h]

/-- bytes outside the written window are untouched -/
theorem byteAt_setBytes_out (m : Bytes) (off : Nat) (vs : Bytes) (i : Nat)
    (h : off + vs.length ≤ m.length) (hi : i < off ∨ off + vs.length ≤ i) :
    byteAt (setBytes m off vs) i = byteAt m i := by
  rw [setBytes_eq m off vs h]
  rcases hi with hi | hi
  · rw [List.append_assoc, byteAt_append_left _ _ _ (by simp; omega)]
    simp [byteAt, List.getD_eq_getElem?_getD, hi]
  · rw [byteAt_append_right _ _ _ (by simp; omega)]
    simp [byteAt, List.getD_eq_getElem?_getD]
    have : off + vs.length + (i - (min off m.length + vs.length)) = i := by omega
    rw [this]

theorem byteAt_setBytes_in (m : Bytes) (off : Nat) (vs : Bytes) (i : Nat)
    (h : off + vs.length ≤ m.length) (hi : off ≤ i ∧ i < off + vs.length) :
    byteAt (setBytes m off vs) i = byteAt vs (i - off) := by
  rw [setBytes_eq m off vs h, byteAt_append_left _ _ _ (by simp; omega),
    byteAt_append_right _ _ _ (by simp; omega)]
  simp; congr 1; omega


theorem rd16_setBytes_out (m : Bytes) (off : Nat) (vs : Bytes) (i : Nat)
    (h : off + vs.length ≤ m.length) (hi : i + 2 ≤ off ∨ off + vs.length ≤ i) :
    rd16 (setBytes m off vs) i = rd16 m i := by
  unfold rd16
  rw [byteAt_setBytes_out m off vs i h (by omega), byteAt_setBytes_out m off vs (i + 1) h (by omega)]

/-- the new TTL of one record -/
def newTTL (ttl0 age maxTTL : Nat) : Nat := clampTTL (aged ttl0 age) maxTTL

/-- what one iteration does to the buffer suffix, in terms of big-endian reads and one write -/
def stepBuf (rest : Bytes) (l age maxTTL : Nat) : Bytes :=
  if rd16 rest l ≠ typeOPT then setBytes rest (l + 4) (be32 (newTTL (rd32 rest (l + 4)) age maxTTL)) else rest

def stepMin (rest : Bytes) (l age maxAge addIdx i mt : Nat) : Nat :=
  if rd16 rest l ≠ typeOPT ∧ i < addIdx then minStep mt (aged (rd32 rest (l + 4)) age) age maxAge else mt

@[simp] theorem stepBuf_length (rest : Bytes) (l age maxTTL : Nat) :
    (stepBuf rest l age maxTTL).length = rest.length := by
  unfold stepBuf; split <;> simp

theorem rrStep_ok (age maxAge maxTTL addIdx i : Nat) (rest : Bytes) (mt l : Nat)
    (h : l + 10 ≤ rest.length) :
    rrStep age maxAge maxTTL addIdx i rest mt l =
      .ok (stepBuf rest l age maxTTL, stepMin rest l age maxAge addIdx i mt, rd16 rest (l + 8)) := by
  unfold rrStep stepBuf stepMin newTTL
  rw [sliceFrom_ok rest l (by omega)]
  simp only [bind, Except.bind, pure, Except.pure]
  rw [unpackUint16_drop rest l (by omega)]
  by_cases ht : rd16 rest l = typeOPT
  · simp only [ht, ne_eq, not_true_eq_false, ↓reduceIte, false_and]
    rw [sliceFrom_ok rest (l + 8) (by omega)]
    simp only []
    rw [unpackUint16_drop rest (l + 8) (by omega)]
  · simp only [ne_eq, ht, not_false_eq_true, ↓reduceIte, true_and]
    rw [sliceFrom_ok rest (l + 4) (by omega)]
    simp only []
    rw [unpackUint32_drop rest (l + 4) (by omega)]
    simp only []
    rw [packUint32At_ok rest (l + 4) _ (by omega)]
    simp only []
    rw [sliceFrom_ok _ (l + 8) (by simp; omega)]
    simp only []
    rw [unpackUint16_drop _ (l + 8) (by simp; omega)]
    rw [rd16_setBytes_out rest (l + 4) _ (l + 8) (by simp; omega) (by simp)]


theorem setBytes_drop (m : Bytes) (off : Nat) (vs : Bytes) (k : Nat) (hk : off + vs.length ≤ k) :
    (setBytes m off vs).drop k = m.drop k := by
  induction vs generalizing m off with
  | nil => rfl
  | cons v vs ih =>
    simp only [List.length_cons] at hk
    rw [setBytes, ih _ _ (by omega), List.drop_set_of_lt (by omega)]

theorem stepBuf_drop (rest : Bytes) (l age maxTTL k : Nat) (hk : l + 8 ≤ k) :
    (stepBuf rest l age maxTTL).drop k = rest.drop k := by
  unfold stepBuf
  split
  · exact setBytes_drop _ _ _ _ (by simp; omega)
  · rfl

/-- one unfolding of the RR loop with the reads and the write resolved (no `Except` left except
the recursive call) -/
theorem rrLoop_succ (age maxAge maxTTL addIdx n i : Nat) (rest : Bytes) (mt : Nat) :
    rrLoop age maxAge maxTTL addIdx (n + 1) i rest mt =
      if rest.isEmpty then .ok (rest, some mt)
      else if skipName rest = 0 ∨ rest.length < skipName rest + 10 then .ok (rest, none)
      else if rest.length < skipName rest + 10 + rd16 rest (skipName rest + 8) then
        .ok (stepBuf rest (skipName rest) age maxTTL, none)
      else
        match rrLoop age maxAge maxTTL addIdx n (i + 1)
            (rest.drop (skipName rest + 10 + rd16 rest (skipName rest + 8)))
            (stepMin rest (skipName rest) age maxAge addIdx i mt) with
        | .error e => .error e
        | .ok (out, r) =>
          .ok ((stepBuf rest (skipName rest) age maxTTL).take
                (skipName rest + 10 + rd16 rest (skipName rest + 8)) ++ out, r) := by
  rw [rrLoop]
  by_cases he : rest.isEmpty
  · simp [he]
  · simp only [he, Bool.false_eq_true, ↓reduceIte]
    by_cases hl : skipName rest = 0
    · simp [hl]
    · simp only [hl, ↓reduceIte, false_or]
      by_cases h10 : rest.length < skipName rest + 10
      · simp [h10]
      · have h10' : skipName rest + 10 ≤ rest.length := by omega
        have : lenLT rest (skipName rest + 10) = false := by
          rw [← Bool.not_eq_true, lenLT_iff]; exact h10
        simp only [this, Bool.false_eq_true, ↓reduceIte, h10]
        rw [rrStep_ok _ _ _ _ _ _ _ _ h10']
        simp only [lenLT_iff, stepBuf_length]
        by_cases hk : rest.length < skipName rest + 10 + rd16 rest (skipName rest + 8)
        · simp [hk]
        · simp only [hk, ↓reduceIte]
          rw [stepBuf_drop _ _ _ _ _ (by omega)]
          rfl


/-! ### all-bytes invariants of the RR loop -/
open NV.Spec

theorem byteAt_take (m : Bytes) (k j : Nat) (h : j < k) : byteAt (m.take k) j = byteAt m j := by
  simp [byteAt, List.getD_eq_getElem?_getD, h]

theorem byteAt_drop (m : Bytes) (k j : Nat) : byteAt (m.drop k) j = byteAt m (k + j) := by
  simp [byteAt, List.getD_eq_getElem?_getD]

theorem rd32_take (m : Bytes) (k o : Nat) (h : o + 4 ≤ k) : rd32 (m.take k) o = rd32 m o := by
  unfold rd32
  rw [byteAt_take _ _ _ (by omega), byteAt_take _ _ _ (by omega), byteAt_take _ _ _ (by omega),
    byteAt_take _ _ _ (by omega)]

theorem rd32_drop (m : Bytes) (k o : Nat) : rd32 (m.drop k) o = rd32 m (o + k) := by
  unfold rd32
  simp only [byteAt_drop]
  have e0 : k + o = o + k := by omega
  have e1 : k + (o + 1) = o + k + 1 := by omega
  have e2 : k + (o + 2) = o + k + 2 := by omega
  have e3 : k + (o + 3) = o + k + 3 := by omega
  rw [e0, e1, e2, e3]

theorem rd32_append_left (a b : Bytes) (o : Nat) (h : o + 4 ≤ a.length) : rd32 (a ++ b) o = rd32 a o := by
  unfold rd32
  rw [byteAt_append_left _ _ _ (by omega), byteAt_append_left _ _ _ (by omega),
    byteAt_append_left _ _ _ (by omega), byteAt_append_left _ _ _ (by omega)]

theorem rd32_append_right (a b : Bytes) (o k : Nat) (hk : k = o + a.length) :
    rd32 (a ++ b) k = rd32 b o := by
  subst hk
  unfold rd32
  rw [byteAt_append_right _ _ _ (by omega), byteAt_append_right _ _ _ (by omega),
    byteAt_append_right _ _ _ (by omega), byteAt_append_right _ _ _ (by omega)]
  have e0 : o + a.length - a.length = o := by omega
  have e1 : o + a.length + 1 - a.length = o + 1 := by omega
  have e2 : o + a.length + 2 - a.length = o + 2 := by omega
  have e3 : o + a.length + 3 - a.length = o + 3 := by omega
  rw [e0, e1, e2, e3]

theorem b8_toNat (n : Nat) : (b8 n).toNat = n % 256 := by
  simp [b8]

theorem rd32_be32 (n : Nat) (h : n < 4294967296) : rd32 (be32 n) 0 = n := by
  simp [rd32, be32, byteAt, b8_toNat]
  omega

theorem rd32_setBytes_be32 (m : Bytes) (off n : Nat) (h : off + 4 ≤ m.length) (hn : n < 4294967296) :
    rd32 (setBytes m off (be32 n)) off = n := by
  rw [setBytes_eq m off _ (by simpa using h)]
  rw [List.append_assoc]
  rw [rd32_append_right _ _ 0 off (by simp; omega), rd32_append_left _ _ _ (by simp), rd32_be32 n hn]

theorem aged_le (t age : Nat) : aged t age ≤ t - age := by unfold aged; split <;> omega
theorem clampTTL_le (t maxTTL : Nat) : clampTTL t maxTTL ≤ t := by unfold clampTTL; split <;> omega
theorem newTTL_le (t age maxTTL : Nat) : newTTL t age maxTTL ≤ t - age := by
  unfold newTTL; have := aged_le t age; have := clampTTL_le (aged t age) maxTTL; omega


theorem newTTL_lt (t age maxTTL : Nat) (h : t < 4294967296) : newTTL t age maxTTL < 4294967296 := by
  have := newTTL_le t age maxTTL; omega

theorem minStep_le (mt t age maxAge : Nat) : minStep mt t age maxAge ≤ mt ∧ minStep mt t age maxAge ≤ t ∧
    (0 < maxAge → maxAge < age → minStep mt t age maxAge = 0) := by
  unfold minStep; split <;> (try split) <;> omega

/-- bytes of `stepBuf` that differ from the input lie in the TTL field of a non-OPT record -/
theorem stepBuf_frame (rest : Bytes) (l age maxTTL j : Nat) (h : l + 10 ≤ rest.length)
    (hne : byteAt (stepBuf rest l age maxTTL) j ≠ byteAt rest j) :
    rd16 rest l ≠ typeOPT ∧ l + 4 ≤ j ∧ j < l + 4 + 4 := by
  unfold stepBuf at hne
  split at hne
  · rename_i ht
    refine ⟨ht, ?_⟩
    by_cases hj : j < l + 4 ∨ l + 4 + 4 ≤ j
    · exact absurd (byteAt_setBytes_out rest (l + 4) _ j (by simp; omega) (by simpa using hj)) hne
    · omega
  · exact absurd rfl hne

theorem stepBuf_ttl (rest : Bytes) (l age maxTTL : Nat) (h : l + 10 ≤ rest.length)
    (ht : rd16 rest l ≠ typeOPT) :
    rd32 (stepBuf rest l age maxTTL) (l + 4) = newTTL (rd32 rest (l + 4)) age maxTTL := by
  unfold stepBuf
  simp only [ht, ne_eq, not_false_eq_true, ↓reduceIte]
  exact rd32_setBytes_be32 rest (l + 4) _ (by omega) (newTTL_lt _ _ _ (rd32_lt _ _))

/-- invariants of the RR loop, for every byte string and every loop state -/
structure LoopInv (age maxAge maxTTL addIdx n i : Nat) (rest : Bytes) (mt : Nat) (out : Bytes)
    (r : Option Nat) : Prop where
  len : out.length = rest.length
  frame : ∀ j, byteAt out j ≠ byteAt rest j → ∃ p ∈ ttlOffs n i rest, p.1 ≤ j ∧ j < p.1 + 4
  ttl : ∀ p ∈ ttlOffs n i rest, rd32 out p.1 = newTTL (rd32 rest p.1) age maxTTL
  inb : ∀ p ∈ ttlOffs n i rest, p.1 + 4 ≤ rest.length ∧ i ≤ p.2
  min : ∀ m, r = some m → m ≤ mt ∧ ∀ p ∈ ttlOffs n i rest, p.2 < addIdx →
          m ≤ aged (rd32 rest p.1) age ∧ (0 < maxAge → maxAge < age → m = 0)

theorem rrLoop_inv (age maxAge maxTTL addIdx : Nat) : ∀ (n i : Nat) (rest : Bytes) (mt : Nat),
    ∃ out r, rrLoop age maxAge maxTTL addIdx n i rest mt = .ok (out, r) ∧
      LoopInv age maxAge maxTTL addIdx n i rest mt out r := by
  intro n
  induction n with
  | zero =>
    intro i rest mt
    refine ⟨rest, some mt, by simp [rrLoop], ⟨rfl, ?_, ?_, ?_, ?_⟩⟩
    · intro j h; exact absurd rfl h
    · intro p hp; simp [ttlOffs] at hp
    · intro p hp; simp [ttlOffs] at hp
    · intro m hm; simp at hm; subst hm; refine ⟨Nat.le_refl _, ?_⟩; intro p hp; simp [ttlOffs] at hp
  | succ n ih =>
    intro i rest mt
    rw [rrLoop_succ]
    by_cases he : rest.isEmpty
    · refine ⟨rest, some mt, by simp [he], ⟨rfl, ?_, ?_, ?_, ?_⟩⟩
      · intro j h; exact absurd rfl h
      · intro p hp; simp [ttlOffs, he] at hp
      · intro p hp; simp [ttlOffs, he] at hp
      · intro m hm; simp at hm; subst hm; refine ⟨Nat.le_refl _, ?_⟩; intro p hp; simp [ttlOffs, he] at hp
    · by_cases hl : skipName rest = 0 ∨ rest.length < skipName rest + 10
      · refine ⟨rest, none, by simp [he, hl], ⟨rfl, ?_, ?_, ?_, ?_⟩⟩
        · intro j h; exact absurd rfl h
        · intro p hp; simp [ttlOffs, he, hl] at hp
        · intro p hp; simp [ttlOffs, he, hl] at hp
        · intro m hm; simp at hm
      · have hl0 : skipName rest ≠ 0 := fun h => hl (Or.inl h)
        have h10 : skipName rest + 10 ≤ rest.length := by
          have : ¬ rest.length < skipName rest + 10 := fun h => hl (Or.inr h)
          omega
        have hoffs : ttlOffs (n + 1) i rest =
            (let k := skipName rest + 10 + rd16 rest (skipName rest + 8)
             let here := if rd16 rest (skipName rest) ≠ typeOPT then [(skipName rest + 4, i)] else []
             if rest.length < k then here
             else here ++ (ttlOffs n (i + 1) (rest.drop k)).map fun p => (p.1 + k, p.2)) := by
          rw [ttlOffs]
          simp only [he, Bool.false_eq_true, false_or]
          have : ¬ (skipName rest = 0 ∨ rest.length < skipName rest + 10) := hl
          simp only [this, ↓reduceIte]
        by_cases hk : rest.length < skipName rest + 10 + rd16 rest (skipName rest + 8)
        · refine ⟨stepBuf rest (skipName rest) age maxTTL, none, by simp [he, hl, hk], ⟨by simp, ?_, ?_, ?_, ?_⟩⟩
          · intro j h
            obtain ⟨ht, h1, h2⟩ := stepBuf_frame rest _ age maxTTL j h10 h
            refine ⟨(skipName rest + 4, i), ?_, h1, h2⟩
            rw [hoffs]; simp [hk, ht]
          · intro p hp
            rw [hoffs] at hp; simp only [hk, ↓reduceIte] at hp
            split at hp
            · rename_i ht; simp at hp; subst hp; exact stepBuf_ttl rest _ age maxTTL h10 ht
            · simp at hp
          · intro p hp
            rw [hoffs] at hp; simp only [hk, ↓reduceIte] at hp
            split at hp
            · simp at hp; subst hp; simp; omega
            · simp at hp
          · intro m hm; simp at hm
        · simp only [he, Bool.false_eq_true, ↓reduceIte, hl, hk]
          obtain ⟨out', r', hrec, inv⟩ := ih (i + 1)
            (rest.drop (skipName rest + 10 + rd16 rest (skipName rest + 8)))
            (stepMin rest (skipName rest) age maxAge addIdx i mt)
          rw [hrec]
          generalize hkk : skipName rest + 10 + rd16 rest (skipName rest + 8) = k at *
          generalize hll : skipName rest = l at *
          have hkl : k ≤ rest.length := by omega
          have hlk : l + 10 ≤ k := by omega
          have htl : ((stepBuf rest l age maxTTL).take k).length = k := by simp; omega
          refine ⟨_, r', rfl, ⟨?_, ?_, ?_, ?_, ?_⟩⟩
          · simp [inv.len]; omega
          · intro j h
            by_cases hj : j < k
            · rw [byteAt_append_left _ _ _ (by omega), byteAt_take _ _ _ hj] at h
              obtain ⟨ht, h1, h2⟩ := stepBuf_frame rest _ age maxTTL j h10 h
              refine ⟨(l + 4, i), ?_, h1, h2⟩
              rw [hoffs]; simp [hk, ht]
            · rw [byteAt_append_right _ _ _ (by omega), htl] at h
              have e : byteAt rest j = byteAt (rest.drop k) (j - k) := by
                rw [byteAt_drop]; congr 1; omega
              rw [e] at h
              obtain ⟨p, hp, h1, h2⟩ := inv.frame (j - k) h
              refine ⟨(p.1 + k, p.2), ?_, by simp; omega, by simp; omega⟩
              rw [hoffs]; simp only [hk, ↓reduceIte]
              exact List.mem_append_right _ (List.mem_map.mpr ⟨p, hp, rfl⟩)
          · intro p hp
            rw [hoffs] at hp; simp only [hk, ↓reduceIte] at hp
            rcases List.mem_append.mp hp with hp | hp
            · split at hp
              · rename_i ht; simp at hp; subst hp
                rw [rd32_append_left _ _ _ (by omega), rd32_take _ _ _ (by omega)]
                exact stepBuf_ttl rest _ age maxTTL h10 ht
              · simp at hp
            · obtain ⟨q, hq, rfl⟩ := List.mem_map.mp hp
              simp only
              rw [rd32_append_right _ _ q.1 _ (by omega), inv.ttl q hq, rd32_drop]
          · intro p hp
            rw [hoffs] at hp; simp only [hk, ↓reduceIte] at hp
            rcases List.mem_append.mp hp with hp | hp
            · split at hp
              · simp at hp; subst hp; simp; omega
              · simp at hp
            · obtain ⟨q, hq, rfl⟩ := List.mem_map.mp hp
              have := inv.inb q hq
              simp at this ⊢; omega
          · intro m hm
            obtain ⟨hm1, hm2⟩ := inv.min m hm
            have hsm : stepMin rest l age maxAge addIdx i mt ≤ mt := by
              unfold stepMin; split
              · exact (minStep_le _ _ _ _).1
              · exact Nat.le_refl _
            refine ⟨by omega, ?_⟩
            intro p hp hidx
            rw [hoffs] at hp; simp only [hk, ↓reduceIte] at hp
            rcases List.mem_append.mp hp with hp | hp
            · split at hp
              · rename_i ht; simp at hp; subst hp
                simp only at hidx ⊢
                have : stepMin rest l age maxAge addIdx i mt = minStep mt (aged (rd32 rest (l + 4)) age) age maxAge := by
                  unfold stepMin; simp [ht, hidx]
                have h3 := minStep_le mt (aged (rd32 rest (l + 4)) age) age maxAge
                refine ⟨by omega, ?_⟩
                intro a b; have := h3.2.2 a b; omega
              · simp at hp
            · obtain ⟨q, hq, rfl⟩ := List.mem_map.mp hp
              have := hm2 q hq hidx
              simp only
              rw [← rd32_drop]; exact this


theorem readCounts_ok (msg : Bytes) (h : 12 ≤ msg.length) :
    readCounts msg = .ok (rd16 msg 4, rd16 msg 6, rd16 msg 8, rd16 msg 10) := by
  unfold readCounts
  simp only [bind, Except.bind, pure, Except.pure]
  rw [sliceFrom_ok msg 4 (by omega)]; simp only []
  rw [unpackUint16_drop msg 4 (by omega)]; simp only []
  rw [sliceFrom_ok msg 6 (by omega)]; simp only []
  rw [unpackUint16_drop msg 6 (by omega)]; simp only []
  rw [sliceFrom_ok msg 8 (by omega)]; simp only []
  rw [unpackUint16_drop msg 8 (by omega)]; simp only []
  rw [sliceFrom_ok msg 10 (by omega)]; simp only []
  rw [unpackUint16_drop msg 10 (by omega)]

theorem skipQuestions_drop : ∀ (n : Nat) (b rest : Bytes), skipQuestions n b = some rest →
    ∃ k, k ≤ b.length ∧ rest = b.drop k := by
  intro n
  induction n with
  | zero => intro b rest h; simp [skipQuestions] at h; exact ⟨0, by omega, by simp [h]⟩
  | succ n ih =>
    intro b rest h
    rw [skipQuestions] at h
    split at h
    · simp at h
    · simp only at h
      split at h
      · simp at h
      · split at h
        · simp at h
        · rename_i h4
          have h4' : skipName b + 4 ≤ b.length := by
            have : ¬ b.length < skipName b + 4 := by rw [← lenLT_iff]; exact h4
            omega
          obtain ⟨k, hk, hr⟩ := ih _ _ h
          refine ⟨skipName b + 4 + k, ?_, ?_⟩
          · simp at hk; omega
          · rw [hr, List.drop_drop]

/-- the all-bytes theorem about `updateTTL`, in one statement -/
theorem updateTTL_inv (msg : Bytes) (age maxAge maxTTL : Nat) :
    ∃ buf m, updateTTL msg age maxAge maxTTL = .ok (buf, m) ∧
      buf.length = msg.length ∧
      (∀ j, byteAt buf j ≠ byteAt msg j → ∃ p ∈ ttlFields msg, p.1 ≤ j ∧ j < p.1 + 4) ∧
      (∀ p ∈ ttlFields msg, p.1 + 4 ≤ msg.length ∧ rd32 buf p.1 = newTTL (rd32 msg p.1) age maxTTL) ∧
      (0 < m → m < u32max ∧ ¬ (0 < maxAge ∧ maxAge < age ∧ ∃ p ∈ ttlFields msg, p.2 < addIdx16 msg) ∧
        ∀ p ∈ ttlFields msg, p.2 < addIdx16 msg → m ≤ aged (rd32 msg p.1) age) := by
  unfold updateTTL
  by_cases h12 : msg.length < 12
  · refine ⟨msg, 0, by simp [h12], rfl, ?_, ?_, by omega⟩
    · intro j h; exact absurd rfl h
    · intro p hp; simp [ttlFields, h12] at hp
  · have h12' : 12 ≤ msg.length := by omega
    have hlt : lenLT msg 12 = false := by rw [← Bool.not_eq_true, lenLT_iff]; exact h12
    simp only [hlt, Bool.false_eq_true, ↓reduceIte]
    rw [readCounts_ok msg h12']
    simp only
    cases hq : skipQuestions (rd16 msg 4) (msg.drop 12) with
    | none =>
      refine ⟨msg, 0, rfl, rfl, ?_, ?_, by omega⟩
      · intro j h; exact absurd rfl h
      · intro p hp; simp [ttlFields, h12, hq] at hp
    | some rest =>
      simp only
      obtain ⟨k, hk, hrest⟩ := skipQuestions_drop _ _ _ hq
      rw [List.drop_drop] at hrest
      simp at hk
      have hrl : rest.length = msg.length - (12 + k) := by rw [hrest]; simp
      have hp : msg.length - rest.length = 12 + k := by omega
      obtain ⟨out, r, hloop, inv⟩ := rrLoop_inv age maxAge maxTTL ((rd16 msg 6 + rd16 msg 8) % 65536)
        ((rd16 msg 6 + rd16 msg 8 + rd16 msg 10) % 65536) 0 rest u32max
      rw [hloop]
      simp only
      have hfields : ttlFields msg = (ttlOffs (rrCount16 msg) 0 rest).map fun p => (p.1 + (12 + k), p.2) := by
        simp [ttlFields, h12, hq, hp]
      have hsplit : msg = msg.take (12 + k) ++ rest := by rw [hrest]; simp
      have htl : (msg.take (12 + k)).length = 12 + k := by simp; omega
      have main : ∀ m, (msg.take (msg.length - rest.length) ++ out).length = msg.length ∧
          (∀ j, byteAt (msg.take (msg.length - rest.length) ++ out) j ≠ byteAt msg j →
            ∃ p ∈ ttlFields msg, p.1 ≤ j ∧ j < p.1 + 4) ∧
          (∀ p ∈ ttlFields msg, p.1 + 4 ≤ msg.length ∧
            rd32 (msg.take (msg.length - rest.length) ++ out) p.1 = newTTL (rd32 msg p.1) age maxTTL) ∧
          (r = some m → m ≤ u32max ∧ ∀ p ∈ ttlFields msg, p.2 < addIdx16 msg →
            m ≤ aged (rd32 msg p.1) age ∧ (0 < maxAge → maxAge < age → m = 0)) := by
        intro m
        rw [hp]
        refine ⟨by simp [inv.len]; omega, ?_, ?_, ?_⟩
        · intro j h
          by_cases hj : j < 12 + k
          · rw [byteAt_append_left _ _ _ (by omega), byteAt_take _ _ _ hj] at h
            exact absurd rfl h
          · rw [byteAt_append_right _ _ _ (by omega), htl] at h
            have e : byteAt msg j = byteAt rest (j - (12 + k)) := by
              rw [hrest, byteAt_drop]; congr 1; omega
            rw [e] at h
            obtain ⟨p, hpm, h1, h2⟩ := inv.frame _ h
            refine ⟨(p.1 + (12 + k), p.2), ?_, by simp; omega, by simp; omega⟩
            rw [hfields]; exact List.mem_map.mpr ⟨p, hpm, rfl⟩
        · intro p hpm
          rw [hfields] at hpm
          obtain ⟨q, hq', rfl⟩ := List.mem_map.mp hpm
          have hb := inv.inb q hq'
          simp only
          refine ⟨by omega, ?_⟩
          have e : rd32 msg (q.1 + (12 + k)) = rd32 rest q.1 := by rw [hrest, rd32_drop]
          rw [rd32_append_right _ _ q.1 _ (by omega), inv.ttl q hq', e]
        · intro hr
          obtain ⟨h1, h2⟩ := inv.min m hr
          refine ⟨h1, ?_⟩
          intro p hpm hidx
          rw [hfields] at hpm
          obtain ⟨q, hq', rfl⟩ := List.mem_map.mp hpm
          have := h2 q hq' hidx
          simp only
          have e : rd32 msg (q.1 + (12 + k)) = rd32 rest q.1 := by rw [hrest, rd32_drop]
          rw [e]; exact this
      cases r with
      | none =>
        obtain ⟨a, b, c, _⟩ := main 0
        exact ⟨_, 0, rfl, a, b, c, by omega⟩
      | some mm =>
        obtain ⟨a, b, c, d⟩ := main mm
        obtain ⟨d1, d2⟩ := d rfl
        refine ⟨_, _, rfl, a, b, c, ?_⟩
        intro hpos
        by_cases hm : u32max - mm = 0
        · simp [hm] at hpos
        · simp only [hm, ↓reduceIte] at hpos ⊢
          refine ⟨by omega, ?_, fun p hp hi => (d2 p hp hi).1⟩
          rintro ⟨ha, hb, p, hp, hi⟩
          have := (d2 p hp hi).2 ha hb
          omega


/-! ### structured messages -/

theorem validName_pos {n : Bytes} (h : ValidName n) : 0 < n.length := by
  cases h <;> simp

theorem skipName_valid {n : Bytes} (h : ValidName n) : ∀ tail, skipName (n ++ tail) = n.length := by
  induction h with
  | root => intro tail; simp [skipName]
  | ptr a b ha => intro tail; simp [skipName, ha]
  | label c lab rest hc0 hc64 hlen hrest ih =>
    intro tail
    have hpos := validName_pos hrest
    obtain ⟨l', hl'⟩ : ∃ l', rest.length = l' + 1 := ⟨rest.length - 1, by omega⟩
    have hd : List.drop c.toNat (lab ++ (rest ++ tail)) = rest ++ tail := by
      rw [← hlen]; simp
    have hlt : lenLT (lab ++ (rest ++ tail)) c.toNat = false := by
      rw [← Bool.not_eq_true, lenLT_iff]; simp; omega
    have hc : c.toNat / 64 = 0 := by omega
    have hne : c.toNat ≠ 0 := by omega
    simp only [List.cons_append, List.append_assoc]
    rw [skipName]
    simp only [hc, ↓reduceIte, hne, hlt, Bool.false_eq_true, hd, ih tail, hl']
    simp; omega


theorem rd16_append_right (a b : Bytes) (o k : Nat) (hk : k = o + a.length) :
    rd16 (a ++ b) k = rd16 b o := by
  subst hk
  unfold rd16
  rw [byteAt_append_right _ _ _ (by omega), byteAt_append_right _ _ _ (by omega)]
  have e0 : o + a.length - a.length = o := by omega
  have e1 : o + a.length + 1 - a.length = o + 1 := by omega
  rw [e0, e1]

theorem rd16_be16 (n : Nat) (h : n < 65536) (b : Bytes) : rd16 (be16 n ++ b) 0 = n := by
  simp [rd16, be16, byteAt, b8_toNat]; omega

theorem question_len (q : Question) : q.encode.length = q.name.length + 4 := by
  simp [Question.encode]

theorem skipQuestions_enc : ∀ (qs : List Question) (tail : Bytes), (∀ q ∈ qs, q.WF) →
    skipQuestions qs.length (encQs qs ++ tail) = some tail := by
  intro qs
  induction qs with
  | nil => intro tail _; simp [skipQuestions, encQs]
  | cons q qs ih =>
    intro tail hwf
    have hq := hwf q (by simp)
    have hpos := validName_pos hq.1
    have e : encQs (q :: qs) ++ tail = q.name ++ (be16 q.qtype ++ be16 q.qclass ++ (encQs qs ++ tail)) := by
      simp [encQs, Question.encode]
    rw [e, List.length_cons, skipQuestions]
    have hne : (q.name ++ (be16 q.qtype ++ be16 q.qclass ++ (encQs qs ++ tail))).isEmpty = false := by
      cases hn : q.name with
      | nil => simp [hn] at hpos
      | cons _ _ => simp
    have hl := skipName_valid hq.1 (be16 q.qtype ++ be16 q.qclass ++ (encQs qs ++ tail))
    have hlt : lenLT (q.name ++ (be16 q.qtype ++ be16 q.qclass ++ (encQs qs ++ tail))) (q.name.length + 4) = false := by
      rw [← Bool.not_eq_true, lenLT_iff]; simp; omega
    have hd : List.drop (q.name.length + 4) (q.name ++ (be16 q.qtype ++ be16 q.qclass ++ (encQs qs ++ tail)))
        = encQs qs ++ tail := by
      have : q.name ++ (be16 q.qtype ++ be16 q.qclass ++ (encQs qs ++ tail)) =
          (q.name ++ be16 q.qtype ++ be16 q.qclass) ++ (encQs qs ++ tail) := by simp
      rw [this, List.drop_left' (by simp)]
    simp only [hne, Bool.false_eq_true, ↓reduceIte, hl, hlt, hd]
    have : q.name.length ≠ 0 := by omega
    simp only [this, ↓reduceIte]
    exact ih tail (fun q' hq' => hwf q' (by simp [hq']))



theorem rd32_be32_app (n : Nat) (h : n < 4294967296) (b : Bytes) : rd32 (be32 n ++ b) 0 = n := by
  rw [rd32_append_left _ _ _ (by simp), rd32_be32 n h]

/-- the fixed part of a record after its name -/
def RR.fixed (r : RR) : Bytes := be16 r.type ++ be16 r.cls ++ be32 r.ttl ++ be16 r.rdata.length

theorem RR.encode_eq (r : RR) (X : Bytes) :
    r.encode ++ X = r.name ++ (be16 r.type ++ (be16 r.cls ++ (be32 r.ttl ++ (be16 r.rdata.length ++ (r.rdata ++ X))))) := by
  simp [RR.encode]

theorem RR.encode_length (r : RR) : r.encode.length = r.name.length + 10 + r.rdata.length := by
  simp [RR.encode]; omega

theorem serve_encode (age maxTTL : Nat) (r : RR) :
    (r.serve age maxTTL).encode =
      r.name ++ be16 r.type ++ be16 r.cls ++ be32 (servedTTL age maxTTL r) ++ be16 r.rdata.length ++ r.rdata := rfl

structure RRFacts (r : RR) (X : Bytes) (age maxTTL : Nat) : Prop where
  ne : (r.encode ++ X).isEmpty = false
  skip : skipName (r.encode ++ X) = r.name.length
  lpos : r.name.length ≠ 0
  len : (r.encode ++ X).length = r.name.length + 10 + r.rdata.length + X.length
  type : rd16 (r.encode ++ X) r.name.length = r.type
  ttl : rd32 (r.encode ++ X) (r.name.length + 4) = r.ttl
  rdlen : rd16 (r.encode ++ X) (r.name.length + 8) = r.rdata.length
  drop : (r.encode ++ X).drop (r.name.length + 10 + r.rdata.length) = X
  buf : (stepBuf (r.encode ++ X) r.name.length age maxTTL).take (r.name.length + 10 + r.rdata.length) =
          (r.serve age maxTTL).encode

theorem rr_facts (r : RR) (hr : r.WF) (X : Bytes) (age maxTTL : Nat) : RRFacts r X age maxTTL := by
  obtain ⟨hn, ht, hc, httl, hrd⟩ := hr
  have hpos := validName_pos hn
  have hlen : (r.encode ++ X).length = r.name.length + 10 + r.rdata.length + X.length := by
    simp [RR.encode_length]
  have htype : rd16 (r.encode ++ X) r.name.length = r.type := by
    rw [RR.encode_eq, rd16_append_right _ _ 0 _ (by simp), rd16_be16 _ ht]
  have httl' : rd32 (r.encode ++ X) (r.name.length + 4) = r.ttl := by
    rw [RR.encode_eq, rd32_append_right _ _ 4 _ (by omega)]
    rw [← List.append_assoc (be16 r.type), rd32_append_right _ _ 0 _ (by simp), rd32_be32_app _ httl]
  have hrdlen : rd16 (r.encode ++ X) (r.name.length + 8) = r.rdata.length := by
    rw [RR.encode_eq, rd16_append_right _ _ 8 _ (by omega)]
    rw [← List.append_assoc (be16 r.type), ← List.append_assoc _ (be32 r.ttl),
      rd16_append_right _ _ 0 _ (by simp), rd16_be16 _ hrd]
  refine ⟨?_, ?_, by omega, hlen, htype, httl', hrdlen, ?_, ?_⟩
  · rw [RR.encode_eq]
    cases hnm : r.name with
    | nil => simp [hnm] at hpos
    | cons _ _ => simp
  · rw [RR.encode_eq]; exact skipName_valid hn _
  · rw [List.drop_left' (by rw [RR.encode_length])]
  · unfold stepBuf
    rw [htype, httl']
    by_cases hopt : r.type = typeOPT
    · simp only [hopt, ne_eq, not_true_eq_false, ↓reduceIte]
      rw [List.take_left' (by rw [RR.encode_length])]
      have : r.serve age maxTTL = r := by
        cases r; simp only [RR.serve, servedTTL]; simp_all
      rw [this]
    · simp only [ne_eq, hopt, not_false_eq_true, ↓reduceIte]
      rw [setBytes_eq _ _ _ (by rw [hlen]; simp; omega)]
      have e1 : (r.encode ++ X).take (r.name.length + 4) = r.name ++ be16 r.type ++ be16 r.cls := by
        have : r.encode ++ X = (r.name ++ be16 r.type ++ be16 r.cls) ++
            (be32 r.ttl ++ (be16 r.rdata.length ++ (r.rdata ++ X))) := by simp [RR.encode]
        rw [this, List.take_left' (by simp)]
      have e2 : (r.encode ++ X).drop (r.name.length + 4 + (be32 (newTTL r.ttl age maxTTL)).length) =
          be16 r.rdata.length ++ (r.rdata ++ X) := by
        have : r.encode ++ X = (r.name ++ be16 r.type ++ be16 r.cls ++ be32 r.ttl) ++
            (be16 r.rdata.length ++ (r.rdata ++ X)) := by simp [RR.encode]
        rw [this, List.drop_left' (by simp)]
      rw [e1, e2, serve_encode]
      have e3 : servedTTL age maxTTL r = newTTL r.ttl age maxTTL := by simp [servedTTL, hopt, newTTL]
      rw [e3]
      have : r.name ++ be16 r.type ++ be16 r.cls ++ be32 (newTTL r.ttl age maxTTL) ++ (be16 r.rdata.length ++ (r.rdata ++ X)) =
          (r.name ++ be16 r.type ++ be16 r.cls ++ be32 (newTTL r.ttl age maxTTL) ++ be16 r.rdata.length ++ r.rdata) ++ X := by
        simp
      rw [this, List.take_left' (by simp; omega)]



/-- the minimum accumulated by the loop over a list of records starting at index `i` -/
def minFold (age maxAge addIdx : Nat) : Nat → List RR → Nat → Nat
  | _, [], mt => mt
  | i, r :: rs, mt =>
    minFold age maxAge addIdx (i + 1) rs
      (if r.type ≠ typeOPT ∧ i < addIdx then minStep mt (aged r.ttl age) age maxAge else mt)

theorem rrLoop_enc (age maxAge maxTTL addIdx : Nat) : ∀ (rs : List RR) (i : Nat) (tail : Bytes) (mt : Nat),
    (∀ r ∈ rs, r.WF) →
    rrLoop age maxAge maxTTL addIdx rs.length i (encRRs rs ++ tail) mt =
      .ok (encRRs (rs.map (RR.serve age maxTTL)) ++ tail, some (minFold age maxAge addIdx i rs mt)) := by
  intro rs
  induction rs with
  | nil => intro i tail mt _; simp [rrLoop, encRRs, minFold]
  | cons r rs ih =>
    intro i tail mt hwf
    have f := rr_facts r (hwf r (by simp)) (encRRs rs ++ tail) age maxTTL
    have e : encRRs (r :: rs) ++ tail = r.encode ++ (encRRs rs ++ tail) := by simp [encRRs]
    rw [e, List.length_cons, rrLoop_succ]
    have h1 : ¬ (r.name.length = 0 ∨ (r.encode ++ (encRRs rs ++ tail)).length < r.name.length + 10) := by
      rw [f.len]; have := f.lpos; omega
    have h2 : ¬ ((r.encode ++ (encRRs rs ++ tail)).length < r.name.length + 10 + r.rdata.length) := by
      rw [f.len]; omega
    simp only [f.ne, Bool.false_eq_true, ↓reduceIte, f.skip, f.rdlen, h1, h2, f.drop, f.buf]
    rw [ih (i + 1) tail _ (fun r' hr' => hwf r' (by simp [hr']))]
    simp only [stepMin, f.type, f.ttl]
    simp [encRRs, minFold]



theorem minFold_ge (age maxAge addIdx : Nat) : ∀ (rs : List RR) (i mt : Nat), addIdx ≤ i →
    minFold age maxAge addIdx i rs mt = mt := by
  intro rs
  induction rs with
  | nil => intro i mt _; rfl
  | cons r rs ih =>
    intro i mt h
    rw [minFold, ih (i + 1) _ (by omega)]
    have : ¬ i < addIdx := by omega
    simp [this]

def minF (age maxAge : Nat) (mt : Nat) (r : RR) : Nat := minStep mt (aged r.ttl age) age maxAge

theorem minFold_lt (age maxAge addIdx : Nat) : ∀ (A B : List RR) (i mt : Nat), i + A.length ≤ addIdx →
    minFold age maxAge addIdx i (A ++ B) mt =
      minFold age maxAge addIdx (i + A.length) B
        ((A.filter fun r => r.type ≠ typeOPT).foldl (minF age maxAge) mt) := by
  intro A
  induction A with
  | nil => intro B i mt _; simp
  | cons r A ih =>
    intro B i mt h
    simp only [List.length_cons] at h
    rw [List.cons_append, minFold, ih B (i + 1) _ (by omega)]
    have hi : i < addIdx := by omega
    have e : i + 1 + A.length = i + (A.length + 1) := by omega
    rw [e]
    by_cases ho : r.type = typeOPT
    · simp [ho, List.filter]
    · simp [ho, hi, List.filter, minF]

theorem encQs_len : ∀ (qs : List Question), (∀ q ∈ qs, q.WF) → 5 * qs.length ≤ (encQs qs).length := by
  intro qs
  induction qs with
  | nil => intro _; simp
  | cons q qs ih =>
    intro h
    have := ih (fun q' hq' => h q' (by simp [hq']))
    have hp := validName_pos (h q (by simp)).1
    simp [encQs, Question.encode] at *
    omega

theorem encRRs_len : ∀ (rs : List RR), (∀ r ∈ rs, r.WF) → 11 * rs.length ≤ (encRRs rs).length := by
  intro rs
  induction rs with
  | nil => intro _; simp
  | cons r rs ih =>
    intro h
    have := ih (fun q' hq' => h q' (by simp [hq']))
    have hp := validName_pos (h r (by simp)).1
    simp [encRRs, RR.encode_length] at *
    omega

theorem encode_length (m : Msg) : m.encode.length = 12 + (encQs m.questions).length + (encRRs m.rrs).length := by
  simp [Msg.encode]; omega

theorem hdr_facts (a b c d e f : Nat) (body : Bytes) (hc : c < 65536) (hd : d < 65536) (he : e < 65536)
    (hf : f < 65536) :
    let msg := be16 a ++ be16 b ++ be16 c ++ be16 d ++ be16 e ++ be16 f ++ body
    rd16 msg 4 = c ∧ rd16 msg 6 = d ∧ rd16 msg 8 = e ∧ rd16 msg 10 = f ∧ msg.drop 12 = body ∧
      msg.take 12 = be16 a ++ be16 b ++ be16 c ++ be16 d ++ be16 e ++ be16 f ∧ msg.length = 12 + body.length := by
  simp [be16, rd16, byteAt, b8_toNat]
  omega

theorem mapTTL_rrs (m : Msg) (age maxTTL : Nat) : (m.mapTTL age maxTTL).rrs = m.rrs.map (RR.serve age maxTTL) := by
  simp [Msg.mapTTL, Msg.rrs]

theorem updateTTL_enc (m : Msg) (hwf : m.WF) (age maxAge maxTTL : Nat) :
    updateTTL m.encode age maxAge maxTTL = .ok ((m.mapTTL age maxTTL).encode, minSpec m age maxAge) := by
  obtain ⟨_, _, hq, hr, hlen⟩ := hwf
  have hql := encQs_len _ hq
  have hrl := encRRs_len _ hr
  rw [encode_length] at hlen
  have hrr : m.rrs.length = m.answers.length + m.authorities.length + m.additionals.length := by
    simp [Msg.rrs]; omega
  have hf := hdr_facts m.id m.flags m.questions.length m.answers.length m.authorities.length
    m.additionals.length (encQs m.questions ++ encRRs m.rrs) (by omega) (by omega) (by omega) (by omega)
  have he : m.encode = be16 m.id ++ be16 m.flags ++ be16 m.questions.length ++ be16 m.answers.length ++
      be16 m.authorities.length ++ be16 m.additionals.length ++ (encQs m.questions ++ encRRs m.rrs) := by
    simp [Msg.encode]
  simp only [← he] at hf
  obtain ⟨h4, h6, h8, h10, hdrop, htake, hl⟩ := hf
  unfold updateTTL
  have hlt : lenLT m.encode 12 = false := by rw [← Bool.not_eq_true, lenLT_iff]; omega
  simp only [hlt, Bool.false_eq_true, ↓reduceIte]
  rw [readCounts_ok _ (by omega)]
  simp only [h4, h6, h8, h10, hdrop]
  rw [skipQuestions_enc _ _ hq]
  simp only
  have hc1 : (m.answers.length + m.authorities.length + m.additionals.length) % 65536 = m.rrs.length := by
    rw [hrr]; omega
  have hc2 : (m.answers.length + m.authorities.length) % 65536 = (m.answers ++ m.authorities).length := by
    simp; omega
  rw [hc1, hc2]
  have := rrLoop_enc age maxAge maxTTL (m.answers ++ m.authorities).length m.rrs 0 [] u32max hr
  simp only [List.append_nil] at this
  rw [this]
  simp only
  have hbuf : List.take (m.encode.length - (encRRs m.rrs).length) m.encode ++ encRRs (m.rrs.map (RR.serve age maxTTL))
      = (m.mapTTL age maxTTL).encode := by
    have e1 : m.encode.length - (encRRs m.rrs).length = (be16 m.id ++ be16 m.flags ++ be16 m.questions.length ++
        be16 m.answers.length ++ be16 m.authorities.length ++ be16 m.additionals.length ++ encQs m.questions).length := by
      have := encode_length m
      simp; omega
    have e2 : m.encode = (be16 m.id ++ be16 m.flags ++ be16 m.questions.length ++
        be16 m.answers.length ++ be16 m.authorities.length ++ be16 m.additionals.length ++ encQs m.questions) ++ encRRs m.rrs := by
      simp [Msg.encode]
    rw [e1]
    conv => lhs; arg 1; arg 2; rw [e2]
    rw [List.take_left' rfl]
    simp [Msg.encode, mapTTL_rrs]
    simp [Msg.mapTTL]
  rw [hbuf]
  have hmin : minFold age maxAge (m.answers ++ m.authorities).length 0 m.rrs u32max =
      m.counted.foldl (minF age maxAge) u32max := by
    unfold Msg.rrs
    rw [minFold_lt _ _ _ _ _ _ _ (by simp), minFold_ge _ _ _ _ _ _ (by simp)]
    rfl
  rw [hmin]
  rfl



theorem rd16_drop (m : Bytes) (k o : Nat) : rd16 (m.drop k) o = rd16 m (o + k) := by
  unfold rd16
  simp only [byteAt_drop]
  have e0 : k + o = o + k := by omega
  have e1 : k + (o + 1) = o + k + 1 := by omega
  rw [e0, e1]

theorem ttlOffs_type : ∀ (n i : Nat) (rest : Bytes) (p : Nat × Nat), p ∈ ttlOffs n i rest →
    5 ≤ p.1 ∧ rd16 rest (p.1 - 4) ≠ typeOPT := by
  intro n
  induction n with
  | zero => intro i rest p hp; simp [ttlOffs] at hp
  | succ n ih =>
    intro i rest p hp
    rw [ttlOffs] at hp
    simp only at hp
    split at hp
    · simp at hp
    · rename_i hc
      have hl0 : skipName rest ≠ 0 := fun h => hc (Or.inr (Or.inl h))
      have here : ∀ q : Nat × Nat, q ∈ (if rd16 rest (skipName rest) ≠ typeOPT then [(skipName rest + 4, i)] else []) →
          5 ≤ q.1 ∧ rd16 rest (q.1 - 4) ≠ typeOPT := by
        intro q hq
        split at hq
        · rename_i ht; simp at hq; subst hq; simp; exact ⟨by omega, ht⟩
        · simp at hq
      split at hp
      · exact here p hp
      · rcases List.mem_append.mp hp with hp | hp
        · exact here p hp
        · obtain ⟨q, hq, rfl⟩ := List.mem_map.mp hp
          obtain ⟨h1, h2⟩ := ih _ _ q hq
          simp only
          refine ⟨by omega, ?_⟩
          rw [rd16_drop] at h2
          have : q.1 + (skipName rest + 10 + rd16 rest (skipName rest + 8)) - 4 =
              q.1 - 4 + (skipName rest + 10 + rd16 rest (skipName rest + 8)) := by omega
          rw [this]; exact h2

theorem ttlFields_type (msg : Bytes) (p : Nat × Nat) (hp : p ∈ ttlFields msg) :
    17 ≤ p.1 ∧ rd16 msg (p.1 - 4) ≠ typeOPT := by
  unfold ttlFields at hp
  split at hp
  · simp at hp
  · rename_i h12
    split at hp
    · simp at hp
    · rename_i rest hq
      obtain ⟨k, hk, hrest⟩ := skipQuestions_drop _ _ _ hq
      rw [List.drop_drop] at hrest
      simp at hk
      have hrl : rest.length = msg.length - (12 + k) := by rw [hrest]; simp
      obtain ⟨q, hq', rfl⟩ := List.mem_map.mp hp
      obtain ⟨h1, h2⟩ := ttlOffs_type _ _ _ q hq'
      simp only
      refine ⟨by omega, ?_⟩
      rw [hrest, rd16_drop] at h2
      have : q.1 + (msg.length - rest.length) - 4 = q.1 - 4 + (12 + k) := by omega
      rw [this]; exact h2

theorem rd16_eq_drop4 (a : Bytes) (o : Nat) : rd16 a (o + 4) = rd16 (a.drop 4) o := by rw [rd16_drop]

/-- `ttlFields` does not look at the first four bytes (id, flags) -/
theorem ttlFields_congr (a b : Bytes) (hl : a.length = b.length) (hd : a.drop 4 = b.drop 4) :
    ttlFields a = ttlFields b := by
  have h4 : rd16 a 4 = rd16 b 4 := by rw [rd16_eq_drop4 a 0, rd16_eq_drop4 b 0, hd]
  have h6 : rd16 a 6 = rd16 b 6 := by rw [rd16_eq_drop4 a 2, rd16_eq_drop4 b 2, hd]
  have h8 : rd16 a 8 = rd16 b 8 := by rw [rd16_eq_drop4 a 4, rd16_eq_drop4 b 4, hd]
  have h10 : rd16 a 10 = rd16 b 10 := by rw [rd16_eq_drop4 a 6, rd16_eq_drop4 b 6, hd]
  have h12 : a.drop 12 = b.drop 12 := by
    have : ∀ x : Bytes, x.drop 12 = (x.drop 4).drop 8 := by intro x; rw [List.drop_drop]
    rw [this a, this b, hd]
  unfold ttlFields rrCount16
  rw [hl, h4, h6, h8, h10, h12]

/-- the reply buffer of AdjustedResponse before the TTL pass: the stored message with the query id -/
def withID (id : Nat) (stored : Bytes) : Bytes := b8 (id / 256) :: b8 id :: stored.drop 2

theorem withID_length (id : Nat) (stored : Bytes) (h : 2 ≤ stored.length) :
    (withID id stored).length = stored.length := by simp [withID]; omega

theorem withID_byte (id : Nat) (stored : Bytes) (j : Nat) (h : 2 ≤ j) :
    byteAt (withID id stored) j = byteAt stored j := by
  obtain ⟨j', rfl⟩ : ∃ j', j = j' + 2 := ⟨j - 2, by omega⟩
  simp [withID, byteAt, List.getD_eq_getElem?_getD]
  rw [Nat.add_comm 2 j']

theorem withID_id (id : Nat) (stored : Bytes) (h : id < 65536) : rd16 (withID id stored) 0 = id := by
  simp [withID, rd16, byteAt, b8_toNat]; omega

theorem withID_fields (id : Nat) (stored : Bytes) (h : 2 ≤ stored.length) :
    ttlFields (withID id stored) = ttlFields stored := by
  apply ttlFields_congr _ _ (withID_length id stored h)
  simp [withID]

theorem withID_encode (id : Nat) (m : Msg) : withID id m.encode = ({ m with id := id } : Msg).encode := by
  simp [withID, Msg.encode, be16, Msg.rrs]



/-- the fold behind `minSpec`: a running minimum, or 0 once max-age is exceeded -/
theorem foldl_minF (age maxAge : Nat) : ∀ (L : List RR) (init : Nat),
    (¬ (0 < maxAge ∧ maxAge < age) →
      L.foldl (minF age maxAge) init ≤ init ∧ (∀ r ∈ L, L.foldl (minF age maxAge) init ≤ aged r.ttl age) ∧
      (L.foldl (minF age maxAge) init = init ∨ ∃ r ∈ L, L.foldl (minF age maxAge) init = aged r.ttl age)) ∧
    ((0 < maxAge ∧ maxAge < age) → L ≠ [] → L.foldl (minF age maxAge) init = 0) := by
  intro L
  induction L with
  | nil => intro init; simp
  | cons r L ih =>
    intro init
    obtain ⟨ih1, ih2⟩ := ih (minF age maxAge init r)
    constructor
    · intro hE
      obtain ⟨a, b, c⟩ := ih1 hE
      have hstep : minF age maxAge init r = min init (aged r.ttl age) := by
        unfold minF minStep
        have : ¬ (maxAge > 0 ∧ age > maxAge) := hE
        simp only [this, ↓reduceIte]; split <;> omega
      simp only [List.foldl_cons]
      refine ⟨by omega, ?_, ?_⟩
      · intro r' hr'
        rcases List.mem_cons.mp hr' with rfl | hr'
        · omega
        · exact b r' hr'
      · rcases c with c | ⟨r', hr', c⟩
        · by_cases hle : init ≤ aged r.ttl age
          · left; omega
          · right; exact ⟨r, by simp, by omega⟩
        · right; exact ⟨r', by simp [hr'], c⟩
    · intro hE _
      simp only [List.foldl_cons]
      by_cases hL : L = []
      · subst hL
        simp only [List.foldl_nil, minF, minStep]
        have : maxAge > 0 ∧ age > maxAge := hE
        simp [this]
      · exact ih2 hE hL


end NV.TTL
