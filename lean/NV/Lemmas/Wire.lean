/-
  NV.Lemmas.Wire — helper lemmas about `byteAt`, `rd16`, `rd32`, `slice`, `setBytes` on
  concatenations (used by the encode-style theorems of C13/C12).  Not property obligations.
-/
import NV.Model.Wire
namespace NV

theorem b8_toNat (n : Nat) (h : n < 256) : (b8 n).toNat = n := by
  unfold b8; simp [UInt8.toNat_ofNat']; omega

theorem b8_toNat_mod (n : Nat) : (b8 n).toNat = n % 256 := by
  unfold b8; simp [UInt8.toNat_ofNat']

theorem byteAt_append_right (A B : Bytes) (i : Nat) : byteAt (A ++ B) (A.length + i) = byteAt B i := by
  unfold byteAt; simp [List.getD_eq_getElem?_getD, List.getElem?_append_right]

theorem byteAt_append_right0 (A B : Bytes) : byteAt (A ++ B) A.length = byteAt B 0 := by
  have := byteAt_append_right A B 0; simpa using this

theorem byteAt_append_left (A B : Bytes) (i : Nat) (h : i < A.length) : byteAt (A ++ B) i = byteAt A i := by
  unfold byteAt; simp [List.getD_eq_getElem?_getD, List.getElem?_append_left h]

@[simp] theorem byteAt_cons_zero (a : UInt8) (B : Bytes) : byteAt (a :: B) 0 = a.toNat := by
  simp [byteAt]

@[simp] theorem byteAt_cons_succ (a : UInt8) (B : Bytes) (i : Nat) : byteAt (a :: B) (i + 1) = byteAt B i := by
  simp [byteAt]

theorem rd16_append_right (A B : Bytes) (i : Nat) : rd16 (A ++ B) (A.length + i) = rd16 B i := by
  unfold rd16; rw [byteAt_append_right, Nat.add_assoc, byteAt_append_right]

theorem rd16_append_right0 (A B : Bytes) : rd16 (A ++ B) A.length = rd16 B 0 := by
  have := rd16_append_right A B 0; simpa using this

theorem rd32_append_right (A B : Bytes) (i : Nat) : rd32 (A ++ B) (A.length + i) = rd32 B i := by
  unfold rd32
  simp only [Nat.add_assoc, byteAt_append_right]

theorem rd32_append_right0 (A B : Bytes) : rd32 (A ++ B) A.length = rd32 B 0 := by
  have := rd32_append_right A B 0; simpa using this

theorem rd16_be16 (n : Nat) (B : Bytes) (h : n < 65536) : rd16 (be16 n ++ B) 0 = n := by
  simp [rd16, be16, b8_toNat_mod]; omega

theorem rd32_be32 (n : Nat) (B : Bytes) (h : n < 4294967296) : rd32 (be32 n ++ B) 0 = n := by
  simp [rd32, be32, b8_toNat_mod]; omega

@[simp] theorem be16_length (n : Nat) : (be16 n).length = 2 := rfl
@[simp] theorem be32_length (n : Nat) : (be32 n).length = 4 := rfl

theorem slice_append_right (A B : Bytes) (i n : Nat) : slice (A ++ B) (A.length + i) n = slice B i n := by
  unfold slice
  rw [List.drop_append]
  have : List.drop (A.length + i) A = [] := List.drop_eq_nil_of_le (by omega)
  simp [this]

theorem slice_append_right0 (A B : Bytes) (n : Nat) : slice (A ++ B) A.length n = slice B 0 n := by
  have := slice_append_right A B 0 n; simpa using this

theorem slice_prefix (d B : Bytes) : slice (d ++ B) 0 d.length = d := by
  unfold slice; simp

theorem slice_prefix' (d B : Bytes) (n : Nat) (h : n = d.length) : slice (d ++ B) 0 n = d := by
  subst h; exact slice_prefix d B

end NV
