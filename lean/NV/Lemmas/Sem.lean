/-
  NV.Lemmas.Sem — helper lemmas for the semaphore system (NV.Model.Sem): state well-formedness along
  CFG paths and bookkeeping of the held-units sum.
-/
import NV.Model.Sem
namespace NV.Sem
open NV.CFG

/-- a state is acceptable: non-negative, and (strict programs) balanced once a deferred release is installed -/
def stOk (strict : Bool) (s : St) : Prop := 0 ≤ s.1 ∧ (strict = true → s.2 = 0 ∨ s.1 = s.2)

theorem okAfter_stOk (strict : Bool) (e : Ev) (s : St) (h : e.okAfter strict s = true) :
    stOk strict (e.apply s) := by
  unfold Ev.okAfter at h
  simp only [Bool.and_eq_true, Bool.or_eq_true, decide_eq_true_eq, Bool.not_eq_true'] at h
  obtain ⟨⟨h1, _⟩, h3⟩ := h
  refine ⟨h1, ?_⟩
  intro hs
  rcases h3 with (h3 | h3) | h3
  · simp [hs] at h3
  · exact .inl h3
  · exact .inr h3

theorem runEvs_append (a b : List Ev) (s : St) : runEvs (a ++ b) s = runEvs b (runEvs a s) := by
  simp [runEvs, List.foldl_append]

theorem runEvs_snoc (a : List Ev) (e : Ev) (s : St) : runEvs (a ++ [e]) s = e.apply (runEvs a s) := by
  simp [runEvs, List.foldl_append]

/-- every prefix of a checked event list leads to an acceptable state -/
theorem evsOk_prefix_ok (strict : Bool) :
    ∀ (pre post : List Ev) (s : St), stOk strict s → evsOk strict (pre ++ post) s = true →
      stOk strict (runEvs pre s) := by
  intro pre
  induction pre with
  | nil => intro post s hs _; simpa [runEvs] using hs
  | cons e pre ih =>
    intro post s _ h
    simp only [List.cons_append, evsOk, Bool.and_eq_true] at h
    have := ih post (e.apply s) (okAfter_stOk strict e s h.1) h.2
    simpa [runEvs] using this

theorem check_evsOk (strict : Bool) (p : Prog) (cert : Cert) (init : St)
    (h : check strict p cert init = true) (i : Nat) (s : St) (b : Block)
    (hr : Reach p init i s) (hb : p[i]? = some b) : evsOk strict b.evs s = true := by
  have hs := cert_sound strict p cert init h i s hr
  have hc := check_block strict p cert init h i b hb
  simp only [checkBlock, hs, Bool.and_eq_true] at hc
  exact hc.1

/-- the state at the entry of every reachable block is acceptable -/
theorem reach_stOk (strict : Bool) (p : Prog) (cert : Cert) (init : St)
    (h : check strict p cert init = true) (hinit : stOk strict init) :
    ∀ i s, Reach p init i s → stOk strict s := by
  intro i s hr
  induction hr with
  | entry => exact hinit
  | @step i j s b hr' hb _ ih =>
    have he := check_evsOk strict p cert init h i s b hr' hb
    have := evsOk_prefix_ok strict b.evs [] s ih (by simpa using he)
    exact this

/-- … and so is every state inside a block -/
theorem point_stOk (strict : Bool) (p : Prog) (cert : Cert) (init : St)
    (h : check strict p cert init = true) (hinit : stOk strict init) (i : Nat) (s : St) (b : Block)
    (hr : Reach p init i s) (hb : p[i]? = some b) (pre post : List Ev) (hsplit : b.evs = pre ++ post) :
    stOk strict (runEvs pre s) := by
  have he := check_evsOk strict p cert init h i s b hr hb
  rw [hsplit] at he
  exact evsOk_prefix_ok strict pre post s (reach_stOk strict p cert init h hinit i s hr) he

theorem heldSum_append (a b : List Thread) : heldSum (a ++ b) = heldSum a + heldSum b := by
  induction a with
  | nil => simp [heldSum]
  | cons t ts ih => simp [heldSum, ih]; omega

theorem heldSum_set (ts : List Thread) (i : Nat) (t t' : Thread) (h : ts[i]? = some t) :
    heldSum (ts.set i t') = heldSum ts - t.st.1 + t'.st.1 := by
  induction ts generalizing i with
  | nil => simp at h
  | cons a as ih =>
    cases i with
    | zero => simp at h; subst h; simp [heldSum]; omega
    | succ k => simp at h; have := ih k h; simp [heldSum, this]; omega

theorem heldSum_eraseIdx (ts : List Thread) (i : Nat) (t : Thread) (h : ts[i]? = some t) :
    heldSum (ts.eraseIdx i) = heldSum ts - t.st.1 := by
  induction ts generalizing i with
  | nil => simp at h
  | cons a as ih =>
    cases i with
    | zero => simp at h; subst h; simp [heldSum]; omega
    | succ k => simp at h; have := ih k h; simp [heldSum, this]; omega

theorem mem_set_cases' {α} {ls : List α} {i : Nat} {y x : α} (h : x ∈ ls.set i y) : x ∈ ls ∨ x = y :=
  List.mem_or_eq_of_mem_set h

theorem mem_eraseIdx_mem {α} {ls : List α} {i : Nat} {x : α} (h : x ∈ ls.eraseIdx i) : x ∈ ls :=
  List.mem_of_mem_eraseIdx h

end NV.Sem
