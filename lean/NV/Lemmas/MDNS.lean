/-
  NV.Lemmas.MDNS — helper lemmas about the mDNS table operations (C18).
-/
import NV.Lemmas.Discovery
namespace NV.Disc
open NV

theorem absName_ne_nil (s : Str) : absName s ≠ [] := by
  unfold absName
  split
  · rename_i h; intro e; subst e; simp at h
  · simp

theorem ETbl.vals_nil (k : Str) : ETbl.vals [] k = [] := by
  simp [ETbl.vals, ETbl.ent, mget]

theorem vals_mset (m : ETbl) (k k' : Str) (e : Entry) :
    ETbl.vals (mset m k' e) k = if k = k' then e.values else m.vals k := by
  unfold ETbl.vals ETbl.ent
  rw [mget_mset]
  split <;> simp

theorem vals_mdel (m : ETbl) (k k' : Str) :
    ETbl.vals (mdel m k') k = if k = k' then [] else m.vals k := by
  unfold ETbl.vals ETbl.ent
  rw [mget_mdel]
  split <;> simp

theorem vals_addEntry (m : ETbl) (key v : Str) (now : Nat) (k : Str) :
    (addEntry m key v now).vals k = if k = key then appendUniq1 (m.vals key) v else m.vals k := by
  unfold addEntry
  rw [vals_mset]

theorem vals_removeEntry (m : ETbl) (key v : Str) (k : Str) :
    (removeEntry m key v).vals k = if k = key then (m.vals key).erase v else m.vals k := by
  unfold removeEntry
  simp only
  split
  · rename_i h
    rw [vals_mdel]
    split
    · have : (m.ent key).values.erase v = [] := List.length_eq_zero_iff.mp h
      simp [ETbl.vals, this]
    · rfl
  · rw [vals_mset]
    split
    · simp [ETbl.vals]
    · rfl

/-- successive `erase` of each element of `M` -/
def eraseAll (l M : List Str) : List Str := M.foldl List.erase l

theorem mem_eraseAll (M : List Str) : ∀ (l : List Str), l.Nodup →
    ∀ x, x ∈ eraseAll l M ↔ x ∈ l ∧ x ∉ M := by
  induction M with
  | nil => intro l _ x; simp [eraseAll]
  | cons m t ih =>
    intro l hn x
    unfold eraseAll at ih ⊢
    simp only [List.foldl_cons]
    rw [ih (l.erase m) (hn.erase m) x, hn.mem_erase_iff]
    simp only [List.mem_cons, not_or]
    constructor
    · rintro ⟨⟨h1, h2⟩, h3⟩; exact ⟨h2, h1, h3⟩
    · rintro ⟨h2, h1, h3⟩; exact ⟨⟨h1, h2⟩, h3⟩

theorem eraseAll_sublist (M : List Str) : ∀ (l : List Str), (eraseAll l M).Sublist l := by
  induction M with
  | nil => intro l; simp [eraseAll]
  | cons m t ih =>
    intro l
    unfold eraseAll at ih ⊢
    simp only [List.foldl_cons]
    exact (ih (l.erase m)).trans (List.erase_sublist)

theorem vals_foldl_removeEntry (addr : Str) (M : List Str) : ∀ (am : ETbl) (k : Str),
    (M.foldl (fun am n => removeEntry am addr n) am).vals k
      = if k = addr then eraseAll (am.vals addr) M else am.vals k := by
  induction M with
  | nil => intro am k; simp [eraseAll]; intro h; rw [h]
  | cons m t ih =>
    intro am k
    simp only [List.foldl_cons]
    rw [ih]
    split
    · rw [vals_removeEntry]; simp [eraseAll]
    · rename_i h; rw [vals_removeEntry]; simp [h]

def ESorted (m : ETbl) : Prop := ∀ k, Sorted (m.vals k)

theorem removeFolded_spec (am : ETbl) (key addr : Str) (hs : ESorted am) :
    ESorted (removeFolded am key addr) ∧
    ∀ a x, x ∈ (removeFolded am key addr).vals a ↔ x ∈ am.vals a ∧ ¬ (a = addr ∧ prepareHostLookup x = key) := by
  unfold removeFolded
  constructor
  · intro k
    rw [vals_foldl_removeEntry]
    split
    · exact List.Pairwise.sublist (eraseAll_sublist _ _) (hs addr)
    · exact hs k
  · intro a x
    rw [vals_foldl_removeEntry]
    split
    · rename_i h; subst h
      rw [mem_eraseAll _ _ (hs a).nodup]
      simp only [List.mem_filter, beq_iff_eq, true_and, not_and]
      constructor
      · rintro ⟨h1, h2⟩; exact ⟨h1, fun h3 => h2 h1 h3⟩
      · rintro ⟨h1, h2⟩; exact ⟨h1, fun _ h3 => h2 h3⟩
    · rename_i h; simp [h]

theorem removeFolded_fold_spec (key : Str) (A : List Str) : ∀ (am : ETbl), ESorted am →
    ESorted (A.foldl (fun am a => removeFolded am key a) am) ∧
    ∀ a x, x ∈ (A.foldl (fun am a => removeFolded am key a) am).vals a ↔
      x ∈ am.vals a ∧ ¬ (a ∈ A ∧ prepareHostLookup x = key) := by
  induction A with
  | nil => intro am hs; exact ⟨hs, by simp⟩
  | cons b t ih =>
    intro am hs
    have h1 := removeFolded_spec am key b hs
    have h2 := ih (removeFolded am key b) h1.1
    simp only [List.foldl_cons]
    refine ⟨h2.1, ?_⟩
    intro a x
    rw [h2.2 a x, h1.2 a x]
    simp only [List.mem_cons]
    constructor
    · rintro ⟨⟨h3, h4⟩, h5⟩
      refine ⟨h3, ?_⟩
      rintro ⟨h6 | h6, h7⟩
      · exact h4 ⟨h6, h7⟩
      · exact h5 ⟨h6, h7⟩
    · rintro ⟨h3, h4⟩
      exact ⟨⟨h3, fun h => h4 ⟨Or.inl h.1, h.2⟩⟩, fun h => h4 ⟨Or.inr h.1, h.2⟩⟩

/-- the scan of `removeOldestEntry` returns a least stamp and, when some entry is older than
`t0`, a key of the table carrying it -/
theorem oldestAux_spec : ∀ (l : ETbl) (k0 : Str) (t0 : Nat),
    (oldestAux l k0 t0).2 ≤ t0 ∧
    (∀ p ∈ l, (oldestAux l k0 t0).2 ≤ p.2.stamp) ∧
    ((oldestAux l k0 t0 = (k0, t0)) ∨
      (∃ e, ((oldestAux l k0 t0).1, e) ∈ l ∧ e.stamp = (oldestAux l k0 t0).2 ∧ (oldestAux l k0 t0).2 < t0)) := by
  intro l
  induction l with
  | nil => intro k0 t0; simp [oldestAux]
  | cons p t ih =>
    intro k0 t0
    obtain ⟨k', e⟩ := p
    simp only [oldestAux]
    split
    · rename_i hlt
      have := ih k' e.stamp
      refine ⟨by omega, ?_, ?_⟩
      · intro p hp
        rcases List.mem_cons.mp hp with h | h
        · subst h; exact this.1
        · exact this.2.1 p h
      · right
        rcases this.2.2 with h | ⟨e', h1, h2, h3⟩
        · rw [h]; exact ⟨e, by simp, rfl, hlt⟩
        · exact ⟨e', List.mem_cons_of_mem _ h1, h2, by omega⟩
    · rename_i hge
      have := ih k0 t0
      refine ⟨this.1, ?_, ?_⟩
      · intro p hp
        rcases List.mem_cons.mp hp with h | h
        · subst h; simp only; omega
        · exact this.2.1 p h
      · rcases this.2.2 with h | ⟨e', h1, h2, h3⟩
        · left; exact h
        · right; exact ⟨e', List.mem_cons_of_mem _ h1, h2, h3⟩

theorem oldestAux_found (l : ETbl) (k0 : Str) (t0 : Nat) (p : Str × Entry) (hp : p ∈ l) (hlt : p.2.stamp < t0) :
    ∃ e, ((oldestAux l k0 t0).1, e) ∈ l ∧ e.stamp = (oldestAux l k0 t0).2 := by
  have h := oldestAux_spec l k0 t0
  rcases h.2.2 with h1 | ⟨e, h1, h2, _⟩
  · have := h.2.1 p hp
    rw [h1] at this
    simp at this
    omega
  · exact ⟨e, h1, h2⟩

theorem mem_mset {V : Type} (m : List (Str × V)) (k : Str) (v : V) (p : Str × V) (h : p ∈ mset m k v) :
    p = (k, v) ∨ (p ∈ m ∧ p.1 ≠ k) := by
  unfold mset mdel at h
  rcases List.mem_cons.mp h with h | h
  · exact Or.inl h
  · have := List.mem_filter.mp h
    exact Or.inr ⟨this.1, by simpa using this.2⟩

theorem mem_mdel {V : Type} (m : List (Str × V)) (k : Str) (p : Str × V) (h : p ∈ mdel m k) :
    p ∈ m ∧ p.1 ≠ k := by
  unfold mdel at h
  have := List.mem_filter.mp h
  exact ⟨this.1, by simpa using this.2⟩

/-- the two views agree: `a` is listed under key `k` iff some announced spelling of `k` is listed
under address `a` -/
def Agree (s : MState) : Prop :=
  ∀ a k, a ∈ s.names.vals k ↔ ∃ n ∈ s.addrs.vals a, prepareHostLookup n = k

/-- invariant of the tables between two operations of the ingest loop (without the cap) -/
structure PreInv (s : MState) : Prop where
  namesKeys : (keys s.names).Nodup
  stamps : ∀ p ∈ s.names, p.2.stamp < s.clock
  keysNonempty : ∀ p ∈ s.names, p.1 ≠ []
  sortedN : ESorted s.names
  sortedA : ESorted s.addrs
  agree : Agree s

theorem preInv_init : PreInv {} := by
  refine ⟨by simp [keys], by simp, by simp, ?_, ?_, ?_⟩
  · intro k; simp [ETbl.vals_nil, Sorted]
  · intro k; simp [ETbl.vals_nil, Sorted]
  · intro a k; simp [ETbl.vals_nil]

/-- what `removeOldestEntry` does to a non-empty table -/
theorem removeOldest_spec (s : MState) (h : PreInv s) (hne : s.names ≠ []) :
    let k := (oldestAux s.names [] s.clock).1
    k ∈ keys s.names ∧
    (∀ p ∈ s.names, (s.names.ent k).stamp ≤ p.2.stamp) ∧
    (removeOldest s).names = mdel s.names k ∧
    (removeOldest s).names.length + 1 = s.names.length ∧
    PreInv (removeOldest s) := by
  intro k
  obtain ⟨p0, hp0⟩ := List.exists_mem_of_ne_nil _ hne
  obtain ⟨e, he1, he2⟩ := oldestAux_found s.names [] s.clock p0 hp0 (h.stamps p0 hp0)
  have hk : k ∈ keys s.names := List.mem_map.mpr ⟨(k, e), he1, rfl⟩
  have hkne : k ≠ [] := h.keysNonempty (k, e) he1
  have hent : s.names.ent k = e := by
    unfold ETbl.ent
    rw [mget_of_mem s.names k e h.namesKeys he1]; rfl
  have hmin : ∀ p ∈ s.names, (s.names.ent k).stamp ≤ p.2.stamp := by
    intro p hp
    rw [hent, he2]
    exact (oldestAux_spec s.names [] s.clock).2.1 p hp
  have hnames : (removeOldest s).names = mdel s.names k := by
    unfold removeOldest
    simp only [show (oldestAux s.names [] s.clock).1 = k from rfl, hkne, ne_eq, not_false_eq_true, ↓reduceIte]
  have haddrs : (removeOldest s).addrs = (s.names.vals k).foldl (fun am a => removeFolded am k a) s.addrs := by
    unfold removeOldest
    simp only [show (oldestAux s.names [] s.clock).1 = k from rfl, hkne, ne_eq, not_false_eq_true, ↓reduceIte]
  have hclock : (removeOldest s).clock = s.clock + 1 := by
    unfold removeOldest
    simp only [show (oldestAux s.names [] s.clock).1 = k from rfl, hkne, ne_eq, not_false_eq_true, ↓reduceIte]
  have hfold := removeFolded_fold_spec k (s.names.vals k) s.addrs h.sortedA
  refine ⟨hk, hmin, hnames, ?_, ?_⟩
  · rw [hnames]; exact length_mdel_of_mem s.names k h.namesKeys hk
  · refine ⟨?_, ?_, ?_, ?_, ?_, ?_⟩
    · rw [hnames]; exact keys_mdel_nodup _ _ h.namesKeys
    · intro p hp
      rw [hnames] at hp
      rw [hclock]
      have := h.stamps p (mem_mdel _ _ _ hp).1
      omega
    · intro p hp
      rw [hnames] at hp
      exact h.keysNonempty p (mem_mdel _ _ _ hp).1
    · intro k'
      rw [hnames, vals_mdel]
      split
      · simp [Sorted]
      · exact h.sortedN k'
    · rw [haddrs]; exact hfold.1
    · intro a k'
      rw [hnames, haddrs, vals_mdel]
      constructor
      · intro ha
        split at ha
        · simp at ha
        · rename_i hkk
          obtain ⟨n, hn1, hn2⟩ := (h.agree a k').mp ha
          refine ⟨n, (hfold.2 a n).mpr ⟨hn1, ?_⟩, hn2⟩
          rintro ⟨_, h2⟩
          exact hkk (hn2.symm.trans h2)
      · rintro ⟨n, hn1, hn2⟩
        have := (hfold.2 a n).mp hn1
        have hak : a ∈ s.names.vals k' := (h.agree a k').mpr ⟨n, this.1, hn2⟩
        split
        · rename_i hkk
          subst hkk
          exact absurd ⟨hak, hn2⟩ this.2
        · exact hak

theorem evictLoop_spec (cap : Nat) : ∀ (fuel : Nat) (s : MState), PreInv s →
    PreInv (evictLoop cap fuel s) ∧
    (s.names.length ≤ cap + fuel → (evictLoop cap fuel s).names.length ≤ cap) := by
  intro fuel
  induction fuel with
  | zero => intro s h; exact ⟨h, by simp [evictLoop]⟩
  | succ n ih =>
    intro s h
    simp only [evictLoop]
    split
    · rename_i hgt
      have hne : s.names ≠ [] := by intro e; rw [e] at hgt; simp at hgt
      have hr := removeOldest_spec s h hne
      have := ih (removeOldest s) hr.2.2.2.2
      refine ⟨this.1, fun hl => this.2 ?_⟩
      have := hr.2.2.2.1
      omega
    · exact ⟨h, fun _ => by omega⟩

theorem mem_appendUniq1 (l : List Str) (x y : Str) (h : Sorted l) :
    y ∈ appendUniq1 l x ↔ y = x ∨ y ∈ l := by
  rw [appendUniq1_eq_insertSorted l x h, mem_insertSorted]

theorem sorted_appendUniq1 (l : List Str) (x : Str) (h : Sorted l) : Sorted (appendUniq1 l x) := by
  rw [appendUniq1_eq_insertSorted l x h]; exact sorted_insertSorted x l h

/-- the state after the two `addEntry` calls of the ingest loop -/
def afterAdds (s : MState) (addr name : Str) : MState :=
  { addrs := addEntry s.addrs addr name s.clock,
    names := addEntry s.names (prepareHostLookup name) addr (s.clock + 1),
    clock := s.clock + 1 + 1 }

theorem afterAdds_preInv (s : MState) (addr raw : Str) (h : PreInv s) :
    PreInv (afterAdds s addr (absName raw)) := by
  have hkey : prepareHostLookup (absName raw) ≠ [] := absName_ne_nil _
  refine ⟨?_, ?_, ?_, ?_, ?_, ?_⟩
  · exact keys_mset_nodup _ _ _ h.namesKeys
  · intro p hp
    rcases mem_mset _ _ _ _ hp with hp | hp
    · subst hp; simp [afterAdds]
    · have := h.stamps p hp.1
      simp only [afterAdds]; omega
  · intro p hp
    rcases mem_mset _ _ _ _ hp with hp | hp
    · subst hp; exact hkey
    · exact h.keysNonempty p hp.1
  · intro k
    simp only [afterAdds]
    rw [vals_addEntry]
    split
    · exact sorted_appendUniq1 _ _ (h.sortedN _)
    · exact h.sortedN k
  · intro k
    simp only [afterAdds]
    rw [vals_addEntry]
    split
    · exact sorted_appendUniq1 _ _ (h.sortedA _)
    · exact h.sortedA k
  · intro a k
    simp only [afterAdds]
    rw [vals_addEntry, vals_addEntry]
    constructor
    · intro ha
      by_cases hk : k = prepareHostLookup (absName raw)
      · simp only [hk, ↓reduceIte] at ha
        rcases (mem_appendUniq1 _ _ _ (h.sortedN _)).mp ha with ha | ha
        · subst ha
          refine ⟨absName raw, ?_, hk.symm⟩
          simp only [↓reduceIte]
          exact (mem_appendUniq1 _ _ _ (h.sortedA _)).mpr (Or.inl rfl)
        · obtain ⟨n, hn1, hn2⟩ := (h.agree a _).mp ha
          refine ⟨n, ?_, hn2.trans hk.symm⟩
          split
          · rename_i haa; subst haa
            exact (mem_appendUniq1 _ _ _ (h.sortedA _)).mpr (Or.inr hn1)
          · exact hn1
      · simp only [hk, ↓reduceIte] at ha
        obtain ⟨n, hn1, hn2⟩ := (h.agree a k).mp ha
        refine ⟨n, ?_, hn2⟩
        split
        · rename_i haa; subst haa
          exact (mem_appendUniq1 _ _ _ (h.sortedA _)).mpr (Or.inr hn1)
        · exact hn1
    · rintro ⟨n, hn1, hn2⟩
      have hold : n ∈ s.addrs.vals a → a ∈ (if k = prepareHostLookup (absName raw) then
          appendUniq1 (s.names.vals (prepareHostLookup (absName raw))) addr else s.names.vals k) := by
        intro hn
        have := (h.agree a k).mpr ⟨n, hn, hn2⟩
        split
        · rename_i hk; subst hk
          exact (mem_appendUniq1 _ _ _ (h.sortedN _)).mpr (Or.inr this)
        · exact this
      split at hn1
      · rename_i haa; subst haa
        rcases (mem_appendUniq1 _ _ _ (h.sortedA _)).mp hn1 with hn | hn
        · subst hn
          simp only [hn2.symm, ↓reduceIte]
          exact (mem_appendUniq1 _ _ _ (h.sortedN _)).mpr (Or.inl rfl)
        · exact hold hn
      · exact hold hn1

theorem ingestOne_eq (cap : Nat) (s : MState) (e : Str × Str) :
    ingestOne cap s e = if isValidName e.2 then
      evictLoop cap ((afterAdds s e.1 (absName e.2)).names.length + 1) (afterAdds s e.1 (absName e.2))
    else s := by
  unfold ingestOne afterAdds prepareHostLookup
  rfl

theorem length_mset_le {V : Type} (m : List (Str × V)) (k : Str) (v : V) :
    (mset m k v).length ≤ m.length + 1 := by
  unfold mset
  simp only [List.length_cons]
  have := length_mdel_le m k
  omega

end NV.Disc
