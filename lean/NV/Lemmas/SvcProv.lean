import NV.Model.SvcProv
namespace NV.SvcProvL
open NV.SvcProv

/-- the addresses a parameter contributes (none when it is not a hint, or malformed) -/
def addrsOfParam (p : Param) : List Bytes :=
  if p.key = 4 then (hints 4 (p.value.length + 1) p.value).getD []
  else if p.key = 6 then (hints 16 (p.value.length + 1) p.value).getD []
  else []

def addrsOf (ps : List Param) : List Bytes := ps.flatMap addrsOfParam

theorem applyParam_ips (e e' : Ep) (p : Param) (h : applyParam e p = some e') : e'.ips = e.ips ++ addrsOfParam p := by
  unfold applyParam at h
  unfold addrsOfParam
  by_cases h4 : p.key = 4
  · simp only [h4, if_true] at h ⊢
    cases hh : hints 4 (p.value.length + 1) p.value with
    | none => simp [hh] at h
    | some l => simp [hh] at h; subst h; simp
  · by_cases h6 : p.key = 6
    · simp only [h4, h6, if_true, if_false] at h ⊢
      cases hh : hints 16 (p.value.length + 1) p.value with
      | none => simp [hh] at h
      | some l => simp [hh] at h; subst h; simp
    · by_cases h1 : p.key = 1
      · simp only [h4, h6, h1, if_true, if_false] at h ⊢
        cases ha : alpn (p.value.length + 1) p.value with
        | none => simp [ha] at h
        | some a => simp [ha] at h; subst h; simp
      · simp only [h4, h6, h1, if_false] at h ⊢
        simp at h; subst h; simp

theorem applyParams_ips : ∀ (ps : List Param) (e e' : Ep), applyParams e ps = some e' → e'.ips = e.ips ++ addrsOf ps := by
  intro ps
  induction ps with
  | nil => intro e e' h; simp [applyParams] at h; subst h; simp [addrsOf]
  | cons p ps ih =>
    intro e e' h
    simp only [applyParams] at h
    cases hp : applyParam e p with
    | none => simp [hp] at h
    | some e1 =>
      simp only [hp] at h
      rw [ih e1 e' h, applyParam_ips e e1 p hp]
      simp [addrsOf, List.append_assoc]

def allIps (eps : List Ep) : List Bytes := eps.flatMap (·.ips)

theorem loop_ips : ∀ (rrs : List RR) (prio : Nat) (e : Option Ep) (out res : List Ep),
    loop rrs prio e out = some res →
    allIps res = allIps (out ++ e.toList) ++ rrs.flatMap (fun r => addrsOf r.params) := by
  intro rrs
  induction rrs with
  | nil =>
    intro prio e out res h
    simp [loop] at h; subst h; simp
  | cons rr rest ih =>
    intro prio e out res h
    simp only [loop] at h
    by_cases hc : prio < rr.prio ∧ e.isSome = true
    · simp only [hc, and_self, if_true] at h
      have hg : (Option.getD (none : Option Ep) {}) = ({} : Ep) := rfl
      rw [hg] at h
      cases ha : applyParams ({} : Ep) rr.params with
      | none => simp [ha] at h
      | some e' =>
        simp only [ha] at h
        have := ih rr.prio (some e') (out ++ e.toList) res h
        rw [this]
        have hi := applyParams_ips rr.params _ e' ha
        simp [allIps, hi, List.flatMap_append, List.append_assoc]
    · simp only [hc, if_false] at h
      cases ha : applyParams (e.getD {}) rr.params with
      | none => simp [ha] at h
      | some e' =>
        simp only [ha] at h
        have := ih rr.prio (some e') out res h
        rw [this]
        have hi := applyParams_ips rr.params _ e' ha
        cases e with
        | none => simp [allIps, hi, List.flatMap_append]
        | some e0 => simp [allIps, hi, List.flatMap_append, List.append_assoc]

/-- how many times the priority value rises from one record to the next -/
def rises : List Nat → Nat
  | a :: b :: rest => (if a < b then 1 else 0) + rises (b :: rest)
  | _ => 0

theorem loop_some_count : ∀ (rrs : List RR) (prio : Nat) (e : Ep) (out res : List Ep),
    loop rrs prio (some e) out = some res →
    res.length = out.length + 1 + rises (prio :: rrs.map (·.prio)) := by
  intro rrs
  induction rrs with
  | nil => intro prio e out res h; simp [loop] at h; subst h; simp [rises]
  | cons rr rest ih =>
    intro prio e out res h
    simp only [loop] at h
    by_cases hc : prio < rr.prio
    · have hcc : (prio < rr.prio ∧ (some e).isSome = true) := ⟨hc, rfl⟩
      simp only [hcc, and_self, if_true] at h
      have hg : (Option.getD (none : Option Ep) {}) = ({} : Ep) := rfl
      rw [hg] at h
      cases ha : applyParams ({} : Ep) rr.params with
      | none => simp [ha] at h
      | some e' =>
        simp only [ha] at h
        have := ih rr.prio e' (out ++ (some e).toList) res h
        rw [this]
        simp [rises, hc]
        omega
    · have hcc : ¬ (prio < rr.prio ∧ (some e).isSome = true) := fun x => hc x.1
      simp only [hcc, if_false] at h
      have hg2 : (some e).getD ({} : Ep) = e := rfl
      rw [hg2] at h
      cases ha : applyParams e rr.params with
      | none => rw [ha] at h; simp at h
      | some e' =>
        rw [ha] at h
        have := ih rr.prio e' out res h
        rw [this]
        simp [rises, hc]


end NV.SvcProvL
