/-
  NV.Lemmas.Local — helper lemmas for C12 (string primitives, the ptrIP loop, table lookups).
  Not property obligations.
-/
import NV.Lemmas.Wire
import NV.Model.Local
import NV.Spec.Local
namespace NV

/-! ### strings -/

theorem hasSuffix_append (x suf : Bytes) : hasSuffix (x ++ suf) suf = true := by
  simp [hasSuffix]

theorem take_append_suffix (x suf : Bytes) : (x ++ suf).take ((x ++ suf).length - suf.length) = x := by
  simp

theorem hasSuffix_last (s suf : Bytes) (h : hasSuffix s suf = true) (hs : suf ≠ []) :
    s.getLast? = suf.getLast? := by
  simp only [hasSuffix, Bool.and_eq_true, decide_eq_true_eq, beq_iff_eq] at h
  obtain ⟨hl, he⟩ := h
  have : s = s.take (s.length - suf.length) ++ suf := by
    conv => lhs; rw [← List.take_append_drop (s.length - suf.length) s]
    rw [he]
  rw [this, List.getLast?_append]
  cases h' : suf.getLast? with
  | none => simp [List.getLast?_eq_none_iff] at h'; exact absurd h' hs
  | some v => simp

def noDot (l : Bytes) : Prop := ∀ c ∈ l, c ≠ 46

theorem lastDotFrom_noDot (l : Bytes) (h : noDot l) : ∀ (i : Nat) (acc : Option Nat),
    lastDotFrom l i acc = acc := by
  induction l with
  | nil => intro i acc; rfl
  | cons c cs ih =>
    intro i acc
    have hc : c ≠ 46 := h c (by simp)
    simp only [lastDotFrom, hc, if_false]
    exact ih (fun x hx => h x (by simp [hx])) _ _

theorem lastDotFrom_append (p : Bytes) : ∀ (q : Bytes) (i : Nat) (acc : Option Nat),
    lastDotFrom (p ++ q) i acc = lastDotFrom q (i + p.length) (lastDotFrom p i acc) := by
  induction p with
  | nil => intro q i acc; simp [lastDotFrom]
  | cons c cs ih =>
    intro q i acc
    simp only [List.cons_append, lastDotFrom, ih, List.length_cons]
    congr 1; omega

theorem lastDot_snoc (p l : Bytes) (h : noDot l) : lastDot (p ++ 46 :: l) = some p.length := by
  unfold lastDot
  rw [lastDotFrom_append]
  simp only [lastDotFrom, if_true, Nat.zero_add]
  exact lastDotFrom_noDot l h _ _

theorem lastDot_noDot (l : Bytes) (h : noDot l) : lastDot l = none :=
  lastDotFrom_noDot l h 0 none

/-! ### the ptrIP loop -/

/-- the byte stored by one loop iteration -/
def stepVal (base i n : Nat) (ip : Bytes) : Nat :=
  if base = 16 ∧ i % 2 = 1 then (n ||| (byteAt ip (i / 2) * 16 % 256)) else n

def stepIdx (base i : Nat) : Nat := if base = 16 then i / 2 else i

theorem ptrLoop_snoc (base k i n : Nat) (ip p l : Bytes) (hnd : noDot l) (hne : l ≠ [])
    (hp : parseUint8 l base = some n) :
    ptrLoop base (k + 1) i ip (p ++ 46 :: l)
      = ptrLoop base k (i + 1) (ip.set (stepIdx base i) (b8 (stepVal base i n ip))) p := by
  have h1 : p ++ 46 :: l ≠ [] := by simp
  have hlen : l.length ≥ 1 := by cases l <;> simp_all
  simp only [ptrLoop, h1, if_false, lastDot_snoc p l hnd]
  have h2 : ¬ (p.length = (p ++ 46 :: l).length - 1) := by simp; omega
  simp only [h2, if_false]
  have h3 : (p ++ 46 :: l).drop (p.length + 1) = l := by
    rw [show p ++ 46 :: l = (p ++ [46]) ++ l by simp]
    rw [List.drop_append]
    simp
  have h4 : (p ++ 46 :: l).take p.length = p := by simp
  rw [h3, hp, h4]
  simp only [stepIdx, stepVal]
  by_cases hb : base = 16
  · subst hb; simp
  · simp [hb]

theorem ptrLoop_last (base k i n : Nat) (ip l : Bytes) (hnd : noDot l) (hne : l ≠ [])
    (hp : parseUint8 l base = some n) :
    ptrLoop base (k + 1) i ip l = some (ip.set (stepIdx base i) (b8 (stepVal base i n ip))) := by
  simp only [ptrLoop, hne, if_false, lastDot_noDot l hnd]
  simp only [List.drop_zero, hp, List.take_zero]
  have : ∀ (k i : Nat) (ip : Bytes), ptrLoop base k i ip [] = some ip := by
    intro k i ip; cases k <;> simp [ptrLoop]
  rw [this]
  simp only [stepIdx, stepVal]
  by_cases hb : base = 16
  · subst hb; simp
  · simp [hb]

/-! ### digit tables (complete finite tables, `decide`) -/

theorem dec_table : ∀ n : Fin 256, parseUint8 (dec n.val) 10 = some n.val ∧ dec n.val ≠ [] ∧
    (dec n.val).all (· ≠ 46) = true := by decide +kernel

theorem dec_parse (n : Nat) (h : n < 256) : parseUint8 (dec n) 10 = some n := (dec_table ⟨n, h⟩).1
theorem dec_ne (n : Nat) (h : n < 256) : dec n ≠ [] := (dec_table ⟨n, h⟩).2.1
theorem dec_noDot (n : Nat) (h : n < 256) : noDot (dec n) := by
  have := (dec_table ⟨n, h⟩).2.2
  intro c hc
  simp only [List.all_eq_true, decide_eq_true_eq] at this
  exact this c hc

theorem nib_table : ∀ n : Fin 16, parseUint8 [hexCh n.val] 16 = some n.val ∧ hexCh n.val ≠ 46 := by
  decide +kernel

theorem nib_parse (n : Nat) (h : n < 16) : parseUint8 [hexCh n] 16 = some n := (nib_table ⟨n, h⟩).1
theorem nib_noDot (n : Nat) (h : n < 16) : noDot [hexCh n] := by
  intro c hc; simp at hc; subst hc; exact (nib_table ⟨n, h⟩).2

theorem nib_join : ∀ (hi lo : Fin 16), (lo.val ||| (hi.val * 16 % 256)) = hi.val * 16 + lo.val := by
  decide +kernel

/-! ### round trip -/
open NV.Spec

theorem b8_toNat_self (x : UInt8) : b8 x.toNat = x := by
  unfold b8
  rw [Nat.mod_eq_of_lt (UInt8.toNat_lt x)]
  simp

theorem ptrLoop_rev4 (x0 x1 x2 x3 : UInt8) :
    ptrLoop 10 4 0 (List.replicate 4 0) (rev4 [x0, x1, x2, x3]) = some [x0, x1, x2, x3] := by
  have l0 := UInt8.toNat_lt x0
  have l1 := UInt8.toNat_lt x1
  have l2 := UInt8.toNat_lt x2
  have l3 := UInt8.toNat_lt x3
  unfold rev4
  simp only [byteAt_cons_zero, byteAt_cons_succ]
  rw [ptrLoop_snoc 10 3 0 x0.toNat _ _ _ (dec_noDot _ l0) (dec_ne _ l0) (dec_parse _ l0)]
  rw [ptrLoop_snoc 10 2 1 x1.toNat _ _ _ (dec_noDot _ l1) (dec_ne _ l1) (dec_parse _ l1)]
  rw [ptrLoop_snoc 10 1 2 x2.toNat _ _ _ (dec_noDot _ l2) (dec_ne _ l2) (dec_parse _ l2)]
  rw [ptrLoop_last 10 0 3 x3.toNat _ _ (dec_noDot _ l3) (dec_ne _ l3) (dec_parse _ l3)]
  simp [stepIdx, stepVal, b8, List.replicate]

theorem set_mid (pre post : Bytes) (y v : UInt8) :
    (pre ++ y :: post).set pre.length v = pre ++ v :: post := by
  induction pre with
  | nil => rfl
  | cons a pre ih => simp [ih]

theorem byteAt_mid (pre post : Bytes) (y : UInt8) : byteAt (pre ++ y :: post) pre.length = y.toNat := by
  rw [byteAt_append_right0]; simp

theorem ptrLoop_rev6 (bs : Bytes) : ∀ (pre post : Bytes) (k : Nat),
    post.length = bs.length → 2 * bs.length ≤ k →
    ptrLoop 16 k (2 * pre.length) (pre ++ post) (rev6 bs) = some (pre ++ bs) := by
  induction bs with
  | nil =>
    intro pre post k hl _
    have : post = [] := by cases post <;> simp_all
    subst this
    cases k <;> simp [rev6, ptrLoop]
  | cons b rest ih =>
    intro pre post k hl hk
    obtain ⟨y, post', rfl⟩ : ∃ y post', post = y :: post' := by
      cases post with
      | nil => simp at hl
      | cons y p => exact ⟨y, p, rfl⟩
    obtain ⟨k', rfl⟩ : ∃ k', k = k' + 2 := ⟨k - 2, by simp at hk; omega⟩
    have hlo : b.toNat % 16 < 16 := Nat.mod_lt _ (by omega)
    have hhi : b.toNat / 16 < 16 := by have := UInt8.toNat_lt b; omega
    have hjoin : (b.toNat % 16 ||| (b.toNat / 16 * 16 % 256)) = b.toNat := by
      have := nib_join ⟨b.toNat / 16, hhi⟩ ⟨b.toNat % 16, hlo⟩
      simp only at this; omega
    have hidx0 : stepIdx 16 (2 * pre.length) = pre.length := by simp [stepIdx]
    have hidx1 : stepIdx 16 (2 * pre.length + 1) = pre.length := by simp [stepIdx]; omega
    have hv0 : ∀ ip, stepVal 16 (2 * pre.length) (b.toNat / 16) ip = b.toNat / 16 := by
      intro ip; simp [stepVal]
    have hv1 : stepVal 16 (2 * pre.length + 1) (b.toNat % 16) (pre ++ b8 (b.toNat / 16) :: post') = b.toNat := by
      have h1 : (2 * pre.length + 1) % 2 = 1 := by omega
      have h2 : (2 * pre.length + 1) / 2 = pre.length := by omega
      simp only [stepVal, h1, h2, and_self, if_true, byteAt_mid, b8_toNat _ (show b.toNat / 16 < 256 by omega)]
      exact hjoin
    cases rest with
    | nil =>
      simp only [rev6]
      rw [show (hexCh (b.toNat % 16) :: 46 :: [hexCh (b.toNat / 16)]) = [hexCh (b.toNat % 16)] ++ 46 :: [hexCh (b.toNat / 16)] from rfl]
      rw [ptrLoop_snoc 16 (k' + 1) (2 * pre.length) (b.toNat / 16) _ _ _ (nib_noDot _ hhi) (by simp) (nib_parse _ hhi)]
      rw [hidx0, hv0, set_mid]
      rw [ptrLoop_last 16 k' (2 * pre.length + 1) (b.toNat % 16) _ _ (nib_noDot _ hlo) (by simp) (nib_parse _ hlo)]
      rw [hidx1, hv1, set_mid, b8_toNat_self]
      simp at hl
      subst hl
      rfl
    | cons b' rest' =>
      simp only [rev6]
      rw [ptrLoop_snoc 16 (k' + 1) (2 * pre.length) (b.toNat / 16) _ _ _ (nib_noDot _ hhi) (by simp) (nib_parse _ hhi)]
      rw [hidx0, hv0, set_mid]
      rw [ptrLoop_snoc 16 k' (2 * pre.length + 1) (b.toNat % 16) _ _ _ (nib_noDot _ hlo) (by simp) (nib_parse _ hlo)]
      rw [hidx1, hv1, set_mid, b8_toNat_self]
      have e1 : pre ++ b :: post' = (pre ++ [b]) ++ post' := by simp
      have e2 : 2 * pre.length + 1 + 1 = 2 * (pre ++ [b]).length := by simp; omega
      rw [e1, e2, ih (pre ++ [b]) post' k' (by simpa using hl) (by simp at hk ⊢; omega)]
      simp

theorem ptrIPCore_rev4 (x0 x1 x2 x3 : UInt8) :
    ptrIPCore (reverseName [x0, x1, x2, x3]) = some [x0, x1, x2, x3] := by
  have e : reverseName [x0, x1, x2, x3] = (rev4 [x0, x1, x2, x3] ++ sufInAddr) ++ sufArpa := by
    simp [reverseName]
  unfold ptrIPCore
  rw [e, hasSuffix_append]
  simp only [Bool.not_true, Bool.false_eq_true, if_false]
  rw [show ((rev4 [x0, x1, x2, x3] ++ sufInAddr) ++ sufArpa).length - 6
      = ((rev4 [x0, x1, x2, x3] ++ sufInAddr) ++ sufArpa).length - sufArpa.length from rfl]
  rw [take_append_suffix, hasSuffix_append]
  simp only [if_true]
  rw [show (rev4 [x0, x1, x2, x3] ++ sufInAddr).length - 8
      = (rev4 [x0, x1, x2, x3] ++ sufInAddr).length - sufInAddr.length from rfl]
  rw [take_append_suffix]
  exact ptrLoop_rev4 x0 x1 x2 x3

theorem ptrIPCore_rev6 (ip : Bytes) (h : ip.length = 16) : ptrIPCore (reverseName ip) = some ip := by
  have e : reverseName ip = (rev6 ip ++ sufIp6) ++ sufArpa := by
    simp [reverseName, h]
  unfold ptrIPCore
  rw [e, hasSuffix_append]
  simp only [Bool.not_true, Bool.false_eq_true, if_false]
  rw [show ((rev6 ip ++ sufIp6) ++ sufArpa).length - 6
      = ((rev6 ip ++ sufIp6) ++ sufArpa).length - sufArpa.length from rfl]
  rw [take_append_suffix]
  have hno : hasSuffix (rev6 ip ++ sufIp6) sufInAddr = false := by
    cases hh : hasSuffix (rev6 ip ++ sufIp6) sufInAddr with
    | false => rfl
    | true =>
      have := hasSuffix_last _ _ hh (by decide)
      rw [List.getLast?_append] at this
      simp [sufIp6, sufInAddr] at this
  rw [hno, hasSuffix_append]
  simp only [Bool.false_eq_true, if_false, if_true]
  rw [show (rev6 ip ++ sufIp6).length - 4 = (rev6 ip ++ sufIp6).length - sufIp6.length from rfl]
  rw [take_append_suffix]
  have := ptrLoop_rev6 ip [] (List.replicate 16 0) 32 (by simp [h]) (by omega)
  simpa using this

/-! ### the canonical reverse name is already lower-case -/

theorem dec_lower_table : ∀ n : Fin 256, lowerASCII (dec n.val) = dec n.val := by decide +kernel
theorem nib_lower_table : ∀ n : Fin 16, lowerByte (hexCh n.val) = hexCh n.val := by decide +kernel

theorem lowerASCII_append (a b : Bytes) : lowerASCII (a ++ b) = lowerASCII a ++ lowerASCII b := by
  simp [lowerASCII]

theorem lowerASCII_cons (a : UInt8) (b : Bytes) : lowerASCII (a :: b) = lowerByte a :: lowerASCII b := by
  simp [lowerASCII]

theorem rev6_lower (bs : Bytes) : lowerASCII (rev6 bs) = rev6 bs := by
  induction bs with
  | nil => rfl
  | cons b rest ih =>
    have hlo : b.toNat % 16 < 16 := Nat.mod_lt _ (by omega)
    have hhi : b.toNat / 16 < 16 := by have := UInt8.toNat_lt b; omega
    have e1 := nib_lower_table ⟨b.toNat % 16, hlo⟩
    have e2 := nib_lower_table ⟨b.toNat / 16, hhi⟩
    have e3 : lowerByte 46 = 46 := by decide
    simp only at e1 e2
    cases rest with
    | nil => simp [rev6, e1, e2, e3, lowerASCII]
    | cons b' rest' =>
      simp only [rev6, lowerASCII_append, lowerASCII_cons, ih, e1, e2, e3]
      simp [lowerASCII]

theorem reverseName_lower (ip : Bytes) (h : ip.length = 4 ∨ ip.length = 16) :
    lowerASCII (reverseName ip) = reverseName ip := by
  have s1 : lowerASCII sufArpa = sufArpa := by decide
  have s2 : lowerASCII sufInAddr = sufInAddr := by decide
  have s3 : lowerASCII sufIp6 = sufIp6 := by decide
  have e3 : lowerByte 46 = 46 := by decide
  rcases h with h4 | h16
  · have d := fun i => dec_lower_table ⟨byteAt ip i, byteAt_lt ip i⟩
    simp only at d
    simp only [reverseName, h4, if_true, rev4, lowerASCII_append, lowerASCII_cons, d, s1, s2, e3]
  · have : ¬ ip.length = 4 := by omega
    simp only [reverseName, this, if_false, lowerASCII_append, rev6_lower, s1, s3]

/-- `b & 0xf0 == 16` is `16 ≤ b ≤ 31` (complete table over the byte values) -/
theorem and240_table : ∀ b : Fin 256, ((b.val &&& 240) == 16) = decide (b.val / 16 = 1) := by decide +kernel

/-! ### the Builder fold of hostsResolve -/

/-- wire form of one answer record -/
def rrBytes (qn : Bytes) (typ cls : Nat) (rd : Bytes) : Bytes :=
  qn ++ be16 typ ++ be16 cls ++ be32 0 ++ be16 rd.length ++ rd

theorem addRR_ok (s : BSt) (qn : Bytes) (typ cls : Nat) (rd : Bytes) (h : ¬ s.an = 65535) :
    addRR s (some qn) typ cls (some rd)
      = { s with msg := s.msg ++ qn ++ be16 typ ++ be16 cls ++ be32 0 ++ be16 rd.length ++ rd,
                 an := s.an + 1, err := false } := by
  simp [addRR, h]

theorem foldl_addRR_ok {α : Type} (qn : Bytes) (typ cls : Nat) (f : α → Option Bytes) (xs : List α) :
    ∀ s : BSt, s.err = false → s.an + (xs.filterMap f).length < 65536 →
    xs.foldl (fun s a => addIf s (some qn) typ cls (f a)) s
      = { s with msg := s.msg ++ (xs.filterMap f).flatMap (rrBytes qn typ cls),
                 an := s.an + (xs.filterMap f).length, err := false } := by
  induction xs with
  | nil => intro s he _; cases s; simp_all
  | cons x xs ih =>
    intro s he hn
    simp only [List.foldl]
    cases hf : f x with
    | none =>
      simp only [List.filterMap_cons, hf, addIf] at hn ⊢
      exact ih s he hn
    | some ip =>
      simp only [List.filterMap_cons, hf, List.length_cons] at hn ⊢
      have h1 : ¬ s.an = 65535 := by omega
      rw [show addIf s (some qn) typ cls (some ip) = addRR s (some qn) typ cls (some ip) from rfl]
      rw [addRR_ok s qn typ cls ip h1, ih _ rfl (by simp; omega)]
      simp [rrBytes, List.flatMap_cons]
      omega

theorem foldl_ptr_ok (qn : Bytes) (cls : Nat) (ns : List Bytes) (hv : ∀ n ∈ ns, (packName n).isSome) :
    ∀ s : BSt, s.err = false → s.abort = false → s.an + ns.length < 65536 →
    ns.foldl (fun s n => addPtr s (some qn) cls n) s
      = { s with msg := s.msg ++ (ns.filterMap packName).flatMap (rrBytes qn 12 cls),
                 an := s.an + ns.length, err := false } := by
  induction ns with
  | nil => intro s he ha _; cases s; simp_all
  | cons n ns ih =>
    intro s he ha hn
    simp only [List.foldl]
    rw [show addPtr s (some qn) cls n = (if s.abort then s
        else if n.length > 255 then { s with abort := true, err := true }
        else addRR s (some qn) 12 cls (packName n)) from rfl]
    simp only [ha, Bool.false_eq_true, if_false]
    obtain ⟨pn, hpn⟩ := Option.isSome_iff_exists.mp (hv n (by simp))
    have hlen : ¬ n.length > 255 := by
      intro hh
      unfold packName at hpn
      simp [hh] at hpn
    simp only [hlen, if_false, hpn]
    simp only [List.length_cons] at hn
    have h1 : ¬ s.an = 65535 := by omega
    rw [addRR_ok s qn 12 cls pn h1, ih (fun x hx => hv x (by simp [hx])) _ rfl (by simpa using ha) (by simp; omega)]
    simp [rrBytes, hpn, List.flatMap_cons]
    exact ⟨by omega, ha⟩

/-! ### the table built from the hosts file contains what the file lists -/

/-- `v` is among the values stored under key `k` -/
def has {α : Type} (t : List (Bytes × List α)) (k : Bytes) (v : α) : Prop := v ∈ (lookupAL k t).getD []

theorem lookupAL_alAppend {α : Type} (k k' : Bytes) (v : α) (t : List (Bytes × List α)) :
    lookupAL k (alAppend k' v t)
      = if k' = k then some ((lookupAL k t).getD [] ++ [v]) else lookupAL k t := by
  induction t with
  | nil => by_cases h : k' = k <;> simp [alAppend, lookupAL, h]
  | cons e t ih =>
    obtain ⟨k0, vs⟩ := e
    by_cases h1 : k0 = k'
    · subst h1
      by_cases h2 : k0 = k
      · subst h2; simp [alAppend, lookupAL]
      · simp [alAppend, lookupAL, h2]
    · by_cases h2 : k0 = k
      · subst h2
        have : ¬ k' = k0 := fun e => h1 e.symm
        simp [alAppend, lookupAL, h1, this]
      · simp [alAppend, lookupAL, h1, h2, ih]

theorem has_alAppend_self {α : Type} (k : Bytes) (v : α) (t : List (Bytes × List α)) :
    has (alAppend k v t) k v := by
  unfold has; rw [lookupAL_alAppend]; simp

theorem has_alAppend_mono {α : Type} (k k' : Bytes) (v v' : α) (t : List (Bytes × List α))
    (h : has t k v) : has (alAppend k' v' t) k v := by
  unfold has at *
  rw [lookupAL_alAppend]
  split
  · simp; exact .inl h
  · exact h

/-- both views list the pair -/
def listed (t : HostMaps) (a : Addr) (n : Bytes) : Prop :=
  has t.1 (absName (lowerASCII n)) a ∧ has t.2 a.str (absName n)

theorem listed_addName_self (a : Addr) (t : HostMaps) (n : Bytes) : listed (hostsAddName a t n) a n :=
  ⟨has_alAppend_self _ _ _, has_alAppend_self _ _ _⟩

theorem listed_addName_mono (a a' : Addr) (t : HostMaps) (n n' : Bytes) (h : listed t a n) :
    listed (hostsAddName a' t n') a n :=
  ⟨has_alAppend_mono _ _ _ _ _ h.1, has_alAppend_mono _ _ _ _ _ h.2⟩

theorem listed_foldName_mono (a a' : Addr) (n : Bytes) (ns : List Bytes) : ∀ t : HostMaps,
    listed t a n → listed (ns.foldl (hostsAddName a') t) a n := by
  induction ns with
  | nil => intro t h; exact h
  | cons x xs ih => intro t h; exact ih _ (listed_addName_mono a a' t n x h)

theorem listed_foldName_self (a : Addr) (n : Bytes) (ns : List Bytes) (hn : n ∈ ns) : ∀ t : HostMaps,
    listed (ns.foldl (hostsAddName a) t) a n := by
  induction ns with
  | nil => simp at hn
  | cons x xs ih =>
    intro t
    simp only [List.foldl]
    rcases List.mem_cons.mp hn with rfl | h
    · exact listed_foldName_mono _ _ _ _ _ (listed_addName_self a t n)
    · exact ih h _

theorem listed_foldLine_mono (a : Addr) (n : Bytes) (ls : List HostLine) : ∀ t : HostMaps,
    listed t a n → listed (ls.foldl hostsAddLine t) a n := by
  induction ls with
  | nil => intro t h; exact h
  | cons l ls ih => intro t h; exact ih _ (listed_foldName_mono a l.1 n l.2 t h)

theorem listed_foldLine_self (a : Addr) (ns : List Bytes) (n : Bytes) (ls : List HostLine)
    (hl : (a, ns) ∈ ls) (hn : n ∈ ns) : ∀ t : HostMaps, listed (ls.foldl hostsAddLine t) a n := by
  induction ls with
  | nil => simp at hl
  | cons l ls ih =>
    intro t
    simp only [List.foldl]
    rcases List.mem_cons.mp hl with h | h
    · subst h
      exact listed_foldLine_mono _ _ _ _ (listed_foldName_self a n ns hn t)
    · exact ih h _

theorem lookupAL_map_other {α : Type} (k k0 : Bytes) (w : α) (t : List (Bytes × α)) (h : k0 ≠ k) :
    lookupAL k0 (t.map fun (k', v) => if k' = k then (k', w) else (k', v)) = lookupAL k0 t := by
  induction t with
  | nil => rfl
  | cons e t ih =>
    obtain ⟨k', v⟩ := e
    simp only [List.map_cons]
    by_cases h1 : k' = k
    · subst h1
      have : ¬ k' = k0 := fun e => h e.symm
      simp only [if_true, lookupAL, this, if_false]
      exact ih
    · simp only [h1, if_false, lookupAL]
      by_cases h2 : k' = k0
      · simp [h2]
      · simp only [h2, if_false]; exact ih

theorem lookupAL_append_some {α : Type} (k : Bytes) (t u : List (Bytes × α)) (v : α)
    (h : lookupAL k t = some v) : lookupAL k (t ++ u) = some v := by
  induction t with
  | nil => simp [lookupAL] at h
  | cons e t ih =>
    obtain ⟨k', v'⟩ := e
    by_cases h1 : k' = k
    · simp [lookupAL, h1] at h ⊢; exact h
    · simp [lookupAL, h1] at h ⊢; exact ih h

theorem has_hostsDflt (ns : List (Bytes × List Addr)) (k k0 : Bytes) (a : Addr) (h : has ns k0 a) :
    has (hostsDflt ns k) k0 a := by
  unfold hostsDflt
  split
  · rename_i hemp
    by_cases hk : k0 = k
    · subst hk
      unfold has at h
      cases hl : lookupAL k0 ns with
      | none => simp [hl] at h
      | some vs => simp [hl] at h hemp; subst hemp; simp at h
    · cases hl : lookupAL k ns with
      | some _ =>
        simp only
        unfold has
        rw [lookupAL_map_other k k0 loAddrs ns hk]
        exact h
      | none =>
        simp only
        unfold has at h ⊢
        cases hl0 : lookupAL k0 ns with
        | none => simp [hl0] at h
        | some vs => rw [lookupAL_append_some k0 ns _ vs hl0]; simpa [hl0] using h
  · exact h

end NV
