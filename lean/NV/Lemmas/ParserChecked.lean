import NV.Model.ParserChecked
namespace NV

theorem byteAt?_of_lt (m : Bytes) (i : Nat) (h : i < m.length) : byteAt? m i = some (byteAt m i) := by
  unfold byteAt? byteAt
  simp [List.getD, h]

theorem unpackU16?_eq (msg : Bytes) (off : Nat) : unpackU16? msg off = some (unpackU16 msg off) := by
  unfold unpackU16? unpackU16
  split
  · rfl
  · rename_i h
    rw [byteAt?_of_lt msg off (by omega), byteAt?_of_lt msg (off + 1) (by omega)]
    simp [rd16]

theorem unpackU32?_eq (msg : Bytes) (off : Nat) : unpackU32? msg off = some (unpackU32 msg off) := by
  unfold unpackU32? unpackU32
  split
  · rfl
  · rename_i h
    rw [byteAt?_of_lt msg off (by omega), byteAt?_of_lt msg (off + 1) (by omega),
      byteAt?_of_lt msg (off + 2) (by omega), byteAt?_of_lt msg (off + 3) (by omega)]
    simp [rd32]

theorem sliceTo?_eq (m : Bytes) (a c : Nat) (h : a + c ≤ m.length) : sliceTo? m a (a + c) = some (slice m a c) := by
  unfold sliceTo? slice
  simp [h]

theorem skipNameLoop?_eq (msg : Bytes) (off : Nat) : skipNameLoop? msg off = some (skipNameLoop msg off) := by
  fun_induction skipNameLoop msg off with
  | case1 off h => unfold skipNameLoop?; simp [h]
  | case2 off h c hc0 hz => 
    unfold skipNameLoop?
    simp only [h, ↓reduceDIte]
    rw [byteAt?_of_lt msg off (by omega)]
    simp_all +zetaDelta
  | case3 off h c hc0 hz n hn =>
    unfold skipNameLoop?
    simp only [h, ↓reduceDIte]
    rw [byteAt?_of_lt msg off (by omega)]
    simp_all +zetaDelta
  | case4 off h c hc0 hz n hn ih =>
    unfold skipNameLoop?
    simp only [h, ↓reduceDIte]
    rw [byteAt?_of_lt msg off (by omega)]
    simp_all +zetaDelta
    intro hlt; omega
  | case5 off h c hc0 hc3 =>
    unfold skipNameLoop?
    simp only [h, ↓reduceDIte]
    rw [byteAt?_of_lt msg off (by omega)]
    simp_all +zetaDelta
  | case6 off h c hc0 hc3 =>
    unfold skipNameLoop?
    simp only [h, ↓reduceDIte]
    rw [byteAt?_of_lt msg off (by omega)]
    simp_all +zetaDelta
    intro hlt; omega

theorem unpackNameLoop?_eq (msg : Bytes) (currOff newOff ptr : Nat) (name : Bytes) :
    unpackNameLoop? msg currOff newOff ptr name = some (unpackNameLoop msg currOff newOff ptr name) := by
  fun_induction unpackNameLoop msg currOff newOff ptr name <;>
    (unfold unpackNameLoop?; rename_i h; simp only [h, ↓reduceDIte])
  all_goals (try rw [byteAt?_of_lt _ _ (by omega)])
  all_goals (simp_all +zetaDelta)
  · rw [if_neg (by omega), if_neg (by omega)]
  · rw [if_neg (by omega), if_neg (by omega), sliceTo?_eq msg _ _ (by omega)]; simpa using h
  · rw [if_neg (by omega), if_neg (by omega), byteAt?_of_lt msg _ (by omega)]
  · rw [if_neg (by omega), if_neg (by omega), byteAt?_of_lt msg _ (by omega)]; simp only []; rw [if_neg (by omega)]; exact h
  · rw [if_neg (by omega), if_neg (by omega)]

theorem sliceFrom?_eq (m : Bytes) (a : Nat) (h : a ≤ m.length) : sliceFrom? m a = some (m.drop a) := by
  unfold sliceFrom?; simp [h]

theorem unpackOptsLoop?_eq (msg : Bytes) (off endOff : Nat) (acc : List Opt) :
    unpackOptsLoop? msg off endOff acc = some (unpackOptsLoop msg off endOff acc) := by
  fun_induction unpackOptsLoop msg off endOff acc
  all_goals (unfold unpackOptsLoop?; rename_i h; simp only [h, ↓reduceDIte, unpackU16?_eq, unpackU16])
  all_goals (simp_all +zetaDelta)
  · rw [if_neg (by omega)]; simp only []; rw [if_pos (by omega)]
  · rw [if_neg (by omega)]; simp only []; rw [if_neg (by omega)]; simp only []
    rw [sliceFrom?_eq msg _ (by omega)]; simp only [List.length_drop]
    rw [if_pos (by omega)]
  · rw [if_neg (by omega)]; simp only []; rw [if_neg (by omega)]; simp only []
    rw [sliceFrom?_eq msg _ (by omega)]; simp only [List.length_drop]
    rw [if_neg (by omega), if_neg (by omega)]
    simpa [slice] using h

end NV
