/-
  NV.Lemmas.SvcLife — shared by C16 and C20: the hook rounds of a whole run of the daemon under its run loop.
-/
import NV.Model.SvcLife
namespace NV.SvcLife
open NV.SvcStart

/-- **a whole run of the daemon under its run loop**: no hook round when the start failed (or is still
waiting for the network), the start-up round alone while it runs, the start-up round followed by the
shut-down round once a stopping signal arrived — for every outcome list and every signal sequence. -/
theorem service_run_log' (fg : Bool) (as : List Att) (sigs : List Sig) :
    ∃ s, run init (runLoopOps fg as sigs) = some s ∧
      s.log = (if svcStart as = .started then
                 (if sigs.any (stopsOn fg) = true then [.up, .down] else [.up]) else []) ∧
      (s.serving = true ↔ (svcStart as = .started ∧ sigs.any (stopsOn fg) = false)) := by
  cases hst : svcStart as with
  | started =>
    cases hany : sigs.any (stopsOn fg) with
    | true => exact ⟨{ log := [.up, .down] }, by simp [runLoopOps, run, step, init, hst, hany, stopInner], by simp, by simp⟩
    | false => exact ⟨{ stopSet := true, serving := true, log := [.up] }, by simp [runLoopOps, run, step, init, hst, hany], by simp, by simp⟩
  | error => exact ⟨{ stopSet := true }, by simp [runLoopOps, run, step, init, hst], by simp, by simp⟩
  | waiting => exact ⟨{ stopSet := !as.isEmpty }, by simp [runLoopOps, run, step, init, hst], by simp, by simp⟩

end NV.SvcLife
