/-
  NV.Lemmas.ClientInfo — helper lemmas for C14 (not property obligations).
-/
import NV.Model.ClientInfo
namespace NV.CI
open NV

/-! ### header-value bytes -/

theorem keepByte_eq_valid (c : UInt8) : keepByte c = validValueByte c := by
  have key : ∀ y : Fin 256, ((decide (y.val ≥ 32) && (y.val != 127)) || (y.val == 9)) =
      !((decide (y.val < 32) || y.val == 127) && !(y.val == 32 || y.val == 9)) := by decide +kernel
  exact key ⟨c.toNat, UInt8.toNat_lt c⟩

theorem sanitize_valid (v : Bytes) : validHeaderValue (sanitize v) = true := by
  unfold validHeaderValue sanitize
  simp only [List.all_eq_true, List.mem_filter]
  intro b hb
  rw [← keepByte_eq_valid]; exact hb.2

theorem sanitize_of_valid (v : Bytes) (h : validHeaderValue v = true) : sanitize v = v := by
  unfold validHeaderValue at h
  unfold sanitize
  rw [List.filter_eq_self]
  intro b hb
  rw [keepByte_eq_valid]
  exact List.all_eq_true.mp h b hb

/-! ### header maps -/

theorem mem_hset {h : Headers} {k : Bytes} {vs : List Bytes} {kv : Bytes × List Bytes}
    (hm : kv ∈ hset h k vs) : kv = (k, vs) ∨ kv ∈ h := by
  induction h with
  | nil => simp [hset] at hm; exact Or.inl hm
  | cons x rest ih =>
    obtain ⟨k', vs'⟩ := x
    unfold hset at hm
    split at hm
    · simp at hm
      rcases hm with hm | hm
      · exact Or.inl hm
      · exact Or.inr (List.mem_cons_of_mem _ hm)
    · simp only [List.mem_cons] at hm
      rcases hm with hm | hm
      · exact Or.inr (by simp [hm])
      · rcases ih hm with h1 | h1
        · exact Or.inl h1
        · exact Or.inr (List.mem_cons_of_mem _ h1)

theorem hget_hset_self (h : Headers) (k : Bytes) (vs : List Bytes) : hget (hset h k vs) k = some vs := by
  induction h with
  | nil => simp [hset, hget]
  | cons x rest ih =>
    obtain ⟨k', vs'⟩ := x
    unfold hset
    split
    · simp [hget]
    · rename_i hne; simp [hget, hne, ih]

def entryOK (kv : Bytes × List Bytes) : Bool := validHeaderName kv.1 && kv.2.all validHeaderValue

theorem accepted_iff (h : Headers) : accepted h = true ↔ ∀ kv ∈ h, entryOK kv = true := by
  unfold accepted entryOK
  simp [List.all_eq_true]

theorem accepted_hset {h : Headers} {k : Bytes} {vs : List Bytes} (ha : accepted h = true)
    (hk : validHeaderName k = true) (hv : vs.all validHeaderValue = true) : accepted (hset h k vs) = true := by
  rw [accepted_iff] at *
  intro kv hm
  rcases mem_hset hm with h1 | h1
  · subst h1; simp [entryOK, hk, hv]
  · exact ha kv h1

theorem accepted_foldl_extra (extra h : Headers) (ha : accepted h = true) (he : accepted extra = true) :
    accepted (extra.foldl (fun h kv => hset h kv.1 kv.2) h) = true := by
  induction extra generalizing h with
  | nil => simpa using ha
  | cons x rest ih =>
    simp only [List.foldl_cons]
    have hx : entryOK x = true := (accepted_iff _).mp he x (by simp)
    have hr : accepted rest = true := (accepted_iff _).mpr fun kv hm => (accepted_iff _).mp he kv (by simp [hm])
    unfold entryOK at hx
    simp only [Bool.and_eq_true] at hx
    exact ih _ (accepted_hset ha hx.1 hx.2) hr

theorem accepted_setIfNonEmpty {h : Headers} {k v : Bytes} (ha : accepted h = true)
    (hk : validHeaderName k = true) (hv : validHeaderValue v = true) : accepted (setIfNonEmpty h k v) = true := by
  unfold setIfNonEmpty
  split
  · exact ha
  · exact accepted_hset ha hk (by simp [hv])

/-- keys of a header map built by `hset`s: nothing but the keys set and the keys already there -/
theorem keys_foldl_extra (extra h : Headers) (P : Bytes → Prop) (hh : ∀ kv ∈ h, P kv.1) (he : ∀ kv ∈ extra, P kv.1) :
    ∀ kv ∈ extra.foldl (fun h kv => hset h kv.1 kv.2) h, P kv.1 := by
  induction extra generalizing h with
  | nil => simpa using hh
  | cons x rest ih =>
    simp only [List.foldl_cons]
    apply ih
    · intro kv hm
      rcases mem_hset hm with h1 | h1
      · subst h1; exact he x (by simp)
      · exact hh kv h1
    · intro kv hm; exact he kv (by simp [hm])

/-! ### base 32 -/

theorem b32rev_ne_nil (f n : Nat) : b32rev (f + 1) n ≠ [] := by
  unfold b32rev; split <;> simp

theorem b32rev_length_le (f n : Nat) : (b32rev f n).length ≤ f := by
  induction f generalizing n with
  | zero => simp [b32rev]
  | succ f ih =>
    unfold b32rev; split
    · simp
    · have := ih (n / 32); simp; omega

theorem base32_length_pos (n : Nat) : 1 ≤ (base32 n).length := by
  unfold base32
  have := b32rev_ne_nil 12 n
  rw [List.length_reverse]
  exact List.length_pos_iff.mpr this

theorem base32_length_le (n : Nat) : (base32 n).length ≤ 13 := by
  unfold base32; rw [List.length_reverse]; exact b32rev_length_le 13 n

/-- a lower-case base-32 digit -/
def isB32Lower (c : UInt8) : Prop := (48 ≤ c.toNat ∧ c.toNat ≤ 57) ∨ (97 ≤ c.toNat ∧ c.toNat ≤ 118)
/-- an upper-case base-32 digit: 0-9, A-V -/
def isB32Upper (c : UInt8) : Prop := (48 ≤ c.toNat ∧ c.toNat ≤ 57) ∨ (65 ≤ c.toNat ∧ c.toNat ≤ 86)

theorem digit32_lower (d : Nat) (h : d < 32) : isB32Lower (digit32 d) := by
  unfold digit32 isB32Lower b8
  split
  · left; simp [UInt8.toNat_ofNat']; omega
  · right; simp [UInt8.toNat_ofNat']; omega

theorem b32rev_lower (f n : Nat) : ∀ c ∈ b32rev f n, isB32Lower c := by
  induction f generalizing n with
  | zero => simp [b32rev]
  | succ f ih =>
    unfold b32rev; split
    · intro c hc; simp at hc; subst hc; exact digit32_lower n (by assumption)
    · intro c hc
      simp only [List.mem_cons] at hc
      rcases hc with hc | hc
      · subst hc; exact digit32_lower _ (Nat.mod_lt _ (by decide))
      · exact ih _ c hc

theorem base32_lower (n : Nat) : ∀ c ∈ base32 n, isB32Lower c := by
  intro c hc; unfold base32 at hc; exact b32rev_lower 13 n c (List.mem_reverse.mp hc)

theorem upperByte_b32 (c : UInt8) (h : isB32Lower c) : isB32Upper (upperByte c) := by
  have key : ∀ y : Fin 256, ((48 ≤ y.val ∧ y.val ≤ 57) ∨ (97 ≤ y.val ∧ y.val ≤ 118)) →
      ((48 ≤ (if y.val ≥ 97 then y.val ^^^ 32 else y.val) ∧ (if y.val ≥ 97 then y.val ^^^ 32 else y.val) ≤ 57) ∨
       (65 ≤ (if y.val ≥ 97 then y.val ^^^ 32 else y.val) ∧ (if y.val ≥ 97 then y.val ^^^ 32 else y.val) ≤ 86)) := by
    decide +kernel
  have hlt := UInt8.toNat_lt c
  have := key ⟨c.toNat, hlt⟩ h
  unfold isB32Upper upperByte
  split
  · rename_i h97
    simp only [h97, ↓reduceIte] at this
    simpa [UInt8.toNat_xor] using this
  · rename_i h97
    simp only [h97, ↓reduceIte] at this
    exact this

/-! ### base32 is the positional representation -/

/-- value of a base-32 digit character of strconv's alphabet -/
def undigit32 (c : UInt8) : Nat := if c.toNat < 58 then c.toNat - 48 else c.toNat - 87

/-- value of a digit string, least significant digit first -/
def valRev : Bytes → Nat
  | [] => 0
  | c :: rest => undigit32 c + 32 * valRev rest

theorem undigit_digit (d : Nat) (h : d < 32) : undigit32 (digit32 d) = d := by
  have key : ∀ y : Fin 32, undigit32 (digit32 y.val) = y.val := by decide
  exact key ⟨d, h⟩

/-- the model's `base32` is the positional base-32 representation (so it is `strconv.FormatUint(n, 32)`
for every n < 32^13, in particular for every uint64) -/
theorem b32rev_value (f n : Nat) (h : n < 32 ^ f) : valRev (b32rev f n) = n := by
  induction f generalizing n with
  | zero => simp at h; subst h; simp [b32rev, valRev]
  | succ f ih =>
    unfold b32rev
    split
    · rename_i hlt; simp [valRev, undigit_digit n hlt]
    · have hd : n / 32 < 32 ^ f := by
        apply Nat.div_lt_of_lt_mul
        rw [Nat.pow_succ] at h; omega
      simp only [valRev, undigit_digit (n % 32) (Nat.mod_lt _ (by decide)), ih (n / 32) hd]
      omega

theorem base32_value (n : Nat) (h : n < 2 ^ 64) : valRev (base32 n).reverse = n := by
  unfold base32
  rw [List.reverse_reverse]
  have hp : (2:Nat) ^ 64 < 32 ^ 13 := by decide
  exact b32rev_value 13 n (Nat.lt_trans h hp)
/-! ### shortID -/

theorem backing_length (sum : Nat) (conf dev : Bytes) : 13 ≤ (backingAfterDigits sum conf dev).length := by
  unfold backingAfterDigits
  have h1 := base32_length_le sum
  simp only [List.length_append, List.length_drop, List.length_replicate]
  omega

theorem backing_take_digits (sum : Nat) (conf dev : Bytes) :
    (backingAfterDigits sum conf dev).take (base32 sum).length = base32 sum := by
  unfold backingAfterDigits
  simp

theorem take_pad (ds tail : Bytes) (h1 : 1 ≤ ds.length) (h2 : ds.length < 5) :
    (ds ++ List.replicate (5 - ds.length) 48 ++ tail).take 5 = (ds ++ List.replicate 4 48).take 5 := by
  match ds, h1, h2 with
  | [_], _, _ => simp [List.replicate]
  | [_, _], _, _ => simp [List.replicate]
  | [_, _, _], _, _ => simp [List.replicate]
  | [_, _, _, _], _, _ => simp [List.replicate]
  | _ :: _ :: _ :: _ :: _ :: _, _, h2 => simp at h2; omega

/-- the repaired shortID depends on the hash value only -/
theorem shortIDSum_eq (sum : Nat) (conf dev : Bytes) :
    shortIDSum sum conf dev = ((base32 sum ++ List.replicate 4 48).take 5).map upperByte := by
  have hpos := base32_length_pos sum
  unfold shortIDSum
  simp only
  split
  · rename_i hk
    rw [backing_take_digits, take_pad _ _ hpos hk]
  · rename_i hk
    congr 1
    unfold backingAfterDigits
    simp only
    rw [List.take_append_of_le_length (by omega), List.take_append_of_le_length (by omega)]

/-- before the repair: bytes k..4 of the result are input bytes (profile, then device, then zero padding) -/
theorem shortIDLegacy_eq (sum : Nat) (conf dev : Bytes) :
    shortIDLegacy sum conf dev =
      ((base32 sum ++ ((conf ++ dev ++ List.replicate (max 13 (conf.length + dev.length) - (conf.length + dev.length)) 0).drop
        (base32 sum).length)).take 5).map upperByte := by
  unfold shortIDLegacy backingAfterDigits
  rfl

/-- concrete leak of the unrepaired code, found by the harness on the real `shortID` (profile "\x89",
MAC 8f:63:9e:38:cf:17:b3, xxhash = 27): the id is "R" followed by MAC bytes 2..5 (bit 5 flipped
where ≥ 'a') -/
theorem shortIDLegacy_leaks_mac :
    shortIDLegacy 27 [0x89] [0x8f, 0x63, 0x9e, 0x38, 0xcf, 0x17, 0xb3] = [0x52, 0xaf, 0x43, 0xbe, 0x38] := by
  decide

/-! ### MAC text -/

theorem macString_length (m : Bytes) : (macString m).length = 3 * m.length - 1 := by
  induction m with
  | nil => simp [macString]
  | cons b rest ih =>
    cases rest with
    | nil => simp [macString]
    | cons c rest' =>
      simp only [macString, List.length_cons] at *
      omega

theorem macModel_take3 (m : Bytes) : macModel m = macModel (m.take 3) := by
  match m with
  | [] => rfl
  | [_] => rfl
  | [_, _] => rfl
  | [_, _, _] => rfl
  | a :: b :: c :: d :: rest =>
    unfold macModel
    simp [macString]

theorem macModel_length_le (m : Bytes) : (macModel m).length ≤ 12 := by
  unfold macModel
  simp only
  split
  · simp [str, List.length_take]; omega
  · simp

theorem hexLower_valid (n : Nat) (h : n < 16) : validValueByte (hexLower n) = true := by
  have key : ∀ y : Fin 16, validValueByte (hexLower y.val) = true := by decide
  exact key ⟨n, h⟩

theorem macString_valid (m : Bytes) : validHeaderValue (macString m) = true := by
  unfold validHeaderValue
  induction m with
  | nil => rfl
  | cons b rest ih =>
    have h1 := hexLower_valid (b.toNat / 16) (by have := UInt8.toNat_lt b; omega)
    have h2 := hexLower_valid (b.toNat % 16) (Nat.mod_lt _ (by decide))
    cases rest with
    | nil => simp [macString, h1, h2]
    | cons c rest' =>
      simp only [macString, List.all_cons, h1, h2, Bool.true_and] at *
      have : validValueByte 58 = true := by decide
      simp [this, ih]

theorem macModel_valid (m : Bytes) : validHeaderValue (macModel m) = true := by
  unfold macModel
  simp only
  split
  · have h := macString_valid m
    unfold validHeaderValue at *
    rw [List.all_append]
    have h1 : (str "mac:").all validValueByte = true := by decide
    rw [h1, Bool.true_and, List.all_eq_true]
    intro c hc
    exact List.all_eq_true.mp h c (List.mem_of_mem_take hc)
  · rfl

end NV.CI
