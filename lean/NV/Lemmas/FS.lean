/-
  NV.Lemmas.FS — helper lemmas for NV.Props.C19 (not obligations): line splitting, TrimSpace,
  prefixes of system-call sequences, effect of the staging-file calls.
-/
import NV.Model.FS
namespace NV.FS

/-! ### rawLines -/

theorem rawLines_line (l rest : Bytes) (h : (10 : UInt8) ∉ l) :
    rawLines (l ++ 10 :: rest) = l :: rawLines rest := by
  induction l with
  | nil => simp [rawLines]
  | cons c l ih =>
    have hc : c ≠ 10 := fun e => h (by simp [e])
    have hl : (10 : UInt8) ∉ l := fun e => h (by simp [e])
    simp [rawLines, hc, ih hl]

theorem rawLines_flatten (ls : List Bytes) (h : ∀ l ∈ ls, (10 : UInt8) ∉ l) :
    rawLines (ls.map (· ++ [10])).flatten = ls := by
  induction ls with
  | nil => simp [rawLines]
  | cons l ls ih =>
    have h1 := h l (by simp)
    have h2 : ∀ x ∈ ls, (10 : UInt8) ∉ x := fun x hx => h x (by simp [hx])
    simp only [List.map_cons, List.flatten_cons, List.append_assoc, List.singleton_append]
    rw [rawLines_line _ _ h1, ih h2]

theorem rawLines_no_nl (b : Bytes) : ∀ l ∈ rawLines b, (10 : UInt8) ∉ l := by
  induction b with
  | nil => simp [rawLines]
  | cons c cs ih =>
    intro l hl
    unfold rawLines at hl
    by_cases hc : c = 10
    · simp [hc] at hl
      rcases hl with rfl | hl
      · simp
      · exact ih l hl
    · simp only [hc, if_false] at hl
      cases hr : rawLines cs with
      | nil => simp [hr] at hl; subst hl; simp; exact fun e => hc e.symm
      | cons x xs =>
        rw [hr] at hl ih
        simp at hl
        rcases hl with rfl | hl
        · have := ih x (by simp)
          simp; exact ⟨fun e => hc e.symm, this⟩
        · exact ih l (by simp [hl])

/-! ### stripping members of a sequence list -/

theorem startsWith_some {seqs : List Bytes} {l w : Bytes} (h : startsWith seqs l = some w) :
    w ∈ seqs ∧ w <+: l := by
  unfold startsWith at h
  have h1 := List.mem_of_find?_eq_some h
  have h2 := List.find?_some h
  exact ⟨h1, by simpa [List.isPrefixOf_iff_prefix] using h2⟩

theorem startsWith_none {seqs : List Bytes} {l : Bytes} (h : startsWith seqs l = none) :
    ∀ w ∈ seqs, ¬ w <+: l := by
  unfold startsWith at h
  intro w hw hp
  have := List.find?_eq_none.mp h w hw
  simp [List.isPrefixOf_iff_prefix] at this
  exact this hp

theorem startsWith_none_of_prefix {seqs : List Bytes} {t u : Bytes} (htu : t <+: u)
    (h : startsWith seqs u = none) : startsWith seqs t = none := by
  unfold startsWith
  apply List.find?_eq_none.mpr
  intro w hw
  simp [List.isPrefixOf_iff_prefix]
  exact fun hp => startsWith_none h w hw (hp.trans htu)

theorem stripF_suffix (seqs : List Bytes) (n : Nat) (l : Bytes) : stripF seqs n l <:+ l := by
  induction n generalizing l with
  | zero => exact List.suffix_refl _
  | succ n ih =>
    unfold stripF
    cases h : startsWith seqs l with
    | none => exact List.suffix_refl _
    | some w => exact (ih _).trans (List.drop_suffix _ _)

theorem stripF_id (seqs : List Bytes) (n : Nat) (l : Bytes) (h : startsWith seqs l = none) :
    stripF seqs n l = l := by
  cases n with
  | zero => rfl
  | succ n => simp [stripF, h]

theorem stripF_clean (seqs : List Bytes) (hne : ∀ w ∈ seqs, w ≠ []) (n : Nat) (l : Bytes)
    (hn : l.length ≤ n) : startsWith seqs (stripF seqs n l) = none := by
  induction n generalizing l with
  | zero =>
    have : l = [] := List.length_eq_zero_iff.mp (Nat.le_zero.mp hn)
    subst this
    cases h : startsWith seqs [] with
    | none => simpa [stripF] using h
    | some w =>
      have ⟨hw, hp⟩ := startsWith_some h
      have : w = [] := List.prefix_nil.mp hp
      exact absurd this (hne w hw)
  | succ n ih =>
    unfold stripF
    cases h : startsWith seqs l with
    | none => simpa using h
    | some w =>
      have ⟨hw, hp⟩ := startsWith_some h
      have hwl : 0 < w.length := List.length_pos_iff.mpr (hne w hw)
      apply ih
      simp only [List.length_drop]
      omega

theorem wsSeqs_ne : ∀ w ∈ wsSeqs, w ≠ [] := by decide
theorem wsSeqsRev_ne : ∀ w ∈ wsSeqsRev, w ≠ [] := by decide

/-! ### TrimSpace -/

theorem trimLeft_clean (l : Bytes) : startsWith wsSeqs (trimLeft l) = none :=
  stripF_clean _ wsSeqs_ne _ _ (Nat.le_refl _)

theorem trimLeft_suffix (l : Bytes) : trimLeft l <:+ l := stripF_suffix _ _ _

theorem trimRight_prefix (l : Bytes) : trimRight l <+: l := by
  unfold trimRight
  have h := List.reverse_prefix.mpr (stripF_suffix wsSeqsRev l.length l.reverse)
  rwa [List.reverse_reverse] at h

theorem trimRight_clean (l : Bytes) : startsWith wsSeqsRev (trimRight l).reverse = none := by
  unfold trimRight
  simp only [List.reverse_reverse]
  have := stripF_clean wsSeqsRev wsSeqsRev_ne l.reverse.length l.reverse (Nat.le_refl _)
  simpa using this

theorem trim_clean_left (l : Bytes) : startsWith wsSeqs (trim l) = none :=
  startsWith_none_of_prefix (trimRight_prefix _) (trimLeft_clean l)

theorem trim_clean_right (l : Bytes) : startsWith wsSeqsRev (trim l).reverse = none :=
  trimRight_clean _

/-- a string without leading and trailing white space is a fixed point of TrimSpace -/
theorem trim_fix (t : Bytes) (h1 : startsWith wsSeqs t = none) (h2 : startsWith wsSeqsRev t.reverse = none) :
    trim t = t := by
  unfold trim trimLeft
  rw [stripF_id _ _ _ h1]
  unfold trimRight
  rw [stripF_id _ _ _ h2, List.reverse_reverse]

theorem trim_idem (l : Bytes) : trim (trim l) = trim l :=
  trim_fix _ (trim_clean_left l) (trim_clean_right l)

theorem trim_sub (l : Bytes) : ∀ x ∈ trim l, x ∈ l := by
  intro x hx
  have h1 := (trimRight_prefix (trimLeft l)).subset hx
  exact (trimLeft_suffix l).subset h1

theorem dropCR_sub (l : Bytes) : ∀ x ∈ dropCR l, x ∈ l := by
  intro x hx
  unfold dropCR at hx
  split at hx
  · exact (List.dropLast_prefix l).subset hx
  · exact hx

/-- a trimmed string does not end with `\r` -/
theorem dropCR_of_clean (t : Bytes) (h : startsWith wsSeqsRev t.reverse = none) : dropCR t = t := by
  unfold dropCR
  split
  · rename_i hl
    exfalso
    have hp : ([13] : Bytes) <+: t.reverse := by
      rw [List.getLast?_eq_head?_reverse] at hl
      cases hr : t.reverse with
      | nil => simp [hr] at hl
      | cons a as => simp [hr] at hl; subst hl; simp
    exact startsWith_none h [13] (by decide) hp
  · rfl

theorem dropCR_trim (l : Bytes) : dropCR (trim l) = trim l := dropCR_of_clean _ (trim_clean_right l)

/-! ### system-call sequences -/

theorem prefix_append_cases {α} {l A B : List α} (h : l <+: A ++ B) :
    l <+: A ∨ ∃ b, b <+: B ∧ l = A ++ b := by
  induction A generalizing l with
  | nil => exact Or.inr ⟨l, by simpa using h, by simp⟩
  | cons a A ih =>
    cases l with
    | nil => exact Or.inl (List.nil_prefix)
    | cons x l =>
      simp only [List.cons_append, List.cons_prefix_cons] at h
      obtain ⟨rfl, h⟩ := h
      rcases ih h with h | ⟨b, hb, rfl⟩
      · exact Or.inl (by simp [List.cons_prefix_cons, h])
      · exact Or.inr ⟨b, hb, by simp⟩

theorem prefix_one {α} {l : List α} {x : α} (h : l <+: [x]) : l = [] ∨ l = [x] := by
  cases l with
  | nil => exact Or.inl rfl
  | cons a l =>
    simp only [List.cons_prefix_cons, List.prefix_nil] at h
    exact Or.inr (by simp [h.1, h.2])

theorem prefix_two {α} {l : List α} {x y : α} (h : l <+: [x, y]) : l = [] ∨ l = [x] ∨ l = [x, y] := by
  cases l with
  | nil => exact Or.inl rfl
  | cons a l =>
    simp only [List.cons_prefix_cons] at h
    obtain ⟨rfl, h⟩ := h
    rcases prefix_one h with rfl | rfl
    · exact Or.inr (Or.inl rfl)
    · exact Or.inr (Or.inr rfl)

theorem cutAt_prefix (k : Kind) (j : Nat) (ps : List Prim) : cutAt k j ps <+: ps := by
  induction ps generalizing j with
  | nil => simp [cutAt]
  | cons p ps ih =>
    unfold cutAt
    split
    · split
      · exact List.nil_prefix
      · exact (List.cons_prefix_cons).mpr ⟨rfl, ih _⟩
    · exact (List.cons_prefix_cons).mpr ⟨rfl, ih _⟩

theorem cut_prefix (ps : List Prim) (c : Option Crash) : cut ps c <+: ps := by
  cases c with
  | none => exact List.prefix_refl _
  | some c => exact cutAt_prefix _ _ _

theorem applyAll_append (s : FS) (a b : List Prim) : applyAll s (a ++ b) = applyAll (applyAll s a) b := by
  simp [applyAll, List.foldl_append]

/-- calls that can only change the staging name -/
def Prim.tmpOnly : Prim → Bool
  | .openRead _ => true
  | .rmdir _ => true
  | .unlink p => p = .tmp
  | .creat p => p = .tmp
  | .append p _ => p = .tmp
  | .rename _ _ => false

theorem apply_tmpOnly (s : FS) (p : Prim) (h : p.tmpOnly = true) :
    (apply s p).live = s.live ∧ (apply s p).bak = s.bak ∧ (apply s p).ext = s.ext := by
  cases p with
  | openRead _ => simp [apply]
  | rmdir _ => simp [apply]
  | unlink p => simp [Prim.tmpOnly] at h; subst h; simp [apply, FS.set]
  | creat p =>
    simp [Prim.tmpOnly] at h; subst h
    simp only [apply, FS.get]
    split <;> simp [FS.set]
  | append p c =>
    simp [Prim.tmpOnly] at h; subst h
    simp only [apply, FS.get]
    split <;> simp [FS.set]
  | rename _ _ => simp [Prim.tmpOnly] at h

theorem applyAll_tmpOnly (s : FS) (ps : List Prim) (h : ∀ p ∈ ps, p.tmpOnly = true) :
    (applyAll s ps).live = s.live ∧ (applyAll s ps).bak = s.bak ∧ (applyAll s ps).ext = s.ext := by
  induction ps generalizing s with
  | nil => simp [applyAll]
  | cons p ps ih =>
    have h1 := apply_tmpOnly s p (h p (by simp))
    have h2 := ih (apply s p) (fun q hq => h q (by simp [hq]))
    simp only [applyAll, List.foldl_cons] at h2 ⊢
    exact ⟨h2.1.trans h1.1, h2.2.1.trans h1.2.1, h2.2.2.trans h1.2.2⟩

theorem applyAll_appends (s : FS) (b : Bytes) (cs : List Bytes) :
    applyAll { s with tmp := .file b } (cs.map (.append .tmp)) = { s with tmp := .file (b ++ cs.flatten) } := by
  induction cs generalizing b with
  | nil => simp [applyAll]
  | cons c cs ih =>
    simp only [List.map_cons, applyAll, List.foldl_cons, apply, FS.get, FS.set, List.flatten_cons]
    have := ih (b ++ c)
    simp only [applyAll] at this
    rw [this, List.append_assoc]

/-- the calls of writeTempResolvConf, for a readable live file -/
def stage (v : Variant) (s : FS) (content dns : Bytes) : List Prim :=
  [.openRead .live, .unlink .tmp] ++ (if s.tmp = .absent then [.rmdir .tmp] else []) ++ [.creat .tmp]
    ++ (chunks v content dns).map (.append .tmp)

theorem stage_tmpOnly (v : Variant) (s : FS) (content dns : Bytes) : ∀ p ∈ stage v s content dns, p.tmpOnly = true := by
  intro p hp
  unfold stage at hp
  simp only [List.mem_append, List.mem_cons, List.mem_map] at hp
  rcases hp with ((hp | hp) | hp) | hp
  · rcases hp with rfl | rfl | hp
    · rfl
    · rfl
    · simp at hp
  · split at hp
    · simp at hp; subst hp; rfl
    · simp at hp
  · rcases hp with rfl | hp
    · rfl
    · simp at hp
  · obtain ⟨c, _, rfl⟩ := hp; rfl

/-- whatever the staging name held before, after the staging calls it is the complete rendering -/
theorem applyAll_stage (v : Variant) (s : FS) (content dns : Bytes) :
    applyAll s (stage v s content dns) = { s with tmp := .file (render v content dns) } := by
  unfold stage
  rw [applyAll_append, applyAll_append, applyAll_append]
  have h1 : applyAll s [.openRead .live, .unlink .tmp] = { s with tmp := .absent } := by
    simp [applyAll, apply, FS.set]
  rw [h1]
  have h2 : applyAll { s with tmp := .absent } (if s.tmp = .absent then [Prim.rmdir .tmp] else []) = { s with tmp := .absent } := by
    split <;> simp [applyAll, apply]
  rw [h2]
  have h3 : applyAll { s with tmp := .absent } [.creat .tmp] = { s with tmp := .file [] } := by
    simp [applyAll, apply, FS.get, FS.set]
  rw [h3, applyAll_appends]
  simp [render]

theorem setup_open_fails (v : Variant) (s : FS) (dns : Bytes) (h : readThrough s s.live = none) :
    setup v s dns = ([.openRead .live], .errOpen) := by
  simp [setup, h]

theorem setup_scan_fails (v : Variant) (s : FS) (dns content : Bytes) (h : readThrough s s.live = some content)
    (hs : (scan content).2 = true) : setup v s dns = (stage v s content dns, .errScan) := by
  simp [setup, h, hs, stage]

theorem setup_ok (v : Variant) (s : FS) (dns content : Bytes) (h : readThrough s s.live = some content)
    (hs : (scan content).2 = false) :
    setup v s dns = (stage v s content dns ++ ((if bakExists v s then [] else [.rename .live .bak]) ++ [.rename .tmp .live]), .ok) := by
  simp [setup, h, hs, stage]

theorem set_ext (s : FS) (p : Path) (n : Node) : (s.set p n).ext = s.ext := by cases p <;> rfl

theorem apply_ext (s : FS) (p : Prim) : (apply s p).ext = s.ext := by
  cases p <;> simp only [apply] <;> (try split) <;> simp [set_ext]

theorem applyAll_ext (s : FS) (ps : List Prim) : (applyAll s ps).ext = s.ext := by
  induction ps generalizing s with
  | nil => rfl
  | cons p ps ih =>
    simp only [applyAll, List.foldl_cons] at ih ⊢
    rw [ih, apply_ext]

/-! ### printable ASCII carries no white space -/

def headOutside (w : Bytes) : Bool :=
  match w with
  | [] => false
  | k :: _ => k.toNat < 33 || 126 < k.toNat

theorem ws_heads : ∀ w ∈ wsSeqs ++ wsSeqsRev, headOutside w = true := by decide

theorem plain_no_ws (d : UInt8) (rest : Bytes) (h : 33 ≤ d.toNat ∧ d.toNat ≤ 126) :
    startsWith wsSeqs (d :: rest) = none ∧ startsWith wsSeqsRev (d :: rest) = none := by
  have key : ∀ seqs : List Bytes, (∀ w ∈ seqs, headOutside w = true) → startsWith seqs (d :: rest) = none := by
    intro seqs hs
    unfold startsWith
    apply List.find?_eq_none.mpr
    intro w hw
    have hh := hs w hw
    cases w with
    | nil => simp [headOutside] at hh
    | cons k ks =>
      simp only [headOutside, Bool.or_eq_true, decide_eq_true_eq] at hh
      simp only [List.isPrefixOf, Bool.and_eq_true, beq_iff_eq, not_and]
      intro e; subst e; omega
  exact ⟨key _ (fun w hw => ws_heads w (by simp [hw])), key _ (fun w hw => ws_heads w (by simp [hw]))⟩

theorem trim_plain (l : Bytes) (h : ∀ d ∈ l, 33 ≤ d.toNat ∧ d.toNat ≤ 126) : trim l = l := by
  cases l with
  | nil => decide
  | cons a l =>
    apply trim_fix
    · exact (plain_no_ws a l (h a (by simp))).1
    · cases hr : (a :: l).reverse with
      | nil => simp at hr
      | cons b bs =>
        have hb : b ∈ a :: l := by
          have : b ∈ (a :: l).reverse := by rw [hr]; simp
          exact List.mem_reverse.mp this
        exact (plain_no_ws b bs (h b hb)).2

end NV.FS
