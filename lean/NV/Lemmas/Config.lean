/-
  NV.Lemmas.Config — helper lemmas for the configuration model (property C17).
  Pure facts about trimming, splitting, decimal numbers, list `Set`, and the per-option projection
  of `LoadConfig`.  Property statements live in NV.Props.C17.
-/
import NV.Model.Config
namespace NV.Config

/-! ### domains -/

/-- no white-space character at all (option names, canonical condition texts) -/
def noSp (s : Str) : Prop := ∀ c ∈ s, isSpace c = false

/-- no leading and no trailing white space: `strings.TrimSpace(s) == s` -/
def trimmed (s : Str) : Prop :=
  (∀ c, s.head? = some c → isSpace c = false) ∧ (∀ c, s.getLast? = some c → isSpace c = false)

/-- a name as written by `SaveConfig`: non-empty, no white space, not a comment -/
def nameOk (n : Str) : Prop := n ≠ [] ∧ noSp n ∧ n.head? ≠ some '#'

/-! ### TrimSpace -/

theorem trimLeft_of_head (s : Str) (h : ∀ c, s.head? = some c → isSpace c = false) : trimLeft s = s := by
  cases s with
  | nil => rfl
  | cons c cs => simp [trimLeft, List.dropWhile, h c rfl]

theorem trimRight_of_last : ∀ (s : Str), (∀ c, s.getLast? = some c → isSpace c = false) → trimRight s = s
  | [], _ => rfl
  | [c], h => by simp [trimRight, h c rfl]
  | c :: d :: cs, h => by
    have ih := trimRight_of_last (d :: cs) (by intro x hx; exact h x (by simpa [List.getLast?_cons_cons] using hx))
    rw [trimRight, ih]

theorem trim_of_trimmed (s : Str) (h : trimmed s) : trim s = s := by
  unfold trim; rw [trimRight_of_last s h.2, trimLeft_of_head s h.1]

theorem trimRight_last : ∀ (s : Str) (c : Char), (trimRight s).getLast? = some c → isSpace c = false
  | [], c, h => by simp [trimRight] at h
  | x :: xs, c, h => by
    unfold trimRight at h
    split at h
    · split at h
      · simp at h
      · simp at h; subst h; simp_all
    · rename_i r hne
      cases hr : trimRight xs with
      | nil => exact absurd hr (by intro h'; exact hne h')
      | cons y ys =>
        rw [hr] at h
        have := trimRight_last xs c (by rw [hr]; simpa [List.getLast?_cons_cons] using h)
        exact this

theorem dropWhile_getLast? {p : Char → Bool} : ∀ (l : Str) (c : Char), (l.dropWhile p).getLast? = some c → l.getLast? = some c
  | [], _, h => by simp at h
  | x :: xs, c, h => by
    simp only [List.dropWhile] at h
    split at h
    · have := dropWhile_getLast? xs c h
      cases xs with
      | nil => simp at this
      | cons y ys => simpa [List.getLast?_cons_cons] using this
    · exact h

theorem dropWhile_head? {p : Char → Bool} : ∀ (l : Str) (c : Char), (l.dropWhile p).head? = some c → p c = false
  | [], _, h => by simp at h
  | x :: xs, c, h => by
    simp only [List.dropWhile] at h
    split at h
    · exact dropWhile_head? xs c h
    · simp at h; subst h; simp_all

theorem trimmed_trim (s : Str) : trimmed (trim s) := by
  constructor
  · intro c h; exact dropWhile_head? _ c h
  · intro c h
    exact trimRight_last s c (dropWhile_getLast? _ c h)

theorem trimRight_append_nonempty : ∀ (a b : Str), trimRight b ≠ [] → trimRight (a ++ b) = a ++ trimRight b
  | [], _, _ => rfl
  | x :: xs, b, h => by
    have ih := trimRight_append_nonempty xs b h
    simp only [List.cons_append, trimRight, ih]
    cases hx : xs ++ trimRight b with
    | nil => simp at hx; exact absurd hx.2 h
    | cons y ys => rfl

theorem trimRight_append_spaces : ∀ (a b : Str), trimRight b = [] → trimRight (a ++ b) = trimRight a
  | [], _, h => by simpa [trimRight] using h
  | x :: xs, b, h => by
    have ih := trimRight_append_spaces xs b h
    simp only [List.cons_append, trimRight, ih]

/-! ### IndexByte -/

theorem splitAt1_none (c : Char) : ∀ (s : Str), c ∉ s → splitAt1 c s = none
  | [], _ => rfl
  | x :: xs, h => by
    have hx : x ≠ c := by intro e; exact h (by simp [e])
    have := splitAt1_none c xs (by intro m; exact h (by simp [m]))
    simp [splitAt1, hx, this]

theorem splitAt1_append (c : Char) : ∀ (a b : Str), c ∉ a → splitAt1 c (a ++ c :: b) = some (a, b)
  | [], b, _ => by simp [splitAt1]
  | x :: xs, b, h => by
    have hx : x ≠ c := by intro e; exact h (by simp [e])
    have := splitAt1_append c xs b (by intro m; exact h (by simp [m]))
    simp [splitAt1, hx, this]

theorem splitAt1_some (c : Char) : ∀ (s a b : Str), splitAt1 c s = some (a, b) → s = a ++ c :: b ∧ c ∉ a
  | [], a, b, h => by simp [splitAt1] at h
  | x :: xs, a, b, h => by
    unfold splitAt1 at h
    split at h
    · rename_i hx; simp at h; obtain ⟨rfl, rfl⟩ := h; simp [hx]
    · rename_i hx
      split at h
      · simp at h
      · rename_i a' b' hs
        simp at h; obtain ⟨rfl, rfl⟩ := h
        obtain ⟨h1, h2⟩ := splitAt1_some c xs a' b' hs
        subst h1
        refine ⟨by simp, ?_⟩
        intro m
        rcases List.mem_cons.mp m with e | m
        · exact hx e.symm
        · exact h2 m

/-! ### one line of the file -/

theorem space_not_mem_of_noSp (n : Str) (h : noSp n) : ' ' ∉ n := by
  intro m; have := h ' ' m; simp [isSpace] at this

theorem getLast?_mem_noSp (n : Str) (h : noSp n) : ∀ c, n.getLast? = some c → isSpace c = false := by
  intro c hc; exact h c (List.mem_of_getLast? hc)

theorem head?_mem_noSp (n : Str) (h : noSp n) : ∀ c, n.head? = some c → isSpace c = false := by
  intro c hc; exact h c (List.mem_of_head? hc)

theorem parseLine_fmtLine (n v : Str) (hn : nameOk n) (hv : trimmed v) :
    parseLine (fmtLine (n, v)) = some (n, v) := by
  obtain ⟨hne, hsp, hhash⟩ := hn
  have hspace := space_not_mem_of_noSp n hsp
  cases v with
  | nil =>
    have h1 : trim (n ++ [' ']) = n := by
      unfold trim
      rw [trimRight_append_spaces n [' '] (by simp [trimRight, isSpace]),
          trimRight_of_last n (getLast?_mem_noSp n hsp), trimLeft_of_head n (head?_mem_noSp n hsp)]
    simp only [parseLine, fmtLine, h1]
    rw [if_neg (by simp [hne, hhash]), splitAt1_none ' ' n hspace]
  | cons y ys =>
    have hlast : ∀ c, (n ++ ' ' :: y :: ys).getLast? = some c → isSpace c = false := by
      intro c hc
      apply hv.2 c
      simpa [List.getLast?_append, List.getLast?_cons_cons] using hc
    have hhead : ∀ c, (n ++ ' ' :: y :: ys).head? = some c → isSpace c = false := by
      intro c hc
      cases n with
      | nil => exact absurd rfl hne
      | cons x xs => exact hsp c (by simp at hc; simp [hc])
    have h1 : trim (n ++ ' ' :: y :: ys) = n ++ ' ' :: y :: ys := trim_of_trimmed _ ⟨hhead, hlast⟩
    simp only [parseLine, fmtLine, h1]
    have hne' : ¬ (n ++ ' ' :: y :: ys = [] ∨ (n ++ ' ' :: y :: ys).head? = some '#') := by
      cases n with
      | nil => exact absurd rfl hne
      | cons x xs => simpa using hhash
    rw [if_neg hne', splitAt1_append ' ' n (y :: ys) hspace]
    simp [trim_of_trimmed _ hv]

/-- what `LoadConfig` hands to `Set` is always trimmed -/
theorem parseLine_trimmed (raw : Str) (l : Line) (h : parseLine raw = some l) : trimmed l.2 := by
  unfold parseLine at h
  simp only at h
  split at h
  · simp at h
  · split at h
    · simp at h; subst h; exact ⟨by simp, by simp⟩
    · simp at h; subst h; exact trimmed_trim _

/-! ### list `Set` (replace the first element of the same class, else append) -/

section SetBy
variable {α κ : Type} [DecidableEq κ] (key : α → κ)

theorem setBy_of_not_mem : ∀ (l : List α) (x : α), key x ∉ l.map key → setBy key l x = l ++ [x]
  | [], _, _ => rfl
  | y :: ys, x, h => by
    have hne : key x ≠ key y := by intro e; exact h (by simp [e])
    have := setBy_of_not_mem ys x (by intro m; exact h (by simp [List.mem_map] at m ⊢; exact Or.inr m))
    simp [setBy, hne, this]

theorem setBy_map_key_of_mem : ∀ (l : List α) (x : α), key x ∈ l.map key → (setBy key l x).map key = l.map key
  | [], _, h => by simp at h
  | y :: ys, x, h => by
    by_cases e : key x = key y
    · simp [setBy, e]
    · have hm : key x ∈ ys.map key := by
        simp only [List.map_cons, List.mem_cons] at h
        rcases h with h | h
        · exact absurd h e
        · exact h
      simp [setBy, e, setBy_map_key_of_mem ys x hm]

theorem setBy_keys_nodup (l : List α) (x : α) (h : (l.map key).Nodup) : ((setBy key l x).map key).Nodup := by
  by_cases m : key x ∈ l.map key
  · rw [setBy_map_key_of_mem key l x m]; exact h
  · rw [setBy_of_not_mem key l x m]
    simp only [List.map_append, List.map_cons, List.map_nil]
    refine List.nodup_append.mpr ⟨h, by simp, ?_⟩
    intro a ha b hb
    simp at hb; subst hb
    intro e; exact m (e ▸ ha)

theorem setBy_mem : ∀ (l : List α) (x y : α), y ∈ setBy key l x → y = x ∨ y ∈ l
  | [], x, y, h => by simp [setBy] at h; exact Or.inl h
  | z :: zs, x, y, h => by
    unfold setBy at h
    split at h
    · rcases List.mem_cons.mp h with h | h
      · exact Or.inl h
      · exact Or.inr (List.mem_cons_of_mem _ h)
    · rcases List.mem_cons.mp h with h | h
      · exact Or.inr (by simp [h])
      · rcases setBy_mem zs x y h with h | h
        · exact Or.inl h
        · exact Or.inr (List.mem_cons_of_mem _ h)

/-- re-`Set`ting the elements of a list without two elements of the same class rebuilds it -/
theorem foldl_setBy_append : ∀ (l init : List α), ((init ++ l).map key).Nodup →
    l.foldl (setBy key) init = init ++ l
  | [], init, _ => by simp
  | x :: xs, init, h => by
    have hx : key x ∉ init.map key := by
      intro m
      rw [List.map_append, List.nodup_append] at h
      exact h.2.2 _ m _ (by simp) rfl
    simp only [List.foldl_cons, setBy_of_not_mem key init x hx]
    have := foldl_setBy_append xs (init ++ [x]) (by simpa using h)
    simpa using this

end SetBy

/-! ### decimal numbers -/

def digits : List Char := ['0', '1', '2', '3', '4', '5', '6', '7', '8', '9']

theorem digitVal_digitChar (d : Nat) (h : d < 10) : digitVal (digitChar d) = some d := by
  have : ∀ d : Fin 10, digitVal (digitChar d.val) = some d.val := by decide
  exact this ⟨d, h⟩

theorem digitChar_mem (d : Nat) (h : d < 10) : digitChar d ∈ digits := by
  have : ∀ d : Fin 10, digitChar d.val ∈ digits := by decide
  exact this ⟨d, h⟩

theorem parseDecAux_snoc : ∀ (a : Str) (acc : Nat) (c : Char),
    parseDecAux acc (a ++ [c]) =
      match parseDecAux acc a with
      | none => none
      | some n => match digitVal c with
        | none => none
        | some d => some (n * 10 + d)
  | [], acc, c => by simp [parseDecAux]; cases digitVal c <;> rfl
  | x :: xs, acc, c => by
    simp only [List.cons_append, parseDecAux]
    cases digitVal x with
    | none => rfl
    | some d => exact parseDecAux_snoc xs (acc * 10 + d) c

theorem fmtDec_spec (n : Nat) : fmtDec n ≠ [] ∧ (∀ c ∈ fmtDec n, c ∈ digits) ∧ parseDecAux 0 (fmtDec n) = some n := by
  induction n using Nat.strongRecOn with
  | _ n ih =>
    rw [fmtDec]
    split
    · rename_i h
      refine ⟨by simp, ?_, ?_⟩
      · intro c hc; simp at hc; subst hc; exact digitChar_mem n h
      · simp [parseDecAux, digitVal_digitChar n h]
    · rename_i h
      obtain ⟨h1, h2, h3⟩ := ih (n / 10) (by omega)
      refine ⟨by simp, ?_, ?_⟩
      · intro c hc
        rcases List.mem_append.mp hc with hc | hc
        · exact h2 c hc
        · simp at hc; subst hc; exact digitChar_mem _ (by omega)
      · rw [parseDecAux_snoc, h3]
        simp only [digitVal_digitChar (n % 10) (by omega)]
        congr 1; omega

theorem parseDec_fmtDec (n : Nat) : parseDec (fmtDec n) = some n := by
  obtain ⟨h1, _, h3⟩ := fmtDec_spec n
  simp [parseDec, h1, h3]

theorem parseUint_fmtDec (bits n : Nat) (h : n < 2 ^ bits) : parseUint bits (fmtDec n) = some n := by
  simp [parseUint, parseDec_fmtDec, h]

theorem digits_noSp : ∀ c ∈ digits, isSpace c = false ∧ c ≠ '=' := by decide

theorem fmtDec_noSp (n : Nat) : noSp (fmtDec n) := by
  intro c hc; exact (digits_noSp c ((fmtDec_spec n).2.1 c hc)).1

theorem trimmed_of_noSp (s : Str) (h : noSp s) : trimmed s :=
  ⟨head?_mem_noSp s h, getLast?_mem_noSp s h⟩

/-! ### `LoadConfig` option by option -/

/-- the values a file gives to option `n`, in file order -/
def valsOf (n : Str) (ls : List Line) : List Str := (ls.filter (fun l => l.1 = n)).map (·.2)

/-- successive `entry.Set(value)` on one storage entry -/
def foldVals (env : Env) (k : Kind) : Val → List Str → Option Val
  | v, [] => some v
  | v, x :: xs =>
    match setVal env false k v x with
    | none => none
    | some v' => foldVals env k v' xs

/-- whether `Set` fails depends on the text only, never on the current value -/
theorem setVal_none_indep (env : Env) (side : Bool) (k : Kind) (old old' : Val) (v : Str)
    (h : setVal env side k old v = none) : setVal env side k old' v = none := by
  cases k <;> simp_all [setVal]

@[simp] theorem Cfg.set_same (c : Cfg) (n : Str) (v : Val) : (c.set n v) n = v := by simp [Cfg.set]
theorem Cfg.set_other (c : Cfg) (n m : Str) (v : Val) (h : m ≠ n) : (c.set n v) m = c m := by simp [Cfg.set, h]

theorem valsOf_cons_same (l : Line) (ls : List Line) : valsOf l.1 (l :: ls) = l.2 :: valsOf l.1 ls := by
  simp [valsOf, List.filter]

theorem valsOf_cons_other (n : Str) (l : Line) (ls : List Line) (h : l.1 ≠ n) : valsOf n (l :: ls) = valsOf n ls := by
  simp [valsOf, List.filter, h]

/-- the value of option `n` after loading depends only on its old value and on the lines named `n` -/
theorem applyLines_proj (env : Env) : ∀ (ls : List Line) (c c' : Cfg), applyLines env c ls = some c' →
    ∀ n, (kindOf n = none → c' n = c n) ∧ (∀ k, kindOf n = some k → foldVals env k (c n) (valsOf n ls) = some (c' n))
  | [], c, c', h, n => by
    simp [applyLines] at h; subst h
    exact ⟨fun _ => rfl, fun k _ => by simp [valsOf, foldVals]⟩
  | l :: ls, c, c', h, n => by
    unfold applyLines at h
    split at h
    · simp at h
    · rename_i c1 h1
      have ih := applyLines_proj env ls c1 c' h n
      unfold applyLine at h1
      split at h1
      · -- unknown name: ignored
        rename_i hk
        simp at h1; subst h1
        by_cases e : l.1 = n
        · subst e
          exact ⟨ih.1, fun k hk' => (by rw [hk] at hk'; cases hk')⟩
        · rw [valsOf_cons_other n l ls e]; exact ih
      · rename_i k hk
        split at h1
        · simp at h1
        · rename_i v hv
          simp at h1; subst h1
          by_cases e : l.1 = n
          · subst e
            refine ⟨fun hn => (by rw [hk] at hn; cases hn), fun k' hk' => ?_⟩
            rw [hk] at hk'; cases hk'
            rw [valsOf_cons_same, foldVals, hv]
            have := ih.2 k hk
            simpa using this
          · rw [valsOf_cons_other n l ls e]
            have hc : (c.set l.1 v) n = c n := Cfg.set_other c l.1 n v (fun h => e h.symm)
            rw [hc] at ih; exact ih

/-- a line whose `Set` fails (for any, hence every, current value) -/
def lineBad (env : Env) (l : Line) : Prop :=
  ∃ k, kindOf l.1 = some k ∧ ∀ old, setVal env false k old l.2 = none

theorem applyLines_none_iff (env : Env) : ∀ (ls : List Line) (c : Cfg),
    applyLines env c ls = none ↔ ∃ l ∈ ls, lineBad env l
  | [], c => by simp [applyLines]
  | l :: ls, c => by
    unfold applyLines
    constructor
    · intro h
      split at h
      · rename_i h1
        refine ⟨l, by simp, ?_⟩
        unfold applyLine at h1
        split at h1
        · simp at h1
        · rename_i k hk
          split at h1
          · rename_i hv
            exact ⟨k, hk, fun old => setVal_none_indep env false k _ old l.2 hv⟩
          · simp at h1
      · rename_i c1 h1
        obtain ⟨l', hl', hb⟩ := (applyLines_none_iff env ls c1).mp h
        exact ⟨l', List.mem_cons_of_mem _ hl', hb⟩
    · rintro ⟨l', hl', hb⟩
      split
      · rfl
      · rename_i c1 h1
        rcases List.mem_cons.mp hl' with e | hm
        · subst e
          obtain ⟨k, hk, hbad⟩ := hb
          simp [applyLine, hk, hbad (c l'.1)] at h1
        · exact (applyLines_none_iff env ls c1).mpr ⟨l', hm, hb⟩

theorem mem_valsOf {n v : Str} {ls : List Line} : v ∈ valsOf n ls ↔ (n, v) ∈ ls := by
  simp only [valsOf, List.mem_map, List.mem_filter]
  constructor
  · rintro ⟨l, ⟨hl, hn⟩, rfl⟩
    simp at hn; subst hn; exact hl
  · intro h; exact ⟨(n, v), ⟨h, by simp⟩, rfl⟩

/-- loading depends only on the per-option sub-sequences of the file -/
theorem applyLines_congr (env : Env) (c : Cfg) (ls1 ls2 : List Line) (h : ∀ n, valsOf n ls1 = valsOf n ls2) :
    applyLines env c ls1 = applyLines env c ls2 := by
  have transfer : ∀ a b : List Line, (∀ n, valsOf n a = valsOf n b) → applyLines env c a = none → applyLines env c b = none := by
    intro a b hab ha
    obtain ⟨l, hl, hb⟩ := (applyLines_none_iff env a c).mp ha
    refine (applyLines_none_iff env b c).mpr ⟨l, ?_, hb⟩
    have : l.2 ∈ valsOf l.1 a := mem_valsOf.mpr hl
    rw [hab] at this
    exact mem_valsOf.mp this
  cases h1 : applyLines env c ls1 with
  | none => exact (transfer ls1 ls2 h h1).symm
  | some c1 =>
    cases h2 : applyLines env c ls2 with
    | none => rw [transfer ls2 ls1 (fun n => (h n).symm) h2] at h1; cases h1
    | some c2 =>
      congr 1
      funext n
      have p1 := applyLines_proj env ls1 c c1 h1 n
      have p2 := applyLines_proj env ls2 c c2 h2 n
      cases hk : kindOf n with
      | none => rw [p1.1 hk, p2.1 hk]
      | some k =>
        have e1 := p1.2 k hk
        have e2 := p2.2 k hk
        rw [h n] at e1
        rw [e1] at e2
        exact Option.some.inj e2

/-! ### assumptions about the external functions, well-formed values -/

/-- What the theorems assume about the Go standard library behind `Env`:
  * `time.ParseDuration (d.String()) = d`, and `d.String()` has no surrounding white space;
  * a condition accepted by `newConfig` prints (`IPNet.String`, `HardwareAddr.String`, the interface
    name) as a non-empty text without '=' and without surrounding white space that is classified as
    the same condition again (for interfaces: the interface still exists with the same addresses). -/
structure EnvLaws (env : Env) : Prop where
  dur_roundtrip : ∀ d, env.parseDur (env.fmtDur d) = some d
  dur_trimmed : ∀ d, trimmed (env.fmtDur d)
  cond_canon : ∀ t ck, env.classify t = some ck → env.classify (condText ck) = some ck
  cond_text : ∀ t ck, env.classify t = some ck →
    condText ck ≠ [] ∧ '=' ∉ condText ck ∧ trimmed (condText ck)

def wfCond (env : Env) (ck : CondK) : Prop :=
  env.classify (condText ck) = some ck ∧ condText ck ≠ [] ∧ '=' ∉ condText ck ∧ trimmed (condText ck)

/-- a profile as `newConfig` produces it from a trimmed text -/
def wfProfile (env : Env) (p : Profile) : Prop :=
  match p.cond with
  | none => '=' ∉ p.id ∧ trimmed p.id
  | some ck => trimmed p.id ∧ wfCond env ck

/-- a forwarder as `newResolver` produces it from a trimmed text -/
def wfFwd (env : Env) (f : Fwd) : Prop :=
  env.validAddr f.addr = true ∧ trimmed f.addr ∧
    (if f.domain = [] then '=' ∉ f.addr
     else '=' ∉ f.domain ∧ trimmed f.domain ∧ f.domain.getLast? = some '.')

theorem splitAt1_eq_none (c : Char) : ∀ (s : Str), splitAt1 c s = none → c ∉ s
  | [], _ => by simp
  | x :: xs, h => by
    unfold splitAt1 at h
    split at h
    · simp at h
    · rename_i hx
      split at h
      · rename_i hn
        have := splitAt1_eq_none c xs hn
        intro m
        rcases List.mem_cons.mp m with e | m
        · exact hx e.symm
        · exact this m
      · simp at h

theorem mem_trimRight : ∀ (s : Str) (c : Char), c ∈ trimRight s → c ∈ s
  | [], c, h => by simp [trimRight] at h
  | x :: xs, c, h => by
    unfold trimRight at h
    split at h
    · split at h
      · simp at h
      · simp at h; simp [h]
    · rename_i r _
      rcases List.mem_cons.mp h with e | m
      · simp [e]
      · exact List.mem_cons_of_mem _ (mem_trimRight xs c m)

theorem mem_trim (s : Str) (c : Char) (h : c ∈ trim s) : c ∈ s :=
  mem_trimRight s c ((List.dropWhile_sublist _).subset h)

theorem last_nonspace_trimmed_append (a b : Str) (ha : trimmed a) (hane : a ≠ []) (hb : ∀ c, b.getLast? = some c → isSpace c = false)
    (hbne : b ≠ []) : trimmed (a ++ b) := by
  constructor
  · intro c hc
    cases a with
    | nil => exact absurd rfl hane
    | cons x xs => exact ha.1 c (by simpa using hc)
  · intro c hc
    cases b with
    | nil => exact absurd rfl hbne
    | cons y ys => exact hb c (by simpa [List.getLast?_append] using hc)

theorem pstring_trimmed (env : Env) (p : Profile) (h : wfProfile env p) : trimmed (pstring p) := by
  unfold wfProfile at h; unfold pstring
  cases hc : p.cond with
  | none => simp only [hc] at h ⊢; exact h.2
  | some ck =>
    simp only [hc] at h ⊢
    obtain ⟨hid, _, hne, _, htr⟩ := h
    apply last_nonspace_trimmed_append _ _ htr hne _ (by simp)
    intro c hc'
    cases hi : p.id with
    | nil => rw [hi] at hc'; simp at hc'; subst hc'; decide
    | cons y ys =>
      apply hid.2 c
      rw [hi] at hc' ⊢
      simpa [List.getLast?_cons_cons] using hc'

theorem newConfig_pstring (env : Env) (p : Profile) (h : wfProfile env p) : newConfig env (pstring p) = some p := by
  obtain ⟨cond, id⟩ := p
  unfold wfProfile at h; unfold pstring newConfig
  cases cond with
  | none =>
    simp only at h ⊢
    rw [splitAt1_none '=' id h.1]
  | some ck =>
    simp only at h ⊢
    obtain ⟨hid, hcl, _, heq, htr⟩ := h
    rw [splitAt1_append '=' _ _ heq]
    simp only [trim_of_trimmed _ htr, hcl, trim_of_trimmed _ hid]

theorem newConfig_wf (env : Env) (laws : EnvLaws env) (v : Str) (p : Profile) (hv : trimmed v)
    (h : newConfig env v = some p) : wfProfile env p := by
  unfold newConfig at h
  split at h
  · rename_i hs
    simp at h; subst h
    exact ⟨splitAt1_eq_none '=' v hs, hv⟩
  · rename_i c i hs
    split at h
    · simp at h
    · rename_i ck hck
      simp at h; subst h
      exact ⟨trimmed_trim i, laws.cond_canon _ ck hck, laws.cond_text _ ck hck⟩

theorem fqdn_last (s : Str) : (fqdn s).getLast? = some '.' := by
  unfold fqdn; split
  · assumption
  · simp

theorem fqdn_ne_nil (s : Str) : fqdn s ≠ [] := by
  intro h; have := fqdn_last s; rw [h] at this; simp at this

theorem fstring_trimmed (env : Env) (f : Fwd) (h : wfFwd env f) : trimmed (fstring f) := by
  obtain ⟨_, ha, hd⟩ := h
  unfold fstring
  split
  · exact ha
  · rename_i hne
    simp only [hne, if_false] at hd
    apply last_nonspace_trimmed_append _ _ hd.2.1 hne _ (by simp)
    intro c hc
    cases hi : f.addr with
    | nil => rw [hi] at hc; simp at hc; subst hc; decide
    | cons y ys =>
      apply ha.2 c
      rw [hi] at hc ⊢
      simpa [List.getLast?_cons_cons] using hc

theorem newResolver_fstring (env : Env) (f : Fwd) (h : wfFwd env f) : newResolver env (fstring f) = some f := by
  obtain ⟨domain, addr⟩ := f
  obtain ⟨hv, ha, hd⟩ := h
  simp only at hv ha hd
  by_cases he : domain = []
  · rw [if_pos he] at hd
    subst he
    simp only [fstring, newResolver, if_true]
    rw [splitAt1_none '=' addr hd]
    simp [hv]
  · rw [if_neg he] at hd
    obtain ⟨heq, htr, hl⟩ := hd
    simp only [fstring, newResolver, if_neg he]
    rw [splitAt1_append '=' _ _ heq]
    simp only [trim_of_trimmed _ ha, trim_of_trimmed _ htr, hv, if_true]
    simp [fqdn, hl]

theorem newResolver_wf (env : Env) (v : Str) (f : Fwd) (hv : trimmed v) (h : newResolver env v = some f) : wfFwd env f := by
  unfold newResolver at h
  split at h
  · rename_i hs
    split at h
    · rename_i hva
      simp at h; subst h
      exact ⟨hva, hv, by simpa using splitAt1_eq_none '=' v hs⟩
    · simp at h
  · rename_i d a hs
    split at h
    · rename_i hva
      simp at h; subst h
      refine ⟨hva, trimmed_trim a, ?_⟩
      simp only [fqdn_ne_nil, if_false]
      have hd : '=' ∉ trim d := fun m => (splitAt1_some '=' v d a hs).2 (mem_trim d _ m)
      refine ⟨?_, ?_, fqdn_last _⟩
      · unfold fqdn; split
        · exact hd
        · intro m; rcases List.mem_append.mp m with m | m
          · exact hd m
          · simp at m
      · unfold fqdn; split
        · exact trimmed_trim d
        · by_cases he : trim d = []
          · rw [he]; exact ⟨by simp; decide, by simp; decide⟩
          · exact last_nonspace_trimmed_append _ _ (trimmed_trim d) he (by simp; decide) (by simp)
    · simp at h

/-- a value of the given kind as `Parse` leaves it (every text trimmed, list entries as their parsers
produce them, at most one list entry per `Set` class, uint within the storage side's range) -/
def WFVal (env : Env) : Kind → Val → Prop
  | .bool, v => ∃ b, v = .b b
  | .string, v => ∃ s, v = .s s ∧ trimmed s
  | .duration, v => ∃ d, v = .d d
  | .uint, v => ∃ n, v = .u n ∧ n < 2 ^ uintFileBits
  | .strings, v => ∃ l, v = .ss l ∧ l.Nodup ∧ ∀ s ∈ l, trimmed s
  | .profiles, v => ∃ l, v = .ps l ∧ (l.map pkey).Nodup ∧ ∀ p ∈ l, wfProfile env p
  | .forwarders, v => ∃ l, v = .fs l ∧ (l.map Fwd.domain).Nodup ∧ ∀ f ∈ l, wfFwd env f

/-- list entries start empty (`var c config.Config`) -/
def dfltOK : Kind → Val → Prop
  | .strings, d => d = .ss []
  | .profiles, d => d = .ps []
  | .forwarders, d => d = .fs []
  | _, _ => True

theorem foldVals_strings (env : Env) : ∀ (l init : List Str),
    foldVals env .strings (.ss init) l = some (.ss (l.foldl (setBy id) init))
  | [], _ => rfl
  | x :: xs, init => by simp [foldVals, setVal, Val.strs, foldVals_strings env xs]

theorem foldVals_profiles (env : Env) : ∀ (l init : List Profile), (∀ p ∈ l, wfProfile env p) →
    foldVals env .profiles (.ps init) (l.map pstring) = some (.ps (l.foldl (setBy pkey) init))
  | [], _, _ => rfl
  | x :: xs, init, h => by
    simp only [List.map_cons, foldVals, setVal, newConfig_pstring env x (h x (by simp)), Option.map_some, Val.profs,
      List.foldl_cons]
    exact foldVals_profiles env xs _ (fun p hp => h p (List.mem_cons_of_mem _ hp))

theorem foldVals_fwds (env : Env) : ∀ (l init : List Fwd), (∀ f ∈ l, wfFwd env f) →
    foldVals env .forwarders (.fs init) (l.map fstring) = some (.fs (l.foldl (setBy Fwd.domain) init))
  | [], _, _ => rfl
  | x :: xs, init, h => by
    simp only [List.map_cons, foldVals, setVal, newResolver_fstring env x (h x (by simp)), Option.map_some, Val.fwds,
      List.foldl_cons]
    exact foldVals_fwds env xs _ (fun p hp => h p (List.mem_cons_of_mem _ hp))


/-- `Set`ting what `String()` / `Strings()` printed gives the value back -/
theorem foldVals_entryValues (env : Env) (laws : EnvLaws env) (k : Kind) (v d : Val)
    (hw : WFVal env k v) (hd : dfltOK k d) : foldVals env k d (entryValues env v) = some v := by
  cases k with
  | bool =>
    obtain ⟨b, rfl⟩ := hw
    cases b <;> simp [entryValues, foldVals, setVal, fmtScalar] <;> decide
  | string =>
    obtain ⟨s, rfl, _⟩ := hw
    simp [entryValues, foldVals, setVal, fmtScalar]
  | duration =>
    obtain ⟨n, rfl⟩ := hw
    simp [entryValues, foldVals, setVal, fmtScalar, laws.dur_roundtrip]
  | uint =>
    obtain ⟨n, rfl, hn⟩ := hw
    simp [entryValues, foldVals, setVal, fmtScalar, parseUint_fmtDec _ n hn]
  | strings =>
    obtain ⟨l, rfl, hnd, _⟩ := hw
    simp only [dfltOK] at hd; subst hd
    simp only [entryValues]
    rw [foldVals_strings, foldl_setBy_append id l [] (by simpa using hnd)]; simp
  | profiles =>
    obtain ⟨l, rfl, hnd, hwf⟩ := hw
    simp only [dfltOK] at hd; subst hd
    simp only [entryValues]
    rw [foldVals_profiles env l [] hwf, foldl_setBy_append pkey l [] (by simpa using hnd)]; simp
  | forwarders =>
    obtain ⟨l, rfl, hnd, hwf⟩ := hw
    simp only [dfltOK] at hd; subst hd
    simp only [entryValues]
    rw [foldVals_fwds env l [] hwf, foldl_setBy_append Fwd.domain l [] (by simpa using hnd)]; simp

/-- everything `Save` writes is free of surrounding white space -/
theorem entryValues_trimmed (env : Env) (laws : EnvLaws env) (k : Kind) (v : Val) (hw : WFVal env k v) :
    ∀ x ∈ entryValues env v, trimmed x := by
  intro x hx
  cases k with
  | bool =>
    obtain ⟨b, rfl⟩ := hw
    cases b <;> (simp [entryValues, fmtScalar] at hx; subst hx; exact ⟨by decide, by decide⟩)
  | string => obtain ⟨s, rfl, hs⟩ := hw; simp [entryValues, fmtScalar] at hx; subst hx; exact hs
  | duration => obtain ⟨n, rfl⟩ := hw; simp [entryValues, fmtScalar] at hx; subst hx; exact laws.dur_trimmed n
  | uint =>
    obtain ⟨n, rfl, _⟩ := hw; simp [entryValues, fmtScalar] at hx; subst hx
    exact trimmed_of_noSp _ (fmtDec_noSp n)
  | strings => obtain ⟨l, rfl, _, h⟩ := hw; exact h x hx
  | profiles =>
    obtain ⟨l, rfl, _, h⟩ := hw
    simp [entryValues] at hx
    obtain ⟨p, hp, rfl⟩ := hx
    exact pstring_trimmed env p (h p hp)
  | forwarders =>
    obtain ⟨l, rfl, _, h⟩ := hw
    simp [entryValues] at hx
    obtain ⟨p, hp, rfl⟩ := hx
    exact fstring_trimmed env p (h p hp)

/-! ### facts about the option table (checked by evaluation over the whole table) -/

def trimmedB (s : Str) : Bool :=
  (match s.head? with | some c => !isSpace c | none => true) &&
  (match s.getLast? with | some c => !isSpace c | none => true)

theorem trimmed_of_B (s : Str) (h : trimmedB s = true) : trimmed s := by
  unfold trimmedB at h
  simp only [Bool.and_eq_true] at h
  constructor
  · intro c hc; rw [hc] at h; simpa using h.1
  · intro c hc; rw [hc] at h; simpa using h.2

def nameOkB (n : Str) : Bool := !n.isEmpty && n.all (fun c => !isSpace c) && (n.head? != some '#')

theorem nameOk_of_B (n : Str) (h : nameOkB n = true) : nameOk n := by
  unfold nameOkB at h
  simp only [Bool.and_eq_true, List.all_eq_true] at h
  obtain ⟨⟨h1, h2⟩, h3⟩ := h
  refine ⟨by intro e; subst e; simp at h1, fun c hc => by simpa using h2 c hc, by simpa using h3⟩

/-- defaults of the table: scalars of the right constructor (strings trimmed, uint in range), lists empty -/
def dfltB : Kind → Val → Bool
  | .bool, .b _ => true
  | .string, .s v => trimmedB v
  | .duration, .d _ => true
  | .uint, .u n => decide (n < 2 ^ uintFileBits)
  | .strings, .ss [] => true
  | .profiles, .ps [] => true
  | .forwarders, .fs [] => true
  | _, _ => false

theorem dflt_of_B (env : Env) (k : Kind) (d : Val) (h : dfltB k d = true) : WFVal env k d ∧ dfltOK k d := by
  cases k <;> cases d <;> simp_all [dfltB, WFVal, dfltOK]
  case string.s v => exact trimmed_of_B v h
  all_goals (rename_i l; cases l <;> simp_all)

theorem table_names_ok : ∀ o ∈ optTable, nameOkB o.nm = true := by decide
theorem table_names_nodup : (optTable.map Opt.nm).Nodup := by decide
theorem table_find_self : ∀ o ∈ optTable, findOpt o.nm = some o := by decide
theorem table_dflt : ∀ o ∈ optTable, dfltB o.kind o.dflt = true := by decide

theorem kindOf_table (o : Opt) (h : o ∈ optTable) : kindOf o.nm = some o.kind := by
  simp [kindOf, table_find_self o h]

theorem defaultCfg_table (o : Opt) (h : o ∈ optTable) : defaultCfg o.nm = o.dflt := by
  simp [defaultCfg, table_find_self o h]

theorem table_nm_inj (o o' : Opt) (h : o ∈ optTable) (h' : o' ∈ optTable) (e : o.nm = o'.nm) : o = o' := by
  have := table_find_self o h
  rw [e, table_find_self o' h'] at this
  exact (Option.some.inj this).symm

theorem findOpt_mem (n : Str) (o : Opt) (h : findOpt n = some o) : o ∈ optTable ∧ o.nm = n := by
  unfold findOpt findOptIn at h
  exact ⟨List.mem_of_find?_eq_some h, by simpa using List.find?_some h⟩

/-! ### `SaveConfig` option by option -/

def linesOf (env : Env) (c : Cfg) (o : Opt) : List Line := (entryValues env (stored c o)).map fun v => (o.nm, v)

theorem valsOf_append (n : Str) (a b : List Line) : valsOf n (a ++ b) = valsOf n a ++ valsOf n b := by
  simp [valsOf]

theorem valsOf_linesOf_same (env : Env) (c : Cfg) (o : Opt) : valsOf o.nm (linesOf env c o) = entryValues env (stored c o) := by
  simp [valsOf, linesOf, List.filter_map, Function.comp_def]

theorem valsOf_linesOf_other (env : Env) (c : Cfg) (o : Opt) (n : Str) (h : o.nm ≠ n) : valsOf n (linesOf env c o) = [] := by
  simp [valsOf, linesOf, List.filter_map, Function.comp_def, h]

theorem valsOf_flatMap_not_mem (env : Env) (c : Cfg) (n : Str) : ∀ (tbl : List Opt), n ∉ tbl.map Opt.nm →
    valsOf n (tbl.flatMap (linesOf env c)) = []
  | [], _ => rfl
  | o :: os, h => by
    simp only [List.flatMap_cons, valsOf_append]
    rw [valsOf_linesOf_other env c o n (by intro e; exact h (by simp [e])),
        valsOf_flatMap_not_mem env c n os (by intro m; exact h (by simp at m ⊢; exact Or.inr m))]
    rfl

theorem valsOf_flatMap_mem (env : Env) (c : Cfg) (o : Opt) : ∀ (tbl : List Opt), (tbl.map Opt.nm).Nodup → o ∈ tbl →
    valsOf o.nm (tbl.flatMap (linesOf env c)) = entryValues env (stored c o)
  | [], _, h => by simp at h
  | x :: xs, hnd, h => by
    simp only [List.map_cons, List.nodup_cons] at hnd
    simp only [List.flatMap_cons, valsOf_append]
    rcases List.mem_cons.mp h with e | hm
    · subst e
      rw [valsOf_linesOf_same, valsOf_flatMap_not_mem env c o.nm xs hnd.1]; simp
    · have hne : x.nm ≠ o.nm := by
        intro e; exact hnd.1 (e ▸ List.mem_map_of_mem hm)
      rw [valsOf_linesOf_other env c x o.nm hne, valsOf_flatMap_mem env c o xs hnd.2 hm]; rfl

theorem saveLines_eq (env : Env) (c : Cfg) : saveLines env c = optTable.flatMap (linesOf env c) := rfl

theorem valsOf_saveLines (env : Env) (c : Cfg) (o : Opt) (h : o ∈ optTable) :
    valsOf o.nm (saveLines env c) = entryValues env (stored c o) :=
  valsOf_flatMap_mem env c o optTable table_names_nodup h

theorem mem_saveLines (env : Env) (c : Cfg) (l : Line) (h : l ∈ saveLines env c) :
    ∃ o ∈ optTable, l.1 = o.nm ∧ l.2 ∈ entryValues env (stored c o) := by
  simp only [saveLines, List.mem_flatMap, List.mem_map] at h
  obtain ⟨o, ho, v, hv, rfl⟩ := h
  exact ⟨o, ho, rfl, hv⟩

theorem foldVals_some_mem (env : Env) (k : Kind) : ∀ (xs : List Str) (d v : Val), foldVals env k d xs = some v →
    ∀ x ∈ xs, ∃ old, setVal env false k old x ≠ none
  | [], _, _, _, x, hx => by simp at hx
  | y :: ys, d, v, h, x, hx => by
    unfold foldVals at h
    split at h
    · simp at h
    · rename_i v' hv'
      rcases List.mem_cons.mp hx with e | hm
      · subst e; exact ⟨d, by rw [hv']; simp⟩
      · exact foldVals_some_mem env k ys v' v h x hm

theorem filterMap_parseLine_fmtLine : ∀ (ls : List Line), (∀ l ∈ ls, nameOk l.1 ∧ trimmed l.2) →
    (ls.map fmtLine).filterMap parseLine = ls
  | [], _ => rfl
  | l :: ls, h => by
    have h1 := h l (by simp)
    simp only [List.map_cons, List.filterMap_cons, parseLine_fmtLine l.1 l.2 h1.1 h1.2]
    rw [filterMap_parseLine_fmtLine ls (fun x hx => h x (List.mem_cons_of_mem _ hx))]

/-! ### well-formedness is an invariant of `Set`, of the flag parser and of `LoadConfig` -/

theorem parseUint_lt (bits : Nat) (s : Str) (n : Nat) (h : parseUint bits s = some n) : n < 2 ^ bits := by
  unfold parseUint at h
  split at h
  · simp at h
  · split at h
    · simp at h; subst h; assumption
    · simp at h

/-- what the flag accepts fits what the storage side accepts -/
theorem uint_bits_le : uintFlagBits ≤ uintFileBits := by decide

theorem setVal_wf (env : Env) (laws : EnvLaws env) (side : Bool) (k : Kind) (old new : Val) (v : Str)
    (hold : WFVal env k old) (hv : trimmed v) (h : setVal env side k old v = some new) : WFVal env k new := by
  cases k with
  | bool =>
    simp only [setVal, Option.map_eq_some_iff] at h
    obtain ⟨b, _, rfl⟩ := h; exact ⟨b, rfl⟩
  | string => simp only [setVal, Option.some.injEq] at h; subst h; exact ⟨v, rfl, hv⟩
  | duration =>
    simp only [setVal, Option.map_eq_some_iff] at h
    obtain ⟨d, _, rfl⟩ := h; exact ⟨d, rfl⟩
  | uint =>
    simp only [setVal, Option.map_eq_some_iff] at h
    obtain ⟨n, hn, rfl⟩ := h
    refine ⟨n, rfl, ?_⟩
    have := parseUint_lt _ _ _ hn
    cases side
    · simpa using this
    · exact Nat.lt_of_lt_of_le (by simpa using this) (Nat.pow_le_pow_right (by decide) uint_bits_le)
  | strings =>
    obtain ⟨l, rfl, hnd, htr⟩ := hold
    simp only [setVal, Val.strs, Option.some.injEq] at h; subst h
    refine ⟨_, rfl, ?_, ?_⟩
    · have := setBy_keys_nodup id l v (by simpa using hnd)
      simpa using this
    · intro s hs
      rcases setBy_mem id l v s hs with e | m
      · exact e ▸ hv
      · exact htr s m
  | profiles =>
    obtain ⟨l, rfl, hnd, hwf⟩ := hold
    simp only [setVal, Val.profs, Option.map_eq_some_iff] at h
    obtain ⟨p, hp, rfl⟩ := h
    refine ⟨_, rfl, setBy_keys_nodup pkey l p hnd, ?_⟩
    intro q hq
    rcases setBy_mem pkey l p q hq with e | m
    · exact e ▸ newConfig_wf env laws v p hv hp
    · exact hwf q m
  | forwarders =>
    obtain ⟨l, rfl, hnd, hwf⟩ := hold
    simp only [setVal, Val.fwds, Option.map_eq_some_iff] at h
    obtain ⟨f, hf, rfl⟩ := h
    refine ⟨_, rfl, setBy_keys_nodup Fwd.domain l f hnd, ?_⟩
    intro q hq
    rcases setBy_mem Fwd.domain l f q hq with e | m
    · exact e ▸ newResolver_wf env v f hv hf
    · exact hwf q m

/-- every option holds a value of its kind as `Parse` leaves it -/
def WF (env : Env) (c : Cfg) : Prop := ∀ o ∈ optTable, WFVal env o.kind (c o.nm)

theorem WF_default (env : Env) : WF env defaultCfg := by
  intro o ho; rw [defaultCfg_table o ho]; exact (dflt_of_B env _ _ (table_dflt o ho)).1

theorem WF_set (env : Env) (c : Cfg) (o : Opt) (v : Val) (hwf : WF env c) (ho : o ∈ optTable)
    (hv : WFVal env o.kind v) : WF env (c.set o.nm v) := by
  intro o' ho'
  by_cases e : o'.nm = o.nm
  · have := table_nm_inj o' o ho' ho e
    subst this; simpa using hv
  · rw [Cfg.set_other c o.nm o'.nm v e]; exact hwf o' ho'

theorem applyLine_wf (env : Env) (laws : EnvLaws env) (c c' : Cfg) (l : Line) (hwf : WF env c) (hl : trimmed l.2)
    (h : applyLine env c l = some c') : WF env c' := by
  unfold applyLine at h
  cases hf : findOpt l.1 with
  | none => simp [kindOf, hf] at h; subst h; exact hwf
  | some o =>
    obtain ⟨ho, hn⟩ := findOpt_mem l.1 o hf
    simp only [kindOf, hf, Option.map_some] at h
    split at h
    · simp at h
    · rename_i v hv
      simp at h; subst h
      rw [← hn] at hv ⊢
      exact WF_set env c o v hwf ho (setVal_wf env laws false o.kind _ v l.2 (hwf o ho) hl hv)

theorem applyLines_wf (env : Env) (laws : EnvLaws env) : ∀ (ls : List Line) (c c' : Cfg), WF env c →
    (∀ l ∈ ls, trimmed l.2) → applyLines env c ls = some c' → WF env c'
  | [], c, c', hwf, _, h => by simp [applyLines] at h; subst h; exact hwf
  | l :: ls, c, c', hwf, hl, h => by
    unfold applyLines at h
    split at h
    · simp at h
    · rename_i c1 h1
      exact applyLines_wf env laws ls c1 c' (applyLine_wf env laws c c1 l hwf (hl l (by simp)) h1)
        (fun x hx => hl x (List.mem_cons_of_mem _ hx)) h

theorem loadLines_wf (env : Env) (laws : EnvLaws env) (raws : List Str) (c c' : Cfg) (hwf : WF env c)
    (h : loadLines env c raws = some c') : WF env c' := by
  refine applyLines_wf env laws _ c c' hwf ?_ h
  intro l hl
  obtain ⟨raw, _, hr⟩ := List.mem_filterMap.mp hl
  exact parseLine_trimmed raw l hr

theorem applyArg_wf (env : Env) (laws : EnvLaws env) (c c' : Cfg) (a : Arg) (hwf : WF env c) (ha : trimmed a.value)
    (h : applyArg env c a = some c') : WF env c' := by
  unfold applyArg at h
  cases hf : findOpt a.name with
  | none => simp [hf] at h
  | some o =>
    obtain ⟨ho, hn⟩ := findOpt_mem a.name o hf
    simp only [hf] at h
    rw [← hn] at h
    split at h
    · rename_i hk
      split at h
      · simp at h; subst h; exact WF_set env c o _ hwf ho (by rw [hk]; exact ⟨true, rfl⟩)
      · simp only [Option.map_eq_some_iff] at h
        obtain ⟨b, _, rfl⟩ := h
        exact WF_set env c o _ hwf ho (by rw [hk]; exact ⟨b, rfl⟩)
      · simp at h
    · split at h
      · simp at h
      · simp only [Option.map_eq_some_iff] at h
        obtain ⟨v, hv, rfl⟩ := h
        exact WF_set env c o v hwf ho (setVal_wf env laws true o.kind _ v a.value (hwf o ho) ha hv)

theorem applyArgs_wf (env : Env) (laws : EnvLaws env) : ∀ (as : List Arg) (c c' : Cfg), WF env c →
    (∀ a ∈ as, trimmed a.value) → applyArgs env c as = some c' → WF env c'
  | [], c, c', hwf, _, h => by simp [applyArgs] at h; subst h; exact hwf
  | a :: as, c, c', hwf, ha, h => by
    unfold applyArgs at h
    split at h
    · simp at h
    · rename_i c1 h1
      exact applyArgs_wf env laws as c1 c' (applyArg_wf env laws c c1 a hwf (ha a (by simp)) h1)
        (fun x hx => ha x (List.mem_cons_of_mem _ hx)) h

/-! ### which options a step can change -/

theorem applyArg_other (env : Env) (c c' : Cfg) (a : Arg) (n : Str) (h : applyArg env c a = some c')
    (hn : n ≠ a.name) : c' n = c n := by
  unfold applyArg at h
  split at h
  · simp at h
  · split at h
    · split at h
      · simp at h; subst h; exact Cfg.set_other c _ n _ hn
      · simp only [Option.map_eq_some_iff] at h
        obtain ⟨b, _, rfl⟩ := h; exact Cfg.set_other c _ n _ hn
      · simp at h
    · split at h
      · simp at h
      · simp only [Option.map_eq_some_iff] at h
        obtain ⟨v, _, rfl⟩ := h; exact Cfg.set_other c _ n _ hn

theorem applyArgs_other (env : Env) : ∀ (as : List Arg) (c c' : Cfg) (n : Str), applyArgs env c as = some c' →
    n ∉ as.map (·.name) → c' n = c n
  | [], c, c', n, h, _ => by simp [applyArgs] at h; subst h; rfl
  | a :: as, c, c', n, h, hn => by
    unfold applyArgs at h
    split at h
    · simp at h
    · rename_i c1 h1
      rw [applyArgs_other env as c1 c' n h (by intro m; exact hn (by simp at m ⊢; exact Or.inr m))]
      exact applyArg_other env c c1 a n h1 (by intro e; exact hn (by simp [e]))

/-- loading changes option `n` the same way from two configurations that agree on `n` -/
theorem loadLines_agree (env : Env) (raws : List Str) (c d c' d' : Cfg) (n : Str) (hcd : c n = d n)
    (hc : loadLines env c raws = some c') (hd : loadLines env d raws = some d') : c' n = d' n := by
  have p1 := applyLines_proj env _ c c' hc n
  have p2 := applyLines_proj env _ d d' hd n
  cases hk : kindOf n with
  | none => rw [p1.1 hk, p2.1 hk, hcd]
  | some k =>
    have e1 := p1.2 k hk
    have e2 := p2.2 k hk
    rw [hcd, e2] at e1
    exact (Option.some.inj e1).symm

theorem loadLines_untouched (env : Env) (raws : List Str) (c c' : Cfg) (n : Str)
    (hn : ∀ l ∈ raws.filterMap parseLine, l.1 ≠ n) (hc : loadLines env c raws = some c') : c' n = c n := by
  have p := applyLines_proj env _ c c' hc n
  cases hk : kindOf n with
  | none => exact p.1 hk
  | some k =>
    have e := p.2 k hk
    have : valsOf n (raws.filterMap parseLine) = [] := by
      simp only [valsOf, List.map_eq_nil_iff, List.filter_eq_nil_iff]
      intro l hl; simpa using hn l hl
    rw [this] at e
    simpa [foldVals] using e.symm

theorem migrate_agree (c d : Cfg) (n : Str) (hcfg : c (lit "config") = d (lit "config")) (hn : c n = d n)
    (hp : c (lit "profile") = d (lit "profile")) : migrate c n = migrate d n := by
  unfold migrate
  simp only [hcfg, hp]
  split
  · exact hn
  · simp only [Cfg.set]
    split
    · rfl
    · split
      · rfl
      · exact hn

theorem migrate_other (c : Cfg) (n : Str) (h1 : n ≠ lit "config") (h2 : n ≠ lit "profile") : migrate c n = c n := by
  unfold migrate
  split
  · rfl
  · simp [Cfg.set, h1, h2]

theorem migrate_noop (c : Cfg) (h : (c (lit "config")).profs = []) : migrate c = c := by
  simp [migrate, h]

theorem fixListen_agree (c d : Cfg) (n : Str) (hn : c n = d n) : fixListen c n = fixListen d n := by
  unfold fixListen
  by_cases e : n = lit "listen"
  · subst e
    by_cases hc : (d (lit "listen")).strs = []
    · simp [hn, hc, Cfg.set]
    · simp [hn, hc]
  · by_cases hc : (c (lit "listen")).strs = [] <;> by_cases hd : (d (lit "listen")).strs = [] <;>
      simp [hc, hd, Cfg.set, e, hn]

theorem renameArg_trimmed (a : Arg) (h : trimmed a.value) : trimmed (renameArg a).value := by
  unfold renameArg
  split
  · simp only
    split
    · exact trimmed_of_B _ (by decide)
    · exact h
  · exact h

theorem fixListen_wf (env : Env) (c : Cfg) (h : WF env c) : WF env (fixListen c) := by
  unfold fixListen
  split
  · exact WF_set env c ⟨"listen", .strings, .ss [], true⟩ _ h (by decide)
      ⟨[defaultListen], rfl, by simp, by intro s hs; simp at hs; subst hs; exact trimmed_of_B _ (by decide)⟩
  · exact h

theorem migrate_config_agree (c d : Cfg) (h : c (lit "config") = d (lit "config")) :
    migrate c (lit "config") = migrate d (lit "config") := by
  unfold migrate
  simp only [h]
  split
  · exact h
  · simp [Cfg.set]


/-! ### the file as text: `Fprintf("%s %s\n")` then `bufio.ScanLines` -/

theorem scanLines_go_line : ∀ (l rest cur : Str), '\n' ∉ l →
    scanLines.go (l ++ '\n' :: rest) cur = scanLines.dropCR (cur.reverse ++ l) :: scanLines.go rest []
  | [], rest, cur, _ => by simp [scanLines.go]
  | x :: xs, rest, cur, h => by
    have hx : x ≠ '\n' := by intro e; exact h (by simp [e])
    have := scanLines_go_line xs rest (x :: cur) (by intro m; exact h (by simp [m]))
    simp only [List.cons_append, scanLines.go, hx, if_false, this]
    simp

theorem scanLines_serialize : ∀ (ls : List Str), (∀ l ∈ ls, '\n' ∉ l ∧ l.getLast? ≠ some '\r') →
    scanLines (serialize ls) = ls
  | [], _ => by simp [scanLines, serialize, scanLines.go]
  | l :: ls, h => by
    have ih := scanLines_serialize ls (fun x hx => h x (List.mem_cons_of_mem _ hx))
    have hl := h l (by simp)
    unfold scanLines at ih ⊢
    simp only [serialize, List.flatMap_cons, List.append_assoc, List.singleton_append] at ih ⊢
    rw [scanLines_go_line l _ [] hl.1]
    simp only [List.reverse_nil, List.nil_append, scanLines.dropCR, hl.2, if_false]
    rw [ih]

end NV.Config
