/-
  NV.Lemmas.Cache — helper lemmas about NV.Model.Cache (association list, provenance invariant,
  per-step case analysis, label/text-name algebra).  Property statements live in NV.Props.C06.
-/
import NV.Model.Cache
namespace NV.Cache
open NV

/-! ### association list -/

theorem get_mem {st : Store} {k : Key} {e : Entry} (h : get st k = some e) : (k, e) ∈ st := by
  induction st with
  | nil => simp [get] at h
  | cons p r ih =>
    obtain ⟨k', e'⟩ := p
    unfold get at h
    split at h
    · rename_i hk; simp at h; subst hk; subst h; simp
    · exact List.mem_cons_of_mem _ (ih h)

theorem mem_evict {st : Store} {k : Key} {p : Key × Entry} (h : p ∈ evict st k) : p ∈ st := by
  unfold evict at h; exact (List.mem_filter.mp h).1

theorem mem_add {st : Store} {k : Key} {e : Entry} {p : Key × Entry} (h : p ∈ add st k e) :
    p = (k, e) ∨ p ∈ st := by
  unfold add at h
  rcases List.mem_cons.mp h with h | h
  · exact .inl h
  · exact .inr (mem_evict h)

theorem get_add_self (st : Store) (k : Key) (e : Entry) : get (add st k e) k = some e := by
  simp [add, get]

theorem get_evict_self (st : Store) (k : Key) : get (evict st k) k = none := by
  induction st with
  | nil => simp [evict, get]
  | cons p r ih =>
    obtain ⟨k', e'⟩ := p
    by_cases hk : k' = k
    · simpa [evict, hk] using ih
    · simp only [evict, List.filter, ne_eq, hk, not_false_eq_true, decide_true, get, ↓reduceIte]
      simpa [evict] using ih

/-! ### provenance invariant -/

/-- the transport a key's context names -/
def Key.transport (k : Key) : Transport := if k.ctx = [] then .dns53 else .doh

/-- the entry `e` stored under `k` is the answer to an upstream request of `log` made for exactly
the tuple `k`, over the transport that `k.ctx` names, at the clock value recorded in the entry -/
def Provenance (log : List Call) (k : Key) (e : Entry) : Prop :=
  ∃ c ∈ log, c.key = k ∧ c.resp = some e.msg ∧ c.time = e.time ∧ c.tr = k.transport

def Inv (s : State) : Prop := ∀ k e, (k, e) ∈ s.store → Provenance s.log k e

theorem Provenance.mono {log : List Call} {k : Key} {e : Entry} (c : Call)
    (h : Provenance log k e) : Provenance (c :: log) k e := by
  obtain ⟨c', hc, h'⟩ := h
  exact ⟨c', List.mem_cons_of_mem _ hc, h'⟩

theorem dohCtx_ne_nil (u : Url) : dohCtx u ≠ [] := by
  unfold dohCtx defaultUrl
  split <;> simp_all

theorem inv_dohUpstream (T : TTLFn) (cfg : Cfg) (s : State) (url' : Url) (q : Query) (t0 : Time)
    (st : Stale) (o : DohOut) (lat : Nat) (hu : url' ≠ []) (hs : Inv s) :
    Inv (dohUpstream T cfg s url' q t0 st o lat).1 := by
  intro k e hm
  unfold dohUpstream at hm ⊢
  cases o with
  | transportErr => exact (hs k e hm).mono _
  | status => exact (hs k e hm).mono _
  | body b readErr lm proto =>
    simp only at hm ⊢
    split at hm
    · rename_i hc
      rcases mem_add hm with h | h
      · injection h with h1 h2
        subst h1; subst h2
        refine ⟨_, List.mem_cons_self, ?_, ?_, rfl, ?_⟩
        · rfl
        · simp [hc.2.2.1]
        · simp [Key.transport, hu]
      · exact (hs k e h).mono _
    · exact (hs k e hm).mono _

theorem inv_dns53Upstream (T : TTLFn) (cfg : Cfg) (s : State) (q : Query) (t0 : Time)
    (st : Stale) (o : UdpOut) (hs : Inv s) :
    Inv (dns53Upstream T cfg s q t0 st o).1 := by
  intro k e hm
  unfold dns53Upstream at hm ⊢
  cases o with
  | dialErr => exact (hs k e hm).mono _
  | datagrams ds =>
    simp only at hm ⊢
    split at hm
    · exact (hs k e hm).mono _
    · rename_i m hp
      simp only at hm ⊢
      split at hm
      · rcases mem_add hm with h | h
        · injection h with h1 h2
          subst h1; subst h2
          exact ⟨_, List.mem_cons_self, rfl, rfl, rfl, by simp [Key.transport, dns53Key, dns53Ctx]⟩
        · exact (hs k e h).mono _
      · exact (hs k e hm).mono _

theorem inv_stepDoh (T : TTLFn) (cfg : Cfg) (s : State) (url : Url) (q : Query) (o : DohOut)
    (lat : Nat) (hs : Inv s) : Inv (stepDoh T cfg s url q o lat).1 := by
  unfold stepDoh
  simp only
  repeat' split
  all_goals first
    | exact hs
    | exact inv_dohUpstream _ _ _ _ _ _ _ _ _ (dohCtx_ne_nil url) hs

theorem inv_stepDns53 (T : TTLFn) (cfg : Cfg) (s : State) (q : Query) (o : UdpOut)
    (hs : Inv s) : Inv (stepDns53 T cfg s q o).1 := by
  unfold stepDns53
  simp only
  repeat' split
  all_goals first
    | exact hs
    | exact inv_dns53Upstream _ _ _ _ _ _ _ hs

theorem inv_step (T : TTLFn) (cfg : Cfg) (s : State) (op : Op) (hs : Inv s) :
    Inv (step T cfg s op).1 := by
  cases op with
  | doh url q o lat => exact inv_stepDoh T cfg s url q o lat hs
  | dns53 q o => exact inv_stepDns53 T cfg s q o hs
  | advance d => exact hs
  | evict k => intro k' e hm; exact hs k' e (mem_evict hm)
  | evictAll => intro k' e hm; simp [step] at hm
  | lateStore tr url q t m proto lm =>
    intro k e hm
    cases tr with
    | doh =>
      simp only [step] at hm ⊢
      rcases mem_add hm with h | h
      · injection h with h1 h2
        subst h1; subst h2
        exact ⟨_, List.mem_cons_self, rfl, rfl, rfl, by simp [Key.transport, dohCtx_ne_nil]⟩
      · exact (hs k e h).mono _
    | dns53 =>
      simp only [step] at hm ⊢
      rcases mem_add hm with h | h
      · injection h with h1 h2
        subst h1; subst h2
        exact ⟨_, List.mem_cons_self, rfl, rfl, rfl, by simp [Key.transport, dns53Key, dns53Ctx]⟩
      · exact (hs k e h).mono _

theorem inv_run (T : TTLFn) (cfg : Cfg) (ops : List Op) :
    ∀ s, Inv s → Inv (run T cfg s ops).1 := by
  induction ops with
  | nil => intro s hs; exact hs
  | cons op ops ih => intro s hs; exact ih _ (inv_step T cfg s op hs)

/-! ### the upstream half always contacts the upstream -/

theorem dohUpstream_up (T : TTLFn) (cfg : Cfg) (s : State) (url' : Url) (q : Query) (t0 : Time)
    (st : Stale) (o : DohOut) (lat : Nat) :
    ∃ c, (dohUpstream T cfg s url' q t0 st o lat).2.up = some c ∧ c.tr = .doh ∧ c.url = url' ∧
      c.q = q ∧ c.time = t0 := by
  unfold dohUpstream
  cases o <;> exact ⟨_, rfl, rfl, rfl, rfl, rfl⟩

theorem dns53Upstream_up (T : TTLFn) (cfg : Cfg) (s : State) (q : Query) (t0 : Time)
    (st : Stale) (o : UdpOut) :
    ∃ c, (dns53Upstream T cfg s q t0 st o).2.up = some c ∧ c.tr = .dns53 ∧ c.url = [] ∧
      c.q = q ∧ c.time = t0 := by
  unfold dns53Upstream
  cases o with
  | dialErr => exact ⟨_, rfl, rfl, rfl, rfl, rfl⟩
  | datagrams ds =>
    simp only
    split <;> exact ⟨_, rfl, rfl, rfl, rfl, rfl⟩


/-! ### hit / upstream case split of one resolution -/

/-- the stored entry `e` makes `DOH.resolve` return from the lookup block -/
def DohFresh (T : TTLFn) (cfg : Cfg) (s : State) (url : Url) (q : Query) (e : Entry) : Prop :=
  get s.store (dohKey url q) = some e ∧
  (T.adjusted e.msg cfg.bufLen q.id (age s.now e.time)).2 > 0 ∧ lastModOf s (dohCtx url) < e.time

/-- the stored entry `e` makes `DNS53.resolve` return from the lookup block -/
def Dns53Fresh (T : TTLFn) (cfg : Cfg) (s : State) (q : Query) (e : Entry) : Prop :=
  get s.store (dns53Key q) = some e ∧ (T.adjusted e.msg cfg.bufLen q.id (age s.now e.time)).2 > 0

theorem stepDoh_cases (T : TTLFn) (cfg : Cfg) (s : State) (url : Url) (q : Query) (o : DohOut) (lat : Nat) :
    (useCache cfg q = true ∧ ∃ e, DohFresh T cfg s url q e ∧
      stepDoh T cfg s url q o lat =
        (s, { reply := (T.adjusted e.msg cfg.bufLen q.id (age s.now e.time)).1, err := false,
              fromCache := true, trans := e.trans, up := none })) ∨
    ((¬ (useCache cfg q = true ∧ ∃ e, DohFresh T cfg s url q e)) ∧
      ∃ st, stepDoh T cfg s url q o lat =
        dohUpstream T cfg s (dohCtx url) q (if useCache cfg q then s.now else 0) st o lat) := by
  unfold stepDoh DohFresh
  by_cases hu : useCache cfg q = true
  · simp only [hu, ↓reduceIte, true_and]
    cases hg : get s.store (dohKey url q) with
    | none => right; simp; exact ⟨_, rfl⟩
    | some e =>
      simp only
      by_cases hc : (T.adjusted e.msg cfg.bufLen q.id (age s.now e.time)).2 > 0 ∧ lastModOf s (dohCtx url) < e.time
      · left; exact ⟨e, ⟨rfl, hc⟩, by simp [hc]⟩
      · right
        refine ⟨?_, ?_⟩
        · rintro ⟨e', he', hc'⟩
          injection he' with he'; subst he'; exact hc hc'
        · simp only [hc, ↓reduceIte]; exact ⟨_, rfl⟩
  · right
    simp [hu]
    exact ⟨_, rfl⟩

theorem stepDns53_cases (T : TTLFn) (cfg : Cfg) (s : State) (q : Query) (o : UdpOut) :
    (useCache cfg q = true ∧ ∃ e, Dns53Fresh T cfg s q e ∧
      stepDns53 T cfg s q o =
        (s, { reply := (T.adjusted e.msg cfg.bufLen q.id (age s.now e.time)).1, err := false,
              fromCache := true, trans := "UDP", up := none })) ∨
    ((¬ (useCache cfg q = true ∧ ∃ e, Dns53Fresh T cfg s q e)) ∧
      ∃ st, stepDns53 T cfg s q o =
        dns53Upstream T cfg s q (if useCache cfg q then s.now else 0) st o) := by
  unfold stepDns53 Dns53Fresh
  by_cases hu : useCache cfg q = true
  · simp only [hu, ↓reduceIte, true_and]
    cases hg : get s.store (dns53Key q) with
    | none => right; simp; exact ⟨_, rfl⟩
    | some e =>
      simp only
      by_cases hc : (T.adjusted e.msg cfg.bufLen q.id (age s.now e.time)).2 > 0
      · left; exact ⟨e, ⟨rfl, hc⟩, by simp [hc]⟩
      · right
        refine ⟨?_, ?_⟩
        · rintro ⟨e', he', hc'⟩
          injection he' with he'; subst he'; exact hc hc'
        · simp only [hc, ↓reduceIte]; exact ⟨_, rfl⟩
  · right
    simp [hu]
    exact ⟨_, rfl⟩

theorem useCache_iff (cfg : Cfg) (q : Query) : useCache cfg q = true ↔ q.type ≠ 12 ∧ cfg.cacheOn = true := by
  simp [useCache]


/-! ### the clock never runs behind a stored entry -/

def TimeInv (s : State) : Prop := ∀ k e, (k, e) ∈ s.store → e.time ≤ s.now

theorem dohUpstream_now (T : TTLFn) (cfg : Cfg) (s : State) (url' : Url) (q : Query) (t0 : Time)
    (st : Stale) (o : DohOut) (lat : Nat) :
    (dohUpstream T cfg s url' q t0 st o lat).1.now = s.now + lat := by
  unfold dohUpstream
  cases o with
  | transportErr => rfl
  | status => rfl
  | body b readErr lm proto => simp only; split <;> rfl

theorem dohUpstream_store (T : TTLFn) (cfg : Cfg) (s : State) (url' : Url) (q : Query) (t0 : Time)
    (st : Stale) (o : DohOut) (lat : Nat) (p : Key × Entry)
    (hm : p ∈ (dohUpstream T cfg s url' q t0 st o lat).1.store) : p ∈ s.store ∨ p.2.time = t0 := by
  unfold dohUpstream at hm
  cases o with
  | transportErr => exact .inl hm
  | status => exact .inl hm
  | body b readErr lm proto =>
    simp only at hm
    split at hm
    · rcases mem_add hm with h | h
      · right; rw [h]
      · exact .inl h
    · exact .inl hm

theorem dns53Upstream_now (T : TTLFn) (cfg : Cfg) (s : State) (q : Query) (t0 : Time)
    (st : Stale) (o : UdpOut) : (dns53Upstream T cfg s q t0 st o).1.now = s.now := by
  unfold dns53Upstream
  cases o with
  | dialErr => rfl
  | datagrams ds =>
    simp only
    split
    · rfl
    · simp only; split <;> rfl

theorem dns53Upstream_store (T : TTLFn) (cfg : Cfg) (s : State) (q : Query) (t0 : Time)
    (st : Stale) (o : UdpOut) (p : Key × Entry)
    (hm : p ∈ (dns53Upstream T cfg s q t0 st o).1.store) : p ∈ s.store ∨ p.2.time = t0 := by
  unfold dns53Upstream at hm
  cases o with
  | dialErr => exact .inl hm
  | datagrams ds =>
    simp only at hm
    split at hm
    · exact .inl hm
    · simp only at hm
      split at hm
      · rcases mem_add hm with h | h
        · right; rw [h]
        · exact .inl h
      · exact .inl hm

theorem timeInv_dohUpstream (T : TTLFn) (cfg : Cfg) (s : State) (url' : Url) (q : Query) (t0 : Time)
    (st : Stale) (o : DohOut) (lat : Nat) (ht : t0 ≤ s.now) (hs : TimeInv s) :
    TimeInv (dohUpstream T cfg s url' q t0 st o lat).1 := by
  intro k e hm
  rw [dohUpstream_now]
  rcases dohUpstream_store _ _ _ _ _ _ _ _ _ _ hm with h | h
  · exact Nat.le_trans (hs k e h) (Nat.le_add_right _ _)
  · simp only at h; rw [h]; exact Nat.le_trans ht (Nat.le_add_right _ _)

theorem timeInv_dns53Upstream (T : TTLFn) (cfg : Cfg) (s : State) (q : Query) (t0 : Time)
    (st : Stale) (o : UdpOut) (ht : t0 ≤ s.now) (hs : TimeInv s) :
    TimeInv (dns53Upstream T cfg s q t0 st o).1 := by
  intro k e hm
  rw [dns53Upstream_now]
  rcases dns53Upstream_store _ _ _ _ _ _ _ _ hm with h | h
  · exact hs k e h
  · simp only at h; rw [h]; exact ht

theorem timeInv_step (T : TTLFn) (cfg : Cfg) (s : State) (op : Op) (hs : TimeInv s) :
    TimeInv (step T cfg s op).1 := by
  cases op with
  | doh url q o lat =>
    rcases stepDoh_cases T cfg s url q o lat with ⟨_, e, _, heq⟩ | ⟨_, st, heq⟩
    · simp only [step]; rw [heq]; exact hs
    · simp only [step]; rw [heq]
      exact timeInv_dohUpstream _ _ _ _ _ _ _ _ _ (by split <;> simp) hs
  | dns53 q o =>
    rcases stepDns53_cases T cfg s q o with ⟨_, e, _, heq⟩ | ⟨_, st, heq⟩
    · simp only [step]; rw [heq]; exact hs
    · simp only [step]; rw [heq]
      exact timeInv_dns53Upstream _ _ _ _ _ _ _ (by split <;> simp) hs
  | advance d => intro k e hm; exact Nat.le_trans (hs k e hm) (Nat.le_add_right _ _)
  | evict k => intro k' e hm; exact hs k' e (mem_evict hm)
  | evictAll => intro k' e hm; simp [step] at hm
  | lateStore tr url q t m proto lm =>
    intro k e hm
    cases tr with
    | doh =>
      simp only [step] at hm ⊢
      rcases mem_add hm with h | h
      · injection h with h1 h2
        subst h2
        exact Nat.min_le_right _ _
      · exact hs k e h
    | dns53 =>
      simp only [step] at hm ⊢
      rcases mem_add hm with h | h
      · injection h with h1 h2
        subst h2
        exact Nat.min_le_right _ _
      · exact hs k e h

theorem timeInv_run (T : TTLFn) (cfg : Cfg) (ops : List Op) :
    ∀ s, TimeInv s → TimeInv (run T cfg s ops).1 := by
  induction ops with
  | nil => intro s hs; exact hs
  | cons op ops ih => intro s hs; exact ih _ (timeInv_step T cfg s op hs)

/-! ### text form of names -/

theorem append_dot_cancel : ∀ (a b x y : Bytes), (46 : UInt8) ∉ a → (46 : UInt8) ∉ b →
    a ++ 46 :: x = b ++ 46 :: y → a = b ∧ x = y := by
  intro a
  induction a with
  | nil =>
    intro b x y _ hb h
    cases b with
    | nil => simpa using h
    | cons c b =>
      simp only [List.nil_append, List.cons_append, List.cons.injEq] at h
      exact absurd (h.1 ▸ List.mem_cons_self) hb
  | cons c a ih =>
    intro b x y ha hb h
    cases b with
    | nil =>
      simp only [List.nil_append, List.cons_append, List.cons.injEq] at h
      exact absurd (h.1 ▸ List.mem_cons_self) ha
    | cons d b =>
      simp only [List.cons_append, List.cons.injEq] at h
      have ha' : (46 : UInt8) ∉ a := fun hh => ha (List.mem_cons_of_mem _ hh)
      have hb' : (46 : UInt8) ∉ b := fun hh => hb (List.mem_cons_of_mem _ hh)
      obtain ⟨h1, h2⟩ := ih b x y ha' hb' h.2
      exact ⟨by rw [h.1, h1], h2⟩

/-- labels as they occur on the wire: non-empty; "plain" = no byte is '.' -/
def PlainLabels (ls : List Bytes) : Prop := ∀ l ∈ ls, l ≠ [] ∧ (46 : UInt8) ∉ l

def joinDots (ls : List Bytes) : Bytes := ls.flatMap (fun l => l ++ [46])

theorem nameText_cons (l : Bytes) (ls : List Bytes) : nameText (l :: ls) = l ++ 46 :: joinDots ls := by
  simp [nameText, joinDots, List.flatMap_cons]

theorem joinDots_inj : ∀ (a b : List Bytes), PlainLabels a → PlainLabels b → joinDots a = joinDots b → a = b := by
  intro a
  induction a with
  | nil =>
    intro b _ hb h
    cases b with
    | nil => rfl
    | cons l ls => simp [joinDots, List.flatMap_cons] at h
  | cons l ls ih =>
    intro b ha hb h
    cases b with
    | nil => simp [joinDots, List.flatMap_cons] at h
    | cons m ms =>
      simp only [joinDots, List.flatMap_cons, List.append_assoc, List.singleton_append] at h
      have h1 := (ha l List.mem_cons_self).2
      have h2 := (hb m List.mem_cons_self).2
      obtain ⟨e1, e2⟩ := append_dot_cancel l m _ _ h1 h2 h
      have := ih ms (fun x hx => ha x (List.mem_cons_of_mem _ hx)) (fun x hx => hb x (List.mem_cons_of_mem _ hx)) e2
      rw [e1, this]

end NV.Cache
