/-
  NV.Lemmas.Profile — helper lemmas for Props/C11 (not property statements).
-/
import NV.Model.Profile
namespace NV.Prof
open NV

/-- an unconditional entry matches every client -/
theorem matchP_of_isDefault (p : Profile) (c : Client) (h : isDefault p = true) : matchP p c = true := by
  unfold isDefault at h
  simp only [Bool.and_eq_true, Option.isNone_iff_eq_none, beq_iff_eq] at h
  obtain ⟨⟨h1, h2⟩, h3⟩ := h
  unfold matchP
  simp [h1, h2, h3]

/-- a conditional entry never matches the nil client (no source, no destination, no MAC) -/
theorem matchP_nilClient (p : Profile) (h : matchP p nilClient = true) : isDefault p = true := by
  unfold matchP nilClient at h
  unfold isDefault
  cases hp : p.pfx with
  | some n => simp [hp] at h
  | none =>
    simp only [hp, Bool.not_true, Bool.false_eq_true, ↓reduceIte] at h
    by_cases hm : p.mac.length > 0
    · simp [hm] at h
    · by_cases hd : p.dest.length > 0
      · simp [hm, hd] at h
      · simp at hm hd; simp [hm, hd]

/-- the loop of `Get`, described: first matching conditional entry, else the last default seen, else
the incoming `def` -/
theorem getLoop_spec (ps : List Profile) (c : Client) (d : Bytes) :
    getLoop ps c d =
      match ps.find? (fun p => conditional p && matchP p c) with
      | some p => p.id
      | none =>
        match (ps.filter isDefault).getLast? with
        | some p => p.id
        | none => d := by
  induction ps generalizing d with
  | nil => simp [getLoop]
  | cons p ps ih =>
    unfold getLoop
    by_cases hdef : isDefault p = true
    · have hm := matchP_of_isDefault p c hdef
      simp only [hm, hdef, ↓reduceIte, conditional, Bool.not_true, Bool.false_and, Bool.false_eq_true,
        not_false_eq_true, List.find?_cons_of_neg, List.filter_cons_of_pos]
      rw [ih]
      cases hf : List.find? (fun p => conditional p && matchP p c) ps with
      | some q => simp [conditional] at hf ⊢; simp [hf]
      | none =>
        simp only [conditional] at hf
        simp only [hf]
        cases hl : (List.filter isDefault ps).getLast? with
        | none =>
          have : List.filter isDefault ps = [] := List.getLast?_eq_none_iff.mp hl
          simp [this]
        | some q =>
          have hne : List.filter isDefault ps ≠ [] := by
            intro e; rw [e] at hl; simp at hl
          rw [List.getLast?_cons_of_ne_nil hne] at *
          simp [hl]
    · simp only [Bool.not_eq_true] at hdef
      by_cases hm : matchP p c = true
      · simp [hm, hdef, conditional]
      · simp only [Bool.not_eq_true] at hm
        simp only [hm, Bool.false_eq_true, ↓reduceIte, conditional, hdef, Bool.not_false, Bool.and_false,
          not_false_eq_true, List.find?_cons_of_neg, List.filter_cons_of_neg]
        exact ih d

end NV.Prof
