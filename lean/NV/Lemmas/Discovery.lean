/-
  NV.Lemmas.Discovery — helper lemmas for C18 (not property statements):
  the string order, binary search on sorted lists, `appendUniq` as sorted insertion,
  association-list maps.
-/
import NV.Model.MDNS
namespace NV.Disc
open NV

/-! ### the string order -/

theorem strLt_irrefl (a : Str) : strLt a a = false := by
  induction a with
  | nil => rfl
  | cons x xs ih => simp [strLt, ih]

theorem strLt_trans : ∀ (a b c : Str), strLt a b = true → strLt b c = true → strLt a c = true := by
  intro a
  induction a with
  | nil =>
    intro b c h1 h2
    cases b with
    | nil => simp [strLt] at h1
    | cons y ys =>
      cases c with
      | nil => simp [strLt] at h2
      | cons z zs => simp [strLt]
  | cons x xs ih =>
    intro b c h1 h2
    cases b with
    | nil => simp [strLt] at h1
    | cons y ys =>
      cases c with
      | nil => simp [strLt] at h2
      | cons z zs =>
        simp only [strLt] at h1 h2 ⊢
        split at h1
        · split at h2
          · have : x.toNat < z.toNat := by omega
            simp [this]
          · split at h2
            · simp at h2
            · have : x.toNat < z.toNat := by omega
              simp [this]
        · split at h1
          · simp at h1
          · split at h2
            · have : x.toNat < z.toNat := by omega
              simp [this]
            · split at h2
              · simp at h2
              · have h3 : ¬ x.toNat < z.toNat := by omega
                have h4 : ¬ z.toNat < x.toNat := by omega
                simp [h3, h4]
                exact ih ys zs h1 h2

theorem strLt_total : ∀ (a b : Str), strLt a b = false → strLt b a = false → a = b := by
  intro a
  induction a with
  | nil =>
    intro b h1 h2
    cases b with
    | nil => rfl
    | cons y ys => simp [strLt] at h1
  | cons x xs ih =>
    intro b h1 h2
    cases b with
    | nil => simp [strLt] at h2
    | cons y ys =>
      simp only [strLt] at h1 h2
      split at h1
      · simp at h1
      · split at h1
        · rename_i h3 h4
          simp [h4] at h2
        · rename_i h3 h4
          simp [h3, h4] at h2
          have : x = y := UInt8.toNat_inj.mp (by omega)
          rw [this, ih ys h1 h2]

theorem strLt_asymm (a b : Str) (h : strLt a b = true) : strLt b a = false := by
  cases h2 : strLt b a with
  | false => rfl
  | true =>
    have := strLt_trans a b a h h2
    rw [strLt_irrefl] at this
    exact absurd this (by simp)

theorem strLt_ne (a b : Str) (h : strLt a b = true) : a ≠ b := by
  intro e
  subst e
  rw [strLt_irrefl] at h
  exact absurd h (by simp)

/-- strictly increasing = sorted and duplicate-free -/
def Sorted (l : List Str) : Prop := l.Pairwise fun a b => strLt a b = true

theorem Sorted.nodup {l : List Str} (h : Sorted l) : l.Nodup := by
  unfold Sorted at h
  exact h.imp (fun {a b} hab => strLt_ne a b hab)

/-! ### binary search -/

/-- index of the first element that is not `< x` -/
def lowerBound (set : List Str) (x : Str) : Nat := (set.takeWhile fun a => strLt a x).length

theorem lowerBound_le (set : List Str) (x : Str) : lowerBound set x ≤ set.length := by
  unfold lowerBound
  exact (List.takeWhile_sublist _).length_le

theorem lt_iff_lt_lowerBound : ∀ (set : List Str) (x : Str), Sorted set → ∀ h, h < set.length →
    (strLt (set.getD h []) x = true ↔ h < lowerBound set x) := by
  intro set x
  induction set with
  | nil => intro _ h hh; simp at hh
  | cons a t ih =>
    intro hs h hh
    have hs' := List.pairwise_cons.mp hs
    unfold lowerBound
    cases hax : strLt a x with
    | true =>
      simp only [List.takeWhile_cons, hax, ↓reduceIte, List.length_cons]
      cases h with
      | zero => simp [hax]
      | succ h' =>
        simp only [List.getD_cons_succ]
        have := ih hs'.2 h' (by simpa using hh)
        unfold lowerBound at this
        rw [this]; omega
    | false =>
      simp only [List.takeWhile_cons, hax]
      simp only [Bool.false_eq_true, ↓reduceIte, List.length_nil, Nat.not_lt_zero, iff_false]
      cases h with
      | zero => simp [hax]
      | succ h' =>
        simp only [List.getD_cons_succ]
        intro hlt
        have hmem : t.getD h' [] ∈ t := by
          have : h' < t.length := by simpa using hh
          rw [List.getD_eq_getElem?_getD, List.getElem?_eq_getElem this]
          simp
        have h1 := hs'.1 _ hmem
        have := strLt_trans _ _ _ h1 hlt
        rw [hax] at this
        exact absurd this (by simp)

theorem searchGo_eq (f : Nat → Bool) (L : Nat) : ∀ (fuel i j : Nat),
    (∀ h, i ≤ h → h < j → (f h = false ↔ h < L)) → i ≤ L → L ≤ j → j - i ≤ fuel →
    searchGo f fuel i j = L := by
  intro fuel
  induction fuel with
  | zero => intro i j _ h1 h2 h3; simp [searchGo]; omega
  | succ n ih =>
    intro i j hf h1 h2 h3
    simp only [searchGo]
    split
    · rename_i hij
      have hh1 : i ≤ (i + j) / 2 := by omega
      have hh2 : (i + j) / 2 < j := by omega
      have := hf ((i + j) / 2) hh1 hh2
      cases hfh : f ((i + j) / 2) with
      | false =>
        simp only [Bool.not_false, ↓reduceIte]
        have hl := this.mp hfh
        exact ih _ _ (fun h a b => hf h (by omega) b) (by omega) h2 (by omega)
      | true =>
        simp only [Bool.not_true, Bool.false_eq_true, ↓reduceIte]
        have hl : ¬ (i + j) / 2 < L := fun c => by
          have := this.mpr c
          rw [hfh] at this
          exact absurd this (by simp)
        exact ih _ _ (fun h a b => hf h a (by omega)) h1 (by omega) (by omega)
    · omega

theorem searchStrings_sorted (set : List Str) (x : Str) (hs : Sorted set) :
    searchStrings set x = lowerBound set x := by
  unfold searchStrings
  apply searchGo_eq
  · intro h _ hh
    have := lt_iff_lt_lowerBound set x hs h hh
    rw [← this]
    cases strLt (set.getD h []) x <;> simp
  · omega
  · exact lowerBound_le set x
  · omega

/-! ### appendUniq as sorted insertion -/

theorem copyShift_cons (a : Str) (s : List Str) (k : Nat) :
    copyShift (a :: s) (k + 1) = a :: copyShift s k := by
  simp [copyShift]

theorem copyShift_insert : ∀ (set : List Str) (pos : Nat) (e x : Str), pos ≤ set.length →
    (copyShift (set ++ [e]) pos).set pos x = set.take pos ++ x :: set.drop pos := by
  intro set
  induction set with
  | nil => intro pos e x h; simp at h; subst h; simp [copyShift]
  | cons a t ih =>
    intro pos e x h
    cases pos with
    | zero =>
      simp [copyShift]
    | succ p =>
      rw [List.cons_append, copyShift_cons]
      simp only [List.set_cons_succ, List.take_succ_cons, List.drop_succ_cons, List.cons_append]
      rw [ih p e x (by simpa using h)]

/-- insertion into a sorted duplicate-free list (the specification of `appendUniq(set, x)`) -/
def insertSorted (x : Str) : List Str → List Str
  | [] => [x]
  | a :: t => if strLt a x then a :: insertSorted x t else if a = x then a :: t else x :: a :: t

theorem insertAt_lowerBound (x : Str) : ∀ (set : List Str),
    (if lowerBound set x < set.length ∧ set.getD (lowerBound set x) [] = x then set
     else set.take (lowerBound set x) ++ x :: set.drop (lowerBound set x)) = insertSorted x set := by
  intro set
  induction set with
  | nil => simp [lowerBound, insertSorted]
  | cons a t ih =>
    unfold lowerBound at *
    cases hax : strLt a x with
    | true =>
      simp only [List.takeWhile_cons, hax, ↓reduceIte, List.length_cons, List.getD_cons_succ,
        Nat.add_lt_add_iff_right, List.take_succ_cons, List.drop_succ_cons, List.cons_append, insertSorted]
      rw [← ih]
      split <;> simp
    | false =>
      simp only [List.takeWhile_cons, hax, insertSorted]
      simp

theorem appendUniq1_eq_insertSorted (set : List Str) (x : Str) (hs : Sorted set) :
    appendUniq1 set x = insertSorted x set := by
  unfold appendUniq1 appendUniq
  simp only [appendUniqG]
  rw [searchStrings_sorted set x hs, ← insertAt_lowerBound]
  split
  · rfl
  · rw [copyShift_insert _ _ _ _ (lowerBound_le set x)]

theorem mem_insertSorted (x y : Str) : ∀ (set : List Str), y ∈ insertSorted x set ↔ y = x ∨ y ∈ set := by
  intro set
  induction set with
  | nil => simp [insertSorted]
  | cons a t ih =>
    simp only [insertSorted]
    split
    · simp [ih]; constructor <;> (intro h; rcases h with h | h | h <;> simp [h])
    · split
      · rename_i h; subst h; simp
      · simp

theorem sorted_insertSorted (x : Str) : ∀ (set : List Str), Sorted set → Sorted (insertSorted x set) := by
  intro set
  induction set with
  | nil => intro _; simp [insertSorted, Sorted]
  | cons a t ih =>
    intro hs
    have hs' := List.pairwise_cons.mp hs
    simp only [insertSorted]
    split
    · rename_i hax
      apply List.pairwise_cons.mpr
      refine ⟨?_, ih hs'.2⟩
      intro y hy
      rcases (mem_insertSorted x y t).mp hy with h | h
      · subst h; exact hax
      · exact hs'.1 y h
    · split
      · exact hs
      · rename_i h1 h2
        have hxa : strLt x a = true := by
          cases h : strLt x a with
          | true => rfl
          | false => exact absurd (strLt_total a x (by simpa using h1) h) h2
        apply List.pairwise_cons.mpr
        refine ⟨?_, hs⟩
        intro y hy
        rcases List.mem_cons.mp hy with h | h
        · subst h; exact hxa
        · exact strLt_trans _ _ _ hxa (hs'.1 y h)

/-! ### association-list maps -/

theorem mget_mdel {V : Type} (m : List (Str × V)) (k k' : Str) :
    mget (mdel m k') k = if k = k' then none else mget m k := by
  unfold mget mdel
  induction m with
  | nil => simp
  | cons p t ih =>
    obtain ⟨a, b⟩ := p
    simp only [List.filter_cons]
    by_cases hak : a = k'
    · subst hak
      simp only [beq_self_eq_true, Bool.not_true, Bool.false_eq_true, ↓reduceIte, ih]
      by_cases hk : k = a
      · simp [hk]
      · have : (k == a) = false := by simpa using hk
        simp [hk, List.lookup_cons, this]
    · have : (a == k') = false := by simpa using hak
      simp only [this, Bool.not_false, ↓reduceIte, List.lookup_cons, ih]
      by_cases hk : k = a
      · subst hk; simp [hak]
      · have : (k == a) = false := by simpa using hk
        simp [this]

theorem mget_mset {V : Type} (m : List (Str × V)) (k k' : Str) (v : V) :
    mget (mset m k' v) k = if k = k' then some v else mget m k := by
  unfold mset
  show List.lookup k ((k', v) :: mdel m k') = _
  rw [List.lookup_cons]
  by_cases hk : k = k'
  · subst hk; simp
  · have : (k == k') = false := by simpa using hk
    have h2 := mget_mdel m k k'
    unfold mget at h2
    simp [this, hk, h2, mget]

theorem Tbl.get_mset (m : Tbl) (k k' : Str) (v : List Str) :
    Tbl.get (mset m k' v) k = if k = k' then v else m.get k := by
  unfold Tbl.get
  rw [mget_mset]
  split <;> simp

def keys {V : Type} (m : List (Str × V)) : List Str := m.map (·.1)

theorem mem_keys_mdel {V : Type} (m : List (Str × V)) (k k' : Str) :
    k ∈ keys (mdel m k') ↔ k ∈ keys m ∧ k ≠ k' := by
  unfold keys mdel
  simp only [List.mem_map, List.mem_filter]
  constructor
  · rintro ⟨p, ⟨hp, hne⟩, rfl⟩
    exact ⟨⟨p, hp, rfl⟩, by simpa using hne⟩
  · rintro ⟨⟨p, hp, rfl⟩, hne⟩
    exact ⟨p, ⟨hp, by simpa using hne⟩, rfl⟩

theorem keys_mdel_nodup {V : Type} (m : List (Str × V)) (k : Str) (h : (keys m).Nodup) :
    (keys (mdel m k)).Nodup := by
  unfold keys mdel at *
  exact h.sublist ((List.filter_sublist).map _)

theorem keys_mset_nodup {V : Type} (m : List (Str × V)) (k : Str) (v : V) (h : (keys m).Nodup) :
    (keys (mset m k v)).Nodup := by
  unfold mset
  show ((k :: keys (mdel m k))).Nodup
  apply List.nodup_cons.mpr
  refine ⟨?_, keys_mdel_nodup m k h⟩
  intro hm
  exact ((mem_keys_mdel m k k).mp hm).2 rfl

theorem mget_isSome_of_mem_keys {V : Type} (m : List (Str × V)) (k : Str) (h : k ∈ keys m) :
    (mget m k).isSome := by
  unfold mget keys at *
  induction m with
  | nil => simp at h
  | cons p t ih =>
    obtain ⟨a, b⟩ := p
    rw [List.lookup_cons]
    by_cases hk : k = a
    · subst hk; simp
    · have : (k == a) = false := by simpa using hk
      simp only [this]
      apply ih
      simpa [hk] using h

theorem mem_of_mget {V : Type} (m : List (Str × V)) (k : Str) (v : V) (h : mget m k = some v) :
    (k, v) ∈ m := by
  unfold mget at h
  induction m with
  | nil => simp at h
  | cons p t ih =>
    obtain ⟨a, b⟩ := p
    rw [List.lookup_cons] at h
    by_cases hk : k = a
    · subst hk; simp at h; subst h; simp
    · have : (k == a) = false := by simpa using hk
      simp only [this] at h
      exact List.mem_cons_of_mem _ (ih h)

theorem mget_of_mem {V : Type} (m : List (Str × V)) (k : Str) (v : V) (hn : (keys m).Nodup)
    (h : (k, v) ∈ m) : mget m k = some v := by
  unfold mget keys at *
  induction m with
  | nil => simp at h
  | cons p t ih =>
    obtain ⟨a, b⟩ := p
    rw [List.lookup_cons]
    simp only [List.map_cons, List.nodup_cons] at hn
    rcases List.mem_cons.mp h with h | h
    · simp at h; obtain ⟨rfl, rfl⟩ := h; simp
    · have hk : k ≠ a := by
        intro e
        exact hn.1 (List.mem_map.mpr ⟨(k, v), h, e⟩)
      have : (k == a) = false := by simpa using hk
      simp only [this]
      exact ih hn.2 h

theorem length_mdel_of_mem {V : Type} (m : List (Str × V)) (k : Str) (hn : (keys m).Nodup)
    (h : k ∈ keys m) : (mdel m k).length + 1 = m.length := by
  unfold keys mdel at *
  induction m with
  | nil => simp at h
  | cons p t ih =>
    obtain ⟨a, b⟩ := p
    simp only [List.map_cons, List.nodup_cons] at hn
    simp only [List.filter_cons]
    by_cases hk : a = k
    · subst hk
      simp only [beq_self_eq_true, Bool.not_true, Bool.false_eq_true, ↓reduceIte, List.length_cons]
      have : List.filter (fun p => !(p.1 == a)) t = t := by
        apply List.filter_eq_self.mpr
        intro p hp
        have : p.1 ≠ a := fun e => hn.1 (List.mem_map.mpr ⟨p, hp, e⟩)
        simpa using this
      rw [this]
    · have : (a == k) = false := by simpa using hk
      simp only [this, Bool.not_false, ↓reduceIte, List.length_cons]
      have hm : k ∈ List.map (fun x => x.1) t := by
        simp only [List.map_cons, List.mem_cons] at h
        rcases h with h | h
        · exact absurd h.symm hk
        · exact h
      have := ih hn.2 hm
      omega

theorem length_mdel_le {V : Type} (m : List (Str × V)) (k : Str) : (mdel m k).length ≤ m.length := by
  unfold mdel; exact List.length_filter_le _ _

/-! ### tables built by `append` (hosts) -/

def pushAll (m : Tbl) (ps : List (Str × Str)) : Tbl := ps.foldl (fun m p => m.push p.1 p.2) m

theorem get_pushAll (ps : List (Str × Str)) : ∀ (m : Tbl) (k : Str),
    (pushAll m ps).get k = m.get k ++ ps.filterMap fun p => if p.1 = k then some p.2 else none := by
  induction ps with
  | nil => intro m k; simp [pushAll]
  | cons p t ih =>
    intro m k
    have := ih (m.push p.1 p.2) k
    unfold pushAll at this ⊢
    simp only [List.foldl_cons, List.filterMap_cons]
    rw [this]
    unfold Tbl.push
    rw [Tbl.get_mset]
    by_cases h : k = p.1
    · subst h; simp
    · have h' : ¬ p.1 = k := fun e => h e.symm
      simp [h, h']

theorem foldl_flatMap' {α β γ : Type} (f : γ → β → γ) (g : α → List β) : ∀ (l : List α) (init : γ),
    (l.flatMap g).foldl f init = l.foldl (fun acc x => (g x).foldl f acc) init := by
  intro l
  induction l with
  | nil => intro _; rfl
  | cons a t ih => intro init; simp [List.flatMap_cons, List.foldl_append, ih]

theorem hostsLine_eq (canonIP : Str → Option Str) (t : HostsTbl) (line : Bytes) :
    hostsLine canonIP t line = (hostsLinePairs canonIP line).foldl (fun t p => hostsAdd p.1 t p.2) t := by
  unfold hostsLine hostsLinePairs
  generalize fields (stripComment line) = flds
  match flds with
  | [] => simp
  | [_] => simp
  | f0 :: f1 :: rest =>
    simp only [List.length_cons, List.headD_cons, List.tail_cons]
    have : ¬ (rest.length + 1 + 1 < 2) := by omega
    simp only [this, ↓reduceIte]
    cases parseLiteralIP canonIP f0 with
    | none => simp
    | some addr => simp [List.foldl_map]

theorem hostsFold_names (ps : List (Str × Str)) : ∀ (t : HostsTbl),
    (ps.foldl (fun t p => hostsAdd p.1 t p.2) t).names
      = pushAll t.names (ps.map fun p => (absName (lower p.2), p.1)) := by
  induction ps with
  | nil => intro t; rfl
  | cons p r ih => intro t; simp only [List.foldl_cons, List.map_cons, pushAll] at *; rw [ih]; rfl

theorem hostsFold_addrs (ps : List (Str × Str)) : ∀ (t : HostsTbl),
    (ps.foldl (fun t p => hostsAdd p.1 t p.2) t).addrs
      = pushAll t.addrs (ps.map fun p => (p.1, absName p.2)) := by
  induction ps with
  | nil => intro t; rfl
  | cons p r ih => intro t; simp only [List.foldl_cons, List.map_cons, pushAll] at *; rw [ih]; rfl

/-- the `(address, name)` pairs written in a hosts file, in file order -/
def hostsPairs (canonIP : Str → Option Str) (content : Bytes) : List (Str × Str) :=
  (splitLines content).flatMap (hostsLinePairs canonIP)

theorem hostsLines_eq (canonIP : Str → Option Str) (content : Bytes) :
    (splitLines content).foldl (hostsLine canonIP) {}
      = (hostsPairs canonIP content).foldl (fun t p => hostsAdd p.1 t p.2) {} := by
  unfold hostsPairs
  rw [foldl_flatMap']
  congr 1
  funext t line
  exact hostsLine_eq canonIP t line

theorem get_hostsDefaults (n : Tbl) (k : Str) :
    (hostsDefaults n).get k = if k ∈ localhostKeys ∧ (n.get k).length = 0 then localhostAddrs else n.get k := by
  have hne : lhKey1 ≠ lhKey2 := by decide
  unfold hostsDefaults localhostKeys
  simp only [List.foldl_cons, List.foldl_nil, List.mem_cons, List.not_mem_nil, or_false]
  generalize lhKey1 = a at *
  generalize lhKey2 = b at *
  by_cases h1 : (n.get a).length = 0 <;> by_cases h2 : (n.get b).length = 0 <;>
    by_cases hk1 : k = a <;> by_cases hk2 : k = b <;>
    simp_all [Tbl.get_mset, Ne.symm hne]

/-! ### tables built by `appendUniq` (leases, Merlin, mDNS values) -/

def pushUAll (m : Tbl) (ps : List (Str × Str)) : Tbl := ps.foldl (fun m p => m.pushU p.1 p.2) m

def AllSorted (m : Tbl) : Prop := ∀ k, Sorted (m.get k)

theorem allSorted_nil : AllSorted [] := by
  intro k; simp [Tbl.get, mget, Sorted]

theorem pushU_spec (m : Tbl) (k v : Str) (hs : AllSorted m) :
    AllSorted (m.pushU k v) ∧
    ∀ k' v', v' ∈ (m.pushU k v).get k' ↔ v' ∈ m.get k' ∨ (k' = k ∧ v' = v) := by
  constructor
  · intro k'
    unfold Tbl.pushU
    rw [Tbl.get_mset]
    split
    · rw [appendUniq1_eq_insertSorted _ _ (hs k)]
      exact sorted_insertSorted _ _ (hs k)
    · exact hs k'
  · intro k' v'
    unfold Tbl.pushU
    rw [Tbl.get_mset]
    split
    · rename_i h; subst h
      rw [appendUniq1_eq_insertSorted _ _ (hs k'), mem_insertSorted]
      constructor
      · rintro (h | h)
        · exact Or.inr ⟨rfl, h⟩
        · exact Or.inl h
      · rintro (h | ⟨_, h⟩)
        · exact Or.inr h
        · exact Or.inl h
    · rename_i h; simp [h]

theorem pushUAll_spec (ps : List (Str × Str)) : ∀ (m : Tbl), AllSorted m →
    AllSorted (pushUAll m ps) ∧
    ∀ k v, v ∈ (pushUAll m ps).get k ↔ v ∈ m.get k ∨ (k, v) ∈ ps := by
  induction ps with
  | nil => intro m hs; exact ⟨hs, by simp [pushUAll]⟩
  | cons p t ih =>
    intro m hs
    have h1 := pushU_spec m p.1 p.2 hs
    have h2 := ih (m.pushU p.1 p.2) h1.1
    unfold pushUAll at h2 ⊢
    simp only [List.foldl_cons]
    refine ⟨h2.1, ?_⟩
    intro k v
    rw [h2.2 k v, h1.2 k v]
    simp only [List.mem_cons]
    constructor
    · rintro ((h | ⟨rfl, rfl⟩) | h)
      · exact Or.inl h
      · exact Or.inr (Or.inl rfl)
      · exact Or.inr (Or.inr h)
    · rintro (h | h | h)
      · exact Or.inl (Or.inl h)
      · exact Or.inl (Or.inr (by cases h; exact ⟨rfl, rfl⟩))
      · exact Or.inr h

/-! ### lease readers -/

/-- the two keys under which a lease name is filed: the folded name and its `.local` alias -/
def namePairs (key ip : Str) : List (Str × Str) := [(key, ip), (key ++ localSuffix, ip)]

/-- table updates for one dnsmasq record `(mac, ip, name)` -/
def dnsmasqApply (t : LeaseTbl) (r : Str × Str × Str) : LeaseTbl :=
  { macs := t.macs.pushU r.1 r.2.2,
    addrs := t.addrs.pushU r.2.1 r.2.2,
    names := (t.names.pushU (lower r.2.2) r.2.1).pushU (lower r.2.2 ++ localSuffix) r.2.1 }

theorem dnsmasqLine_eq (t : LeaseTbl) (line : Bytes) :
    dnsmasqLine t line = match dnsmasqRec line with
      | none => t
      | some r => dnsmasqApply t r := by
  unfold dnsmasqLine dnsmasqRec
  generalize fields line = flds
  match flds with
  | [] => simp
  | [_] => simp
  | [_, _] => simp
  | [_, _, _] => simp
  | [_, _, _, _] => simp
  | f0 :: f1 :: f2 :: f3 :: f4 :: rest =>
    simp only [List.length_cons, List.getD_cons_succ, List.getD_cons_zero]
    have : rest.length + 1 + 1 + 1 + 1 + 1 ≥ 5 := by omega
    simp only [this, ↓reduceIte]
    split <;> simp [dnsmasqApply]

/-- the records of a dnsmasq lease file, in file order -/
def dnsmasqRecs (content : Bytes) : List (Str × Str × Str) := (splitLines content).filterMap dnsmasqRec

theorem dnsmasqFold (lines : List Bytes) : ∀ (t : LeaseTbl),
    lines.foldl dnsmasqLine t = (lines.filterMap dnsmasqRec).foldl dnsmasqApply t := by
  induction lines with
  | nil => intro t; rfl
  | cons l r ih =>
    intro t
    simp only [List.foldl_cons, List.filterMap_cons]
    rw [dnsmasqLine_eq]
    cases dnsmasqRec l with
    | none => simp [ih]
    | some x => simp [ih]

theorem dnsmasqApply_macs (rs : List (Str × Str × Str)) : ∀ (t : LeaseTbl),
    (rs.foldl dnsmasqApply t).macs = pushUAll t.macs (rs.map fun r => (r.1, r.2.2)) := by
  induction rs with
  | nil => intro t; rfl
  | cons p r ih => intro t; simp only [List.foldl_cons, List.map_cons, pushUAll] at *; rw [ih]; rfl

theorem dnsmasqApply_addrs (rs : List (Str × Str × Str)) : ∀ (t : LeaseTbl),
    (rs.foldl dnsmasqApply t).addrs = pushUAll t.addrs (rs.map fun r => (r.2.1, r.2.2)) := by
  induction rs with
  | nil => intro t; rfl
  | cons p r ih => intro t; simp only [List.foldl_cons, List.map_cons, pushUAll] at *; rw [ih]; rfl

theorem dnsmasqApply_names (rs : List (Str × Str × Str)) : ∀ (t : LeaseTbl),
    (rs.foldl dnsmasqApply t).names
      = pushUAll t.names (rs.flatMap fun r => namePairs (lower r.2.2) r.2.1) := by
  induction rs with
  | nil => intro t; rfl
  | cons p r ih =>
    intro t
    simp only [List.foldl_cons, List.flatMap_cons, pushUAll, List.foldl_append] at *
    rw [ih]; rfl

/-- a block of an ISC dhcpd lease file at its closing brace: `(name, ip, mac)` as parsed -/
structure DBlock where
  name : Str
  ip : Str
  mac : Str

/-- `readDHCPDLease` without the tables: the blocks closed so far -/
structure DhcpdSpecSt where
  name : Str := []
  ip : Str := []
  mac : Str := []
  blocks : List DBlock := []

def dhcpdSpecLine (s : DhcpdSpecSt) (line : Bytes) : DhcpdSpecSt :=
  let r := dhcpdLine { name := s.name, ip := s.ip, mac := s.mac } line
  if line.head? = some 125 then { name := [], ip := [], mac := [], blocks := s.blocks ++ [⟨s.name, s.ip, s.mac⟩] }
  else { name := r.name, ip := r.ip, mac := r.mac, blocks := s.blocks }

/-- the closed blocks of an ISC dhcpd lease file, in file order -/
def dhcpdBlocks (content : Bytes) : List DBlock := ((splitLines content).foldl dhcpdSpecLine {}).blocks

def dhcpdApply (t : LeaseTbl) (b : DBlock) : LeaseTbl := dhcpdClose b.name b.ip b.mac t

theorem dhcpdLine_fields (s : DhcpdSt) (line : Bytes) (h : line.head? ≠ some 125) :
    (dhcpdLine s line).t = s.t ∧
    (dhcpdLine s line).name = (dhcpdLine { name := s.name, ip := s.ip, mac := s.mac } line).name ∧
    (dhcpdLine s line).ip = (dhcpdLine { name := s.name, ip := s.ip, mac := s.mac } line).ip ∧
    (dhcpdLine s line).mac = (dhcpdLine { name := s.name, ip := s.ip, mac := s.mac } line).mac := by
  unfold dhcpdLine
  simp only [h, ↓reduceIte]
  split
  · simp
  · split
    · simp
    · split
      · split <;> simp
      · split <;> simp

theorem dhcpdFold (lines : List Bytes) : ∀ (s : DhcpdSt) (sp : DhcpdSpecSt) (t0 : LeaseTbl),
    s.name = sp.name → s.ip = sp.ip → s.mac = sp.mac → s.t = sp.blocks.foldl dhcpdApply t0 →
    (lines.foldl dhcpdLine s).t = (lines.foldl dhcpdSpecLine sp).blocks.foldl dhcpdApply t0 := by
  induction lines with
  | nil => intro s sp t0 _ _ _ h; simpa using h
  | cons l r ih =>
    intro s sp t0 h1 h2 h3 h4
    simp only [List.foldl_cons]
    by_cases hl : l.head? = some 125
    · apply ih
      · simp [dhcpdLine, dhcpdSpecLine, hl]
      · simp [dhcpdLine, dhcpdSpecLine, hl]
      · simp [dhcpdLine, dhcpdSpecLine, hl]
      · simp [dhcpdLine, dhcpdSpecLine, hl, List.foldl_append, dhcpdApply, h1, h2, h3, h4]
    · have hf := dhcpdLine_fields s l hl
      apply ih
      · simp [dhcpdSpecLine, hl, hf.2.1, h1, h2, h3]
      · simp [dhcpdSpecLine, hl, hf.2.2.1, h1, h2, h3]
      · simp [dhcpdSpecLine, hl, hf.2.2.2, h1, h2, h3]
      · simp [dhcpdSpecLine, hl, hf.1, h4]

/-- pairs a closed block contributes to the name table -/
def dblockNamePairs (b : DBlock) : List (Str × Str) :=
  if b.name ≠ [] ∧ b.ip ≠ [] then namePairs (absName (lower (absName b.name))) b.ip else []
def dblockAddrPairs (b : DBlock) : List (Str × Str) :=
  if b.name ≠ [] ∧ b.ip ≠ [] then [(b.ip, absName b.name)] else []
def dblockMacPairs (b : DBlock) : List (Str × Str) :=
  if b.name ≠ [] ∧ b.mac ≠ [] then [(b.mac, absName b.name)] else []

theorem dhcpdApply_tables (b : DBlock) (t : LeaseTbl) :
    (dhcpdApply t b).names = pushUAll t.names (dblockNamePairs b) ∧
    (dhcpdApply t b).addrs = pushUAll t.addrs (dblockAddrPairs b) ∧
    (dhcpdApply t b).macs = pushUAll t.macs (dblockMacPairs b) := by
  unfold dhcpdApply dhcpdClose dblockNamePairs dblockAddrPairs dblockMacPairs namePairs pushUAll
  by_cases h1 : b.name = [] <;> by_cases h2 : b.ip = [] <;> by_cases h3 : b.mac = [] <;> simp [h1, h2, h3]

theorem dhcpdApply_fold (bs : List DBlock) : ∀ (t : LeaseTbl),
    (bs.foldl dhcpdApply t).names = pushUAll t.names (bs.flatMap dblockNamePairs) ∧
    (bs.foldl dhcpdApply t).addrs = pushUAll t.addrs (bs.flatMap dblockAddrPairs) ∧
    (bs.foldl dhcpdApply t).macs = pushUAll t.macs (bs.flatMap dblockMacPairs) := by
  induction bs with
  | nil => intro t; simp [pushUAll]
  | cons b r ih =>
    intro t
    have h := dhcpdApply_tables b t
    have := ih (dhcpdApply t b)
    simp only [List.foldl_cons, List.flatMap_cons]
    unfold pushUAll at *
    simp only [List.foldl_append]
    rw [this.1, this.2.1, this.2.2, h.1, h.2.1, h.2.2]
    exact ⟨rfl, rfl, rfl⟩

end NV.Disc
