/-
  NV.Lemmas.Router — helper lemmas for NV.Props.C20 (association lists, shim commands, nvram loops,
  template execution).  Not counted as property obligations.
-/
import NV.Model.Router
namespace NV.Router
open NV NV.Tmpl

/-! ### association lists -/
section alist
variable {β : Type}

@[simp] theorem aget_aset_self (m : List (Bytes × β)) (k : Bytes) (v : β) : aget (aset m k v) k = some v := by
  induction m with
  | nil => simp [aset, aget]
  | cons p r ih =>
    obtain ⟨k', v'⟩ := p
    by_cases h : k' = k <;> simp [aset, aget, h, ih]

theorem aget_aset_ne (m : List (Bytes × β)) (k k' : Bytes) (v : β) (h : k ≠ k') : aget (aset m k v) k' = aget m k' := by
  induction m with
  | nil => simp [aset, aget, h]
  | cons p r ih =>
    obtain ⟨k2, v2⟩ := p
    by_cases h2 : k2 = k
    · subst h2; simp [aset, aget, h]
    · by_cases h3 : k2 = k'
      · subst h3; simp [aset, aget, h2]
      · simp [aset, aget, h2, h3, ih]

@[simp] theorem aget_adel_self (m : List (Bytes × β)) (k : Bytes) : aget (adel m k) k = none := by
  induction m with
  | nil => simp [adel, aget]
  | cons p r ih =>
    obtain ⟨k', v'⟩ := p
    by_cases h : k' = k <;> simp [adel, aget, h, ih]

theorem aget_adel_ne (m : List (Bytes × β)) (k k' : Bytes) (h : k ≠ k') : aget (adel m k) k' = aget m k' := by
  induction m with
  | nil => simp [adel, aget]
  | cons p r ih =>
    obtain ⟨k2, v2⟩ := p
    by_cases h2 : k2 = k
    · subst h2
      have : ¬ k2 = k' := h
      simp [adel, aget, this, ih]
    · by_cases h3 : k2 = k'
      · subst h3; simp [adel, aget, h2]
      · simp [adel, aget, h2, h3, ih]

theorem aget_aset (m : List (Bytes × β)) (k k' : Bytes) (v : β) :
    aget (aset m k v) k' = if k = k' then some v else aget m k' := by
  by_cases h : k = k'
  · subst h; simp
  · simp [h, aget_aset_ne m k k' v h]

theorem aget_adel (m : List (Bytes × β)) (k k' : Bytes) :
    aget (adel m k) k' = if k = k' then none else aget m k' := by
  by_cases h : k = k'
  · subst h; simp
  · simp [h, aget_adel_ne m k k' h]

end alist

/-! ### commands other than uci/nvram only restart dnsmasq -/

theorem restartNow_files (s : Sys) : (restartNow s).files = s.files := rfl
theorem restartNow_view (s : Sys) : (restartNow s).view = some (snapOf (restartNow s)) := rfl

theorem execBase_preserves (argv : List Bytes) (s : Sys) :
    (execBase argv s).2.files = s.files ∧ (execBase argv s).2.uciC = s.uciC ∧ (execBase argv s).2.uciS = s.uciS ∧
    (execBase argv s).2.nvL = s.nvL ∧ (execBase argv s).2.nvC = s.nvC := by
  unfold execBase
  repeat' split
  all_goals simp [restartNow]

theorem execCmd_preserves (argv : List Bytes) (s : Sys) :
    (execCmd argv s).2.files = s.files ∧ (execCmd argv s).2.uciC = s.uciC ∧ (execCmd argv s).2.uciS = s.uciS ∧
    (execCmd argv s).2.nvL = s.nvL ∧ (execCmd argv s).2.nvC = s.nvC := by
  unfold execCmd
  split
  · split <;> exact execBase_preserves _ _
  · simp

theorem runCmds_preserves (cs : List (List Bytes)) (s : Sys) :
    (runCmds cs s).2.files = s.files ∧ (runCmds cs s).2.uciC = s.uciC ∧ (runCmds cs s).2.uciS = s.uciS ∧
    (runCmds cs s).2.nvL = s.nvL ∧ (runCmds cs s).2.nvC = s.nvC := by
  induction cs generalizing s with
  | nil => simp [runCmds]
  | cons c cs ih =>
    unfold runCmds
    have h := execCmd_preserves c s
    by_cases hc : (execCmd c s).1
    · simp only [hc, if_true]
      have := ih (execCmd c s).2
      simp_all
    · simp only [hc]
      simpa using h

/-! ### snapshots depend only on (files, committed uci, live nvram) -/
theorem snapOf_congr (a b : Sys) (h1 : a.files = b.files) (h2 : a.uciC = b.uciC) (h3 : a.nvL = b.nvL) : snapOf a = snapOf b := by
  simp [snapOf, h1, h2, h3]

end NV.Router

namespace NV.Router
open NV NV.Tmpl

/-! ### frame lemmas: which files an operation can change -/

theorem runCmds_files (cs : List (List Bytes)) (s : Sys) : (runCmds cs s).2.files = s.files := (runCmds_preserves cs s).1
theorem execCmd_files (a : List Bytes) (s : Sys) : (execCmd a s).2.files = s.files := (execCmd_preserves a s).1

theorem writeTemplate_files (c : FwConsts) (o : Obj) (s : Sys) (p : Bytes) (hp : p ≠ o.path) :
    aget (writeTemplate c o s).2.files p = aget s.files p := by
  unfold writeTemplate
  cases renderFw c o <;> simp [aget_aset_ne _ _ _ _ (Ne.symm hp)]

/-- a successful WriteTemplate installed exactly the rendered text at the drop-in path -/
theorem writeTemplate_ok (c : FwConsts) (o : Obj) (s : Sys) (h : (writeTemplate c o s).1 = true) :
    ∃ b, renderFw c o = .ok b ∧ (writeTemplate c o s).2 = { s with files := aset s.files o.path b } := by
  unfold writeTemplate at h ⊢
  cases hr : renderFw c o <;> simp_all

theorem killDNSMasq_preserves (s : Sys) :
    (killDNSMasq s).2.files = s.files ∧ (killDNSMasq s).2.uciC = s.uciC ∧ (killDNSMasq s).2.nvL = s.nvL := by
  unfold killDNSMasq
  split
  · simp
  · have := execCmd_preserves [b!"kill", trimSpace ‹Bytes›] s
    simp_all

/-- a successful kill of the pid in /run/dnsmasq.pid is a restart -/
theorem killDNSMasq_ok (s : Sys) (h : (killDNSMasq s).1 = true) : (killDNSMasq s).2 = restartNow s := by
  unfold killDNSMasq at h ⊢
  split at h
  · simp at h
  · rename_i b hb
    simp only [execCmd, execBase] at h ⊢
    simp [hb] at h ⊢
    split at h <;> simp_all

end NV.Router

namespace NV.Router
open NV NV.Tmpl

/-! ### nvram save / restore loops -/

theorem splitEq_append (n x : Bytes) (h : (61 : UInt8) ∉ n) : splitEq (n ++ 61 :: x) = (n, some x) := by
  induction n with
  | nil => simp [splitEq]
  | cons c r ih =>
    have hc : c ≠ 61 := by intro e; apply h; simp [e]
    have hr : (61 : UInt8) ∉ r := by intro e; apply h; simp [e]
    simp [splitEq, hc, ih hr]

/-- `nvram set name=value` and `nvram unset name=value` (Broadcom) both store value under name -/
theorem setVar_step (s : Sys) (n x : Bytes) (h : (61 : UInt8) ∉ n) :
    (if isSuffix [61] (n ++ 61 :: x) then nvUnsetArg s (n ++ 61 :: x) else nvSetArg s (n ++ 61 :: x)) =
      (true, { s with nvL := aset s.nvL n x }) := by
  split <;> simp [nvUnsetArg, nvSetArg, splitEq_append n x h]

def setAll (ps : List (Bytes × Bytes)) (m : Store) : Store := ps.foldl (fun m p => aset m p.1 p.2) m

theorem setNVRAMLoop_pairs (ps : List (Bytes × Bytes)) (h : ∀ p ∈ ps, (61 : UInt8) ∉ p.1) (s : Sys) :
    setNVRAMLoop (ps.map fun p => p.1 ++ 61 :: p.2) s = (true, nvCommit { s with nvL := setAll ps s.nvL }) := by
  induction ps generalizing s with
  | nil => simp [setNVRAMLoop, setAll]
  | cons p ps ih =>
    have hp := h p (by simp)
    have hps : ∀ q ∈ ps, (61 : UInt8) ∉ q.1 := fun q hq => h q (by simp [hq])
    simp only [List.map_cons, setNVRAMLoop, setVar_step s p.1 p.2 hp]
    simp [ih hps, setAll]

theorem aget_setAll_notin (ps : List (Bytes × Bytes)) (m : Store) (k : Bytes) (h : k ∉ ps.map (·.1)) :
    aget (setAll ps m) k = aget m k := by
  induction ps generalizing m with
  | nil => simp [setAll]
  | cons p ps ih =>
    simp only [List.map_cons, List.mem_cons, not_or] at h
    have := ih (aset m p.1 p.2) h.2
    simp only [setAll, List.foldl_cons] at this ⊢
    rw [this, aget_aset_ne _ _ _ _ (Ne.symm h.1)]

theorem aget_setAll_fun (ns : List Bytes) (F : Bytes → Bytes) (m : Store) (k : Bytes) (h : k ∈ ns) :
    aget (setAll (ns.map fun n => (n, F n)) m) k = some (F k) := by
  induction ns generalizing m with
  | nil => simp at h
  | cons n ns ih =>
    simp only [List.map_cons, setAll, List.foldl_cons]
    by_cases hk : k ∈ ns
    · exact ih _ hk
    · have hn : k = n := by simpa [hk] using h
      subst hn
      have := aget_setAll_notin (ns.map fun n => (n, F n)) (aset m k (F k)) k (by simpa using hk)
      simp only [setAll] at this
      rw [this]; simp

/-! ### openwrt: re-adding the saved forwarders touches only the uci stores -/
theorem owRestoreFwd_preserves (fs : List Bytes) (s : Sys) :
    (owRestoreFwd fs s).files = s.files ∧ (owRestoreFwd fs s).nvL = s.nvL ∧ (owRestoreFwd fs s).uciC = s.uciC := by
  induction fs generalizing s with
  | nil => simp [owRestoreFwd]
  | cons f fs ih =>
    have := ih (uciAddList s kServer f)
    simp_all [owRestoreFwd, uciAddList]

theorem fileSetup_obj (c : FwConsts) (o : Obj) (s : Sys) : (fileSetup c o s).2.1 = o := by
  unfold fileSetup
  by_cases h : (writeTemplate c o s).1 <;> simp [h]

theorem fileSetup_files (c : FwConsts) (o : Obj) (s : Sys) (p : Bytes) (hp : p ≠ o.path) :
    aget (fileSetup c o s).2.2.files p = aget s.files p := by
  unfold fileSetup
  by_cases h : (writeTemplate c o s).1 <;> simp [h, runCmds_files, writeTemplate_files c o s p hp]



/-! ### template execution: append and environment congruence -/

theorem runToks_append (env : Env) (a b : List Tok) (st : XS) :
    runToks env (a ++ b) st = (runToks env a st).bind (runToks env b) := by
  induction a generalizing st with
  | nil => simp [runToks]
  | cons t ts ih =>
    simp only [List.cons_append, runToks]
    cases stepTok env st t <;> simp [ih]

/-- the field a token reads -/
def tokField : Tok → Option Bytes
  | .field n => some n
  | .ifF n => some n
  | _ => none

theorem stepTok_congr (e1 e2 : Env) (st : XS) (t : Tok) (h : ∀ n, tokField t = some n → e1 n = e2 n) :
    stepTok e1 st t = stepTok e2 st t := by
  cases t <;> simp [stepTok, tokField] at h ⊢ <;> simp [h]

theorem runToks_congr (e1 e2 : Env) (ts : List Tok) (st : XS)
    (h : ∀ t ∈ ts, ∀ n, tokField t = some n → e1 n = e2 n) : runToks e1 ts st = runToks e2 ts st := by
  induction ts generalizing st with
  | nil => rfl
  | cons t ts ih =>
    simp only [runToks]
    rw [stepTok_congr e1 e2 st t (h t (by simp))]
    cases stepTok e2 st t with
    | none => rfl
    | some st' => exact ih st' (fun t' ht' => h t' (by simp [ht']))

/-! ### bufio.ScanLines over a concatenation, and readPostConf after NextDNS's own head -/

theorem splitLinesAux_append (h p cur : Bytes) :
    splitLinesAux (h ++ 10 :: p) cur = splitLinesAux (h ++ [10]) cur ++ splitLinesAux p [] := by
  induction h generalizing cur with
  | nil => simp [splitLinesAux]
  | cons c r ih =>
    by_cases hc : c = 10
    · simp [splitLinesAux, hc, ih]
    · simp [splitLinesAux, hc, ih]

def pcStep (buf line : Bytes) : Bytes := if line = endMarker then [] else buf ++ line ++ [10]

theorem readPostConf_eq (b : Bytes) : readPostConf b = dropNL ((splitLines b).foldl pcStep []) := rfl

/-- a text that ends with a newline and whose last line is the marker is forgotten by readPostConf -/
theorem readPostConf_after_head (h p : Bytes) (L : List Bytes)
    (hl : splitLines (h ++ [10]) = L ++ [endMarker]) :
    readPostConf (h ++ 10 :: p) = readPostConf p := by
  simp only [readPostConf_eq, splitLines] at hl ⊢
  rw [splitLinesAux_append, hl, List.foldl_append, List.foldl_append]
  simp [pcStep]

end NV.Router
