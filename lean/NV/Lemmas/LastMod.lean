import NV.Model.LastMod
namespace NV.LastModL
open NV.LastMod

def Inv (ts : Nat → Nat) (cur0 : Nat) (P : Nat → Prop) (s : St) : Prop :=
  cur0 ≤ s.cur ∧ (∀ i, s.ph i = .done → ts i ≤ s.cur) ∧ (s.cur = cur0 ∨ ∃ i, P i ∧ s.cur = ts i)

theorem setPh_done (ph : Nat → Ph) (i j : Nat) (p : Ph) (h : setPh ph i p j = .done) :
    (j = i ∧ p = .done) ∨ (j ≠ i ∧ ph j = .done) := by
  unfold setPh at h
  split at h
  · rename_i e; exact Or.inl ⟨e, h⟩
  · rename_i e; exact Or.inr ⟨e, h⟩

theorem step_inv (ts : Nat → Nat) (cur0 : Nat) (P : Nat → Prop) (s : St) (i : Nat) (hP : P i)
    (h : Inv ts cur0 P s) : Inv ts cur0 P (step ts s i) := by
  obtain ⟨h1, h2, h3⟩ := h
  unfold step
  split
  · -- fresh
    by_cases hgt : ts i > s.cur
    · simp only [hgt, if_true]
      refine ⟨h1, ?_, h3⟩
      intro j hj
      rcases setPh_done _ _ _ _ hj with ⟨_, e⟩ | ⟨_, e⟩
      · cases e
      · exact h2 j e
    · simp only [hgt, if_false]
      refine ⟨h1, ?_, h3⟩
      intro j hj
      rcases setPh_done _ _ _ _ hj with ⟨e, _⟩ | ⟨_, e⟩
      · subst e; show ts j ≤ s.cur; omega
      · exact h2 j e
  · -- pending
    by_cases hgt : ts i > s.cur
    · simp only [hgt, if_true]
      refine ⟨by show cur0 ≤ ts i; omega, ?_, Or.inr ⟨i, hP, rfl⟩⟩
      intro j hj
      rcases setPh_done _ _ _ _ hj with ⟨e, _⟩ | ⟨_, e⟩
      · subst e; exact Nat.le_refl _
      · have := h2 j e; show ts j ≤ ts i; omega
    · simp only [hgt, if_false]
      refine ⟨h1, ?_, h3⟩
      intro j hj
      rcases setPh_done _ _ _ _ hj with ⟨e, _⟩ | ⟨_, e⟩
      · subst e; show ts j ≤ s.cur; omega
      · exact h2 j e
  · exact ⟨h1, h2, h3⟩

theorem run_inv (ts : Nat → Nat) (cur0 : Nat) (P : Nat → Prop) (sched : List Nat) :
    ∀ s, (∀ i, i ∈ sched → P i) → Inv ts cur0 P s → Inv ts cur0 P (run ts s sched) := by
  induction sched with
  | nil => intro s _ h; exact h
  | cons i is ih =>
    intro s hP h
    simp only [run, List.foldl_cons]
    exact ih _ (fun j hj => hP j (List.mem_cons_of_mem _ hj)) (step_inv ts cur0 P s i (hP i List.mem_cons_self) h)

theorem init_inv (ts : Nat → Nat) (cur0 : Nat) (P : Nat → Prop) : Inv ts cur0 P (init cur0) :=
  ⟨Nat.le_refl _, by intro i h; simp [init] at h, Or.inl rfl⟩

theorem newest_ge_cur (ts : Nat → Nat) : ∀ (is : List Nat) (cur : Nat), cur ≤ newest cur ts is := by
  intro is
  induction is with
  | nil => intro cur; exact Nat.le_refl _
  | cons i is ih =>
    intro cur
    simp only [newest]
    by_cases hgt : ts i > cur
    · simp only [hgt, if_true]; have := ih (ts i); omega
    · simp only [hgt, if_false]; exact ih cur

theorem newest_ge_ts (ts : Nat → Nat) : ∀ (is : List Nat) (cur : Nat) (i : Nat), i ∈ is → ts i ≤ newest cur ts is := by
  intro is
  induction is with
  | nil => intro _ _ h; cases h
  | cons j js ih =>
    intro cur i hi
    simp only [newest]
    rcases List.mem_cons.mp hi with e | hm
    · subst e
      by_cases hgt : ts i > cur
      · simp only [hgt, if_true]; exact newest_ge_cur ts js (ts i)
      · simp only [hgt, if_false]; have := newest_ge_cur ts js cur; omega
    · exact ih _ i hm

theorem newest_attained (ts : Nat → Nat) : ∀ (is : List Nat) (cur : Nat),
    newest cur ts is = cur ∨ ∃ i, i ∈ is ∧ newest cur ts is = ts i := by
  intro is
  induction is with
  | nil => intro cur; exact Or.inl rfl
  | cons j js ih =>
    intro cur
    simp only [newest]
    by_cases hgt : ts j > cur
    · simp only [hgt, if_true]
      rcases ih (ts j) with h | ⟨i, hi, h⟩
      · exact Or.inr ⟨j, List.mem_cons_self, h⟩
      · exact Or.inr ⟨i, List.mem_cons_of_mem _ hi, h⟩
    · simp only [hgt, if_false]
      rcases ih cur with h | ⟨i, hi, h⟩
      · exact Or.inl h
      · exact Or.inr ⟨i, List.mem_cons_of_mem _ hi, h⟩

/-- any schedule of the two-step protocol that lets exactly the handlers `threads` finish records what every sequential
order records -/
theorem any_schedule (ts : Nat → Nat) (cur0 : Nat) (sched threads : List Nat)
    (honly : ∀ i, i ∈ sched → i ∈ threads)
    (hdone : ∀ i, i ∈ threads → (run ts (init cur0) sched).ph i = .done) :
    (run ts (init cur0) sched).cur = newest cur0 ts threads := by
  obtain ⟨h1, h2, h3⟩ := run_inv ts cur0 (· ∈ threads) sched (init cur0) honly (init_inv ts cur0 _)
  apply Nat.le_antisymm
  · rcases h3 with e | ⟨i, hi, e⟩
    · rw [e]; exact newest_ge_cur ts threads cur0
    · rw [e]; exact newest_ge_ts ts threads cur0 i hi
  · rcases newest_attained ts threads cur0 with e | ⟨i, hi, e⟩
    · rw [e]; exact h1
    · rw [e]; exact h2 i (hdone i hi)

theorem done_stable (ts : Nat → Nat) (s : St) (i j : Nat) (h : s.ph i = .done) : (step ts s j).ph i = .done := by
  unfold step
  split
  · rename_i hf
    by_cases e : i = j
    · subst e; rw [h] at hf; cases hf
    · split <;> simp [setPh, e, h]
  · rename_i hf
    by_cases e : i = j
    · subst e; rw [h] at hf; cases hf
    · simp [setPh, e, h]
  · exact h

theorem two_steps_done (ts : Nat → Nat) (s : St) (i : Nat) : (step ts (step ts s i) i).ph i = .done := by
  cases hp : s.ph i with
  | fresh =>
    by_cases hgt : ts i > s.cur
    · have h1 : step ts s i = { s with ph := setPh s.ph i .pending } := by simp [step, hp, hgt]
      rw [h1]; simp [step, setPh]
    · have h1 : step ts s i = { s with ph := setPh s.ph i .done } := by simp [step, hp, hgt]
      rw [h1]; simp [step, setPh]
  | pending =>
    have h1 : (step ts s i).ph i = .done := by simp [step, hp, setPh]
    exact done_stable ts _ i i h1
  | done =>
    exact done_stable ts _ i i (done_stable ts s i i hp)

theorem run_done_stable (ts : Nat → Nat) (sched : List Nat) : ∀ (s : St) (i : Nat), s.ph i = .done → (run ts s sched).ph i = .done := by
  induction sched with
  | nil => intro s i h; exact h
  | cons j js ih => intro s i h; simp only [run, List.foldl_cons]; exact ih _ i (done_stable ts s i j h)

theorem sequential_all_done (ts : Nat → Nat) (order : List Nat) :
    ∀ (s : St) (i : Nat), i ∈ order → (run ts s (sequential order)).ph i = .done := by
  induction order with
  | nil => intro _ _ h; cases h
  | cons j js ih =>
    intro s i hi
    have hrun : run ts s (sequential (j :: js)) = run ts (step ts (step ts s j) j) (sequential js) := by
      simp [run, sequential, List.flatMap_cons]
    rw [hrun]
    rcases List.mem_cons.mp hi with e | hm
    · subst e; exact run_done_stable ts _ _ _ (two_steps_done ts s i)
    · exact ih _ i hm

theorem mem_sequential (order : List Nat) (i : Nat) (h : i ∈ sequential order) : i ∈ order := by
  simp only [sequential, List.mem_flatMap] at h
  obtain ⟨j, hj, hi⟩ := h
  simp at hi
  subst hi; exact hj

theorem lastmod_sequential (ts : Nat → Nat) (cur0 : Nat) (order : List Nat) :
    (run ts (init cur0) (sequential order)).cur = newest cur0 ts order :=
  any_schedule ts cur0 (sequential order) order (mem_sequential order) (fun i hi => sequential_all_done ts order _ i hi)


end NV.LastModL
