/-
  NV.Lemmas.Manager — helper definitions and lemmas for C08/C09 (not obligations).

  * the flattened, provider-major view of an election (`items`, `stopOf`, `scanFlat`) and the proof
    that the nested loops of `findBestEndpointLocked` (`scanProvs`/`probeEps`) compute exactly the
    flat left-to-right scan;
  * the reachable-state invariant `Inv` of the manager model and its preservation by every step.
-/
import NV.Model.Manager
namespace NV.Mgr

/-! ### flat view of an election -/

def provItems (i : Nat) : ProvRes → List Item
  | .ok eps => .pok i :: eps.map .cand
  | .err => [.perr i]
  | .unreach => [.punreach i]

/-- everything the providers offer, provider-major, in preference order -/
def itemsFrom : Nat → List ProvRes → List Item
  | _, [] => []
  | i, p :: ps => provItems i p ++ itemsFrom (i + 1) ps

def items (env : Env) : List Item := itemsFrom 0 env.provs

/-- an item at which the election ends: a candidate whose probe passes (elected) or reports
network-unreachable, or a provider reporting network-unreachable (abort) -/
def stopOf (h : Nat → Res) : Item → Option Stop
  | .cand e => match h e.key with
    | .ok => some (.elected e)
    | .unreach => some .unreach
    | .err => none
  | .punreach _ => some .unreach
  | _ => none

def scanFlat (h : Nat → Res) : List Item → List Item × Option Stop
  | [] => ([], none)
  | x :: xs => match stopOf h x with
    | some s => ([x], some s)
    | none => (x :: (scanFlat h xs).1, (scanFlat h xs).2)

theorem probe_flat (h : Nat → Res) (rest : List Item) : ∀ eps : List Ep,
    scanFlat h (eps.map .cand ++ rest) =
      match (probeEps h eps).2 with
      | some s => ((probeEps h eps).1, some s)
      | none => ((probeEps h eps).1 ++ (scanFlat h rest).1, (scanFlat h rest).2) := by
  intro eps
  induction eps with
  | nil => simp [probeEps]
  | cons e es ih =>
    simp only [List.map_cons, List.cons_append, scanFlat, stopOf, probeEps]
    cases hk : h e.key with
    | ok => simp
    | unreach => simp
    | err =>
      simp only [ih]
      cases hp : (probeEps h es).2 <;> simp

theorem scan_eq_flat (h : Nat → Res) : ∀ (ps : List ProvRes) (i : Nat),
    scanProvs h i ps = scanFlat h (itemsFrom i ps) := by
  intro ps
  induction ps with
  | nil => intro i; simp [scanProvs, itemsFrom, scanFlat]
  | cons p ps ih =>
    intro i
    cases p with
    | unreach => simp [scanProvs, itemsFrom, provItems, scanFlat, stopOf]
    | err => simp [scanProvs, itemsFrom, provItems, scanFlat, stopOf, ih]
    | ok eps =>
      simp only [scanProvs, itemsFrom, provItems, List.cons_append, scanFlat, stopOf, probe_flat, ih]
      cases hp : (probeEps h eps).2 <;> simp

theorem scanFlat_stop (h : Nat → Res) (d : Item) (post : List Item) (s : Stop) (hd : stopOf h d = some s) :
    ∀ pre : List Item, (∀ x ∈ pre, stopOf h x = none) →
      scanFlat h (pre ++ d :: post) = (pre ++ [d], some s) := by
  intro pre
  induction pre with
  | nil => intro _; simp [scanFlat, hd]
  | cons x xs ih =>
    intro hx
    have h1 : stopOf h x = none := hx x (by simp)
    have h2 := ih (fun y hy => hx y (by simp [hy]))
    simp [scanFlat, h1, h2]

theorem scanFlat_none (h : Nat → Res) : ∀ its : List Item, (∀ x ∈ its, stopOf h x = none) →
    scanFlat h its = (its, none) := by
  intro its
  induction its with
  | nil => intro _; rfl
  | cons x xs ih =>
    intro hx
    have h1 : stopOf h x = none := hx x (by simp)
    have h2 := ih (fun y hy => hx y (by simp [hy]))
    simp [scanFlat, h1, h2]

/-- the trace of a scan is always a prefix of the flat list -/
theorem scanFlat_prefix (h : Nat → Res) : ∀ its : List Item, (scanFlat h its).1 <+: its := by
  intro its
  induction its with
  | nil => simp [scanFlat]
  | cons x xs ih =>
    simp only [scanFlat]
    cases hs : stopOf h x with
    | some s => simp
    | none => simpa using ih

theorem firstCand_mem : ∀ (t : List Item) (e : Ep), firstCand t = some e → e ∈ candsOf t := by
  intro t
  induction t with
  | nil => intro e h; simp [firstCand] at h
  | cons x xs ih =>
    intro e h
    cases x with
    | cand c => simp [firstCand] at h; simp [candsOf, h]
    | pok i => simp [firstCand] at h; simpa [candsOf] using ih e h
    | perr i => simp [firstCand] at h; simpa [candsOf] using ih e h
    | punreach i => simp [firstCand] at h; simpa [candsOf] using ih e h

theorem firstCand_none : ∀ (t : List Item), firstCand t = none → candsOf t = [] := by
  intro t
  induction t with
  | nil => intro _; rfl
  | cons x xs ih =>
    intro h
    cases x with
    | cand c => simp [firstCand] at h
    | pok i => simp [firstCand] at h; simpa [candsOf] using ih h
    | perr i => simp [firstCand] at h; simpa [candsOf] using ih h
    | punreach i => simp [firstCand] at h; simpa [candsOf] using ih h

theorem candsOf_append (a b : List Item) : candsOf (a ++ b) = candsOf a ++ candsOf b := by
  induction a with
  | nil => rfl
  | cons x xs ih => cases x <;> simp [candsOf, ih]

/-- an elected endpoint is the last item of the trace -/
theorem scanFlat_elected (h : Nat → Res) : ∀ (its : List Item) (e : Ep),
    (scanFlat h its).2 = some (.elected e) → e ∈ candsOf (scanFlat h its).1 ∧ h e.key = .ok := by
  intro its
  induction its with
  | nil => intro e hh; simp [scanFlat] at hh
  | cons x xs ih =>
    intro e hh
    simp only [scanFlat] at hh ⊢
    cases hs : stopOf h x with
    | some s =>
      simp only [hs] at hh ⊢
      cases x with
      | cand c =>
        simp only [stopOf] at hs
        cases hk : h c.key <;> simp [hk] at hs
        · subst hs; simp at hh; subst hh; simp [candsOf, hk]
        · subst hs; simp at hh
      | pok i => simp [stopOf] at hs
      | perr i => simp [stopOf] at hs
      | punreach i => simp [stopOf] at hs; subst hs; simp at hh
    | none =>
      simp only [hs] at hh ⊢
      have := ih e hh
      cases x <;> simp [candsOf, this]


/-! ### frame facts -/

theorem upd_ep (h : Nat → AE) (a : Nat) (v : AE) (hv : v.ep = (h a).ep) (b : Nat) :
    (upd h a v b).ep = (h b).ep := by
  unfold upd; split
  · next hb => subst hb; exact hv
  · rfl

theorem upd_testing (h : Nat → AE) (a : Nat) (v : AE) (hv : v.testing = (h a).testing) (b : Nat) :
    (upd h a v b).testing = (h b).testing := by
  unfold upd; split
  · next hb => subst hb; exact hv
  · rfl

theorem equalOpt_some_left {x : Option Ep} {e : Ep} (h : equalOpt x (some e) = true) : x ≠ none := by
  cases x <;> simp [equalOpt] at h ⊢

theorem equalOpt_refl (e : Ep) : equalOpt (some e) (some e) = true := by simp [equalOpt]

theorem equalOpt_key {a b : Ep} : equalOpt (some a) (some b) = true ↔ a.key = b.key := by simp [equalOpt]

theorem reuse_some {st : St} {e : Option Ep} {a : Nat} (h : reuse? st e = some a) :
    st.active = some a ∧ equalOpt (st.heap a).ep e = true := by
  unfold reuse? at h
  split at h
  · next b hb =>
    split at h
    · next heq => simp at h; subst h; exact ⟨hb, heq⟩
    · simp at h
  · simp at h

theorem reuse_none {st : St} {e : Option Ep} (h : reuse? st e = none) :
    st.active = none ∨ ∃ a, st.active = some a ∧ equalOpt (st.heap a).ep e = false := by
  unfold reuse? at h
  split at h
  · next b hb =>
    split at h
    · simp at h
    · next hne => exact Or.inr ⟨b, hb, by simpa using hne⟩
  · next hb => exact Or.inl hb

/-- what one `applyElect` does, object by object -/
theorem applyElect_cases (cfg : Cfg) (st : St) (e : Option Ep) (short : Bool) :
    (∃ a, reuse? st e = some a ∧ (applyElect cfg st e short).2 = [] ∧
        (applyElect cfg st e short).1 =
          { st with heap := upd st.heap a { st.heap a with interval := if short then failedInterval else (st.heap a).interval } }) ∨
    (reuse? st e = none ∧ (applyElect cfg st e short).2 = [.onChange e] ∧
        (applyElect cfg st e short).1 =
          { st with heap := upd st.heap st.next ⟨e, st.clock, if short then failedInterval else intervalFor cfg e, false, 0⟩,
                    next := st.next + 1, active := some st.next }) := by
  unfold applyElect
  cases h : reuse? st e with
  | some a => exact Or.inl ⟨a, rfl, rfl, rfl⟩
  | none => exact Or.inr ⟨rfl, rfl, rfl⟩

/-! ### provenance invariant -/

structure InvP (cfg : Cfg) (st : St) : Prop where
  nonnil : ∀ a, st.active = some a → (st.heap a).ep ≠ none
  prov : ∀ a, st.active = some a →
    match st.lastOffer with
    | none => (st.heap a).ep = cfg.init
    | some l => ∃ e ∈ l, equalOpt (st.heap a).ep (some e) = true
  offerNone : st.active = none → st.lastOffer = none

theorem InvP_congr {cfg : Cfg} {st st' : St} (ha : st'.active = st.active) (hl : st'.lastOffer = st.lastOffer)
    (he : ∀ b, (st'.heap b).ep = (st.heap b).ep) (h : InvP cfg st) : InvP cfg st' := by
  refine ⟨?_, ?_, ?_⟩
  · intro a haa; rw [he]; exact h.nonnil a (ha ▸ haa)
  · intro a haa; rw [hl, he]; exact h.prov a (ha ▸ haa)
  · intro hn; rw [hl]; exact h.offerNone (ha ▸ hn)

theorem InvP_init (cfg : Cfg) : InvP cfg St.init := by
  refine ⟨?_, ?_, ?_⟩ <;> simp [St.init]

/-- after an election elected `x` (offered in `l`), with `lastOffer := some l` -/
theorem InvP_applyElect (cfg : Cfg) (st : St) (x : Ep) (short : Bool) (l : List Ep) (hx : x ∈ l) :
    InvP cfg { (applyElect cfg st (some x) short).1 with lastOffer := some l } := by
  rcases applyElect_cases cfg st (some x) short with ⟨a, hr, _, hst⟩ | ⟨_, _, hst⟩
  · obtain ⟨hact, heq⟩ := reuse_some hr
    rw [hst]
    have hep : ∀ b, (upd st.heap a { st.heap a with interval := if short then failedInterval else (st.heap a).interval } b).ep = (st.heap b).ep :=
      fun b => upd_ep _ _ _ (by rfl) b
    refine ⟨?_, ?_, ?_⟩
    · intro b hb
      have hb' : st.active = some b := hb
      rw [hact] at hb'; cases hb'
      show (upd _ _ _ _).ep ≠ none
      rw [hep]; exact equalOpt_some_left heq
    · intro b hb
      have hb' : st.active = some b := hb
      rw [hact] at hb'; cases hb'
      show ∃ e ∈ l, equalOpt (upd _ _ _ _).ep (some e) = true
      exact ⟨x, hx, by rw [hep]; exact heq⟩
    · intro hn
      have hn' : st.active = none := hn
      rw [hact] at hn'; cases hn'
  · rw [hst]
    refine ⟨?_, ?_, ?_⟩
    · intro b hb
      have hb' : some st.next = some b := hb
      cases hb'
      show (upd _ _ _ _).ep ≠ none
      simp
    · intro b hb
      have hb' : some st.next = some b := hb
      cases hb'
      show ∃ e ∈ l, equalOpt (upd _ _ _ _).ep (some e) = true
      exact ⟨x, hx, by simp [equalOpt]⟩
    · intro hn
      have hn' : some st.next = none := hn
      cases hn'

theorem findBest_elected_mem (v : Variant) (env : Env) (e : Ep)
    (h : (findBest v env).2 = .elected e ∨ (findBest v env).2 = .fallback e) :
    e ∈ candsOf (findBest v env).1 := by
  unfold findBest at h ⊢
  simp only at h ⊢
  rw [scan_eq_flat] at h ⊢
  cases hs : (scanFlat env.health (itemsFrom 0 env.provs)).2 with
  | some s =>
    cases s with
    | elected x =>
      simp [hs] at h; subst h
      exact (scanFlat_elected _ _ _ hs).1
    | unreach => simp [hs] at h
  | none =>
    simp only [hs] at h
    cases hf : firstCand (scanFlat env.health (itemsFrom 0 env.provs)).1 with
    | some x =>
      simp [hf] at h; subst h
      exact firstCand_mem _ _ hf
    | none =>
      simp [hf] at h
      cases hv : v.errOnNoCand <;> simp [hv] at h

theorem findBest_repaired_ne_nil (env : Env) : (findBest repaired env).2 ≠ .fallbackNil := by
  unfold findBest
  simp only
  cases (scanProvs env.health 0 env.provs).2 with
  | some s => cases s <;> simp
  | none => cases firstCand (scanProvs env.health 0 env.provs).1 <;> simp [repaired]

theorem testLocked_InvP (cfg : Cfg) (st : St) (env : Env) (h : InvP cfg st) :
    InvP cfg (testLocked repaired cfg st env).1 := by
  unfold testLocked
  simp only
  cases ho : (findBest repaired env).2 with
  | elected e => exact InvP_applyElect cfg st e false _ (findBest_elected_mem _ _ _ (Or.inl ho))
  | fallback e => exact InvP_applyElect cfg st e true _ (findBest_elected_mem _ _ _ (Or.inr ho))
  | fallbackNil => exact absurd ho (findBest_repaired_ne_nil env)
  | unreach => exact h
  | noEndpoint => exact h

theorem enterDo_frame (st : St) (a : Nat) (evs : List Ev) :
    (enterDo st a evs).1.active = st.active ∧ (enterDo st a evs).1.lastOffer = st.lastOffer ∧
    (enterDo st a evs).1.muHeld = st.muHeld ∧ (enterDo st a evs).1.next = st.next ∧
    (enterDo st a evs).1.clock = st.clock ∧
    ∀ b, ((enterDo st a evs).1.heap b).ep = (st.heap b).ep := by
  unfold enterDo
  simp only
  split
  · refine ⟨rfl, rfl, rfl, rfl, rfl, fun b => by dsimp only; exact upd_ep _ _ _ (by rfl) b⟩
  · exact ⟨rfl, rfl, rfl, rfl, rfl, fun _ => rfl⟩

theorem doFinish_frame (cfg : Cfg) (st : St) (j : Nat) (ok : Bool) :
    (doFinish cfg st j ok).active = st.active ∧ (doFinish cfg st j ok).lastOffer = st.lastOffer ∧
    (doFinish cfg st j ok).muHeld = st.muHeld ∧ (doFinish cfg st j ok).next = st.next ∧
    (doFinish cfg st j ok).clock = st.clock ∧
    ∀ b, ((doFinish cfg st j ok).heap b).ep = (st.heap b).ep := by
  unfold doFinish
  split
  · exact ⟨rfl, rfl, rfl, rfl, rfl, fun _ => rfl⟩
  · simp only
    split
    · exact ⟨rfl, rfl, rfl, rfl, rfl, fun b => by dsimp only; exact upd_ep _ _ _ (by rfl) b⟩
    · split
      · exact ⟨rfl, rfl, rfl, rfl, rfl, fun b => by dsimp only; exact upd_ep _ _ _ (by rfl) b⟩
      · exact ⟨rfl, rfl, rfl, rfl, rfl, fun b => by dsimp only; exact upd_ep _ _ _ (by rfl) b⟩

theorem finishTest_frame (st : St) (a : Nat) (ok : Bool) :
    (finishTest st a ok).active = st.active ∧ (finishTest st a ok).lastOffer = st.lastOffer ∧
    (finishTest st a ok).muHeld = st.muHeld ∧ (finishTest st a ok).next = st.next ∧
    (finishTest st a ok).clock = st.clock ∧ (finishTest st a ok).pending = st.pending ∧
    (finishTest st a ok).inflight = st.inflight ∧
    ∀ b, ((finishTest st a ok).heap b).ep = (st.heap b).ep := by
  unfold finishTest
  exact ⟨rfl, rfl, rfl, rfl, rfl, rfl, rfl, fun b => by dsimp only; exact upd_ep _ _ _ (by rfl) b⟩

theorem testLocked_muHeld (v : Variant) (cfg : Cfg) (st : St) (env : Env) :
    (testLocked v cfg st env).1.muHeld = st.muHeld := by
  unfold testLocked
  simp only
  split <;> (try rfl) <;>
    (rcases applyElect_cases cfg st _ _ with ⟨a, _, _, hst⟩ | ⟨_, _, hst⟩ <;> rw [hst])


/-! ### single-flight invariant -/

structure InvT (st : St) : Prop where
  nodup : st.pending.Nodup
  pend : ∀ a, a ∈ st.pending ↔ (st.heap a).testing = true
  fresh : ∀ a, st.next ≤ a → (st.heap a).testing = false
  act_lt : ∀ a, st.active = some a → a < st.next
  infl : ∀ a ∈ st.inflight, a < st.next

/-- a step that leaves every `testing` flag, `pending` and `inflight` alone and only allocates -/
def TFrame (st st' : St) : Prop :=
  st'.pending = st.pending ∧ st'.inflight = st.inflight ∧ st.next ≤ st'.next ∧
  (∀ b, (st'.heap b).testing = (st.heap b).testing) ∧
  (∀ a, st'.active = some a → a < st'.next)

theorem InvT_init : InvT St.init := by
  refine ⟨?_, ?_, ?_, ?_, ?_⟩ <;> simp [St.init, AE.zero]

theorem InvT_of_TFrame {st st' : St} (h : InvT st) (f : TFrame st st') : InvT st' := by
  obtain ⟨hp, hi, hn, ht, ha⟩ := f
  refine ⟨?_, ?_, ?_, ha, ?_⟩
  · rw [hp]; exact h.nodup
  · intro a; rw [hp, ht]; exact h.pend a
  · intro a hge; rw [ht]; exact h.fresh a (Nat.le_trans hn hge)
  · intro a hm; rw [hi] at hm; exact Nat.lt_of_lt_of_le (h.infl a hm) hn

theorem TFrame_refl {st : St} (ha : ∀ a, st.active = some a → a < st.next) : TFrame st st :=
  ⟨rfl, rfl, Nat.le_refl _, fun _ => rfl, ha⟩

/-- allocation of a non-testing object at `next` that becomes active -/
theorem TFrame_alloc {st : St} (hf : ∀ a, st.next ≤ a → (st.heap a).testing = false) (o : AE) (ho : o.testing = false) :
    TFrame st { st with heap := upd st.heap st.next o, next := st.next + 1, active := some st.next } := by
  refine ⟨rfl, rfl, Nat.le_succ _, ?_, ?_⟩
  · intro b
    show (upd st.heap st.next o b).testing = _
    unfold upd; split
    · next hb => subst hb; rw [ho, hf _ (Nat.le_refl _)]
    · rfl
  · intro a ha
    have : some st.next = some a := ha
    cases this; exact Nat.lt_succ_self _

theorem applyElect_TFrame (cfg : Cfg) (st : St) (e : Option Ep) (short : Bool)
    (hf : ∀ a, st.next ≤ a → (st.heap a).testing = false) (ha : ∀ a, st.active = some a → a < st.next) :
    TFrame st (applyElect cfg st e short).1 := by
  rcases applyElect_cases cfg st e short with ⟨a, _, _, hst⟩ | ⟨_, _, hst⟩
  · rw [hst]
    exact ⟨rfl, rfl, Nat.le_refl _, fun b => upd_testing _ _ _ (by rfl) b, ha⟩
  · rw [hst]; exact TFrame_alloc hf _ rfl

theorem testLocked_TFrame (v : Variant) (cfg : Cfg) (st : St) (env : Env)
    (hf : ∀ a, st.next ≤ a → (st.heap a).testing = false) (ha : ∀ a, st.active = some a → a < st.next) :
    TFrame st (testLocked v cfg st env).1 := by
  unfold testLocked
  simp only
  split
  · exact applyElect_TFrame cfg st _ _ hf ha
  · exact applyElect_TFrame cfg st _ _ hf ha
  · exact applyElect_TFrame cfg st _ _ hf ha
  · exact TFrame_refl ha
  · exact TFrame_refl ha

theorem testLocked_clock (v : Variant) (cfg : Cfg) (st : St) (env : Env) :
    (testLocked v cfg st env).1.clock = st.clock := by
  unfold testLocked
  simp only
  split <;> (try rfl) <;>
    (rcases applyElect_cases cfg st _ _ with ⟨a, _, _, hst⟩ | ⟨_, _, hst⟩ <;> rw [hst])

theorem InvT_enterDo {st : St} (h : InvT st) (a : Nat) (ha : a < st.next) (evs : List Ev) :
    InvT (enterDo st a evs).1 := by
  unfold enterDo
  simp only
  split
  · next hc =>
    simp only [Bool.and_eq_true, Bool.not_eq_true'] at hc
    have hnt : (st.heap a).testing = false := hc.1
    have hnp : a ∉ st.pending := fun hm => by have := (h.pend a).1 hm; simp [hnt] at this
    refine ⟨?_, ?_, ?_, h.act_lt, ?_⟩
    · show (st.pending ++ [a]).Nodup
      rw [List.nodup_append]
      refine ⟨h.nodup, by simp, ?_⟩
      intro x hx y hy; simp at hy; subst hy; intro hxy; subst hxy; exact hnp hx
    · intro b
      show b ∈ st.pending ++ [a] ↔ (upd st.heap a _ b).testing = true
      by_cases hb : b = a
      · subst hb; simp
      · rw [upd_other _ _ _ _ hb]; simp [hb]; exact h.pend b
    · intro b hge
      show (upd st.heap a _ b).testing = false
      have hge' : st.next ≤ b := hge
      have hb : b ≠ a := by omega
      rw [upd_other _ _ _ _ hb]; exact h.fresh b hge
    · intro b hm
      have hm' : b ∈ st.inflight ++ [a] := hm
      simp at hm'
      rcases hm' with hm' | hm'
      · exact h.infl b hm'
      · subst hm'; exact ha
  · refine ⟨h.nodup, h.pend, h.fresh, h.act_lt, ?_⟩
    intro b hm
    have hm' : b ∈ st.inflight ++ [a] := hm
    simp at hm'
    rcases hm' with hm' | hm'
    · exact h.infl b hm'
    · subst hm'; exact ha

theorem InvT_muHeld {st : St} (h : InvT st) (m : Bool) : InvT { st with muHeld := m } :=
  ⟨h.nodup, h.pend, h.fresh, h.act_lt, h.infl⟩

theorem InvT_doStart (v : Variant) (cfg : Cfg) (st : St) (env : Env) (h : InvT st) (r : St × List Ev)
    (hr : doStart v cfg st env = some r) : InvT r.1 := by
  unfold doStart at hr
  split at hr
  · simp at hr
  · split at hr
    · next a ha => simp at hr; subst hr; exact InvT_enterDo h a (h.act_lt a ha) _
    · split at hr
      · next e he =>
        simp at hr; subst hr
        have h1 := InvT_of_TFrame h (TFrame_alloc h.fresh ⟨some e, 0, intervalFor cfg (some e), false, 0⟩ rfl)
        exact InvT_enterDo h1 st.next (Nat.lt_succ_self _) _
      · have h1 := InvT_of_TFrame h (testLocked_TFrame v cfg st env h.fresh h.act_lt)
        dsimp only at hr
        split at hr
        · split at hr
          · next a ha => simp at hr; subst hr; exact InvT_enterDo h1 a (h1.act_lt a ha) _
          · simp at hr; subst hr; exact h1
        · simp at hr; subst hr; exact InvT_muHeld h1 _

theorem getElem?_mem_lt {st : St} (h : InvT st) {j a : Nat} (hj : st.inflight[j]? = some a) : a < st.next :=
  h.infl a (List.mem_of_getElem? hj)

theorem InvT_doFinish (cfg : Cfg) (st : St) (j : Nat) (ok : Bool) (h : InvT st) : InvT (doFinish cfg st j ok) := by
  unfold doFinish
  split
  · exact h
  · next a hj =>
    have ha : a < st.next := getElem?_mem_lt h hj
    have hinfl : ∀ b ∈ st.inflight.eraseIdx j, b < st.next :=
      fun b hb => h.infl b ((List.eraseIdx_sublist _ _).subset hb)
    simp only
    split
    · refine ⟨h.nodup, ?_, ?_, h.act_lt, hinfl⟩
      · intro b
        show b ∈ st.pending ↔ (upd st.heap a _ b).testing = true
        rw [upd_testing _ _ _ (by rfl)]; exact h.pend b
      · intro b hge
        show (upd st.heap a _ b).testing = false
        rw [upd_testing _ _ _ (by rfl)]; exact h.fresh b hge
    · split
      · next hc =>
        simp only [Bool.and_eq_true, Bool.not_eq_true'] at hc
        have hnt : (st.heap a).testing = false := hc.2
        have hnp : a ∉ st.pending := fun hm => by have := (h.pend a).1 hm; simp [hnt] at this
        refine ⟨?_, ?_, ?_, h.act_lt, hinfl⟩
        · show (st.pending ++ [a]).Nodup
          rw [List.nodup_append]
          refine ⟨h.nodup, by simp, ?_⟩
          intro x hx y hy; simp at hy; subst hy; intro hxy; subst hxy; exact hnp hx
        · intro b
          show b ∈ st.pending ++ [a] ↔ (upd st.heap a _ b).testing = true
          by_cases hb : b = a
          · subst hb; simp
          · rw [upd_other _ _ _ _ hb]; simp [hb]; exact h.pend b
        · intro b hge
          show (upd st.heap a _ b).testing = false
          have hge' : st.next ≤ b := hge
          have hb : b ≠ a := by omega
          rw [upd_other _ _ _ _ hb]; exact h.fresh b hge
      · refine ⟨h.nodup, ?_, ?_, h.act_lt, hinfl⟩
        · intro b
          show b ∈ st.pending ↔ (upd st.heap a _ b).testing = true
          rw [upd_testing _ _ _ (by rfl)]; exact h.pend b
        · intro b hge
          show (upd st.heap a _ b).testing = false
          rw [upd_testing _ _ _ (by rfl)]; exact h.fresh b hge

theorem InvT_electionRun (v : Variant) (cfg : Cfg) (st : St) (env : Env) (h : InvT st) (r : St × List Ev)
    (hr : electionRun v cfg st env = some r) : InvT r.1 := by
  unfold electionRun at hr
  split at hr
  · simp at hr; subst hr; exact h
  · next a rest hp =>
    split at hr
    · simp at hr
    · simp at hr; subst hr
      have hnd : (a :: rest).Nodup := hp ▸ h.nodup
      have hanr : a ∉ rest := (List.nodup_cons.1 hnd).1
      have hf := testLocked_TFrame v cfg { st with pending := rest } env h.fresh h.act_lt
      obtain ⟨hpe, hin, hnx, hts, hac⟩ := hf
      have ha : a < st.next := by
        have : (st.heap a).testing = true := (h.pend a).1 (by rw [hp]; simp)
        by_cases hlt : a < st.next
        · exact hlt
        · have := h.fresh a (by omega); simp_all
      unfold finishTest
      refine ⟨?_, ?_, ?_, hac, ?_⟩
      · show (testLocked v cfg { st with pending := rest } env).1.pending.Nodup
        rw [hpe]; exact (List.nodup_cons.1 hnd).2
      · intro b
        show b ∈ (testLocked v cfg { st with pending := rest } env).1.pending ↔ (upd _ a _ b).testing = true
        rw [hpe]
        by_cases hb : b = a
        · subst hb; simp [hanr]
        · rw [upd_other _ _ _ _ hb, hts]
          show b ∈ rest ↔ (st.heap b).testing = true
          rw [← h.pend b, hp]; simp [hb]
      · intro b hge
        show (upd _ a _ b).testing = false
        by_cases hb : b = a
        · subst hb; simp
        · rw [upd_other _ _ _ _ hb, hts]
          exact h.fresh b (Nat.le_trans hnx hge)
      · intro b hm
        have hm' : b ∈ (testLocked v cfg { st with pending := rest } env).1.inflight := hm
        rw [hin] at hm'
        exact Nat.lt_of_lt_of_le (h.infl b hm') hnx

theorem InvT_forceTest (v : Variant) (cfg : Cfg) (st : St) (env : Env) (h : InvT st) (r : St × List Ev)
    (hr : forceTest v cfg st env = some r) : InvT r.1 := by
  unfold forceTest at hr
  split at hr
  · simp at hr
  · simp at hr; subst hr
    exact InvT_of_TFrame h (testLocked_TFrame v cfg st env h.fresh h.act_lt)

theorem InvT_step (v : Variant) (cfg : Cfg) (st : St) (op : Op) (h : InvT st) (r : St × List Ev)
    (hr : step v cfg st op = some r) : InvT r.1 := by
  cases op with
  | doStart env => exact InvT_doStart v cfg st env h r hr
  | doFinish j ok => simp [step] at hr; subst hr; exact InvT_doFinish cfg st j ok h
  | electionRun env => exact InvT_electionRun v cfg st env h r hr
  | advance d => simp [step] at hr; subst hr; exact ⟨h.nodup, h.pend, h.fresh, h.act_lt, h.infl⟩
  | forceTest env => exact InvT_forceTest v cfg st env h r hr


/-! ### all invariants together, for the repaired variant -/

theorem InvP_doStart (cfg : Cfg) (st : St) (env : Env) (h : InvP cfg st) (r : St × List Ev)
    (hr : doStart repaired cfg st env = some r) : InvP cfg r.1 := by
  unfold doStart at hr
  split at hr
  · simp at hr
  · split at hr
    · next a ha =>
      simp at hr; subst hr
      obtain ⟨h1, h2, _, _, _, h3⟩ := enterDo_frame st a []
      exact InvP_congr h1 h2 h3 h
    · next hnone =>
      split at hr
      · next e he =>
        simp at hr; subst hr
        obtain ⟨h1, h2, _, _, _, h3⟩ := enterDo_frame (installInit cfg st e) st.next []
        refine InvP_congr h1 h2 h3 ⟨?_, ?_, ?_⟩
        · intro b hb
          have : some st.next = some b := hb
          cases this
          show (upd _ _ _ _).ep ≠ none
          simp
        · intro b hb
          have : some st.next = some b := hb
          cases this
          show match st.lastOffer with
            | none => (upd _ _ _ _).ep = cfg.init
            | some l => ∃ e ∈ l, equalOpt (upd _ _ _ _).ep (some e) = true
          rw [h.offerNone hnone]; simp [he]
        · intro hn
          have : some st.next = none := hn
          cases this
      · have h1 := testLocked_InvP cfg st env h
        dsimp only at hr
        split at hr
        · split at hr
          · next a ha =>
            simp at hr; subst hr
            obtain ⟨f1, f2, _, _, _, f3⟩ := enterDo_frame (testLocked repaired cfg st env).1 a (testLocked repaired cfg st env).2.1
            exact InvP_congr f1 f2 f3 h1
          · simp at hr; subst hr; exact h1
        · simp at hr; subst hr
          exact InvP_congr (by rfl) (by rfl) (fun _ => by rfl) h1

theorem InvP_step (cfg : Cfg) (st : St) (op : Op) (h : InvP cfg st) (r : St × List Ev)
    (hr : step repaired cfg st op = some r) : InvP cfg r.1 := by
  cases op with
  | doStart env => exact InvP_doStart cfg st env h r hr
  | doFinish j ok =>
    simp [step] at hr; subst hr
    obtain ⟨h1, h2, _, _, _, h3⟩ := doFinish_frame cfg st j ok
    exact InvP_congr h1 h2 h3 h
  | electionRun env =>
    simp only [step] at hr
    unfold electionRun at hr
    split at hr
    · simp at hr; subst hr; exact h
    · next a rest hp =>
      split at hr
      · simp at hr
      · simp at hr; subst hr
        have h0 : InvP cfg { st with pending := rest } := InvP_congr (by rfl) (by rfl) (fun _ => by rfl) h
        have h1 := testLocked_InvP cfg _ env h0
        obtain ⟨f1, f2, _, _, _, _, _, f3⟩ := finishTest_frame (testLocked repaired cfg { st with pending := rest } env).1 a
          (testLocked repaired cfg { st with pending := rest } env).2.2
        exact InvP_congr f1 f2 f3 h1
  | advance d => simp [step] at hr; subst hr; exact InvP_congr (by rfl) (by rfl) (fun _ => by rfl) h
  | forceTest env =>
    simp only [step] at hr
    unfold forceTest at hr
    split at hr
    · simp at hr
    · simp at hr; subst hr; exact testLocked_InvP cfg st env h

/-- m.mu is never left locked by the repaired code -/
theorem muHeld_step (cfg : Cfg) (st : St) (op : Op) (h : st.muHeld = false) (r : St × List Ev)
    (hr : step repaired cfg st op = some r) : r.1.muHeld = false := by
  cases op with
  | doStart env =>
    simp only [step] at hr
    unfold doStart at hr
    rw [h] at hr
    simp only [Bool.false_eq_true, ↓reduceIte] at hr
    split at hr
    · next a ha => simp at hr; subst hr; rw [(enterDo_frame st a []).2.2.1]; exact h
    · split at hr
      · simp at hr; subst hr
        rw [(enterDo_frame _ _ _).2.2.1]; exact h
      · split at hr
        · split at hr
          · simp at hr; subst hr
            rw [(enterDo_frame _ _ _).2.2.1, testLocked_muHeld]; exact h
          · simp at hr; subst hr; rw [testLocked_muHeld]; exact h
        · simp at hr; subst hr; simp [repaired]
  | doFinish j ok => simp [step] at hr; subst hr; rw [(doFinish_frame cfg st j ok).2.2.1]; exact h
  | electionRun env =>
    simp only [step] at hr
    unfold electionRun at hr
    split at hr
    · simp at hr; subst hr; exact h
    · split at hr
      · simp at hr
      · simp at hr; subst hr
        rw [(finishTest_frame _ _ _).2.2.1, testLocked_muHeld]; exact h
  | advance d => simp [step] at hr; subst hr; exact h
  | forceTest env =>
    simp only [step] at hr
    unfold forceTest at hr
    split at hr
    · simp at hr
    · simp at hr; subst hr; rw [testLocked_muHeld]; exact h

structure Inv (cfg : Cfg) (st : St) : Prop where
  t : InvT st
  p : InvP cfg st
  mu : st.muHeld = false

theorem Inv_init (cfg : Cfg) : Inv cfg St.init := ⟨InvT_init, InvP_init cfg, rfl⟩

theorem Inv_step (cfg : Cfg) (st : St) (op : Op) (h : Inv cfg st) (r : St × List Ev)
    (hr : step repaired cfg st op = some r) : Inv cfg r.1 :=
  ⟨InvT_step repaired cfg st op h.t r hr, InvP_step cfg st op h.p r hr, muHeld_step cfg st op h.mu r hr⟩

theorem Inv_run (cfg : Cfg) : ∀ (ops : List Op) (st : St), Inv cfg st → ∀ r, run repaired cfg st ops = some r → Inv cfg r.1 := by
  intro ops
  induction ops with
  | nil => intro st h r hr; simp [run] at hr; subst hr; exact h
  | cons op ops ih =>
    intro st h r hr
    simp only [run] at hr
    cases hs : step repaired cfg st op with
    | none => simp [hs] at hr
    | some r1 =>
      obtain ⟨st1, e1⟩ := r1
      simp only [hs] at hr
      cases hr2 : run repaired cfg st1 ops with
      | none => simp [hr2] at hr
      | some r2 =>
        obtain ⟨st2, e2⟩ := r2
        simp [hr2] at hr; subst hr
        exact ih st1 (Inv_step cfg st op h (st1, e1) hs) (st2, e2) hr2

/-- with m.mu free every operation returns -/
theorem step_isSome (v : Variant) (cfg : Cfg) (st : St) (op : Op) (h : st.muHeld = false) :
    (step v cfg st op).isSome = true := by
  cases op with
  | doStart env =>
    simp only [step]; unfold doStart; rw [h]
    simp only [Bool.false_eq_true, ↓reduceIte]
    split
    · rfl
    · split
      · rfl
      · skip
        split
        · split <;> rfl
        · rfl
  | doFinish j ok => rfl
  | electionRun env =>
    simp only [step]; unfold electionRun
    split
    · rfl
    · rw [h]; rfl
  | advance d => rfl
  | forceTest env => simp only [step]; unfold forceTest; rw [h]; rfl


theorem testLocked_TFrame_inflight (v : Variant) (cfg : Cfg) (st : St) (env : Env) :
    (testLocked v cfg st env).1.inflight = st.inflight := by
  unfold testLocked
  simp only
  split <;> (try rfl) <;>
    (rcases applyElect_cases cfg st _ _ with ⟨a, _, _, hst⟩ | ⟨_, _, hst⟩ <;> rw [hst])

theorem testLocked_pending (v : Variant) (cfg : Cfg) (st : St) (env : Env) :
    (testLocked v cfg st env).1.pending = st.pending := by
  unfold testLocked
  simp only
  split <;> (try rfl) <;>
    (rcases applyElect_cases cfg st _ _ with ⟨a, _, _, hst⟩ | ⟨_, _, hst⟩ <;> rw [hst])

/-! ### event-log helpers -/

def isAction : Ev → Bool
  | .action _ => true
  | _ => false

def isOnChange : Ev → Bool
  | .onChange _ => true
  | _ => false

def actions (l : List Ev) : List Ev := l.filter isAction
def changes (l : List Ev) : List Ev := l.filter isOnChange

@[simp] theorem actions_append (a b : List Ev) : actions (a ++ b) = actions a ++ actions b := by simp [actions]
@[simp] theorem changes_append (a b : List Ev) : changes (a ++ b) = changes a ++ changes b := by simp [changes]

theorem trace_no_action (h : Nat → Res) (t : List Item) : actions (traceEvents h t) = [] := by
  induction t with
  | nil => rfl
  | cons x xs ih =>
    have hx : actions (itemEvents h x) = [] := by
      cases x with
      | cand e => simp only [itemEvents]; cases h e.key <;> rfl
      | _ => rfl
    simp only [traceEvents, List.flatMap_cons, actions_append] at ih ⊢
    rw [hx, ih]; rfl

theorem trace_no_change (h : Nat → Res) (t : List Item) : changes (traceEvents h t) = [] := by
  induction t with
  | nil => rfl
  | cons x xs ih =>
    have hx : changes (itemEvents h x) = [] := by
      cases x with
      | cand e => simp only [itemEvents]; cases h e.key <;> rfl
      | _ => rfl
    simp only [traceEvents, List.flatMap_cons, changes_append] at ih ⊢
    rw [hx, ih]; rfl

/-- the endpoint an outcome installs (`some none`: the pre-repair nil endpoint) -/
def electedOf : Outcome → Option (Option Ep)
  | .elected e => some (some e)
  | .fallback e => some (some e)
  | .fallbackNil => some none
  | .unreach => none
  | .noEndpoint => none

def isShort : Outcome → Bool
  | .elected _ => false
  | _ => true

/-- `testLocked` in one equation -/
theorem testLocked_eq (v : Variant) (cfg : Cfg) (st : St) (env : Env) :
    testLocked v cfg st env =
      match electedOf (findBest v env).2 with
      | some e =>
        ({ (applyElect cfg st e (isShort (findBest v env).2)).1 with lastOffer := some (candsOf (findBest v env).1) },
          traceEvents env.health (findBest v env).1 ++ (applyElect cfg st e (isShort (findBest v env).2)).2, true)
      | none => (st, traceEvents env.health (findBest v env).1, false) := by
  unfold testLocked
  simp only
  cases (findBest v env).2 <;> rfl

theorem reuse_none_iff (st : St) (e : Option Ep) :
    reuse? st e = none ↔ (st.active = none ∨ ∃ a, st.active = some a ∧ equalOpt (st.heap a).ep e = false) := by
  constructor
  · exact reuse_none
  · intro h
    unfold reuse?
    rcases h with h | ⟨a, ha, hne⟩
    · rw [h]
    · rw [ha]; simp [hne]

theorem applyElect_changes (cfg : Cfg) (st : St) (e : Option Ep) (short : Bool) :
    changes (applyElect cfg st e short).2 = if reuse? st e = none then [.onChange e] else [] := by
  rcases applyElect_cases cfg st e short with ⟨a, hr, hev, _⟩ | ⟨hr, hev, _⟩
  · rw [hev, hr]; rfl
  · rw [hev, hr]; rfl

theorem applyElect_actions (cfg : Cfg) (st : St) (e : Option Ep) (short : Bool) :
    actions (applyElect cfg st e short).2 = [] := by
  rcases applyElect_cases cfg st e short with ⟨a, hr, hev, _⟩ | ⟨hr, hev, _⟩ <;> rw [hev] <;> rfl

theorem testLocked_actions (v : Variant) (cfg : Cfg) (st : St) (env : Env) :
    actions (testLocked v cfg st env).2.1 = [] := by
  rw [testLocked_eq]
  cases electedOf (findBest v env).2 with
  | some e => simp [trace_no_action, applyElect_actions]
  | none => simp [trace_no_action]

/-! ### single steps, for the progress theorems -/

theorem doStart_active (v : Variant) (cfg : Cfg) (st : St) (env : Env) (a : Nat)
    (hmu : st.muHeld = false) (ha : st.active = some a) :
    doStart v cfg st env = some (enterDo st a []) := by
  unfold doStart; simp [hmu, ha]

theorem enterDo_actions (st : St) (a : Nat) : actions (enterDo st a []).2 = [.action (st.heap a).ep] := rfl

theorem enterDo_spawn (st : St) (a : Nat) (evs : List Ev) (ht : (st.heap a).testing = false)
    (hx : exceeded st.clock (st.heap a).lastTest (st.heap a).interval = true) :
    (enterDo st a evs).1.pending = st.pending ++ [a] ∧
    ((enterDo st a evs).1.heap a).testing = true ∧
    ((enterDo st a evs).1.heap a).lastTest = st.clock := by
  unfold enterDo
  simp only [ht, hx, Bool.not_false, Bool.and_self, ↓reduceIte]
  simp

theorem enterDo_nospawn (st : St) (a : Nat) (evs : List Ev)
    (h : (st.heap a).testing = true ∨ exceeded st.clock (st.heap a).lastTest (st.heap a).interval = false) :
    (enterDo st a evs).1.pending = st.pending ∧ (enterDo st a evs).1.heap = st.heap := by
  unfold enterDo
  have : (!(st.heap a).testing && exceeded st.clock (st.heap a).lastTest (st.heap a).interval) = false := by
    rcases h with h | h <;> simp [h]
  simp only [this, Bool.false_eq_true, ↓reduceIte]
  simp

/-- an election that elects `e`, not `Equal` to the active endpoint: a fresh object is installed -/
theorem testLocked_fresh (v : Variant) (cfg : Cfg) (st : St) (env : Env) (e : Ep)
    (ho : (findBest v env).2 = .elected e) (hr : reuse? st (some e) = none) :
    (testLocked v cfg st env).1.active = some st.next ∧
    ((testLocked v cfg st env).1.heap st.next).ep = some e ∧
    (testLocked v cfg st env).2.2 = true ∧
    changes (testLocked v cfg st env).2.1 = [.onChange (some e)] ∧
    (∀ b, b ≠ st.next → (testLocked v cfg st env).1.heap b = st.heap b) := by
  rw [testLocked_eq, ho]
  simp only [electedOf, isShort]
  rcases applyElect_cases cfg st (some e) false with ⟨a, hr', _, _⟩ | ⟨_, hev, hst⟩
  · rw [hr] at hr'; cases hr'
  · rw [hst, hev]
    refine ⟨rfl, ?_, trivial, ?_, ?_⟩
    · show (upd _ _ _ _).ep = _; simp
    · rw [changes_append, trace_no_change]; rfl
    · intro b hb; show upd _ _ _ b = _; exact upd_other _ _ _ _ hb

theorem electionRun_cons (v : Variant) (cfg : Cfg) (st : St) (env : Env) (a : Nat) (rest : List Nat)
    (hmu : st.muHeld = false) (hp : st.pending = a :: rest) :
    electionRun v cfg st env =
      some (finishTest (testLocked v cfg { st with pending := rest } env).1 a (testLocked v cfg { st with pending := rest } env).2.2,
            (testLocked v cfg { st with pending := rest } env).2.1 ++ [.ret (testLocked v cfg { st with pending := rest } env).2.2]) := by
  have hn : ¬ (st.muHeld = true) := by simp [hmu]
  unfold electionRun
  rw [hp]
  simp only
  rw [if_neg hn]

/-- part (a) of `NV.C08.findBest_spec`, for use in the progress theorems -/
theorem findBest_spec_a (v : Variant) (env : Env) (pre : List Item) (d : Item) (post : List Item) (s : Stop)
    (hi : items env = pre ++ d :: post) (hpre : ∀ x ∈ pre, stopOf env.health x = none)
    (hd : stopOf env.health d = some s) :
    (findBest v env).1 = pre ++ [d] ∧
    (findBest v env).2 = (match s with | .elected e => .elected e | .unreach => .unreach) := by
  have h := scanFlat_stop env.health d post s hd pre hpre
  unfold findBest
  simp only
  rw [scan_eq_flat]
  unfold items at hi
  rw [hi, h]
  cases s <;> simp

/-- a started election that elects `p`, not `Equal` to the active endpoint, installs `p` -/
theorem election_installs (cfg : Cfg) (s : St) (env : Env) (a x : Nat) (rest : List Nat) (p : Ep)
    (hmu : s.muHeld = false) (hp : s.pending = a :: rest) (hact : s.active = some x)
    (ho : (findBest repaired env).2 = .elected p) (hne : equalOpt (s.heap x).ep (some p) = false) :
    ∃ st' evs, electionRun repaired cfg s env = some (st', evs) ∧
      st'.active = some s.next ∧ (st'.heap s.next).ep = some p ∧
      changes evs = [.onChange (some p)] ∧ st'.pending = rest ∧ (st'.heap a).testing = false ∧
      st'.muHeld = false := by
  have hreuse : reuse? { s with pending := rest } (some p) = none := by
    rw [reuse_none_iff]
    exact Or.inr ⟨x, hact, hne⟩
  obtain ⟨t1, t2, t3, t4, _⟩ := testLocked_fresh repaired cfg { s with pending := rest } env p ho hreuse
  obtain ⟨f1, _, f3, _, _, f6, _, f8⟩ := finishTest_frame (testLocked repaired cfg { s with pending := rest } env).1 a
      (testLocked repaired cfg { s with pending := rest } env).2.2
  refine ⟨_, _, electionRun_cons repaired cfg s env a rest hmu hp, f1.trans t1, (f8 _).trans t2, ?_, ?_, ?_, ?_⟩
  · rw [changes_append, t4]; rfl
  · rw [f6, testLocked_pending]
  · unfold finishTest; show (upd _ a _ a).testing = false; simp
  · exact f3.trans ((testLocked_muHeld _ _ _ _).trans hmu)

/-! ### what the providers offer -/

def offeredL : List ProvRes → List Ep
  | [] => []
  | .ok eps :: ps => eps ++ offeredL ps
  | _ :: ps => offeredL ps

/-- every endpoint some provider currently returns -/
def offered (env : Env) : List Ep := offeredL env.provs

theorem candsOf_map_cand (eps : List Ep) : candsOf (eps.map .cand) = eps := by
  induction eps with
  | nil => rfl
  | cons e es ih => simp [candsOf, ih]

theorem candsOf_itemsFrom : ∀ (ps : List ProvRes) (i : Nat), candsOf (itemsFrom i ps) = offeredL ps := by
  intro ps
  induction ps with
  | nil => intro i; rfl
  | cons p ps ih =>
    intro i
    cases p with
    | ok eps => simp [itemsFrom, provItems, candsOf, candsOf_append, candsOf_map_cand, offeredL, ih]
    | err => simp [itemsFrom, provItems, candsOf, offeredL, ih]
    | unreach => simp [itemsFrom, provItems, candsOf, offeredL, ih]

theorem findBest_trace_eq (v : Variant) (env : Env) :
    (findBest v env).1 = (scanFlat env.health (items env)).1 := by
  unfold findBest items
  simp only
  rw [scan_eq_flat]

theorem findBest_cands_offered (v : Variant) (env : Env) : ∀ e ∈ candsOf (findBest v env).1, e ∈ offered env := by
  intro e he
  rw [findBest_trace_eq] at he
  obtain ⟨r, hr⟩ := scanFlat_prefix env.health (items env)
  have : candsOf (items env) = offered env := candsOf_itemsFrom _ _
  rw [← this, ← hr, candsOf_append]
  exact List.mem_append_left _ he

end NV.Mgr
