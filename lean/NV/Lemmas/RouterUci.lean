/-
  NV.Lemmas.RouterUci — openwrt, non-cache mode: Setup followed by Restore gives back the committed
  uci store it started from, as a map (key-wise: a key that is deleted and added again moves to the
  end of the association list).  Universal in the constants, the Router value and the state.
-/
import NV.Lemmas.Router
namespace NV.Router
open NV NV.Tmpl

/-! ### the four uci keys are pairwise different -/
theorem kServer_ne_kDhcpOpt : kServer ≠ kDhcpOpt := by decide
theorem kServer_ne_kLanIP : kServer ≠ kLanIP := by decide
theorem kServer_ne_kPort : kServer ≠ kPort := by decide
theorem kDhcpOpt_ne_kLanIP : kDhcpOpt ≠ kLanIP := by decide
theorem kDhcpOpt_ne_kPort : kDhcpOpt ≠ kPort := by decide
theorem kLanIP_ne_kPort : kLanIP ≠ kPort := by decide

/-! ### strings.TrimSpace is the identity on a text whose first and last bytes are not white space -/

theorem dropWs_cons_of_not_ws (c : UInt8) (r : Bytes) (h : isWs c = false) : dropWs (c :: r) = c :: r := by
  simp [dropWs, h]

theorem dropWs_eq_self (b : Bytes) (h : ∀ c r, b = c :: r → isWs c = false) : dropWs b = b := by
  cases b with
  | nil => rfl
  | cons c r => exact dropWs_cons_of_not_ws c r (h c r rfl)

theorem trimSpace_eq_self (b : Bytes) (h1 : ∀ c r, b = c :: r → isWs c = false)
    (h2 : ∀ c r, b.reverse = c :: r → isWs c = false) : trimSpace b = b := by
  unfold trimSpace
  rw [dropWs_eq_self b h1, dropWs_eq_self b.reverse h2, List.reverse_reverse]

/-! ### `uci get` output (values joined by one space) of space-free values splits back -/

theorem splitSpAux_append (v rest cur : Bytes) (h : (32 : UInt8) ∉ v) :
    splitSpAux (v ++ rest) cur = splitSpAux rest (cur ++ v) := by
  induction v generalizing cur with
  | nil => simp
  | cons c r ih =>
    have hc : c ≠ 32 := by intro e; apply h; simp [e]
    have hr : (32 : UInt8) ∉ r := by intro e; apply h; simp [e]
    simp [splitSpAux, hc, ih _ hr]

theorem splitSpAux_joinSp (a : Bytes) (r : List Bytes) (cur : Bytes) (h : ∀ v ∈ a :: r, (32 : UInt8) ∉ v) :
    splitSpAux (joinSp (a :: r)) cur = (cur ++ a) :: r := by
  induction r generalizing a cur with
  | nil =>
    have := splitSpAux_append a [] cur (h a (by simp))
    simpa [joinSp, splitSpAux] using this
  | cons b r ih =>
    have ha := h a (by simp)
    have hr : ∀ v ∈ b :: r, (32 : UInt8) ∉ v := fun v hv => h v (List.mem_cons_of_mem _ hv)
    simp only [joinSp]
    rw [splitSpAux_append a _ cur ha]
    simp [splitSpAux, ih b [] hr]

/-- strings.Split(strings.Join(vs, " "), " ") = vs for a non-empty list of space-free values -/
theorem splitSp_joinSp (vs : List Bytes) (hne : vs ≠ []) (h : ∀ v ∈ vs, (32 : UInt8) ∉ v) :
    splitSp (joinSp vs) = vs := by
  cases vs with
  | nil => exact absurd rfl hne
  | cons a r => simpa [splitSp] using splitSpAux_joinSp a r [] h

theorem not_mem_32_of_no_ws (v : Bytes) (h : ∀ ch ∈ v, isWs ch = false) : (32 : UInt8) ∉ v := by
  intro hm
  have := h 32 hm
  simp [isWs] at this

/-- the first byte of the joined text is the first byte of the first value -/
theorem joinSp_head (vs : List Bytes) (hne : vs ≠ []) (h : ∀ v ∈ vs, v ≠ [] ∧ ∀ ch ∈ v, isWs ch = false) :
    ∃ c r, joinSp vs = c :: r ∧ isWs c = false := by
  cases vs with
  | nil => exact absurd rfl hne
  | cons a rest =>
    obtain ⟨hane, haws⟩ := h a (by simp)
    cases a with
    | nil => exact absurd rfl hane
    | cons c a' =>
      cases rest with
      | nil => exact ⟨c, a', by simp [joinSp], haws c (by simp)⟩
      | cons b rest' => exact ⟨c, a' ++ 32 :: joinSp (b :: rest'), by simp [joinSp], haws c (by simp)⟩

/-- the last byte of the joined text is the last byte of the last value -/
theorem joinSp_last (vs : List Bytes) (hne : vs ≠ []) (h : ∀ v ∈ vs, v ≠ [] ∧ ∀ ch ∈ v, isWs ch = false) :
    ∃ c r, (joinSp vs).reverse = c :: r ∧ isWs c = false := by
  induction vs with
  | nil => exact absurd rfl hne
  | cons a rest ih =>
    cases rest with
    | nil =>
      obtain ⟨hane, haws⟩ := h a (by simp)
      cases hr : a.reverse with
      | nil => simp at hr; exact absurd hr hane
      | cons c r =>
        refine ⟨c, r, by simpa [joinSp] using hr, haws c ?_⟩
        have : c ∈ a.reverse := by rw [hr]; simp
        simpa using this
    | cons b rest' =>
      obtain ⟨c, r, hcr, hc⟩ := ih (by simp) (fun v hv => h v (List.mem_cons_of_mem _ hv))
      exact ⟨c, r ++ 32 :: a.reverse, by simp [joinSp, hcr], hc⟩

/-- what `uci get` prints for a list of forwarders is not changed by strings.TrimSpace -/
theorem trimSpace_joinSp (vs : List Bytes) (hne : vs ≠ []) (h : ∀ v ∈ vs, v ≠ [] ∧ ∀ ch ∈ v, isWs ch = false) :
    trimSpace (joinSp vs) = joinSp vs := by
  obtain ⟨c1, r1, e1, w1⟩ := joinSp_head vs hne h
  obtain ⟨c2, r2, e2, w2⟩ := joinSp_last vs hne h
  apply trimSpace_eq_self
  · intro c r e; rw [e1] at e; cases e; exact w1
  · intro c r e; rw [e2] at e; cases e; exact w2

theorem joinSp_ne_nil (vs : List Bytes) (hne : vs ≠ []) (h : ∀ v ∈ vs, v ≠ [] ∧ ∀ ch ∈ v, isWs ch = false) :
    joinSp vs ≠ [] := by
  obtain ⟨c1, r1, e1, _⟩ := joinSp_head vs hne h
  rw [e1]; simp

/-! ### a value of the list is a substring of what `uci get` prints -/

theorem isPrefix_append_self (p q : Bytes) : isPrefix p (p ++ q) = true := by
  induction p with
  | nil => cases q <;> rfl
  | cons a p ih => simp [isPrefix, ih]

theorem containsSub_append (pat a q : Bytes) : containsSub pat (a ++ pat ++ q) = true := by
  induction a with
  | nil =>
    cases h : pat ++ q with
    | nil =>
      obtain ⟨hp, hq⟩ := List.append_eq_nil_iff.1 h
      subst hp; subst hq; rfl
    | cons c l =>
      simp only [List.nil_append, h, containsSub]
      rw [← h, isPrefix_append_self]; rfl
  | cons x a ih =>
    simp only [List.cons_append, containsSub, ih, Bool.or_true]

theorem dropWs_head (b : Bytes) : dropWs b = [] ∨ ∃ c r, dropWs b = c :: r ∧ isWs c = false := by
  induction b with
  | nil => exact Or.inl rfl
  | cons x b ih =>
    by_cases hx : isWs x = true
    · simpa [dropWs, hx] using ih
    · exact Or.inr ⟨x, b, by simp [dropWs, hx], by simpa using hx⟩

theorem dropWs_append_keep (p e q : Bytes) (he : ∃ c r, e = c :: r ∧ isWs c = false) :
    ∃ p', dropWs (p ++ e ++ q) = p' ++ e ++ q := by
  obtain ⟨c, r, rfl, hc⟩ := he
  induction p with
  | nil => exact ⟨[], by simp [dropWs, hc]⟩
  | cons x p ih =>
    by_cases hx : isWs x = true
    · obtain ⟨p', hp'⟩ := ih
      exact ⟨p', by simpa [dropWs, hx] using hp'⟩
    · exact ⟨x :: p, by simp [dropWs, hx]⟩

/-- strings.TrimSpace keeps an inner piece whose first and last bytes are not white space -/
theorem trimSpace_append_keep (p e q : Bytes) (h1 : ∃ c r, e = c :: r ∧ isWs c = false)
    (h2 : ∃ c r, e.reverse = c :: r ∧ isWs c = false) :
    ∃ p' q', trimSpace (p ++ e ++ q) = p' ++ e ++ q' := by
  obtain ⟨p', hp'⟩ := dropWs_append_keep p e q h1
  obtain ⟨q', hq'⟩ := dropWs_append_keep q.reverse e.reverse p'.reverse h2
  refine ⟨p', q'.reverse, ?_⟩
  unfold trimSpace
  rw [hp']
  have : (p' ++ e ++ q).reverse = q.reverse ++ e.reverse ++ p'.reverse := by simp
  rw [this, hq']
  simp

theorem mem_joinSp (e : Bytes) (ds : List Bytes) (h : e ∈ ds) : ∃ p q, joinSp ds = p ++ e ++ q := by
  induction ds with
  | nil => simp at h
  | cons a rest ih =>
    cases rest with
    | nil =>
      have : e = a := by simpa using h
      subst this
      exact ⟨[], [], by simp [joinSp]⟩
    | cons b rest' =>
      rcases List.mem_cons.1 h with rfl | hm
      · exact ⟨[], 32 :: joinSp (b :: rest'), by simp [joinSp]⟩
      · obtain ⟨p, q, hpq⟩ := ih hm
        exact ⟨a ++ 32 :: p, q, by simp [joinSp, hpq]⟩

/-- the last byte of a trimmed text is not white space -/
theorem trimSpace_last (x : Bytes) :
    trimSpace x = [] ∨ ∃ c r, (trimSpace x).reverse = c :: r ∧ isWs c = false := by
  unfold trimSpace
  rcases dropWs_head (dropWs x).reverse with h | ⟨c, r, h, hc⟩
  · left; rw [h]; rfl
  · right; exact ⟨c, r, by rw [List.reverse_reverse]; exact h, hc⟩

/-- ensureDHCPOption's `strings.Contains` test finds every list element equal to `6,<ip>` -/
theorem expected_not_mem (x : Bytes) (ds : List Bytes)
    (h : containsSub (b!"6," ++ trimSpace x) (trimSpace (joinSp ds)) = false) :
    (b!"6," ++ trimSpace x) ∉ ds := by
  intro hm
  obtain ⟨p, q, hpq⟩ := mem_joinSp _ ds hm
  have h1 : ∃ c r, (b!"6," ++ trimSpace x) = c :: r ∧ isWs c = false := ⟨54, 44 :: trimSpace x, rfl, by decide⟩
  have h2 : ∃ c r, (b!"6," ++ trimSpace x).reverse = c :: r ∧ isWs c = false := by
    rcases trimSpace_last x with h0 | ⟨c, r, h0, hc⟩
    · rw [h0]; exact ⟨44, [54], rfl, by decide⟩
    · exact ⟨c, r ++ [44, 54], by simp [h0], hc⟩
  obtain ⟨p', q', hk⟩ := trimSpace_append_keep p _ q h1 h2
  rw [hpq, hk, containsSub_append] at h
  exact Bool.noConfusion h
/-! ### the uci shim commands on the staged store, as maps -/

theorem uciCommit_uciC (s : Sys) : (uciCommit s).uciC = s.uciS := rfl
theorem uciCommit_uciS (s : Sys) : (uciCommit s).uciS = s.uciS := rfl

theorem uciDelete_uciC (s : Sys) (k : Bytes) : (uciDelete s k).2.uciC = s.uciC := by
  unfold uciDelete; split <;> rfl

theorem uciDelete_uciS_some (s : Sys) (k : Bytes) (vs : List Bytes) (h : aget s.uciS k = some vs) :
    (uciDelete s k).2.uciS = adel s.uciS k := by
  simp [uciDelete, h]

theorem aget_uciDelete (s : Sys) (k k' : Bytes) :
    aget (uciDelete s k).2.uciS k' = if k = k' then none else aget s.uciS k' := by
  unfold uciDelete
  split
  · rename_i h
    by_cases hk : k = k'
    · subst hk; simp [h]
    · simp [hk]
  · simp [aget_adel]

theorem uciAddList_uciS (s : Sys) (k v : Bytes) :
    (uciAddList s k v).uciS = aset s.uciS k ((aget s.uciS k).getD [] ++ [v]) := rfl

theorem uciAddList_uciC (s : Sys) (k v : Bytes) : (uciAddList s k v).uciC = s.uciC := rfl

theorem aget_uciAddList (s : Sys) (k v k' : Bytes) :
    aget (uciAddList s k v).uciS k' = if k = k' then some ((aget s.uciS k).getD [] ++ [v]) else aget s.uciS k' := by
  rw [uciAddList_uciS, aget_aset]

theorem uciDelList_uciC (s : Sys) (k v : Bytes) : (uciDelList s k v).uciC = s.uciC := by
  unfold uciDelList
  split
  · rfl
  · simp only []; split <;> rfl

theorem uciDelList_uciS_congr (a b : Sys) (k v : Bytes) (h : a.uciS = b.uciS) :
    (uciDelList a k v).uciS = (uciDelList b k v).uciS := by
  unfold uciDelList
  rw [h]
  cases aget b.uciS k with
  | none => exact h
  | some vs =>
    simp only []
    split <;> rfl

/-- `del_list K=V`: the other keys keep their values; K keeps the values different from V and
disappears when none is left -/
theorem aget_uciDelList (s : Sys) (k v k' : Bytes) :
    aget (uciDelList s k v).uciS k' =
      if k = k' then
        match aget s.uciS k with
        | none => none
        | some vs => if (vs.filter (· ≠ v)).isEmpty then none else some (vs.filter (· ≠ v))
      else aget s.uciS k' := by
  unfold uciDelList
  cases h : aget s.uciS k with
  | none =>
    by_cases hk : k = k'
    · subst hk; simp [h]
    · simp [hk]
  | some vs =>
    simp only []
    by_cases he : (vs.filter (· ≠ v)).isEmpty
    · simp only [he, if_true]; rw [aget_adel]
    · simp only [he]; rw [if_neg (by simp), aget_aset]; simp

/-! ### Restore re-adding the saved forwarders -/

theorem aget_owRestoreFwd_ne (fs : List Bytes) (s : Sys) (k : Bytes) (hk : kServer ≠ k) :
    aget (owRestoreFwd fs s).uciS k = aget s.uciS k := by
  induction fs generalizing s with
  | nil => rfl
  | cons f fs ih =>
    simp only [owRestoreFwd]
    rw [ih, aget_uciAddList]; simp [hk]

theorem aget_owRestoreFwd_server (fs : List Bytes) (hne : fs ≠ []) (s : Sys) :
    aget (owRestoreFwd fs s).uciS kServer = some ((aget s.uciS kServer).getD [] ++ fs) := by
  induction fs generalizing s with
  | nil => exact absurd rfl hne
  | cons f fs ih =>
    simp only [owRestoreFwd]
    cases fs with
    | nil => simp [owRestoreFwd, aget_uciAddList]
    | cons g gs =>
      rw [ih (by simp), aget_uciAddList]; simp

/-- from an absent key the saved list is rebuilt exactly -/
theorem aget_owRestoreFwd_absent (fs : List Bytes) (hne : fs ≠ []) (s : Sys) (h : aget s.uciS kServer = none) :
    aget (owRestoreFwd fs s).uciS kServer = some fs := by
  rw [aget_owRestoreFwd_server fs hne s, h]; simp

/-! ### rendering does not look at the saved forwarders -/

theorem renderFw_savedFwd (c : FwConsts) (o : Obj) (f : Bytes) : renderFw c { o with savedFwd := f } = renderFw c o := rfl

theorem writeTemplate_ok_iff (c : FwConsts) (o : Obj) (s : Sys) :
    (writeTemplate c o s).1 = true ↔ ∃ b, renderFw c o = .ok b := by
  unfold writeTemplate
  cases renderFw c o <;> simp

/-! ### the committed and staged stores after ensureDHCPOption / Restore -/

/-- Setup's common tail, when the drop-in renders and the LAN address is known -/
theorem owFinish_eq (c : FwConsts) (o : Obj) (s : Sys) (ip : Bytes) (b : Bytes)
    (hr : renderFw c o = .ok b) (hip : uciGet s kLanIP = some ip) :
    owFinish c o s =
      let s1 : Sys := { s with files := aset s.files o.path b }
      let s2 := match uciGet s1 kDhcpOpt with
        | some cur => if containsSub (b!"6," ++ ip) cur then s1 else uciCommit (uciAddList s1 kDhcpOpt (b!"6," ++ ip))
        | none => uciCommit (uciAddList s1 kDhcpOpt (b!"6," ++ ip))
      ((runCmds c.cmds s2).1, o, (runCmds c.cmds s2).2) := by
  have hw : writeTemplate c o s = (true, { s with files := aset s.files o.path b }) := by
    simp [writeTemplate, hr]
  have hip' : uciGet { s with files := aset s.files o.path b } kLanIP = some ip := hip
  simp only [owFinish, hw, Bool.not_true, Bool.false_eq_true, if_false, hip']
  rfl

/-- Restore, when the LAN address is known after the forwarders are back -/
theorem owRestore_eq (c : FwConsts) (o : Obj) (s s1 : Sys) (ip : Bytes)
    (hs1 : s1 = if o.savedFwd ≠ [] then uciCommit (owRestoreFwd (splitSp o.savedFwd) s) else s)
    (hip : uciGet s1 kLanIP = some ip) :
    owRestore c o s =
      let s2 := uciCommit (uciDelList { s1 with files := adel s1.files o.path } kDhcpOpt (b!"6," ++ ip))
      ((runCmds c.cmds s2).1, o, (runCmds c.cmds s2).2) := by
  have hip' : uciGet { s1 with files := adel s1.files o.path } kLanIP = some ip := hip
  simp only [owRestore, ← hs1, hip']

/-- Setup's common tail when the drop-in renders, the LAN address is known and the DHCP option is
not yet there: `6,<ip>` is appended to dhcp.lan.dhcp_option and the store is committed; nothing else
happens to uci, whatever the service commands do. -/
theorem owFinish_uci (c : FwConsts) (o : Obj) (s : Sys) (ip : Bytes)
    (hr : (writeTemplate c o s).1 = true) (hip : uciGet s kLanIP = some ip)
    (hopt : ∀ ds, aget s.uciS kDhcpOpt = some ds → containsSub (b!"6," ++ ip) (trimSpace (joinSp ds)) = false) :
    (owFinish c o s).2.1 = o ∧
    (owFinish c o s).2.2.uciS = aset s.uciS kDhcpOpt ((aget s.uciS kDhcpOpt).getD [] ++ [b!"6," ++ ip]) ∧
    (owFinish c o s).2.2.uciC = aset s.uciS kDhcpOpt ((aget s.uciS kDhcpOpt).getD [] ++ [b!"6," ++ ip]) := by
  obtain ⟨b, hb⟩ := (writeTemplate_ok_iff c o s).1 hr
  rw [owFinish_eq c o s ip b hb hip]
  simp only []
  refine ⟨trivial, ?_⟩
  rw [(runCmds_preserves c.cmds _).2.1, (runCmds_preserves c.cmds _).2.2.1]
  generalize b!"6," ++ ip = e at hopt ⊢
  cases hd : aget s.uciS kDhcpOpt with
  | none =>
    simp [uciGet, hd, uciCommit, uciAddList]
  | some ds =>
    simp [uciGet, hd, hopt ds hd, uciCommit, uciAddList]

/-- Restore when the LAN address is known: the committed store is the staged one after re-adding the
saved forwarders and `del_list dhcp.lan.dhcp_option=6,<ip>`, whatever the service commands do. -/
theorem owRestore_uci (c : FwConsts) (o : Obj) (s : Sys) (ip : Bytes)
    (hip : uciGet s kLanIP = some ip) :
    (owRestore c o s).2.2.uciC =
      (uciDelList (if o.savedFwd ≠ [] then owRestoreFwd (splitSp o.savedFwd) s else s) kDhcpOpt (b!"6," ++ ip)).uciS := by
  have hip1 : uciGet (if o.savedFwd ≠ [] then uciCommit (owRestoreFwd (splitSp o.savedFwd) s) else s) kLanIP = some ip := by
    by_cases hf : o.savedFwd ≠ []
    · rw [if_pos hf]
      unfold uciGet at hip ⊢
      rw [uciCommit_uciS, aget_owRestoreFwd_ne _ _ _ kServer_ne_kLanIP]; exact hip
    · rw [if_neg hf]; exact hip
  rw [owRestore_eq c o s _ ip rfl hip1]
  simp only []
  rw [(runCmds_preserves c.cmds _).2.1, uciCommit_uciC]
  apply uciDelList_uciS_congr
  by_cases hf : o.savedFwd ≠ []
  · rw [if_pos hf, if_pos hf]; rfl
  · rw [if_neg hf, if_neg hf]

theorem filter_ne_append_self (ds : List Bytes) (e : Bytes) (h : e ∉ ds) :
    (ds ++ [e]).filter (· ≠ e) = ds := by
  have : ds.filter (· ≠ e) = ds := by
    rw [List.filter_eq_self]
    intro a ha
    have : a ≠ e := fun hae => h (hae ▸ ha)
    simp [this]
  rw [List.filter_append, this]
  simp

theorem splitSpAux_ne_nil (b cur : Bytes) : splitSpAux b cur ≠ [] := by
  induction b generalizing cur with
  | nil => simp [splitSpAux]
  | cons c r ih =>
    unfold splitSpAux
    split
    · simp
    · exact ih _

theorem splitSp_ne_nil (b : Bytes) : splitSp b ≠ [] := splitSpAux_ne_nil b []

theorem writeTemplate_fst_savedFwd (c : FwConsts) (o : Obj) (f : Bytes) (s s' : Sys) :
    (writeTemplate c { o with savedFwd := f } s').1 = true ↔ (writeTemplate c o s).1 = true := by
  rw [writeTemplate_ok_iff, writeTemplate_ok_iff, renderFw_savedFwd]

/-- Setup's tail followed by Restore, as a map on the committed store: the forwarders are what
`savedFwd` splits into, every other key is as before the tail. -/
theorem ow_finish_restore_uci (c : FwConsts) (o : Obj) (s : Sys) (ip : Bytes)
    (hr : (writeTemplate c o s).1 = true) (hip : uciGet s kLanIP = some ip)
    (hopt : ∀ ds, aget s.uciS kDhcpOpt = some ds →
      ds ≠ [] ∧ (b!"6," ++ ip) ∉ ds ∧ containsSub (b!"6," ++ ip) (trimSpace (joinSp ds)) = false)
    (hsrv : aget s.uciS kServer = none) (k : Bytes) :
    aget (owRestore c (owFinish c o s).2.1 (owFinish c o s).2.2).2.2.uciC k =
      if kServer = k then (if o.savedFwd ≠ [] then some (splitSp o.savedFwd) else none) else aget s.uciS k := by
  obtain ⟨ho, hS, _⟩ := owFinish_uci c o s ip hr hip (fun ds hd => (hopt ds hd).2.2)
  rw [ho]
  generalize (owFinish c o s).2.2 = s1 at hS
  have hip1 : uciGet s1 kLanIP = some ip := by
    unfold uciGet at hip ⊢
    rw [hS, aget_aset_ne _ _ _ _ kDhcpOpt_ne_kLanIP]; exact hip
  rw [owRestore_uci c o s1 ip hip1, aget_uciDelList]
  -- the staged store after the forwarders are back
  have hother : ∀ k', kServer ≠ k' →
      aget (if o.savedFwd ≠ [] then owRestoreFwd (splitSp o.savedFwd) s1 else s1).uciS k' = aget s1.uciS k' := by
    intro k' hk'
    by_cases hf : o.savedFwd ≠ []
    · rw [if_pos hf, aget_owRestoreFwd_ne _ _ _ hk']
    · rw [if_neg hf]
  have hs1srv : aget s1.uciS kServer = none := by
    rw [hS, aget_aset_ne _ _ _ _ (Ne.symm kServer_ne_kDhcpOpt)]; exact hsrv
  by_cases hk : kDhcpOpt = k
  · subst hk
    rw [if_pos rfl, if_neg kServer_ne_kDhcpOpt, hother _ kServer_ne_kDhcpOpt, hS, aget_aset_self]
    simp only []
    cases hd : aget s.uciS kDhcpOpt with
    | none => simp
    | some ds =>
      obtain ⟨hne, hnm, _⟩ := hopt ds hd
      simp only [Option.getD_some]
      rw [filter_ne_append_self ds _ hnm]
      simp [hne]
  · rw [if_neg hk]
    by_cases hks : kServer = k
    · subst hks
      rw [if_pos rfl]
      by_cases hf : o.savedFwd ≠ []
      · rw [if_pos hf, if_pos hf, aget_owRestoreFwd_absent _ (splitSp_ne_nil _) _ hs1srv]
      · rw [if_neg hf, if_neg hf]; exact hs1srv
    · rw [if_neg hks, hother _ hks, hS, aget_aset_ne _ _ _ _ hk]

/-! ### the theorem -/

/-- core form: no assumption on the committed store of the start state (the conclusion compares with
the STAGED store, which is what both `uci commit`s publish) -/
theorem ow_setup_restore_uci_core (c : FwConsts) (o : Obj) (s : Sys) (ip : Bytes)
    (hcache : o.cache = false)
    (hip : uciGet s kLanIP = some ip)
    (hopt : ∀ ds, aget s.uciS kDhcpOpt = some ds →
      ds ≠ [] ∧ (b!"6," ++ ip) ∉ ds ∧ containsSub (b!"6," ++ ip) (trimSpace (joinSp ds)) = false)
    (hfwd : ∀ vs, aget s.uciS kServer = some vs → vs ≠ [] ∧ ∀ v ∈ vs, v ≠ [] ∧ ∀ ch ∈ v, isWs ch = false)
    (hrender : (writeTemplate c o s).1 = true) :
    let r1 := owSetupDNSMasq c o s
    let r2 := owRestore c r1.2.1 r1.2.2
    ∀ k, aget r2.2.2.uciC k = aget s.uciS k := by
  intro r1 r2 k
  cases hsrv : aget s.uciS kServer with
  | none =>
    have hr1 : r1 = owFinish c { o with savedFwd := [] } s := by
      show owSetupDNSMasq c o s = _
      simp [owSetupDNSMasq, hcache, uciGet, hsrv]
    show aget (owRestore c r1.2.1 r1.2.2).2.2.uciC k = _
    rw [hr1, ow_finish_restore_uci c _ s ip ((writeTemplate_fst_savedFwd c o [] s s).2 hrender) hip hopt hsrv k]
    by_cases hk : kServer = k
    · subst hk; simp [hsrv]
    · simp [hk]
  | some vs =>
    obtain ⟨hne, hvs⟩ := hfwd vs hsrv
    have hr1 : r1 = owFinish c { o with savedFwd := joinSp vs } (uciCommit (uciDelete s kServer).2) := by
      show owSetupDNSMasq c o s = _
      simp [owSetupDNSMasq, hcache, uciGet, hsrv, trimSpace_joinSp vs hne hvs]
    have hS0 : ∀ k', aget (uciCommit (uciDelete s kServer).2).uciS k' = if kServer = k' then none else aget s.uciS k' := by
      intro k'; rw [uciCommit_uciS, aget_uciDelete]
    have hip0 : uciGet (uciCommit (uciDelete s kServer).2) kLanIP = some ip := by
      unfold uciGet at hip ⊢
      rw [hS0, if_neg kServer_ne_kLanIP]; exact hip
    have hopt0 : ∀ ds, aget (uciCommit (uciDelete s kServer).2).uciS kDhcpOpt = some ds →
        ds ≠ [] ∧ (b!"6," ++ ip) ∉ ds ∧ containsSub (b!"6," ++ ip) (trimSpace (joinSp ds)) = false := by
      intro ds hd
      rw [hS0, if_neg kServer_ne_kDhcpOpt] at hd
      exact hopt ds hd
    have hsrv0 : aget (uciCommit (uciDelete s kServer).2).uciS kServer = none := by
      rw [hS0, if_pos rfl]
    have hrender0 := (writeTemplate_fst_savedFwd c o (joinSp vs) s (uciCommit (uciDelete s kServer).2)).2 hrender
    show aget (owRestore c r1.2.1 r1.2.2).2.2.uciC k = _
    rw [hr1, ow_finish_restore_uci c _ _ ip hrender0 hip0 hopt0 hsrv0 k]
    by_cases hk : kServer = k
    · subst hk
      rw [if_pos rfl, hsrv]
      show (if joinSp vs ≠ [] then some (splitSp (joinSp vs)) else none) = some vs
      rw [if_pos (joinSp_ne_nil vs hne hvs),
        splitSp_joinSp vs hne (fun v hv => not_mem_32_of_no_ws v (hvs v hv).2)]
    · rw [if_neg hk, hS0, if_neg hk]


/-- the same with the weakest form of the DHCP-option hypothesis — exactly the `strings.Contains`
test of ensureDHCPOption failing, on a non-empty list (that `6,<ip>` is then not an element of the
list is `expected_not_mem`) — and without the assumption that staged and committed stores agree
at the start: changes the user had staged are published by Setup's `uci commit` and stay. -/
theorem ow_setup_restore_uci_staged (c : FwConsts) (o : Obj) (s : Sys) (ip : Bytes)
    (hcache : o.cache = false)
    (hip : uciGet s kLanIP = some ip)
    (hopt : ∀ ds, aget s.uciS kDhcpOpt = some ds →
      ds ≠ [] ∧ containsSub (b!"6," ++ ip) (trimSpace (joinSp ds)) = false)
    (hfwd : ∀ vs, aget s.uciS kServer = some vs → vs ≠ [] ∧ ∀ v ∈ vs, v ≠ [] ∧ ∀ ch ∈ v, isWs ch = false)
    (hrender : (writeTemplate c o s).1 = true) :
    let r1 := owSetupDNSMasq c o s
    let r2 := owRestore c r1.2.1 r1.2.2
    ∀ k, aget r2.2.2.uciC k = aget s.uciS k := by
  have hx : ∃ x, ip = trimSpace x := by
    unfold uciGet at hip
    cases h : aget s.uciS kLanIP with
    | none => rw [h] at hip; simp at hip
    | some vs => rw [h] at hip; exact ⟨joinSp vs, (Option.some.inj hip).symm⟩
  obtain ⟨x, rfl⟩ := hx
  exact ow_setup_restore_uci_core c o s _ hcache hip
    (fun ds hd => ⟨(hopt ds hd).1, expected_not_mem x ds (hopt ds hd).2, (hopt ds hd).2⟩) hfwd hrender

/-- openwrt, cache off: after Setup and then Restore every key of the committed uci store has the
value it had before — provided the stores were in sync, the LAN address is known, the DHCP option
`6,<router ip>` is not already present (the other case is the recorded finding
`NV.C20.restore_undoes_openwrt_dhcp_option_violated`), the forwarders are a non-empty list of
non-empty white-space-free values, and the drop-in renders.  The outcome of the service commands
(both `r1.1` and `r2.1`) does not matter. -/
theorem ow_setup_restore_uci (c : FwConsts) (o : Obj) (s : Sys) (ip : Bytes)
    (hsync : s.uciS = s.uciC)
    (hcache : o.cache = false)
    (hip : uciGet s kLanIP = some ip)
    (hopt : ∀ ds, aget s.uciS kDhcpOpt = some ds →
      ds ≠ [] ∧ (b!"6," ++ ip) ∉ ds ∧ containsSub (b!"6," ++ ip) (trimSpace (joinSp ds)) = false)
    (hfwd : ∀ vs, aget s.uciS kServer = some vs → vs ≠ [] ∧ ∀ v ∈ vs, v ≠ [] ∧ ∀ ch ∈ v, isWs ch = false)
    (hrender : (writeTemplate c o s).1 = true) :
    let r1 := owSetupDNSMasq c o s
    let r2 := owRestore c r1.2.1 r1.2.2
    ∀ k, aget r2.2.2.uciC k = aget s.uciC k := by
  intro r1 r2 k
  rw [← hsync]
  exact ow_setup_restore_uci_core c o s ip hcache hip hopt hfwd hrender k

end NV.Router

/-! ### the hypotheses are satisfiable -/
namespace NV.Router
open NV NV.Tmpl

/-- an OpenWrt router with two forwarders and a DHCP option list of the user's own -/
def uciExStore : UStore :=
  [(kLanIP, [b!"192.168.1.1"]), (kServer, [b!"8.8.8.8", b!"1.1.1.1"]), (kDhcpOpt, [b!"3,192.168.1.1"]),
   (kPort, [b!"53"])]

def uciExSys : Sys :=
  { files := [(b!"/etc/os-release", b!"ID=\"openwrt\"\n")], uciS := uciExStore, uciC := uciExStore }

def uciExObj : Obj := { path := Hand.openwrt.path, report := true }

/-- non-vacuity of `ow_setup_restore_uci`: every hypothesis holds on `uciExSys`, and there both sides
of the conclusion are `some …` for the forwarders and for the DHCP options (and both service
command runs succeed) -/
example :
    let c := Hand.openwrt
    let o := uciExObj
    let s := uciExSys
    let ip := b!"192.168.1.1"
    s.uciS = s.uciC ∧ o.cache = false ∧ uciGet s kLanIP = some ip ∧
    (∀ ds, aget s.uciS kDhcpOpt = some ds →
      ds ≠ [] ∧ (b!"6," ++ ip) ∉ ds ∧ containsSub (b!"6," ++ ip) (trimSpace (joinSp ds)) = false) ∧
    (∀ vs, aget s.uciS kServer = some vs → vs ≠ [] ∧ ∀ v ∈ vs, v ≠ [] ∧ ∀ ch ∈ v, isWs ch = false) ∧
    (writeTemplate c o s).1 = true ∧
    (let r1 := owSetupDNSMasq c o s
     let r2 := owRestore c r1.2.1 r1.2.2
     r1.1 = true ∧ r2.1 = true ∧
     aget r1.2.2.uciC kServer = none ∧
     aget r1.2.2.uciC kDhcpOpt = some [b!"3,192.168.1.1", b!"6,192.168.1.1"] ∧
     aget s.uciC kServer = some [b!"8.8.8.8", b!"1.1.1.1"] ∧
     aget r2.2.2.uciC kServer = some [b!"8.8.8.8", b!"1.1.1.1"] ∧
     aget s.uciC kDhcpOpt = some [b!"3,192.168.1.1"] ∧
     aget r2.2.2.uciC kDhcpOpt = some [b!"3,192.168.1.1"] ∧
     -- the store is the same MAP, not the same list: the forwarders moved to the end
     r2.2.2.uciC ≠ s.uciC) := by
  refine ⟨by decide, by decide, by decide +kernel, ?_, ?_, by decide +kernel, by decide +kernel⟩
  · intro ds h
    have h0 : aget uciExSys.uciS kDhcpOpt = some [b!"3,192.168.1.1"] := by decide +kernel
    rw [h0] at h
    cases h
    decide +kernel
  · intro vs h
    have h0 : aget uciExSys.uciS kServer = some [b!"8.8.8.8", b!"1.1.1.1"] := by decide +kernel
    rw [h0] at h
    cases h
    decide +kernel

end NV.Router

