/-
  NV.Lemmas.ReplyName — the name a locally built reply carries: `packName` of the text form dnsmessage
  shows for a label list is the wire encoding of that list, when no label contains a dot.
-/
import NV.Lemmas.Query
import NV.Model.Reply
namespace NV
open NV.Spec

theorem optStep_fixed (o : Opt) (q : Query) :
    (optStep o q).id = q.id ∧ (optStep o q).name = q.name ∧ (optStep o q).type = q.type ∧
    (optStep o q).cls = q.cls := by
  unfold optStep
  by_cases h1 : o.code = 0xfde9
  · simp [h1]
  · by_cases h2 : o.code = 8
    · by_cases h3 : o.data.length < 8
      · simp [h2, h3]
      · by_cases h4 : byteAt o.data 1 = 1
        · by_cases h6 : byteAt o.data 2 = 32 <;> simp [h2, h3, h4, h6]
        · by_cases h5 : byteAt o.data 1 = 2
          · by_cases h6 : byteAt o.data 2 = 128 <;> by_cases h7 : 20 ≤ o.data.length <;> simp [h2, h3, h5, h6, h7]
          · simp [h2, h3, h4, h5]
    · simp [h1, h2]

theorem applyOpts_fixed (os : List Opt) : ∀ q : Query,
    (applyOpts os q).id = q.id ∧ (applyOpts os q).name = q.name ∧ (applyOpts os q).type = q.type ∧
    (applyOpts os q).cls = q.cls := by
  induction os with
  | nil => intro q; simp [applyOpts]
  | cons o os ih =>
    intro q
    rw [applyOpts_cons]
    have h1 := ih (optStep o q)
    have h2 := optStep_fixed o q
    simp [h1, h2]

/-- one label (no dot inside) followed by its dot -/
theorem packLabels_label (l : Bytes) (hd : (46 : UInt8) ∉ l) : ∀ (seg rest : Bytes),
    packLabels (l ++ 46 :: rest) seg =
      (if (seg ++ l).length ≥ 64 then none
       else if (seg ++ l).length = 0 then none
       else (packLabels rest []).map fun tail => (UInt8.ofNat (seg ++ l).length :: (seg ++ l)) ++ tail) := by
  induction l with
  | nil => intro seg rest; simp [packLabels]
  | cons c l ih =>
    intro seg rest
    have hc : c ≠ 46 := by intro h; apply hd; simp [h]
    have hl : (46 : UInt8) ∉ l := by intro h; apply hd; simp [h]
    simp only [List.cons_append, packLabels, hc, if_false]
    rw [ih hl (seg ++ [c]) rest]
    simp

theorem packLabels_dotted (ls : List Bytes) (hl : ∀ l ∈ ls, 1 ≤ l.length ∧ l.length ≤ 63)
    (hd : ∀ l ∈ ls, (46 : UInt8) ∉ l) : packLabels (dotted ls) [] = some (encLabels ls) := by
  induction ls with
  | nil => simp [dotted, packLabels, encLabels]
  | cons l ls ih =>
    have h1 := hl l (by simp)
    simp only [dotted]
    rw [packLabels_label l (hd l (by simp)) [] (dotted ls)]
    rw [ih (fun x hx => hl x (by simp [hx])) (fun x hx => hd x (by simp [hx]))]
    simp only [List.nil_append]
    rw [if_neg (by omega), if_neg (by omega)]
    simp [encLabels, b8]
    rw [Nat.mod_eq_of_lt (by omega)]


theorem dotted_getLast : ∀ (ls : List Bytes), ls ≠ [] → (dotted ls).getLast? = some 46
  | [], h => absurd rfl h
  | [l], _ => by simp [dotted, List.getLast?_append]
  | l :: m :: ms, _ => by
    have ih := dotted_getLast (m :: ms) (by simp)
    simp only [dotted] at ih ⊢
    rw [List.getLast?_append]
    have hne : m ++ 46 :: dotted ms ≠ [] := by simp
    rw [List.getLast?_cons, ]
    cases hx : m ++ 46 :: dotted ms with
    | nil => exact absurd hx hne
    | cons a as => rw [hx] at ih; simp [ih]

theorem packName_shown (ls : List Bytes) (h : LabelsOK ls) (hd : ∀ l ∈ ls, (46 : UInt8) ∉ l) :
    packName (shown ls) = some (encLabels ls) := by
  unfold shown
  cases ls with
  | nil => simp [packName, encLabels]
  | cons l ls =>
    have h1 := h.1 l (by simp)
    have hlen := h.2
    have hne : dotted (l :: ls) ≠ [46] := by
      cases l with
      | nil => simp at h1
      | cons c l' =>
        have hc : c ≠ 46 := by intro hc; exact hd (c :: l') (by simp) (by simp [hc])
        simp [dotted, hc]
    have hlast := dotted_getLast (l :: ls) (by simp)
    have hpos : (dotted (l :: ls)).length ≠ 0 := by simp [dotted]
    unfold packName
    simp only [List.cons_ne_nil, if_false]
    rw [if_neg (by omega), if_neg (by simp [hlast]), if_neg hne]
    exact packLabels_dotted (l :: ls) h.1 hd

end NV
