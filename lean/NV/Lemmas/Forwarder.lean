/-
  NV.Lemmas.Forwarder — helper lemmas for Props/C10 (not property statements).
-/
import NV.Model.Forwarder
namespace NV.Fwd
open NV

/-! ### ASCII folding -/

theorem lowerB_table : ∀ n : Fin 256,
    lowerB (lowerB (UInt8.ofNat n.val)) = lowerB (UInt8.ofNat n.val) ∧
    (lowerB (UInt8.ofNat n.val) = dot ↔ UInt8.ofNat n.val = dot) := by decide +kernel

theorem lowerB_idem (b : UInt8) : lowerB (lowerB b) = lowerB b := by
  have h := (lowerB_table ⟨b.toNat, UInt8.toNat_lt b⟩).1
  simpa using h

theorem lowerB_eq_dot (b : UInt8) : lowerB b = dot ↔ b = dot := by
  have h := (lowerB_table ⟨b.toNat, UInt8.toNat_lt b⟩).2
  simpa using h

@[simp] theorem lowerB_dot : lowerB dot = dot := (lowerB_eq_dot dot).2 rfl

@[simp] theorem lower_nil : lower [] = [] := rfl
@[simp] theorem lower_cons (b : UInt8) (s : Bytes) : lower (b :: s) = lowerB b :: lower s := rfl
@[simp] theorem lower_append (a b : Bytes) : lower (a ++ b) = lower a ++ lower b := by simp [lower]
@[simp] theorem lower_length (s : Bytes) : (lower s).length = s.length := by simp [lower]
@[simp] theorem lower_lower (s : Bytes) : lower (lower s) = lower s := by
  induction s with
  | nil => rfl
  | cons b s ih => simp [ih, lowerB_idem]

theorem lower_eq_nil (s : Bytes) : lower s = [] ↔ s = [] := by simp [lower]

theorem dot_mem_lower (s : Bytes) : dot ∈ lower s ↔ dot ∈ s := by
  induction s with
  | nil => simp
  | cons b s ih =>
    simp only [lower_cons, List.mem_cons, ih]
    constructor
    · rintro (h | h)
      · exact Or.inl ((lowerB_eq_dot b).1 h.symm).symm
      · exact Or.inr h
    · rintro (h | h)
      · exact Or.inl ((lowerB_eq_dot b).2 h.symm).symm
      · exact Or.inr h

theorem equalFold_iff (a b : Bytes) : equalFold a b = true ↔ lower a = lower b := by
  induction a generalizing b with
  | nil => cases b <;> simp [equalFold]
  | cons x a ih => cases b with
    | nil => simp [equalFold]
    | cons y b => simp [equalFold, ih]

theorem hasSuffixFold_iff (s suf : Bytes) : hasSuffixFold s suf = true ↔ lower suf <:+ lower s := by
  unfold hasSuffixFold
  rw [List.suffix_iff_eq_drop]
  simp only [Bool.and_eq_true, decide_eq_true_eq, equalFold_iff, lower_length]
  constructor
  · rintro ⟨_, h⟩
    rw [← h]; simp [lower, List.map_drop]
  · intro h
    have hl : suf.length ≤ s.length := by
      have := congrArg List.length h
      simp at this; omega
    refine ⟨hl, ?_⟩
    rw [h]; simp [lower, List.map_drop]

theorem hasSuffix_iff (s suf : Bytes) : hasSuffix s suf = true ↔ suf <:+ s := by
  unfold hasSuffix
  rw [List.suffix_iff_eq_drop]
  simp only [Bool.and_eq_true, decide_eq_true_eq, beq_iff_eq]
  constructor
  · rintro ⟨_, h⟩; exact h.symm
  · intro h
    have hl : suf.length ≤ s.length := by
      have := congrArg List.length h
      simp at this; omega
    exact ⟨hl, h.symm⟩

/-- `Match` in propositional form -/
theorem matchD_iff (d n : Bytes) :
    matchD d n = true ↔ d = [] ∨ lower n = lower d ∨ lower (dot :: d) <:+ lower n := by
  unfold matchD isSubDomain
  by_cases hd : d = []
  · simp [hd]
  · simp only [hd, ne_eq, not_false_eq_true, ↓reduceIte, false_or]
    rw [← equalFold_iff, ← hasSuffixFold_iff]
    cases equalFold n d <;> cases hasSuffixFold n (dot :: d) <;> simp

/-! ### names as label lists -/

@[simp] theorem render_nil : render [] = [] := rfl
@[simp] theorem render_cons (l : Bytes) (ls : List Bytes) : render (l :: ls) = l ++ dot :: render ls := by
  simp [render]
@[simp] theorem render_append (a b : List Bytes) : render (a ++ b) = render a ++ render b := by
  simp [render]

theorem lower_render (ls : List Bytes) : lower (render ls) = render (ls.map lower) := by
  induction ls with
  | nil => rfl
  | cons l ls ih => simp [ih]

theorem WF_lower {ls : List Bytes} (h : WF ls) : WF (ls.map lower) := by
  intro l hl
  simp only [List.mem_map] at hl
  obtain ⟨l0, h0, rfl⟩ := hl
  obtain ⟨h1, h2⟩ := h l0 h0
  exact ⟨fun e => h1 ((lower_eq_nil l0).1 e), fun e => h2 ((dot_mem_lower l0).1 e)⟩

theorem WF_cons {l : Bytes} {ls : List Bytes} (h : WF (l :: ls)) : (l ≠ [] ∧ dot ∉ l) ∧ WF ls :=
  ⟨h l (by simp), fun x hx => h x (by simp [hx])⟩

/-- two texts that start with a dot-free label followed by a dot: the first dot is at the same place -/
theorem label_split (l : Bytes) (hl : dot ∉ l) (x R S : Bytes) (h : x ++ dot :: R = l ++ dot :: S) :
    (x = l ∧ R = S) ∨ ∃ x', x = l ++ dot :: x' ∧ x' ++ dot :: R = S := by
  induction l generalizing x with
  | nil =>
    cases x with
    | nil => left; simpa using h
    | cons c x' =>
      right
      simp at h
      exact ⟨x', by simp [h.1], h.2⟩
  | cons a l ih =>
    have ha : a ≠ dot := fun e => hl (by simp [e])
    have hl' : dot ∉ l := fun e => hl (by simp [e])
    cases x with
    | nil => simp at h; exact absurd h.1.symm ha
    | cons c x' =>
      simp at h
      obtain ⟨hc, h⟩ := h
      rcases ih hl' x' h with ⟨h1, h2⟩ | ⟨x'', h1, h2⟩
      · left; exact ⟨by simp [hc, h1], h2⟩
      · right; exact ⟨x'', by simp [hc, h1], h2⟩

theorem render_eq_nil (ls : List Bytes) : render ls = [] ↔ ls = [] := by
  cases ls <;> simp

/-- the text determines the labels (labels without dots) -/
theorem render_inj (a b : List Bytes) (ha : ∀ l ∈ a, dot ∉ l) (hb : ∀ l ∈ b, dot ∉ l)
    (h : render a = render b) : a = b := by
  induction a generalizing b with
  | nil => exact ((render_eq_nil b).1 h.symm).symm
  | cons l a ih =>
    cases b with
    | nil => simp at h
    | cons m b =>
      simp only [render_cons] at h
      rcases label_split m (hb m (by simp)) l _ _ h with ⟨h1, h2⟩ | ⟨x', h1, _⟩
      · rw [h1, ih b (fun x hx => ha x (by simp [hx])) (fun x hx => hb x (by simp [hx])) h2]
      · exact absurd (by rw [h1]; simp) (ha l (by simp))

/-- a suffix of the text that starts right after a dot is the text of a proper label suffix -/
theorem render_dot_suffix (dl nl : List Bytes) (hd : ∀ l ∈ dl, dot ∉ l) (hn : ∀ l ∈ nl, dot ∉ l)
    (x : Bytes) (h : x ++ dot :: render dl = render nl) : ∃ pre, pre ≠ [] ∧ nl = pre ++ dl := by
  induction nl generalizing x with
  | nil => simp at h
  | cons l nl ih =>
    simp only [render_cons] at h
    rcases label_split l (hn l (by simp)) x _ _ h with ⟨_, h2⟩ | ⟨x', _, h2⟩
    · have := render_inj dl nl hd (fun y hy => hn y (by simp [hy])) h2
      exact ⟨[l], by simp, by simp [this]⟩
    · obtain ⟨pre, _, hp⟩ := ih (fun y hy => hn y (by simp [hy])) x' h2
      exact ⟨l :: pre, by simp, by simp [hp]⟩

/-- the text of a non-empty label list ends with a dot -/
theorem render_ends_dot (pre : List Bytes) (h : pre ≠ []) : ∃ x, render pre = x ++ [dot] := by
  have := List.dropLast_concat_getLast h
  rw [← this]
  exact ⟨render pre.dropLast ++ pre.getLast h, by simp⟩

/-- core of `match_iff_label_suffix`, already case-folded -/
theorem text_suffix_iff (dl nl : List Bytes) (hd : ∀ l ∈ dl, dot ∉ l) (hn : ∀ l ∈ nl, dot ∉ l) :
    (render nl = render dl ∨ dot :: render dl <:+ render nl) ↔ dl <:+ nl := by
  constructor
  · rintro (h | ⟨x, h⟩)
    · rw [render_inj nl dl hn hd h]; exact List.suffix_refl _
    · obtain ⟨pre, _, hp⟩ := render_dot_suffix dl nl hd hn x h
      exact ⟨pre, hp.symm⟩
  · rintro ⟨pre, rfl⟩
    by_cases hp : pre = []
    · left; simp [hp]
    · right
      obtain ⟨x, hx⟩ := render_ends_dot pre hp
      exact ⟨x, by simp [hx]⟩

/-! ### Get -/

theorem get_append_of_none (a b : List Fw) (n : Bytes) (h : ∀ f ∈ a, matchD f.domain n = false) :
    getFw (a ++ b) n = getFw b n := by
  induction a with
  | nil => rfl
  | cons f a ih =>
    have hf := h f (by simp)
    simp [getFw, hf]
    exact ih (fun g hg => h g (by simp [hg]))

end NV.Fwd
