/-
  NV.Lemmas.Query — helper lemmas for C13: the dnsmessage model on an ENCODED structured query
  (`NV.Spec.encode`).  Not property obligations.
-/
import NV.Lemmas.Wire
import NV.Model.Query
import NV.Spec.QueryMsg
namespace NV
open NV.Spec

theorem unpackU16_at {msg P S : Bytes} {n off : Nat} (h : msg = P ++ (be16 n ++ S)) (ho : off = P.length)
    (hn : n < 65536) : unpackU16 msg off = .ok (n, off + 2) := by
  subst h ho
  unfold unpackU16
  have : ¬ (P.length + 2 > (P ++ (be16 n ++ S)).length) := by simp
  rw [if_neg this, rd16_append_right0, rd16_be16 n S hn]

theorem unpackU32_at {msg P S : Bytes} {n off : Nat} (h : msg = P ++ (be32 n ++ S)) (ho : off = P.length)
    (hn : n < 4294967296) : unpackU32 msg off = .ok (n, off + 4) := by
  subst h ho
  unfold unpackU32
  have : ¬ (P.length + 4 > (P ++ (be32 n ++ S)).length) := by simp
  rw [if_neg this, rd32_append_right0, rd32_be32 n S hn]

@[simp] theorem encLabels_length_pos (ls : List Bytes) : 1 ≤ (encLabels ls).length := by
  cases ls <;> simp [encLabels]

/-- the name shown by dnsmessage for a label list: "." for the root -/
def shown (ls : List Bytes) : Bytes := if ls = [] then [46] else dotted ls

theorem unpackNameLoop_enc (ls : List Bytes) : ∀ (A B name : Bytes) (newOff : Nat),
    (∀ l ∈ ls, 1 ≤ l.length ∧ l.length ≤ 63) → (name ++ dotted ls).length ≤ 255 →
    unpackNameLoop (A ++ (encLabels ls ++ B)) A.length newOff 0 name
      = .ok (if (name ++ dotted ls).isEmpty then [46] else name ++ dotted ls,
             A.length + (encLabels ls).length) := by
  induction ls with
  | nil =>
    intro A B name newOff _ hlen
    rw [unpackNameLoop]
    have h1 : ¬ (A.length ≥ (A ++ (encLabels [] ++ B)).length) := by simp [encLabels]
    rw [dif_neg h1]
    simp only [byteAt_append_right0, encLabels]
    simp [dotted] at hlen ⊢
    split
    · simp_all
    · simp_all
  | cons l ls ih =>
    intro A B name newOff hl hlen
    have hl0 := hl l (by simp)
    rw [unpackNameLoop]
    have h1 : ¬ (A.length ≥ (A ++ (encLabels (l :: ls) ++ B)).length) := by simp [encLabels]
    rw [dif_neg h1]
    have hb : byteAt (A ++ (encLabels (l :: ls) ++ B)) A.length = l.length := by
      rw [byteAt_append_right0]; simp [encLabels]; exact b8_toNat _ (by omega)
    simp only [hb]
    have h2 : l.length / 64 = 0 := by omega
    have h3 : ¬ (l.length = 0) := by omega
    have h4 : ¬ (A.length + 1 + l.length > (A ++ (encLabels (l :: ls) ++ B)).length) := by
      simp [encLabels]; omega
    simp only [h2, h3, h4, if_true, if_false]
    have hs : slice (A ++ (encLabels (l :: ls) ++ B)) (A.length + 1) l.length = l := by
      rw [slice_append_right]; simp [encLabels, slice]
    rw [hs]
    have hm : A ++ (encLabels (l :: ls) ++ B) = (A ++ b8 l.length :: l) ++ (encLabels ls ++ B) := by
      simp [encLabels]
    have ho : A.length + 1 + l.length = (A ++ b8 l.length :: l).length := by simp; omega
    rw [hm, ho, ih (A ++ b8 l.length :: l) B (name ++ l ++ [46]) newOff
      (fun x hx => hl x (by simp [hx])) (by simp [dotted] at hlen ⊢; omega)]
    simp [dotted, encLabels]
    omega

theorem unpackName_enc (ls : List Bytes) (A B : Bytes) (h : LabelsOK ls) :
    unpackName (A ++ (encLabels ls ++ B)) A.length = .ok (shown ls, A.length + (encLabels ls).length) := by
  unfold unpackName
  rw [unpackNameLoop_enc ls A B [] A.length h.1 (by simpa using h.2)]
  unfold shown
  cases ls <;> simp [dotted]

/-- fixed part of a resource record: owner, TYPE, CLASS, TTL, RDLENGTH -/
def encRH (ls : List Bytes) (t c ttl len : Nat) : Bytes :=
  encLabels ls ++ (be16 t ++ (be16 c ++ (be32 ttl ++ be16 len)))

theorem encRH_length (ls : List Bytes) (t c ttl len : Nat) :
    (encRH ls t c ttl len).length = (encLabels ls).length + 10 := by
  simp [encRH]

theorem unpackRH_enc (ls : List Bytes) (t c ttl len : Nat) (A B : Bytes) (h : LabelsOK ls)
    (ht : t < 65536) (hc : c < 65536) (httl : ttl < 4294967296) (hlen : len < 65536) :
    unpackRH (A ++ (encRH ls t c ttl len ++ B)) A.length
      = .ok ({ name := shown ls, type := t, cls := c, ttl := ttl, len := len },
             A.length + (encLabels ls).length + 10) := by
  unfold unpackRH
  have e0 : A ++ (encRH ls t c ttl len ++ B)
      = A ++ (encLabels ls ++ (be16 t ++ (be16 c ++ (be32 ttl ++ (be16 len ++ B))))) := by
    simp [encRH]
  rw [e0, unpackName_enc ls A _ h]
  simp only [bind, Except.bind]
  rw [unpackU16_at (P := A ++ encLabels ls) (S := be16 c ++ (be32 ttl ++ (be16 len ++ B))) (n := t)
    (by simp) (by simp) ht]
  simp only
  rw [unpackU16_at (P := A ++ encLabels ls ++ be16 t) (S := be32 ttl ++ (be16 len ++ B)) (n := c)
    (by simp) (by simp; omega) hc]
  simp only
  rw [unpackU32_at (P := A ++ encLabels ls ++ be16 t ++ be16 c) (S := be16 len ++ B) (n := ttl)
    (by simp) (by simp; omega) httl]
  simp only
  rw [unpackU16_at (P := A ++ encLabels ls ++ be16 t ++ be16 c ++ be32 ttl) (S := B) (n := len)
    (by simp) (by simp; omega) hlen]

/-! ### EDNS options -/

/-- what `unpackOPTResource` returns for an encoded option list starting at `off` -/
def optsFrom (off : Nat) : List EOpt → List Opt
  | [] => []
  | o :: os => ⟨o.code, o.data, off + 4⟩ :: optsFrom (off + 4 + o.data.length) os

@[simp] theorem encOpt_length (o : EOpt) : (encOpt o).length = 4 + o.data.length := by
  simp [encOpt]; omega

theorem unpackOptsLoop_enc (os : List EOpt) : ∀ (A B : Bytes) (acc : List Opt),
    (∀ o ∈ os, o.WF) →
    unpackOptsLoop (A ++ (encOpts os ++ B)) A.length (A.length + (encOpts os).length) acc
      = .ok (acc ++ optsFrom A.length os) := by
  induction os with
  | nil => intro A B acc _; rw [unpackOptsLoop]; simp [encOpts, optsFrom]
  | cons o os ih =>
    intro A B acc hwf
    obtain ⟨hc, hl⟩ := hwf o (by simp)
    rw [unpackOptsLoop]
    have h0 : A.length < A.length + (encOpts (o :: os)).length := by simp [encOpts]; omega
    rw [dif_pos h0]
    have h1 : ¬ (A.length + 2 > (A ++ (encOpts (o :: os) ++ B)).length) := by simp [encOpts]; omega
    have h2 : ¬ (A.length + 4 > (A ++ (encOpts (o :: os) ++ B)).length) := by simp [encOpts]; omega
    rw [if_neg h1, if_neg h2]
    have e0 : A ++ (encOpts (o :: os) ++ B)
        = A ++ (be16 o.code ++ (be16 o.data.length ++ (o.data ++ (encOpts os ++ B)))) := by
      simp [encOpts, encOpt]
    have hcode : rd16 (A ++ (encOpts (o :: os) ++ B)) A.length = o.code := by
      rw [e0, rd16_append_right0, rd16_be16 _ _ hc]
    have hlen : rd16 (A ++ (encOpts (o :: os) ++ B)) (A.length + 2) = o.data.length := by
      have : A ++ (encOpts (o :: os) ++ B)
          = (A ++ be16 o.code) ++ (be16 o.data.length ++ (o.data ++ (encOpts os ++ B))) := by
        rw [e0]; simp
      rw [this]
      have hl2 : A.length + 2 = (A ++ be16 o.code).length := by simp
      rw [hl2, rd16_append_right0, rd16_be16 _ _ hl]
    simp only [hcode, hlen]
    have h3 : ¬ ((A ++ (encOpts (o :: os) ++ B)).length - (A.length + 4) < o.data.length) := by
      simp [encOpts]; omega
    rw [if_neg h3]
    have hs : slice (A ++ (encOpts (o :: os) ++ B)) (A.length + 4) o.data.length = o.data := by
      have : A ++ (encOpts (o :: os) ++ B)
          = (A ++ be16 o.code ++ be16 o.data.length) ++ (o.data ++ (encOpts os ++ B)) := by
        rw [e0]; simp
      rw [this]
      have hl4 : A.length + 4 = (A ++ be16 o.code ++ be16 o.data.length).length := by simp
      rw [hl4, slice_append_right0, slice_prefix]
    rw [hs]
    have hm : A ++ (encOpts (o :: os) ++ B) = (A ++ encOpt o) ++ (encOpts os ++ B) := by
      simp [encOpts]
    have ho : A.length + 4 + o.data.length = (A ++ encOpt o).length := by simp; omega
    have he : A.length + (encOpts (o :: os)).length = (A ++ encOpt o).length + (encOpts os).length := by
      simp [encOpts]; omega
    rw [hm, ho, he, ih (A ++ encOpt o) B _ (fun x hx => hwf x (by simp [hx]))]
    rw [← ho]; simp [optsFrom]


/-! ### `setBytes`, `nutterECS` on an encoded option -/

theorem setBytes_mid (v : Bytes) : ∀ (P d S : Bytes), v.length = d.length →
    setBytes (P ++ (d ++ S)) P.length v = P ++ (v ++ S) := by
  induction v with
  | nil => intro P d S h; cases d <;> simp_all [setBytes]
  | cons x v ih =>
    intro P d S h
    cases d with
    | nil => simp at h
    | cons y d =>
      simp only [setBytes]
      have : (P ++ (y :: d ++ S)).set P.length x = (P ++ [x]) ++ (d ++ S) := by
        simp
      rw [this]
      have hl : P.length + 1 = (P ++ [x]).length := by simp
      rw [hl, ih (P ++ [x]) d S (by simpa using h)]
      simp

theorem nutterECS_enc (o : EOpt) (A B : Bytes) (h1 : 1 ≤ o.data.length) (h255 : o.data.length ≤ 255) :
    nutterECS (A ++ (encOpt o ++ B)) (A.length + 4)
      = A ++ (encOpt ⟨0xFFFF, List.replicate o.data.length 0⟩ ++ B) := by
  unfold nutterECS
  have g1 : ¬ (A.length + 4 < 4) := by omega
  rw [if_neg g1]
  simp only [Nat.add_sub_cancel]
  have g2 : ¬ (A.length + 4 ≥ (A ++ (encOpt o ++ B)).length) := by simp; omega
  rw [if_neg g2]
  have hsz : byteAt (A ++ (encOpt o ++ B)) (A.length + 3) = o.data.length := by
    rw [byteAt_append_right]
    simp [encOpt, be16, b8_toNat_mod]; omega
  simp only [hsz]
  have g3 : ¬ (A.length + 4 + o.data.length > (A ++ (encOpt o ++ B)).length) := by simp; omega
  rw [if_neg g3]
  have e0 : A ++ (encOpt o ++ B) = (A ++ be16 o.code ++ be16 o.data.length) ++ (o.data ++ B) := by
    simp [encOpt]
  have hl4 : A.length + 4 = (A ++ be16 o.code ++ be16 o.data.length).length := by simp
  have hn : A.length + 4 + o.data.length - (A.length + 4) = o.data.length := by omega
  rw [hn]
  conv => lhs; arg 1; arg 1; rw [e0, hl4, setBytes_mid _ _ o.data B (by simp)]
  simp [encOpt, be16, b8]

/-! ### projections of `applyOpts` -/

/-- effect of one option on the payload -/
def stepPayload (p : Bytes) (o : Opt) : Bytes :=
  if o.code = 8 ∧ 8 ≤ o.data.length ∧ (byteAt o.data 1 = 1 ∨ byteAt o.data 1 = 2)
  then nutterECS p o.dataOff else p

/-- effect of one option on PeerIP -/
def stepPeer (acc : Option Bytes) (o : Opt) : Option Bytes :=
  if o.code = 8 ∧ 8 ≤ o.data.length then
    if byteAt o.data 1 = 1 ∧ byteAt o.data 2 = 32 then some (slice o.data 4 4)
    else if byteAt o.data 1 = 2 ∧ byteAt o.data 2 = 128 ∧ 20 ≤ o.data.length then some (slice o.data 4 16)
    else acc
  else acc

/-- the body of the `for _, o := range opt.Options` loop -/
def optStep (o : Opt) (q : Query) : Query :=
  if o.code = 0xfde9 then { q with mac := some o.data }
  else if o.code = 8 then
    if o.data.length < 8 then q
    else
      let fam := byteAt o.data 1
      if fam = 1 then
        let q := if byteAt o.data 2 = 32 then { q with peerIP := some (slice o.data 4 4) } else q
        { q with payload := nutterECS q.payload o.dataOff }
      else if fam = 2 then
        let q := if byteAt o.data 2 = 128 ∧ o.data.length ≥ 20
                 then { q with peerIP := some (slice o.data 4 16) } else q
        { q with payload := nutterECS q.payload o.dataOff }
      else q
  else q

theorem applyOpts_cons (o : Opt) (os : List Opt) (q : Query) :
    applyOpts (o :: os) q = applyOpts os (optStep o q) := rfl

theorem optStep_payload (o : Opt) (q : Query) : (optStep o q).payload = stepPayload q.payload o := by
  unfold optStep stepPayload
  by_cases h1 : o.code = 0xfde9
  · simp [h1]
  · by_cases h2 : o.code = 8
    · by_cases h3 : o.data.length < 8
      · have : ¬ (8 ≤ o.data.length) := by omega
        simp [h2, h3, this]
      · have h3' : 8 ≤ o.data.length := by omega
        by_cases h4 : byteAt o.data 1 = 1
        · simp [h2, h3, h3', h4, apply_ite Query.payload]
        · by_cases h5 : byteAt o.data 1 = 2
          · simp [h2, h3, h3', h5, apply_ite Query.payload]
          · simp [h2, h3, h4, h5]
    · simp [h1, h2]

theorem optStep_peer (o : Opt) (q : Query) : (optStep o q).peerIP = stepPeer q.peerIP o := by
  unfold optStep stepPeer
  by_cases h1 : o.code = 0xfde9
  · simp [h1]
  · by_cases h2 : o.code = 8
    · by_cases h3 : o.data.length < 8
      · have : ¬ (8 ≤ o.data.length) := by omega
        simp [h2, h3, this]
      · have h3' : 8 ≤ o.data.length := by omega
        by_cases h4 : byteAt o.data 1 = 1
        · simp [h2, h3, h3', h4, apply_ite Query.peerIP]
        · by_cases h5 : byteAt o.data 1 = 2
          · simp [h2, h3, h3', h5, apply_ite Query.peerIP]
          · simp [h2, h3, h4, h5]
    · simp [h1, h2]

theorem applyOpts_payload (os : List Opt) : ∀ q : Query,
    (applyOpts os q).payload = os.foldl stepPayload q.payload := by
  induction os with
  | nil => intro q; rfl
  | cons o os ih => intro q; rw [applyOpts_cons, ih, optStep_payload]; rfl

theorem applyOpts_peer (os : List Opt) : ∀ q : Query,
    (applyOpts os q).peerIP = os.foldl stepPeer q.peerIP := by
  induction os with
  | nil => intro q; rfl
  | cons o os ih => intro q; rw [applyOpts_cons, ih, optStep_peer]; rfl

theorem nutterECS_length (p : Bytes) (off : Nat) : (nutterECS p off).length = p.length := by
  unfold nutterECS
  dsimp only
  repeat' split
  all_goals simp

theorem stepPayload_length (p : Bytes) (o : Opt) : (stepPayload p o).length = p.length := by
  unfold stepPayload; split
  · exact nutterECS_length _ _
  · rfl

theorem foldl_stepPayload_length (os : List Opt) : ∀ p : Bytes,
    (os.foldl stepPayload p).length = p.length := by
  induction os with
  | nil => intro p; rfl
  | cons o os ih => intro p; simp only [List.foldl]; rw [ih, stepPayload_length]

theorem neutral_data_length (o : EOpt) : (neutral o).data.length = o.data.length := by
  unfold neutral; split <;> simp

theorem foldl_stepPayload_enc (os : List EOpt) : ∀ (A : Bytes),
    (∀ o ∈ os, o.data.length ≤ 255) →
    (optsFrom A.length os).foldl stepPayload (A ++ encOpts os) = A ++ encOpts (os.map neutral) := by
  induction os with
  | nil => intro A _; rfl
  | cons o os ih =>
    intro A h
    have h255 := h o (by simp)
    simp only [optsFrom, List.foldl, List.map, encOpts]
    have hstep : stepPayload (A ++ (encOpt o ++ encOpts os)) ⟨o.code, o.data, A.length + 4⟩
        = (A ++ encOpt (neutral o)) ++ encOpts os := by
      by_cases hc : isECS o
      · have hc' := hc
        unfold isECS at hc'
        unfold stepPayload neutral
        rw [if_pos hc, if_pos (by simpa using hc')]
        simp only
        rw [nutterECS_enc o A (encOpts os) (by omega) h255]
        simp
      · have hc' := hc
        unfold isECS at hc'
        unfold stepPayload neutral
        rw [if_neg hc, if_neg (by simpa using hc')]
        simp
    rw [hstep]
    have hl : A.length + 4 + o.data.length = (A ++ encOpt (neutral o)).length := by
      simp [neutral_data_length]; omega
    rw [hl, ih _ (fun x hx => h x (by simp [hx]))]
    simp

theorem foldl_stepPeer_spec (os : List EOpt) : ∀ (off : Nat) (acc : Option Bytes),
    (optsFrom off os).foldl stepPeer acc = specPeer os acc := by
  induction os with
  | nil => intro _ _; rfl
  | cons o os ih =>
    intro off acc
    simp only [optsFrom, List.foldl, specPeer]
    rw [ih]
    congr 1
    unfold stepPeer carried
    simp only
    repeat' split
    all_goals simp_all

/-! ### the parser on an encoded query -/

theorem labelsOK_nil : LabelsOK [] := ⟨by simp, by simp [dotted]⟩

theorem encOPT_eq (udp ttl : Nat) (opts : List EOpt) :
    encOPT udp ttl opts = encRH [] 41 udp ttl (encOpts opts).length ++ (encOpts opts ++ []) := by
  simp [encOPT, encRH, encLabels]

theorem encRR_eq (r : PreRR) :
    encRR r = encRH r.labels r.type r.cls r.ttl r.rdata.length ++ r.rdata := by
  simp [encRR, encRH]

theorem resourceHeader5_at (msg : Bytes) (id bits qd an ns ar off idx : Nat) (rh0 h : RH) (off' : Nat)
    (hne : ¬ idx = ar) (hrh : unpackRH msg off = .ok (h, off')) :
    Parser.resourceHeader { msg := msg, id := id, bits := bits, qd := qd, an := an, ns := ns, ar := ar, sec := 5, off := off, index := idx, rhValid := false, rh := rh0 } 5
      = (.ok h, { msg := msg, id := id, bits := bits, qd := qd, an := an, ns := ns, ar := ar, sec := 5, off := off', index := idx, rhValid := true, rh := h }) := by
  simp [Parser.resourceHeader, Parser.checkAdvance, Parser.count, hne, hrh]

theorem skipResource_at (msg : Bytes) (id bits qd an ns ar off idx : Nat) (h : RH)
    (hlen : ¬ off + h.len > msg.length) :
    Parser.skipResource { msg := msg, id := id, bits := bits, qd := qd, an := an, ns := ns, ar := ar, sec := 5, off := off, index := idx, rhValid := true, rh := h } 5
      = (.ok (), { msg := msg, id := id, bits := bits, qd := qd, an := an, ns := ns, ar := ar, sec := 5, off := off + h.len, index := idx + 1, rhValid := false, rh := h }) := by
  simp [Parser.skipResource, hlen]

theorem optResource_at (msg : Bytes) (id bits qd an ns ar off idx : Nat) (h : RH) (os : List Opt)
    (ht : h.type = 41) (hopts : unpackOptsLoop msg off (off + h.len) [] = .ok os) :
    (Parser.optResource { msg := msg, id := id, bits := bits, qd := qd, an := an, ns := ns, ar := ar, sec := 5, off := off, index := idx, rhValid := true, rh := h }).1 = .ok os := by
  simp [Parser.optResource, ht, hopts]

theorem parseLoop_opt (fuel : Nat) (p p' : Parser) (q : Query) (h : RH) (os : List Opt)
    (h1 : p.resourceHeader 5 = (.ok h, p')) (ht : h.type = 41) (h2 : p'.optResource.1 = .ok os) :
    parseLoop (fuel + 1) p q = .done .ok (applyOpts os { q with msgSize := h.cls }) := by
  rw [parseLoop, h1]
  simp only [ht, if_true]
  revert h2
  cases p'.optResource with
  | mk a b => intro h2; simp at h2; subst h2; rfl

theorem parseLoop_skip (fuel : Nat) (p p' p'' : Parser) (q : Query) (h : RH)
    (h1 : p.resourceHeader 5 = (.ok h, p')) (ht : ¬ h.type = 41) (h2 : p'.skipResource 5 = (.ok (), p'')) :
    parseLoop (fuel + 1) p q = parseLoop fuel p'' q := by
  rw [parseLoop, h1]
  simp only [ht, if_false, h2]

theorem parseLoop_enc (udp ttl : Nat) (opts : List EOpt) (id bits qd an ns ar : Nat)
    (hu : udp < 65536) (ht : ttl < 4294967296) (ho : ∀ o ∈ opts, o.WF)
    (hol : (encOpts opts).length < 65536) (rs : List PreRR) :
    ∀ (fuel : Nat) (A : Bytes) (idx : Nat) (q : Query) (rh0 : RH),
    (∀ r ∈ rs, r.WF) → rs.length < fuel → idx + rs.length < ar →
    parseLoop fuel { msg := A ++ (encRRs rs ++ encOPT udp ttl opts), id := id, bits := bits, qd := qd,
                     an := an, ns := ns, ar := ar, sec := 5, off := A.length, index := idx,
                     rhValid := false, rh := rh0 } q
      = .done .ok (applyOpts (optsFrom (A.length + (encRRs rs).length + 11) opts) { q with msgSize := udp }) := by
  induction rs with
  | nil =>
    intro fuel A idx q rh0 _ hf hi
    obtain ⟨f, rfl⟩ : ∃ f, fuel = f + 1 := ⟨fuel - 1, by simp at hf; omega⟩
    have hne : ¬ (idx = ar) := by simp at hi; omega
    have hm : A ++ (encRRs [] ++ encOPT udp ttl opts)
        = A ++ (encRH [] 41 udp ttl (encOpts opts).length ++ (encOpts opts ++ [])) := by
      simp [encRRs, encOPT_eq]
    have hrh := unpackRH_enc [] 41 udp ttl (encOpts opts).length A (encOpts opts ++ []) labelsOK_nil
      (by omega) hu ht hol
    have hm2 : A ++ (encRH [] 41 udp ttl (encOpts opts).length ++ (encOpts opts ++ []))
        = (A ++ encRH [] 41 udp ttl (encOpts opts).length) ++ (encOpts opts ++ []) := by simp
    have hl2 : A.length + (encLabels []).length + 10 = (A ++ encRH [] 41 udp ttl (encOpts opts).length).length := by
      simp [encRH_length]; omega
    have hopts := unpackOptsLoop_enc opts (A ++ encRH [] 41 udp ttl (encOpts opts).length) [] [] ho
    rw [← hm2, ← hl2] at hopts
    rw [hm]
    rw [parseLoop_opt f _ _ q _ _ (resourceHeader5_at _ id bits qd an ns ar _ idx rh0 _ _ hne hrh) rfl
      (optResource_at _ id bits qd an ns ar _ idx _ _ rfl hopts)]
    simp [encRRs, encLabels]
  | cons r rs ih =>
    intro fuel A idx q rh0 hwf hf hi
    obtain ⟨f, rfl⟩ : ∃ f, fuel = f + 1 := ⟨fuel - 1, by simp at hf; omega⟩
    have hne : ¬ (idx = ar) := by simp at hi; omega
    obtain ⟨hlab, hty, hty41, hcl, httl, hrd⟩ := hwf r (by simp)
    have hm : A ++ (encRRs (r :: rs) ++ encOPT udp ttl opts)
        = A ++ (encRH r.labels r.type r.cls r.ttl r.rdata.length ++ (r.rdata ++ (encRRs rs ++ encOPT udp ttl opts))) := by
      simp [encRRs, encRR_eq]
    have hrh := unpackRH_enc r.labels r.type r.cls r.ttl r.rdata.length A
      (r.rdata ++ (encRRs rs ++ encOPT udp ttl opts)) hlab hty hcl httl hrd
    have hlen : ¬ (A.length + (encLabels r.labels).length + 10 + r.rdata.length
        > (A ++ (encRH r.labels r.type r.cls r.ttl r.rdata.length ++ (r.rdata ++ (encRRs rs ++ encOPT udp ttl opts)))).length) := by
      simp [encRH_length]; omega
    rw [hm]
    rw [parseLoop_skip f _ _ _ q _ (resourceHeader5_at _ id bits qd an ns ar _ idx rh0 _ _ hne hrh) hty41
      (skipResource_at _ id bits qd an ns ar _ idx _ hlen)]
    have hm3 : A ++ (encRH r.labels r.type r.cls r.ttl r.rdata.length ++ (r.rdata ++ (encRRs rs ++ encOPT udp ttl opts)))
        = (A ++ encRR r) ++ (encRRs rs ++ encOPT udp ttl opts) := by
      simp [encRR_eq]
    have hl3 : A.length + (encLabels r.labels).length + 10 + r.rdata.length = (A ++ encRR r).length := by
      simp [encRR_eq, encRH_length]; omega
    simp only [hm3, hl3]
    rw [ih f (A ++ encRR r) (idx + 1) q _ (fun x hx => hwf x (by simp [hx])) (by simp at hf; omega)
      (by simp at hi; omega)]
    simp [encRRs]
    congr 2
    omega

theorem rd16_at {msg P S : Bytes} {n off : Nat} (h : msg = P ++ (be16 n ++ S)) (ho : off = P.length)
    (hn : n < 65536) : rd16 msg off = n := by
  subst h ho; rw [rd16_append_right0, rd16_be16 n S hn]

theorem skipAll_done (step : Parser → Except PErr Unit × Parser) (p p' : Parser)
    (h : step p = (.error .sectionDone, p')) :
    Parser.skipAllFuel skipFuel step p = some (.ok (), p') := by
  rw [show skipFuel = 65536 + 1 from rfl, Parser.skipAllFuel, h]

theorem question_at (msg : Bytes) (id bits an ns ar : Nat) (name : Bytes) (off1 t off2 c off3 : Nat)
    (h1 : unpackName msg 12 = .ok (name, off1)) (h2 : unpackU16 msg off1 = .ok (t, off2))
    (h3 : unpackU16 msg off2 = .ok (c, off3)) :
    Parser.question { msg := msg, id := id, bits := bits, qd := 1, an := an, ns := ns, ar := ar, sec := 2, off := 12, index := 0, rhValid := false, rh := {} }
      = (.ok ⟨name, t, c⟩, { msg := msg, id := id, bits := bits, qd := 1, an := an, ns := ns, ar := ar, sec := 2, off := off3, index := 1, rhValid := false, rh := {} }) := by
  simp [Parser.question, Parser.checkAdvance, Parser.count, h1, h2, h3]

/-- the question section of an encoded query -/
def qsect (m : QueryMsg) : Bytes := encLabels m.qname ++ (be16 m.qtype ++ be16 m.qcls)

theorem encode_eq (m : QueryMsg) :
    encode m = (header m ++ qsect m) ++ (encRRs m.pre ++ encOPT m.udpSize m.optTTL m.opts) := by
  simp [encode, front, qsect]

theorem header_length (m : QueryMsg) : (header m).length = 12 := by simp [header]

/-- the query fields `parse` extracts before looking at the options -/
def q0 (m : QueryMsg) (payload : Bytes) : Query :=
  { id := m.id, rd := (m.flags / 256) % 2 = 1, cls := m.qcls, type := m.qtype, name := shown m.qname,
    msgSize := m.udpSize, payload := payload }

theorem parse_encode (m : QueryMsg) (hwf : m.WF) :
    parse (encode m) = .done .ok
      (applyOpts (optsFrom ((front m).length + 11) m.opts) (q0 m (encode m))) := by
  obtain ⟨hid, hfl, hqn, hqt, hqc, hpre, hnpre, hudp, httl, hopts, hol⟩ := hwf
  generalize hmsg : encode m = msg
  have hE : msg = be16 m.id ++ (be16 m.flags ++ (be16 1 ++ (be16 0 ++ (be16 0 ++ (be16 (m.pre.length + 1)
      ++ (qsect m ++ (encRRs m.pre ++ encOPT m.udpSize m.optTTL m.opts))))))) := by
    rw [← hmsg]; simp [encode, front, header, qsect]
  have hlen : ¬ msg.length < 12 := by rw [hE]; simp; omega
  generalize hT : qsect m ++ (encRRs m.pre ++ encOPT m.udpSize m.optTTL m.opts) = T at hE
  have r0 : rd16 msg 0 = m.id := rd16_at (P := []) hE rfl hid
  have r2 : rd16 msg 2 = m.flags := rd16_at (P := be16 m.id) hE rfl hfl
  have r4 : rd16 msg 4 = 1 :=
    rd16_at (P := be16 m.id ++ be16 m.flags) (S := be16 0 ++ (be16 0 ++ (be16 (m.pre.length + 1) ++ T)))
      (by rw [hE]; simp) rfl (by omega)
  have r6 : rd16 msg 6 = 0 :=
    rd16_at (P := be16 m.id ++ be16 m.flags ++ be16 1) (S := be16 0 ++ (be16 (m.pre.length + 1) ++ T))
      (by rw [hE]; simp) rfl (by omega)
  have r8 : rd16 msg 8 = 0 :=
    rd16_at (P := be16 m.id ++ be16 m.flags ++ be16 1 ++ be16 0) (S := be16 (m.pre.length + 1) ++ T)
      (by rw [hE]; simp) rfl (by omega)
  have r10 : rd16 msg 10 = m.pre.length + 1 :=
    rd16_at (P := be16 m.id ++ be16 m.flags ++ be16 1 ++ be16 0 ++ be16 0) (S := T) (by rw [hE]; simp) rfl hnpre
  have hH : msg = header m ++ (encLabels m.qname ++ (be16 m.qtype ++ (be16 m.qcls
      ++ (encRRs m.pre ++ encOPT m.udpSize m.optTTL m.opts)))) := by
    rw [← hmsg]; simp [encode, front]
  have hname : unpackName msg 12 = .ok (shown m.qname, 12 + (encLabels m.qname).length) := by
    have := unpackName_enc m.qname (header m) (be16 m.qtype ++ (be16 m.qcls
      ++ (encRRs m.pre ++ encOPT m.udpSize m.optTTL m.opts))) hqn
    rw [header_length] at this; rw [hH]; exact this
  have hty : unpackU16 msg (12 + (encLabels m.qname).length) = .ok (m.qtype, 12 + (encLabels m.qname).length + 2) :=
    unpackU16_at (P := header m ++ encLabels m.qname) (S := be16 m.qcls ++ (encRRs m.pre ++ encOPT m.udpSize m.optTTL m.opts)) (by rw [hH]; simp) (by simp [header_length]) hqt
  have hcl : unpackU16 msg (12 + (encLabels m.qname).length + 2) = .ok (m.qcls, 12 + (encLabels m.qname).length + 2 + 2) :=
    unpackU16_at (P := header m ++ encLabels m.qname ++ be16 m.qtype) (S := encRRs m.pre ++ encOPT m.udpSize m.optTTL m.opts) (by rw [hH]; simp)
      (by simp [header_length]; omega) hqc
  unfold parse parseFuel
  simp only [Parser.start, hlen, if_false, r0, r2, r4, r6, r8, r10]
  rw [question_at msg m.id m.flags 0 0 (m.pre.length + 1) _ _ _ _ _ _ hname hty hcl]
  simp only
  rw [skipAll_done Parser.skipQuestion _ _ (by simp [Parser.skipQuestion, Parser.checkAdvance, Parser.count]; rfl)]
  simp only
  rw [skipAll_done (fun p => p.skipResource 3) _ _
    (by simp [Parser.skipResource, Parser.skipResourceFresh, Parser.checkAdvance, Parser.count]; rfl)]
  simp only
  rw [skipAll_done (fun p => p.skipResource 4) _ _
    (by simp [Parser.skipResource, Parser.skipResourceFresh, Parser.checkAdvance, Parser.count]; rfl)]
  simp only
  have hA : msg = (header m ++ qsect m) ++ (encRRs m.pre ++ encOPT m.udpSize m.optTTL m.opts) := by
    rw [← hmsg]; exact encode_eq m
  have hoff : 12 + (encLabels m.qname).length + 2 + 2 = (header m ++ qsect m).length := by
    simp [header_length, qsect]; omega
  have hfront : (front m).length + 11 = (header m ++ qsect m).length + (encRRs m.pre).length + 11 := by
    simp [front, qsect]; omega
  rw [hfront]
  have := parseLoop_enc m.udpSize m.optTTL m.opts m.id m.flags 1 0 0 (m.pre.length + 1) hudp httl hopts hol m.pre
    skipFuel (header m ++ qsect m) 0
    { id := m.id, rd := (m.flags / 256) % 2 = 1, cls := m.qcls, type := m.qtype, name := shown m.qname,
      payload := msg } {} hpre (by unfold skipFuel; omega) (by omega)
  rw [← hA, ← hoff] at this
  rw [← hoff]
  exact this

/-! ### no out-of-bounds access, length preservation -/

theorem zeroRange?_ok : ∀ (n : Nat) (p : Bytes) (i : Nat), i + n ≤ p.length →
    zeroRange? p i n = some (setBytes p i (List.replicate n 0)) := by
  intro n
  induction n with
  | zero => intro p i _; rfl
  | succ n ih =>
    intro p i h
    have hi : i < p.length := by omega
    simp only [zeroRange?, setIdx?, hi, if_true, Option.bind, List.replicate, setBytes]
    rw [ih _ _ (by simp; omega)]

theorem nutterECS?_eq (p : Bytes) (d : Nat) : nutterECS? p d = some (nutterECS p d) := by
  unfold nutterECS? nutterECS
  dsimp only
  split
  · rfl
  · split
    · rfl
    · rename_i h1 h2
      have h3 : d - 4 + 3 < p.length := by omega
      simp only [h3, not_true, if_false]
      split
      · rfl
      · rename_i h4
        rw [zeroRange?_ok _ _ _ (by omega)]
        have g1 : d - 4 < p.length := by omega
        have g2 : d - 4 + 1 < p.length := by omega
        simp [setIdx?, Option.bind, g1, g2]

theorem parseLoop_payload_len : ∀ (fuel : Nat) (p : Parser) (q : Query) (st : Stage) (q' : Query),
    parseLoop fuel p q = .done st q' → q'.payload.length = q.payload.length := by
  intro fuel
  induction fuel with
  | zero => intro p q st q' h; simp [parseLoop] at h
  | succ n ih =>
    intro p q st q' h
    rw [parseLoop] at h
    split at h
    · simp at h; rw [← h.2]
    · simp at h; rw [← h.2]
    · split at h
      · split at h
        · simp at h; rw [← h.2]
        · simp at h; rw [← h.2, applyOpts_payload, foldl_stepPayload_length]
      · split at h
        · simp at h; rw [← h.2]
        · exact ih _ _ _ _ h

theorem parse_payload_len (payload : Bytes) (st : Stage) (q : Query) (h : parse payload = .done st q) :
    q.payload.length = payload.length := by
  unfold parse parseFuel at h
  dsimp only at h
  split at h
  · simp at h; rw [← h.2]
  · split at h
    · simp at h; rw [← h.2]
    · split at h
      · simp at h
      · split at h
        · simp at h
        · split at h
          · simp at h
          · exact parseLoop_payload_len _ _ _ _ _ h

end NV
