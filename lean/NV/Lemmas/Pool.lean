import NV.Model.Pool
namespace NV.Pool

theorem inv_init : Inv init := by
  refine ⟨?_, ?_, ?_⟩ <;> intros <;> simp_all [init]

theorem length_erase_le {α} [BEq α] [LawfulBEq α] (l : List α) (a : α) : (l.erase a).length ≤ l.length := by
  rw [List.length_erase]; split <;> omega

theorem len_le_one_contains (l : List Nat) (t : Nat) (h : l.length ≤ 1) (hc : l.contains t = true) : l = [t] := by
  match l, h with
  | [], _ => simp at hc
  | [x], _ => simp at hc; simp [hc]
  | _ :: _ :: _, h => simp at h

/-- every enabled, disciplined step preserves the invariant -/
theorem inv_step (s : S) (o : Op) (hi : Inv s) (he : enabled s o = true) (hd : disciplined s o = true) :
    Inv (apply s o) := by
  obtain ⟨h1, h2, h3⟩ := hi
  cases o with
  | get t b =>
    simp only [enabled] at he
    have hb : s.holders b = [] := h2 b he
    have hlt : b < s.next := by
      by_cases hlt : b < s.next
      · exact hlt
      · have := (h3 b (by omega)).2; simp [this] at he
    refine ⟨?_, ?_, ?_⟩
    · intro x; simp only [apply, upd]; split
      · simp [hb]
      · exact h1 x
    · intro x hx; simp only [apply, upd] at hx ⊢; split
      · next hxb => simp [hxb] at hx
      · next hxb => simp [hxb] at hx; exact h2 x hx
    · intro x hx; simp only [apply, upd]
      have : x ≠ b := by simp only [apply] at hx; omega
      simp [this]; exact h3 x hx
  | new t =>
    refine ⟨?_, ?_, ?_⟩
    · intro x; simp only [apply, upd]; split
      · simp
      · exact h1 x
    · intro x hx; simp only [apply, upd] at hx ⊢; split
      · next hxb => subst hxb; have := (h3 s.next (Nat.le_refl _)).2; simp [this] at hx
      · exact h2 x hx
    · intro x hx; simp only [apply, upd] at hx ⊢
      have : x ≠ s.next := by omega
      simp [this]; exact h3 x (by omega)
  | put t b =>
    simp only [disciplined] at hd
    have hb : s.holders b = [t] := len_le_one_contains _ _ (h1 b) hd
    have hlt : b < s.next := by
      by_cases hlt : b < s.next
      · exact hlt
      · have := (h3 b (by omega)).1; simp [this] at hb
    refine ⟨?_, ?_, ?_⟩
    · intro x; simp only [apply, upd]; split
      · simp [hb]
      · exact h1 x
    · intro x hx; simp only [apply, upd] at hx ⊢; split
      · simp [hb]
      · next hxb => simp [hxb] at hx; exact h2 x hx
    · intro x hx; simp only [apply, upd]
      have : x ≠ b := by simp only [apply] at hx; omega
      simp [this]; exact h3 x hx
  | hand t u b =>
    simp only [disciplined] at hd
    have hb : s.holders b = [t] := len_le_one_contains _ _ (h1 b) hd
    have hnp : s.inPool b = false := by
      cases hp : s.inPool b with
      | false => rfl
      | true => have := h2 b hp; simp [this] at hb
    have hlt : b < s.next := by
      by_cases hlt : b < s.next
      · exact hlt
      · have := (h3 b (by omega)).1; simp [this] at hb
    refine ⟨?_, ?_, ?_⟩
    · intro x; simp only [apply, upd]; split
      · simp [hb]
      · exact h1 x
    · intro x hx; simp only [apply, upd] at hx ⊢; split
      · next hxb => subst hxb; simp [hnp] at hx
      · exact h2 x hx
    · intro x hx; simp only [apply, upd]
      have : x ≠ b := by simp only [apply] at hx; omega
      simp [this]; exact h3 x hx
  | drop t b =>
    simp only [disciplined] at hd
    have hb : s.holders b = [t] := len_le_one_contains _ _ (h1 b) hd
    have hlt : b < s.next := by
      by_cases hlt : b < s.next
      · exact hlt
      · have := (h3 b (by omega)).1; simp [this] at hb
    refine ⟨?_, ?_, ?_⟩
    · intro x; simp only [apply, upd]; split
      · simp [hb]
      · exact h1 x
    · intro x hx; simp only [apply, upd] at hx ⊢; split
      · simp [hb]
      · exact h2 x hx
    · intro x hx; simp only [apply, upd]
      have : x ≠ b := by simp only [apply] at hx; omega
      simp [this]; exact h3 x hx
  | gc b =>
    refine ⟨?_, ?_, ?_⟩
    · intro x; simp only [apply]; exact h1 x
    · intro x hx; simp only [apply, upd] at hx ⊢; split at hx
      · simp at hx
      · exact h2 x hx
    · intro x hx; simp only [apply, upd] at hx ⊢
      refine ⟨(h3 x hx).1, ?_⟩
      split
      · rfl
      · exact (h3 x hx).2

/-- a schedule all of whose steps are disciplined -/
def allDisciplined (s : S) : List Op → Bool
  | [] => true
  | o :: os => disciplined s o && allDisciplined (apply s o) os

theorem inv_run : ∀ (os : List Op) (s s' : S), Inv s → allDisciplined s os = true → run s os = some s' → Inv s' := by
  intro os
  induction os with
  | nil => intro s s' hi _ hr; simp [run] at hr; subst hr; exact hi
  | cons o os ih =>
    intro s s' hi hd hr
    simp only [allDisciplined, Bool.and_eq_true] at hd
    simp only [run] at hr
    split at hr
    · next he => exact ih _ _ (inv_step s o hi he hd.1) hd.2 hr
    · cases hr

end NV.Pool
