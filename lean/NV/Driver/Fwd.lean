/-
  NV.Driver.Fwd — driver operations for the forwarder model (C10):
    fwd <catch:0|1> <name> <value>*     values run through Forwarders.Set in order, then (catch=1) the
                                        catch-all of run.go is appended; Get + Resolve for <name>
        → list=<String() of each entry, hex, comma separated | -> get=<index|none> calls=<indexes|-> ret=<n|noforwarder>
    fwdq <catch:0|1> <payload> <value>*  the same for the query the proxy builds from a wire payload (query.New, error ignored)
    fmatch <domain> <name>              Resolver{Domain: domain}.Match(name)   → 0 | 1
  (all byte strings lowercase hex, empty = "-"; upstream identity = position in the final list;
   upstream number u answers n = 1000 + u, as the recording resolvers of the harness do)
-/
import NV.Model.Forwarder
import NV.Model.Query
import NV.Driver.Core
namespace NV
open NV.Fwd

def joinOrDash (xs : List String) : String := if xs.isEmpty then "-" else ",".intercalate xs

def parseHexList : List String → Option (List Bytes)
  | [] => some []
  | t :: ts => do
    let b ← ofHex t
    let r ← parseHexList ts
    pure (b :: r)

partial def stepFwd (toks : List String) : Option String :=
  match toks with
  | ["fmatch", d, n] =>
    match ofHex d, ofHex n with
    | some d, some n => some (boolStr (matchD d n))
    | _, _ => some "bad-op"
  | "fwdq" :: ca :: pay :: vals =>
    -- the query the proxy builds from a wire payload (parse errors are only logged): routing uses
    -- the name as far as `query.parse` got (set before the additional section is looked at)
    if ca ≠ "0" ∧ ca ≠ "1" then some "bad-op" else
    match ofHex pay with
    | none => some "bad-op"
    | some p =>
      match parse p with
      | .outOfFuel => some "out-of-fuel"
      | .done _ q => stepFwd ("fwd" :: ca :: toHexOrDash q.name :: vals)
  | "fwd" :: ca :: name :: vals =>
    if ca ≠ "0" ∧ ca ≠ "1" then some "bad-op" else
    match ofHex name, parseHexList vals with
    | some name, some vals =>
      let conf := number (setAll vals)
      let fs := if ca = "1" then withCatchAll conf conf.length else conf
      let (out, calls) := resolve (fun u _ => 1000 + u) fs name
      let getS := match getFw fs name with
        | none => "none"
        | some u => toString u
      let retS := match out with
        | .noForwarder => "noforwarder"
        | .passed r => toString r
      -- the same query when every upstream FAILS: the result of the chosen upstream is handed
      -- through (here the marker 0), still exactly one call (NV.C10.exactly_one_upstream holds for
      -- any upstream behaviour)
      let (fout, fcalls) := resolve (fun _ _ => 0) fs name
      let fretS := match fout with
        | .noForwarder => "noforwarder"
        | .passed _ => "err"
      some s!"list={joinOrDash (fs.map fun f => toHexOrDash (fwString f))} get={getS} calls={joinOrDash (calls.map toString)} ret={retS} fcalls={joinOrDash (fcalls.map toString)} fret={fretS}"
    | _, _ => some "bad-op"
  | "fwdseq" :: ca :: names :: vals =>
    -- several names resolved one after the other on ONE forwarder list: every one goes where it would go alone
    if ca ≠ "0" ∧ ca ≠ "1" then some "bad-op" else
    match (names.splitOn ",").mapM (fun h => if h = "-" then some [] else ofHex h), parseHexList vals with
    | some ns, some vals =>
      let conf := number (setAll vals)
      let fs := if ca = "1" then withCatchAll conf conf.length else conf
      let outs := ns.map fun name =>
        let (_, calls) := resolve (fun u _ => 1000 + u) fs name
        let c := joinOrDash (calls.map toString)
        c ++ ":" ++ c
      some s!"seq={"/".intercalate outs}"
    | _, _ => some "bad-op"
  | _ => none

end NV
