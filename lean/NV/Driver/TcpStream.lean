/-
  NV.Driver.TcpStream — `tcpstream <stream hex> <cuts>`: the frames of one client connection that reach a handler
  (each answered once with the frame's first two bytes as ID) and how the connection ends; the cut positions are the
  client's write boundaries and do not matter (io.ReadFull).   → ids=<sorted ids|-> end=<eof|small|short>
  `halfclose <n> <delay>`: n pipelined queries, the client shuts down its writing side at once: all are answered.
-/
import NV.Model.TcpStream
import NV.Driver.Core
namespace NV
open NV.TcpStream

def hex2 (b : UInt8) : String := toHex [b]

def stepTcpStream (toks : List String) : Option String :=
  match toks with
  | ["tcpstream", sh, _cuts] =>
    match (if sh = "-" then some [] else ofHex sh) with
    | none => some "bad-op"
    | some s =>
      let (fs, e) := splitFrames s
      let ids := fs.map fun f => match f with
        | a :: b :: _ => hex2 a ++ hex2 b
        | _ => "short"
      let sorted := ids.mergeSort (fun a b => a ≤ b)
      let es := match e with | .eof => "eof" | .small => "small" | .short => "short"
      some s!"ids={if sorted.isEmpty then "-" else ",".intercalate sorted} end={es}"
  | ["halfclose", ns, _d] =>
    match ns.toNat? with
    | some n => if n = 0 ∨ n > 16 then some "bad-op" else some s!"replied={n}/{n}"
    | none => some "bad-op"
  | _ => none

end NV

namespace NV
/-- `staleq <doh|dns53> <udp|tcp> <k> <payload>`: the same query asked k times through the whole daemon with the cache on,
the upstream answering the i-th request with one TTL-0 record carrying the serial i.  A stored answer with TTL 0 is never
fresh (`NV.C06.served_only_fresh_*`, `stale_refetch_*`): every query goes upstream — as the client's bytes (the query has
no option to rewrite) — and is answered with that request's answer (`NV.C01.upstream_when_ok`; the answers are far below
every UDP limit). -/
def stepStaleQ (toks : List String) : Option String :=
  match toks with
  | ["stallread", ns, ms] =>
    -- a TCP reply is the upstream's message behind its length, whole (`NV.C05.tcp_prefix`, `NV.C01.tcp_reply_faithful`),
    -- however long the client takes to read it: n pipelined queries and one more, n + 1 whole replies
    match ns.toNat?, ms.toNat? with
    | some n, some m => if n = 0 ∨ n > 400 ∨ m > 5000 then some "bad-op" else some s!"whole={n + 1}/{n + 1}"
    | _, _ => some "bad-op"
  | ["d53soak", ns] =>
    -- n exchanges with a plain-DNS upstream that answers each at once: every exchange is decided by its own datagrams
    -- (`NV.C03.dns53_*`: the model of DNS53.resolve has no state between exchanges), so all n are answered
    match ns.toNat? with
    | some n => if n = 0 ∨ n > 1000000 then some "bad-op" else some s!"answered={n}/{n}"
    | none => some "bad-op"
  | ["staleq", tr, proto, ks, h] =>
    match ks.toNat?, ofHex h with
    | some k, some p =>
      if k = 0 ∨ k > 8 ∨ p.length < 17 ∨ (tr ≠ "doh" ∧ tr ≠ "dns53") ∨ (proto ≠ "udp" ∧ proto ≠ "tcp") then some "bad-op" else
      let answer (i : Nat) : Bytes :=
        p.take 2 ++ [0x81, 0x80, 0, 1, 0, 1, 0, 0, 0, 0] ++ p.drop 12 ++
          [0xc0, 0x0c, 0, 1, 0, 1, 0, 0, 0, 0, 0, 4, 10, 0, UInt8.ofNat (i / 256), UInt8.ofNat (i % 256)]
      let is := (List.range k).map (· + 1)
      some s!"r={",".intercalate (is.map fun i => toHex (answer i))} up={",".intercalate (is.map fun _ => toHex p)}"
    | _, _ => some "bad-op"
  | _ => none
end NV
