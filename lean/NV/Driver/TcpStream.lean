/-
  NV.Driver.TcpStream — `tcpstream <stream hex> <cuts>`: the frames of one client connection that reach a handler
  (each answered once with the frame's first two bytes as ID) and how the connection ends; the cut positions are the
  client's write boundaries and do not matter (io.ReadFull).   → ids=<sorted ids|-> end=<eof|small|short>
  `halfclose <n> <delay>`: n pipelined queries, the client shuts down its writing side at once: all are answered.
-/
import NV.Model.TcpStream
import NV.Driver.Core
namespace NV
open NV.TcpStream

def hex2 (b : UInt8) : String := toHex [b]

def stepTcpStream (toks : List String) : Option String :=
  match toks with
  | ["tcpstream", sh, _cuts] =>
    match (if sh = "-" then some [] else ofHex sh) with
    | none => some "bad-op"
    | some s =>
      let (fs, e) := splitFrames s
      let ids := fs.map fun f => match f with
        | a :: b :: _ => hex2 a ++ hex2 b
        | _ => "short"
      let sorted := ids.mergeSort (fun a b => a ≤ b)
      let es := match e with | .eof => "eof" | .small => "small" | .short => "short"
      some s!"ids={if sorted.isEmpty then "-" else ",".intercalate sorted} end={es}"
  | ["halfclose", ns, _d] =>
    match ns.toNat? with
    | some n => if n = 0 ∨ n > 16 then some "bad-op" else some s!"replied={n}/{n}"
    | none => some "bad-op"
  | _ => none

end NV
