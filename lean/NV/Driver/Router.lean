/-
  NV.Driver.Router — driver operations of the C20 areas:

    tmpl <hex template> <hexA> <hexB> <hexListenPort> <hexCurrentPostConf> <bits X Y CacheEnabled ClientReporting SetPort0>
        render with the data struct of the harness:  ok <hex> | err | unsupported
    router <fw> <ops> <report 0|1> <hex CacheSize> <cacheOn 0|1> <hex initial listen> <state tokens…>
        run the op string (N = New, C = Configure, S = Setup, R = Restore, D = router.New().String(),
        x / y = Setup while the 1st / 2nd service command fails once, v / w = the same for Configure,
        e = the environment changes under the running daemon: synology's DHCP server is toggled in SRM)
        from the given initial state; after every op print the result and the whole state.
        state tokens:  F:<path>=<hex>   U:<key>=<hex>,<hex>…   N:<hexname>=<hex>
    gentmpl <fw>
        the regenerated template of a firmware (compared with the runtime value of `tmpl`)
-/
import NV.Model.Router
import NV.Gen.Router
namespace NV
open NV.Router NV.Tmpl

def ofHexD (x : String) : Option Bytes := ofHex x
def strBytes (x : String) : Bytes := x.toUTF8.toList
def bytesStr (b : Bytes) : String := String.ofList (b.map fun c => Char.ofNat c.toNat)

def harnessEnv (a b lp cpc : Bytes) (bits : List Bool) : Env := fun n =>
  if n = b!"A" then some (.str a)
  else if n = b!"B" then some (.str b)
  else if n = b!"ListenPort" then some (.str lp)
  else if n = b!"CurrentPostConf" then some (.str cpc)
  else if n = b!"X" then some (.bool (bits.getD 0 false))
  else if n = b!"Y" then some (.bool (bits.getD 1 false))
  else if n = b!"CacheEnabled" then some (.bool (bits.getD 2 false))
  else if n = b!"ClientReporting" then some (.bool (bits.getD 3 false))
  else if n = b!"SetPort0" then some (.bool (bits.getD 4 false))
  else none

def bitsOf (m : String) : Option (List Bool) :=
  m.toList.mapM fun c => if c = '1' then some true else if c = '0' then some false else none

def constsOf : Fw → FwConsts
  | .openwrt => Gen.Router.openwrt | .merlin => Gen.Router.merlin | .ddwrt => Gen.Router.ddwrt
  | .edgeos => Gen.Router.edgeos | .synology => Gen.Router.synology | .ubios => Gen.Router.ubios
  | .firewalla => Gen.Router.firewalla | .generic => Gen.Router.generic

/-- lexicographic order on byte strings -/
def bytesLe : Bytes → Bytes → Bool
  | [], _ => true
  | _ :: _, [] => false
  | a :: x, b :: y => a < b || (a = b && bytesLe x y)

def insertSorted (p : Bytes × Bytes) : List (Bytes × Bytes) → List (Bytes × Bytes)
  | [] => [p]
  | q :: r => if bytesLe p.1 q.1 then p :: q :: r else q :: insertSorted p r

def sortFiles (f : Store) : Store := f.foldr insertSorted []

def hexList (vs : List Bytes) : String := ",".intercalate (vs.map toHexOrDash)

def dumpFiles (f : Store) : List String := (sortFiles f).map fun p => s!"F:{bytesStr p.1}={toHexOrDash p.2}"
def dumpUci (tag : String) (u : UStore) : List String := u.map fun p => s!"{tag}:{bytesStr p.1}={hexList p.2}"
def dumpNv (tag : String) (n : Store) : List String := n.map fun p => s!"{tag}:{toHexOrDash p.1}={toHexOrDash p.2}"

def canonSnap (v : Snap) : List String := dumpFiles v.files ++ dumpUci "U" v.uci ++ dumpNv "N" v.nv

def viewStr (s : Sys) : String :=
  match s.view with
  | none => "none"
  | some v => if canonSnap v = canonSnap (snapOf s) then "sync" else "stale"

def dumpSys (s : Sys) : String :=
  let parts := [s!"restarts={s.restarts}", s!"view={viewStr s}"] ++ dumpFiles (visible s.files) ++ dumpUci "U" s.uciC
    ++ (if s.uciS = s.uciC then [] else "ustaged" :: dumpUci "u" s.uciS)
    ++ dumpNv "N" s.nvL ++ (if s.nvC = s.nvL then [] else "nvcommitted" :: dumpNv "n" s.nvC)
  " ".intercalate parts

def parseStateTok (s : Sys) (t : String) : Option Sys :=
  match t.splitOn "=" with
  | [k, v] =>
    if k.startsWith "F:" then do
      let c ← ofHex v
      pure { s with files := s.files ++ [(strBytes (k.drop 2).toString, c)] }
    else if k.startsWith "U:" then do
      let vs ← (v.splitOn ",").mapM ofHex
      pure { s with uciC := s.uciC ++ [(strBytes (k.drop 2).toString, vs)] }
    else if k.startsWith "N:" then do
      let n ← ofHex (k.drop 2).toString
      let c ← ofHex v
      pure { s with nvL := s.nvL ++ [(n, c)] }
    else if k.startsWith "B:" then some s   -- a loopback port held by somebody else: not router state
    else none
  | _ => none

structure RunSt where
  sys : Sys
  cfg : Cfg
  obj : Option Obj

def runOp (fw : Fw) (st : RunSt) (op : Char) : Option (String × RunSt) :=
  let c := constsOf fw
  let names := Gen.Router.ddwrtSaveNames
  let vars := Gen.Router.ddwrtSetVars
  let okS (b : Bool) := if b then "ok" else "err"
  match op with
  | 'N' =>
    match new c fw st.sys with
    | some o => some ("N:ok", { st with obj := some o })
    | none => some ("N:no", { st with obj := none })
  | 'D' =>
    match detect Gen.Router.detectOrder st.sys with
    | some f => some (s!"D:{bytesStr (constsOf f).name}", st)
    | none => some ("D:none", st)
  | 'C' =>
    match st.obj with
    | none => some ("C:-", st)
    | some o =>
      let r := configure c names vars fw o st.cfg st.sys
      some (s!"C:{okS r.1} listens={hexList r.2.2.1.listens} cs={toHexOrDash r.2.2.1.cacheSize}",
            { sys := r.2.2.2, cfg := r.2.2.1, obj := some r.2.1 })
  | 'S' =>
    match st.obj with
    | none => some ("S:-", st)
    | some o =>
      let r := setup c names vars fw o st.sys
      some (s!"S:{okS r.1}", { st with sys := r.2.2, obj := some r.2.1 })
  | 'x' | 'y' =>
    -- Setup in a world where its 1st ('x') / 2nd ('y') service command fails once
    match st.obj with
    | none => some (s!"{op}:-", st)
    | some o =>
      let r := setup (faultConsts c (if op = 'x' then 1 else 2)) names vars fw o st.sys
      some (s!"{op}:{okS r.1}", { st with sys := r.2.2, obj := some r.2.1 })
  | 'v' | 'w' =>
    -- Configure in such a world (ddwrt runs its setup from Configure when the cache is on)
    match st.obj with
    | none => some (s!"{op}:-", st)
    | some o =>
      let r := configure (faultConsts c (if op = 'v' then 1 else 2)) names vars fw o st.cfg st.sys
      some (s!"{op}:{okS r.1} listens={hexList r.2.2.1.listens} cs={toHexOrDash r.2.2.1.cacheSize}",
            { sys := r.2.2.2, cfg := r.2.2.1, obj := some r.2.1 })
  | 'e' =>
    -- the environment changes under the running daemon: on synology the DHCP server is toggled in SRM
    -- (/etc/dhcpd/dhcpd.info, the file Configure looked at); elsewhere nothing
    if fw = .synology then
      let p := b!"/etc/dhcpd/dhcpd.info"
      let newc := if fileHasPrefix st.sys p b!"enable=\"yes\"" then b!"enable=\"no\"\n" else b!"enable=\"yes\"\nif=\"lbr0\"\n"
      -- SRM applies its own change: the running dnsmasq sees the files as they are now
      let sys1 := { st.sys with files := aset st.sys.files p newc }
      some ("e:ok", { st with sys := { sys1 with view := st.sys.view.map fun _ => snapOf sys1 } })
    else some ("e:-", st)
  | 'R' =>
    match st.obj with
    | none => some ("R:-", st)
    | some o =>
      let r := restore c fw o st.sys
      some (s!"R:{okS r.1}", { st with sys := r.2.2, obj := some r.2.1 })
  | _ => none

def runOps (fw : Fw) : List Char → RunSt → List String → Option (List String)
  | [], _, acc => some acc.reverse
  | op :: ops, st, acc =>
    match runOp fw st op with
    | none => none
    | some (out, st') => runOps fw ops st' (s!"{out} {dumpSys st'.sys}" :: acc)

def stepRouter (toks : List String) : Option String :=
  match toks with
  | ["tmpl", th, ah, bh, lph, cpch, bits] =>
    match ofHex th, ofHex ah, ofHex bh, ofHex lph, ofHex cpch, bitsOf bits with
    | some t, some a, some b, some lp, some cpc, some bs =>
      if bs.length ≠ 5 then some "bad-op" else
      match render t (harnessEnv a b lp cpc bs) with
      | .ok out => some s!"ok {toHexOrDash out}"
      | .err => some "err"
      | .unsupported => some "unsupported"
    | _, _, _, _, _, _ => some "bad-op"
  | ["gentmpl", fwn] =>
    match fwOfName (strBytes fwn) with
    | some fw => some (toHexOrDash (constsOf fw).tmpl)
    | none => some "bad-op"
  | "router" :: fwn :: ops :: rep :: cs :: on :: l0 :: state =>
    match fwOfName (strBytes fwn), bitsOf rep, ofHex cs, bitsOf on, ofHex l0 with
    | some fw, some [rep], some cs, some [on], some l0 =>
      match state.foldlM parseStateTok ({} : Sys) with
      | none => some "bad-op"
      | some s0 =>
        let s0 := { s0 with uciS := s0.uciC, nvC := s0.nvL }
        let s0 := { s0 with view := some (snapOf s0) }
        let st : RunSt := { sys := s0, cfg := { listens := [l0], cacheSize := cs, report := rep, cacheOn := on }, obj := none }
        match runOps fw ops.toList st [] with
        | none => some "bad-op"
        | some outs => some (" | ".intercalate outs)
    | _, _, _, _, _ => some "bad-op"
  | _ => none

end NV
