/-
  NV.Driver.Cap — `cap <K> <events>`: what the capacity model predicts for a rendezvous of K+2
  slow queries after an arbitrary storm of request endings: exactly K run concurrently (the
  semaphore has K units and, by NV.C04, every path gave its unit back), all K+2 are answered once
  the gate opens, and the proxy still answers a probe; a second rendezvous of K+2 slow queries
  alternating UDP and TCP never shows more than K at once (one pool for every listener,
  `NV.C04.gen_single_semaphore` + `concurrent_handlers_le_K`) and is answered in full.
-/
import NV.Model.LastMod
namespace NV

def capEventKinds : List String :=
  ["udp-ok", "udp-err", "udp-timeout", "udp-panic", "udp-small", "udp-malformed", "udp-d53tc", "tcp-d53tc",
   "tcp-ok", "tcp-err", "tcp-panic", "tcp-small", "tcp-midframe", "tcp-idle-close", "tcp-timeout", "tcp-pipeline", "tcp-empty", "tcp-tinyframes", "tcp-pipeline-abort"]

/-- units held by threads after a storm in which every request has ended: none (NV.C04
`every_path_balanced`), so the full capacity is available again -/
def capAfterStorm (k : Nat) (_events : List String) : Nat := k

def stepCap (toks : List String) : Option String :=
  match toks with
  | ["cap", ks, evs] =>
    match ks.toNat? with
    | none => some "bad-op"
    | some k =>
      let events := evs.splitOn ","
      if k = 0 ∨ !(events.all fun e => capEventKinds.contains e) then some "bad-op"
      else
        let c := capAfterStorm k events
        some s!"max={c} replied={k + 2}/{k + 2} probe=ok mix=ok mixreplied={k + 2}/{k + 2}"
  | ["capudp", ks, ns] =>
    -- transient failures of the listener's pending read neither take nor lose a unit (the read-error path of serveUDP is
    -- part of the certified CFG: `gen_cert_ok`): the full capacity is there afterwards, and the loop ends with its socket
    match ks.toNat?, ns.toNat? with
    | some k, some n => if k = 0 ∨ n > 64 then some "bad-op" else some s!"max={k} replied={k}/{k} returned=1"
    | _, _ => some "bad-op"
  | ["caplisten", ks, as] =>
    -- the real ListenAndServe on `a` addresses sharing ONE semaphore of the configured capacity (`gen_single_semaphore`):
    -- with a ≤ k every reader holds at most one idle unit, k + a slow queries spread over the addresses fill the k units
    -- and no more (`NV.C04`: the number of handlers never exceeds the capacity), and all are answered once released
    match ks.toNat?, as.toNat? with
    | some k, some a => if a = 0 ∨ k < a ∨ k > 64 then some "bad-op" else some s!"max={k} replied={k + a}/{k + a}"
    | _, _ => some "bad-op"
  | _ => none

end NV

namespace NV
/-- `racesoak`: the concurrent soak of C15 has no per-line model; the race detector is the oracle,
the expected canonical line is `ok`. -/
def stepRaceSoak (toks : List String) : Option String :=
  match toks with
  | ["racesoak"] => some "ok"
  | _ => none

/-- `lmrace k iters`: per iteration k concurrent responses of one profile, ONE of them announcing a configuration change
newer than a cached entry.  Whatever the interleaving of the handlers the newest time is the one recorded
(`NV.C15.lastmod_any_schedule`; evaluated here on the schedule "all look, then all store" of the model), so the entry is
fetched again in every iteration. -/
def stepLMRace (toks : List String) : Option String :=
  match toks with
  | ["lmrace", ks, ns] =>
    match ks.toNat?, ns.toNat? with
    | some k, some n =>
      if k < 2 ∨ k > 16 ∨ n = 0 ∨ n > 1000000 then some "bad-op" else
      -- entry cached at time 10; handler 0 announces 20 (the change), the others 1..k-1 (older)
      let ts : Nat → Nat := fun i => if i = 0 then 20 else i
      let ids := List.range k
      let final := (NV.LastMod.run ts (NV.LastMod.init 0) (ids.reverse ++ ids.reverse)).cur
      some s!"stale={if final < 10 then n else 0}/{n}"
    | _, _ => some "bad-op"
  | _ => none
end NV
