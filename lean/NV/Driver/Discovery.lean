/-
  NV.Driver.Discovery — line protocol for the discovery tables (C18):
    appuniq <set> <adds>                       appendUniq(set, adds...)
    validname <hex>                            isValidName
    hosts <content> <iptable> <queries>        readHostsFile + Resolver lookups
    dnsmasq|dhcpd <content> <queries>          lease readers + Resolver lookups
    clientlist <hex>                           readClientList
    mdnsops <cap> <ops>                        a:<addr>:<name> (ingest) | x (removeOldestEntry) | r:<key>:<value> (removeEntry on addrs)
    mdnspkt <cap> <packets>                    packets through MDNS.read (cap = the code's mdnsMaxEntries)
    mdnsflood <cap> <n>                        one packet with n distinct hosts, then one late announcement → table sizes
  Lists: `-` = empty, elements joined by `,`, element = lowercase hex, `_` = empty string.
  Tables: `-` = empty, `key:v,v;key:v` sorted by key (bytewise).
-/
import NV.Model.MDNS
import NV.Gen.Discovery
namespace NV.Disc
open NV

def encStr (s : Str) : String := if s.isEmpty then "_" else toHex s
def decStr (s : String) : Option Str := if s = "_" then some [] else if s = "-" ∨ s = "" then none else ofHexList s.toList

def encList (l : List Str) : String := if l.isEmpty then "-" else ",".intercalate (l.map encStr)
def decList (s : String) : Option (List Str) :=
  if s = "-" then some [] else (s.splitOn ",").mapM decStr

def sortKeys {V : Type} (m : List (Str × V)) : List (Str × V) := m.mergeSort fun a b => strLe a.1 b.1

def encTbl (m : Tbl) : String :=
  if m.isEmpty then "-"
  else ";".intercalate ((sortKeys m).map fun p => encStr p.1 ++ ":" ++ ",".intercalate (p.2.map encStr))

def encETbl (m : ETbl) : String := encTbl (m.map fun p => (p.1, p.2.values))

def encLru (m : ETbl) : String :=
  encList ((m.mergeSort fun a b => a.2.stamp ≤ b.2.stamp).map (·.1))

/-- `raw>canon,raw>canon` : the finite part of `net.ParseIP(·).String()` the case needs -/
def decIpTable (s : String) : Option (List (Str × Str)) :=
  if s = "-" then some []
  else (s.splitOn ",").mapM fun it =>
    match it.splitOn ">" with
    | [a, b] => do
      let x ← decStr a
      let y ← decStr b
      pure (x, y)
    | _ => none

inductive Query where
  | host (q : Str) | addr (q : Str) | mac (q : Str)

def decQueries (s : String) : Option (List Query) :=
  if s = "-" then some []
  else (s.splitOn ",").mapM fun it =>
    match it.splitOn ":" with
    | ["h", a] => (decStr a).map .host
    | ["a", a] => (decStr a).map .addr
    | ["m", a] => (decStr a).map .mac
    | _ => none

def encAnswers (rs : List (List Str)) : String := if rs.isEmpty then "-" else "/".intercalate (rs.map encList)

def answer (names addrs macs : Tbl) : Query → List Str
  | .host q => resolverLookupHost names q
  | .addr q => resolverLookupKey addrs q
  | .mac q => resolverLookupKey macs q

def leaseOut (t : LeaseTbl) (qs : List Query) : String :=
  s!"macs={encTbl t.macs} addrs={encTbl t.addrs} names={encTbl t.names} q={encAnswers (qs.map (answer t.names t.addrs t.macs))}"

inductive Op where
  | add (addr name : Str) | evict | rm (key value : Str)

def decOps (s : String) : Option (List Op) :=
  if s = "-" then some []
  else (s.splitOn ";").mapM fun it =>
    match it.splitOn ":" with
    | ["a", a, n] => do
      let x ← decStr a
      let y ← decStr n
      pure (.add x y)
    | ["x"] => some .evict
    | ["r", k, v] => do
      let x ← decStr k
      let y ← decStr v
      pure (.rm x y)
    | _ => none

def applyOp (cap : Nat) (s : MState) : Op → MState
  | .add a n => ingestOne cap s (a, n)
  | .evict => removeOldest s
  | .rm k v => { s with addrs := removeEntry s.addrs k v }

def decRec (s : String) : Option Rec :=
  match s.splitOn "." with
  | [sec, kind, n, a] => do
    let sc ← sec.toNat?
    let nm ← decStr n
    if kind = "4" ∨ kind = "6" then
      let ad ← decStr a
      pure { sec := sc, isAddr := true, name := nm, addr := ad }
    else if kind = "t" then pure { sec := sc, isAddr := false, name := nm, addr := [] }
    else none
  | _ => none

/-- a packet: `ok;rec;rec…` or `bad;rec;…` (a message the parser rejects: dropped as a whole) -/
def decPkt (s : String) : Option (List (Str × Str)) :=
  match s.splitOn ";" with
  | flag :: recs =>
    if flag = "ok" then (recs.mapM decRec).map parseEntries
    else if flag = "bad" then (recs.mapM decRec).map fun _ => []
    else none
  | [] => none

def mdnsOut (s : MState) (lru : Bool) : String :=
  s!"names={encETbl s.names} addrs={encETbl s.addrs} lru={if lru then encLru s.names else "-"}"

def stepDiscovery (toks : List String) : Option String :=
  match toks with
  | ["appuniq", set, adds] =>
    match decList set, decList adds with
    | some s, some a => some (encList (appendUniq s a))
    | _, _ => some "bad-op"
  | ["validname", h] =>
    match decStr h with
    | some n => some (if isValidName n then "1" else "0")
    | none => some "bad-op"
  | ["hosts", content, ipt, qs] =>
    match ofHex content, decIpTable ipt, decQueries qs with
    | some c, some tbl, some q =>
      let t := readHostsFile (fun s => tbl.lookup s) c
      some s!"names={encTbl t.names} addrs={encTbl t.addrs} q={encAnswers (q.map (answer t.names t.addrs []))}"
    | _, _, _ => some "bad-op"
  | ["dnsmasq", content, qs] =>
    match ofHex content, decQueries qs with
    | some c, some q => some (leaseOut (readDNSMasqLease c) q)
    | _, _ => some "bad-op"
  | ["dhcpd", content, qs] =>
    match ofHex content, decQueries qs with
    | some c, some q => some (leaseOut (readDHCPDLease c) q)
    | _, _ => some "bad-op"
  | ["clientlist", h] =>
    match ofHex h with
    | some b =>
      match readClientList b with
      | none => some "err"
      | some none => some "nil"
      | some (some t) => some (encTbl t)
    | none => some "bad-op"
  | ["mdnsops", cap, ops] =>
    match cap.toNat?, decOps ops with
    | some c, some os => some (mdnsOut (os.foldl (applyOp c) {}) true)
    | _, _ => some "bad-op"
  | ["mdnspkt", cap, pkts] =>
    match cap.toNat?, (pkts.splitOn "|").mapM decPkt with
    | some c, some ps =>
      -- `cap` is the constant compiled into the harness; it must be the one the translator read
      if c ≠ Gen.mdnsMaxEntries then some "cap-differs-from-translator" else
      let fwd := ps.foldl (fun s es => ingestPacket c s (sortEntries es)) {}
      let bwd := ps.foldl (fun s es => ingestPacket c s (sortEntries es).reverse) {}
      let single := ps.all fun es => es.length ≤ 1
      let o1 := mdnsOut fwd single
      -- Go visits the entries of one packet in random map order: the generator only emits
      -- multi-entry packets where the order cannot matter; the driver double-checks that
      if o1 = mdnsOut bwd single then some o1 else some "order-dependent"
    | _, _ => some "bad-op"
  | ["mdnsflood", cap, ns] =>
    -- ONE packet announcing n distinct hosts (n may exceed the cap), then a single late announcement: which of the
    -- flood's names survive depends on Go's map order, the SIZE of the table does not (NV.C18.mdns_cap), and the late
    -- announcement is always learned; the reader must still be alive to learn it
    match cap.toNat?, ns.toNat? with
    | some c, some n =>
      if c ≠ Gen.mdnsMaxEntries then some "cap-differs-from-translator" else
      if n = 0 ∨ n > 2000 then some "bad-op" else
      let ent (i : Nat) : Str × Str :=
        (s!"10.{i / 65536}.{(i / 256) % 256}.{i % 256}".toUTF8.toList, s!"h{i}.local.".toUTF8.toList)
      let flood := (List.range n).map ent
      let st := ingestPacket c (ingestPacket c {} flood) [("10.250.250.250".toUTF8.toList, "late.local.".toUTF8.toList)]
      some s!"size={st.names.length} addrs={st.addrs.length} late={if (st.names.any fun p => p.1 == "late.local.".toUTF8.toList) then 1 else 0}"
    | _, _ => some "bad-op"
  | _ => none

end NV.Disc
