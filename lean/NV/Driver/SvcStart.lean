/-
  NV.Driver.SvcStart — `svcstart <kind> <naddrs>`: what `(*proxySvc).Start` does when every
  attempt of the observation window ends the same way.
    ok       every listener binds                      -> started, hooks run, all addresses serve
    inuse    one address is taken (EADDRINUSE)         -> error, no hook, nothing left bound
    notavail one address is not this host's (EADDRNOTAVAIL) -> the same
    unreach  one address keeps failing "unreachable"   -> still waiting, no hook
-/
import NV.Model.SvcStart
import NV.Model.SvcLife
namespace NV
open NV.SvcStart

def stepSvcStart (toks : List String) : Option String :=
  match toks with
  | ["svcstart", kind, ns] =>
    match ns.toNat? with
    | none => some "bad-op"
    | some n =>
      if n = 0 ∨ n > 4 then some "bad-op" else
      let atts? : Option (List Att) :=
        match kind with
        | "ok" => some [attempt none]
        | "died" => some [attempt none]
        | "inuse" => some [attempt (some false)]
        | "notavail" => some [attempt (some false)]
        | "namedinuse" => some [attempt (some false)]
        | "unreach" => some (List.replicate 64 (attempt (some true)))
        | _ => none
      match atts? with
      | none => some "bad-op"
      | some atts =>
        let r := svcStart atts
        let hooks := if hooksRun atts then 1 else 0
        let bound := match r with
          | .started => "all" | .error => "none" | .waiting => "-"
        -- a started service that is stopped runs its OnStopped hooks exactly once, also when its
        -- listeners died in between (NV.SvcStart.stopHooks)
        let stop := if r = .started then s!" stop={stopHooks true (kind = "died")}" else ""
        some s!"result={r.str} hooks={hooks} bound={bound}{stop}"
  | _ => none

/-- `svclife <naddrs> <ops>`: a history of calls on ONE service object (NV.SvcLife):
  S  Start(), every address free          F  Start(), the last address taken (bind error)
  T  Stop()                               R  Restart()
  K  the listeners die under the running service
after each operation: `<op>=<result>,<start-up rounds>,<shut-down rounds>,<serving>`. -/
def stepSvcLife (toks : List String) : Option String :=
  match toks with
  | ["svclife", ns, ops] =>
    match ns.toNat? with
    | none => some "bad-op"
    | some n =>
      if n = 0 ∨ n > 4 ∨ ops.isEmpty then some "bad-op" else
      let opOf : Char → Option SvcLife.Op
        | 'S' => some (.start [.bound])
        | 'F' => some (.start [.failed])
        | 'T' => some .stop
        | 'R' => some (.restart .bound)
        | 'K' => some .die
        | _ => none
      let rec go (s : SvcLife.St) (cs : List Char) (acc : List String) : Option (List String) :=
        match cs with
        | [] => some acc.reverse
        | c :: rest =>
          match opOf c with
          | none => none
          | some o =>
            match SvcLife.step s o with
            | none => none
            | some (s', r) =>
              let rs := match r with | .ok => "ok" | .err => "err" | .hung => "hung"
              go s' rest (s!"{c}={rs},{SvcLife.ups s'},{SvcLife.downs s'},{if s'.serving then 1 else 0}" :: acc)
      match go SvcLife.init ops.toList [] with
      | none => some "bad-op"
      | some out => some (" ".intercalate out)
  | _ => none

/-- `runloop <svc|fg> <ok|err> <signals|->`: the calls the daemon's run loop makes on the service object and how the
process ends (NV.SvcLife.runLoopOps / stopsOn): Start; on its error the loop returns it; otherwise Stop at the first
stopping signal and the loop returns; with no stopping signal the process is still there. -/
def stepRunLoop (toks : List String) : Option String :=
  match toks with
  | ["runloop", mode, start, sigs] =>
    let fg? : Option Bool := if mode = "fg" then some true else if mode = "svc" then some false else none
    let as? : Option (List SvcStart.Att) :=
      if start = "ok" then some [.bound] else if start = "err" then some [.failed] else none
    let sigOf (fg : Bool) (s : String) : Option SvcLife.Sig :=
      if s = "TERM" then some .term else if s = "HUP" then some .hup else if s = "INT" then some .int
      else if s ∈ ["USR1", "USR2", "CHLD", "URG", "WINCH", "CONT"] then some .other
      else if s = "QUIT" ∧ !fg then some .other else none
    match fg?, as? with
    | some fg, some as =>
      match (if sigs = "-" then some [] else (sigs.splitOn ",").mapM (sigOf fg)) with
      | none => some "bad-op"
      | some ss =>
        let ops := SvcLife.runLoopOps fg as ss
        let calls := ops.map fun o => match o with | .start _ => "start" | .stop => "stop" | _ => "?"
        let stopped := ops.any fun o => o == .stop
        let e := if SvcStart.svcStart as != .started then "ret=err" else if stopped then "ret=nil" else "alive"
        some s!"calls={",".intercalate calls} end={e}"
    | _, _ => some "bad-op"
  | _ => none

end NV
