/-
  NV.Driver.SvcStart — `svcstart <kind> <naddrs>`: what `(*proxySvc).Start` does when every
  attempt of the observation window ends the same way.
    ok       every listener binds                      -> started, hooks run, all addresses serve
    inuse    one address is taken (EADDRINUSE)         -> error, no hook, nothing left bound
    notavail one address is not this host's (EADDRNOTAVAIL) -> the same
    unreach  one address keeps failing "unreachable"   -> still waiting, no hook
-/
import NV.Model.SvcStart
import NV.Model.SvcLife
namespace NV
open NV.SvcStart

def stepSvcStart (toks : List String) : Option String :=
  match toks with
  | ["svcstart", kind, ns] =>
    match ns.toNat? with
    | none => some "bad-op"
    | some n =>
      if n = 0 ∨ n > 4 then some "bad-op" else
      let atts? : Option (List Att) :=
        match kind with
        | "ok" => some [attempt none]
        | "died" => some [attempt none]
        | "inuse" => some [attempt (some false)]
        | "notavail" => some [attempt (some false)]
        | "namedinuse" => some [attempt (some false)]
        | "unreach" => some (List.replicate 64 (attempt (some true)))
        | _ => none
      match atts? with
      | none => some "bad-op"
      | some atts =>
        let r := svcStart atts
        let hooks := if hooksRun atts then 1 else 0
        let bound := match r with
          | .started => "all" | .error => "none" | .waiting => "-"
        -- a started service that is stopped runs its OnStopped hooks exactly once, also when its
        -- listeners died in between (NV.SvcStart.stopHooks)
        let stop := if r = .started then s!" stop={stopHooks true (kind = "died")}" else ""
        some s!"result={r.str} hooks={hooks} bound={bound}{stop}"
  | _ => none

/-- `svclife <naddrs> <ops>`: a history of calls on ONE service object (NV.SvcLife):
  S  Start(), every address free          F  Start(), the last address taken (bind error)
  T  Stop()                               R  Restart()
  K  the listeners die under the running service
after each operation: `<op>=<result>,<start-up rounds>,<shut-down rounds>,<serving>`. -/
def stepSvcLife (toks : List String) : Option String :=
  match toks with
  | ["svclife", ns, ops] =>
    match ns.toNat? with
    | none => some "bad-op"
    | some n =>
      if n = 0 ∨ n > 4 ∨ ops.isEmpty then some "bad-op" else
      let opOf : Char → Option SvcLife.Op
        | 'S' => some (.start [.bound])
        | 'F' => some (.start [.failed])
        | 'T' => some .stop
        | 'R' => some (.restart .bound)
        | 'K' => some .die
        | _ => none
      let rec go (s : SvcLife.St) (cs : List Char) (acc : List String) : Option (List String) :=
        match cs with
        | [] => some acc.reverse
        | c :: rest =>
          match opOf c with
          | none => none
          | some o =>
            match SvcLife.step s o with
            | none => none
            | some (s', r) =>
              let rs := match r with | .ok => "ok" | .err => "err" | .hung => "hung"
              go s' rest (s!"{c}={rs},{SvcLife.ups s'},{SvcLife.downs s'},{if s'.serving then 1 else 0}" :: acc)
      match go SvcLife.init ops.toList [] with
      | none => some "bad-op"
      | some out => some (" ".intercalate out)
  | _ => none

end NV
