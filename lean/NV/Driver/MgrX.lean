/-
  NV.Driver.MgrX — `mgrx slow` and `mgrx overlap`: two election scenarios that need real time or a
  real interleaving on the implementation side, predicted by the manager model (NV.Model.Manager)
  as a plain sequence of forced elections:
    slow    : candidates a, b; a's probe never answers (fails at its own 5 s deadline), b is healthy
              ⇒ b is elected (each probe has its own budget).
    overlap : election E0 elects a; E1 (a down, b healthy) elects b and is held inside OnChange while
              E2 (only a offered, healthy) runs to completion ⇒ the outcome is that of E0; E1; E2 in
              sequence: a is active, changes a, b, a.
-/
import NV.Model.Manager
namespace NV.MgrX
open NV NV.Mgr

def cfg0 : Cfg := ⟨0, 0, fun _ => 0, none⟩
def epA : Ep := ⟨0, 0⟩
def epB : Ep := ⟨1, 0⟩

def runTests (envs : List Env) : St × List Ev :=
  envs.foldl (fun acc env =>
    match forceTest repaired cfg0 acc.1 env with
    | some (st, evs) => (st, acc.2 ++ evs)
    | none => acc) (St.init, [])

def activeKey (st : St) : String :=
  match st.active with
  | none => "none"
  | some i => match (st.heap i).ep with
    | none => "nil"
    | some e => toString e.key

def changes (evs : List Ev) : String :=
  let ks := evs.filterMap fun e => match e with
    | .onChange (some ep) => some (toString ep.key)
    | .onChange none => some "nil"
    | _ => none
  if ks.isEmpty then "-" else ",".intercalate ks

def stepMgrX (toks : List String) : Option String :=
  match toks with
  | ["mgrx", "slow"] =>
    let env : Env := ⟨[.ok [epA, epB]], fun k => if k = 0 then .err else .ok⟩
    let r := runTests [env]
    some s!"active={activeKey r.1} changes={changes r.2}"
  | ["mgrx", "overlap"] =>
    let e0 : Env := ⟨[.ok [epA, epB]], fun _ => .ok⟩
    let e1 : Env := ⟨[.ok [epA, epB]], fun k => if k = 0 then .err else .ok⟩
    let e2 : Env := ⟨[.ok [epA]], fun _ => .ok⟩
    let r := runTests [e0, e1, e2]
    some s!"active={activeKey r.1} changes={changes r.2}"
  | _ => none

end NV.MgrX
