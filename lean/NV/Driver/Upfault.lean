/-
  NV.Driver.Upfault — `upf doh|dns53 udp|tcp <payload> <fault…>`: the reply the client must get
  for one query under one upstream fault (models: NV.Model.Upstream, NV.Model.Reply), plus the
  latency class the model's clock predicts (`lat=ok`: completion ≤ timeout).
-/
import NV.Driver.Core
import NV.Model.Upstream
namespace NV

def upTimeoutMs : Nat := 300
def bufLen : Nat := 65535

def xor16 (a b : Nat) : Nat := a ^^^ b

def malformedBody (n salt : Nat) : Bytes := (List.range n).map fun i => b8 (i * 31 + salt)

def garbageDgram (id n salt : Nat) : Bytes :=
  (List.range n).map fun i =>
    if n ≥ 2 ∧ i = 0 then b8 (id / 256) else if n ≥ 2 ∧ i = 1 then b8 id else b8 (i * 13 + salt)

def dohFaultOf (id : Nat) (toks : List String) : Option DohFault :=
  match toks with
  | ["ok", n, salt] | ["oversize", n, salt] => do
      let n ← n.toNat?; let s ← salt.toNat?
      pure (.status 200 [.data (synthResp id n s), .eof []])
  | ["malformed", n, salt] => do
      let n ← n.toNat?; let s ← salt.toNat?
      pure (.status 200 [.data (malformedBody n s), .eof []])
  | ["status", c] => do let c ← c.toNat?; pure (.status c [.eof []])
  | ["empty"] => some (.status 200 [.eof []])
  | ["midhang", _, _] => some (.status 200 [.data [0], .fail])   -- some bytes, then the deadline fires
  | ["shortcl", _, _] | ["finmid", _, _] =>
      -- fewer bytes than the declared Content-Length, then a clean end of stream / connection:
      -- the body reader reports an error (unexpected EOF), the message is NOT complete
      some (.status 200 [.data [0], .fail])
  | ["trickle"] => some (.status 200 [.data [0], .fail])
  | ["hang"] | ["reset"] | ["stall"] | ["abort"] | ["hshang"] => some .transportError
  | _ => none

def dgramOf (id : Nat) (s : String) : Option Arrival :=
  match s.splitOn ":" with
  | [d, kind, n, salt] => do
    let d ← d.toNat?; let n ← n.toNat?; let salt ← salt.toNat?
    match kind with
    | "wrongid" => some ⟨d, synthResp (xor16 id 0x5555) n salt⟩
    | "wronghi" => some ⟨d, synthResp (xor16 id 0x0100) n salt⟩
    | "wronglo" => some ⟨d, synthResp (xor16 id 0x0001) n salt⟩
    | "short" => some ⟨d, [b8 (id / 256)]⟩
    | "garbage" => some ⟨d, garbageDgram id n salt⟩
    | "match" => some ⟨d, synthResp id n salt⟩
    | "latematch" => some ⟨d, synthResp id n salt⟩   -- a `match` after which the harness does not wait for stray datagrams to drain
    | _ => none
  | _ => none

partial def stepUpfault (toks : List String) : Option String :=
  match toks with
  | ["upfpair", proto, h1, s1, h2, s2] =>
    -- two exchanges back to back behind the long-timeout proxy: each is decided by its own script alone (a fresh socket per
    -- exchange: a datagram answering the first can never be read by the second)
    match stepUpfault ["upf", "dns53s", proto, h1, s1], stepUpfault ["upf", "dns53s", proto, h2, s2] with
    | some a, some b => if a = "bad-op" ∨ b = "bad-op" then some "bad-op" else some s!"{a} | {b}"
    | _, _ => some "bad-op"
  | "upf" :: which :: proto :: h :: fault =>
    if proto ≠ "udp" ∧ proto ≠ "tcp" then some "bad-op" else
    match ofHex h with
    | none => some "bad-op"
    | some p =>
      if p.length ≤ 14 then some "bad-op" else
      match parse p with
      | .outOfFuel => some "out-of-fuel"
      | .done _ q =>
        let tmo := if which = "dns53s" then 5 * upTimeoutMs else upTimeoutMs
        let outcome : Option (Outcome × Nat) :=
          if which = "doh" then (dohFaultOf q.id fault).map fun f => (dohOutcome bufLen f, 0)
          else if which = "dns53" ∨ which = "dns53s" then
            match fault with
            | ["none"] => some ((dns53Loop q.id tmo []).outcome, tmo)
            | [script] =>
              (script.splitOn ",").mapM (dgramOf q.id) |>.map fun as =>
                let r := dns53Loop q.id tmo as
                (r.outcome, r.time)
            | _ => none
          else none
        match outcome with
        | none => some "bad-op"
        | some (o, t) =>
          let rep := if proto = "udp" then udpReply q o else tcpReply q o
          let lat := if t ≤ tmo then "ok" else "slow"
          some s!"{toHexOrDash rep} lat={lat}"
  | _ => none

end NV
