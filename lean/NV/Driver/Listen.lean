/-
  NV.Driver.Listen — `listen <n> <udpFailMask> <tcpFailMask> <stopDelayMs|-1> <rep>`:
  runs the ListenAndServe protocol model (NV.Model.Listen) with 2n listener threads under a
  canonical fair schedule in which exactly the masked listeners fail to bind, and prints what
  NV.C16 proves to be schedule-independent: main returns, the error class (a bind error when
  nobody stopped the service), and that no socket stays bound.
-/
import NV.Model.Listen
namespace NV
open NV.Listen

/-- the first enabled action in a fixed priority order; listener `i` fails to bind iff `fails[i]` -/
def listenNext (s : S) (fails : List Bool) : Option (Act × S) :=
  let n := s.ls.length
  let cands : List Act :=
    (List.range n).flatMap (fun i =>
      [(if fails.getD i false then Act.bindFail i else Act.bindOk i), .register i, .serveRet i, .send i, .cancel i])
      ++ [.wake, .sweep, .collect]
  cands.findSome? fun a => (step s a).map fun s' => (a, s')

def listenRun : Nat → S → List Bool → S
  | 0, s, _ => s
  | fuel + 1, s, fails =>
    match listenNext s fails with
    | none => s
    | some (_, s') => listenRun fuel s' fails

def maskBits (m : String) : Option (List Bool) :=
  m.toList.mapM fun c => if c = '1' ∨ c = '2' ∨ c = '4' then some true else if c = '0' ∨ c = '3' then some false else none   -- 1: port taken, 2: address not assigned to this host, 3: address given by a hosts-file name, 4: a hosts-file name one of whose addresses is not assigned to this host

def stepListen (toks : List String) : Option String :=
  match toks with
  | ["listen", ns, uf, tf, stops, _rep] =>
    match ns.toNat?, maskBits uf, maskBits tf, stops.toInt? with
    | some n, some u, some t, some stop =>
      if n = 0 ∨ n > 4 ∨ u.length ≠ n ∨ t.length ≠ n then some "bad-op"
      else
        -- listener 2k = UDP of address k, 2k+1 = TCP of address k
        let fails := (List.range n).flatMap fun k => [u.getD k false, t.getD k false]
        let s0 := init (2 * n)
        let s0 := if stop ≥ 0 then (step s0 .stop).getD s0 else s0
        let s := listenRun (rank0 n) s0 fails
        let cls := match s.mpc with
          | .returned e =>
            if stop ≥ 0 then "any" else
            (match e with | .bind => "bind" | .closed => "closed" | .canceled => "canceled")
          | _ => "-"
        let returned := match s.mpc with | .returned _ => 1 | _ => 0
        let rebind := if s.ls.all (fun l => !l.sockOpen) then "ok" else "busy"
        some s!"returned={returned} err={cls} rebind={rebind}"
    | _, _, _, _ => some "bad-op"
  | ["listenburst", ns, rs, _rep] =>
    -- every listener of `n` addresses fails to bind, `rounds` independent starts: each one returns
    -- the bind error (NV.C16.bind_error_reported holds on every schedule, so one canonical run decides)
    match ns.toNat?, rs.toNat? with
    | some n, some rounds =>
      if n = 0 ∨ n > 4 ∨ rounds = 0 then some "bad-op"
      else
        let s := listenRun (rank0 n) (init (2 * n)) (List.replicate (2 * n) true)
        let ok := s.mpc = .returned .bind ∧ s.ls.all (fun l => !l.sockOpen)
        some s!"returned={if ok then rounds else 0}/{rounds} err=bind rebind=ok"
    | _, _ => some "bad-op"
  | _ => none
where
  /-- more steps than the ranking function of NV.C16 allows (6 per listener + 4) -/
  rank0 (n : Nat) : Nat := 12 * n + 8

end NV
