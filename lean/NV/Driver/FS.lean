/-
  NV.Driver.FS — driver operation for the activation protocol model (NV.Model.FS, property C19):

    rc orig=<node|?> live=<node> bak=<node> tmp=<node> ext=<ext> op=<op> crash=<crash>

    node   A | F:<hex> | L:<hex>            absent / regular file / symlink with that target text
    ext    - | <hex>:<hex>,<hex>:<hex>…     symlink target text : content of the file it resolves to
    op     a:<dnshex> | d | e:<ext>         SetDNS(dns) / ResetDNS() / environment replaces ext
    crash  - | o<j> | u<j> | w<j> | r<j>    kill on entry of the j-th open / unlink / write / rename call
           e<j>                             (fault, not a crash) every write from the j-th on fails with ENOSPC

    rc … op=A:<dnshex>|D crash=- nm=<0|1>   the same operations on a host where NetworkManager is installed and
                                            its reload fails (nm: its nextdns.conf drop-in exists) → … st=<…|errNM> … nm=<0|1>
  answer:  st=<ok|errOpen|errScan|killed> live=<node> bak=<node> tmp=<node> ext=ok
  (`orig` is only read by the python oracle.)
-/
import NV.Model.FS
namespace NV
open NV.FS

def nodeStr : Node → String
  | .absent => "A"
  | .file b => "F:" ++ toHexOrDash b
  | .symlink t => "L:" ++ toHexOrDash t

def parseNode (s : String) : Option Node :=
  if s = "A" then some .absent
  else if s.startsWith "F:" then (ofHex (s.drop 2).toString).map .file
  else if s.startsWith "L:" then (ofHex (s.drop 2).toString).map .symlink
  else none

def parseExt (s : String) : Option (List (Bytes × Bytes)) :=
  if s = "-" then some [] else
  (s.splitOn ",").mapM fun e =>
    match e.splitOn ":" with
    | [t, c] => do
        let t ← ofHex t
        let c ← ofHex c
        pure (t, c)
    | _ => none

def parseCrash (s : String) : Option (Option Crash) :=
  if s = "-" then some none else
  match s.toList with
  | k :: rest =>
    let kind : Option Kind :=
      if k = 'o' then some .open else if k = 'u' then some .unlink
      else if k = 'w' then some .write else if k = 'r' then some .rename else none
    match kind, (String.ofList rest).toNat? with
    | some kd, some j => if j = 0 then none else some (some ⟨kd, j⟩)
    | _, _ => none
  | [] => none

def fieldVal (key : String) (tok : String) : Option String :=
  if tok.startsWith (key ++ "=") then some (tok.drop (key.length + 1)).toString else none

def statusStr : Status → String
  | .ok => "ok"
  | .errOpen => "errOpen"
  | .errScan => "errScan"

/-- host/dns_linux.go `ResetDNS` where NetworkManager's conf.d exists and `systemctl reload` fails:
resolv.conf is dealt with FIRST (a missing backup ends the function with nil), the NetworkManager
drop-in afterwards — (files afterwards, status, drop-in present afterwards) -/
def resetNM (s : FS) (nm : Bool) : FS × String × Bool :=
  let (ps, st) := reset s
  let s' := applyAll s ps
  match st, s.bak with
  | .ok, .absent => (s', "ok", nm)                          -- rename: ENOENT → return nil
  | .ok, _ => (s', if nm then "errNM" else "ok", false)     -- restored, then the drop-in is removed and the reload fails
  | st, _ => (s', statusStr st, nm)

/-- `SetDNS` on such a host: resolv.conf is activated first; then the drop-in is written and the
reload fails -/
def setupNM (s : FS) (dns : Bytes) (nm : Bool) : FS × String × Bool :=
  let (ps, st) := setup Variant.cur s dns
  let s' := applyAll s ps
  match st with
  | .ok => (s', "errNM", true)
  | st => (s', statusStr st, nm)

def fsStr (st : String) (s : FS) : String :=
  s!"st={st} live={nodeStr s.live} bak={nodeStr s.bak} tmp={nodeStr s.tmp} ext=ok"

def stepFS (toks : List String) : Option String :=
  match toks with
  | ["rc", o, l, b, t, e, op, c] =>
    some <| Id.run do
      let some _ := fieldVal "orig" o | return "bad-op"
      let some l := (fieldVal "live" l).bind parseNode | return "bad-op"
      let some b := (fieldVal "bak" b).bind parseNode | return "bad-op"
      let some t := (fieldVal "tmp" t).bind parseNode | return "bad-op"
      let some e := (fieldVal "ext" e).bind parseExt | return "bad-op"
      let some op := fieldVal "op" op | return "bad-op"
      let some cs := fieldVal "crash" c | return "bad-op"
      let s : FS := ⟨l, b, t, e⟩
      if cs.startsWith "e" then
        -- write-error fault: the calls are all issued, the failing writes append nothing
        let some j := (cs.drop 1).toString.toNat? | return "bad-op"
        if j = 0 then return "bad-op"
        if op = "d" then
          let (ps, st) := reset s
          return fsStr (statusStr st) (applyAll s (failWrites j ps))
        else if op.startsWith "a:" then
          let some dns := ofHex (op.drop 2).toString | return "bad-op"
          let (ps, st) := setup Variant.cur s dns
          return fsStr (statusStr st) (applyAll s (failWrites j ps))
        else return "bad-op"
      let some c := parseCrash cs | return "bad-op"
      if op = "d" then
        let (ps, st) := reset s
        return fsStr (if killed ps c then "killed" else statusStr st) (applyAll s (cut ps c))
      else if op.startsWith "a:" then
        let some dns := ofHex (op.drop 2).toString | return "bad-op"
        let (ps, st) := setup Variant.cur s dns
        return fsStr (if killed ps c then "killed" else statusStr st) (applyAll s (cut ps c))
      else if op.startsWith "e:" then
        let some e' := parseExt (op.drop 2).toString | return "bad-op"
        if c.isSome then return "bad-op"
        return fsStr "ok" { s with ext := e' }
      else return "bad-op"
  | ["rc", o, l, b, t, e, op, c, nm] =>
    -- a host where NetworkManager is installed (conf.d exists) and reloading it fails; nm = its
    -- drop-in /etc/NetworkManager/conf.d/nextdns.conf is present
    some <| Id.run do
      let some _ := fieldVal "orig" o | return "bad-op"
      let some l := (fieldVal "live" l).bind parseNode | return "bad-op"
      let some b := (fieldVal "bak" b).bind parseNode | return "bad-op"
      let some t := (fieldVal "tmp" t).bind parseNode | return "bad-op"
      let some e := (fieldVal "ext" e).bind parseExt | return "bad-op"
      let some op := fieldVal "op" op | return "bad-op"
      let some cs := fieldVal "crash" c | return "bad-op"
      let some nm := fieldVal "nm" nm | return "bad-op"
      if cs ≠ "-" ∨ (nm ≠ "0" ∧ nm ≠ "1") then return "bad-op"
      let s : FS := ⟨l, b, t, e⟩
      if op = "D" then
        let r := resetNM s (nm = "1")
        return fsStr r.2.1 r.1 ++ s!" nm={if r.2.2 then 1 else 0}"
      else if op.startsWith "A:" then
        let some dns := ofHex (op.drop 2).toString | return "bad-op"
        let r := setupNM s dns (nm = "1")
        return fsStr r.2.1 r.1 ++ s!" nm={if r.2.2 then 1 else 0}"
      else return "bad-op"
  | "rc" :: _ => some "bad-op"
  | _ => none

end NV
