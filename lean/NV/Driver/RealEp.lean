/-
  NV.Driver.RealEp — `realep <layout> <ops>`: the endpoint stack as configuration strings build it (area `realep`).

  What the line must give, from the models of the pieces:
    * the request of a query leaves for the ACTIVE endpoint of its resolver's manager; an endpoint with a path of its own
      overrides the request's path, an endpoint without one keeps the path chosen for the profile (`NV.Prof` /
      `transport.RoundTrip`), "/" when there is no profile — and it is sent ONCE (a failed round trip is an error of the
      exchange; nothing re-sends it);
    * the first use of a manager, and every `e`, is an election: the first endpoint in preference order whose probe —
      a QUERY for the test domain — is answered becomes active; when none is, the first endpoint (`NV.Manager.election`);
    * an exchange fails when the server fails that path or closes the connection under the request.
  The scenarios stay below the manager's error threshold and shorter than every test interval.
-/
import NV.Driver.Core
import NV.Model.RealEp
namespace NV.RealEp

structure St where
  down : List String := []
  kill : Nat := 0
  active : List (Option String) := []

/-- the server fails requests by PATH -/
def isDown (down : List String) (ep prof : String) : Bool := down.contains ((pathOf ep prof).drop 1).toString

def step (layout : List (List String)) (s : St) (op : String) : Option (St × String) :=
  match op.toList with
  | 'q' :: rest =>
    match (String.ofList rest).splitOn ":" with
    | [is, prof] => do
      let i ← is.toNat?
      let eps ← layout[i]?
      let cur ← s.active[i]?
      -- an endpoint is "down" for the election when the server fails its path; an endpoint without a path is probed on "/"
      let downEps := eps.filter fun e => isDown s.down e "-"
      let a ← (match cur with | some a => some a | none => election eps downEps)
      let s := { s with active := s.active.set i (some a) }
      let p := pathOf a prof
      if s.kill > 0 then
        some ({ s with kill := s.kill - 1 }, s!"q={p}|0|err")
      else if isDown s.down a prof then some (s, s!"q={p}|0|err")
      else some (s, s!"q={p}|0|ok")
    | _ => none
  | 'd' :: rest => some ({ s with down := String.ofList rest :: s.down }, "d")
  | 'u' :: rest => some ({ s with down := s.down.filter (· ≠ String.ofList rest) }, "u")
  | 'k' :: rest => do
    let n ← (String.ofList rest).toNat?
    if n = 0 ∨ n > 5 then none else some ({ s with kill := n }, "k")
  | 'e' :: rest => do
    let i ← (String.ofList rest).toNat?
    let eps ← layout[i]?
    let downEps := eps.filter fun e => isDown s.down e "-"
    let a ← election eps downEps
    some ({ s with active := s.active.set i (some a) }, "e=0")
  | _ => none

def stepRealEp (toks : List String) : Option String :=
  match toks with
  | ["realep", layout, ops] =>
    let lay := (layout.splitOn "/").map (·.splitOn "+")
    if lay.any (fun r => r.any (· = "")) then some "bad-op" else
    let rec go (s : St) (os : List String) (acc : List String) : Option (List String) :=
      match os with
      | [] => some acc.reverse
      | o :: rest =>
        match step lay s o with
        | none => none
        | some (s', out) => go s' rest (out :: acc)
    match go { active := lay.map fun _ => none } (ops.splitOn ",") [] with
    | none => some "bad-op"
    | some outs => some (" ".intercalate outs)
  | _ => none

end NV.RealEp
