/-
  NV.Driver.ClientInfo — line protocol for the client-metadata model (C14).

    sid <conf> <dev> <H>                         shortID with xxhash.Sum64(conf++dev) = H
    nn <names>                                   normalizeName
    stored <name>                                isValidName + absDomainName (what MDNS.read stores)
    ci <peer> <mac|none> <prof> <Hmac> <Hip> <ipstr> <addrNames> <macNames> <host> <mid> <hmodel>
                                                 the closure of setupClientReporting
    hdr off|raw <id> <ip> <model> <name> <extras>    DOH.resolve header construction + net/http verdict
    e2e on|off <the 11 `ci` tokens> <extras>         closure wired into DOH.resolve

  byte strings: lower-case hex, "-" = empty; name lists: "-" = empty list, items joined by ","
  with "." for an empty item; extras: "-" or `k=v=v;k=v` (same item encoding).
-/
import NV.Model.ClientInfo
namespace NV
open NV.CI

def ciItem (s : String) : Option Bytes := if s = "." then some [] else if s = "-" then none else ofHex s
def ciItemStr (b : Bytes) : String := if b.isEmpty then "." else toHex b

def ciList (s : String) : Option (List Bytes) :=
  if s = "-" then some [] else (s.splitOn ",").mapM ciItem

def ciExtras (s : String) : Option Headers :=
  if s = "-" then some [] else
  (s.splitOn ";").mapM fun kv =>
    match kv.splitOn "=" with
    | [] => none
    | k :: vs => do
      let k' ← ciItem k
      let vs' ← vs.mapM ciItem
      pure (k', vs')

def bytesLt : Bytes → Bytes → Bool
  | [], [] => false
  | [], _ :: _ => true
  | _ :: _, [] => false
  | a :: as, b :: bs => if a.toNat < b.toNat then true else if a.toNat > b.toNat then false else bytesLt as bs

def insertHdr (kv : Bytes × List Bytes) : Headers → Headers
  | [] => [kv]
  | x :: xs => if bytesLt kv.1 x.1 then kv :: x :: xs else x :: insertHdr kv xs

def sortHdrs (h : Headers) : Headers := h.foldr insertHdr []

def hdrsStr (h : Headers) : String :=
  let h := sortHdrs h
  if h.isEmpty then "-" else
  ";".intercalate (h.map fun kv => "=".intercalate (ciItemStr kv.1 :: kv.2.map ciItemStr))

def reqStr (h : Headers) : String := s!"sent={boolStrCI (accepted h)} hdrs={hdrsStr h}"
where boolStrCI (b : Bool) : String := if b then "1" else "0"

def parseInput (toks : List String) : Option (Input × Nat × Nat) :=
  match toks with
  | [peer, mac, prof, hmac, hip, ipstr, an, mn, host, mid, hmodel] => do
    let peer ← ofHex peer
    let mac ← if mac = "none" then some none else (ofHex mac).map some
    let prof ← ofHex prof
    let hmac ← hmac.toNat?
    let hip ← hip.toNat?
    let ipstr ← ofHex ipstr
    let an ← ciList an
    let mn ← ciList mn
    let host ← ofHex host
    let mid ← ofHex mid
    let hmodel ← ofHex hmodel
    pure ({ peer, mac, prof, ipstr, addrNames := an, macNames := mn, hostName := host, machineID := mid,
            hostModel := hmodel }, hmac, hip)
  | _ => none

/-- the hash parameter as seen by one closure call: the harness supplies the real Sum64 of
prof++mac (`hmac`) and prof++peer (`hip`) -/
def hashOf (x : Input) (hmac hip : Nat) : Bytes → Nat := fun b =>
  match x.mac with
  | some m => if b = x.prof ++ m then hmac else hip
  | none => hip

def optBytesStr : Option Bytes → String
  | none => "none"
  | some b => toHexOrDash b

def stepClientInfo (toks : List String) : Option String :=
  match toks with
  | ["sid", conf, dev, h] =>
    match ofHex conf, ofHex dev, h.toNat? with
    | some c, some d, some h => some (toHexOrDash (shortIDSum h c d))
    | _, _, _ => some "bad-op"
  | ["nn", l] =>
    match ciList l with
    | some l => some (toHexOrDash (normalizeName l))
    | none => some "bad-op"
  | ["stored", n] =>
    match ofHex n with
    | some n => some (match mdnsStored n with | none => "rejected" | some s => toHexOrDash s)
    | none => some "bad-op"
  | "ci" :: rest =>
    match parseInput rest with
    | none => some "bad-op"
    | some (x, hmac, hip) =>
      let c := clientInfo (hashOf x hmac hip) x
      let (la, lm) := match lookupArgs x with
        | none => ("none", "none")
        | some (a, m) => (toHexOrDash a, optBytesStr m)
      some s!"id={toHexOrDash c.id} ip={toHexOrDash c.ip} model={toHexOrDash c.model} name={toHexOrDash c.name} la={la} lm={lm}"
  | ["hdr", mode, id, ip, model, name, extras] =>
    match ofHex id, ofHex ip, ofHex model, ofHex name, ciExtras extras with
    | some id, some ip, some model, some name, some ex =>
      if mode = "off" then some (reqStr (buildHeaders none ex))
      else if mode = "raw" then some (reqStr (buildHeaders (some { id, ip, model, name }) ex))
      else some "bad-op"
    | _, _, _, _, _ => some "bad-op"
  | "e2e" :: mode :: rest =>
    if rest.length ≠ 12 then some "bad-op" else
    match parseInput (rest.take 11), ciExtras (rest.getD 11 "") with
    | some (x, hmac, hip), some ex =>
      if mode = "on" then some (reqStr (requestHeaders (hashOf x hmac hip) true x ex))
      else if mode = "off" then some (reqStr (requestHeaders (hashOf x hmac hip) false x ex))
      else some "bad-op"
    | _, _ => some "bad-op"
  | _ => none

end NV
