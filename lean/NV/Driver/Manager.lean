/-
  NV.Driver.Manager — `mgr T<thr> M<minTest> I<ep|-> G<k:iv,…|-> N<providers> <op>…`

  One line = one script on a fresh Manager; ops (one token each):
    P<i>=<k.t,…|-|E|U>   provider i now returns that list / an error / a network-unreachable error
    H<k>=<O|E|U>          the tester of endpoints with key k now passes / fails / reports unreachable
    A<d>                  the clock advances d seconds
    S                     a Do starts and runs up to its action
    F<j><o|e>             the action of the (j mod n)-th in-flight Do returns nil / an error
    R                     the oldest started background election (goroutine of `test()`) acquires m.mu and runs
    X                     Manager.Test is called directly
  Output: one token per executed step `<op>[events]@<active object>` (+ `~<object>` for F), then
  `end:<free|held>` (state of m.mu after all started elections have run).
-/
import NV.Model.Manager
namespace NV
open NV.Mgr

namespace MgrDrv

def splitChars (sep : Char) : List Char → List (List Char)
  | [] => [[]]
  | c :: cs =>
    match splitChars sep cs with
    | [] => [[]]
    | h :: t => if c = sep then [] :: h :: t else (c :: h) :: t

def nat? (cs : List Char) : Option Nat :=
  if cs.isEmpty || !cs.all Char.isDigit then none else (String.ofList cs).toNat?

def ep? (cs : List Char) : Option Ep :=
  match splitChars '.' cs with
  | [a, b] => do pure ⟨← nat? a, ← nat? b⟩
  | _ => none

def res? : List Char → Option Res
  | ['O'] => some .ok
  | ['E'] => some .err
  | ['U'] => some .unreach
  | _ => none

def epStr (e : Ep) : String := s!"{e.key}.{e.tag}"
def oepStr : Option Ep → String
  | some e => epStr e
  | none => "nil"
def resStr : Res → String
  | .ok => "O" | .err => "E" | .unreach => "U"

def evStr : Ev → String
  | .getEps i => s!"g{i}"
  | .provErr i => s!"pe{i}"
  | .probe e r => s!"p{epStr e}={resStr r}"
  | .onError e => s!"oe{epStr e}"
  | .onChange e => s!"oc{oepStr e}"
  | .action e => s!"a{oepStr e}"
  | .ret ok => if ok then "r1" else "r0"

def objStr (st : St) (a : Nat) : String :=
  let o := st.heap a
  s!"#{a}:{oepStr o.ep}:{o.lastTest}:{o.interval}:{if o.testing then 1 else 0}:{o.errs}"

def activeStr (st : St) : String :=
  match st.active with
  | some a => objStr st a
  | none => "#-"

def tok (op : String) (evs : List Ev) (st : St) : String :=
  s!"{op}[{",".intercalate (evs.map evStr)}]@{activeStr st}"

structure DS where
  cfg : Cfg
  st : St
  provs : List ProvRes
  health : List (Nat × Res)
  out : List String      -- reversed
  dead : Bool            -- an operation blocked: nothing after it is executed

def DS.env (d : DS) : Env := ⟨d.provs, fun k => (d.health.lookup k).getD .ok⟩

def DS.emit (d : DS) (s : String) : DS := { d with out := s :: d.out }

/-- run the oldest started election -/
def runOne (d : DS) : DS :=
  if d.dead then d else
  match electionRun repaired d.cfg d.st d.env with
  | none => { d.emit "BLOCKED" with dead := true }
  | some (st, evs) =>
    -- the return value of the goroutine's Manager.Test is not observable from outside
    { d with st := st }.emit (tok "R" (evs.filter fun e => match e with | .ret _ => false | _ => true) st)

def runAll : Nat → DS → DS
  | 0, d => d
  | n + 1, d => if d.dead || d.st.pending.isEmpty then d else runAll n (runOne d)

def drain (d : DS) : DS := runAll (d.st.pending.length + 1) d

def provSpec? (cs : List Char) : Option ProvRes :=
  match cs with
  | ['E'] => some .err
  | ['U'] => some .unreach
  | ['-'] => some (.ok [])
  | _ => ((splitChars ',' cs).mapM ep?).map .ok

def opStep (d : DS) (t : String) : Option DS :=
  if d.dead then some d else
  match t.toList with
  | ['S'] =>
    match doStart repaired d.cfg d.st d.env with
    | none => some { d.emit "BLOCKED" with dead := true }
    | some (st, evs) => some ({ d with st := st }.emit (tok "S" evs st))
  | ['X'] =>
    match forceTest repaired d.cfg d.st d.env with
    | none => some { d.emit "BLOCKED" with dead := true }
    | some (st, evs) => some ({ d with st := st }.emit (tok "X" evs st))
  | ['R'] =>
    if d.st.pending.isEmpty then some (d.emit "R[none]") else some (runOne d)
  | 'A' :: cs => do
    let n ← nat? cs
    pure { d with st := { d.st with clock := d.st.clock + n } }
  | 'F' :: cs =>
    match cs.reverse with
    | r :: js =>
      if r ≠ 'o' ∧ r ≠ 'e' then none else do
      let j ← nat? js.reverse
      if d.st.inflight.isEmpty then pure (d.emit "F[skip]") else
      let j := j % d.st.inflight.length
      let a := d.st.inflight.getD j 0
      let st := doFinish d.cfg d.st j (r = 'o')
      pure ({ d with st := st }.emit (tok "F" [] st ++ "~" ++ objStr st a))
    | [] => none
  | 'P' :: cs =>
    match splitChars '=' cs with
    | [i, spec] => do
      let i ← nat? i
      let p ← provSpec? spec
      if i < d.provs.length then pure { d with provs := d.provs.set i p } else none
    | _ => none
  | 'H' :: cs =>
    match splitChars '=' cs with
    | [k, r] => do
      let k ← nat? k
      let r ← res? r
      pure { d with health := (k, r) :: d.health }
    | _ => none
  | _ => none

def getMin? (cs : List Char) : Option (List (Nat × Nat)) :=
  if cs = ['-'] then some [] else
  (splitChars ',' cs).mapM fun kv =>
    match splitChars ':' kv with
    | [k, v] => do pure (← nat? k, ← nat? v)
    | _ => none

def runScript (toks : List String) : Option String :=
  match toks with
  | t :: m :: i :: g :: n :: ops =>
    match t.toList, m.toList, i.toList, g.toList, n.toList with
    | 'T' :: t, 'M' :: m, 'I' :: i, 'G' :: g, 'N' :: n => do
      let t ← nat? t
      let m ← nat? m
      let init ← if i = ['-'] then some none else (ep? i).map some
      let g ← getMin? g
      let n ← nat? n
      if n = 0 ∨ n > 8 then none else
      let cfg : Cfg := ⟨t, m, fun k => (g.lookup k).getD 0, init⟩
      let d0 : DS := ⟨cfg, St.init, List.replicate n (.ok []), [], [], false⟩
      let d ← ops.foldlM opStep d0
      let d := drain d
      let d := if d.dead then d else d.emit (if d.st.muHeld then "end:held" else "end:free")
      pure (" ".intercalate d.out.reverse)
    | _, _, _, _, _ => none
  | _ => none

end MgrDrv

def stepManager (toks : List String) : Option String :=
  match toks with
  | "mgr" :: rest => some ((MgrDrv.runScript rest).getD "bad-op")
  | "mgrc" :: _ =>
    -- concurrent soak (schedule sampled on the real code only): what NV.C08/NV.C09 prove for every
    -- interleaving of the model's atomic steps
    some "returned=all once=1 offered=1 overlap=0 quiesce=1 lock=free"
  | _ => none

end NV
