/-
  NV.Driver.Cache — line protocol of the `cache` area (C06, history half of C07).

  One case line is one whole history:
    cache <cacheOn 0|1|2> <bufLen> <maxAge> <maxTTL> <op> <op> …
  op tokens (fields separated by ','; byte strings lowercase hex, empty = "-"):
    D,u,<urlhex>,<payload>,<lat>,<out…>      DoH query, `DOH.URL = url`, no GetProfileURL
    D,p,<profilehex>,<payload>,<lat>,<out…>  DoH query, GetProfileURL as in run.go (prefix + profile)
        out:  E                      RoundTrip error
              S                      non-200 status
              B,<body>,<rerr 0|1>,<lm>,<proto>   200; lm: "-" absent | "x" unparsable | s<secs>
    N,<payload>,X                            DNS53 query, dial error
    N,<payload>,L,<dgram>…                   DNS53 query whose datagrams are sent only after it has ended (strays)
    N,<payload>,G[,<datagram>…]              DNS53 query, these datagrams arrive, then silence
    C,<n>,<profilehex>,<payload>,<out…>      n identical DoH queries of one profile in flight together
                                             → c<n>,<the token each of them must produce>
    CC,<profA>,<profB>,<payload>,<bodyA>,<bodyB>   the same question asked together by a client of profile A and
                                             one of profile B (IDs differ in their low bits) → cc,<tokenA>+<tokenB>
    A,<secs>                                 advance the clock
    X,<i>                                    the cache drops the key stored by operation number i
    XA                                       the cache drops everything
  Output: one token per operation, joined by single spaces:
    query ops   fc=<0|1>,err=<0|1>,tr=<transport|->,n=<reply hex>,up=<->|D:<url>:<payload>|N:<payload>|N:dial,al=<-|0|dot|x>
                al (served replies only): provenance of the entry that was read, as tracked beside the cache
                (not by its key): 0 = stored for the same question section; dot = for another wire name
                with the same text form (a label containing '.'); x = anything else
    A → "a";  X → "x1" (an entry was dropped) | "x0";  XA → "xa"
  The virtual clock starts at 1000000.
-/
import NV.Model.CacheTTL
import NV.Driver.Core
namespace NV
open NV.Cache

def cacheT0 : Nat := 1000000

def parseLm (s : String) : Option LmHdr :=
  if s = "-" then some .absent
  else if s = "x" then some .invalid
  else if s.startsWith "s" then (s.drop 1).toNat?.map .secs
  else none

def parseBool (s : String) : Option Bool :=
  if s = "0" then some false else if s = "1" ∨ s = "2" then some true else none

def parseDohOut : List String → Option DohOut
  | ["E"] => some .transportErr
  | ["S"] => some .status
  | ["B", b, re, lm, proto] => do
      let b ← ofHex b
      let re ← parseBool re
      let lm ← parseLm lm
      pure (.body b re lm proto)
  | _ => none

def parseDatagrams : List String → Option (List Bytes)
  | [] => some []
  | d :: ds => do
      let d ← ofHex d
      let r ← parseDatagrams ds
      pure (d :: r)

/-- a query payload must pass `query.New` (stage ok) -/
def parseQ (h : String) : Option Query := do
  let p ← ofHex h
  match parse p with
  | .done .ok q => some q
  | _ => none

/-- parsed operation; eviction is by operation index and resolved while running -/
inductive DOp where
  | op (o : Op)
  | evictIdx (i : Nat)
  | burst (n : Nat) (o : Op)
  | pair (a b : Op)

def parseOp (tok : String) : Option DOp :=
  match tok.splitOn "," with
  | "D" :: mode :: id :: pay :: lat :: out => do
      let idb ← ofHex id
      let url ← if mode = "u" then some idb else if mode = "p" then some (profileUrl idb) else none
      let q ← parseQ pay
      let lat ← lat.toNat?
      let o ← parseDohOut out
      pure (.op (.doh url q o lat))
  | ["CC", pa, pb, pay, ba, bb] => do
      let pa ← ofHex pa
      let pb ← ofHex pb
      let p ← ofHex pay
      if p.length < 12 then none else
      let p' := (p.set 0 (UInt8.ofNat ((byteAt p 0) ^^^ 1))).set 1 (UInt8.ofNat ((byteAt p 1) ^^^ 1))
      let qa ← (match parse p with | .done .ok q => some q | _ => none)
      let qb ← (match parse p' with | .done .ok q => some q | _ => none)
      let ba ← ofHex ba
      let bb ← ofHex bb
      pure (.pair (.doh (profileUrl pa) qa (.body ba false .absent "HTTP/2.0") 0)
                  (.doh (profileUrl pb) qb (.body bb false .absent "HTTP/2.0") 0))
  | "C" :: n :: id :: pay :: out => do
      let n ← n.toNat?
      let idb ← ofHex id
      let q ← parseQ pay
      let o ← parseDohOut out
      if n < 2 ∨ n > 8 then none else
      pure (.burst n (.doh (profileUrl idb) q o 0))
  | ["N", pay, "X"] => do
      let q ← parseQ pay
      pure (.op (.dns53 q .dialErr))
  | "N" :: pay :: "L" :: ds => do
      -- the datagrams are sent only after the exchange has ended (its deadline passed): none arrives in time, and an
      -- exchange owns its socket, so none is there for a later one either
      let q ← parseQ pay
      let _ ← parseDatagrams ds
      pure (.op (.dns53 q (.datagrams [])))
  | "N" :: pay :: "G" :: ds => do
      let q ← parseQ pay
      let ds ← parseDatagrams ds
      pure (.op (.dns53 q (.datagrams ds)))
  | ["A", d] => d.toNat?.map fun d => .op (.advance d)
  | ["X", i] => i.toNat?.map .evictIdx
  | ["XA"] => some (.op .evictAll)
  | _ => none

def parseOps : List String → Option (List DOp)
  | [] => some []
  | t :: ts => do
      let o ← parseOp t
      let r ← parseOps ts
      pure (o :: r)

def upStr : Option Call → String
  | none => "-"
  | some c =>
    match c.tr with
    | .doh => s!"D:{toHexOrDash c.url}:{toHexOrDash c.q.payload}"
    | .dns53 =>
      -- a dial error never reaches the wire: the harness has nothing to log
      "N:" ++ toHexOrDash c.q.payload

/-- end offset of the (uncompressed) question name that starts at 12 -/
def qNameEnd (p : Bytes) : Nat → Nat → Nat
  | 0, off => off
  | f + 1, off =>
    if off ≥ p.length then off
    else
      let c := byteAt p off
      if c = 0 then off + 1
      else if c / 64 ≠ 0 then off + 2
      else qNameEnd p f (off + 1 + c)

/-- question section (wire name, type, class) of a payload -/
def qSection (p : Bytes) : Bytes :=
  let e := min (qNameEnd p p.length 12 + 4) p.length
  (p.drop 12).take (e - 12)

def last4 (b : Bytes) : Bytes := b.drop (b.length - 4)

/-- provenance side table: key ↦ (question section, Query.Name) of the query that stored it -/
abbrev Orig := List (Key × (Bytes × Bytes))

def origGet : Orig → Key → Option (Bytes × Bytes)
  | [], _ => none
  | (k', v) :: r, k => if k' = k then some v else origGet r k

def alStr (orig : Orig) (k : Key) (q : Query) (r : Res) : String :=
  if r.up.isSome ∨ r.err then "-"
  else
    match origGet orig k with
    | none => "none"
    | some (qs, nm) =>
      let cur := qSection q.payload
      if qs = cur then "0"
      else if nm = q.name ∧ last4 qs = last4 cur then "dot"
      else "x"

def resStr (r : Res) (dial : Bool) (al : String) : String :=
  let tr := if r.trans.isEmpty then "-" else r.trans
  let up := if dial ∧ r.up.isSome then "N:dial" else upStr r.up
  s!"fc={boolStr r.fromCache},err={boolStr r.err},tr={tr},n={toHexOrDash r.reply},up={up},al={al}"

/-- runs the history with `NV.Cache.step`; `keys` = key stored by each operation so far -/
def runHistory (T : TTLFn) (cfg : Cfg) : State → List (Option Key) → Orig → List DOp → List String
  | _, _, _, [] => []
  | s, keys, orig, .evictIdx i :: rest =>
    match (keys.getD i none) with
    | none => "x0" :: runHistory T cfg s (keys ++ [none]) orig rest
    | some k =>
      let had := (get s.store k).isSome
      let s' := (step T cfg s (.evict k)).1
      (if had then "x1" else "x0") :: runHistory T cfg s' (keys ++ [none]) orig rest
  | s, keys, orig, .pair a b :: rest =>
    -- two clients of two profiles ask the same question together: different URLs, hence different
    -- cache keys and different upstream requests — neither can be served what the other fetches
    let ra := step T cfg s a
    let rb := step T cfg ra.1 b
    let tok (o : Op) (res : Option Res) : String :=
      match o, res with
      | .doh url q _ _, some r => resStr r false (alStr orig (dohKey url q) q r)
      | _, _ => "x"
    let orig' :=
      (match a, ra.2 with
        | .doh _ q _ _, some r => (match r.stored with | some ks => [(ks, (qSection q.payload, q.name))] | none => [])
        | _, _ => []) ++
      (match b, rb.2 with
        | .doh _ q _ _, some r => (match r.stored with | some ks => [(ks, (qSection q.payload, q.name))] | none => [])
        | _, _ => []) ++ orig
    s!"cc,{tok a ra.2}+{tok b rb.2}" ::
      runHistory T cfg rb.1 (keys ++ [(rb.2.bind (·.stored))]) orig' rest
  | s, keys, orig, .burst n o :: rest =>
    -- n identical queries in flight together: each looks the cache up in the state BEFORE the
    -- burst (none can be served what another of the same burst stores: the upstream answers only
    -- when all have asked) and they all store the same entry, so the state afterwards is that of one
    let r := step T cfg s o
    match r.2 with
    | none => "x" :: runHistory T cfg r.1 (keys ++ [none]) orig rest
    | some res =>
      let (k, q) : Key × Query := match o with
        | .doh url q _ _ => (dohKey url q, q)
        | _ => (default, default)
      let orig' := match res.stored with
        | some ks => (ks, (qSection q.payload, q.name)) :: orig
        | none => orig
      s!"c{n},{resStr res false (alStr orig k q res)}" :: runHistory T cfg r.1 (keys ++ [res.stored]) orig' rest
  | s, keys, orig, .op o :: rest =>
    let r := step T cfg s o
    match r.2 with
    | none =>
      (match o with | .advance _ => "a" | .evictAll => "xa" | _ => "x") ::
        runHistory T cfg r.1 (keys ++ [none]) orig rest
    | some res =>
      let dial := match o with | .dns53 _ .dialErr => true | _ => false
      let (k, q) : Key × Query := match o with
        | .doh url q _ _ => (dohKey url q, q)
        | .dns53 q _ => (dns53Key q, q)
        | _ => (default, default)
      let orig' := match res.stored with
        | some ks => (ks, (qSection q.payload, q.name)) :: orig
        | none => orig
      resStr res dial (alStr orig k q res) :: runHistory T cfg r.1 (keys ++ [res.stored]) orig' rest

def stepCache (toks : List String) : Option String :=
  match toks with
  | "cache" :: on :: bl :: ma :: mt :: ops =>
    match parseBool on, bl.toNat?, ma.toNat?, mt.toNat? with
    | some on, some bl, some ma, some mt =>
      if bl < 3 then some "bad-op" else
      match parseOps ops with
      | none => some "bad-op"
      | some dops =>
        let out := runHistory (CacheTTL.stdTTL ma mt) { cacheOn := on, bufLen := bl } { now := cacheT0 } [] [] dops
        some (if out.isEmpty then "-" else " ".intercalate out)
    | _, _, _, _ => some "bad-op"
  | _ => none

end NV
