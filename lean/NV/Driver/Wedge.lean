/-
  NV.Driver.Wedge — `wedge <K> udp|tcp <hex,hex,…>`: what the handler model predicts for a burst
  of arbitrary byte strings against a proxy of capacity K: every message longer than 14 bytes is
  answered (NV.C02.handler_replies: the handler emits a non-empty reply for EVERY payload and
  outcome; NV.C04: the capacity unit comes back on every path), shorter ones are dropped, and the
  proxy answers well-formed queries afterwards.
-/
import NV.Model.Wire
namespace NV

def stepWedge (toks : List String) : Option String :=
  match toks with
  | ["wedge", ks, proto, hs] =>
    match ks.toNat? with
    | none => some "bad-op"
    | some k =>
      if k = 0 ∨ (proto ≠ "udp" ∧ proto ≠ "tcp") then some "bad-op" else
      let ps := hs.splitOn ","
      if ps.any (fun h => h.length % 2 ≠ 0 ∨ h.isEmpty) then some "bad-op" else
      let n := (ps.filter fun h => h.length / 2 > 14).length
      some s!"answered={n}/{n} after=ok"
  | _ => none

end NV
