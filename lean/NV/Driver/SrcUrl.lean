/-
  NV.Driver.SrcUrl — `srcurl <doc>|<doc>|…`: successive calls of (*SourceURLProvider).GetEndpoints on one provider.
  doc = `E` (the body cannot be decoded / the fetch fails) or endpoints joined by ',', endpoint = host/path/ip+ip ('-' = empty).
  Output per call: `err` or the objects returned as `<object number>` joined by ',' (`-` = empty list); calls joined by ' '.
-/
import NV.Model.SrcUrl
namespace NV.SrcUrlDrv
open NV.SrcUrl

def parseEp (s : String) : Option Ep :=
  match s.splitOn "/" with
  | [h, p, ips] =>
    if h = "" then none else
    some { host := h, path := if p = "-" then "" else "/" ++ p, ips := if ips = "-" then [] else ips.splitOn "+" }
  | _ => none

def parseDoc (s : String) : Option (Option (List Ep)) :=
  if s = "E" then some none
  else if s = "-" then some (some [])
  else ((s.splitOn ",").mapM parseEp).map some

def stepSrcUrl (toks : List String) : Option String :=
  match toks with
  | ["srcurl", docs] =>
    match (docs.splitOn "|").mapM parseDoc with
    | none => some "bad-op"
    | some ds =>
      let rec go (s : St) (ds : List (Option (List Ep))) (acc : List String) : List String :=
        match ds with
        | [] => acc.reverse
        | d :: rest =>
          let (s', out) := step s d
          let tok := match out with
            | none => "err"
            | some objs => if objs.isEmpty then "-" else ",".intercalate (objs.map fun o => toString o.1)
          go s' rest (tok :: acc)
      some (" ".intercalate (go {} ds []))
  | _ => none
end NV.SrcUrlDrv
