/-
  NV.Driver.Local — driver operations for C12:
    ptrip <namehex>     ptrIP / isPrivateReverse / IP.String on a query name
    hoststab L=<tab>    the lookup tables `discovery.Hosts` builds from the accepted lines
    resolve b=<0|1> L=<tab> DN=<names> DA=<addrs> U=<e>:<H hex|N n> <payloadhex>
                        `Proxy.Resolve` on the query parsed from the payload
    resolveseq … <payloadhex>,<payloadhex>…   the queries in order on ONE Proxy / hosts table; results joined by '|'
  Tables: `nil` (no resolver), `-` (empty) or entries joined by ';'.
    L  entry: <addr>@<namehex>,<namehex>…          (one accepted hosts line)
    DN entry: <keyhex>@<addr>,<addr>…              (discovery LookupHost table)
    DA entry: <keyhex>@<namehex>,<namehex>…        (discovery LookupAddr table)
    <addr> = i<hex of 4 or 16 bytes> | j<hex of a string net.ParseIP rejects>
-/
import NV.Driver.Core
import NV.Model.Local
namespace NV.LocalDrv
open NV

def parseAddr (s : String) : Option Addr :=
  match s.toList with
  | 'i' :: rest => (ofHex (String.ofList rest)).bind fun b => if b.length = 4 ∨ b.length = 16 then some (.ip b) else none
  | 'j' :: rest => (ofHex (String.ofList rest)).map .junk
  | _ => none

def parseHexListL (s : String) : Option (List Bytes) :=
  (s.splitOn ",").mapM fun x => if x = "" then none else ofHex x

def parseEntries {α β : Type} (s : String) (fk : String → Option α) (fv : String → Option β) : Option (List (α × β)) :=
  if s = "-" then some [] else
  (s.splitOn ";").mapM fun e =>
    match e.splitOn "@" with
    | [k, v] => do pure (← fk k, ← fv v)
    | _ => none

def parseLocal (s : String) : Option (Option (List HostLine)) :=
  if s = "nil" then some none
  else (parseEntries s parseAddr parseHexListL).map some

def parseDisc (sn sa : String) : Option (Option HostTab) :=
  if sn = "nil" ∧ sa = "nil" then some none
  else do
    let ns ← parseEntries sn ofHex (fun v => (v.splitOn ",").mapM parseAddr)
    let as ← parseEntries sa ofHex parseHexListL
    pure (some { names := ns, addrs := as, absKeys := false })

def parseUp (s : String) : Option UpRes :=
  match s.splitOn ":" with
  | [e, v] =>
    if e ≠ "0" ∧ e ≠ "1" then none else
    match v.toList with
    | 'H' :: rest => (ofHex (String.ofList rest)).map fun b => ⟨b, b.length, e = "1"⟩
    | 'N' :: rest => (String.ofList rest).toInt?.bind fun n => if n ≤ 0 then some ⟨[], n, e = "1"⟩ else none
    | _ => none
  | _ => none

def insertSorted (x : String) : List String → List String
  | [] => [x]
  | y :: ys => if x ≤ y then x :: y :: ys else y :: insertSorted x ys

def sortStrs (xs : List String) : List String := xs.foldr insertSorted []

def dumpTab (t : HostTab) : String :=
  let ns := sortStrs (t.names.map fun (k, vs) => toHexOrDash k ++ "=" ++ ",".intercalate (vs.map fun a => toHexOrDash a.str))
  let as := sortStrs (t.addrs.map fun (k, vs) => toHexOrDash k ++ "=" ++ ",".intercalate (vs.map toHexOrDash))
  "names " ++ ";".intercalate ns ++ " addrs " ++ ";".intercalate as

def stripPrefix? (s pre : String) : Option String :=
  if s.startsWith pre then some (s.drop pre.length).toString else none

def stepLocal (toks : List String) : Option String :=
  match toks with
  | ["ptrip", h] =>
    some <| match ofHex h with
    | none => "bad-op"
    | some name =>
      let ip := ptrIP name
      s!"ip={optHex ip} priv={boolStr (isPrivateReverse name)} str={toHex (ipString ip)}"
  | ["hoststab", l] =>
    some <| match (stripPrefix? l "L=").bind parseLocal with
    | some (some ls) => dumpTab (buildHosts ls)
    | _ => "bad-op"
  | ["resolve", b, l, dn, da, u, h] =>
    some <| (do
      let bogus ← if b = "b=1" then some true else if b = "b=0" then some false else none
      let loc ← (stripPrefix? l "L=").bind parseLocal
      let disc ← do parseDisc (← stripPrefix? dn "DN=") (← stripPrefix? da "DA=")
      let up ← (stripPrefix? u "U=").bind parseUp
      let payload ← ofHex h
      match parse payload with
      | .outOfFuel => pure "out-of-fuel"
      | .done _ q =>
        let r := resolve { loc := loc.map buildHosts, disc := disc, bogus := bogus } q up
        pure s!"n={r.n} err={boolStr r.err} up={r.calls} buf={if r.n > 0 then toHexOrDash r.buf else "-"}"
      ).getD "bad-op"
  | ["resolveseq", b, l, dn, da, u, hs] =>
    -- the queries in order on one Proxy: the model is a function of (tables, query), so each is
    -- answered as if it were the only one
    some <| (do
      let bogus ← if b = "b=1" then some true else if b = "b=0" then some false else none
      let loc ← (stripPrefix? l "L=").bind parseLocal
      let disc ← do parseDisc (← stripPrefix? dn "DN=") (← stripPrefix? da "DA=")
      let up ← (stripPrefix? u "U=").bind parseUp
      let payloads ← (hs.splitOn ",").mapM ofHex
      let outs := payloads.map fun payload =>
        match parse payload with
        | .outOfFuel => "out-of-fuel"
        | .done _ q =>
          let r := resolve { loc := loc.map buildHosts, disc := disc, bogus := bogus } q up
          s!"n={r.n} err={boolStr r.err} up={r.calls} buf={if r.n > 0 then toHexOrDash r.buf else "-"}"
      pure ("|".intercalate outs)
      ).getD "bad-op"
  | _ => none

end NV.LocalDrv
