/-
  NV.Driver.Activate — `actv <listen> <router 0|1> <hosts file>` (hex fields, `-` = empty): what activate.go's
  `listenIP` answers for the listen value (or for "127.0.0.1:53" when the router integration is on), with the hosts
  file the name lookup reads.   → addr=<hex> | err=port | err=noaddr
-/
import NV.Model.Activate
import NV.Model.Discovery
import NV.Driver.Core
namespace NV
open NV.Activate

def strToS (b : Bytes) : Activate.S := b.map fun x => Char.ofNat x.toNat
def sToStr (s : Activate.S) : Bytes := s.map fun c => c.toNat.toUInt8

def stepActivate (toks : List String) : Option String :=
  match toks with
  | ["actv", listen, router, content] =>
    let dec (h : String) : Option Bytes := if h = "-" then some [] else ofHex h
    match dec listen, dec content with
    | some l, some c =>
      if router ≠ "0" ∧ router ≠ "1" then some "bad-op" else
      -- the generated hosts files write addresses in canonical text: net.ParseIP(·).String() is the identity on them
      let tbl := Disc.readHostsFile (fun s => if parseIP (strToS s) then some s else none) c
      let lookup (h : Activate.S) : List Activate.S := (Disc.lookupHost tbl.names (sToStr h)).map strToS
      match activate lookup [strToS l] (router = "1") with
      | .addr a => some s!"addr={toHexOrDash (sToStr a)}"
      | .errPort => some "err=port"
      | .errNoAddr => some "err=noaddr"
      | .errNoListen => some "err=nolisten"
    | _, _ => some "bad-op"
  | _ => none

end NV
