/-
  NV.Driver.Prof — driver operations for the profile model (C11):
    prof <src> <dst> <mac> <entry>*
        src, dst : nil | <hex> | -  (nil slice / bytes / empty non-nil slice);  mac : <hex> | -
        entry    : <raw>;<id>;<prefix>;<mac>;<dests>;<final>   raw = the text given to Profiles.Set (ignored
                   here: parsing is the real code's), prefix = nil | <ip>/<mask>, dests = - | <ip>+<ip>…
                   = DestIPs as parsed (used by Set's replacement test), final = DestIPs the harness
                   leaves in the stored entry (= dests unless overwritten)
        entries run through Profiles.Set in order, then Get(src, dst, mac) and Get(nil, nil, nil)
        → list=<id;prefix;mac;dests of each final entry, comma separated | -> get=<hex> nilget=<hex>
    pseq <src/dst/mac[/e]>,… <entry>*   (/e: the tuple reaches the resolver through query.New on a wire query
        carrying the address as ECS and the MAC as dnsmasq's MAC option; the model's client tuple is the same)
    pseq … continued:   one resolver wired as in run.go answers the queries of these
        clients in order → seq=<ctx:path:profile>,…  (every query is resolved under the profile of
        ITS tuple, whatever was asked before)
    pwire <src/dst/mac>,… <entry>*   the tuples on real sockets through the real UDP listener, all in flight together
        → seq=<profile>,…
    purl <id>        the DoH side for profile <id>: cache context, request path, ResolveInfo.Profile
        → ctx=<hex> path=<hex> profile=<hex>     (ids of URL-unreserved characters only; else "unsupported")
-/
import NV.Model.Profile
import NV.Driver.Core
import NV.Driver.Fwd
namespace NV
open NV.Prof

def parseOptIP (s : String) : Option (Option Bytes) :=
  if s = "nil" then some none else (ofHex s).map some

def parsePrefix (s : String) : Option (Option IPNet) :=
  if s = "nil" then some none else
  match s.splitOn "/" with
  | [a, b] => do
    let ip ← ofHex a
    let m ← ofHex b
    pure (some ⟨ip, m⟩)
  | _ => none

def parseDests (s : String) : Option (List Bytes) :=
  if s = "-" then some [] else parseHexList (s.splitOn "+")

def parseEntry (s : String) : Option (Profile × Profile) :=
  match s.splitOn ";" with
  | [_raw, id, pfx, mac, dests, final] => do
    let id ← ofHex id
    let pfx ← parsePrefix pfx
    let mac ← ofHex mac
    let dests ← parseDests dests
    let final ← parseDests final
    let p : Profile := { id := id, pfx := pfx, mac := mac, dest := dests }
    pure (p, { p with dest := final })
  | _ => none

def parseEntries : List String → Option (List (Profile × Profile))
  | [] => some []
  | t :: ts => do
    let p ← parseEntry t
    let r ← parseEntries ts
    pure (p :: r)

def prefixStr : Option IPNet → String
  | none => "nil"
  | some n => toHexOrDash n.ip ++ "/" ++ toHexOrDash n.mask

def entryStr (p : Profile) : String :=
  let d := if p.dest.isEmpty then "-" else "+".intercalate (p.dest.map toHexOrDash)
  s!"{toHexOrDash p.id};{prefixStr p.pfx};{toHexOrDash p.mac};{d}"

def stepProf (toks : List String) : Option String :=
  match toks with
  | ["purl", id] =>
    match ofHex id with
    | none => some "bad-op"
    | some id =>
      if !id.all unreserved then some "unsupported" else
      let (url, profile) := getProfileURL [{ id := id }] {}
      let (ctx, path) := dohCtxAndPath url
      some s!"ctx={toHexOrDash ctx} path={toHexOrDash path} profile={toHexOrDash profile}"
  | "pseq" :: tuples :: entries =>
    let parseT (t : String) : Option Client :=
      match (match t.splitOn "/" with | [a, b, m, "e"] => [a, b, m] | x => x) with
      | [a, b, m] => do
        let src ← parseOptIP a
        let dst ← parseOptIP b
        let mac ← ofHex m
        pure { src := src, dst := dst, mac := mac }
      | _ => none
    match (tuples.splitOn ",").mapM parseT, parseEntries entries with
    | some cs, some es =>
      let ps := es.foldl (fun acc e => setStore acc e.1 e.2) []
      if !(ps.all fun p => p.id.all unreserved) then some "unsupported" else
      let outs := cs.map fun c =>
        let (url, profile) := getProfileURL ps c
        let (ctx, path) := dohCtxAndPath url
        s!"{toHexOrDash ctx}:{toHexOrDash path}:{toHexOrDash profile}"
      some s!"seq={joinOrDash outs}"
    | _, _ => some "bad-op"
  | "pwire" :: tuples :: entries =>
    -- the same clients on real sockets (see harness runPwire): only the profile is observed
    let parseT (t : String) : Option Client :=
      match (match t.splitOn "/" with | [a, b, m, "t"] => [a, b, m] | x => x) with
      | [a, b, m] => do
        let src ← parseOptIP a
        let dst ← parseOptIP b
        let mac ← ofHex m
        pure { src := src, dst := dst, mac := mac }
      | _ => none
    match (tuples.splitOn ",").mapM parseT, parseEntries entries with
    | some cs, some es =>
      let ps := es.foldl (fun acc e => setStore acc e.1 e.2) []
      let outs := cs.map fun c => toHexOrDash (getProfileURL ps c).2
      some s!"seq={joinOrDash outs}"
    | _, _ => some "bad-op"
  | "prof" :: src :: dst :: mac :: entries =>
    match parseOptIP src, parseOptIP dst, ofHex mac, parseEntries entries with
    | some src, some dst, some mac, some es =>
      let ps := es.foldl (fun acc e => setStore acc e.1 e.2) []
      let c : Client := { src := src, dst := dst, mac := mac }
      some s!"list={joinOrDash (ps.map entryStr)} get={toHexOrDash (getP ps c)} nilget={toHexOrDash (getP ps nilClient)}"
    | _, _, _, _ => some "bad-op"
  | _ => none

end NV
