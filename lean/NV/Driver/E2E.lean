/-
  NV.Driver.E2E — `daemon udp|tcp b=… L=… DN=… DA=… U=… <payload>`: the reply a client must get from
  the whole daemon: `Proxy.Resolve` (NV.Local.resolve: hosts file, bogus-priv, discovery, upstream
  outcome) composed with the handler's reply (NV.Model.Reply: SERVFAIL substitution, UDP
  truncation, TCP framing).
-/
import NV.Driver.Local
import NV.Model.Reply
namespace NV
open NV.LocalDrv

def stepE2E (toks : List String) : Option String :=
  match toks with
  | ["daemon", proto, b, l, dn, da, u, h] =>
    some <| (do
      let _ ← if proto = "udp" ∨ proto = "tcp" then some () else none
      let bogus ← if b = "b=1" then some true else if b = "b=0" then some false else none
      let loc ← (stripPrefix? l "L=").bind parseLocal
      let disc ← do parseDisc (← stripPrefix? dn "DN=") (← stripPrefix? da "DA=")
      let up ← (stripPrefix? u "U=").bind parseUp
      let payload ← ofHex h
      if payload.length ≤ 14 then none else
      match parse payload with
      | .outOfFuel => pure "out-of-fuel"
      | .done _ q =>
        let r := resolve { loc := loc.map buildHosts, disc := disc, bogus := bogus } q up
        let o : Outcome := if r.err ∨ r.n ≤ 0 then .error else .bytes r.buf
        let rep := if proto = "udp" then udpReply q o else tcpReply q o
        pure (toHexOrDash rep)
      ).getD "bad-op"
  | _ => none

end NV
