/-
  NV.Driver.Core — driver operations for the wire/query/reply models:
    parse <hex>                      query.New on the payload
    udp|tcp <hex> <outcome>          the handler's reply (outcome: E | H <hex> | S <len> <salt>)
-/
import NV.Model.Reply
namespace NV

def boolStr (b : Bool) : String := if b then "1" else "0"

def optHex : Option Bytes → String
  | none => "none"
  | some b => toHexOrDash b

def queryStr (st : Stage) (q : Query) : String :=
  s!"{st.str} id={q.id} cls={q.cls} type={q.type} rd={boolStr q.rd} size={q.msgSize} name={toHexOrDash q.name} peer={optHex q.peerIP} mac={optHex q.mac} payload={toHexOrDash q.payload}"

/-- deterministic upstream answer shared with the Go harness: `len` bytes, the query id first -/
def synthResp (id len salt : Nat) : Bytes :=
  (List.range len).map fun i =>
    if i = 0 then b8 (id / 256) else if i = 1 then b8 id
    else if i = 2 then b8 (128 + salt % 2 * 4)   -- QR=1, TC clear
    else b8 (i * 7 + salt)

def parseOutcome (id : Nat) (toks : List String) : Option Outcome :=
  match toks with
  | ["E"] => some .error
  | ["T"] => some .error   -- upstream hangs until the request timeout: an error for the handler
  | ["H", h] => (ofHex h).map .bytes
  | ["S", len, salt] => do
      let l ← len.toNat?
      let s ← salt.toNat?
      pure (.bytes (synthResp id l s))
  | _ => none

def stepCore (toks : List String) : Option String :=
  match toks with
  | ["parse", h] =>
    match ofHex h with
    | none => some "bad-op"
    | some p =>
      match parse p with
      | .outOfFuel => some "out-of-fuel"
      | .done st q => some (queryStr st q)
  | proto :: h :: rest =>
    if proto ≠ "udp" ∧ proto ≠ "tcp" then none else
    match ofHex h with
    | none => some "bad-op"
    | some p =>
      -- proxy/udp.go, proxy/tcp.go: `if qsize <= 14` drops the datagram / closes the connection
      if p.length ≤ 14 then some (if proto = "udp" then "drop" else "close") else
      match parse p with
      | .outOfFuel => some "out-of-fuel"
      | .done _ q =>
        match parseOutcome q.id rest with
        | none => some "bad-op"
        | some o =>
          some (if proto = "udp" then toHexOrDash (udpReply q o) else toHexOrDash (tcpReply q o))
  | _ => none

end NV
