/-
  NV.Driver.Ecs — driver operations for C13:
    post <hex>      the body `DOH.resolve` POSTs for the query parsed from the payload
    encq <id> <flags> <qname> <qtype> <qcls> <pre> <udp> <ttl> <opts>
                    `NV.Spec.encode` of a structured query (compared with the repository's own
                    dnsmessage.Builder), followed by what `parse` leaves as payload and PeerIP
  Token formats: labels = hex strings joined by '.', root/empty = "-";
  pre = RRs joined by ',', each `labels/type/cls/ttl/rdatahex`; opts = `code:datahex` joined by ','.
-/
import NV.Driver.Core
import NV.Spec.QueryMsg
namespace NV
open NV.Spec

def parseLabels (s : String) : Option (List Bytes) :=
  if s = "-" then some [] else (s.splitOn ".").mapM fun l => if l = "" ∨ l = "-" then none else ofHex l

def parsePre (s : String) : Option (List PreRR) :=
  if s = "-" then some [] else
  (s.splitOn ",").mapM fun r =>
    match r.splitOn "/" with
    | [ls, t, c, ttl, rd] => do
        let ls ← parseLabels ls
        let t ← t.toNat?
        let c ← c.toNat?
        let ttl ← ttl.toNat?
        let rd ← ofHex rd
        pure ⟨ls, t, c, ttl, rd⟩
    | _ => none

def parseEOpts (s : String) : Option (List EOpt) :=
  if s = "-" then some [] else
  (s.splitOn ",").mapM fun o =>
    match o.splitOn ":" with
    | [c, d] => do
        let c ← c.toNat?
        let d ← ofHex d
        pure ⟨c, d⟩
    | _ => none

partial def stepEcs (toks : List String) : Option String :=
  match toks with
  | ["post53", h] => stepEcs ["post", h]   -- the plain-DNS path sends the same payload
  | ["post", h] =>
    match ofHex h with
    | none => some "bad-op"
    | some p =>
      match parse p with
      | .outOfFuel => some "out-of-fuel"
      | .done _ q => some (toHexOrDash (dohPostBody q))
  | ["encq", id, flags, qn, qt, qc, pre, udp, ttl, opts] =>
    some <| (do
      let m : QueryMsg := {
        id := ← id.toNat?, flags := ← flags.toNat?, qname := ← parseLabels qn, qtype := ← qt.toNat?,
        qcls := ← qc.toNat?, pre := ← parsePre pre, udpSize := ← udp.toNat?, optTTL := ← ttl.toNat?,
        opts := ← parseEOpts opts }
      let e := encode m
      match parse e with
      | .outOfFuel => pure "out-of-fuel"
      | .done st q => pure s!"enc={toHexOrDash e} {st.str} peer={optHex q.peerIP} payload={toHexOrDash q.payload}"
      ).getD "bad-op"
  | _ => none

end NV
