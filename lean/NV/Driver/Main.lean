/-
  NV.Driver.Main — line protocol: one operation per input line, one canonical output line.
  The Go harness runs the real code on the same lines; bin/check diffs the two streams.
  Each area contributes a `step… : List String → Option String` (none = not my operation);
  unknown or malformed operations answer `bad-op` (never a default value).
-/
import NV.Driver.Core
import NV.Driver.Cap
import NV.Driver.Listen
import NV.Driver.Upfault
import NV.Driver.Discovery
import NV.Driver.Config
import NV.Driver.Cache
import NV.Driver.Fwd
import NV.Driver.Prof
import NV.Driver.TTL
import NV.Driver.FS
import NV.Driver.ClientInfo
import NV.Driver.Ecs
import NV.Driver.Local
import NV.Driver.Manager
import NV.Driver.Router
import NV.Driver.HostsRefresh
import NV.Driver.MgrX
import NV.Driver.SvcStart
import NV.Driver.Activate
import NV.Driver.SvcProv
import NV.Driver.SrcUrl
import NV.Driver.RealEp
import NV.Driver.TcpStream
import NV.Driver.Wedge
import NV.Driver.SlowRefresh
import NV.Driver.E2E
import NV.Driver.EpEq
import NV.Driver.Failover
namespace NV

def steppers : List (List String → Option String) := [stepCore, stepCap, stepRaceSoak, stepLMRace, stepListen, stepUpfault, Disc.stepDiscovery, Config.stepConfig, stepCache, stepFwd, stepProf, stepTTL, stepFS, stepClientInfo, stepEcs, LocalDrv.stepLocal, stepManager, stepRouter, HostsRefreshDrv.stepHostsRefresh, MgrX.stepMgrX, stepSvcStart, stepSvcLife, stepRunLoop, stepActivate, stepTcpStream, stepStaleQ, RealEp.stepRealEp, SrcUrlDrv.stepSrcUrl, SvcProvDrv.stepSvcProv, stepWedge, stepSlowRefresh, stepE2E, stepEpEq, stepFailover]

def step (line : String) : String :=
  let toks := line.splitOn " "
  match steppers.findSome? (fun f => f toks) with
  | some out => out
  | none => "bad-op"

partial def loop (hin : IO.FS.Stream) (hout : IO.FS.Stream) : IO Unit := do
  let line ← hin.getLine
  if line.isEmpty then return ()
  let l := line.trimAsciiEnd.toString
  hout.putStrLn (step l)
  loop hin hout

def driverMain (_args : List String) : IO Unit := do
  let hin ← IO.getStdin
  let hout ← IO.getStdout
  loop hin hout
  hout.flush

end NV
