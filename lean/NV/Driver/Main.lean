/-
  NV.Driver.Main — line protocol: one operation per input line, one canonical output line.
  The Go harness runs the real code on the same lines; bin/check diffs the two streams.
  Unknown or malformed operations answer `bad-op` (never a default value).
-/
import NV.Model.Reply
namespace NV

def boolStr (b : Bool) : String := if b then "1" else "0"

def optHex : Option Bytes → String
  | none => "none"
  | some b => toHexOrDash b

def queryStr (st : Stage) (q : Query) : String :=
  s!"{st.str} id={q.id} cls={q.cls} type={q.type} rd={boolStr q.rd} size={q.msgSize} name={toHexOrDash q.name} peer={optHex q.peerIP} mac={optHex q.mac} payload={toHexOrDash q.payload}"

/-- deterministic upstream answer shared with the Go harness: `len` bytes, the query id first -/
def synthResp (id len salt : Nat) : Bytes :=
  (List.range len).map fun i =>
    if i = 0 then b8 (id / 256) else if i = 1 then b8 id
    else if i = 2 then b8 (128 + salt % 2 * 4)   -- QR=1, TC clear
    else b8 (i * 7 + salt)

def parseOutcome (id : Nat) (toks : List String) : Option Outcome :=
  match toks with
  | ["E"] => some .error
  | ["H", h] => (ofHex h).map .bytes
  | ["S", len, salt] => do
      let l ← len.toNat?
      let s ← salt.toNat?
      pure (.bytes (synthResp id l s))
  | _ => none

def step (line : String) : String :=
  match line.splitOn " " with
  | ["parse", h] =>
    match ofHex h with
    | none => "bad-op"
    | some p =>
      match parse p with
      | .outOfFuel => "out-of-fuel"
      | .done st q => queryStr st q
  | "udp" :: h :: rest | "tcp" :: h :: rest =>
    match ofHex h with
    | none => "bad-op"
    | some p =>
      -- proxy/udp.go, proxy/tcp.go: `if qsize <= 14` drops the datagram / closes the connection
      if p.length ≤ 14 then (if line.startsWith "udp" then "drop" else "close") else
      match parse p with
      | .outOfFuel => "out-of-fuel"
      | .done _ q =>
        match parseOutcome q.id rest with
        | none => "bad-op"
        | some o =>
          if line.startsWith "udp" then toHexOrDash (udpReply q o) else toHexOrDash (tcpReply q o)
  | _ => "bad-op"

partial def loop (hin : IO.FS.Stream) (hout : IO.FS.Stream) : IO Unit := do
  let line ← hin.getLine
  if line.isEmpty then return ()
  let l := line.trimAsciiEnd.toString
  hout.putStrLn (step l)
  loop hin hout

def driverMain (_args : List String) : IO Unit := do
  let hin ← IO.getStdin
  let hout ← IO.getStdout
  loop hin hout
  hout.flush

end NV
