/-
  NV.Driver.SlowRefresh — `slowrefresh <format> <iphex> <oldhex> <newhex>`: the sequential
  specification of a file-backed discovery source under overlapping lookups. Refreshes are
  serialised by the source's lock (NV.C15 `gen_discipline_ok`: the tables are written under the
  write lock held across the whole refresh), so the three lookups A (reads the old file, slowly),
  B (due for a refresh, issued meanwhile, after the newer preferred file appeared) and C (after
  both) are answered as by the order A, B, C: old, new, new. Names come back absolute (trailing
  dot), in the spelling of the file.
-/
import NV.Driver.Core
namespace NV

def stepSlowRefresh (toks : List String) : Option String :=
  match toks with
  | ["slowrefresh", fmt, ip, old, new] =>
    if fmt ≠ "dnsmasq" ∧ fmt ≠ "isc-dhcpd" then some "bad-op" else
    match ofHex ip, ofHex old, ofHex new with
    | some _, some o, some n =>
      if o.isEmpty ∨ n.isEmpty ∨ o.getLast? = some 46 ∨ n.getLast? = some 46 then some "bad-op" else
      let a := toHexOrDash (o ++ [46])
      let b := toHexOrDash (n ++ [46])
      some s!"A={a} B={b} C={b}"
    | _, _, _ => some "bad-op"
  | ["slowhosts", name, _ip] =>
    -- the load of the hosts file and the lookups are serialised by the source's lock: both the query
    -- that started the load and the one that arrived meanwhile find the listed name (NV.C12
    -- `hosts_hit_no_upstream`, names matched case-insensitively)
    match ofHex name with
    | some n => if n.isEmpty then some "bad-op" else some "A=L B=L"
    | none => some "bad-op"
  | _ => none

end NV
