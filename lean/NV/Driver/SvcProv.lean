/-
  NV.Driver.SvcProv — `svcprov <rr>;<rr>;…` (`-` = no HTTPS record): rr = <priority>:<key>=<valuehex>,<key>=<valuehex>…
  (`-` = no parameter, empty value = `_`).  Output: `err` or the endpoints joined by ' ', endpoint =
  ips=<16-byte hex,…|->/alpn=<hex,…|-|none>.
-/
import NV.Model.SvcProv
import NV.Driver.Core
namespace NV.SvcProvDrv
open NV.SvcProv

def parseParam (s : String) : Option Param :=
  match s.splitOn "=" with
  | [k, v] => do
    let k ← k.toNat?
    let v ← if v = "_" then some [] else ofHex v
    pure ⟨k, v⟩
  | _ => none

def parseRR (s : String) : Option RR :=
  match s.splitOn ":" with
  | [p, ps] => do
    let p ← p.toNat?
    let ps ← if ps = "-" then some [] else (ps.splitOn ",").mapM parseParam
    pure ⟨p, ps⟩
  | _ => none

def epStr (e : Ep) : String :=
  let ips := if e.ips.isEmpty then "-" else ",".intercalate (e.ips.map toHex)
  let al := match e.alpn with
    | none => "none"
    | some l => if l.isEmpty then "-" else ",".intercalate (l.map fun (a : Bytes) => if a.isEmpty then "_" else toHex a)
  s!"ips={ips}/alpn={al}"

def stepSvcProv (toks : List String) : Option String :=
  match toks with
  | ["svcprov", rrs] =>
    match (if rrs = "-" then some [] else (rrs.splitOn ";").mapM parseRR) with
    | none => some "bad-op"
    | some rs =>
      if rs.any (fun r => r.prio > 65535 ∨ r.params.any fun p => p.key > 65535 ∨ p.value.length > 300) then some "bad-op" else
      match getEndpoints rs with
      | none => some "err"
      | some eps => some (if eps.isEmpty then "none" else " ".intercalate (eps.map epStr))
  | _ => none
end NV.SvcProvDrv
