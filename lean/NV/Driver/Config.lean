/-
  NV.Driver.Config — line protocol for the configuration model (area `config`, property C17).

    cfg D=<durations> C=<condition texts> K=<conditions> R=<resolver addresses> Q=<client probes>
        N=<name probes> F=<initial file lines> A=<arguments>

  Every text is lowercase hex (one byte per character, empty = `-`); an empty list is `.`.
    D  `text:ns:canon` | `text:E`        time.ParseDuration(text) and Duration.String of the result
    K  `P:key` | `M:key` | `I:name:ip+ip…` (`I:name:.` = no address)
    C  `text:i` | `text:E`               classification of a condition text: index into K, or error
    R  `addr:1` | `addr:0`               resolver.New(addr) succeeds / fails
    Q  `desc:i,j,…` | `desc:.`           a client (src/dst/mac, used by the harness only) and the
                                         indexes of the conditions of K it matches
    N  `name`                            a query name for Forwarders.Get
    F  raw lines of the configuration file before the command
    A  `form:name:value`, form s|S|e|E|b|B = `-n v` `--n v` `-n=v` `--n=v` `-n` `--n`
  Answer: `<obs0> | <obs1> | <file> | <obs2>`
    obs0  Parse with no argument on the initial file,   obs1  Parse with the arguments,
    file  the saved file (lines stably sorted by option name),   obs2  Parse of the saved file;
  each `EXIT` when the process would exit, `-` when the stage is not reached.
-/
import NV.Model.Wire
import NV.Model.Config
namespace NV.Config

def strOfBytes (b : Bytes) : Str := b.map fun x => Char.ofNat x.toNat
def hexOfStr (s : Str) : String := toHexOrDash (s.map fun c => UInt8.ofNat (c.toNat % 256))
def unhexStr (h : String) : Option Str := (ofHex h).map strOfBytes

def splitList (s : String) (sep : String) : List String := if s = "." then [] else s.splitOn sep

def joinOrDot (l : List String) (sep : String) : String := if l.isEmpty then "." else sep.intercalate l

structure Tables where
  durs : List (Str × Option (Int × Str))
  conds : List CondK
  ctexts : List (Str × Option Nat)
  addrs : List (Str × Bool)
  probes : List (List Nat)
  names : List Str

def section? (tok : String) (pfx : String) : Option String :=
  if tok.startsWith pfx then some (tok.drop pfx.length).toString else none

def parseDurEntry (e : String) : Option (Str × Option (Int × Str)) :=
  match e.splitOn ":" with
  | [t, "E"] => (unhexStr t).map fun t => (t, none)
  | [t, ns, c] => do
      let t ← unhexStr t
      let n ← ns.toInt?
      let c ← unhexStr c
      pure (t, some (n, c))
  | _ => none

def parseCondEntry (e : String) : Option CondK :=
  match e.splitOn ":" with
  | ["P", k] => (unhexStr k).map .pfx
  | ["M", k] => (unhexStr k).map .mac
  | ["I", n, ips] => do
      let n ← unhexStr n
      let l ← (splitList ips "+").mapM unhexStr
      pure (.iface n l)
  | _ => none

def parseCTextEntry (e : String) : Option (Str × Option Nat) :=
  match e.splitOn ":" with
  | [t, "E"] => (unhexStr t).map fun t => (t, none)
  | [t, i] => do
      let t ← unhexStr t
      let n ← i.toNat?
      pure (t, some n)
  | _ => none

def parseAddrEntry (e : String) : Option (Str × Bool) :=
  match e.splitOn ":" with
  | [t, "1"] => (unhexStr t).map fun t => (t, true)
  | [t, "0"] => (unhexStr t).map fun t => (t, false)
  | _ => none

def parseProbeEntry (e : String) : Option (List Nat) :=
  match e.splitOn ":" with
  | [_, l] => (splitList l ",").mapM (·.toNat?)
  | _ => none

def parseArgEntry (e : String) : Option Arg :=
  match e.splitOn ":" with
  | [f, n, v] => do
      let v ← unhexStr v
      let (form, dd) ← (match f with
        | "s" => some (Form.sep, false) | "S" => some (Form.sep, true)
        | "e" => some (Form.eq, false) | "E" => some (Form.eq, true)
        | "b" => some (Form.bare, false) | "B" => some (Form.bare, true)
        | _ => none)
      pure { form := form, dd := dd, name := n.toList, value := v }
  | _ => none

def envOf (t : Tables) : Env where
  parseDur := fun s => match t.durs.find? (·.1 = s) with
    | some (_, some (n, _)) => some n
    | _ => none
  fmtDur := fun n => match t.durs.find? (fun e => match e.2 with | some (m, _) => m = n | none => false) with
    | some (_, some (_, c)) => c
    | _ => lit "!unknown-duration"
  classify := fun s => match t.ctexts.find? (·.1 = s) with
    | some (_, some i) => t.conds[i]?
    | _ => none
  validAddr := fun s => match t.addrs.find? (·.1 = s) with
    | some (_, b) => b
    | none => false

def boolS (b : Bool) : String := if b then "1" else "0"

def scalarS : Val → String
  | .b v => boolS v
  | .s v => hexOfStr v
  | .d n => toString n
  | .u n => toString n
  | _ => "?"

def condS : Option CondK → String
  | none => "N"
  | some (.pfx k) => "P" ++ hexOfStr k
  | some (.mac k) => "M" ++ hexOfStr k
  | some (.iface n ips) => "I" ++ hexOfStr n ++ "/" ++ joinOrDot (ips.map hexOfStr) "+"

def profS (p : Profile) : String := condS p.cond ++ "~" ++ hexOfStr p.id
def fwdS (f : Fwd) : String := hexOfStr f.domain ++ "~" ++ hexOfStr f.addr

def isScalar : Kind → Bool
  | .bool | .string | .duration | .uint => true
  | _ => false

/-- ASCII case folding, as `Resolver.Match` folds (config/forwarder.go) -/
def lowerA (s : Str) : Str := s.map fun c => if 'A' ≤ c ∧ c ≤ 'Z' then Char.ofNat (c.toNat + 32) else c
/-- `Resolver.Match` as found: exact name or a sub-domain, ASCII letters compared without case -/
def matchDomain (d : Str) (n : Str) : Bool :=
  let d := lowerA d
  let n := lowerA n
  n = d || (('.' :: d).isSuffixOf n)

def obsS (t : Tables) (c : Cfg) : String :=
  let sc := (optTable.filter fun o => isScalar o.kind && o.bound).map fun o => o.name ++ "=" ++ scalarS (c o.nm)
  let m : CondK → List Nat → Bool := fun ck pr => match t.conds.idxOf? ck with
    | some i => pr.contains i
    | none => false
  let prof := (c (lit "profile")).profs
  let fw := (c (lit "forwarder")).fwds
  "sc:" ++ joinOrDot sc "," ++
  ";li:" ++ joinOrDot ((c (lit "listen")).strs.map hexOfStr) "," ++
  ";cd:" ++ joinOrDot ((c (lit "config")).profs.map profS) "," ++
  ";pr:" ++ joinOrDot (prof.map profS) "," ++
  ";fw:" ++ joinOrDot (fw.map fwdS) "," ++
  ";pg:" ++ joinOrDot (t.probes.map fun pr => hexOfStr (getProfile m prof pr)) "," ++
  ";fg:" ++ joinOrDot (t.names.map fun n => match getFwd matchDomain fw n with
      | some a => hexOfStr a | none => "none") ","

def ltStr : Str → Str → Bool
  | _, [] => false
  | [], _ :: _ => true
  | a :: as, b :: bs => a.toNat < b.toNat || (a = b && ltStr as bs)

def insertLine (l : Line) : List Line → List Line
  | [] => [l]
  | x :: xs => if ltStr x.1 l.1 then x :: insertLine l xs else l :: x :: xs

/-- stable sort by name -/
def sortLines (ls : List Line) : List Line := ls.foldr insertLine []

def fileS (ls : List Line) : String :=
  "fl:" ++ joinOrDot ((sortLines ls).map fun l => hexOfStr (fmtLine l)) ","

def findSection (toks : List String) (pfx : String) : Option String := toks.findSome? (section? · pfx)

def runCase (toks : List String) : Option String := do
  let d ← findSection toks "D="
  let k ← findSection toks "K="
  let ct ← findSection toks "C="
  let r ← findSection toks "R="
  let q ← findSection toks "Q="
  let n ← findSection toks "N="
  let f ← findSection toks "F="
  let a ← findSection toks "A="
  let t : Tables := {
    durs := ← (splitList d ";").mapM parseDurEntry
    conds := ← (splitList k ";").mapM parseCondEntry
    ctexts := ← (splitList ct ";").mapM parseCTextEntry
    addrs := ← (splitList r ";").mapM parseAddrEntry
    probes := ← (splitList q ";").mapM parseProbeEntry
    names := ← (splitList n ";").mapM unhexStr }
  let file ← (splitList f ";").mapM unhexStr
  let args ← (splitList a ";").mapM parseArgEntry
  -- a non-bool flag written without value swallows the next token: not expressible in this protocol
  if args.any (fun x => x.form = .bare && (findOpt x.name).any (fun o => o.kind ≠ .bool)) then none
  let env := envOf t
  let o0 := match parseCmd env file [] with
    | none => "EXIT"
    | some c => obsS t c
  match parseCmd env file args with
  | none => pure (o0 ++ " | EXIT | - | -")
  | some c1 =>
    let saved := saveLines env c1
    -- the file is re-read as text: `name value` lines
    let raws := (sortLines saved).map fmtLine
    let o2 := match parseCmd env raws [] with
      | none => "EXIT"
      | some c => obsS t c
    pure (o0 ++ " | " ++ obsS t c1 ++ " | " ++ fileS saved ++ " | " ++ o2)

def stepConfig (toks : List String) : Option String :=
  match toks with
  | "cfg" :: rest =>
    if rest.length ≠ 8 then some "bad-op" else
    match runCase rest with
    | some s => some s
    | none => some "bad-op"
  | _ => none

end NV.Config
