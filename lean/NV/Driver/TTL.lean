/-
  NV.Driver.TTL — driver operations for resolver/cache.go (C07, message level):
    uttl <hex> <age> <maxAge> <maxTTL>                       updateTTL on a private copy
    adj <hex> <bufLen> <id> <deltaNanos> <maxAge> <maxTTL>   cacheValue.AdjustedResponse
    skipname <hex>                                            skipName
  Outputs:
    uttl:     `min=<minTTL> buf=<hex>`            | `PANIC`
    adj:      `n=<n> min=<minTTL> buf=<hex buf[:n]> stored=same` | `PANIC`
              (`stored=same`: v.msg is unchanged after the call; in the model by construction)
    skipname: `<l>`
-/
import NV.Model.TTL
namespace NV
open NV.TTL

def u32? (s : String) : Option Nat := do
  let n ← s.toNat?
  if n < 4294967296 then some n else none

def stepTTL (toks : List String) : Option String :=
  match toks with
  | ["skipname", h] =>
    match ofHex h with
    | none => some "bad-op"
    | some p => some (toString (skipName p))
  | ["uttl", h, age, maxAge, maxTTL] =>
    match ofHex h, u32? age, u32? maxAge, u32? maxTTL with
    | some p, some a, some ma, some mt =>
      match updateTTL p a ma mt with
      | .error _ => some "PANIC"
      | .ok (buf, m) => some s!"min={m} buf={toHexOrDash buf}"
    | _, _, _, _ => some "bad-op"
  | ["adj", h, bufLen, id, delta, maxAge, maxTTL] =>
    match ofHex h, bufLen.toNat?, id.toNat?, delta.toInt?, u32? maxAge, u32? maxTTL with
    | some p, some bl, some i, some d, some ma, some mt =>
      if i ≥ 65536 ∨ d ≥ 4611686018427387904 ∨ d ≤ -4611686018427387904 then some "bad-op" else
      match adjustedResponse p bl i d ma mt with
      | .error _ => some "PANIC"
      | .ok (n, buf, m) => some s!"n={n} min={m} buf={toHexOrDash buf} stored=same"
    | _, _, _, _, _, _ => some "bad-op"
  | _ => none

end NV
