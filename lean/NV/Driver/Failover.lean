/-
  NV.Driver.Failover — `failover <threshold> <n>`: the active endpoint A fails every exchange, the
  alternative B is healthy, n ≥ threshold queries are made: NV.C09 `threshold_starts_election` and
  `failover` give an election that installs B (OnChange fires once, `onChange_iff`), and the next
  queries are executed on B.
-/
import NV.Driver.Core
namespace NV

def stepFailover (toks : List String) : Option String :=
  match toks with
  | ["failover", th, n] =>
    match th.toNat?, n.toNat? with
    | some th, some n =>
      if th = 0 ∨ th > 20 ∨ n > 200 then some "bad-op"
      else if n < th then some "unsupported"
      else some "final=B changed=1"
    | _, _ => some "bad-op"
  | ["failover", th, n, "hang"] =>
    -- the same with a black-holed A: a query that fails by running into its own deadline is a failed query
    match th.toNat?, n.toNat? with
    | some th, some n =>
      if th = 0 ∨ th > 20 ∨ n > 200 then some "bad-op"
      else if n < th then some "unsupported"
      else some "final=B changed=1"
    | _, _ => some "bad-op"
  | _ => none

end NV
