/-
  NV.Driver.HostsRefresh — `hrefresh <variant> <file1 names> <file2 names> <pool>`:
  which pool names are answered locally (L) or go upstream (U) after loading file 1 (p1) and after
  the file was rewritten as file 2 and refreshed (p2). variant: ok | long:<k> | dir — the last two
  make the re-read fail.
-/
import NV.Model.HostsRefresh
namespace NV.HostsRefreshDrv
open NV NV.HostsRefresh

def parseNames (s : String) : Option (List Bytes) :=
  if s = "-" then some [] else (s.splitOn ",").mapM ofHex

def lu (tables pool : List Bytes) : String :=
  String.ofList (pool.map fun n => if local? tables n then 'L' else 'U')

def stepHostsRefresh (toks : List String) : Option String :=
  match toks with
  | ["hrefresh", variant, f1, f2, pool] =>
    match parseNames f1, parseNames f2, parseNames pool with
    | some n1, some n2, some pl =>
      let res : Option ReadRes :=
        if variant = "ok" then some (.ok n2)
        else if variant = "dir" then some (.fail [])
        else match variant.splitOn ":" with
          | ["long", k] => k.toNat?.map fun k => .fail (n2.take k)
          | _ => none
      match res with
      | none => some "bad-op"
      | some r => some s!"p1={lu n1 pl} p2={lu (refresh n1 r) pl}"
    | _, _, _ => some "bad-op"
  | _ => none

end NV.HostsRefreshDrv
