/-
  NV.Driver.HostsRefresh — `hrefresh <variant> <file1 names> <file2 names> <pool>`:
  which pool names are answered locally (L) or go upstream (U) after loading file 1 (p1) and after
  the file was rewritten as file 2 and refreshed (p2), and after one more refresh (p3). variant: ok | long:<k> | dir (the
  re-read fails for good) | emfile (the new file cannot be opened at the first refresh, and can at the next: a source that
  could not be read must be tried again).
-/
import NV.Model.HostsRefresh
namespace NV.HostsRefreshDrv
open NV NV.HostsRefresh

def parseNames (s : String) : Option (List Bytes) :=
  if s = "-" then some [] else (s.splitOn ",").mapM ofHex

def lu (tables pool : List Bytes) : String :=
  String.ofList (pool.map fun n => if local? tables n then 'L' else 'U')

def stepHostsRefresh (toks : List String) : Option String :=
  match toks with
  | [op, variant, f1, f2, pool] =>
    if op ≠ "hrefresh" ∧ op ≠ "lrefresh" then none else
    match parseNames f1, parseNames f2, parseNames pool with
    | some n1, some n2, some pl =>
      -- (result of the refresh right after the rewrite, result of the one after it)
      let res : Option (ReadRes × ReadRes) :=
        if variant = "ok" then some (.ok n2, .ok n2)
        else if variant = "dir" then some (.fail [], .fail [])
        else if variant = "emfile" then some (.fail [], .ok n2)   -- cannot be opened once, then it can
        else match variant.splitOn ":" with
          | ["long", k] => k.toNat?.map fun k => (.fail (n2.take k), .fail (n2.take k))
          | _ => none
      match res with
      | none => some "bad-op"
      | some (r2, r3) =>
        let t2 := refresh n1 r2
        some s!"p1={lu n1 pl} p2={lu t2 pl} p3={lu (refresh t2 r3) pl}"
    | _, _, _ => some "bad-op"
  | _ => none

end NV.HostsRefreshDrv
