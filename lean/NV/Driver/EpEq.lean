/-
  NV.Driver.EpEq — `epeq <spec> <spec>`: endpoint identity (resolver/endpoint doh.go, dns.go
  `Equal`): two endpoints are the same server exactly when they are of the same kind and have the
  same host name, path and bootstrap addresses (DoH) resp. the same address (plain DNS).
-/
import NV.Driver.Core
namespace NV

inductive EpSpec where
  | doh (host path : Bytes) (boot : List Bytes)
  | dns (addr : Bytes)
  deriving DecidableEq, Repr

/-- the model of `Equal`: structural identity -/
def epEqual (a b : EpSpec) : Bool := a == b

def parseEp (s : String) : Option EpSpec :=
  match s.splitOn ";" with
  | ["D", h, p, b] => do
    let h ← ofHex h
    let p ← ofHex p
    let bs ← if b = "-" then some [] else (b.splitOn ",").mapM ofHex
    pure (.doh h p bs)
  | ["N", a] => (ofHex a).map .dns
  | _ => none

def stepEpEq (toks : List String) : Option String :=
  match toks with
  | ["epeq", a, b] =>
    match parseEp a, parseEp b with
    | some x, some y =>
      let i (c : Bool) : Nat := if c then 1 else 0
      some s!"ab={i (epEqual x y)} ba={i (epEqual y x)} aa={i (epEqual x x)}"
    | _, _ => some "bad-op"
  | _ => none

end NV
