/-
  NV.Spec.Msg — specification side of C07 (message level).

  (1) A structured DNS message (`Msg`): header fields, questions and resource records whose owner
      names are given as wire bytes of a valid name (labels ended by the root byte or by a
      two-byte compression pointer), with `encode`, well-formedness `WF`, the TTL map
      `Msg.mapTTL` and the specification `minSpec` of the returned minimum.
  (2) For ARBITRARY byte strings: `ttlFields`, the positions of the TTL fields of the non-OPT
      records that a length-only reading of the message reaches (header counts, names skipped
      by length, RDLENGTH).  It performs no write and keeps no minimum; the all-bytes theorems
      of `NV.C07` say that `updateTTL` changes exactly these four-byte fields.
-/
import NV.Model.TTL
namespace NV.Spec
open NV NV.TTL

/-! ### (2) layout of an arbitrary byte string -/

/-- TTL fields (offset relative to `rest`, record index) of the non-OPT records among the first
`n` records laid out in `rest`; `i` is the index of the first one. -/
def ttlOffs : Nat → Nat → Bytes → List (Nat × Nat)
  | 0, _, _ => []
  | n + 1, i, rest =>
    let l := skipName rest
    if rest.isEmpty ∨ l = 0 ∨ rest.length < l + 10 then []
    else
      let k := l + 10 + rd16 rest (l + 8)
      let here := if rd16 rest l ≠ typeOPT then [(l + 4, i)] else []
      if rest.length < k then here
      else here ++ (ttlOffs n (i + 1) (rest.drop k)).map fun p => (p.1 + k, p.2)

/-- number of records the loop of `updateTTL` visits at most: the 16-bit sum of the header counts -/
def rrCount16 (msg : Bytes) : Nat := (rd16 msg 6 + rd16 msg 8 + rd16 msg 10) % 65536
/-- records with an index below this one belong to the answer/authority sections (16-bit sum) -/
def addIdx16 (msg : Bytes) : Nat := (rd16 msg 6 + rd16 msg 8) % 65536

/-- absolute TTL-field offsets (with record index) of a whole message -/
def ttlFields (msg : Bytes) : List (Nat × Nat) :=
  if msg.length < 12 then []
  else
    match skipQuestions (rd16 msg 4) (msg.drop 12) with
    | none => []
    | some rest => (ttlOffs (rrCount16 msg) 0 rest).map fun p => (p.1 + (msg.length - rest.length), p.2)

/-! ### (1) structured messages -/

/-- a wire name as the code reads it: labels (1..63 bytes each) ended by `00` or by a pointer -/
inductive ValidName : Bytes → Prop
  | root : ValidName [0]
  | ptr (a b : UInt8) : a.toNat / 64 = 3 → ValidName [a, b]
  | label (c : UInt8) (lab rest : Bytes) : 0 < c.toNat → c.toNat < 64 → lab.length = c.toNat →
      ValidName rest → ValidName (c :: (lab ++ rest))

structure Question where
  name : Bytes
  qtype : Nat
  qclass : Nat
  deriving Repr, DecidableEq

structure RR where
  name : Bytes
  type : Nat
  cls : Nat
  ttl : Nat
  rdata : Bytes
  deriving Repr, DecidableEq

structure Msg where
  id : Nat
  flags : Nat
  questions : List Question
  answers : List RR
  authorities : List RR
  additionals : List RR
  deriving Repr, DecidableEq

def Question.encode (q : Question) : Bytes := q.name ++ be16 q.qtype ++ be16 q.qclass

def RR.encode (r : RR) : Bytes :=
  r.name ++ be16 r.type ++ be16 r.cls ++ be32 r.ttl ++ be16 r.rdata.length ++ r.rdata

def encQs (qs : List Question) : Bytes := qs.flatMap Question.encode
def encRRs (rs : List RR) : Bytes := rs.flatMap RR.encode

def Msg.rrs (m : Msg) : List RR := m.answers ++ m.authorities ++ m.additionals

/-- the header counts are the section lengths: counts cannot lie in a structured message -/
def Msg.encode (m : Msg) : Bytes :=
  be16 m.id ++ be16 m.flags ++ be16 m.questions.length ++ be16 m.answers.length ++
    be16 m.authorities.length ++ be16 m.additionals.length ++ encQs m.questions ++ encRRs m.rrs

def Question.WF (q : Question) : Prop := ValidName q.name ∧ q.qtype < 65536 ∧ q.qclass < 65536

def RR.WF (r : RR) : Prop :=
  ValidName r.name ∧ r.type < 65536 ∧ r.cls < 65536 ∧ r.ttl < 4294967296 ∧ r.rdata.length < 65536

/-- well-formed: every field fits its wire width, names are valid, and the message fits the
65535 bytes a DNS message can have (TCP length prefix; `maxTCPSize`) -/
def Msg.WF (m : Msg) : Prop :=
  m.id < 65536 ∧ m.flags < 65536 ∧ (∀ q ∈ m.questions, q.WF) ∧ (∀ r ∈ m.rrs, r.WF) ∧
    m.encode.length ≤ 65535

/-- the served TTL of a record: OPT untouched, otherwise aged then capped -/
def servedTTL (age maxTTL : Nat) (r : RR) : Nat :=
  if r.type = typeOPT then r.ttl else clampTTL (aged r.ttl age) maxTTL

def RR.serve (age maxTTL : Nat) (r : RR) : RR := { r with ttl := servedTTL age maxTTL r }

def Msg.mapTTL (m : Msg) (age maxTTL : Nat) : Msg :=
  { m with answers := m.answers.map (RR.serve age maxTTL),
           authorities := m.authorities.map (RR.serve age maxTTL),
           additionals := m.additionals.map (RR.serve age maxTTL) }

/-- the records that count for freshness: non-OPT records of the answer and authority sections -/
def Msg.counted (m : Msg) : List RR := (m.answers ++ m.authorities).filter fun r => r.type ≠ typeOPT

/-- specification of the returned minTTL -/
def minSpec (m : Msg) (age maxAge : Nat) : Nat :=
  let acc := m.counted.foldl (fun mt r => minStep mt (aged r.ttl age) age maxAge) u32max
  if u32max - acc = 0 then 0 else acc

end NV.Spec
