/-
  NV.Spec.Local — the SPEC side of C12: reverse-lookup names (RFC 1035 §3.5, RFC 3596 §2.5), the
  address classes of the property (RFC 1918, loopback, link-local, ULA), and the shape of a
  locally built answer.  Written from the RFCs, not from the Go code.
-/
import NV.Model.Local
namespace NV.Spec
open NV

/-- `d.c.b.a` for the IPv4 address `a.b.c.d` (decimal, no leading zeros) -/
def rev4 (ip : Bytes) : Bytes :=
  ((dec (byteAt ip 3) ++ 46 :: dec (byteAt ip 2)) ++ 46 :: dec (byteAt ip 1)) ++ 46 :: dec (byteAt ip 0)

/-- nibbles of an IPv6 address, least significant first, one hex digit per label -/
def rev6 : Bytes → Bytes
  | [] => []
  | [b] => hexCh (b.toNat % 16) :: 46 :: [hexCh (b.toNat / 16)]
  | b :: b' :: rest => (rev6 (b' :: rest) ++ 46 :: [hexCh (b.toNat % 16)]) ++ 46 :: [hexCh (b.toNat / 16)]

/-- the canonical (lower-case) reverse-lookup name of a 4- or 16-byte address -/
def reverseName (ip : Bytes) : Bytes :=
  if ip.length = 4 then rev4 ip ++ sufInAddr ++ sufArpa else rev6 ip ++ sufIp6 ++ sufArpa

/-- 10/8, 172.16/12, 192.168/16, 127/8, 169.254/16, fd00::/8, ::1, fe80::/10 -/
def inPrivateClass (ip : Bytes) : Prop :=
  (ip.length = 4 ∧
    (byteAt ip 0 = 10 ∨ (byteAt ip 0 = 172 ∧ 16 ≤ byteAt ip 1 ∧ byteAt ip 1 ≤ 31) ∨
     (byteAt ip 0 = 192 ∧ byteAt ip 1 = 168) ∨ byteAt ip 0 = 127 ∨ (byteAt ip 0 = 169 ∧ byteAt ip 1 = 254))) ∨
  (ip.length = 16 ∧
    (byteAt ip 0 = 253 ∨ ip = ip6Loopback ∨ (byteAt ip 0 = 254 ∧ 128 ≤ byteAt ip 1 ∧ byteAt ip 1 ≤ 191)))

instance (ip : Bytes) : Decidable (inPrivateClass ip) := by unfold inPrivateClass; exact inferInstance

/-- a response with the query's ID and question, `rds.length` answer records owned by the
question name with TTL 0, nothing else -/
def answerMsg (id bits : Nat) (qn : Bytes) (qtype qcls typ : Nat) (rds : List Bytes) : Bytes :=
  be16 id ++ be16 bits ++ be16 1 ++ be16 rds.length ++ be16 0 ++ be16 0 ++
  (qn ++ be16 qtype ++ be16 qcls) ++
  rds.flatMap fun rd => qn ++ be16 typ ++ be16 qcls ++ be32 0 ++ be16 rd.length ++ rd

end NV.Spec
