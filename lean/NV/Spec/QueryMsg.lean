/-
  NV.Spec.QueryMsg — the SPEC side of C13: a structured DNS query and its wire encoding.

  A `QueryMsg` is what a stub resolver / dnsmasq sends: a header, ONE question whose name is a
  list of ordinary labels (1..63 bytes each, ≤ 255 bytes in presentation form), no answer or
  authority records, optional non-OPT additional records before the OPT, and an OPT pseudo-RR
  with root owner carrying a list of EDNS options; nothing follows the OPT.
  `encode` is RFC 1035 §4.1 / RFC 6891 §6.1.2 written from the RFC, not from the Go code.
-/
import NV.Model.Wire
namespace NV.Spec
open NV

/-- an EDNS option: OPTION-CODE, OPTION-DATA (OPTION-LENGTH is `data.length`) -/
structure EOpt where
  code : Nat
  data : Bytes
  deriving Repr, DecidableEq, Inhabited

/-- a non-OPT additional record placed before the OPT (e.g. a TSIG-less update leftover) -/
structure PreRR where
  labels : List Bytes
  type : Nat
  cls : Nat
  ttl : Nat
  rdata : Bytes
  deriving Repr, DecidableEq, Inhabited

structure QueryMsg where
  id : Nat
  flags : Nat
  qname : List Bytes
  qtype : Nat
  qcls : Nat
  pre : List PreRR
  /-- CLASS field of the OPT RR = advertised UDP size -/
  udpSize : Nat
  /-- TTL field of the OPT RR = extended RCODE, version, DO bit -/
  optTTL : Nat
  opts : List EOpt
  deriving Repr, DecidableEq, Inhabited

/-- labels, each preceded by its length, closed by the root label -/
def encLabels : List Bytes → Bytes
  | [] => [0]
  | l :: ls => b8 l.length :: (l ++ encLabels ls)

/-- presentation form used by dnsmessage: every label followed by a dot -/
def dotted : List Bytes → Bytes
  | [] => []
  | l :: ls => l ++ 46 :: dotted ls

def encOpt (o : EOpt) : Bytes := be16 o.code ++ be16 o.data.length ++ o.data

def encOpts : List EOpt → Bytes
  | [] => []
  | o :: os => encOpt o ++ encOpts os

def encRR (r : PreRR) : Bytes :=
  encLabels r.labels ++ be16 r.type ++ be16 r.cls ++ be32 r.ttl ++ be16 r.rdata.length ++ r.rdata

def encRRs : List PreRR → Bytes
  | [] => []
  | r :: rs => encRR r ++ encRRs rs

def encOPT (udpSize ttl : Nat) (opts : List EOpt) : Bytes :=
  0 :: (be16 41 ++ be16 udpSize ++ be32 ttl ++ be16 (encOpts opts).length ++ encOpts opts)

def header (m : QueryMsg) : Bytes :=
  be16 m.id ++ be16 m.flags ++ be16 1 ++ be16 0 ++ be16 0 ++ be16 (m.pre.length + 1)

/-- everything before the OPT record -/
def front (m : QueryMsg) : Bytes :=
  header m ++ (encLabels m.qname ++ be16 m.qtype ++ be16 m.qcls) ++ encRRs m.pre

def encode (m : QueryMsg) : Bytes := front m ++ encOPT m.udpSize m.optTTL m.opts

def LabelsOK (ls : List Bytes) : Prop :=
  (∀ l ∈ ls, 1 ≤ l.length ∧ l.length ≤ 63) ∧ (dotted ls).length ≤ 255

def PreRR.WF (r : PreRR) : Prop :=
  LabelsOK r.labels ∧ r.type < 65536 ∧ r.type ≠ 41 ∧ r.cls < 65536 ∧ r.ttl < 4294967296 ∧
  r.rdata.length < 65536

def EOpt.WF (o : EOpt) : Prop := o.code < 65536 ∧ o.data.length < 65536

instance (ls : List Bytes) : Decidable (LabelsOK ls) := by unfold LabelsOK; exact inferInstance
instance (r : PreRR) : Decidable r.WF := by unfold PreRR.WF; exact inferInstance
instance (o : EOpt) : Decidable o.WF := by unfold EOpt.WF; exact inferInstance

structure QueryMsg.WF (m : QueryMsg) : Prop where
  id : m.id < 65536
  flags : m.flags < 65536
  qname : LabelsOK m.qname
  qtype : m.qtype < 65536
  qcls : m.qcls < 65536
  pre : ∀ r ∈ m.pre, r.WF
  npre : m.pre.length + 1 < 65536
  udpSize : m.udpSize < 65536
  optTTL : m.optTTL < 4294967296
  opts : ∀ o ∈ m.opts, o.WF
  optsLen : (encOpts m.opts).length < 65536

/-- RFC 7871 option carrying an IPv4 / IPv6 FAMILY and at least the 4 fixed bytes + 4 address
bytes: the options `query.parse` treats as a client subnet. -/
def isECS (o : EOpt) : Prop :=
  o.code = 8 ∧ 8 ≤ o.data.length ∧ (byteAt o.data 1 = 1 ∨ byteAt o.data 1 = 2)

instance (o : EOpt) : Decidable (isECS o) := by unfold isECS; exact inferInstance

/-- the inert replacement: unassigned code 0xFFFF, same length, all-zero data -/
def neutral (o : EOpt) : EOpt :=
  if isECS o then ⟨0xFFFF, List.replicate o.data.length 0⟩ else o

/-- the full client address carried by an option, if any:
FAMILY 1 with SOURCE PREFIX-LENGTH 32, or FAMILY 2 with 128 and all 16 address bytes present -/
def carried (o : EOpt) : Option Bytes :=
  if o.code = 8 ∧ 8 ≤ o.data.length then
    if byteAt o.data 1 = 1 ∧ byteAt o.data 2 = 32 then some (slice o.data 4 4)
    else if byteAt o.data 1 = 2 ∧ byteAt o.data 2 = 128 ∧ 20 ≤ o.data.length then some (slice o.data 4 16)
    else none
  else none

/-- `none` = the socket peer; with several full-address options the last one wins -/
def specPeer : List EOpt → Option Bytes → Option Bytes
  | [], acc => acc
  | o :: os, acc => specPeer os (match carried o with | some ip => some ip | none => acc)

end NV.Spec
