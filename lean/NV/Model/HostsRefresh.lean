/-
  NV.Model.HostsRefresh — `discovery.Hosts.readHostsLocked` across refreshes (C12): the tables are
  replaced only when the re-read of a modified hosts file SUCCEEDS; when it fails (open error,
  scanner error such as a line longer than 64 KiB, the path now being a directory) the last good
  tables stay in use and the read is retried at the next refresh.
-/
import NV.Model.Wire
namespace NV.HostsRefresh

/-- outcome of `readHostsFile` on the current file: the names it lists, or a failure (the partial
tables read before the error are discarded by the caller) -/
inductive ReadRes where
  | ok (names : List Bytes)
  | fail (part : List Bytes)
  deriving Repr, DecidableEq

/-- the name table after a refresh that found the file modified -/
def refresh (tables : List Bytes) : ReadRes → List Bytes
  | .ok names => names
  | .fail _ => tables

/-- a query for `n` is answered locally iff the name is in the table -/
def local? (tables : List Bytes) (n : Bytes) : Bool := tables.contains n

end NV.HostsRefresh
