/-
  NV.Model.Parser — the subset of internal/dnsmessage reached by a client byte:
  header.unpack, Name.unpackCompressed, skipName, ResourceHeader.unpack,
  skipResource, unpackOPTResource and the Parser state machine
  (Start, checkAdvance, Question, SkipQuestion, resourceHeader, skipResource,
  SkipAll*, OPTResource).

  Faithfulness notes (line numbers refer to internal/dnsmessage/message.go):
  * every `off + k > len(msg)` test is reproduced literally;
  * `checkAdvance` mutates `resHeaderValid`, `index`, `section` before returning
    ErrSectionDone, exactly like the Go code;
  * errors are an enum; the correspondence check compares only the stage at which
    `query.parse` gives up, not the error text.
-/
import NV.Model.Wire
namespace NV

inductive PErr where
  | baseLen | calcLen | reserved | tooManyPtr | invalidPtr | resourceLen
  | notStarted | sectionDone
  deriving Repr, DecidableEq, Inhabited

/-- `Name.unpackCompressed(msg, off, true)`: returns (name bytes with a dot after each
label, newOff).  `ptr` = pointers followed so far, `newOff` = offset after the first pointer. -/
def unpackNameLoop (msg : Bytes) (currOff newOff ptr : Nat) (name : Bytes) :
    Except PErr (Bytes × Nat) :=
  if h : currOff ≥ msg.length then .error .baseLen
  else
    let c := byteAt msg currOff
    let currOff1 := currOff + 1
    if c / 64 = 0 then
      if c = 0 then
        -- end of name
        let name' := if name.isEmpty then [46] else name
        if name'.length > 255 then .error .calcLen
        else .ok (name', if ptr = 0 then currOff1 else newOff)
      else
        let endOff := currOff1 + c
        if endOff > msg.length then .error .calcLen
        else unpackNameLoop msg endOff newOff ptr (name ++ slice msg currOff1 c ++ [46])
    else if c / 64 = 3 then
      if currOff1 ≥ msg.length then .error .invalidPtr
      else
        let c1 := byteAt msg currOff1
        let newOff' := if ptr = 0 then currOff1 + 1 else newOff
        if ptr + 1 > 10 then .error .tooManyPtr
        else unpackNameLoop msg ((c - 192) * 256 + c1) newOff' (ptr + 1) name
    else .error .reserved
termination_by (11 - ptr, msg.length - currOff)
decreasing_by
  all_goals simp_wf
  · apply Prod.Lex.right'
    · omega
    · omega
  · apply Prod.Lex.left
    omega

def unpackName (msg : Bytes) (off : Nat) : Except PErr (Bytes × Nat) :=
  unpackNameLoop msg off off 0 []

/-- dnsmessage `skipName(msg, off)` -/
def skipNameLoop (msg : Bytes) (newOff : Nat) : Except PErr Nat :=
  if h : newOff ≥ msg.length then .error .baseLen
  else
    let c := byteAt msg newOff
    if c / 64 = 0 then
      if c = 0 then .ok (newOff + 1)
      else
        let n := newOff + 1 + c
        if n > msg.length then .error .calcLen else skipNameLoop msg n
    else if c / 64 = 3 then .ok (newOff + 2)
    else .error .reserved
termination_by msg.length - newOff
decreasing_by omega

def unpackU16 (msg : Bytes) (off : Nat) : Except PErr (Nat × Nat) :=
  if off + 2 > msg.length then .error .baseLen else .ok (rd16 msg off, off + 2)

def unpackU32 (msg : Bytes) (off : Nat) : Except PErr (Nat × Nat) :=
  if off + 4 > msg.length then .error .baseLen else .ok (rd32 msg off, off + 4)

def skipU16 (msg : Bytes) (off : Nat) : Except PErr Nat :=
  if off + 2 > msg.length then .error .baseLen else .ok (off + 2)

def skipU32 (msg : Bytes) (off : Nat) : Except PErr Nat :=
  if off + 4 > msg.length then .error .baseLen else .ok (off + 4)

/-- package-level `skipResource(msg, off)` -/
def skipResourceAt (msg : Bytes) (off : Nat) : Except PErr Nat := do
  let o ← skipNameLoop msg off
  let o ← skipU16 msg o
  let o ← skipU16 msg o
  let o ← skipU32 msg o
  let (len, o) ← unpackU16 msg o
  if o + len > msg.length then .error .resourceLen else .ok (o + len)

structure RH where
  name : Bytes := []
  type : Nat := 0
  cls : Nat := 0
  ttl : Nat := 0
  len : Nat := 0
  deriving Repr, DecidableEq, Inhabited

def unpackRH (msg : Bytes) (off : Nat) : Except PErr (RH × Nat) := do
  let (name, o) ← unpackName msg off
  let (t, o) ← unpackU16 msg o
  let (c, o) ← unpackU16 msg o
  let (ttl, o) ← unpackU32 msg o
  let (len, o) ← unpackU16 msg o
  .ok ({ name := name, type := t, cls := c, ttl := ttl, len := len }, o)

/-- sections as in the Go enum: 2 questions, 3 answers, 4 authorities, 5 additionals, 6 done -/
structure Parser where
  msg : Bytes
  id : Nat
  bits : Nat
  qd : Nat
  an : Nat
  ns : Nat
  ar : Nat
  sec : Nat
  off : Nat
  index : Nat
  rhValid : Bool
  rh : RH
  deriving Repr, Inhabited

def Parser.count (p : Parser) (sec : Nat) : Nat :=
  if sec = 2 then p.qd else if sec = 3 then p.an else if sec = 4 then p.ns
  else if sec = 5 then p.ar else 0

/-- `Parser.Start` (header.unpack needs 12 bytes) -/
def Parser.start (msg : Bytes) : Except PErr Parser :=
  if msg.length < 12 then .error .baseLen
  else .ok { msg := msg, id := rd16 msg 0, bits := rd16 msg 2, qd := rd16 msg 4, an := rd16 msg 6,
             ns := rd16 msg 8, ar := rd16 msg 10, sec := 2, off := 12, index := 0,
             rhValid := false, rh := {} }

def Parser.checkAdvance (p : Parser) (sec : Nat) : Except PErr Unit × Parser :=
  if p.sec < sec then (.error .notStarted, p)
  else if p.sec > sec then (.error .sectionDone, p)
  else
    let p := { p with rhValid := false }
    if p.index = p.count sec then (.error .sectionDone, { p with index := 0, sec := p.sec + 1 })
    else (.ok (), p)

structure Question where
  name : Bytes
  type : Nat
  cls : Nat
  deriving Repr, DecidableEq, Inhabited

def Parser.question (p : Parser) : Except PErr Question × Parser :=
  match p.checkAdvance 2 with
  | (.error e, p) => (.error e, p)
  | (.ok (), p) =>
    match unpackName p.msg p.off with
    | .error e => (.error e, p)
    | .ok (name, off) =>
      match unpackU16 p.msg off with
      | .error e => (.error e, p)
      | .ok (t, off) =>
        match unpackU16 p.msg off with
        | .error e => (.error e, p)
        | .ok (c, off) => (.ok ⟨name, t, c⟩, { p with off := off, index := p.index + 1 })

def Parser.skipQuestion (p : Parser) : Except PErr Unit × Parser :=
  match p.checkAdvance 2 with
  | (.error e, p) => (.error e, p)
  | (.ok (), p) =>
    match (do let o ← skipNameLoop p.msg p.off; let o ← skipU16 p.msg o; skipU16 p.msg o) with
    | .error e => (.error e, p)
    | .ok off => (.ok (), { p with off := off, index := p.index + 1 })

def Parser.resourceHeader (p : Parser) (sec : Nat) : Except PErr RH × Parser :=
  if p.rhValid then (.ok p.rh, p)
  else
    match p.checkAdvance sec with
    | (.error e, p) => (.error e, p)
    | (.ok (), p) =>
      match unpackRH p.msg p.off with
      | .error e => (.error e, p)
      | .ok (h, off) => (.ok h, { p with rhValid := true, rh := h, off := off })

/-- `skipResource` when no header is cached -/
def Parser.skipResourceFresh (p : Parser) (sec : Nat) : Except PErr Unit × Parser :=
  match p.checkAdvance sec with
  | (.error e, p) => (.error e, p)
  | (.ok (), p) =>
    match skipResourceAt p.msg p.off with
    | .error e => (.error e, p)
    | .ok off => (.ok (), { p with off := off, index := p.index + 1 })

def Parser.skipResource (p : Parser) (sec : Nat) : Except PErr Unit × Parser :=
  if p.rhValid then
    let newOff := p.off + p.rh.len
    if newOff > p.msg.length then (.error .resourceLen, p)
    else (.ok (), { p with off := newOff, rhValid := false, index := p.index + 1 })
  else p.skipResourceFresh sec

/-- `for { if err := skipX(); err == ErrSectionDone {return nil} else if err != nil {return err} }`
Each successful iteration increments `index`; the count is < 65536, so 65536+1 iterations of fuel
always suffice (`skipAll_fuel_enough` in NV.Props.C02). -/
def Parser.skipAllFuel : Nat → (Parser → Except PErr Unit × Parser) → Parser → Option (Except PErr Unit × Parser)
  | 0, _, _ => none
  | fuel + 1, step, p =>
    match step p with
    | (.error .sectionDone, p) => some (.ok (), p)
    | (.error e, p) => some (.error e, p)
    | (.ok (), p) => Parser.skipAllFuel fuel step p

def skipFuel : Nat := 65537

structure Opt where
  code : Nat
  data : Bytes
  dataOff : Nat
  deriving Repr, DecidableEq, Inhabited

/-- `unpackOPTResource(msg, off, length)`; `copy(o.Data, msg[off:]) != int(l)` ⇔ fewer than
`l` bytes remain.  The loop consumes ≥ 4 bytes per iteration. -/
def unpackOptsLoop (msg : Bytes) (off endOff : Nat) (acc : List Opt) : Except PErr (List Opt) :=
  if h : off < endOff then
    if off + 2 > msg.length then .error .baseLen
    else if off + 4 > msg.length then .error .baseLen
    else
      let code := rd16 msg off
      let l := rd16 msg (off + 2)
      let o2 := off + 4
      if msg.length - o2 < l then .error .calcLen
      else unpackOptsLoop msg (o2 + l) endOff (acc ++ [⟨code, slice msg o2 l, o2⟩])
  else .ok acc
termination_by endOff - off
decreasing_by omega

def Parser.optResource (p : Parser) : Except PErr (List Opt) × Parser :=
  if !p.rhValid || p.rh.type ≠ 41 then (.error .notStarted, p)
  else
    match unpackOptsLoop p.msg p.off (p.off + p.rh.len) [] with
    | .error e => (.error e, p)
    | .ok opts => (.ok opts, { p with off := p.off + p.rh.len, rhValid := false, index := p.index + 1 })

end NV
