/-
  NV.Model.RealEp — the two decisions of the endpoint stack that the `realep` area observes from outside:
  which endpoint an election makes active (resolver/endpoint/manager.go findBestEndpointLocked: the first candidate in
  preference order whose probe is answered, else the first candidate) and which path a request leaves for
  (transport.RoundTrip: an endpoint with a path of its own overrides the request's, one without keeps the profile's).
  Endpoints are named by their path without the slash; "-" = an endpoint without a path; profile "-" = none.
-/
namespace NV.RealEp

def election (eps : List String) (down : List String) : Option String :=
  match eps.find? (fun e => !down.contains e) with
  | some e => some e
  | none => eps.head?

def pathOf (ep prof : String) : String :=
  if ep = "-" then (if prof = "-" then "/" else "/" ++ prof) else "/" ++ ep

end NV.RealEp
