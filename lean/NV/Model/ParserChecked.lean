/-
  NV.Model.ParserChecked — CHECKED twins of the dnsmessage functions a client byte reaches.

  The models of NV.Model.Parser read the message with TOTAL accessors (`byteAt` is 0 outside the
  list, `slice` is shorter): convenient, but silent where the Go runtime would panic with "index
  out of range". Here every index / slice expression on `msg` of
      unpackUint16, unpackUint32, Name.unpackCompressed, skipName, unpackOPTResource
  is an `Option` (`none` = runtime panic), placed exactly where the Go source has it, after
  exactly the guards the Go source has (table `NV.Gen.MsgBounds.accesses`, regenerated).
  NV.Props.C02 proves each twin equal to `some` of the total model: the guards suffice for every
  byte string and offset, so the total accessors never read outside the message.
-/
import NV.Model.Parser
namespace NV

/-- Go `msg[i]` -/
def byteAt? (m : Bytes) (i : Nat) : Option Nat := m[i]?.map (·.toNat)

/-- Go `msg[a:b]` (a ≤ b ≤ len required; cap = len for a message read from a socket buffer slice
`buf[:qsize]` is larger, which only makes the real condition weaker) -/
def sliceTo? (m : Bytes) (a b : Nat) : Option Bytes :=
  if a ≤ b ∧ b ≤ m.length then some ((m.drop a).take (b - a)) else none

/-- Go `msg[a:]` -/
def sliceFrom? (m : Bytes) (a : Nat) : Option Bytes :=
  if a ≤ m.length then some (m.drop a) else none

/-- `unpackUint16`: guard `off+2 > len(msg)`, then `msg[off]`, `msg[off+1]` -/
def unpackU16? (msg : Bytes) (off : Nat) : Option (Except PErr (Nat × Nat)) :=
  if off + 2 > msg.length then some (.error .baseLen)
  else do
    let a ← byteAt? msg off
    let b ← byteAt? msg (off + 1)
    pure (.ok (a * 256 + b, off + 2))

/-- `unpackUint32`: guard `off+4 > len(msg)`, then four index expressions -/
def unpackU32? (msg : Bytes) (off : Nat) : Option (Except PErr (Nat × Nat)) :=
  if off + 4 > msg.length then some (.error .baseLen)
  else do
    let a ← byteAt? msg off
    let b ← byteAt? msg (off + 1)
    let c ← byteAt? msg (off + 2)
    let d ← byteAt? msg (off + 3)
    pure (.ok (a * 16777216 + b * 65536 + c * 256 + d, off + 4))

/-- `Name.unpackCompressed`: `msg[currOff]` after `currOff >= len(msg)`; `msg[currOff:endOff]`
after `endOff > len(msg)`; `msg[currOff]` (second pointer byte) after `currOff >= len(msg)` -/
def unpackNameLoop? (msg : Bytes) (currOff newOff ptr : Nat) (name : Bytes) :
    Option (Except PErr (Bytes × Nat)) :=
  if h : currOff ≥ msg.length then some (.error .baseLen)
  else
    match byteAt? msg currOff with
    | none => none
    | some c =>
    let currOff1 := currOff + 1
    if c / 64 = 0 then
      if c = 0 then
        let name' := if name.isEmpty then [46] else name
        if name'.length > 255 then some (.error .calcLen)
        else some (.ok (name', if ptr = 0 then currOff1 else newOff))
      else
        let endOff := currOff1 + c
        if endOff > msg.length then some (.error .calcLen)
        else
          match sliceTo? msg currOff1 endOff with
          | none => none
          | some lbl => unpackNameLoop? msg endOff newOff ptr (name ++ lbl ++ [46])
    else if c / 64 = 3 then
      if currOff1 ≥ msg.length then some (.error .invalidPtr)
      else
        match byteAt? msg currOff1 with
        | none => none
        | some c1 =>
        let newOff' := if ptr = 0 then currOff1 + 1 else newOff
        if ptr + 1 > 10 then some (.error .tooManyPtr)
        else unpackNameLoop? msg ((c - 192) * 256 + c1) newOff' (ptr + 1) name
    else some (.error .reserved)
termination_by (11 - ptr, msg.length - currOff)
decreasing_by
  all_goals simp_wf
  · apply Prod.Lex.right'
    · omega
    · omega
  · apply Prod.Lex.left
    omega

/-- `skipName`: `msg[newOff]` after `newOff >= len(msg)` -/
def skipNameLoop? (msg : Bytes) (newOff : Nat) : Option (Except PErr Nat) :=
  if h : newOff ≥ msg.length then some (.error .baseLen)
  else
    match byteAt? msg newOff with
    | none => none
    | some c =>
    if c / 64 = 0 then
      if c = 0 then some (.ok (newOff + 1))
      else
        let n := newOff + 1 + c
        if n > msg.length then some (.error .calcLen) else skipNameLoop? msg n
    else if c / 64 = 3 then some (.ok (newOff + 2))
    else some (.error .reserved)
termination_by msg.length - newOff
decreasing_by omega

/-- `unpackOPTResource`: two `unpackUint16`, then `copy(o.Data, msg[off:])` with NO guard of its
own (safe because a successful `unpackUint16` leaves `off ≤ len(msg)`) -/
def unpackOptsLoop? (msg : Bytes) (off endOff : Nat) (acc : List Opt) : Option (Except PErr (List Opt)) :=
  if h : off < endOff then
    match unpackU16? msg off with
    | none => none
    | some (.error e) => some (.error e)
    | some (.ok (code, o1)) =>
      match unpackU16? msg o1 with
      | none => none
      | some (.error e) => some (.error e)
      | some (.ok (l, o2)) =>
        match sliceFrom? msg o2 with
        | none => none
        | some rest =>
          if rest.length < l then some (.error .calcLen)
          else if o2 + l ≤ off then some (.error .calcLen)   -- unreachable (o2 = off + 4); keeps the recursion structural
          else unpackOptsLoop? msg (o2 + l) endOff (acc ++ [⟨code, rest.take l, o2⟩])
  else some (.ok acc)
termination_by endOff - off
decreasing_by omega

end NV
