/-
  NV.Model.Activate — activate.go: which address `activate` hands to `host.SetDNS`, i.e. the one
  nameserver the activated resolv.conf names (C19: "to name only the proxy's address").

  `listenIP listen`:
    * `net.SplitHostPort` fails (no port, stray brackets, too many colons)  -> "127.0.0.1"
    * port other than "53" / "domain"                                        -> error, nothing is written
    * host "" or "0.0.0.0" -> "127.0.0.1";  host "::" -> "::1"               (wildcards: the loopback of the family)
    * host is an IP literal (`net.ParseIP`)                                  -> the host as written
    * otherwise the first address the hosts file lists for the name, error when there is none
  `activate`: the first listen value — or "127.0.0.1:53" when the router integration is on.

  `splitHostPort` and `parseIP` are models of the standard library's functions (trusted base: Go's
  net package); the correspondence area `activate` runs the real `listenIP` on generated strings.
  Strings are lists of characters (bytes of ASCII text; the generator stays inside ASCII).
-/
namespace NV.Activate

abbrev S := List Char

def lastIndexOf (c : Char) (s : S) : Option Nat :=
  let rec go (i : Nat) (best : Option Nat) : S → Option Nat
    | [] => best
    | x :: xs => go (i + 1) (if x == c then some i else best) xs
  go 0 none s

def indexOf (c : Char) (s : S) : Option Nat :=
  let rec go (i : Nat) : S → Option Nat
    | [] => none
    | x :: xs => if x == c then some i else go (i + 1) xs
  go 0 s

/-- `net.SplitHostPort`: `none` = error -/
def splitHostPort (hp : S) : Option (S × S) :=
  match lastIndexOf ':' hp with
  | none => none                                            -- missing port
  | some i =>
    let port := hp.drop (i + 1)
    if hp.head? == some '[' then
      match indexOf ']' hp with
      | none => none                                        -- missing ']'
      | some e =>
        if e + 1 = hp.length then none                      -- missing port
        else if e + 1 ≠ i then none                         -- too many colons / missing port
        else
          let host := (hp.take e).drop 1
          if (hp.drop 1).contains '[' then none             -- unexpected '['
          else if (hp.drop (e + 1)).contains ']' then none  -- unexpected ']'
          else some (host, port)
    else
      let host := hp.take i
      if host.contains ':' then none                        -- too many colons
      else if hp.contains '[' then none
      else if hp.contains ']' then none
      else some (host, port)

/-! `net.ParseIP` -/

def isDigit (c : Char) : Bool := 48 ≤ c.toNat && c.toNat ≤ 57
def isHex (c : Char) : Bool := isDigit c || (97 ≤ c.toNat && c.toNat ≤ 102) || (65 ≤ c.toNat && c.toNat ≤ 70)

def splitOn (c : Char) (s : S) : List S :=
  let rec go (cur : S) : S → List S
    | [] => [cur.reverse]
    | x :: xs => if x == c then cur.reverse :: go [] xs else go (x :: cur) xs
  go [] s

/-- one dotted-decimal field: 1–3 digits, no leading zero unless it is "0", at most 255 -/
def v4Field (f : S) : Bool :=
  !f.isEmpty && f.length ≤ 3 && f.all isDigit && (f.length == 1 || f.head? != some '0') &&
    (f.foldl (fun n c => n * 10 + (c.toNat - '0'.toNat)) 0) ≤ 255

def isIPv4 (s : S) : Bool :=
  let fs := splitOn '.' s
  fs.length == 4 && fs.all v4Field

/-- one 16-bit group: 1–4 hex digits -/
def v6Group (g : S) : Bool := !g.isEmpty && g.length ≤ 4 && g.all isHex

/-- the groups of an IPv6 text without "::": every part a hex group, the last possibly dotted IPv4
(counting for two groups); returns the number of 16-bit groups -/
def v6Groups (parts : List S) : Option Nat :=
  match parts.reverse with
  | [] => some 0
  | last :: restRev =>
    if last.contains '.' then
      if isIPv4 last && restRev.all v6Group then some (restRev.length + 2) else none
    else if (last :: restRev).all v6Group then some (restRev.length + 1) else none

/-- text of one side of "::" (may be empty) -/
def v6Side (s : S) : Option Nat := if s.isEmpty then some 0 else v6Groups (splitOn ':' s)

/-- position of the first "::" -/
def findDouble : S → Nat → Option Nat
  | [], _ => none
  | [_], _ => none
  | x :: y :: rest, i => if x == ':' && y == ':' then some i else findDouble (y :: rest) (i + 1)

def isIPv6 (s : S) : Bool :=
  if !s.contains ':' then false else
  match findDouble s 0 with
  | none =>
    (match v6Groups (splitOn ':' s) with | some 8 => true | _ => false)
  | some i =>
    let left := s.take i
    let right := s.drop (i + 2)
    -- only one "::", and it stands for at least one group
    if (findDouble right 0).isSome || right.head? == some ':' then false else
    -- an embedded IPv4 tail may only end the whole text
    if left.contains '.' then false else
    match v6Side left, v6Side right with
    | some a, some b => a + b ≤ 7
    | _, _ => false

/-- `net.ParseIP(s) != nil` -/
def parseIP (s : S) : Bool := isIPv4 s || isIPv6 s

inductive Res where
  | addr (a : S)
  | errPort      -- "non 53 port not supported"
  | errNoAddr    -- "no address found"
  | errNoListen  -- "missing listen setting"
  deriving Repr, DecidableEq, Inhabited

def loopback4 : S := ['1', '2', '7', '.', '0', '.', '0', '.', '1']
def loopback6 : S := [':', ':', '1']
def port53 : S := ['5', '3']
def portDomain : S := ['d', 'o', 'm', 'a', 'i', 'n']
def wild4 : S := ['0', '.', '0', '.', '0', '.', '0']
def wild6 : S := [':', ':']

def listenIP (lookup : S → List S) (listen : S) : Res :=
  match splitHostPort listen with
  | none => .addr loopback4
  | some (host, port) =>
    if port ≠ port53 ∧ port ≠ portDomain then .errPort
    else if host = [] ∨ host = wild4 then .addr loopback4
    else if host = wild6 then .addr loopback6
    else if parseIP host then .addr host
    else match lookup host with
      | [] => .errNoAddr
      | a :: _ => .addr a

def routerListen : S := loopback4 ++ ':' :: port53

/-- what `activate(c)` passes to `host.SetDNS` -/
def activate (lookup : S → List S) (listens : List S) (setupRouter : Bool) : Res :=
  match listens with
  | [] => .errNoListen
  | l :: _ => listenIP lookup (if setupRouter then routerListen else l)

end NV.Activate
