/-
  NV.Model.SvcProv — resolver/endpoint/endpoint.go `(*SourceHTTPSSVCProvider).GetEndpoints`, the first provider of run.go's
  endpoint manager: the candidates it hands to an election, from the HTTPS records of the answer (in answer order; records of
  other types are skipped).  A record whose priority is HIGHER than the one before it closes the endpoint being built (a
  fallback endpoint follows); records of equal — or lower — priority keep adding to the same endpoint; ipv4hint / ipv6hint
  values are cut into addresses (an unaligned value is an error for the whole call), alpn replaces the ALPN list (a string
  running past the value is an error), other parameters are ignored.  Addresses are kept as 16 bytes (IPv4 as mapped).
  The wire parser (`dnsmessage.Parser.HTTPSResource`) is not modelled: the `svcprov` area builds the wire form of the records.
-/
namespace NV.SvcProv

abbrev Bytes := List UInt8

structure Param where
  key : Nat
  value : Bytes
  deriving Repr, DecidableEq, Inhabited

structure RR where
  prio : Nat
  params : List Param
  deriving Repr, DecidableEq, Inhabited

structure Ep where
  ips : List Bytes := []
  alpn : Option (List Bytes) := none
  deriving Repr, DecidableEq, Inhabited

def mapped4 (b : Bytes) : Bytes := [0, 0, 0, 0, 0, 0, 0, 0, 0, 0, 0xff, 0xff] ++ b

/-- `appendIPHint`: the value cut into addresses of `sz` bytes; `none` when bytes are left over -/
def hints (sz : Nat) (fuel : Nat) (v : Bytes) : Option (List Bytes) :=
  match fuel with
  | 0 => if v.isEmpty then some [] else none
  | fuel + 1 =>
    if v.length ≥ sz ∧ sz > 0 then (hints sz fuel (v.drop sz)).map fun r => (if sz = 4 then mapped4 (v.take sz) else v.take sz) :: r
    else if v.isEmpty then some [] else none

/-- `parseAlpn` -/
def alpn (fuel : Nat) (b : Bytes) : Option (List Bytes) :=
  match fuel, b with
  | _, [] => some []
  | 0, _ => none
  | fuel + 1, l :: rest =>
    if l.toNat > rest.length then none
    else (alpn fuel (rest.drop l.toNat)).map fun r => rest.take l.toNat :: r

def applyParam (e : Ep) (p : Param) : Option Ep :=
  if p.key = 4 then (hints 4 (p.value.length + 1) p.value).map fun h => { e with ips := e.ips ++ h }
  else if p.key = 6 then (hints 16 (p.value.length + 1) p.value).map fun h => { e with ips := e.ips ++ h }
  else if p.key = 1 then (alpn (p.value.length + 1) p.value).map fun a => { e with alpn := some a }
  else some e

def applyParams (e : Ep) : List Param → Option Ep
  | [] => some e
  | p :: ps => match applyParam e p with
    | none => none
    | some e' => applyParams e' ps

/-- the loop over the answer section: (priority of the last record, endpoint being built, endpoints closed so far) -/
def loop : List RR → Nat → Option Ep → List Ep → Option (List Ep)
  | [], _, e, out => some (out ++ e.toList)
  | rr :: rest, prio, e, out =>
    let (e, out) := if prio < rr.prio ∧ e.isSome then (none, out ++ e.toList) else (e, out)
    match applyParams (e.getD {}) rr.params with
    | none => none
    | some e' => loop rest rr.prio (some e') out

/-- `none` = GetEndpoints returns an error -/
def getEndpoints (rrs : List RR) : Option (List Ep) := loop rrs 0 none []

end NV.SvcProv
