/-
  NV.Model.Forwarder — executable model of config/forwarder.go (split-horizon forwarders, C10)
  and of the catch-all that run.go appends.

  Go strings are byte strings: `Bytes`.  Modelled functions (names follow the Go code):

    fqdn, equalFold, hasSuffixFold, isSubDomain, Resolver.Match, Resolver.String,
    newResolver (the parsing half), Forwarders.Set, Forwarders.Get, Forwarders.Resolve,
    run.go: `fwd = append(c.Forwarders..., config.Resolver{Resolver: p.resolver})`.

  The model describes the tree AFTER the repair `fix: compare forwarder domains case-insensitively`
  (Match used `==` / `strings.HasSuffix`; the property demands DNS case-insensitive comparison).
  `matchExact` keeps the pre-repair behaviour for the negative witness in Props/C10.

  Assumptions about external calls (not modelled, stated here once):
   * `resolver.New(addr)` succeeds (the harness generates valid server lists only); the resolver
     object it returns is opaque: the model identifies an upstream by its position in the list.
   * `strings.TrimSpace` is modelled for ASCII white space (space, \t, \n, \v, \f, \r); Go also trims
     U+0085 / U+00A0 and other Unicode spaces, which the harness never generates at the edges.
   * the upstream's own `Resolve` is a parameter (`ups`); only *which* upstream is called, how often,
     and that its result is passed through unchanged, is modelled.
-/
import NV.Model.Wire
namespace NV.Fwd
open NV

/-- ASCII text as bytes (for readable witnesses) -/
def str (s : String) : Bytes := s.toList.map fun c => UInt8.ofNat c.toNat

def dot : UInt8 := 46   -- '.'
def eqs : UInt8 := 61   -- '='

/-- ASCII lower-casing of one byte (the repair's `lowerASCII`): 'A'..'Z' ↦ 'a'..'z' -/
def lowerB (b : UInt8) : UInt8 := if 65 ≤ b ∧ b ≤ 90 then b + 32 else b

def lower (s : Bytes) : Bytes := s.map lowerB

/-- Go `equalFold(a, b)`: same length and byte-wise equal after ASCII folding (loop over i) -/
def equalFold : Bytes → Bytes → Bool
  | [], [] => true
  | a :: as, b :: bs => lowerB a == lowerB b && equalFold as bs
  | _, _ => false

/-- Go `hasSuffixFold(s, suffix)`: `len(s) >= len(suffix) && equalFold(s[len(s)-len(suffix):], suffix)` -/
def hasSuffixFold (s suffix : Bytes) : Bool :=
  suffix.length ≤ s.length && equalFold (s.drop (s.length - suffix.length)) suffix

/-- Go `strings.HasSuffix` (byte-exact); used by `fqdn` and by the pre-repair matcher -/
def hasSuffix (s suffix : Bytes) : Bool :=
  suffix.length ≤ s.length && s.drop (s.length - suffix.length) == suffix

/-- Go `fqdn` -/
def fqdn (s : Bytes) : Bytes := if hasSuffix s [dot] then s else s ++ [dot]

/-- Go `isSubDomain(sub, domain)` = `hasSuffixFold(sub, "."+domain)` -/
def isSubDomain (sub domain : Bytes) : Bool := hasSuffixFold sub (dot :: domain)

/-- Go `Resolver.Match` with `r.Domain = d`:
    `if d != "" { if !equalFold(domain, d) && !isSubDomain(domain, d) { return false } }; return true` -/
def matchD (d name : Bytes) : Bool :=
  if d ≠ [] then
    if !equalFold name d && !isSubDomain name d then false else true
  else true

/-- the matcher of the unrepaired tree (`domain != r.Domain && !strings.HasSuffix(domain, "."+r.Domain)`) -/
def matchExact (d name : Bytes) : Bool :=
  if d ≠ [] then
    if name ≠ d && !hasSuffix name (dot :: d) then false else true
  else true

/-- one forwarder: the rule's domain (empty = unconditional), its server text, and the identity
of the upstream object (`Resolver.Resolver`), modelled as a number -/
structure Fw where
  domain : Bytes
  addr : Bytes
  up : Nat
deriving Repr, DecidableEq, Inhabited

/-- Go `Forwarders.Get`: first rule that matches, else nil -/
def getFw : List Fw → Bytes → Option Nat
  | [], _ => none
  | f :: fs, name => if matchD f.domain name then some f.up else getFw fs name

/-- run.go: `fwd = append(fwd, c.Forwarders...); fwd = append(fwd, config.Resolver{Resolver: p.resolver})` -/
def withCatchAll (fs : List Fw) (dflt : Nat) : List Fw := fs ++ [{ domain := [], addr := [], up := dflt }]

/-- result of `Forwarders.Resolve` -/
inductive Out where
  | noForwarder            -- `-1, ResolveInfo{}, "<name>: no forwarder defined"`
  | passed (r : Nat)       -- whatever the chosen upstream returned
deriving Repr, DecidableEq

/-- Go `Forwarders.Resolve`: result and the trace of upstream calls it performs.
`ups u name` is the (opaque) behaviour of upstream `u`. -/
def resolve (ups : Nat → Bytes → Nat) (fs : List Fw) (name : Bytes) : Out × List Nat :=
  match getFw fs name with
  | none => (.noForwarder, [])
  | some u => (.passed (ups u name), [u])

/-! ### parsing a `-forwarder` value and `Forwarders.Set` -/

def isSpace (b : UInt8) : Bool := b == 32 || (9 ≤ b && b ≤ 13)

def trimLeft : Bytes → Bytes
  | [] => []
  | b :: bs => if isSpace b then trimLeft bs else b :: bs

def trimSpace (s : Bytes) : Bytes := (trimLeft (trimLeft s).reverse).reverse

/-- split at the first '=' (Go `strings.IndexByte(v, '=')`): `none` when there is none -/
def splitEq : Bytes → Option (Bytes × Bytes)
  | [] => none
  | b :: bs =>
    if b == eqs then some ([], bs)
    else match splitEq bs with
      | none => none
      | some (l, r) => some (b :: l, r)

/-- Go `newResolver` minus `resolver.New`: (Domain, addr) -/
def newResolver (v : Bytes) : Bytes × Bytes :=
  match splitEq v with
  | none => ([], v)
  | some (l, r) => (fqdn (trimSpace l), trimSpace r)

/-- Go `Forwarders.Set` on (Domain, addr) pairs: replace the first entry with the same Domain
(byte-exact `==`), else append -/
def setPair : List (Bytes × Bytes) → Bytes × Bytes → List (Bytes × Bytes)
  | [], r => [r]
  | x :: xs, r => if r.1 == x.1 then r :: xs else x :: setPair xs r

def setAll (vs : List Bytes) : List (Bytes × Bytes) := vs.foldl (fun acc v => setPair acc (newResolver v)) []

/-- number the entries: upstream identity = position in the list -/
def number (ps : List (Bytes × Bytes)) (start : Nat := 0) : List Fw :=
  match ps with
  | [] => []
  | p :: rest => { domain := p.1, addr := p.2, up := start } :: number rest (start + 1)

/-- Go `Resolver.String` -/
def fwString (f : Fw) : Bytes := if f.domain ≠ [] then f.domain ++ eqs :: f.addr else f.addr

/-! ### specification vocabulary: absolute names as label lists -/

/-- the text of an absolute name with labels `ls` (each label followed by a dot) -/
def render (ls : List Bytes) : Bytes := ls.flatMap (· ++ [dot])

/-- … the root name is written "." -/
def absName (ls : List Bytes) : Bytes := if ls = [] then [dot] else render ls

/-- label-wise suffix under ASCII case folding: `dl` names `nl` itself or an ancestor of it -/
def labelSuffix (dl nl : List Bytes) : Bool := (dl.map lower).isSuffixOf (nl.map lower)

/-- labels as they occur in names: non-empty, no '.' inside -/
def WF (ls : List Bytes) : Prop := ∀ l ∈ ls, l ≠ [] ∧ dot ∉ l

end NV.Fwd
