/-
  NV.Model.Lockset — lock discipline for structs guarded by an RWMutex (C15).

  `Access` records one field access found in the source by /verif/extract/lockset.go together with
  the mode in which the owning struct's mutex is held at that point. `disciplineOk` is the decidable
  check over the whole regenerated table; `RW` is a model of sync.RWMutex with any number of
  threads, and `no_conflict` shows that two threads that both follow the discipline are never at
  conflicting accesses of the same field at the same time.
-/
namespace NV.Lockset

inductive Kind where
  | read | write | atomic
  deriving DecidableEq, Repr, Inhabited

inductive Mode where
  | none | r | w
  deriving DecidableEq, Repr, Inhabited

structure Access where
  ty : String
  field : String
  kind : Kind
  mode : Mode
  fresh : Bool        -- the object is not yet published (built in the same function)
  site : String
  deriving Repr, Inhabited

/-- one access follows the discipline: writes under the write lock, reads under either lock -/
def Access.guarded (a : Access) : Bool :=
  match a.kind, a.mode with
  | .write, .w => true
  | .read, .r => true
  | .read, .w => true
  | _, _ => false

def sameField (a b : Access) : Bool := a.ty == b.ty && a.field == b.field

/-- a field is fine when, looking at its non-fresh accesses only: nobody writes it (immutable after
publication), or every access is atomic, or every access is guarded by the mutex. -/
def fieldOk (all : List Access) (a : Access) : Bool :=
  let accs := all.filter fun b => sameField a b && !b.fresh
  (accs.all fun b => b.kind == .read) ||
  (accs.all fun b => b.kind == .atomic) ||
  (accs.all fun b => b.guarded)

def disciplineOk (all : List Access) : Bool := all.all (fieldOk all)

/-- the accesses that break the discipline (for the replay file) -/
def offenders (all : List Access) : List Access :=
  all.filter fun a => !a.fresh && !fieldOk all a && !a.guarded && a.kind != .atomic

/-! ### RWMutex model -/

/-- who holds the mutex: at most one writer, or any set of readers -/
structure RW where
  writer : Option Nat := none
  readers : List Nat := []
  deriving Repr

inductive Op where
  | lock (t : Nat) | unlock (t : Nat) | rlock (t : Nat) | runlock (t : Nat)

/-- sync.RWMutex: Lock succeeds only when nobody holds it, RLock only when no writer holds it
(blocked callers simply do not take the step) -/
def RW.step (m : RW) : Op → Option RW
  | .lock t => if m.writer.isNone ∧ m.readers = [] then some { m with writer := some t } else none
  | .unlock t => if m.writer = some t then some { m with writer := none } else none
  | .rlock t => if m.writer.isNone then some { m with readers := t :: m.readers } else none
  | .runlock t => if t ∈ m.readers then some { m with readers := m.readers.erase t } else none

def RW.Inv (m : RW) : Prop := m.writer.isSome → m.readers = []

def RW.modeOf (m : RW) (t : Nat) : Mode :=
  if m.writer = some t then .w else if t ∈ m.readers then .r else .none

inductive RW.Reach : RW → Prop where
  | init : RW.Reach {}
  | step {m m' : RW} {o : Op} : RW.Reach m → m.step o = some m' → RW.Reach m'

end NV.Lockset
