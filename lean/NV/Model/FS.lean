/-
  NV.Model.FS — file-system protocol of system-DNS activation (property C19).

  Anchors: host/dns_resolvconf.go (`setupResolvConf`, `writeTempResolvConf`),
           host/dns_linux.go (`SetDNS`, `ResetDNS`), activate.go (callers).

  State.  Three managed names in /etc
      live = /etc/resolv.conf   bak = /etc/resolv.conf.nextdns-bak   tmp = /etc/resolv.conf.nextdns-tmp
  each `absent | file bytes | symlink target-text`, plus `ext`: the regular files that symlink
  targets resolve to (target text ↦ content; a target that is not listed dangles).  The modelled code
  never writes through a symlink, so `ext` only changes by an explicit environment event (a reboot
  clearing /run, systemd-resolved rewriting its stub file, …).

  Operations are modelled the way the Go code performs them: from the state found, `setup` / `reset`
  compute the SEQUENCE of system calls that touch the three names (non-mutating ones included, because
  the crash harness counts them); a crash is a prefix of that sequence.

  Assumptions about external calls (checked by the jail correspondence, not proved):
   * each `fmt.Fprintln/Fprintf(tmp, …)` is exactly one write(2) that appends its whole argument
     (unbuffered *os.File, regular file, no ENOSPC/EIO — write errors are IGNORED by the Go code, see
     the note at `setup`);
   * rename(2) is atomic and replaces the destination; rename of a missing source fails with ENOENT and
     changes nothing; unlink of a missing name changes nothing; os.Remove = unlink, then rmdir when
     unlink failed; os.Create = open(O_CREAT|O_TRUNC);
   * none of the three names is a directory, all live on one file system, no other process touches
     them between two system calls of one operation, stat/lstat fail only with ENOENT;
   * bufio.Scanner with the default 64 KiB limit and bufio.ScanLines; strings.TrimSpace /
     strings.Fields use unicode.IsSpace on UTF-8 decoded runes (modelled exactly for ALL byte strings
     through the finite list of encodings of the White_Space runes, `wsSeqs`);
   * NetworkManager's conf.d directory is absent (the jail has none), so
     disable/restoreNetworkManagerResolver return nil without touching anything.
-/
import NV.Model.Wire
namespace NV.FS

def asc (s : String) : Bytes := s.toList.map (fun c => UInt8.ofNat c.toNat)

/-! ### rendering: lines, TrimSpace, the keep/drop test -/

/-- bufio.ScanLines tokens before `\r` removal: the bytes between newlines; a final unterminated
    non-empty remainder is a token, an empty remainder is not. -/
def rawLines : Bytes → List Bytes
  | [] => []
  | c :: cs =>
    if c = 10 then [] :: rawLines cs
    else match rawLines cs with
      | [] => [[c]]
      | l :: ls => (c :: l) :: ls

/-- bufio.dropCR: one trailing `\r` is removed from a token -/
def dropCR (l : Bytes) : Bytes := if l.getLast? = some 13 then l.dropLast else l

/-- UTF-8 encodings of the runes for which Go's `unicode.IsSpace` is true:
    \t \n \v \f \r space, U+0085, U+00A0, U+1680, U+2000–U+200A, U+2028, U+2029, U+202F, U+205F, U+3000.
    utf8.DecodeRune / DecodeLastRune return one of these runes exactly when the string starts / ends with
    its (shortest-form) encoding; every other byte sequence decodes to a non-space rune or RuneError. -/
def wsSeqs : List Bytes :=
  [[9], [10], [11], [12], [13], [32], [0xC2, 0x85], [0xC2, 0xA0], [0xE1, 0x9A, 0x80],
   [0xE2, 0x80, 0x80], [0xE2, 0x80, 0x81], [0xE2, 0x80, 0x82], [0xE2, 0x80, 0x83], [0xE2, 0x80, 0x84],
   [0xE2, 0x80, 0x85], [0xE2, 0x80, 0x86], [0xE2, 0x80, 0x87], [0xE2, 0x80, 0x88], [0xE2, 0x80, 0x89],
   [0xE2, 0x80, 0x8A], [0xE2, 0x80, 0xA8], [0xE2, 0x80, 0xA9], [0xE2, 0x80, 0xAF], [0xE2, 0x81, 0x9F],
   [0xE3, 0x80, 0x80]]

def wsSeqsRev : List Bytes := wsSeqs.map List.reverse

/-- the member of `seqs` the list starts with, if any -/
def startsWith (seqs : List Bytes) (l : Bytes) : Option Bytes := seqs.find? (fun w => w.isPrefixOf l)

/-- strip leading members of `seqs` (fuel = length suffices, `NV.FS.stripF_clean`) -/
def stripF (seqs : List Bytes) : Nat → Bytes → Bytes
  | 0, l => l
  | n + 1, l =>
    match startsWith seqs l with
    | none => l
    | some w => stripF seqs n (l.drop w.length)

def trimLeft (l : Bytes) : Bytes := stripF wsSeqs l.length l
def trimRight (l : Bytes) : Bytes := (stripF wsSeqsRev l.length l.reverse).reverse
/-- strings.TrimSpace -/
def trim (l : Bytes) : Bytes := trimRight (trimLeft l)

def kwNameserver : Bytes := asc "nameserver"

/-- the two forms of the nameserver test.  `nsFields = false`: the code as found,
    `strings.HasPrefix(line, "nameserver ")`.  `nsFields = true`: the repaired code,
    `strings.Fields(line)[0] == "nameserver"` on a trimmed non-empty line: the first field ends at the
    first white-space rune, and "nameserver" is ASCII, so the test holds iff the line is the keyword
    alone or the keyword followed by the encoding of a white-space rune. -/
def isNsLine (nsFields : Bool) (line : Bytes) : Bool :=
  if nsFields then
    line.take 10 == kwNameserver && (line.length == 10 || (startsWith wsSeqs (line.drop 10)).isSome)
  else
    line.take 11 == kwNameserver ++ [32]

/-- which variant of the two repaired decisions the code has (regenerated from the source by
    extract/resolv.go and tied in NV.C19.gen_variant_agree) -/
structure Variant where
  /-- backup existence test does not follow symlinks (os.Lstat) -/
  lstat : Bool
  /-- nameserver test on the first white-space separated field -/
  nsFields : Bool
  deriving DecidableEq, Repr

/-- the code as found (os.Stat; prefix "nameserver ") -/
def Variant.found : Variant := ⟨false, false⟩
/-- the current (repaired) code: os.Lstat; first field = "nameserver".  The driver runs this one. -/
def Variant.cur : Variant := ⟨true, true⟩

/-- a scanned, trimmed line is copied to the staging file -/
def keeps (v : Variant) (line : Bytes) : Bool :=
  !(line.isEmpty || line.head? == some 35 || isNsLine v.nsFields line)

/-- bufio.MaxScanTokenSize: a token of this many bytes (before the newline) makes Scan stop with
    ErrTooLong -/
def maxToken : Nat := 65536

/-- lines the scanner delivers, and whether it stopped with ErrTooLong -/
def scan (content : Bytes) : List Bytes × Bool :=
  let ls := rawLines content
  let good := ls.takeWhile (fun l => l.length < maxToken)
  (good.map dropCR, good.length < ls.length)

def header : List Bytes :=
  [asc "# This file is managed by nextdns.", asc "#",
   asc "# Run \"nextdns deactivate\" to restore previous configuration.", []]

def nsLine (dns : Bytes) : Bytes := asc "nameserver " ++ dns

/-- the chunks written to the staging file, one write(2) each -/
def chunks (v : Variant) (content dns : Bytes) : List Bytes :=
  (header ++ ((scan content).1.map trim).filter (keeps v) ++ [nsLine dns]).map (· ++ [10])

/-- the complete staging file -/
def render (v : Variant) (content dns : Bytes) : Bytes := (chunks v content dns).flatten

/-! ### file system -/

inductive Node where
  | absent
  | file (b : Bytes)
  | symlink (t : Bytes)
  deriving DecidableEq, Repr, Inhabited

inductive Path where
  | live | bak | tmp
  deriving DecidableEq, Repr

structure FS where
  live : Node
  bak : Node
  tmp : Node
  ext : List (Bytes × Bytes)
  deriving DecidableEq, Repr

def FS.get (s : FS) : Path → Node
  | .live => s.live
  | .bak => s.bak
  | .tmp => s.tmp

def FS.set (s : FS) (p : Path) (n : Node) : FS :=
  match p with
  | .live => { s with live := n }
  | .bak => { s with bak := n }
  | .tmp => { s with tmp := n }

/-- content seen by open(2)/stat(2) through one symlink level (targets are regular files of `ext`) -/
def readThrough (s : FS) : Node → Option Bytes
  | .absent => none
  | .file b => some b
  | .symlink t => (s.ext.find? (fun e => e.1 == t)).map (·.2)

/-- system-call families; strace's injection counter runs per family -/
inductive Kind where
  | open | unlink | write | rename
  deriving DecidableEq, Repr

inductive Prim where
  | openRead (p : Path)
  | unlink (p : Path)
  | rmdir (p : Path)
  | creat (p : Path)
  | append (p : Path) (chunk : Bytes)
  | rename (src dst : Path)
  deriving DecidableEq, Repr

def Prim.kind : Prim → Kind
  | .openRead _ => .open
  | .creat _ => .open
  | .unlink _ => .unlink
  | .rmdir _ => .unlink
  | .append _ _ => .write
  | .rename _ _ => .rename

def apply (s : FS) : Prim → FS
  | .openRead _ => s
  | .rmdir _ => s                       -- no directories in the domain: ENOENT / ENOTDIR
  | .unlink p => s.set p .absent
  | .creat p =>
    match s.get p with
    | .symlink _ => s                   -- would write through the link; never reached (unlink precedes)
    | _ => s.set p (.file [])
  | .append p c =>
    match s.get p with
    | .file b => s.set p (.file (b ++ c))
    | _ => s
  | .rename a b =>
    match s.get a with
    | .absent => s                      -- ENOENT
    | n => (s.set b n).set a .absent

def applyAll (s : FS) (ps : List Prim) : FS := ps.foldl apply s

inductive Status where
  | ok | errOpen | errScan
  deriving DecidableEq, Repr

/-- does the backup "exist" for setupResolvConf?  os.Stat follows a symlink (a dangling backup link
    counts as missing); os.Lstat looks at the name itself. -/
def bakExists (v : Variant) (s : FS) : Bool :=
  if v.lstat then s.bak != .absent else (readThrough s s.bak).isSome

/-- host.SetDNS → setupResolvConf(dns) → writeTempResolvConf.
    The error results of the writes are ignored by the Go code (fmt.Fprintln's return values are
    dropped and Close is deferred unchecked): under the no-write-error assumption above the staging file
    is complete when it is renamed. -/
def setup (v : Variant) (s : FS) (dns : Bytes) : List Prim × Status :=
  match readThrough s s.live with
  | none => ([.openRead .live], .errOpen)
  | some content =>
    let pre : List Prim :=
      [.openRead .live, .unlink .tmp] ++ (if s.tmp = .absent then [.rmdir .tmp] else []) ++ [.creat .tmp]
        ++ (chunks v content dns).map (.append .tmp)
    if (scan content).2 then (pre, .errScan)
    else (pre ++ (if bakExists v s then [] else [.rename .live .bak]) ++ [.rename .tmp .live], .ok)

/-- host.ResetDNS: rename(bak, live); ENOENT is success -/
def reset (_s : FS) : List Prim × Status := ([.rename .bak .live], .ok)

/-! ### crashes and histories -/

/-- kill on entry of the `j`-th (1-based) system call of family `kind` -/
structure Crash where
  kind : Kind
  j : Nat
  deriving DecidableEq, Repr

/-- the calls performed before the kill (all of them when the `j`-th call is never reached) -/
def cutAt (k : Kind) : Nat → List Prim → List Prim
  | _, [] => []
  | j, p :: ps =>
    if p.kind = k then
      (if j ≤ 1 then [] else p :: cutAt k (j - 1) ps)
    else p :: cutAt k j ps

def cut (ps : List Prim) : Option Crash → List Prim
  | none => ps
  | some c => cutAt c.kind c.j ps

/-- was the process killed (the crash point exists in the sequence)? -/
def killed (ps : List Prim) : Option Crash → Bool
  | none => false
  | some c => c.j ≥ 1 && (ps.filter (fun p => p.kind = c.kind)).length ≥ c.j

/-- Fault model OUTSIDE the property's quantifier (recorded finding): every write(2) from the `j`-th on
    fails (ENOSPC).  The Go code drops the results of fmt.Fprintln/Fprintf, so all remaining calls are
    still issued and the operation reports success. -/
def failWrites : Nat → List Prim → List Prim
  | _, [] => []
  | j, p :: ps =>
    if p.kind = .write then
      (if j ≤ 1 then failWrites 1 ps else p :: failWrites (j - 1) ps)
    else p :: failWrites j ps

inductive Ev where
  | act (dns : Bytes) (crash : Option Crash)
  | deact (crash : Option Crash)
  | env (ext : List (Bytes × Bytes))
  deriving Repr

def stepEv (v : Variant) (s : FS) : Ev → FS
  | .act dns c => applyAll s (cut (setup v s dns).1 c)
  | .deact c => applyAll s (cut (reset s).1 c)
  | .env e => { s with ext := e }

def run (v : Variant) (s : FS) (evs : List Ev) : FS := evs.foldl (stepEv v) s

end NV.FS
