/-
  NV.Model.Upstream — what one client query costs and yields under upstream faults (C03).

  * `dns53Loop` : the read loop of `DNS53.resolve` (resolver/dns53.go) as a fold over the
    datagrams that arrive on the connected UDP socket, each with its arrival time, under the
    socket deadline `D` (`c.SetDeadline(ctx.Deadline())`): datagrams shorter than 2 bytes and
    datagrams whose first two bytes are not the query ID are skipped; the first other one is the
    answer; when none arrives before `D` the read fails at time `D`.
  * `readBody` : `readDNSResponse` (resolver/doh.go) as a fold over the `(bytes, err)` results of
    `Body.Read` into a buffer of `L` bytes.
  * `dohOutcome` : `DOH.resolve` after the cache miss: transport error, status, body.
  Times are natural numbers (milliseconds); the model clock is exact, the implementation's is
  measured by the correspondence harness.
-/
import NV.Model.Reply
namespace NV

/-- a datagram arriving at time `at` (ms after the query was sent) -/
structure Arrival where
  time : Nat
  data : Bytes
  deriving Repr, DecidableEq, Inhabited

/-- result of the DNS53 read loop: the answer and its arrival time, or a timeout at `D` -/
inductive Dns53Res where
  | answer (time : Nat) (data : Bytes)
  | timeout (time : Nat)
  deriving Repr, DecidableEq, Inhabited

/-- arrivals are taken in order; those at or after the deadline are never read -/
def dns53Loop (id : Nat) (deadline : Nat) : List Arrival → Dns53Res
  | [] => .timeout deadline
  | a :: rest =>
    if a.time ≥ deadline then .timeout deadline
    else if a.data.length < 2 then dns53Loop id deadline rest
    else if rd16 a.data 0 ≠ id then dns53Loop id deadline rest
    else .answer a.time a.data

def Dns53Res.time : Dns53Res → Nat
  | .answer t _ => t
  | .timeout t => t

def Dns53Res.outcome : Dns53Res → Outcome
  | .answer _ d => .bytes d
  | .timeout _ => .error

/-- one `Body.Read` result -/
inductive ReadEv where
  | data (b : Bytes)          -- n > 0 bytes, err = nil
  | eof (b : Bytes)           -- final bytes together with io.EOF (b may be empty)
  | fail                      -- a read error (reset, deadline, RST_STREAM …)
  deriving Repr, DecidableEq, Inhabited

/-- `readDNSResponse(r, buf)` with `len(buf) = L`: accumulated bytes (cut at L), truncated flag,
or an error. A body that ends without EOF event is modelled by the list ending: treated as EOF. -/
def readBody (L : Nat) : List ReadEv → Bytes → Except Unit (Bytes × Bool)
  | [], acc => .ok (acc, false)
  | .fail :: _, _ => .error ()
  | .eof b :: _, acc => .ok ((acc ++ b).take L, false)
  | .data b :: rest, acc =>
    let acc' := acc ++ b
    if acc'.length ≥ L then .ok (acc'.take L, true) else readBody L rest acc'

/-- what the upstream did for one DoH request -/
inductive DohFault where
  | transportError                 -- refuse, reset, TLS failure, hang until the deadline
  | status (code : Nat) (body : List ReadEv)
  deriving Repr, Inhabited

/-- `DOH.resolve` (cache disabled or missed; MaxTTL = 0): the handler-level outcome -/
def dohOutcome (L : Nat) : DohFault → Outcome
  | .transportError => .error
  | .status code body =>
    if code ≠ 200 then .error
    else match readBody L body [] with
      | .error _ => .error
      | .ok (b, truncated) => .bytes (if truncated then setTC b else b)


/-! ### the DoH transport's connection pool (http.Transport of newTransportH2)

A request with no usable idle connection starts a dial of its own. A dial whose peer accepts TCP
but never answers the TLS ClientHello is not abandoned when its request gives up (net/http keeps
it for later requests) and — without a handshake timeout — never ends: it holds its slot for
ever. `limit = none` is an unbounded pool (`MaxConnsPerHost` unset / 0). -/

structure ConnPool where
  limit : Option Nat      -- MaxConnsPerHost (none = unlimited)
  hung  : Nat             -- dials stuck in their handshake, each holding a slot for ever
  deriving Repr, DecidableEq

/-- may a new request start a dial of its own? -/
def ConnPool.canDial (p : ConnPool) : Bool :=
  match p.limit with
  | none => true
  | some l => decide (p.hung < l)

/-- one request against an upstream that is `healthy` for NEW connections or hangs them in the
handshake (`hang`): result (answered?) and the pool afterwards -/
def ConnPool.request (p : ConnPool) (healthy : Bool) : Bool × ConnPool :=
  if !p.canDial then (false, p)                              -- waits for a slot until its deadline
  else if healthy then (true, p)                             -- fresh connection, answered
  else (false, { p with hung := p.hung + 1 })                -- this dial hangs, the request times out

def ConnPool.run (p : ConnPool) : List Bool → List Bool × ConnPool
  | [] => ([], p)
  | h :: hs =>
    let (a, p') := p.request h
    let (as, p'') := p'.run hs
    (a :: as, p'')

end NV
