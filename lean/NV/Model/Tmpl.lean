/-
  NV.Model.Tmpl — interpreter for the subset of Go `text/template` used by router/*/setup.go:

      text, {{.Field}}, {{if .Field}}, {{else}}, {{end}}, with the trim markers `{{- ` and ` -}}`.

  What the Go engine does for this subset (text/template/parse/lex.go, exec.go), and what is modelled:
  * text up to the next `{{`; a left delimiter immediately followed by `-` and a space character
    (" \t\r\n") trims the trailing space characters of the preceding text and consumes the two
    marker bytes; a right delimiter preceded by a space character and `-` trims the leading space
    characters of the following text;
  * inside an action space characters separate words; accepted bodies are `.Ident`, `if .Ident`,
    `else`, `end`.  An empty action, an unclosed action or unbalanced if/else/end is an error.
    Everything else the real engine knows (pipelines, range, with, variables, comments, numbers,
    chained fields, `else if`) is reported as `unsupported` — the harness never generates it and a
    repository template using it makes the C20 theorems fail instead of being mis-modelled;
  * execution: `.F` prints a string field raw and a bool as `true`/`false`; `if .F` tests a bool or
    the non-emptiness of a string; a field that is not an exported field of the data struct is an
    execution error, but only when the action is actually executed (Go evaluates lazily).
  Parse errors and execution errors are both rendered as `err` (internal.WriteTemplate returns an
  error in both cases; the partially written file of an execution error is not modelled because no
  repository template can fail: `NV.C20.templates_render`).

  Everything is structurally recursive (fuel = input length for the lexer) so that `decide` can
  evaluate renders of the regenerated templates in the kernel.
-/
import NV.Model.Wire
namespace NV

/-- `b!"text"` : the UTF-8 bytes of a string literal as an explicit `List UInt8` literal, expanded at
elaboration time (kernel evaluation of `String` functions on literals is far too slow for `decide`). -/
macro:max "b!" x:str : term => do
  let bytes := x.getString.toUTF8.toList
  let elems ← bytes.toArray.mapM fun b => `(($(Lean.quote b.toNat) : UInt8))
  `(([$elems,*] : List UInt8))

end NV
namespace NV.Tmpl
open NV

inductive Val where
  | str (b : Bytes)
  | bool (b : Bool)
  deriving DecidableEq, Repr

abbrev Env := Bytes → Option Val

inductive Tok where
  | text (b : Bytes)
  | field (n : Bytes)
  | ifF (n : Bytes)
  | els
  | end_
  | bad            -- outside the modelled subset
  deriving DecidableEq, Repr

inductive Res where
  | ok (b : Bytes)
  | err
  | unsupported
  deriving DecidableEq, Repr

def lb : UInt8 := 123   -- '{'
def rb : UInt8 := 125   -- '}'
def dash : UInt8 := 45  -- '-'
def dot : UInt8 := 46

/-- Go `isSpace` of the template lexer: " \t\r\n" -/
def isSp (c : UInt8) : Bool := c = 32 || c = 9 || c = 13 || c = 10

/-- split at the first occurrence of the two-byte delimiter `d d`: (before, some after) -/
def splitAt2 (d : UInt8) : Bytes → Bytes × Option Bytes
  | [] => ([], none)
  | c :: rest =>
    if c = d ∧ rest.head? = some d then ([], some rest.tail)
    else let r := splitAt2 d rest; (c :: r.1, r.2)

def dropSp : Bytes → Bytes
  | [] => []
  | c :: rest => if isSp c then dropSp rest else c :: rest

/-- strings.TrimRight(s, " \t\r\n") -/
def trimRightSp (b : Bytes) : Bytes := (dropSp b.reverse).reverse

/-- words of an action body: maximal runs of non-space bytes -/
def wordsAux : Bytes → Bytes → List Bytes
  | [], cur => if cur.isEmpty then [] else [cur]
  | c :: rest, cur =>
    if isSp c then (if cur.isEmpty then wordsAux rest [] else cur :: wordsAux rest [])
    else wordsAux rest (cur ++ [c])

def words (b : Bytes) : List Bytes := wordsAux b []

def isAlpha (c : UInt8) : Bool := (65 ≤ c && c ≤ 90) || (97 ≤ c && c ≤ 122) || c = 95
def isDigit (c : UInt8) : Bool := 48 ≤ c && c ≤ 57

/-- `.Ident` with an ASCII identifier that does not start with a digit -/
def fieldName (w : Bytes) : Option Bytes :=
  match w with
  | d :: c :: rest =>
    if d = dot ∧ isAlpha c ∧ rest.all (fun x => isAlpha x || isDigit x) then some (c :: rest) else none
  | _ => none

/-- classify an action body; `none` = the engine reports an error (empty action) -/
def classify (ws : List Bytes) : Option Tok :=
  match ws with
  | [] => none
  | [w] =>
    if w = b!"end" then some .end_
    else if w = b!"else" then some .els
    else match fieldName w with
      | some n => some (.field n)
      | none => some .bad
  | [k, w] =>
    if k = b!"if" then
      match fieldName w with
      | some n => some (.ifF n)
      | none => some .bad
    else some .bad
  | _ => some .bad

def textTok (b : Bytes) : List Tok := if b.isEmpty then [] else [.text b]

/-- the body ends with a space character followed by `-`: right trim marker -/
def stripRightMarker (inner : Bytes) : Bytes × Bool :=
  match inner.reverse with
  | d :: sp :: rest => if d = dash ∧ isSp sp then (rest.reverse, true) else (inner, false)
  | _ => (inner, false)

def hasLeftMarker (after : Bytes) : Bool :=
  match after with
  | d :: sp :: _ => d = dash && isSp sp
  | _ => false

/-- lexer; `none` = lexical/parse error.  `trimL` = the previous action ended with ` -}}`. -/
def lexAux : Nat → Bytes → Bool → Option (List Tok)
  | 0, _, _ => none
  | n + 1, inp, trimL =>
    let inp := if trimL then dropSp inp else inp
    match splitAt2 lb inp with
    | (txt, none) => some (textTok txt)
    | (txt, some after) =>
      let lt := hasLeftMarker after
      let txt' := if lt then trimRightSp txt else txt
      let after' := if lt then after.drop 2 else after
      match splitAt2 rb after' with
      | (_, none) => none
      | (inner, some rest) =>
        let im := stripRightMarker inner
        match classify (words im.1) with
        | none => none
        | some tok =>
          match lexAux n rest im.2 with
          | none => none
          | some more => some (textTok txt' ++ tok :: more)

def lex (t : Bytes) : Option (List Tok) := lexAux (t.length + 1) t false

structure Frame where
  live : Bool      -- the enclosing context is being executed
  cond : Bool
  inElse : Bool
  deriving DecidableEq, Repr

def Frame.active (f : Frame) : Bool := f.live && (f.cond != f.inElse)

def active : List Frame → Bool
  | [] => true
  | f :: _ => f.active

def truthy : Val → Bool
  | .str b => !b.isEmpty
  | .bool b => b

def printVal : Val → Bytes
  | .str b => b
  | .bool true => b!"true"
  | .bool false => b!"false"

abbrev XS := List Frame × Bytes

/-- one token of execution; `none` = error -/
def stepTok (env : Env) (st : XS) : Tok → Option XS
  | .text t => some (st.1, if active st.1 then st.2 ++ t else st.2)
  | .field n =>
    if active st.1 then
      match env n with
      | some v => some (st.1, st.2 ++ printVal v)
      | none => none
    else some st
  | .ifF n =>
    if active st.1 then
      match env n with
      | some v => some ({ live := true, cond := truthy v, inElse := false } :: st.1, st.2)
      | none => none
    else some ({ live := false, cond := false, inElse := false } :: st.1, st.2)
  | .els =>
    match st.1 with
    | [] => none
    | f :: r => if f.inElse then none else some ({ f with inElse := true } :: r, st.2)
  | .end_ =>
    match st.1 with
    | [] => none
    | _ :: r => some (r, st.2)
  | .bad => none

def runToks (env : Env) : List Tok → XS → Option XS
  | [], st => some st
  | t :: ts, st =>
    match stepTok env st t with
    | none => none
    | some st' => runToks env ts st'

/-- balanced if/else/end (what the Go parser checks before anything is executed) -/
def balanced : List Tok → List Bool → Bool
  | [], st => st.isEmpty
  | .ifF _ :: ts, st => balanced ts (false :: st)
  | .els :: ts, st =>
    match st with
    | [] => false
    | e :: r => !e && balanced ts (true :: r)
  | .end_ :: ts, st =>
    match st with
    | [] => false
    | _ :: r => balanced ts r
  | _ :: ts, st => balanced ts st

def execToks (toks : List Tok) (env : Env) : Res :=
  if toks.any (· = .bad) then .unsupported
  else if !balanced toks [] then .err
  else match runToks env toks ([], []) with
    | some (_, out) => .ok out
    | none => .err

def render (t : Bytes) (env : Env) : Res :=
  match lex t with
  | none => .err
  | some toks => execToks toks env

end NV.Tmpl
