/-
  NV.Model.CacheTTL — STAND-IN for the TTL arithmetic of resolver/cache.go
  (`cacheValue.AdjustedResponse`, `updateTTL`, `skipName`), used only to instantiate the abstract
  `NV.Cache.TTLFn` in the line-protocol driver so that reply bytes can be compared with the real
  code at history level.  The wire-level half of C07 (another module, NV.Model.TTL) owns the
  theorems about this arithmetic; nothing in NV.Props.C06 depends on the definitions below
  (all C06 theorems quantify over an arbitrary `TTLFn`).  The integrator may replace `stdTTL` by
  the equivalent instance built from NV.Model.TTL.

  It is nevertheless written statement by statement after the Go code (in-place update that
  survives an early `return 0`, uint16 wrap of the RR count, OPT skipped, min before clamp).
-/
import NV.Model.Cache
namespace NV.CacheTTL
open NV

/-- resolver/cache.go `skipName(msg)` on the sub-slice starting at `base`; 0 = invalid -/
def skipNameAux (m : Bytes) (base : Nat) : Nat → Nat → Nat
  | 0, _ => 0
  | f + 1, o =>
    if base + o ≥ m.length then 0
    else
      let c := byteAt m (base + o)
      let o1 := o + 1
      if c / 64 = 0 then
        if c = 0 then o1
        else
          let o2 := o1 + c
          if base + o2 > m.length then 0 else skipNameAux m base f o2
      else if c / 64 = 3 then o1 + 1
      else 0

def skipName (m : Bytes) (base : Nat) : Nat := skipNameAux m base (m.length + 1) 0

def skipQuestions (m : Bytes) : Nat → Nat → Option Nat
  | 0, off => some off
  | n + 1, off =>
    if off ≥ m.length then none
    else
      let l := skipName m off
      if l = 0 then none
      else
        let off := off + l + 4
        if off > m.length then none else skipQuestions m n off

def u32max : Nat := 4294967295

/-- the RR loop; returns the (partially) updated message and `none` for an early `return 0` -/
def rrLoop (age maxAge maxTTL addIdx : Nat) : Nat → Nat → Bytes → Nat → Nat → Bytes × Option Nat
  | 0, _, m, _, mn => (m, some mn)
  | n + 1, i, m, off, mn =>
    if off ≥ m.length then (m, some mn)
    else
      let l := skipName m off
      if l = 0 then (m, none)
      else
        let off := off + l + 10
        if off > m.length then (m, none)
        else
          let ty := rd16 m (off - 10)
          let upd : Bytes × Nat :=
            if ty ≠ 41 then
              let ttl0 := rd32 m (off - 6)
              let ttl := if age > ttl0 then 0 else ttl0 - age
              let mn :=
                if i < addIdx then
                  if maxAge > 0 ∧ age > maxAge then 0 else if mn > ttl then ttl else mn
                else mn
              let ttl := if maxTTL > 0 ∧ ttl > maxTTL then maxTTL else ttl
              (setBytes m (off - 6) (be32 ttl), mn)
            else (m, mn)
          let m := upd.1
          let mn := upd.2
          let rdlen := rd16 m (off - 2)
          let off := off + rdlen
          if off > m.length then (m, none)
          else rrLoop age maxAge maxTTL addIdx n (i + 1) m off mn

/-- `updateTTL(msg, age, maxAge, maxTTL)`: (msg after the in-place update, minTTL) -/
def updateTTL (msg : Bytes) (age maxAge maxTTL : Nat) : Bytes × Nat :=
  if msg.length < 12 then (msg, 0)
  else
    let questions := rd16 msg 4
    let answers := rd16 msg 6
    let authorities := rd16 msg 8
    let additionals := rd16 msg 10
    match skipQuestions msg questions 12 with
    | none => (msg, 0)
    | some off =>
      let rrCount := (answers + authorities + additionals) % 65536
      let addIdx := (answers + authorities) % 65536
      match rrLoop age maxAge maxTTL addIdx rrCount 0 msg off u32max with
      | (m, none) => (m, 0)
      | (m, some mn) => (m, if mn = u32max then 0 else mn)

/-- `cacheValue{msg}.AdjustedResponse(buf, id, maxAge, maxTTL, now)`: (`buf[:n]`, minTTL) -/
def adjusted (maxAge maxTTL : Nat) (msg : Bytes) (bufLen id age : Nat) : Bytes × Nat :=
  if msg.length < 12 then ([], 0)
  else if bufLen < msg.length then ([], 0)
  else updateTTL (setBytes msg 0 (be16 id)) age maxAge maxTTL

/-- the instance used by the driver -/
def stdTTL (maxAge maxTTL : Nat) : Cache.TTLFn where
  adjusted := adjusted maxAge maxTTL
  fresh := fun m => if maxTTL > 0 then (updateTTL m 0 0 maxTTL).1 else m

end NV.CacheTTL
