/-
  NV.Model.Query — resolver/query/query.go: `Query.parse` and `nutterECSOption`.

  `parse` is modelled with the additional-section loop as it is after the repair
  "skip non-OPT additional records" (see DESIGN.md §7 #1): every iteration either
  leaves the loop or consumes one additional record.  Fuel is explicit; that
  65537 units always suffice is theorem `NV.C02.parse_total`.
-/
import NV.Model.Parser
namespace NV

/-- at which stage `parse` returned an error (the `fmt.Errorf` prefix) -/
inductive Stage where
  | ok | query | question | additional | opt | skipAdditional
  deriving Repr, DecidableEq, Inhabited

def Stage.str : Stage → String
  | .ok => "ok" | .query => "query" | .question => "question" | .additional => "additional"
  | .opt => "opt" | .skipAdditional => "skipadd"

structure Query where
  id : Nat := 0
  cls : Nat := 0
  type : Nat := 0
  rd : Bool := false
  msgSize : Nat := 512
  name : Bytes := []
  /-- `none` = the socket peer address is kept -/
  peerIP : Option Bytes := none
  mac : Option Bytes := none
  payload : Bytes := []
  deriving Repr, DecidableEq, Inhabited

/-- `nutterECSOption(payload, o)` with `o.DataOffset = dataOff`.  `dataOff ≥ 4` always holds for
an option unpacked from a message (it follows a 12-byte header), so Go's `off < 0` never fires;
the model keeps the test for completeness on `Nat` (`dataOff < 4`). -/
def nutterECS (payload : Bytes) (dataOff : Nat) : Bytes :=
  if dataOff < 4 then payload
  else
    let off := dataOff - 4
    if off + 4 ≥ payload.length then payload
    else
      let size := byteAt payload (off + 3)
      let endOff := off + 4 + size
      if endOff > payload.length then payload
      else
        let p := setBytes payload dataOff (List.replicate (endOff - dataOff) 0)
        (p.set off 255).set (off + 1) 255

/-- Go `p[i] = v`; `none` = run-time panic "index out of range" -/
def setIdx? (p : Bytes) (i : Nat) (v : UInt8) : Option Bytes :=
  if i < p.length then some (p.set i v) else none

/-- Go `for i := a; i < a+n; i++ { p[i] = 0 }` with checked indexing -/
def zeroRange? : Bytes → Nat → Nat → Option Bytes
  | p, _, 0 => some p
  | p, i, n + 1 => (setIdx? p i 0).bind fun p => zeroRange? p (i + 1) n

/-- `nutterECSOption` with every index expression checked (reads and writes); `none` = panic.
`NV.C13.nutter_no_oob` proves it never panics and agrees with `nutterECS`. -/
def nutterECS? (payload : Bytes) (dataOff : Nat) : Option Bytes :=
  if dataOff < 4 then some payload
  else
    let off := dataOff - 4
    if off + 4 ≥ payload.length then some payload
    else if ¬ (off + 3 < payload.length) then none     -- payload[off+3]
    else
      let size := byteAt payload (off + 3)
      let endOff := off + 4 + size
      if endOff > payload.length then some payload
      else
        (zeroRange? payload dataOff (endOff - dataOff)).bind fun p =>
        (setIdx? p off 255).bind fun p => setIdx? p (off + 1) 255

/-- the `for _, o := range opt.Options` body -/
def applyOpts : List Opt → Query → Query
  | [], q => q
  | o :: os, q =>
    let q :=
      if o.code = 0xfde9 then { q with mac := some o.data }
      else if o.code = 8 then
        if o.data.length < 8 then q
        else
          let fam := byteAt o.data 1
          if fam = 1 then
            let q := if byteAt o.data 2 = 32 then { q with peerIP := some (slice o.data 4 4) } else q
            { q with payload := nutterECS q.payload o.dataOff }
          else if fam = 2 then
            let q := if byteAt o.data 2 = 128 ∧ o.data.length ≥ 20
                     then { q with peerIP := some (slice o.data 4 16) } else q
            { q with payload := nutterECS q.payload o.dataOff }
          else q
      else q
    applyOpts os q

/-- Go `b[i]` with the run-time bounds check; `none` = panic "index out of range" -/
def idx? (b : Bytes) (i : Nat) : Option Nat := if i < b.length then some (byteAt b i) else none

/-- Go `b[lo:hi]` with the run-time bounds check; `none` = panic "slice bounds out of range" -/
def slice? (b : Bytes) (lo hi : Nat) : Option Bytes :=
  if lo ≤ hi ∧ hi ≤ b.length then some (slice b lo (hi - lo)) else none

/-- one iteration of the option loop with every index expression on `o.Data` checked, written
statement by statement after resolver/query/query.go (the guard `len(o.Data) < 8 → continue`, then
`o.Data[1]`, `o.Data[2]`, `o.Data[4:8]`, `o.Data[4:20]`). `none` = the goroutine panics. -/
def applyOpt? (o : Opt) (q : Query) : Option Query :=
  if o.code = 0xfde9 then some { q with mac := some o.data }
  else if o.code = 8 then
    if o.data.length < 8 then some q
    else
      (idx? o.data 1).bind fun fam =>
      if fam = 1 then
        (idx? o.data 2).bind fun b2 =>
        (if b2 = 32 then (slice? o.data 4 8).map fun ip => { q with peerIP := some ip } else some q).map fun q =>
        { q with payload := nutterECS q.payload o.dataOff }
      else if fam = 2 then
        (idx? o.data 2).bind fun b2 =>
        (if b2 = 128 ∧ o.data.length ≥ 20 then (slice? o.data 4 20).map fun ip => { q with peerIP := some ip }
         else some q).map fun q =>
        { q with payload := nutterECS q.payload o.dataOff }
      else some q
  else some q

def applyOpts? : List Opt → Query → Option Query
  | [], q => some q
  | o :: os, q => (applyOpt? o q).bind (applyOpts? os)

inductive LoopRes where
  | outOfFuel
  | done (st : Stage) (q : Query)
  deriving Repr, DecidableEq, Inhabited

/-- the `for { h, err := p.AdditionalHeader() … }` loop -/
def parseLoop : Nat → Parser → Query → LoopRes
  | 0, _, _ => .outOfFuel
  | fuel + 1, p, q =>
    match p.resourceHeader 5 with
    | (.error .sectionDone, _) => .done .ok q
    | (.error _, _) => .done .additional q
    | (.ok h, p) =>
      if h.type = 41 then
        match p.optResource with
        | (.error _, _) => .done .opt q
        | (.ok opts, _) => .done .ok (applyOpts opts { q with msgSize := h.cls })
      else
        match p.skipResource 5 with
        | (.error _, _) => .done .skipAdditional q
        | (.ok (), p) => parseLoop fuel p q

def parseFuel (fuel : Nat) (payload : Bytes) : LoopRes :=
  let q0 : Query := { payload := payload }
  match Parser.start payload with
  | .error _ => .done .query q0
  | .ok p =>
    match p.question with
    | (.error _, _) => .done .question q0
    | (.ok qu, p) =>
      let q := { q0 with id := p.id, rd := (p.bits / 256) % 2 = 1, cls := qu.cls, type := qu.type,
                         name := qu.name }
      match Parser.skipAllFuel skipFuel Parser.skipQuestion p with
      | none => .outOfFuel
      | some (_, p) =>
      match Parser.skipAllFuel skipFuel (fun p => p.skipResource 3) p with
      | none => .outOfFuel
      | some (_, p) =>
      match Parser.skipAllFuel skipFuel (fun p => p.skipResource 4) p with
      | none => .outOfFuel
      | some (_, p) => parseLoop fuel p q

def parse (payload : Bytes) : LoopRes := parseFuel skipFuel payload

/-- resolver/doh.go `DOH.resolve`: `http.NewRequestWithContext(ctx, "POST", url,
bytes.NewReader(q.Payload))` — the request body is the (possibly rewritten) payload, nothing
else of the query is serialised into the body. -/
def dohPostBody (q : Query) : Bytes := q.payload

end NV
