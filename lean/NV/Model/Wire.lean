/-
  NV.Model.Wire — byte-level primitives shared by every wire-format model.

  Bytes are `List UInt8`.  All reads are total: `byteAt` returns 0 outside the
  list, and every model function that corresponds to a Go slice/index expression
  guards the access with the same length test the Go code performs (or, where
  the Go code performs none, returns `Except.error .panic`, so that "no panic"
  is a theorem and not an assumption).
-/
namespace NV

abbrev Bytes := List UInt8

@[inline] def byteAt (m : Bytes) (i : Nat) : Nat := (m.getD i 0).toNat

theorem byteAt_lt (m : Bytes) (i : Nat) : byteAt m i < 256 := by
  unfold byteAt; exact UInt8.toNat_lt _

/-- Go: `uint16(b[off])<<8 | uint16(b[off+1])` (no bounds test here). -/
@[inline] def rd16 (m : Bytes) (off : Nat) : Nat := byteAt m off * 256 + byteAt m (off + 1)

/-- Go: `uint32(b[0])<<24 | … | uint32(b[3])`. -/
@[inline] def rd32 (m : Bytes) (off : Nat) : Nat :=
  byteAt m off * 16777216 + byteAt m (off + 1) * 65536 + byteAt m (off + 2) * 256 + byteAt m (off + 3)

theorem rd16_lt (m : Bytes) (off : Nat) : rd16 m off < 65536 := by
  unfold rd16
  have h1 := byteAt_lt m off
  have h2 := byteAt_lt m (off + 1)
  omega

theorem rd32_lt (m : Bytes) (off : Nat) : rd32 m off < 4294967296 := by
  unfold rd32
  have h1 := byteAt_lt m off
  have h2 := byteAt_lt m (off + 1)
  have h3 := byteAt_lt m (off + 2)
  have h4 := byteAt_lt m (off + 3)
  omega

@[inline] def b8 (n : Nat) : UInt8 := UInt8.ofNat (n % 256)

/-- big-endian encodings (Go `packUint16` / `packUint32`) -/
def be16 (n : Nat) : Bytes := [b8 (n / 256), b8 n]
def be32 (n : Nat) : Bytes := [b8 (n / 16777216), b8 (n / 65536), b8 (n / 256), b8 n]

/-- `m[i] := v` when `i` is in range (Go assignment to an in-range index). -/
def setByte (m : Bytes) (i : Nat) (v : UInt8) : Bytes := m.set i v

/-- overwrite `vs` at `off` (all indexes assumed in range by the caller's guard) -/
def setBytes : Bytes → Nat → Bytes → Bytes
  | m, _, [] => m
  | m, off, v :: vs => setBytes (m.set off v) (off + 1) vs

@[simp] theorem setBytes_length (m : Bytes) (off : Nat) (vs : Bytes) :
    (setBytes m off vs).length = m.length := by
  induction vs generalizing m off with
  | nil => rfl
  | cons v vs ih => simp [setBytes, ih]

/-- `m[off:off+n]` -/
def slice (m : Bytes) (off n : Nat) : Bytes := (m.drop off).take n

@[simp] theorem slice_length (m : Bytes) (off n : Nat) (h : off + n ≤ m.length) :
    (slice m off n).length = n := by
  unfold slice; simp; omega

/-- hex rendering, used only by the driver -/
def hexDigit (n : Nat) : Char :=
  if n < 10 then Char.ofNat (48 + n) else Char.ofNat (87 + n)

def toHex (m : Bytes) : String :=
  String.ofList (m.flatMap fun b => [hexDigit (b.toNat / 16), hexDigit (b.toNat % 16)])

def hexVal (c : Char) : Option Nat :=
  if '0' ≤ c ∧ c ≤ '9' then some (c.toNat - 48)
  else if 'a' ≤ c ∧ c ≤ 'f' then some (c.toNat - 87)
  else if 'A' ≤ c ∧ c ≤ 'F' then some (c.toNat - 55)
  else none

def ofHexList : List Char → Option Bytes
  | [] => some []
  | [_] => none
  | a :: b :: rest => do
      let x ← hexVal a
      let y ← hexVal b
      let r ← ofHexList rest
      pure (UInt8.ofNat (x * 16 + y) :: r)

/-- "-" denotes the empty byte string in the line protocol -/
def ofHex (s : String) : Option Bytes :=
  if s = "-" then some [] else ofHexList s.toList

def toHexOrDash (m : Bytes) : String := if m.isEmpty then "-" else toHex m

end NV
