/-
  NV.Model.Local — C12: proxy/util.go (`ptrIP`, `isPrivateReverse`, `isNXDomain`, `hostsResolve`),
  the decision flow of `Proxy.Resolve` (proxy/proxy.go), and the lookup normalisation of
  discovery/resolver.go + discovery/hosts.go (`strings.ToLower`, `prepareHostLookup`,
  the table built by `readHostsFile`).

  Strings are byte lists.  Assumptions about external calls (each exercised by the `local`
  correspondence area, none proved):
  * `strconv.ParseUint(s, base, 8)` = `parseUint8`: no sign, no prefix, no underscore, at least one
    digit, letters in either case for base 16, value ≤ 255 (written from the strconv source);
  * `net.IP.String` = `ipString` (dotted quad for 4-byte and IPv4-mapped addresses, RFC 5952 text
    otherwise: first longest run of ≥ 2 zero groups compressed), `"<nil>"` for a nil IP;
  * `net.ParseIP` on the strings held by the tables: an `Addr.ip` entry holds the canonical text of
    its bytes and parses back to them, an `Addr.junk` entry (zone-qualified or garbage) does not parse;
  * `strings.ToLower` = ASCII lower-casing: exact for names made of bytes < 0x80 (the domain of the
    generator; a name with bytes ≥ 0x80 is re-encoded by Go's Unicode mapping, not modelled);
  * `LocalResolver` / `DiscoveryResolver` are lookup tables (`HostTab`), the upstream is an oracle
    whose single answer is a parameter (`UpRes`) and whose calls are counted;
  * every locally built answer fits the 65535-byte reply buffer (tables are small).
-/
import NV.Model.Reply
namespace NV

/-! ### strings -/

def lowerByte (b : UInt8) : UInt8 := if 65 ≤ b.toNat ∧ b.toNat ≤ 90 then b + 32 else b

/-- ASCII lower-casing (`lowerASCIIBytes`; `strings.ToLower` on ASCII input) -/
def lowerASCII (s : Bytes) : Bytes := s.map lowerByte

/-- `absDomainName` -/
def absName (s : Bytes) : Bytes := if s.getLast? = some 46 then s else s ++ [46]

/-- `strings.HasSuffix` -/
def hasSuffix (s suf : Bytes) : Bool := suf.length ≤ s.length && s.drop (s.length - suf.length) == suf

/-- `strings.LastIndexByte(s, '.')`: scan from the left remembering the last hit -/
def lastDotFrom : Bytes → Nat → Option Nat → Option Nat
  | [], _, acc => acc
  | c :: cs, i, acc => lastDotFrom cs (i + 1) (if c = 46 then some i else acc)

def lastDot (s : Bytes) : Option Nat := lastDotFrom s 0 none

/-- digit value as in strconv: '0'..'9', then letters of either case -/
def digitVal (c : UInt8) : Option Nat :=
  let n := c.toNat
  if 48 ≤ n ∧ n ≤ 57 then some (n - 48)
  else if 97 ≤ n ∧ n ≤ 122 then some (n - 97 + 10)
  else if 65 ≤ n ∧ n ≤ 90 then some (n - 65 + 10)
  else none

def parseDigits (base : Nat) : Bytes → Nat → Option Nat
  | [], acc => some acc
  | c :: cs, acc =>
    match digitVal c with
    | none => none
    | some d => if d ≥ base then none else parseDigits base cs (acc * base + d)

/-- `strconv.ParseUint(s, base, 8)` for base 10 / 16; `none` = any error (syntax or range) -/
def parseUint8 (s : Bytes) (base : Nat) : Option Nat :=
  if s = [] then none
  else match parseDigits base s 0 with
    | none => none
    | some v => if v > 255 then none else some v

/-! ### ptrIP -/

def sufArpa : Bytes := [46, 97, 114, 112, 97, 46]                 -- ".arpa."
def sufInAddr : Bytes := [46, 105, 110, 45, 97, 100, 100, 114]    -- ".in-addr"
def sufIp6 : Bytes := [46, 105, 112, 54]                          -- ".ip6"

/-- the `for i := 0; i < l && ptr != ""; i++` loop; `k` = iterations left (`l - i`) -/
def ptrLoop (base : Nat) : Nat → Nat → Bytes → Bytes → Option Bytes
  | 0, _, ip, _ => some ip
  | k + 1, i, ip, ptr =>
    if ptr = [] then some ip
    else
      let pos : Option (Nat × Nat) :=       -- (idx, off)
        match lastDot ptr with
        | none => some (0, 0)
        | some d => if d = ptr.length - 1 then none else some (d, d + 1)
      match pos with
      | none => none
      | some (idx, off) =>
        match parseUint8 (ptr.drop off) base with
        | none => none
        | some n =>
          let ii := if base = 16 then i / 2 else i
          let b := if base = 16 ∧ i % 2 = 1 then (n ||| (byteAt ip ii * 16 % 256)) else n
          ptrLoop base k (i + 1) (ip.set ii (b8 b)) (ptr.take idx)

/-- `ptrIP` on an already lower-cased name -/
def ptrIPCore (name : Bytes) : Option Bytes :=
  if !hasSuffix name sufArpa then none
  else
    let p := name.take (name.length - 6)
    if hasSuffix p sufInAddr then ptrLoop 10 4 0 (List.replicate 4 0) (p.take (p.length - 8))
    else if hasSuffix p sufIp6 then ptrLoop 16 32 0 (List.replicate 16 0) (p.take (p.length - 4))
    else none

/-- `ptrIP(ptr)` after the repair "lower-case the name (ASCII)": DNS names are case-insensitive.
(Before the repair the function was `ptrIPCore`: the suffix tests were case-sensitive.) -/
def ptrIP (name : Bytes) : Option Bytes := ptrIPCore (lowerASCII name)

/-! ### net.IP predicates and text form -/

/-- `IP.To4()` -/
def to4 (ip : Bytes) : Option Bytes :=
  if ip.length = 4 then some ip
  else if ip.length = 16 ∧ ip.take 10 = List.replicate 10 0 ∧ byteAt ip 10 = 255 ∧ byteAt ip 11 = 255
  then some (ip.drop 12) else none

def ip6Loopback : Bytes := List.replicate 15 0 ++ [1]

def isLoopback (ip : Bytes) : Bool :=
  match to4 ip with
  | some v => byteAt v 0 = 127
  | none => ip = ip6Loopback

def isLinkLocalUnicast (ip : Bytes) : Bool :=
  match to4 ip with
  | some v => byteAt v 0 = 169 ∧ byteAt v 1 = 254
  | none => ip.length = 16 ∧ byteAt ip 0 = 254 ∧ byteAt ip 1 / 64 = 2

/-- `(ip[0] == 10) || (ip[0] == 172 && ip[1]&0xf0 == 16) || (ip[0] == 192 && ip[1] == 168)` -/
def privV4 (b0 b1 : Nat) : Bool := b0 = 10 ∨ (b0 = 172 ∧ b1 / 16 = 1) ∨ (b0 = 192 ∧ b1 = 168)

/-- `ip[0] == 0xfd` -/
def privV6 (b0 : Nat) : Bool := b0 = 253

/-- the body of `isPrivateReverse` after `ptrIP` returned a non-nil address -/
def isPrivateIP (ip : Bytes) : Bool :=
  isLoopback ip || isLinkLocalUnicast ip ||
  match to4 ip with
  | some v => privV4 (byteAt v 0) (byteAt v 1)
  | none => privV6 (byteAt ip 0)

def isPrivateReverse (name : Bytes) : Bool :=
  match ptrIP name with
  | some ip => isPrivateIP ip
  | none => false

def digitCh (d : Nat) : UInt8 := UInt8.ofNat (48 + d)

/-- decimal text of a byte value -/
def dec (n : Nat) : Bytes :=
  if n < 10 then [digitCh n]
  else if n < 100 then [digitCh (n / 10), digitCh (n % 10)]
  else [digitCh (n / 100), digitCh (n / 10 % 10), digitCh (n % 10)]

def hexCh (d : Nat) : UInt8 := if d < 10 then UInt8.ofNat (48 + d) else UInt8.ofNat (87 + d)

/-- lower-case hex of a 16-bit group without leading zeros -/
def hex16 (n : Nat) : Bytes :=
  if n < 16 then [hexCh n]
  else if n < 256 then [hexCh (n / 16), hexCh (n % 16)]
  else if n < 4096 then [hexCh (n / 256), hexCh (n / 16 % 16), hexCh (n % 16)]
  else [hexCh (n / 4096 % 16), hexCh (n / 256 % 16), hexCh (n / 16 % 16), hexCh (n % 16)]

def dotted4 (v : Bytes) : Bytes :=
  dec (byteAt v 0) ++ [46] ++ dec (byteAt v 1) ++ [46] ++ dec (byteAt v 2) ++ [46] ++ dec (byteAt v 3)

def groups (ip : Bytes) : List Nat := (List.range 8).map fun i => rd16 ip (2 * i)

def zeroRun : List Nat → Nat
  | 0 :: gs => zeroRun gs + 1
  | _ => 0

/-- netip `appendTo6`, first loop: (start, end) of the first longest run of ≥ 2 zero groups -/
def bestRunFrom : List Nat → Nat → Option (Nat × Nat) → Option (Nat × Nat)
  | [], _, best => best
  | g :: gs, i, best =>
    let l := zeroRun (g :: gs)
    let cur := match best with | some (s, e) => e - s | none => 0
    bestRunFrom gs (i + 1) (if l ≥ 2 ∧ l > cur then some (i, i + l) else best)

def joinColon : List Nat → Bytes
  | [] => []
  | [g] => hex16 g
  | g :: gs => hex16 g ++ [58] ++ joinColon gs

def ip6Text (ip : Bytes) : Bytes :=
  let gs := groups ip
  match bestRunFrom gs 0 none with
  | none => joinColon gs
  | some (s, e) => joinColon (gs.take s) ++ [58, 58] ++ joinColon (gs.drop e)

def nilText : Bytes := [60, 110, 105, 108, 62]   -- "<nil>"

/-- `net.IP.String()` -/
def ipString : Option Bytes → Bytes
  | none => nilText
  | some ip =>
    if ip.length = 0 then nilText
    else match to4 ip with
      | some v => dotted4 v
      | none => if ip.length = 16 then ip6Text ip else 63 :: ip   -- "?…" (never produced by ptrIP)

/-! ### lookup tables -/

/-- an address string held by a table -/
inductive Addr where
  | ip (b : Bytes)      -- canonical text of a 4- or 16-byte address
  | junk (s : Bytes)    -- anything `net.ParseIP` rejects (zone-qualified, garbage)
  deriving Repr, DecidableEq, Inhabited

def Addr.str : Addr → Bytes
  | .ip b => ipString (some b)
  | .junk s => s

def Addr.hasDot (a : Addr) : Bool := a.str.contains 46

/-- `net.ParseIP(rr).To4()` with `len == 4` -/
def Addr.as4 : Addr → Option Bytes
  | .ip b => to4 b
  | .junk _ => none

/-- `net.ParseIP(rr)` with `len == 16` (always 16 bytes when parsing succeeds) -/
def Addr.as16 : Addr → Option Bytes
  | .ip b => if b.length = 4 then some (List.replicate 10 0 ++ [255, 255] ++ b)
             else if b.length = 16 then some b else none
  | .junk _ => none

structure HostTab where
  names : List (Bytes × List Addr)
  addrs : List (Bytes × List Bytes)
  /-- true for `discovery.Hosts` (`prepareHostLookup` appends the dot), false for a plain table -/
  absKeys : Bool
  deriving Repr, Inhabited

def lookupAL {α : Type} (k : Bytes) : List (Bytes × α) → Option α
  | [] => none
  | (k', v) :: rest => if k' = k then some v else lookupAL k rest

/-- `discovery.Resolver.LookupHost` in front of one source -/
def HostTab.lookupHost (t : HostTab) (name : Bytes) : List Addr :=
  let key := lowerASCII name
  (lookupAL (if t.absKeys then absName key else key) t.names).getD []

/-- `discovery.Resolver.LookupAddr` in front of one source -/
def HostTab.lookupAddr (t : HostTab) (addr : Bytes) : List Bytes :=
  (lookupAL (lowerASCII addr) t.addrs).getD []

def alAppend {α : Type} (k : Bytes) (v : α) : List (Bytes × List α) → List (Bytes × List α)
  | [] => [(k, [v])]
  | (k', vs) :: rest => if k' = k then (k', vs ++ [v]) :: rest else (k', vs) :: alAppend k v rest

/-- one accepted line of the hosts file: address, names -/
abbrev HostLine := Addr × List Bytes

/-- the two maps of `discovery.Hosts`: names (key → addresses), addrs (address text → names) -/
abbrev HostMaps := List (Bytes × List Addr) × List (Bytes × List Bytes)

/-- one name field of a line: `names[abs(lower(n))] += addr`, `addrs[addr] += abs(n)` -/
def hostsAddName (a : Addr) (t : HostMaps) (n : Bytes) : HostMaps :=
  (alAppend (absName (lowerASCII n)) a t.1, alAppend a.str (absName n) t.2)

def hostsAddLine (t : HostMaps) (l : HostLine) : HostMaps := l.2.foldl (hostsAddName l.1) t

def loAddrs : List Addr := [.ip [127, 0, 0, 1], .ip ip6Loopback]

/-- `if len(names[lh]) == 0 { names[lh] = ["127.0.0.1", "::1"] }` -/
def hostsDflt (ns : List (Bytes × List Addr)) (k : Bytes) : List (Bytes × List Addr) :=
  if ((lookupAL k ns).getD []).isEmpty then
    (match lookupAL k ns with
     | some _ => ns.map fun (k', v) => if k' = k then (k', loAddrs) else (k', v)
     | none => ns ++ [(k, loAddrs)])
  else ns

def lhName : Bytes := [108, 111, 99, 97, 108, 104, 111, 115, 116]                        -- "localhost"
def lhdName : Bytes := lhName ++ [46, 108, 111, 99, 97, 108, 100, 111, 109, 97, 105, 110, 46] -- "localhost.localdomain."

/-- `readHostsFile` on the accepted lines (comment stripping, field splitting and address
parsing are C18's subject): `names[abs(lower(n))] += addr`, `addrs[addr] += abs(n)`, then the
`localhost` defaults (the key `localhost` has no trailing dot in the source, so no lookup reaches
it; modelled as is). -/
def buildHosts (ls : List HostLine) : HostTab :=
  let t := ls.foldl hostsAddLine ([], [])
  { names := hostsDflt (hostsDflt t.1 lhName) lhdName, addrs := t.2, absKeys := true }

/-! ### hostsResolve -/

/-- result of `hostsResolve`: `out = some m` ⇒ `n = m.length, err = nil`, `buf[:n] = m`;
`out = none` ⇒ an error, and (after the repair "build local answers in a separate buffer") `buf`
is left untouched.  Before that repair the Builder wrote into `buf` directly, so a failed attempt
destroyed an upstream reply already held there (corpus/local/003-…). -/
structure HRes where
  out : Option Bytes
  deriving Repr, DecidableEq, Inhabited

/-- Builder state: message so far (12 placeholder bytes first), ANCOUNT, last `err` -/
structure BSt where
  msg : Bytes
  an : Nat
  err : Bool
  /-- `return` from inside the loop (`NewName` failed) -/
  abort : Bool := false
  deriving Repr, Inhabited

/-- `b.<X>Resource(hdr, body)`: header name, type, class, TTL 0, RDLENGTH, RDATA -/
def addRR (s : BSt) (qn : Option Bytes) (typ cls : Nat) (rdata : Option Bytes) : BSt :=
  match qn, rdata with
  | some n, some rd =>
    if s.an = 65535 then { s with err := true }
    else { s with msg := s.msg ++ n ++ be16 typ ++ be16 cls ++ be32 0 ++ be16 rd.length ++ rd, an := s.an + 1, err := false }
  | _, _ => { s with err := true }

/-- `if ip := net.ParseIP(rr)…; len(ip) == N { err = b.XResource(…) }`: an unparsable string leaves
the Builder and `err` untouched -/
def addIf (s : BSt) (qn : Option Bytes) (typ cls : Nat) (rd : Option Bytes) : BSt :=
  match rd with
  | some ip => addRR s qn typ cls (some ip)
  | none => s

/-- one PTR target: `NewName` fails for more than 255 bytes (`return` from the loop), otherwise
`err = b.PTRResource(…)` -/
def addPtr (s : BSt) (qn : Option Bytes) (cls : Nat) (n : Bytes) : BSt :=
  if s.abort then s
  else if n.length > 255 then { s with abort := true, err := true }
  else addRR s qn 12 cls (packName n)

def hostsResolve (t : HostTab) (q : Query) : HRes :=
  let cands := t.lookupHost q.name
  let names := t.lookupAddr (ipString (ptrIP q.name))
  let found : Bool :=
    if q.type = 12 then !names.isEmpty else !cands.isEmpty
  if !found then ⟨none⟩
  else
    match Parser.start q.payload with
    | .error _ => ⟨none⟩
    | .ok p =>
      match p.question with
      | (.error _, _) => ⟨none⟩
      | (.ok qu, _) =>
        let bits := (p.bits / 256 % 128) * 256 + 32768 + 128     -- QR, RA set; opcode, AA, TC, RD kept; Z, RCODE cleared
        let qn := packName qu.name
        let hdr0 : Bytes := List.replicate 12 0
        let (msg0, qd) := match qn with
          | some n => (hdr0 ++ n ++ be16 qu.type ++ be16 qu.cls, 1)
          | none => (hdr0, 0)
        let s0 : BSt := { msg := msg0, an := 0, err := false }
        let s : BSt :=
          if q.type = 1 then
            (cands.filter (·.hasDot)).foldl (fun s a => addIf s qn 1 qu.cls a.as4) s0
          else if q.type = 28 then
            (cands.filter (fun a => !a.hasDot)).foldl (fun s a => addIf s qn 28 qu.cls a.as16) s0
          else if q.type = 12 then
            (names.filter (fun n => n.getLast? = some 46)).foldl (fun s n => addPtr s qn qu.cls n) s0
          else s0
        if s.err then ⟨none⟩
        else ⟨some (be16 p.id ++ be16 bits ++ be16 qd ++ be16 s.an ++ be16 0 ++ be16 0 ++ s.msg.drop 12)⟩

/-! ### Proxy.Resolve -/

/-- `isNXDomain` -/
def isNXDomain (msg : Bytes) : Bool := msg.length ≥ 4 && byteAt msg 3 % 16 = 3

structure Cfg where
  loc : Option HostTab
  disc : Option HostTab
  bogus : Bool
  deriving Repr, Inhabited

/-- what the upstream does when (if) it is called: copies `bytes` into `buf`, returns `(n, err)` -/
structure UpRes where
  bytes : Bytes
  n : Int
  err : Bool
  deriving Repr, Inhabited

structure RRes where
  n : Int
  err : Bool
  /-- number of upstream calls -/
  calls : Nat
  /-- `buf[:n]` when `n > 0` -/
  buf : Bytes
  deriving Repr, DecidableEq, Inhabited

def resolve (c : Cfg) (q : Query) (up : UpRes) : RRes :=
  let l : HRes := match c.loc with | some t => hostsResolve t q | none => ⟨none⟩
  match l.out with
  | some m => ⟨m.length, false, 0, m⟩
  | none =>
    let priv : Bool := q.type = 12 && isPrivateReverse q.name
    let callUp : Bool := !c.bogus || !priv
    let n : Int := if callUp then up.n else 0
    let err : Bool := if callUp then up.err else false
    let calls : Nat := if callUp then 1 else 0
    -- buffer content: what the upstream copied into it (a failed local attempt leaves no trace)
    let buf1 : Bytes := if callUp then up.bytes else []
    let resp : Bytes := buf1.take n.toNat
    let d : HRes :=
      if q.rd && (n ≤ 0 || isNXDomain resp) then
        match c.disc with | some t => hostsResolve t q | none => ⟨none⟩
      else ⟨none⟩
    match d.out with
    | some m => ⟨m.length, false, calls, m⟩
    | none =>
      if c.bogus && priv then
        let m := replyRCode 3 q
        ⟨m.length, false, calls, m⟩
      else ⟨n, err, calls, resp⟩

end NV
