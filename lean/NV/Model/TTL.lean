/-
  NV.Model.TTL — resolver/cache.go: `skipName`, `unpackUint16/32`, `packUint32`, `updateTTL`,
  `cacheValue.AdjustedResponse` (message-level half of C07).

  Representation.  The Go code walks `msg` with an absolute offset `off` and mutates it in place.
  The model walks the *suffix* `rest = msg[off:]` and returns the rewritten suffix, i.e. at every
  point `msg = done ++ rest` with `off = done.length`.  Under that reading
      `off >= len(msg)`           is  `rest.isEmpty`
      `skipName(msg[off:])`       is  `skipName rest`
      `off += l + 10; off > len`  is  `lenLT rest (l + 10)`  (⇔ rest.length < l + 10)
      `msg[off-10:]`, `msg[off-6:]`, `msg[off-2:]` (off already advanced) are `rest[l:]`,
                                      `rest[l+4:]`, `rest[l+8:]`
  Every Go slice expression `b[k:]` and every index `b[j]` that the Go code performs WITHOUT its
  own guard is modelled by `sliceFrom` / `unpackUint16` / `unpackUint32` / `packUint32`, which
  return `Except.error Panic.…` when Go would panic (slice bounds / index out of range); "no
  panic" is then a theorem (`NV.C07.updateTTL_no_panic`), not an assumption.

  Machine integers.  `age`, `maxAge`, `maxTTL`, TTLs are Go `uint32`, counts are `uint16`; the
  model uses `Nat` and reduces explicitly where Go's width is observable:
    * `rrCount := answers + authorities + additionals` and `additionalsIdx := answers +
      authorities` are uint16 additions: `% 65536`;
    * `^minTTL` is `4294967295 - minTTL`;
    * `ttl -= age` is only executed when `age ≤ ttl` (no wrap);
    * `off`, `l`, `int(rdlen)` are Go `int` (64-bit here): no wrap below 2^63, which a byte
      slice cannot reach.
  The driver rejects parameters ≥ 2^32 (`bad-op`) instead of reducing them.

  External calls: none (`time.Time.Sub` in AdjustedResponse is modelled by `ageOf`, see there).
-/
import NV.Model.Wire
namespace NV.TTL
open NV

inductive Panic where
  | sliceBounds   -- Go: "slice bounds out of range"
  | indexRange    -- Go: "index out of range"
  deriving Repr, DecidableEq, Inhabited

/-- `n ≤ b.length`, computed in `min n b.length` steps (the driver runs 64 KiB messages; calling
`List.length` on the remaining suffix in every iteration would be quadratic) -/
def hasLen : Bytes → Nat → Bool
  | _, 0 => true
  | [], _ + 1 => false
  | _ :: t, n + 1 => hasLen t n

@[simp] theorem hasLen_iff (b : Bytes) (n : Nat) : hasLen b n = true ↔ n ≤ b.length := by
  induction b generalizing n with
  | nil => cases n <;> simp [hasLen]
  | cons x t ih => cases n <;> simp [hasLen, ih]

/-- `b.length < n` (Go: `off + n > len(msg)` for the suffix `b = msg[off:]`) -/
def lenLT (b : Bytes) (n : Nat) : Bool := !hasLen b n

@[simp] theorem lenLT_iff (b : Bytes) (n : Nat) : lenLT b n = true ↔ b.length < n := by
  simp [lenLT, ← Bool.not_eq_true, hasLen_iff]

/-- Go `b[k:]` -/
def sliceFrom (b : Bytes) (k : Nat) : Except Panic Bytes :=
  if hasLen b k then .ok (b.drop k) else .error .sliceBounds

/-- Go `unpackUint16(b)`: `uint16(b[0])<<8 | uint16(b[1])` -/
def unpackUint16 : Bytes → Except Panic Nat
  | a :: b :: _ => .ok (a.toNat * 256 + b.toNat)
  | _ => .error .indexRange

/-- Go `unpackUint32(b)` -/
def unpackUint32 : Bytes → Except Panic Nat
  | a :: b :: c :: d :: _ => .ok (a.toNat * 16777216 + b.toNat * 65536 + c.toNat * 256 + d.toNat)
  | _ => .error .indexRange

/-- Go `packUint32(m[k:], n)`: the slice expression, then four index writes into the shared
backing array; returns the updated `m`. -/
def packUint32At (m : Bytes) (k n : Nat) : Except Panic Bytes :=
  if hasLen m k then
    if hasLen m (k + 4) then .ok (setBytes m k (be32 n)) else .error .indexRange
  else .error .sliceBounds

/-- Go `skipName(msg)` on the slice `s`; 0 = invalid.  The Go loop variable `newOff` is the
number of bytes of `s` already consumed; the recursion consumes them from the list instead.
Quirks kept: a compression pointer counts two bytes even when its second byte is missing
(`newOff++` without a test); a label that ends exactly at the end of the slice is invalid because
the next iteration finds `newOff >= len(msg)`; no limit on label count or on the total length. -/
def skipName : Bytes → Nat
  | [] => 0                                             -- newOff >= len(msg)
  | c :: rest =>
    if c.toNat / 64 = 0 then                            -- c & 0xC0 == 0x00
      if c.toNat = 0 then 1
      else if lenLT rest c.toNat then 0                 -- newOff += c; newOff > len(msg)
      else
        match skipName (rest.drop c.toNat) with
        | 0 => 0
        | l + 1 => 1 + c.toNat + (l + 1)
    else if c.toNat / 64 = 3 then 2                     -- 0xC0: pointer, newOff++ unguarded
    else 0                                              -- 0x40 / 0x80 reserved
termination_by s => s.length
decreasing_by simp; omega

/-- the question loop: `none` = `return 0`, `some rest` = fell out of the loop -/
def skipQuestions : Nat → Bytes → Option Bytes
  | 0, rest => some rest
  | n + 1, rest =>
    if rest.isEmpty then none                           -- off >= len(msg)
    else
      let l := skipName rest
      if l = 0 then none
      else if lenLT rest (l + 4) then none              -- off += l + 4; off > len(msg)
      else skipQuestions n (rest.drop (l + 4))

def typeOPT : Nat := 41
def u32max : Nat := 4294967295

/-- `if age > ttl { ttl = 0 } else { ttl -= age }` -/
def aged (ttl age : Nat) : Nat := if age > ttl then 0 else ttl - age

/-- the `minTTL` update for a record of the answer/authority sections -/
def minStep (minTTL ttl age maxAge : Nat) : Nat :=
  if maxAge > 0 ∧ age > maxAge then 0 else if minTTL > ttl then ttl else minTTL

/-- `if maxTTL > 0 && ttl > maxTTL { ttl = maxTTL }` -/
def clampTTL (ttl maxTTL : Nat) : Nat := if maxTTL > 0 ∧ ttl > maxTTL then maxTTL else ttl

/-- one iteration's reads and write, after the two length tests: `l = skipName rest ≠ 0` and
`l + 10 ≤ rest.length`.  Returns the buffer suffix after the in-place TTL write, the updated
minTTL and RDLENGTH. -/
def rrStep (age maxAge maxTTL addIdx i : Nat) (rest : Bytes) (minTTL l : Nat) :
    Except Panic (Bytes × Nat × Nat) := do
  let qtype ← unpackUint16 (← sliceFrom rest l)                   -- msg[off-10:]
  let (rest1, minTTL1) ←
    if qtype ≠ typeOPT then do
      let ttl0 ← unpackUint32 (← sliceFrom rest (l + 4))          -- msg[off-6:]
      let ttl := aged ttl0 age
      let minTTL1 := if i < addIdx then minStep minTTL ttl age maxAge else minTTL
      let rest1 ← packUint32At rest (l + 4) (clampTTL ttl maxTTL)
      pure (rest1, minTTL1)
    else pure (rest, minTTL)
  let rdlen ← unpackUint16 (← sliceFrom rest1 (l + 8))            -- msg[off-2:]
  pure (rest1, minTTL1, rdlen)

/-- the RR loop `for i := uint16(0); i < rrCount; i++`: `n` = iterations left (`rrCount - i`).
Result: the rewritten suffix and `some minTTL` (loop ended by `break` or by the counter) or
`none` (`return 0`; the bytes rewritten so far stay rewritten). -/
def rrLoop (age maxAge maxTTL addIdx : Nat) : Nat → Nat → Bytes → Nat → Except Panic (Bytes × Option Nat)
  | 0, _, rest, minTTL => .ok (rest, some minTTL)
  | n + 1, i, rest, minTTL =>
    if rest.isEmpty then .ok (rest, some minTTL)        -- off >= len(msg): break
    else
      let l := skipName rest
      if l = 0 then .ok (rest, none)                    -- invalid label
      else if lenLT rest (l + 10) then .ok (rest, none)   -- off += l + 10; off > len(msg)
      else
        match rrStep age maxAge maxTTL addIdx i rest minTTL l with
        | .error e => .error e
        | .ok (rest1, minTTL1, rdlen) =>
          let k := l + 10 + rdlen
          if lenLT rest1 k then .ok (rest1, none)       -- off += int(rdlen); off > len(msg)
          else
            match rrLoop age maxAge maxTTL addIdx n (i + 1) (rest1.drop k) minTTL1 with
            | .error e => .error e
            | .ok (out, r) => .ok (rest1.take k ++ out, r)

/-- the four header reads `unpackUint16(msg[4:])` … `unpackUint16(msg[10:])` -/
def readCounts (msg : Bytes) : Except Panic (Nat × Nat × Nat × Nat) := do
  let questions ← unpackUint16 (← sliceFrom msg 4)
  let answers ← unpackUint16 (← sliceFrom msg 6)
  let authorities ← unpackUint16 (← sliceFrom msg 8)
  let additionals ← unpackUint16 (← sliceFrom msg 10)
  pure (questions, answers, authorities, additionals)

/-- Go `updateTTL(msg, age, maxAge, maxTTL)`: the buffer after the call and the returned minTTL -/
def updateTTL (msg : Bytes) (age maxAge maxTTL : Nat) : Except Panic (Bytes × Nat) :=
  if lenLT msg 12 then .ok (msg, 0) else                 -- len(msg) < 12
    match readCounts msg with
    | .error e => .error e
    | .ok (questions, answers, authorities, additionals) =>
      match skipQuestions questions (msg.drop 12) with
      | none => .ok (msg, 0)
      | some rest =>
        let rrCount := (answers + authorities + additionals) % 65536      -- uint16 additions
        let additionalsIdx := (answers + authorities) % 65536
        -- minTTL = ^minTTL
        match rrLoop age maxAge maxTTL additionalsIdx rrCount 0 rest u32max with
        | .error e => .error e
        | .ok (out, r) =>
          let buf := msg.take (msg.length - rest.length) ++ out
          match r with
          | none => .ok (buf, 0)
          | some minTTL => .ok (buf, if u32max - minTTL = 0 then 0 else minTTL)   -- ^minTTL == 0

/-- `uint32(now.Sub(v.time) / time.Second)`: `d` is the Duration in nanoseconds (int64; the
saturation of `Time.Sub` beyond ±292 years is outside the model: |d| < 2^63 assumed), Go integer
division truncates toward zero, the conversion keeps the low 32 bits. -/
def ageOf (d : Int) : Nat := ((d.tdiv 1000000000) % 4294967296).toNat

/-- Go `cacheValue.AdjustedResponse(buf, id, maxAge, maxTTL, now)` with `len(buf) = bufLen`:
returns `n`, `buf[:n]` after the call, `minTTL`.  The stored `v.msg` is only read (`copy(buf,
msg)`), never written: the model takes it by value and returns a new list. -/
def adjustedResponse (stored : Bytes) (bufLen id : Nat) (d : Int) (maxAge maxTTL : Nat) :
    Except Panic (Nat × Bytes × Nat) :=
  let n := stored.length
  if n < 12 then .ok (0, [], 0)
  else if bufLen < n then .ok (0, [], 0)
  else
    -- copy(buf, msg); buf[0] = byte(id >> 8); buf[1] = byte(id)   (n ≥ 12, indexes in range)
    let buf := b8 (id / 256) :: b8 id :: stored.drop 2
    match updateTTL buf (ageOf d) maxAge maxTTL with
    | .error e => .error e
    | .ok (out, minTTL) => .ok (n, out, minTTL)

end NV.TTL
