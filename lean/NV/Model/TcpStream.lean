/-
  NV.Model.TcpStream — proxy/tcp.go `serveTCPConn` as a function of the WHOLE byte stream a client sends on one
  connection: `readTCP` takes a two-byte big-endian length and then exactly that many bytes (io.ReadFull: how the
  stream is cut into segments does not matter); a frame of at most 14 bytes ends the connection ("query too small")
  without being handled; a stream that ends inside a prefix or a frame ends the connection.
  Every frame returned here is handed to a handler goroutine, which writes exactly one reply (NV.C01).
-/
import NV.Model.Wire
namespace NV.TcpStream
open NV

inductive End where
  | eof     -- the stream ended between two frames
  | small   -- a frame of ≤ 14 bytes: the connection is closed, the frame is not handled
  | short   -- the stream ended inside a length prefix or inside a frame
  deriving Repr, DecidableEq, Inhabited

def minQuery : Nat := 14

def splitFrames (s : Bytes) : List Bytes × End :=
  match s with
  | [] => ([], .eof)
  | [_] => ([], .short)
  | hi :: lo :: rest =>
    let len := hi.toNat * 256 + lo.toNat
    if rest.length < len then ([], .short)
    else if len ≤ minQuery then ([], .small)
    else
      let r := splitFrames (rest.drop len)
      (rest.take len :: r.1, r.2)
termination_by s.length
decreasing_by simp; omega

/-- the frame a client writes for a message of at most 65535 bytes -/
def frame (q : Bytes) : Bytes := UInt8.ofNat (q.length / 256) :: UInt8.ofNat (q.length % 256) :: q

end NV.TcpStream
