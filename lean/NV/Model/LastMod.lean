/-
  NV.Model.LastMod — resolver/doh.go `(*DOH).updateLastMod` under concurrency.

  Every handler that received a response carrying `X-Conf-Last-Modified: t` runs

      RLock;  cur := table[url];  if !(t > cur) { RUnlock; return };  RUnlock      -- step 1 (`peek`)
      Lock;   cur := table[url];  if t > cur { table[url] := t };  Unlock          -- step 2 (`commit`)

  Each of the two critical sections is one atomic step (sync.RWMutex: NV.C15.no_conflict); between them
  any other handler may run.  Threads are numbered; thread `i` carries the time `ts i`.  A schedule is
  the list of thread numbers in the order in which they take their next step.

  `stepNA` is the protocol WITHOUT the second comparison (step 2 stores unconditionally — the
  check-then-act form, e.g. a `Load` and a `Store` on a sync.Map): kept to show what the comparison
  under the write lock is for (`NV.C15.lastmod_unchecked_store_loses_update`).

  Times are natural numbers (0 = the zero time of an URL without entry).
-/
namespace NV.LastMod

inductive Ph where
  | fresh      -- has not looked yet
  | pending    -- saw an older time recorded: will take the write lock
  | done
  deriving Repr, DecidableEq, Inhabited

structure St where
  cur : Nat
  ph : Nat → Ph

def init (cur : Nat) : St := { cur := cur, ph := fun _ => .fresh }

def setPh (ph : Nat → Ph) (i : Nat) (p : Ph) : Nat → Ph := fun j => if j = i then p else ph j

/-- thread `i` takes its next step (the code as it is) -/
def step (ts : Nat → Nat) (s : St) (i : Nat) : St :=
  match s.ph i with
  | .fresh => if ts i > s.cur then { s with ph := setPh s.ph i .pending } else { s with ph := setPh s.ph i .done }
  | .pending => { cur := if ts i > s.cur then ts i else s.cur, ph := setPh s.ph i .done }
  | .done => s

/-- the same without the comparison under the write lock -/
def stepNA (ts : Nat → Nat) (s : St) (i : Nat) : St :=
  match s.ph i with
  | .fresh => if ts i > s.cur then { s with ph := setPh s.ph i .pending } else { s with ph := setPh s.ph i .done }
  | .pending => { cur := ts i, ph := setPh s.ph i .done }
  | .done => s

def run (ts : Nat → Nat) (s : St) (sched : List Nat) : St := sched.foldl (step ts) s
def runNA (ts : Nat → Nat) (s : St) (sched : List Nat) : St := sched.foldl (stepNA ts) s

/-- one handler after the other: each runs both of its steps before the next starts -/
def sequential (order : List Nat) : List Nat := order.flatMap fun i => [i, i]

/-- what every sequential order records: the newest of the recorded time and the announced ones -/
def newest (cur : Nat) (ts : Nat → Nat) : List Nat → Nat
  | [] => cur
  | i :: is => newest (if ts i > cur then ts i else cur) ts is

end NV.LastMod
