/-
  NV.Model.Router — executable model of router/*/setup.go (New / Configure / Setup / Restore of the
  eight firmware integrations), router/internal/{nvram,template}.go and detectRouter, over a state

      files (path ↦ content) · uci store (staged + committed) · nvram (live + committed)
      · number of dnsmasq restarts · dnsmasq's VIEW = snapshot of (visible files, committed uci,
        live nvram) taken at its last (re)start — `none` when it was stopped and not started again

  "a dnsmasq restart happens after the last change" is then `view = some (snapshot of the final state)`.

  External commands are modelled by the semantics of the jail shims of the harness (harness/a_router.go,
  same tables on both sides, compared by the correspondence run).  ASSUMPTIONS about the real tools,
  recorded here because the shims implement exactly them:
  * `uci get K` prints the values of K joined by one space, or fails with "uci: Entry not found";
    `uci delete K` fails the same way when K is absent; `add_list K=V` appends V; `del_list K=V`
    removes every element equal to V, removes K when the list becomes empty and succeeds when K is
    absent; changes are staged until `uci commit`; dnsmasq's init script reads the committed store.
  * `nvram get K` prints the value and a newline, nothing when K is unset, exit 0 either way;
    `nvram set K=V` splits at the first `=`; `nvram unset ARG` removes ARG — but when ARG contains
    `=` (the repository passes "name=") it behaves like the Broadcom driver: set name to the text
    after the first `=`.  An unset variable and an empty one are equivalent for the firmware
    (`nvram_safe_get`), which is how the restore theorems compare nvram stores.
  * restart commands (argv tables below) make dnsmasq re-read its configuration; `stopservice dnsmasq`
    stops it; `kill PID` restarts it iff PID is the trimmed content of /run/dnsmasq.pid (UbiOS
    respawns dnsmasq); any other argv fails.
  * directories the code writes into exist (the jail creates them); files are regular files.
  * `config.ParseBytes(c.CacheSize) > 0` is an input (`cacheOn`), computed by the real function in the
    harness; strings.TrimSpace / bytes.TrimSpace are modelled for ASCII.
  * bufio.Scanner lines are shorter than 64 KiB.
-/
import NV.Model.RouterBase
namespace NV.Router
open NV NV.Tmpl

/-! ### association lists (stores keep insertion order; keys are unique) -/

def aget {β : Type} : List (Bytes × β) → Bytes → Option β
  | [], _ => none
  | (k', v) :: r, k => if k' = k then some v else aget r k

/-- replace in place, or append -/
def aset {β : Type} : List (Bytes × β) → Bytes → β → List (Bytes × β)
  | [], k, v => [(k, v)]
  | (k', v') :: r, k, v => if k' = k then (k, v) :: r else (k', v') :: aset r k v

def adel {β : Type} : List (Bytes × β) → Bytes → List (Bytes × β)
  | [], _ => []
  | (k', v') :: r, k => if k' = k then adel r k else (k', v') :: adel r k

abbrev Store := List (Bytes × Bytes)
abbrev UStore := List (Bytes × List Bytes)

/-! ### byte-string helpers -/

def isPrefix : Bytes → Bytes → Bool
  | [], _ => true
  | _ :: _, [] => false
  | a :: p, b :: l => a = b && isPrefix p l

def isSuffix (p l : Bytes) : Bool := isPrefix p.reverse l.reverse

/-- strings.Contains -/
def containsSub (pat : Bytes) : Bytes → Bool
  | [] => pat.isEmpty
  | c :: l => isPrefix pat (c :: l) || containsSub pat l

/-- strings.Replace(l, pat, rep, 1) for a non-empty pattern -/
def replaceFirst (pat rep : Bytes) : Bytes → Bytes
  | [] => []
  | c :: l => if isPrefix pat (c :: l) then rep ++ (c :: l).drop pat.length else c :: replaceFirst pat rep l

/-- ASCII white space of strings.TrimSpace: space, \t, \n, \v, \f, \r -/
def isWs (c : UInt8) : Bool := c = 32 || (9 ≤ c && c ≤ 13)

def dropWs : Bytes → Bytes
  | [] => []
  | c :: r => if isWs c then dropWs r else c :: r

def trimSpace (b : Bytes) : Bytes := (dropWs (dropWs b).reverse).reverse

def joinSp : List Bytes → Bytes
  | [] => []
  | [a] => a
  | a :: r => a ++ 32 :: joinSp r

/-- strings.Split(s, " ") -/
def splitSpAux : Bytes → Bytes → List Bytes
  | [], cur => [cur]
  | c :: r, cur => if c = 32 then cur :: splitSpAux r [] else splitSpAux r (cur ++ [c])

def splitSp (b : Bytes) : List Bytes := splitSpAux b []

/-- split at the first `=` -/
def splitEq : Bytes → Bytes × Option Bytes
  | [] => ([], none)
  | c :: r => if c = 61 then ([], some r) else let x := splitEq r; (c :: x.1, x.2)

/-- text after the last `/` -/
def baseName (p : Bytes) : Bytes := ((p.reverse.takeWhile (· ≠ 47))).reverse

/-- bufio.ScanLines: lines without terminator, one trailing \r dropped, no final empty line -/
def dropCR (l : Bytes) : Bytes :=
  match l.reverse with
  | 13 :: r => r.reverse
  | _ => l

def splitLinesAux : Bytes → Bytes → List Bytes
  | [], cur => if cur.isEmpty then [] else [dropCR cur]
  | c :: r, cur => if c = 10 then dropCR cur :: splitLinesAux r [] else splitLinesAux r (cur ++ [c])

def splitLines (b : Bytes) : List Bytes := splitLinesAux b []

def dropNL : Bytes → Bytes
  | [] => []
  | c :: r => if c = 10 then dropNL r else c :: r

def endMarker : Bytes := b!"## NextDNS END"

/-- merlin.readPostConf on the file content: everything up to the last marker line is dropped -/
def readPostConf (b : Bytes) : Bytes :=
  dropNL ((splitLines b).foldl (fun buf line => if line = endMarker then [] else buf ++ line ++ [10]) [])

/-! ### system state and the shim semantics -/

structure Snap where
  files : Store
  uci : UStore
  nv : Store
  deriving DecidableEq, Repr

structure Sys where
  files : Store := []
  uciS : UStore := []
  uciC : UStore := []
  nvL : Store := []
  nvC : Store := []
  restarts : Nat := 0
  view : Option Snap := none
  deriving DecidableEq, Repr

/-- harness-private files (shim inputs) are not part of the router's configuration -/
def visible (f : Store) : Store := f.filter fun p => !isPrefix b!"/.nv/" p.1

def snapOf (s : Sys) : Snap := ⟨visible s.files, s.uciC, s.nvL⟩

def restartNow (s : Sys) : Sys := { s with restarts := s.restarts + 1, view := some (snapOf s) }

def uciGet (s : Sys) (k : Bytes) : Option Bytes := (aget s.uciS k).map fun vs => trimSpace (joinSp vs)

def uciDelete (s : Sys) (k : Bytes) : Bool × Sys :=
  match aget s.uciS k with
  | none => (false, s)
  | some _ => (true, { s with uciS := adel s.uciS k })

def uciAddList (s : Sys) (k v : Bytes) : Sys :=
  { s with uciS := aset s.uciS k ((aget s.uciS k).getD [] ++ [v]) }

def uciDelList (s : Sys) (k v : Bytes) : Sys :=
  match aget s.uciS k with
  | none => s
  | some vs =>
    let vs' := vs.filter (· ≠ v)
    if vs'.isEmpty then { s with uciS := adel s.uciS k } else { s with uciS := aset s.uciS k vs' }

def uciCommit (s : Sys) : Sys := { s with uciC := s.uciS }

def nvGet (s : Sys) (k : Bytes) : Bytes := (aget s.nvL k).getD []

/-- `nvram set ARG` -/
def nvSetArg (s : Sys) (arg : Bytes) : Bool × Sys :=
  match splitEq arg with
  | (k, some v) => (true, { s with nvL := aset s.nvL k v })
  | (_, none) => (false, s)

/-- `nvram unset ARG` (Broadcom: an ARG containing `=` is a set) -/
def nvUnsetArg (s : Sys) (arg : Bytes) : Bool × Sys :=
  match splitEq arg with
  | (k, some v) => (true, { s with nvL := aset s.nvL k v })
  | (k, none) => (true, { s with nvL := adel s.nvL k })

def nvCommit (s : Sys) : Sys := { s with nvC := s.nvL }

def pidPath : Bytes := b!"/run/dnsmasq.pid"

/-- commands other than uci/nvram: (exit status 0, new state) -/
def execBase (argv : List Bytes) (s : Sys) : Bool × Sys :=
  if argv = [b!"/etc/init.d/dnsmasq", b!"restart"] then (true, restartNow s)
  else if argv = [b!"service", b!"restart_dnsmasq"] then (true, restartNow s)
  else if argv = [b!"stopservice", b!"dnsmasq"] then (true, { s with view := none })
  else if argv = [b!"startservice", b!"dnsmasq"] then (true, restartNow s)
  else if argv = [b!"/etc/rc.network", b!"nat-restart-dhcp"] then (true, restartNow s)
  else if argv = [b!"systemctl", b!"restart", b!"firerouter_dns.service"] then (true, restartNow s)
  else match argv with
    | [k, pid] =>
      if k = b!"kill" then
        match aget s.files pidPath with
        | some c => if pid ≠ [] ∧ trimSpace c = pid then (true, restartNow s) else (false, s)
        | none => (false, s)
      else (false, s)
    | _ => (false, s)

def execCmd (argv : List Bytes) (s : Sys) : Bool × Sys :=
  match argv with
  | a :: rest => if a = b!"sudo" then execBase rest s else execBase argv s
  | [] => (false, s)

/-- run commands in order, stop at the first failure -/
def runCmds : List (List Bytes) → Sys → Bool × Sys
  | [], s => (true, s)
  | c :: cs, s =>
    let r := execCmd c s
    if r.1 then runCmds cs r.2 else r

/-- fault injection: the constants of a firmware whose `k`-th service command (1-based) fails
without any effect (`false` is not a command of `execBase`: exit status ≠ 0, state unchanged). The
functions below stop at the first failing command, so running them with these constants is running
them in a world where that command fails once. `k = 0` or `k` beyond the command list: no fault. -/
def faultConsts (c : FwConsts) (k : Nat) : FwConsts :=
  if 1 ≤ k ∧ k ≤ c.cmds.length then { c with cmds := c.cmds.take (k - 1) ++ [[b!"false"]] } else c

/-- internal.SetNVRAM -/
def setNVRAMLoop : List Bytes → Sys → Bool × Sys
  | [], s => (true, nvCommit s)
  | v :: vs, s =>
    let r := if isSuffix [61] v then nvUnsetArg s v else nvSetArg s v
    if r.1 then setNVRAMLoop vs r.2 else r

def setNVRAM (vars : List Bytes) (s : Sys) : Bool × Sys :=
  if vars.isEmpty then (true, s) else setNVRAMLoop vars s

/-- internal.NVRAM after the repair: one `nvram get` per name, exactly one trailing newline removed -/
def getNVRAM (names : List Bytes) (s : Sys) : List Bytes := names.map fun n => n ++ 61 :: nvGet s n

/-- internal.NVRAM before the repair (kept for the negative witnesses of NV.C20): the lines of
`nvram show` that start with `name=` — a multi-line value is cut at its first line, lines of other
values that happen to start with `name=` are picked up, unset names are not reported. -/
def nvShow (s : Sys) : Bytes := s.nvL.flatMap fun p => p.1 ++ 61 :: p.2 ++ [10]

def getNVRAMShow (names : List Bytes) (s : Sys) : List Bytes :=
  (splitLines (trimSpace (nvShow s))).flatMap fun line =>
    names.filterMap fun n => if isPrefix (n ++ [61]) line then some line else none

/-! ### firmware objects -/

inductive Fw where
  | openwrt | merlin | ddwrt | edgeos | synology | ubios | firewalla | generic
  deriving DecidableEq, Repr

def Fw.all : List Fw := [.openwrt, .merlin, .ddwrt, .edgeos, .synology, .ubios, .firewalla, .generic]

/-- the in-process Router value -/
structure Obj where
  path : Bytes := []
  report : Bool := false
  cache : Bool := false
  setPort0 : Bool := false
  disabled : Bool := false
  savedFwd : Bytes := []
  savedParams : List Bytes := []
  postConf : Bytes := []
  deriving DecidableEq, Repr

/-- config.Config fields the routers read and write -/
structure Cfg where
  listens : List Bytes := []
  cacheSize : Bytes := []
  report : Bool := false
  cacheOn : Bool := false      -- config.ParseBytes(cacheSize) > 0, supplied by the caller
  deriving DecidableEq, Repr

/-- the template data: exactly the exported fields of the firmware's Router struct -/
def envOf (c : FwConsts) (o : Obj) : Env := fun n =>
  match aget c.fields n with
  | none => none
  | some _ =>
    if n = b!"ListenPort" then some (.str c.listenPort)
    else if n = b!"DNSMasqPath" then some (.str o.path)
    else if n = b!"ClientReporting" then some (.bool o.report)
    else if n = b!"CacheEnabled" then some (.bool o.cache)
    else if n = b!"SetPort0" then some (.bool o.setPort0)
    else if n = b!"CurrentPostConf" then some (.str o.postConf)
    else none

def renderFw (c : FwConsts) (o : Obj) : Res := render c.tmpl (envOf c o)

def listenOf (c : FwConsts) (i : Nat) : Bytes :=
  (c.listens.getD i []).flatMap fun p => match p with | .lit b => b | .port => c.listenPort

/-- internal.WriteTemplate (a failing template leaves the file alone in the model; no repository
template can fail, `NV.C20.templates_render`) -/
def writeTemplate (c : FwConsts) (o : Obj) (s : Sys) : Bool × Sys :=
  match renderFw c o with
  | .ok b => (true, { s with files := aset s.files o.path b })
  | _ => (false, s)

abbrev R := Bool × Obj × Sys

/-! #### openwrt -/
def kPort : Bytes := b!"dhcp.@dnsmasq[0].port"
def kServer : Bytes := b!"dhcp.@dnsmasq[0].server"
def kDhcpOpt : Bytes := b!"dhcp.lan.dhcp_option"
def kLanIP : Bytes := b!"network.lan.ipaddr"

def owFinish (c : FwConsts) (o : Obj) (s : Sys) : R :=
  let w := writeTemplate c o s
  if !w.1 then (false, o, w.2) else
  let s := w.2
  -- ensureDHCPOption
  match uciGet s kLanIP with
  | none => (false, o, s)
  | some ip =>
    let expected := b!"6," ++ ip
    let s :=
      match uciGet s kDhcpOpt with
      | some cur => if containsSub expected cur then s else uciCommit (uciAddList s kDhcpOpt expected)
      | none => uciCommit (uciAddList s kDhcpOpt expected)
    let r := runCmds c.cmds s
    (r.1, o, r.2)

def owSetupDNSMasq (c : FwConsts) (o : Obj) (s : Sys) : R :=
  if o.cache then
    match uciGet s kPort with
    | none => owFinish c { o with setPort0 := true } s
    | some p =>
      if p = b!"53" then
        -- the default port is removed from uci so that `port=0` of the drop-in is not a redefinition
        owFinish c { o with setPort0 := true } (uciCommit (uciDelete s kPort).2)
      else owFinish c o s
  else
    match uciGet s kServer with
    | none => owFinish c { o with savedFwd := [] } s
    | some fw => owFinish c { o with savedFwd := fw } (uciCommit (uciDelete s kServer).2)

def owRestoreFwd : List Bytes → Sys → Sys
  | [], s => s
  | f :: fs, s => owRestoreFwd fs (uciAddList s kServer f)

def owRestore (c : FwConsts) (o : Obj) (s : Sys) : R :=
  let s := if o.savedFwd ≠ [] then uciCommit (owRestoreFwd (splitSp o.savedFwd) s) else s
  let s := { s with files := adel s.files o.path }
  match uciGet s kLanIP with
  | none => (false, o, s)
  | some ip =>
    let s := uciCommit (uciDelList s kDhcpOpt (b!"6," ++ ip))
    let r := runCmds c.cmds s
    (r.1, o, r.2)

/-! #### ddwrt -/
def ddSetup (c : FwConsts) (names : List Bytes) (vars : List (Bytes × Bool)) (o : Obj) (s : Sys) : R :=
  match renderFw c o with
  | .ok rendered =>
    let o := { o with savedParams := getNVRAM names s }
    let r := setNVRAM (vars.map fun v => if v.2 then v.1 ++ rendered else v.1) s
    if !r.1 then (false, o, r.2) else
    let r := runCmds c.cmds r.2
    (r.1, o, r.2)
  | _ => (false, o, s)

def ddRestore (c : FwConsts) (o : Obj) (s : Sys) : R :=
  let r := setNVRAM o.savedParams s
  if !r.1 then (false, o, r.2) else
  let r := runCmds c.cmds r.2
  (r.1, o, r.2)

/-! #### drop-in file firmwares -/
def fileSetup (c : FwConsts) (o : Obj) (s : Sys) : R :=
  let w := writeTemplate c o s
  if !w.1 then (false, o, w.2) else
  let r := runCmds c.cmds w.2
  (r.1, o, r.2)

def synInfoPath (p : Bytes) : Bytes := replaceFirst b!".conf" b!".info" p

def synSetup (c : FwConsts) (o : Obj) (s : Sys) : R :=
  let w := writeTemplate c o s
  if !w.1 then (false, o, w.2) else
  let s := { w.2 with files := aset w.2.files (synInfoPath o.path) b!"enable=\"yes\"" }
  let r := runCmds c.cmds s
  (r.1, o, r.2)

def killDNSMasq (s : Sys) : Bool × Sys :=
  match aget s.files pidPath with
  | none => (false, s)
  | some b => execCmd [b!"kill", trimSpace b] s

def ubSetup (c : FwConsts) (o : Obj) (s : Sys) : R :=
  let w := writeTemplate c o s
  if !w.1 then (false, o, w.2) else
  let r := killDNSMasq w.2
  (r.1, o, r.2)

/-! #### the three entry points -/

/-- detection predicates of the New() functions, on the jail's marker files -/
def dirExists (s : Sys) (d : Bytes) : Bool := s.files.any fun p => isPrefix (d ++ [47]) p.1

def fileHasPrefix (s : Sys) (p pre : Bytes) : Bool :=
  match aget s.files p with
  | some c => isPrefix pre c
  | none => false

def detected (fw : Fw) (s : Sys) : Bool :=
  match fw with
  | .ubios => dirExists s b!"/data/unifi" || (aget s.files b!"/.nv/ubnt").isSome
  | .openwrt =>
    match aget s.files b!"/etc/os-release" with
    | some c => (splitLines c).contains b!"ID=\"openwrt\""
    | none => false
  | .merlin => fileHasPrefix s b!"/.nv/uname-o" b!"ASUSWRT-Merlin"
  | .ddwrt => fileHasPrefix s b!"/.nv/uname-o" b!"DD-WRT"
  | .edgeos => dirExists s b!"/config/scripts/post-config.d" || (aget s.files b!"/etc/ubnt/init/vyatta-router").isSome
  | .synology => fileHasPrefix s b!"/.nv/uname-u" b!"synology"
  | .firewalla => (aget s.files b!"/etc/firewalla_release").isSome
  | .generic => true

/-- `New()`: none = the firmware is not detected -/
def new (c : FwConsts) (fw : Fw) (s : Sys) : Option Obj :=
  if !detected fw s then none else
  match fw with
  | .openwrt =>
    -- dnsmaskConfDir: the mount of the ubus service list that ends in ".d" and contains "dnsmasq"
    let dir := match aget s.files b!"/.nv/ubusdir" with
      | some d => if isSuffix b!".d" d && containsSub b!"dnsmasq" d then some d else none
      | none => none
    some { path := match dir with | some d => d ++ 47 :: baseName c.path | none => c.path }
  | .merlin => some { path := c.path, postConf := readPostConf ((aget s.files c.path).getD []) }
  | _ => some { path := c.path }

def configure (c : FwConsts) (names : List Bytes) (vars : List (Bytes × Bool)) (fw : Fw) (o : Obj) (cfg : Cfg) (s : Sys) :
    Bool × Obj × Cfg × Sys :=
  match fw with
  | .generic => (true, o, { cfg with listens := [listenOf c 0] }, s)
  | .merlin => (true, { o with report := cfg.report, cache := cfg.cacheOn }, { cfg with listens := [listenOf c 0] }, s)
  | .openwrt | .ddwrt | .edgeos =>
    let o := { o with report := cfg.report }
    if cfg.cacheOn then
      let o := { o with cache := true }
      let cfg := { cfg with listens := [listenOf c 1] }
      let r := match fw with
        | .openwrt => owSetupDNSMasq c o s
        | .ddwrt => ddSetup c names vars o s
        | _ => fileSetup c o s
      (r.1, r.2.1, cfg, r.2.2)
    else (true, o, { cfg with listens := [listenOf c 0] }, s)
  | .synology =>
    if !fileHasPrefix s b!"/etc/dhcpd/dhcpd.info" b!"enable=\"yes\"" then
      (true, { o with disabled := true }, { cfg with listens := [listenOf c 0] }, s)
    else
      let o := { o with report := cfg.report }
      if cfg.cacheOn then
        let r := synSetup c { o with cache := true } s
        (r.1, r.2.1, { cfg with listens := [listenOf c 2] }, r.2.2)
      else (true, o, { cfg with listens := [listenOf c 1] }, s)
  | .ubios =>
    if (aget s.files b!"/run/dnsfilter/dnsfilter").isSome then (false, o, cfg, s)
    else
      let cs := if cfg.cacheSize = b!"0" ∨ cfg.cacheSize = [] then b!"10MB" else cfg.cacheSize
      (true, { o with report := cfg.report }, { cfg with listens := [listenOf c 0], cacheSize := cs }, s)
  | .firewalla =>
    let cs := if cfg.cacheSize = b!"0" ∨ cfg.cacheSize = [] then b!"10MB" else cfg.cacheSize
    (true, { o with report := cfg.report }, { cfg with listens := [listenOf c 0], cacheSize := cs }, s)

def setup (c : FwConsts) (names : List Bytes) (vars : List (Bytes × Bool)) (fw : Fw) (o : Obj) (s : Sys) : R :=
  match fw with
  | .generic => (true, o, s)
  | .openwrt => if !o.cache then owSetupDNSMasq c o s else (true, o, s)
  | .ddwrt => if !o.cache then ddSetup c names vars o s else (true, o, s)
  | .edgeos => if !o.cache then fileSetup c o s else (true, o, s)
  | .merlin => fileSetup c o s
  | .synology => if o.disabled || o.cache then (true, o, s) else synSetup c o s
  | .ubios => ubSetup c o s
  | .firewalla => fileSetup c o s

def removeStrict (o : Obj) (s : Sys) : Bool × Sys :=
  match aget s.files o.path with
  | none => (false, s)
  | some _ => (true, { s with files := adel s.files o.path })

def restore (c : FwConsts) (fw : Fw) (o : Obj) (s : Sys) : R :=
  match fw with
  | .generic => (true, o, s)
  | .openwrt => owRestore c o s
  | .ddwrt => ddRestore c o s
  | .merlin =>
    let s := if o.postConf ≠ [] then { s with files := aset s.files o.path o.postConf }
             else { s with files := adel s.files o.path }
    let r := runCmds c.cmds s
    (r.1, o, r.2)
  | .edgeos | .firewalla =>
    let d := removeStrict o s
    if !d.1 then (false, o, s) else
    let r := runCmds c.cmds d.2
    (r.1, o, r.2)
  | .synology =>
    if o.disabled then (true, o, s) else
    let r := runCmds c.cmds { s with files := adel s.files o.path }
    (r.1, o, r.2)
  | .ubios =>
    let d := removeStrict o s
    if !d.1 then (false, o, s) else
    let r := killDNSMasq d.2
    (r.1, o, r.2)


open NV NV.Tmpl

def Fw.name : Fw → Bytes
  | .openwrt => b!"openwrt" | .merlin => b!"merlin" | .ddwrt => b!"ddwrt" | .edgeos => b!"edgeos"
  | .synology => b!"synology" | .ubios => b!"ubios" | .firewalla => b!"firewalla" | .generic => b!"generic"

def fwOfName (n : Bytes) : Option Fw := Fw.all.find? fun f => f.name = n

/-- detectRouter: the first package of the (regenerated) order whose New() succeeds; the package
names are those of the import paths, `generic` always succeeds -/
def detect (order : List Bytes) (s : Sys) : Option Fw :=
  order.findSome? fun n =>
    match fwOfName n with
    | some fw => if detected fw s then some fw else none
    | none => none

end NV.Router
