/-
  NV.Model.Profile — executable model of config/profile.go (profile selection, C11), of the
  static/dynamic `GetProfileURL` choice in run.go and of the URL the DoH resolver uses.

  IP addresses are byte lists as in Go (`net.IP`: 4 or 16 bytes, any other length is "not an
  address"); a nil slice is `none` where the Go code tests `== nil`, and the empty list where it
  tests `len(..) == 0`.

  Modelled, following the Go code statement by statement:
    net.IP.To4, networkNumberAndMask, IPNet.Contains, IP.Equal   (Go 1.23 net/ip.go)
    profile.Match, profile.isDefault, Profiles.Get, Profiles.Set (replacement rule), ipListEqual
    run.go: `if len(c.Profile) == 0 || (len(c.Profile) == 1 && c.Profile.Get(nil, nil, nil) != "")`
    run.go: url = "https://dns.nextdns.io/" + profile ; resolver/doh.go: cache key ctx = url, request URL = url

  Assumptions about external calls (recorded once):
   * `newConfig`'s parsing (net.ParseCIDR, net.ParseMAC, net.InterfaceByName/Addrs) is NOT modelled:
     the harness feeds each value through the real parser and hands the parsed fields to the model.
     Consequently MAC and DestIPs are nil or non-empty (ParseMAC never returns an empty address), so
     "nil" and "len == 0" coincide for them; the model uses the empty list for both.
   * `IPNet.String()` equality in `Profiles.Set` is modelled as equality of `networkNumberAndMask`
     (String prints exactly that pair; for the canonical masks ParseCIDR produces the text is injective).
   * `url.Parse` (inside http.NewRequest) is modelled only for ids made of URL-unreserved characters:
     path = everything from the first '/' after the authority.
-/
import NV.Model.Wire
namespace NV.Prof
open NV

/-- Go `*net.IPNet` -/
structure IPNet where
  ip : Bytes
  mask : Bytes
deriving Repr, DecidableEq, Inhabited

/-- Go `config.profile` -/
structure Profile where
  id : Bytes
  pfx : Option IPNet := none     -- Prefix (nil = none)
  mac : Bytes := []              -- MAC
  dest : List Bytes := []        -- DestIPs
deriving Repr, DecidableEq, Inhabited

/-- what `Profiles.Get` is asked about: `q.PeerIP`, `q.LocalIP`, `q.MAC` -/
structure Client where
  src : Option Bytes := none
  dst : Option Bytes := none
  mac : Bytes := []
deriving Repr, DecidableEq, Inhabited

def v4InV6Prefix : Bytes := [0, 0, 0, 0, 0, 0, 0, 0, 0, 0, 255, 255]

/-- Go `IP.To4` (nil = none) -/
def to4 (ip : Bytes) : Option Bytes :=
  if ip.length = 4 then some ip
  else if ip.length = 16 ∧ ip.take 12 = v4InV6Prefix then some (ip.drop 12)
  else none

/-- Go `networkNumberAndMask` (nil, nil = [], []) -/
def netNumMask (n : IPNet) : Bytes × Bytes :=
  let ipo : Option Bytes :=
    match to4 n.ip with
    | some x => some x
    | none => if n.ip.length = 16 then some n.ip else none
  match ipo with
  | none => ([], [])
  | some ip =>
    if n.mask.length = 4 then
      if ip.length = 4 then (ip, n.mask) else ([], [])
    else if n.mask.length = 16 then
      if ip.length = 4 then (ip, n.mask.drop 12) else (ip, n.mask)
    else ([], [])

/-- the loop of `IPNet.Contains`: `nn[i]&m[i] == ip[i]&m[i]` for all i < len(ip) -/
def maskedEq : Bytes → Bytes → Bytes → Bool
  | n :: ns, m :: ms, i :: is => (n &&& m) == (i &&& m) && maskedEq ns ms is
  | _, _, _ => true

/-- Go `IPNet.Contains` -/
def contains (n : IPNet) (ip : Bytes) : Bool :=
  let nm := netNumMask n
  let ip' := (to4 ip).getD ip
  if ip'.length ≠ nm.1.length then false else maskedEq nm.1 nm.2 ip'

/-- Go `IP.Equal` -/
def ipEqual (a x : Bytes) : Bool :=
  if a.length = x.length then a == x
  else if a.length = 4 ∧ x.length = 16 then x.take 12 == v4InV6Prefix && a == x.drop 12
  else if a.length = 16 ∧ x.length = 4 then a.take 12 == v4InV6Prefix && a.drop 12 == x
  else false

/-- Go `profile.Match` -/
def matchP (p : Profile) (c : Client) : Bool :=
  let prefixOK : Bool :=
    match p.pfx with
    | none => true
    | some n =>
      match c.src with
      | none => false
      | some ip => contains n ip
  if !prefixOK then false
  else if p.mac.length > 0 ∧ (c.mac.length = 0 ∨ p.mac ≠ c.mac) then false
  else if p.dest.length > 0 then
    match c.dst with
    | none => false
    | some d => p.dest.any fun x => ipEqual x d
  else true

/-- Go `profile.isDefault` -/
def isDefault (p : Profile) : Bool := p.pfx.isNone && p.mac.length == 0 && p.dest.length == 0

/-- the loop of `Profiles.Get` with its `def` variable -/
def getLoop : List Profile → Client → Bytes → Bytes
  | [], _, d => d
  | p :: ps, c, d =>
    if matchP p c then
      if isDefault p then getLoop ps c p.id else p.id
    else getLoop ps c d

/-- Go `Profiles.Get` -/
def getP (ps : List Profile) (c : Client) : Bytes := getLoop ps c []

/-- Go `ipListEqual` -/
def ipListEqual : List Bytes → List Bytes → Bool
  | [], [] => true
  | a :: as, b :: bs => ipEqual a b && ipListEqual as bs
  | _, _ => false

/-- the replacement test of `Profiles.Set` -/
def sameCriteria (p q : Profile) : Bool :=
  (p.mac ≠ [] && q.mac ≠ [] && p.mac == q.mac) ||
  (p.dest ≠ [] && q.dest ≠ [] && ipListEqual p.dest q.dest) ||
  (match p.pfx, q.pfx with
   | some a, some b => netNumMask a == netNumMask b
   | _, _ => false) ||
  (p.mac == [] && p.pfx.isNone && p.dest == [] && q.mac == [] && q.pfx.isNone && q.dest == [])

/-- Go `Profiles.Set` on an already parsed profile `p`: replace the first entry with the same criteria,
else append.  `stored` is what ends up in the list: `p` itself in the Go code (`setP`); the harness
may overwrite `DestIPs` of the entry just stored to reach address lists other than those of the
machine's own interfaces, which is `setStore ps p {p with dest := …}`. -/
def setStore : List Profile → Profile → Profile → List Profile
  | [], _, stored => [stored]
  | q :: qs, p, stored => if sameCriteria p q then stored :: qs else q :: setStore qs p stored

def setP (ps : List Profile) (p : Profile) : List Profile := setStore ps p p

def setAllP (ps : List Profile) : List Profile := ps.foldl setP []

/-! ### run.go: static / dynamic GetProfileURL -/

def nilClient : Client := {}

/-- run.go: `len(c.Profile) == 0 || (len(c.Profile) == 1 && c.Profile.Get(nil, nil, nil) != "")` -/
def staticCond (ps : List Profile) : Bool :=
  ps.length == 0 || (ps.length == 1 && getP ps nilClient != [])

/-- "https://dns.nextdns.io/" -/
def urlPrefix : Bytes :=
  [104, 116, 116, 112, 115, 58, 47, 47, 100, 110, 115, 46, 110, 101, 120, 116, 100, 110, 115, 46, 105, 111, 47]

def profileURL (id : Bytes) : Bytes := urlPrefix ++ id

/-- run.go `GetProfileURL`, either closure: (url, profile) for a query of client `c`.
In the static branch the id is computed once, for the nil client. -/
def getProfileURL (ps : List Profile) (c : Client) : Bytes × Bytes :=
  if staticCond ps then
    let profile := getP ps nilClient
    (profileURL profile, profile)
  else
    let profile := getP ps c
    (profileURL profile, profile)

/-- the request path Go derives from an absolute "https://host/…" URL whose path part has no
'?', '#', '%' : everything from the first '/' after the 8-byte scheme prefix -/
def urlPath (url : Bytes) : Bytes := (url.drop 8).dropWhile (· != 47)

/-- URL-unreserved characters (RFC 3986 §2.3): ALPHA / DIGIT / "-" / "." / "_" / "~" -/
def unreserved (b : UInt8) : Bool :=
  (65 ≤ b && b ≤ 90) || (97 ≤ b && b ≤ 122) || (48 ≤ b && b ≤ 57) || b == 45 || b == 46 || b == 95 || b == 126

/-- resolver/doh.go: the cache context of an answer is the url string (first field of `cacheKey`),
the request goes to `url`; endpoint transports keep the request path (DOHEndpoint.Path = "") -/
def dohCtxAndPath (url : Bytes) : Bytes × Bytes := (url, urlPath url)

/-! ### specification vocabulary -/

def conditional (p : Profile) : Bool := !isDefault p

/-- "the first conditional entry that matches, else the LAST unconditional entry, else none" -/
def getSpec (ps : List Profile) (c : Client) : Bytes :=
  match ps.find? (fun p => conditional p && matchP p c) with
  | some p => p.id
  | none =>
    match (ps.filter isDefault).getLast? with
    | some p => p.id
    | none => []

end NV.Prof
