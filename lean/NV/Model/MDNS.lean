/-
  NV.Model.MDNS — the mDNS tables of discovery/mdns.go: `addEntry`, `removeEntry`,
  `removeOldestEntry`, the ingest loop of `MDNS.read`, and `parseEntries` at record level.

  Time: every `time.Now()` reading is one tick of a logical clock (`clock`).  ASSUMPTION
  (trusted, Go runtime): successive readings of the monotonic clock are strictly increasing
  (nanosecond resolution; the harness spaces direct calls so that this holds).  Under it the
  `lastUpdate` stamps of the name table are pairwise distinct, so the random map iteration order
  of `removeOldestEntry` is unobservable and the model (list order) is deterministic.

  `parseEntries` is modelled on the list of records of a *well-formed* message (questions are
  skipped, answers and additionals are read, authorities skipped; `entries[ip] = qname`, so the
  last record of an address wins); a message the dnsmessage parser rejects is dropped as a whole.
  The wire parsing itself is the real code's in the harness (packets are built with the
  repository's own dnsmessage.Builder) and is trusted at this level; `net.IP.String()` is given.

  `removeOldestEntry` is modelled as REPAIRED (two fix commits): the addresses of the evicted key
  are read from `r.names` (the old code read `r.addrs[oldestName]`, a table keyed by address, so
  nothing was ever removed from `r.addrs`), and every spelling of the key is removed (the
  address table stores names as announced, the name table is keyed by the folded name).
  `removeOldestOld` keeps the old behaviour for the record.
-/
import NV.Model.Discovery
namespace NV.Disc
open NV

structure Entry where
  stamp : Nat := 0
  values : List Str := []
  deriving Repr

abbrev ETbl := List (Str × Entry)

def ETbl.ent (m : ETbl) (k : Str) : Entry := (mget m k).getD {}
def ETbl.vals (m : ETbl) (k : Str) : List Str := (m.ent k).values

/-- `addEntry(entries, key, value)` at clock reading `now` -/
def addEntry (m : ETbl) (key value : Str) (now : Nat) : ETbl :=
  mset m key { stamp := now, values := appendUniq1 (m.vals key) value }

/-- `removeEntry(entries, key, value)`: first occurrence removed; an empty entry is deleted -/
def removeEntry (m : ETbl) (key value : Str) : ETbl :=
  let e := m.ent key
  let vs := e.values.erase value
  if vs.length = 0 then mdel m key else mset m key { e with values := vs }

structure MState where
  addrs : ETbl := []
  names : ETbl := []
  clock : Nat := 1

/-- the scan of `removeOldestEntry`: `(oldestName, oldestTime)` -/
def oldestAux : ETbl → Str → Nat → Str × Nat
  | [], k, t => (k, t)
  | (k', e) :: rest, k, t => if e.stamp < t then oldestAux rest k' e.stamp else oldestAux rest k t

/-- remove from `addrs[addr]` every announced name that folds to `key` -/
def removeFolded (am : ETbl) (key addr : Str) : ETbl :=
  ((am.vals addr).filter fun n => prepareHostLookup n == key).foldl (fun am n => removeEntry am addr n) am

/-- `removeOldestEntry` (repaired); consumes one clock reading -/
def removeOldest (s : MState) : MState :=
  let now := s.clock
  let o := oldestAux s.names [] now
  let s' := { s with clock := now + 1 }
  if o.1 ≠ [] then
    let addrs := s.names.vals o.1
    { s' with names := mdel s.names o.1, addrs := addrs.foldl (fun am a => removeFolded am o.1 a) s.addrs }
  else s'

/-- the code before the repairs: `addrs := r.addrs[oldestName].values` -/
def removeOldestOld (s : MState) : MState :=
  let now := s.clock
  let o := oldestAux s.names [] now
  let s' := { s with clock := now + 1 }
  if o.1 ≠ [] then
    let addrs := s.addrs.vals o.1
    { s' with names := mdel s.names o.1, addrs := addrs.foldl (fun am a => removeEntry am a o.1) s.addrs }
  else s'

/-- `for len(r.names) > cap { r.removeOldestEntry() }`; `fuel` bounds the iterations -/
def evictLoop (cap : Nat) : Nat → MState → MState
  | 0, s => s
  | fuel + 1, s => if s.names.length > cap then evictLoop cap fuel (removeOldest s) else s

/-- body of `for addr, name := range entries` in `MDNS.read` -/
def ingestOne (cap : Nat) (s : MState) (e : Str × Str) : MState :=
  let addr := e.1
  if isValidName e.2 then
    let name := absName e.2
    let key := absName (lower name)
    let s1 : MState := { s with addrs := addEntry s.addrs addr name s.clock, clock := s.clock + 1 }
    let s2 : MState := { s1 with names := addEntry s1.names key addr s1.clock, clock := s1.clock + 1 }
    evictLoop cap (s2.names.length + 1) s2
  else s

/-- one packet = the entries of its `map[string]string` in the order the map iteration visits them -/
def ingestPacket (cap : Nat) (s : MState) (entries : List (Str × Str)) : MState :=
  entries.foldl (ingestOne cap) s

def run (cap : Nat) (pkts : List (List (Str × Str))) : MState := pkts.foldl (ingestPacket cap) {}

def mdnsMaxEntries : Nat := 1000

/-! ### parseEntries at record level -/

/-- section of a record: 0 answer, 1 authority, 2 additional -/
structure Rec where
  sec : Nat
  isAddr : Bool      -- type A or AAAA
  name : Str         -- owner name as `Name.String()` prints it
  addr : Str         -- `net.IP(rdata).String()`
  deriving Repr

/-- `entries[ip] = qname` for the A/AAAA records of the answer and additional sections, in order -/
def parseEntries (recs : List Rec) : List (Str × Str) :=
  let sel := recs.filter fun r => r.isAddr && (r.sec = 0 || r.sec = 2)
  let ordered := sel.filter (·.sec = 0) ++ sel.filter (·.sec = 2)
  ordered.foldl (fun m r => mset m r.addr r.name) []

def strLe (a b : Str) : Bool := !strLt b a

/-- canonical iteration order used by the driver for one packet (sorted by address) -/
def sortEntries (es : List (Str × Str)) : List (Str × Str) := es.mergeSort fun a b => strLe a.1 b.1

end NV.Disc
