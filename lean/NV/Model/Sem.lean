/-
  NV.Model.Sem — a counting semaphore of K units shared by any number of threads, each walking
  the control-flow graph of its function (NV.Model.CFG): listener loops, connection loops and
  the handler goroutines they spawn. Every interleaving of the threads' events is a run of `Step`.

  A thread blocks on `acq` while no unit is free (Go: send on a full buffered channel); `spawn`
  starts a new thread of the child program which takes over one unit; when a thread leaves its
  function — by reaching an exit block, or, for `strict` programs, by a panic at any point after a
  deferred release was installed — its deferred releases run.
-/
import NV.Model.CFG
namespace NV.Sem
open NV.CFG

structure PInfo where
  prog : Prog
  cert : Cert
  init : St
  strict : Bool
  /-- index (in the program table) of the closure started by `spawn` events of this program -/
  child : Nat

structure Thread where
  pid : Nat
  blk : Nat
  done : List Ev
  rest : List Ev
  s0 : St          -- state at the entry of the current block
  st : St          -- current state
  deriving Repr

structure Sys where
  free : Int
  threads : List Thread

def heldSum : List Thread → Int
  | [] => 0
  | t :: ts => t.st.1 + heldSum ts

abbrev Table := List PInfo

def startThread (tab : Table) (pid : Nat) : Option Thread :=
  match tab[pid]? with
  | none => none
  | some pi => match pi.prog[0]? with
    | none => none
    | some b => some { pid := pid, blk := 0, done := [], rest := b.evs, s0 := pi.init, st := pi.init }

/-- one atomic step of one thread (index `i` in the thread list) -/
inductive Step (tab : Table) : Sys → Sys → Prop where
  | ev (s : Sys) (i : Nat) (t : Thread) (e : Ev) (r : List Ev) :
      s.threads[i]? = some t → t.rest = e :: r → e ≠ .spawn → (e = .acq → 1 ≤ s.free) →
      Step tab s { free := s.free - (if e = .acq then 1 else 0) + (if e = .rel then 1 else 0),
                   threads := s.threads.set i { t with done := t.done ++ [e], rest := r, st := e.apply t.st } }
  | spawn (s : Sys) (i : Nat) (t : Thread) (r : List Ev) (pi : PInfo) (c : Thread) :
      s.threads[i]? = some t → t.rest = .spawn :: r → tab[t.pid]? = some pi →
      startThread tab pi.child = some c →
      Step tab s { free := s.free,
                   threads := s.threads.set i { t with done := t.done ++ [.spawn], rest := r, st := Ev.spawn.apply t.st } ++ [c] }
  | next (s : Sys) (i : Nat) (t : Thread) (pi : PInfo) (b b' : Block) (j : Nat) :
      s.threads[i]? = some t → t.rest = [] → tab[t.pid]? = some pi → pi.prog[t.blk]? = some b →
      j ∈ b.succs → pi.prog[j]? = some b' →
      Step tab s { free := s.free,
                   threads := s.threads.set i { t with blk := j, done := [], rest := b'.evs, s0 := t.st } }
  | exit (s : Sys) (i : Nat) (t : Thread) (pi : PInfo) (b : Block) :
      s.threads[i]? = some t → t.rest = [] → tab[t.pid]? = some pi → pi.prog[t.blk]? = some b →
      b.succs = [] →
      Step tab s { free := s.free + t.st.2, threads := s.threads.eraseIdx i }
  | panic (s : Sys) (i : Nat) (t : Thread) (pi : PInfo) :
      s.threads[i]? = some t → tab[t.pid]? = some pi → pi.strict = true → 0 < t.st.2 →
      Step tab s { free := s.free + t.st.2, threads := s.threads.eraseIdx i }

/-- a thread is where its program's CFG says it can be -/
def ThreadOK (tab : Table) (t : Thread) : Prop :=
  ∃ pi b, tab[t.pid]? = some pi ∧ Reach pi.prog pi.init t.blk t.s0 ∧ pi.prog[t.blk]? = some b ∧
    b.evs = t.done ++ t.rest ∧ t.st = runEvs t.done t.s0

/-- the table is certified: every program passes its certificate check, starts clean, and the
closure a program spawns is entered holding exactly the unit handed over -/
def TableOK (tab : Table) : Prop :=
  ∀ pi ∈ tab, check pi.strict pi.prog pi.cert pi.init = true ∧ 0 ≤ pi.init.1 ∧ pi.init.2 = 0 ∧
    (∀ pc, tab[pi.child]? = some pc → pc.init = (1, 0) ∨ ¬ ∃ b ∈ pi.prog, Ev.spawn ∈ b.evs)

/-- decidable version of `TableOK` (evaluated by `decide` on the regenerated table) -/
def tableOkB (tab : Table) : Bool :=
  tab.all fun pi =>
    check pi.strict pi.prog pi.cert pi.init && decide (0 ≤ pi.init.1) && decide (pi.init.2 = 0) &&
      ((tab[pi.child]?.map (·.init) == some (1, 0)) || !(pi.prog.any fun b => b.evs.contains .spawn))

def Inv (tab : Table) (K : Int) (s : Sys) : Prop :=
  s.free + heldSum s.threads = K ∧ 0 ≤ s.free ∧ ∀ t ∈ s.threads, ThreadOK tab t

end NV.Sem
