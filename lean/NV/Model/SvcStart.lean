/-
  NV.Model.SvcStart — run.go `(*proxySvc).Start`: the retry loop around `p.start()`.

  One attempt (`p.start()`) runs ListenAndServe in a goroutine and waits 5 s for its error:
    * `bound`        no error within the wait: every listener is serving;
    * `unreachable`  an error `isErrNetUnreachable` accepts (ENETUNREACH, or its text) — Start
                     sleeps (100 ms, doubling) and tries again, for ever;
    * `failed`       any other error (EADDRINUSE, EACCES, …) — Start returns it.
  `svcStart` folds Start over the outcomes of successive attempts; when the list is exhausted
  while Start is still retrying the result is `waiting` (Start has not returned).
  The OnStarted hooks (router setup, system DNS activation) run exactly when the result is
  `started`.
-/
namespace NV.SvcStart

inductive Att where
  | bound | unreachable | failed
  deriving Repr, DecidableEq, Inhabited

inductive Res where
  | started | error | waiting
  deriving Repr, DecidableEq, Inhabited

def svcStart : List Att → Res
  | [] => .waiting
  | .bound :: _ => .started
  | .failed :: _ => .error
  | .unreachable :: rest => svcStart rest

/-- do the OnStarted hooks run? -/
def hooksRun (as : List Att) : Bool := svcStart as == .started

/-- what one attempt reports, from what ListenAndServe did within the wait: `none` = still
serving, `some unreach` = returned an error, `unreach` telling whether isErrNetUnreachable
accepts it. -/
def attempt : Option Bool → Att
  | none => .bound
  | some true => .unreachable
  | some false => .failed

/-- `Stop()` after a start that reported success: `stop()` finds `stopFunc` set (it is set by the
attempt and only cleared by `stop()` itself), cancels, waits for `stopped` — closed whether
ListenAndServe is still serving or has already returned on its own — and the OnStopped hooks run.
`started`: Start returned nil; `died`: the listeners went away by themselves afterwards. -/
def stopHooks (started died : Bool) : Nat :=
  let _ := died
  if started then 1 else 0

def Res.str : Res → String
  | .started => "started" | .error => "error" | .waiting => "waiting"

end NV.SvcStart
