/-
  NV.Model.Reply — proxy/util.go `replyRCode` through the `dnsmessage.Builder` subset it uses
  (NewBuilder, StartQuestions, Question, Finish with compression disabled), the UDP truncation
  block of proxy/udp.go, TCP framing of proxy/tcp.go, and the handler's outcome mapping.
-/
import NV.Model.Query
namespace NV

/-- `Name.pack` without compression: split at dots; every segment non-empty and < 64 bytes;
the name must be non-empty and end with a dot.  `none` = the Go function returns an error. -/
def packLabels : Bytes → Bytes → Option Bytes
  | [], seg => if seg.isEmpty then some [0] else none   -- unreachable when name ends with '.'
  | c :: rest, seg =>
    if c = 46 then
      if seg.length ≥ 64 then none
      else if seg.length = 0 then none
      else (packLabels rest []).map fun tail => (UInt8.ofNat seg.length :: seg) ++ tail
    else packLabels rest (seg ++ [c])

def packName (name : Bytes) : Option Bytes :=
  if name.length = 0 ∨ name.length > 255 then none
  else if name.getLast? ≠ some 46 then none
  else if name = [46] then some [0]
  else packLabels name []

/-- `replyRCode(rcode, q, buf)` -/
def replyRCode (rcode : Nat) (q : Query) : Bytes :=
  let bits := 32768 + rcode
  match packName q.name with
  | some n => be16 q.id ++ be16 bits ++ be16 1 ++ be16 0 ++ be16 0 ++ be16 0 ++ n ++ be16 q.type ++ be16 q.cls
  | none => be16 q.id ++ be16 bits ++ be16 0 ++ be16 0 ++ be16 0 ++ be16 0

def maxUDPSize : Nat := 512
def maxDNS0Size : Nat := 4094
def maxTCPSize : Nat := 65535

/-- the truncation block of `serveUDP`: (new rsize, TC bit set?) -/
def udpTrunc (rsize msgSize : Nat) : Nat × Bool :=
  if rsize > maxUDPSize ∧ (rsize > msgSize ∨ rsize > maxDNS0Size) then
    if msgSize > maxUDPSize then
      if rsize > msgSize then (msgSize, true) else (rsize, true)
    else (maxUDPSize, true)
  else (rsize, false)

/-- outcome of `p.Resolve`: the bytes written to `rbuf[:n]` with `n = length`, or an error.
`n ≤ 0` is represented by `bytes []`; `n > maxTCPSize` cannot happen for a 65535-byte buffer. -/
inductive Outcome where
  | bytes (b : Bytes)
  | error
  deriving Repr, DecidableEq, Inhabited

/-- `rbuf[:rsize]` after the SERVFAIL substitution -/
def resolved (q : Query) (o : Outcome) : Bytes :=
  match o with
  | .error => replyRCode 2 q
  | .bytes b => if b.length = 0 ∨ b.length > maxTCPSize then replyRCode 2 q else b

def setTC (m : Bytes) : Bytes := m.set 2 (UInt8.ofNat (byteAt m 2 ||| 2))

/-- bytes handed to `WriteMsgUDP` -/
def udpReply (q : Query) (o : Outcome) : Bytes :=
  let r := resolved q o
  let (n, tc) := udpTrunc r.length q.msgSize
  (if tc then setTC r else r).take n

/-- bytes written to the TCP connection by `writeTCP` -/
def tcpReply (q : Query) (o : Outcome) : Bytes :=
  let r := resolved q o
  be16 (r.length % 65536) ++ r

end NV
