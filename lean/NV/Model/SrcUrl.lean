/-
  NV.Model.SrcUrl — resolver/endpoint/endpoint.go `(*SourceURLProvider).GetEndpoints`: the provider run.go uses for the list
  of NextDNS endpoints.  Every call fetches a JSON list; an element Equal to one the PREVIOUS successful call returned is
  replaced by that earlier object (its connection pool stays warm) — the LAST such one, the loop has no break —, the others are
  new objects; the list returned becomes the new "previous" list; a failed call (transport error, undecodable body) returns an
  error and leaves the previous list as it was.  Objects are named by the order of their creation.
-/
namespace NV.SrcUrl

/-- a DoH endpoint as the JSON gives it: host name, path, bootstrap addresses -/
structure Ep where
  host : String
  path : String
  ips : List String
  deriving DecidableEq, Repr, Inhabited

structure St where
  prev : List (Nat × Ep) := []
  next : Nat := 0
  deriving Repr, Inhabited

/-- the object standing for `e` in the list about to be returned -/
def pick (prev : List (Nat × Ep)) (next : Nat) (e : Ep) : (Nat × Ep) × Nat :=
  match (prev.filter fun p => p.2 == e).getLast? with
  | some p => (p, next)
  | none => ((next, e), next + 1)

def build (prev : List (Nat × Ep)) : Nat → List Ep → List (Nat × Ep) × Nat
  | next, [] => ([], next)
  | next, e :: es =>
    let (o, n1) := pick prev next e
    let (rest, n2) := build prev n1 es
    (o :: rest, n2)

/-- one call: `none` = the fetch or the decoding failed -/
def step (s : St) : Option (List Ep) → St × Option (List (Nat × Ep))
  | none => (s, none)
  | some doc =>
    let (objs, n) := build s.prev s.next doc
    ({ prev := objs, next := n }, some objs)

end NV.SrcUrl
