/-
  NV.Model.SvcLife — the life cycle of run.go's `proxySvc` as the service manager drives it:
  `Start`, `Stop`, `Restart`, and the listeners dying on their own, over ANY sequence of those.

  State of the real object that matters:
    * `stopSet`   `p.stopFunc ≠ nil`.  Every attempt `p.start()` spawns the goroutine whose first
                  statement assigns `p.stopFunc` — whether ListenAndServe then serves or fails, the
                  field stays set; only `stop()` clears it.
    * `serving`   the ListenAndServe goroutine of the last attempt is still serving.
    * `log`       the hook rounds run so far: `up` = one pass over `OnStarted` (router Setup,
                  system-DNS activation), `down` = one pass over `OnStopped` (Restore, deactivation).
  Operations:
    * `start as`  `Start()` with the outcomes `as` of its successive attempts (NV.SvcStart);
    * `stop`      `Stop()`: `if p.stop() { run OnStopped }`, `stop()` = "nothing to do when
                  stopFunc is nil; otherwise cancel, clear the field, wait for `stopped`";
    * `restart a` `Restart()`: `stop()` WITHOUT hooks, then one attempt `p.start()`;
    * `die`       the listeners go away under the running service (ListenAndServe returns).
  `Start()` on a service that is still serving is outside the model (the second instance would
  overwrite `stopFunc` and orphan the first; no caller does that): `step` answers `none`.
-/
import NV.Model.SvcStart
namespace NV.SvcLife
open NV.SvcStart

inductive Hook where
  | up | down
  deriving Repr, DecidableEq, Inhabited

structure St where
  stopSet : Bool := false
  serving : Bool := false
  log : List Hook := []
  deriving Repr, DecidableEq, Inhabited

inductive Op where
  | start (as : List Att)
  | stop
  | restart (a : Att)
  | die
  deriving Repr, DecidableEq, Inhabited

/-- what the call returned: `ok` = nil, `err`, `hung` = has not returned (Start still retrying) -/
inductive Ret where
  | ok | err | hung
  deriving Repr, DecidableEq, Inhabited

def init : St := {}

/-- `p.stop()`: the new state and its boolean result -/
def stopInner (s : St) : St × Bool :=
  if s.stopSet then ({ s with stopSet := false, serving := false }, true) else (s, false)

/-- one attempt `p.start()` on a service that is not serving -/
def attemptSt (s : St) (a : Att) : St :=
  { s with stopSet := true, serving := (a == .bound) }

def step (s : St) : Op → Option (St × Ret)
  | .start as =>
    if s.serving then none else
    match svcStart as with
    | .started => some ({ stopSet := true, serving := true, log := s.log ++ [.up] }, .ok)
    | .error => some ({ s with stopSet := true, serving := false }, .err)
    | .waiting => some ({ s with stopSet := (s.stopSet || !as.isEmpty), serving := false }, .hung)
  | .stop =>
    let (s', ran) := stopInner s
    some (if ran then { s' with log := s'.log ++ [.down] } else s', .ok)
  | .restart a =>
    let (s', _) := stopInner s
    some (attemptSt s' a, if a == .bound then .ok else .err)
  | .die => some ({ s with serving := false }, .ok)

/-- run a whole history; `none` as soon as an operation is outside the model -/
def run : St → List Op → Option St
  | s, [] => some s
  | s, o :: os => match step s o with
    | none => none
    | some (s', _) => run s' os

def ups (s : St) : Nat := (s.log.filter (· == .up)).length
def downs (s : St) : Nat := (s.log.filter (· == .down)).length

/-- the invariant of every reachable state:
    a serving instance can always be stopped (its cancel function is not lost), and a service
    whose last hook round was `up` (router set up, system DNS activated) still has its
    `stopFunc` — so the next `Stop()` will run the `down` round. -/
def Good (s : St) : Prop :=
  (s.serving = true → s.stopSet = true) ∧
  (s.log.getLast? = some .up → s.stopSet = true)


/-! ### The run loops that drive the object (host/service/run_unix.go `runService`, run.go `runForeground`) -/

/-- a signal delivered to the process; `other` = any signal whose default disposition does not end the process -/
inductive Sig where
  | term | hup | int | other
  deriving Repr, DecidableEq, Inhabited

/-- does the loop answer this signal with `r.Stop()`?  As a service only SIGTERM does (every other
signal is logged and ignored); in the foreground SIGHUP, SIGTERM and interrupt do. -/
def stopsOn (fg : Bool) : Sig → Bool
  | .term => true
  | .hup => fg
  | .int => fg
  | .other => false

/-- the calls a run loop makes on the service object: `Start()`; when it fails the loop returns at
once (no `Stop()`); when it succeeded, `Stop()` at the first stopping signal. -/
def runLoopOps (fg : Bool) (as : List Att) (sigs : List Sig) : List Op :=
  .start as :: (if svcStart as = .started ∧ sigs.any (stopsOn fg) = true then [.stop] else [])

end NV.SvcLife
