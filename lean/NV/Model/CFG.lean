/-
  NV.Model.CFG — resource-balance certificates over control-flow graphs regenerated from the
  Go source by /verif/extract (go/cfg).

  A `Prog` is the CFG of one Go function projected on ONE counted resource (a semaphore unit, a
  mutex in one mode): blocks carry the resource events in program order, edges are the CFG edges.
  State = (held, deferred): units held by this thread, and releases registered with `defer`.
  A certificate gives the state at the entry of every block; `check` verifies it locally
  (entry state, every edge, every exit, no release of something not held, `need` satisfied).
  `cert_sound` lifts the local check to EVERY path of any length (loops unbounded), by induction.

  `strict` additionally demands `held = deferred` at every point where a deferred release is
  installed: a panic at any such point unwinds through the deferred function and is balanced
  (handler closures with `recover`).
-/
namespace NV.CFG

inductive Ev where
  | acq        -- acquire one unit (channel send on the semaphore, Lock/RLock)
  | rel        -- release one unit (channel receive, Unlock/RUnlock)
  | spawn      -- `go func(){…}()` that takes over one unit from this thread
  | deferRel   -- `defer` of a function that releases one unit
  | need       -- call of a function that requires the unit to be held (…Locked callee)
  | nop
  deriving Repr, DecidableEq, Inhabited

abbrev St := Int × Int   -- (held, deferred)

def Ev.apply : Ev → St → St
  | .acq, (h, d) => (h + 1, d)
  | .rel, (h, d) => (h - 1, d)
  | .spawn, (h, d) => (h - 1, d)
  | .deferRel, (h, d) => (h, d + 1)
  | .need, s => s
  | .nop, s => s

/-- is the state acceptable right after event `e`? -/
def Ev.okAfter (strict : Bool) (e : Ev) (s : St) : Bool :=
  let s' := e.apply s
  decide (0 ≤ s'.1) && (e != .need || decide (1 ≤ s.1)) &&
    (!strict || decide (s'.2 = 0) || decide (s'.1 = s'.2))

def runEvs (evs : List Ev) (s : St) : St := evs.foldl (fun s e => e.apply s) s

def evsOk (strict : Bool) : List Ev → St → Bool
  | [], _ => true
  | e :: es, s => e.okAfter strict s && evsOk strict es (e.apply s)

structure Block where
  evs : List Ev
  succs : List Nat
  deriving Repr, Inhabited

abbrev Prog := List Block
abbrev Cert := List St

def checkBlock (strict : Bool) (cert : Cert) (i : Nat) (b : Block) : Bool :=
  match cert[i]? with
  | none => false
  | some s0 =>
    evsOk strict b.evs s0 &&
    (let s1 := runEvs b.evs s0
     if b.succs.isEmpty then decide (s1.1 = s1.2)
     else b.succs.all fun j => cert[j]? == some s1)

def checkFrom (strict : Bool) (cert : Cert) : Nat → List Block → Bool
  | _, [] => true
  | i, b :: bs => checkBlock strict cert i b && checkFrom strict cert (i + 1) bs

/-- the whole certificate check (decidable, evaluated by `decide` on the generated programs) -/
def check (strict : Bool) (p : Prog) (cert : Cert) (init : St) : Bool :=
  (cert[0]? == some init) && checkFrom strict cert 0 p

/-- `Reach p init i s`: some path of the CFG from the entry block reaches the ENTRY of block `i`
in state `s`. -/
inductive Reach (p : Prog) (init : St) : Nat → St → Prop where
  | entry : Reach p init 0 init
  | step {i j : Nat} {s : St} {b : Block} :
      Reach p init i s → p[i]? = some b → j ∈ b.succs → Reach p init j (runEvs b.evs s)

theorem checkFrom_get (strict : Bool) (cert : Cert) :
    ∀ (bs : List Block) (k i : Nat) (b : Block), checkFrom strict cert k bs = true →
      bs[i]? = some b → checkBlock strict cert (k + i) b = true := by
  intro bs
  induction bs with
  | nil => intro k i b _ h; simp at h
  | cons b0 bs ih =>
    intro k i b hc hg
    simp only [checkFrom, Bool.and_eq_true] at hc
    cases i with
    | zero => simp at hg; subst hg; simpa using hc.1
    | succ n =>
      simp at hg
      have := ih (k + 1) n b hc.2 hg
      rw [show k + (n + 1) = k + 1 + n by omega]; exact this

theorem check_block (strict : Bool) (p : Prog) (cert : Cert) (init : St)
    (h : check strict p cert init = true) (i : Nat) (b : Block) (hb : p[i]? = some b) :
    checkBlock strict cert i b = true := by
  simp only [check, Bool.and_eq_true] at h
  have := checkFrom_get strict cert p 0 i b h.2 hb
  simpa using this

/-- **soundness**: a locally consistent certificate describes the state at the entry of every
block on every path, however long. -/
theorem cert_sound (strict : Bool) (p : Prog) (cert : Cert) (init : St)
    (h : check strict p cert init = true) :
    ∀ i s, Reach p init i s → cert[i]? = some s := by
  intro i s hr
  induction hr with
  | entry =>
    simp only [check, Bool.and_eq_true] at h
    simpa using h.1
  | @step i j s b _ hb hj ih =>
    have hc := check_block strict p cert init h i b hb
    simp only [checkBlock, ih, Bool.and_eq_true] at hc
    have hne : b.succs.isEmpty = false := by
      cases hs : b.succs with
      | nil => rw [hs] at hj; simp at hj
      | cons _ _ => rfl
    rw [hne] at hc
    simp only [Bool.false_eq_true, ↓reduceIte, List.all_eq_true] at hc
    have := hc.2 j hj
    simpa using this

/-- every exit (a block without successors: `return`, end of function) is reached balanced:
everything acquired on the way was released, handed to a spawned handler, or is covered by an
installed deferred release. -/
theorem exit_balanced (strict : Bool) (p : Prog) (cert : Cert) (init : St)
    (h : check strict p cert init = true) (i : Nat) (s : St) (b : Block)
    (hr : Reach p init i s) (hb : p[i]? = some b) (hexit : b.succs = []) :
    (runEvs b.evs s).1 = (runEvs b.evs s).2 := by
  have hs := cert_sound strict p cert init h i s hr
  have hc := check_block strict p cert init h i b hb
  simp only [checkBlock, hs, Bool.and_eq_true, hexit] at hc
  simpa using hc.2

theorem evsOk_prefix (strict : Bool) :
    ∀ (pre : List Ev) (e : Ev) (post : List Ev) (s : St),
      evsOk strict (pre ++ e :: post) s = true → e.okAfter strict (runEvs pre s) = true := by
  intro pre
  induction pre with
  | nil => intro e post s h; simp only [List.nil_append, evsOk, Bool.and_eq_true] at h; exact h.1
  | cons a pre ih =>
    intro e post s h
    simp only [List.cons_append, evsOk, Bool.and_eq_true] at h
    have := ih e post (a.apply s) h.2
    simpa [runEvs] using this

/-- at every program point of every path: the counter never goes negative (no release of a unit
that is not held), every `need` finds the unit held, and — for `strict` programs — once a
deferred release is installed the thread holds exactly what the deferred functions give back. -/
theorem point_ok (strict : Bool) (p : Prog) (cert : Cert) (init : St)
    (h : check strict p cert init = true) (i : Nat) (s : St) (b : Block)
    (hr : Reach p init i s) (hb : p[i]? = some b) (pre : List Ev) (e : Ev) (post : List Ev)
    (hsplit : b.evs = pre ++ e :: post) :
    e.okAfter strict (runEvs pre s) = true := by
  have hs := cert_sound strict p cert init h i s hr
  have hc := check_block strict p cert init h i b hb
  simp only [checkBlock, hs, Bool.and_eq_true] at hc
  rw [hsplit] at hc
  exact evsOk_prefix strict pre e post s hc.1


/-! ### leak-tolerant variant

For resources that may be dropped (a pooled buffer still owned at `return` goes to the garbage
collector): an exit is acceptable when the deferred releases do not exceed what is held. The
per-event conditions (no release of something not held, `need` satisfied, `strict`) are the same. -/

def checkBlockL (strict : Bool) (cert : Cert) (i : Nat) (b : Block) : Bool :=
  match cert[i]? with
  | none => false
  | some s0 =>
    evsOk strict b.evs s0 &&
    (let s1 := runEvs b.evs s0
     if b.succs.isEmpty then decide (s1.2 ≤ s1.1)
     else b.succs.all fun j => cert[j]? == some s1)

def checkFromL (strict : Bool) (cert : Cert) : Nat → List Block → Bool
  | _, [] => true
  | i, b :: bs => checkBlockL strict cert i b && checkFromL strict cert (i + 1) bs

def checkL (strict : Bool) (p : Prog) (cert : Cert) (init : St) : Bool :=
  (cert[0]? == some init) && checkFromL strict cert 0 p

theorem checkFromL_get (strict : Bool) (cert : Cert) :
    ∀ (bs : List Block) (k i : Nat) (b : Block), checkFromL strict cert k bs = true →
      bs[i]? = some b → checkBlockL strict cert (k + i) b = true := by
  intro bs
  induction bs with
  | nil => intro k i b _ h; simp at h
  | cons b0 bs ih =>
    intro k i b hc hg
    simp only [checkFromL, Bool.and_eq_true] at hc
    cases i with
    | zero => simp at hg; subst hg; simpa using hc.1
    | succ n =>
      simp at hg
      have := ih (k + 1) n b hc.2 hg
      rw [show k + (n + 1) = k + 1 + n by omega]; exact this

theorem checkL_block (strict : Bool) (p : Prog) (cert : Cert) (init : St)
    (h : checkL strict p cert init = true) (i : Nat) (b : Block) (hb : p[i]? = some b) :
    checkBlockL strict cert i b = true := by
  simp only [checkL, Bool.and_eq_true] at h
  have := checkFromL_get strict cert p 0 i b h.2 hb
  simpa using this

theorem cert_soundL (strict : Bool) (p : Prog) (cert : Cert) (init : St)
    (h : checkL strict p cert init = true) :
    ∀ i s, Reach p init i s → cert[i]? = some s := by
  intro i s hr
  induction hr with
  | entry =>
    simp only [checkL, Bool.and_eq_true] at h
    simpa using h.1
  | @step i j s b _ hb hj ih =>
    have hc := checkL_block strict p cert init h i b hb
    simp only [checkBlockL, ih, Bool.and_eq_true] at hc
    have hne : b.succs.isEmpty = false := by
      cases hs : b.succs with
      | nil => rw [hs] at hj; simp at hj
      | cons _ _ => rfl
    rw [hne] at hc
    simp only [Bool.false_eq_true, ↓reduceIte, List.all_eq_true] at hc
    have := hc.2 j hj
    simpa using this

theorem point_okL (strict : Bool) (p : Prog) (cert : Cert) (init : St)
    (h : checkL strict p cert init = true) (i : Nat) (s : St) (b : Block)
    (hr : Reach p init i s) (hb : p[i]? = some b) (pre : List Ev) (e : Ev) (post : List Ev)
    (hsplit : b.evs = pre ++ e :: post) :
    e.okAfter strict (runEvs pre s) = true := by
  have hs := cert_soundL strict p cert init h i s hr
  have hc := checkL_block strict p cert init h i b hb
  simp only [checkBlockL, hs, Bool.and_eq_true] at hc
  rw [hsplit] at hc
  exact evsOk_prefix strict pre e post s hc.1

/-- at an exit nothing more is given back than is held (no double release through `defer`) -/
theorem exit_no_excessL (strict : Bool) (p : Prog) (cert : Cert) (init : St)
    (h : checkL strict p cert init = true) (i : Nat) (s : St) (b : Block)
    (hr : Reach p init i s) (hb : p[i]? = some b) (hexit : b.succs = []) :
    (runEvs b.evs s).2 ≤ (runEvs b.evs s).1 := by
  have hs := cert_soundL strict p cert init h i s hr
  have hc := checkL_block strict p cert init h i b hb
  simp only [checkBlockL, hs, Bool.and_eq_true, hexit] at hc
  simpa using hc.2

end NV.CFG
