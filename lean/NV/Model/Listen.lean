/-
  NV.Model.Listen — the start-up / shutdown protocol of `Proxy.ListenAndServe` (proxy/proxy.go)
  as a small-step system: one main thread and any number of listener threads (two per address).

  Listener thread (one `go func(addr)`):
    start --bindFail--> failed --send(bind)--> sent --cancel--> done
    start --bindOk-->  bound --register--> serving --serveRet (socket closed)--> ret
          --send(closed)--> sent --cancel--> done
  `register` is the critical section of `register(close)`: when the shutdown sweep has already
  happened (`closedFlag`) the socket is closed at once, otherwise it is recorded for the sweep.
  Every listener sends its error BEFORE it cancels the context.
  Main thread: waiting --wake (ctx.Done)--> pushed (errs <- ctx.Err()) --sweep--> swept
               --collect (all listeners have reported)--> returned e
  `stop` is the external cancellation of the parent context (service stop), at any time.

  `collect` returns the first error that is not Canceled (the loop
  `(err == nil || errors.Is(err, Canceled)) && e != nil ⇒ err = e`).

  `stepOld` is the protocol before the repair (no `closedFlag` test on registration; cancel before
  send), kept to state that the leak was real (`NV.C16.leak_reachable_old`).
-/
namespace NV.Listen

inductive Err where
  | bind | closed | canceled
  deriving DecidableEq, Repr, Inhabited

inductive LPc where
  | start | failed | bound | serving | ret | sent | done
  deriving DecidableEq, Repr, Inhabited

structure L where
  pc : LPc := .start
  sockOpen : Bool := false
  registered : Bool := false
  bindFailed : Bool := false
  deriving DecidableEq, Repr, Inhabited

inductive MPc where
  | waiting | pushed | swept | returned (e : Err)
  deriving DecidableEq, Repr, Inhabited

structure S where
  ls : List L
  cancelled : Bool := false
  stopped : Bool := false
  closedFlag : Bool := false
  errs : List Err := []
  mpc : MPc := .waiting
  deriving DecidableEq, Repr, Inhabited

inductive Act where
  | bindFail (i : Nat) | bindOk (i : Nat) | register (i : Nat) | serveRet (i : Nat)
  | send (i : Nat) | cancel (i : Nat) | wake | sweep | collect | stop
  deriving DecidableEq, Repr, Inhabited

def init (n : Nat) : S := { ls := List.replicate n {} }

/-- the error `collect` returns: first non-Canceled entry, else Canceled -/
def firstErr : List Err → Err
  | [] => .canceled
  | e :: es => if e = .canceled then firstErr es else e

def closeRegistered (l : L) : L := if l.registered then { l with sockOpen := false } else l

def allReported (ls : List L) : Bool := ls.all fun l => l.pc = .sent || l.pc = .done

def step (s : S) : Act → Option S
  | .bindFail i =>
    match s.ls[i]? with
    | some l => if l.pc = .start then some { s with ls := s.ls.set i { l with pc := .failed, bindFailed := true } } else none
    | none => none
  | .bindOk i =>
    match s.ls[i]? with
    | some l => if l.pc = .start then some { s with ls := s.ls.set i { l with pc := .bound, sockOpen := true } } else none
    | none => none
  | .register i =>
    match s.ls[i]? with
    | some l =>
      if l.pc = .bound then
        if s.closedFlag then some { s with ls := s.ls.set i { l with pc := .serving, sockOpen := false } }
        else some { s with ls := s.ls.set i { l with pc := .serving, registered := true } }
      else none
    | none => none
  | .serveRet i =>
    match s.ls[i]? with
    | some l => if l.pc = .serving ∧ l.sockOpen = false then some { s with ls := s.ls.set i { l with pc := .ret } } else none
    | none => none
  | .send i =>
    match s.ls[i]? with
    | some l =>
      if l.pc = .failed then some { s with ls := s.ls.set i { l with pc := .sent }, errs := s.errs ++ [.bind] }
      else if l.pc = .ret then some { s with ls := s.ls.set i { l with pc := .sent }, errs := s.errs ++ [.closed] }
      else none
    | none => none
  | .cancel i =>
    match s.ls[i]? with
    | some l => if l.pc = .sent then some { s with ls := s.ls.set i { l with pc := .done }, cancelled := true } else none
    | none => none
  | .wake =>
    if s.mpc = .waiting ∧ s.cancelled = true then some { s with mpc := .pushed, errs := s.errs ++ [.canceled] } else none
  | .sweep =>
    if s.mpc = .pushed then some { s with mpc := .swept, closedFlag := true, ls := s.ls.map closeRegistered } else none
  | .collect =>
    if s.mpc = .swept ∧ allReported s.ls = true then some { s with mpc := .returned (firstErr s.errs) } else none
  | .stop =>
    if s.stopped = false then some { s with stopped := true, cancelled := true } else none

/-- run a schedule; `none` if some action was not enabled -/
def run (s : S) : List Act → Option S
  | [] => some s
  | a :: as => match step s a with
    | some s' => run s' as
    | none => none

/-- states reachable from the initial state with `n` listener threads -/
inductive Reachable (n : Nat) : S → Prop where
  | init : Reachable n (init n)
  | step {s s' : S} {a : Act} : Reachable n s → step s a = some s' → Reachable n s'

/-! ### the protocol before the repair -/

def stepOld (s : S) : Act → Option S
  | .register i =>
    match s.ls[i]? with
    | some l =>
      if l.pc = .bound then some { s with ls := s.ls.set i { l with pc := .serving, registered := true } } else none
    | none => none
  -- old order: cancel first (`sent` is reused for "cancelled, error not yet sent"), then send
  | .cancel i =>
    match s.ls[i]? with
    | some l => if l.pc = .failed ∨ l.pc = .ret then
        some { s with ls := s.ls.set i { l with pc := .sent, bindFailed := l.bindFailed }, cancelled := true } else none
    | none => none
  | .send i =>
    match s.ls[i]? with
    | some l => if l.pc = .sent then
        some { s with ls := s.ls.set i { l with pc := .done },
                      errs := s.errs ++ [if l.bindFailed then .bind else .closed] } else none
    | none => none
  | .collect =>
    if s.mpc = .swept ∧ (s.ls.all fun l => l.pc = .done) = true then some { s with mpc := .returned (firstErr s.errs) } else none
  | a => step s a

def runOld (s : S) : List Act → Option S
  | [] => some s
  | a :: as => match stepOld s a with
    | some s' => runOld s' as
    | none => none

def allActs (n : Nat) : List Act :=
  (List.range n).flatMap (fun i => [.bindFail i, .bindOk i, .register i, .serveRet i, .send i, .cancel i])
    ++ [.wake, .sweep, .collect, .stop]

end NV.Listen
