/-
  NV.Model.Manager — executable model of resolver/endpoint/manager.go (C08, C09).

  What is modelled (one Manager, sequentially consistent steps):
  * `Ep`: an endpoint value.  `key` is what `Equal` compares (DOH: Hostname/Path/Bootstrap, DNS: Addr),
    `tag` distinguishes two values that are `Equal` but not identical (e.g. different ALPN lists).
  * `AE`: an `*activeEnpoint` OBJECT (`ep, lastTest, interval, testing, errs`); objects live in a heap
    (`Nat → AE`, allocation counter `next`) because in-flight `Do` calls and background election
    goroutines keep using an object after it stopped being the active one.
  * `St`: `active` (the `m.activeEndpoint` pointer), `clock` (the `testNow` virtual clock, seconds),
    `pending` (objects whose `test()` goroutine was started and has not yet run `Manager.Test`),
    `inflight` (object captured by every `Do` whose action has not returned yet), `muHeld`
    (m.mu left locked by a function that returned), `lastOffer` (ghost: candidates seen by the most
    recent election that completed without error).
  * elections are atomic: `m.mu` is write-held from `Test` to its return (CFG certificate
    `NV.C09.mu_balanced`); the window in which `testLocked` drops the lock around `OnChange` is
    assumed not to be observable (the callback only logs).

  External calls are parameters (`Env`): `Provider.GetEndpoints` returns `ok eps | err | unreach`
  (an error chain containing `*os.SyscallError{ENETUNREACH}`), the tester of an endpoint returns
  `ok | err | unreach` as a function of the endpoint key.  Assumptions: providers return non-nil
  endpoints; `Equal` is key equality (an equivalence; `Equal(nil)` is false); `GetMinTestInterval`
  is a function of the key; time is in whole seconds and `clock ≥ 10^9` so that the zero
  `time.Time` of an InitEndpoint object is "long ago" for every interval; fewer than 2^32
  consecutive errors (no uint32 wrap).  `Variant` selects the pre-repair behaviour of the two
  defects found (DESIGN §7 #2, #3); the driver and the theorems use `repaired`.
-/
namespace NV.Mgr

/-- hand-model constants; tied to the source by `NV.Gen.Manager` (theorem `NV.C08.gen_consts_agree`) -/
def defaultThreshold : Nat := 10
def defaultMinTest : Nat := 7200
def failedInterval : Nat := 10
/-- `testNow().Sub(e.lastTest) > e.testInterval` -/
def exceeded (now last iv : Nat) : Bool := decide (now - last > iv)
/-- `atomic.AddUint32(&e.consecutiveErrors, 1) == uint32(errThreshold)` -/
def thresholdHit (errsAfter thr : Nat) : Bool := decide (errsAfter = thr)

def epoch : Nat := 1000000000

structure Ep where
  key : Nat
  tag : Nat
  deriving DecidableEq, Repr, Inhabited

inductive Res where
  | ok | err | unreach
  deriving DecidableEq, Repr, Inhabited

inductive ProvRes where
  | ok (eps : List Ep)
  | err
  | unreach
  deriving DecidableEq, Repr, Inhabited

structure Env where
  provs : List ProvRes
  health : Nat → Res

structure Cfg where
  threshold : Nat        -- Manager.ErrorThreshold (0 = default)
  minTest : Nat          -- Manager.MinTestInterval (0 = default)
  getMin : Nat → Nat     -- Manager.GetMinTestInterval by endpoint key (0 = unset)
  init : Option Ep       -- Manager.InitEndpoint

structure Variant where
  unlockOnBootErr : Bool   -- getActiveEndpoint unlocks m.mu before returning the bootstrap error
  errOnNoCand : Bool       -- findBestEndpointLocked returns an error when no provider offered a candidate

def repaired : Variant := ⟨true, true⟩

def thr (cfg : Cfg) : Nat := if cfg.threshold = 0 then defaultThreshold else cfg.threshold

/-- `Endpoint.Equal` lifted to possibly-nil interface values: `x.Equal(nil)` is false.  A nil
receiver panics in the real code; that can only happen in the pre-repair variant after a nil
endpoint was installed, and the model is not faithful beyond that point. -/
def equalOpt : Option Ep → Option Ep → Bool
  | some a, some b => a.key == b.key
  | _, _ => false

structure AE where
  ep : Option Ep
  lastTest : Nat
  interval : Nat
  testing : Bool
  errs : Nat
  deriving DecidableEq, Repr, Inhabited

inductive Ev where
  | getEps (i : Nat)               -- Providers[i].GetEndpoints called
  | provErr (i : Nat)              -- OnProviderError(Providers[i], err)
  | probe (e : Ep) (r : Res)       -- tester of e called, result
  | onError (e : Ep)               -- OnError(e, err)
  | onChange (e : Option Ep)       -- OnChange(e)
  | action (e : Option Ep)         -- the Do action is entered with e
  | ret (ok : Bool)                -- return value of Test / of a Do that ends before its action
  deriving DecidableEq, Repr, Inhabited

/-! ### findBestEndpointLocked -/

/-- what the election loop processes, in order -/
inductive Item where
  | pok (i : Nat)        -- provider i returned a list
  | perr (i : Nat)       -- provider i returned an ordinary error
  | punreach (i : Nat)   -- provider i returned a network-unreachable error
  | cand (e : Ep)        -- candidate e is probed
  deriving DecidableEq, Repr, Inhabited

inductive Stop where
  | elected (e : Ep)
  | unreach
  deriving DecidableEq, Repr, Inhabited

/-- the inner loop `for _, e := range endpoints` -/
def probeEps (h : Nat → Res) : List Ep → List Item × Option Stop
  | [] => ([], none)
  | e :: es =>
    match h e.key with
    | .ok => ([.cand e], some (.elected e))
    | .unreach => ([.cand e], some .unreach)
    | .err => (.cand e :: (probeEps h es).1, (probeEps h es).2)

/-- the outer loop `for _, p := range m.Providers` (i = index of the first provider of the list) -/
def scanProvs (h : Nat → Res) : Nat → List ProvRes → List Item × Option Stop
  | _, [] => ([], none)
  | i, .unreach :: _ => ([.punreach i], some .unreach)
  | i, .err :: ps => (.perr i :: (scanProvs h (i + 1) ps).1, (scanProvs h (i + 1) ps).2)
  | i, .ok eps :: ps =>
    match (probeEps h eps).2 with
    | some s => (.pok i :: (probeEps h eps).1, some s)
    | none => (.pok i :: (probeEps h eps).1 ++ (scanProvs h (i + 1) ps).1, (scanProvs h (i + 1) ps).2)

/-- `firstEndpoint`: the first candidate the loops iterated over -/
def firstCand : List Item → Option Ep
  | [] => none
  | .cand e :: _ => some e
  | _ :: t => firstCand t

def candsOf : List Item → List Ep
  | [] => []
  | .cand e :: t => e :: candsOf t
  | _ :: t => candsOf t

inductive Outcome where
  | elected (e : Ep)      -- probe passed: normal interval
  | fallback (e : Ep)     -- nobody passed: first candidate, short interval
  | fallbackNil           -- pre-repair only: no candidate at all, a nil endpoint is "elected"
  | unreach               -- aborted, error returned
  | noEndpoint            -- repaired: error "no endpoint available"
  deriving DecidableEq, Repr, Inhabited

def findBest (v : Variant) (env : Env) : List Item × Outcome :=
  let r := scanProvs env.health 0 env.provs
  (r.1, match r.2 with
    | some (.elected e) => .elected e
    | some .unreach => .unreach
    | none => match firstCand r.1 with
      | some e => .fallback e
      | none => if v.errOnNoCand then .noEndpoint else .fallbackNil)

def itemEvents (h : Nat → Res) : Item → List Ev
  | .pok i => [.getEps i]
  | .perr i => [.getEps i, .provErr i]
  | .punreach i => [.getEps i]
  | .cand e => match h e.key with
    | .err => [.probe e .err, .onError e]
    | r => [.probe e r]

def traceEvents (h : Nat → Res) (t : List Item) : List Ev := t.flatMap (itemEvents h)

/-! ### state -/

structure St where
  heap : Nat → AE
  next : Nat
  active : Option Nat
  clock : Nat
  pending : List Nat
  inflight : List Nat
  muHeld : Bool
  lastOffer : Option (List Ep)

def AE.zero : AE := ⟨none, 0, 0, false, 0⟩

def St.init : St := ⟨fun _ => AE.zero, 0, none, epoch, [], [], false, none⟩

def upd (h : Nat → AE) (i : Nat) (v : AE) : Nat → AE := fun j => if j = i then v else h j

@[simp] theorem upd_same (h : Nat → AE) (i : Nat) (v : AE) : upd h i v i = v := by simp [upd]
theorem upd_other (h : Nat → AE) (i j : Nat) (v : AE) (hne : j ≠ i) : upd h i v j = h j := by simp [upd, hne]

/-- the interval part of `newActiveEndpointLocked` -/
def intervalFor (cfg : Cfg) (e : Option Ep) : Nat :=
  let g := match e with
    | some e => cfg.getMin e.key
    | none => 0
  if g ≠ 0 then g else if cfg.minTest ≠ 0 then cfg.minTest else defaultMinTest

/-- `newActiveEndpointLocked` returns the ACTIVE OBJECT ITSELF when its endpoint is `Equal` -/
def reuse? (st : St) (e : Option Ep) : Option Nat :=
  match st.active with
  | some a => if equalOpt (st.heap a).ep e then some a else none
  | none => none

/-- `newActiveEndpointLocked(e)` (+ the fallback's `ae.testInterval = minTestIntervalFailed`, which
hits the shared active object when it was reused) followed by the swap test of `testLocked`:
a reused object is `Equal` to itself, so nothing is swapped and OnChange is not called; a fresh
object is by construction not `Equal` to the active one, so it is installed and OnChange fires. -/
def applyElect (cfg : Cfg) (st : St) (e : Option Ep) (short : Bool) : St × List Ev :=
  match reuse? st e with
  | some a =>
    ({ st with heap := upd st.heap a { st.heap a with interval := if short then failedInterval else (st.heap a).interval } }, [])
  | none =>
    ({ st with
        heap := upd st.heap st.next
          ⟨e, st.clock, if short then failedInterval else intervalFor cfg e, false, 0⟩,
        next := st.next + 1, active := some st.next }, [.onChange e])

/-- `testLocked`: state, events, and whether it returned nil -/
def testLocked (v : Variant) (cfg : Cfg) (st : St) (env : Env) : St × List Ev × Bool :=
  let r := findBest v env
  let evs := traceEvents env.health r.1
  match r.2 with
  | .elected e =>
    let a := applyElect cfg st (some e) false
    ({ a.1 with lastOffer := some (candsOf r.1) }, evs ++ a.2, true)
  | .fallback e =>
    let a := applyElect cfg st (some e) true
    ({ a.1 with lastOffer := some (candsOf r.1) }, evs ++ a.2, true)
  | .fallbackNil =>
    let a := applyElect cfg st none true
    ({ a.1 with lastOffer := some (candsOf r.1) }, evs ++ a.2, true)
  | .unreach => (st, evs, false)
  | .noEndpoint => (st, evs, false)

/-! ### operations; `none` = the calling goroutine blocks forever on m.mu -/

inductive Op where
  | doStart (env : Env)            -- Do up to the entry of its action (env: used by a bootstrap election only)
  | doFinish (j : Nat) (ok : Bool) -- the action of the j-th in-flight Do returns
  | electionRun (env : Env)        -- the oldest started background election runs Manager.Test
  | advance (d : Nat)
  | forceTest (env : Env)          -- Manager.Test called directly (run.go: network change)

/-- `do` up to the action: `shouldTest` (single winner: resets lastTest) then `test()` -/
def enterDo (st : St) (a : Nat) (evs : List Ev) : St × List Ev :=
  let o := st.heap a
  let st1 :=
    if !o.testing && exceeded st.clock o.lastTest o.interval then
      { st with heap := upd st.heap a { o with lastTest := st.clock, testing := true },
                pending := st.pending ++ [a] }
    else st
  ({ st1 with inflight := st1.inflight ++ [a] }, evs ++ [.action o.ep])

/-- `newActiveEndpointLocked(InitEndpoint)` with `lastTest` zeroed; no OnChange -/
def installInit (cfg : Cfg) (st : St) (e : Ep) : St :=
  { st with heap := upd st.heap st.next ⟨some e, 0, intervalFor cfg (some e), false, 0⟩,
            next := st.next + 1, active := some st.next }

def doStart (v : Variant) (cfg : Cfg) (st : St) (env : Env) : Option (St × List Ev) :=
  if st.muHeld then none else
  match st.active with
  | some a => some (enterDo st a [])
  | none =>
    match cfg.init with
    | some e => some (enterDo (installInit cfg st e) st.next [])
    | none =>
      let r := testLocked v cfg st env
      if r.2.2 then
        match r.1.active with
        | some a => some (enterDo r.1 a r.2.1)
        | none => some (r.1, r.2.1 ++ [.ret false])   -- "no active endpoint" (unreachable, see C08)
      else
        some ({ r.1 with muHeld := !v.unlockOnBootErr }, r.2.1 ++ [.ret false])

def doFinish (cfg : Cfg) (st : St) (j : Nat) (ok : Bool) : St :=
  match st.inflight[j]? with
  | none => st
  | some a =>
    let st := { st with inflight := st.inflight.eraseIdx j }
    let o := st.heap a
    if ok then { st with heap := upd st.heap a { o with errs := 0 } }
    else
      let o1 := { o with errs := o.errs + 1 }
      if thresholdHit o1.errs (thr cfg) && !o1.testing then
        -- recovery test: setTesting(true, false) succeeded, goroutine started
        { st with heap := upd st.heap a { o1 with testing := true }, pending := st.pending ++ [a] }
      else { st with heap := upd st.heap a o1 }

/-- after `Manager.Test` returned in the goroutine of object `a`: `setTesting(false, err == nil)` -/
def finishTest (st : St) (a : Nat) (ok : Bool) : St :=
  let o := st.heap a
  { st with heap := upd st.heap a { o with testing := false, lastTest := if ok then st.clock else o.lastTest } }

def electionRun (v : Variant) (cfg : Cfg) (st : St) (env : Env) : Option (St × List Ev) :=
  match st.pending with
  | [] => some (st, [])
  | a :: rest =>
    if st.muHeld then none else
    let r := testLocked v cfg { st with pending := rest } env
    some (finishTest r.1 a r.2.2, r.2.1 ++ [.ret r.2.2])

def forceTest (v : Variant) (cfg : Cfg) (st : St) (env : Env) : Option (St × List Ev) :=
  if st.muHeld then none else
  let r := testLocked v cfg st env
  some (r.1, r.2.1 ++ [.ret r.2.2])

def step (v : Variant) (cfg : Cfg) (st : St) : Op → Option (St × List Ev)
  | .doStart env => doStart v cfg st env
  | .doFinish j ok => some (doFinish cfg st j ok, [])
  | .electionRun env => electionRun v cfg st env
  | .advance d => some ({ st with clock := st.clock + d }, [])
  | .forceTest env => forceTest v cfg st env

/-- run an operation list; `none` as soon as one operation blocks -/
def run (v : Variant) (cfg : Cfg) : St → List Op → Option (St × List Ev)
  | st, [] => some (st, [])
  | st, op :: ops =>
    match step v cfg st op with
    | none => none
    | some (st1, e1) =>
      match run v cfg st1 ops with
      | none => none
      | some (st2, e2) => some (st2, e1 ++ e2)

end NV.Mgr
