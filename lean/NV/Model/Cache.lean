/-
  NV.Model.Cache — the response cache of resolver/doh.go (`DOH.resolve`, `lastMod`,
  `updateLastMod`, `readDNSResponse`), resolver/dns53.go (`DNS53.resolve`), resolver/cache.go
  (`cacheKey`) and the profile-URL construction of run.go, as a state machine over virtual time.

  What is modelled
  * one `Cacher` shared by both transports (run.go gives the same ARC instance to `DOH.Cache` and
    `DNS53.Cache`): an association list `Key → Entry`; `Evict`/`EvictAll` model the ARC cache dropping
    anything at any time (hashicorp/golang-lru is not modelled further);
  * `cacheKey{ctx, qclass, qtype, qname}`: ctx = the effective DoH URL (`"https://0.0.0.0"` when
    the URL is empty) or `""` for DNS53; qname = `Query.Name` (the *text* form produced by
    `dnsmessage.Name.String()`: every label followed by '.', "." for the root), byte-exact;
  * `lastModified map[string]time.Time`, keyed by the effective URL, updated only after a response
    was cached, only forward (`After`), only from a header that parses as RFC1123;
  * the clock: `now = time.Now()` is read once, BEFORE the cache lookup and before the upstream
    request, and only when `q.Type != PTR && Cache != nil` (otherwise the zero time is stored);
  * concurrent resolutions: `Op.lateStore` (a store that happens after other operations have
    been served in between), so the history theorems also cover interleaved schedules;
  * every way the upstream round trip can end (see `DohOut`, `UdpOut`), including what is left in
    `buf[:n]` next to an error (the expired entry, Resolver interface comment in resolver.go).

  Assumptions about external calls (recorded, not proved)
  * time: virtual time is in whole seconds.  The correspondence harness truncates the `time` of a
    stored `*cacheValue` to the whole second and checks that a history does not straddle a real
    second boundary, so `age = uint32(now.Sub(t)/time.Second)` is `now - t` and `lastMod.Before(t)`
    is `<` on seconds.  `now ≥ t` for every stored entry (the clock is monotone); a negative
    duration is not modelled.
  * `http.NewRequestWithContext` succeeds for the URL (true for every URL that `net/url` parses;
    run.go builds `"https://dns.nextdns.io/" + profile`).  When it fails the function returns an
    error before any upstream contact (a SERVFAIL, never a cache hit).
  * `time.Parse(time.RFC1123, h)`: `LmHdr.secs s` stands for a header that parses to second `s`,
    `invalid` for one that does not parse, `absent` for `""` (does not parse either).
  * `len(buf) ≥ 3` (the proxy always passes 65535-byte buffers); `readDNSResponse` would index
    `buf[2]` out of range otherwise.
  * the TTL arithmetic (`cacheValue.AdjustedResponse`, `updateTTL`) is a parameter `TTLFn`
    (owned by C07's wire-level half); no theorem about the cache depends on its internals.
-/
import NV.Model.Reply
namespace NV.Cache
open NV

abbrev Url := Bytes
/-- virtual time, whole seconds; 0 is Go's zero `time.Time` (always earlier than any clock reading) -/
abbrev Time := Nat

/-- `"https://0.0.0.0"` (resolver/doh.go: `if url == "" { url = "https://0.0.0.0" }`) -/
def defaultUrl : Url := [104, 116, 116, 112, 115, 58, 47, 47, 48, 46, 48, 46, 48, 46, 48]
/-- `"https://dns.nextdns.io/"` (run.go, both `GetProfileURL` closures) -/
def profilePrefix : Url :=
  [104, 116, 116, 112, 115, 58, 47, 47, 100, 110, 115, 46, 110, 101, 120, 116, 100, 110, 115, 46, 105, 111, 47]

/-- run.go: `"https://dns.nextdns.io/" + profile` -/
def profileUrl (profile : Bytes) : Url := profilePrefix ++ profile
/-- the cache context of a DoH query resolved against `url` -/
def dohCtx (url : Url) : Url := if url = [] then defaultUrl else url
/-- the cache context of a DNS53 query: `cacheKey{"", …}` -/
def dns53Ctx : Url := []

/-- resolver/cache.go `cacheKey` -/
structure Key where
  ctx : Url
  cls : Nat
  type : Nat
  name : Bytes
  deriving DecidableEq, Repr, Inhabited

inductive Transport where
  | doh | dns53
  deriving DecidableEq, Repr, Inhabited

/-- resolver/cache.go `cacheValue` -/
structure Entry where
  time : Time
  msg : Bytes
  trans : String
  deriving DecidableEq, Repr, Inhabited

/-- one upstream request, as the upstream saw it (the observable "upstream log"):
request URL (`[]` for DNS53), the query whose payload was sent, the clock value the resolver had
read before sending (0 = not read), and the message it accepted (none = the request failed). -/
structure Call where
  tr : Transport
  url : Url
  q : Query
  time : Time
  resp : Option Bytes
  deriving DecidableEq, Repr, Inhabited

/-- the key under which the resolver files the answer to `c` -/
def Call.key (c : Call) : Key := ⟨c.url, c.q.cls, c.q.type, c.q.name⟩

abbrev Store := List (Key × Entry)

def get : Store → Key → Option Entry
  | [], _ => none
  | (k', e) :: r, k => if k' = k then some e else get r k

def evict (st : Store) (k : Key) : Store := st.filter (fun p => p.1 ≠ k)
def add (st : Store) (k : Key) (e : Entry) : Store := (k, e) :: evict st k

structure State where
  store : Store := []
  lastMod : List (Url × Time) := []
  now : Time := 0
  /-- ghost: every upstream request so far, latest first -/
  log : List Call := []
  deriving Repr, Inhabited

def lookupTime : List (Url × Time) → Url → Time
  | [], _ => 0
  | (u, t) :: r, url => if u = url then t else lookupTime r url

/-- `DOH.lastMod(url)`; the zero time when the URL has no entry -/
def lastModOf (s : State) (url : Url) : Time := lookupTime s.lastMod url

/-- the value of the `X-Conf-Last-Modified` response header -/
inductive LmHdr where
  | absent | invalid | secs (s : Nat)
  deriving DecidableEq, Repr, Inhabited

/-- `DOH.updateLastMod(url, header)` -/
def updateLastMod (lm : List (Url × Time)) (url : Url) : LmHdr → List (Url × Time)
  | .secs t => if t > lookupTime lm url then (url, t) :: lm.filter (fun p => p.1 ≠ url) else lm
  | _ => lm

/-- how the DoH round trip ends -/
inductive DohOut where
  /-- `rt.RoundTrip` returns an error -/
  | transportErr
  /-- a status other than 200 -/
  | status
  /-- status 200; the body delivers `b` and then EOF (`readErr = false`) or a read error -/
  | body (b : Bytes) (readErr : Bool) (lm : LmHdr) (proto : String)
  deriving DecidableEq, Repr, Inhabited

/-- how the DNS53 exchange ends -/
inductive UdpOut where
  /-- `DialContext` fails -/
  | dialErr
  /-- these datagrams arrive in order; if none is accepted, `Read` finally fails (deadline) -/
  | datagrams (ds : List Bytes)
  deriving DecidableEq, Repr, Inhabited

inductive Op where
  | doh (url : Url) (q : Query) (o : DohOut) (lat : Nat)
  | dns53 (q : Query) (o : UdpOut)
  | advance (d : Nat)
  | evict (k : Key)
  | evictAll
  /-- concurrency: a resolution whose lookup missed earlier (clock reading `t`) and whose upstream
  exchange overlapped the operations since then completes only now (`Cache.Add`, and for DoH
  `updateLastMod`).  Its reply to the client is the fresh upstream answer; its only effect on
  later queries is this store.  Every interleaving of resolver goroutines at the granularity of
  the (mutex-protected) `Get`/`Add`/`lastMod` calls is a history of atomic operations and late
  stores. -/
  | lateStore (tr : Transport) (url : Url) (q : Query) (t : Time) (m : Bytes) (proto : String) (lm : LmHdr)
  deriving Repr, Inhabited

structure Cfg where
  /-- `Cache != nil` (cache-size > 0) -/
  cacheOn : Bool := true
  /-- `len(buf)` -/
  bufLen : Nat := 65535
  deriving Repr, Inhabited

/-- the TTL arithmetic, abstract: `adjusted msg bufLen id age` is `(buf[:n], minTTL)` of
`cacheValue{msg}.AdjustedResponse(buf, id, CacheMaxAge, MaxTTL, now)` with `len(buf) = bufLen`
and `age` whole seconds; `fresh m` is `m` after `if MaxTTL > 0 { updateTTL(m, 0, 0, MaxTTL) }`. -/
structure TTLFn where
  adjusted : Bytes → Nat → Nat → Nat → Bytes × Nat
  fresh : Bytes → Bytes

/-- what `resolve` returns: `buf[:n]`, `err != nil`, `i.FromCache`, `i.Transport`, and the upstream
request made on the way (none = the upstream was not contacted) -/
structure Res where
  reply : Bytes
  err : Bool
  fromCache : Bool
  trans : String
  up : Option Call
  /-- ghost: the key under which `Cache.Add` was called while handling this query -/
  stored : Option Key := none
  deriving Repr, Inhabited

/-- the reply was served from the cache: no upstream request, no error -/
def Res.served (r : Res) : Prop := r.up = none

instance (r : Res) : Decidable r.served := by unfold Res.served; infer_instance

/-- `uint32(now.Sub(t) / time.Second)` -/
def age (now t : Time) : Nat := (now - t) % 4294967296

/-- `readDNSResponse(body, buf)`: (`buf[:n]`, truncated, err) -/
def readBody (b : Bytes) (readErr : Bool) (bufLen : Nat) : Bytes × Bool × Bool :=
  if b.length ≥ bufLen then
    -- the buffer fills up before EOF/error is seen: TC is set and the rest is dropped
    (setTC (b.take bufLen), true, false)
  else if readErr then ([], false, true)
  else (b, false, false)

/-- the DoH round trip fails: transport error, non-200 status, or a read error before the
buffer is full -/
def DohOut.fails (bufLen : Nat) : DohOut → Prop
  | .transportErr => True
  | .status => True
  | .body b readErr _ _ => readErr = true ∧ b.length < bufLen

/-- the receive loop of `DNS53.resolve`: datagrams shorter than 2 bytes or with another ID are
skipped; `c.Read(buf)` cuts a datagram to `len(buf)` -/
def pickDatagram (id bufLen : Nat) : List Bytes → Option Bytes
  | [] => none
  | d :: ds =>
    let d' := d.take bufLen
    if d'.length < 2 then pickDatagram id bufLen ds
    else if id ≠ rd16 d' 0 then pickDatagram id bufLen ds
    else some d'

/-- the DNS53 exchange fails: no dial, or no acceptable datagram before the deadline -/
def UdpOut.fails (id bufLen : Nat) : UdpOut → Prop
  | .dialErr => True
  | .datagrams ds => pickDatagram id bufLen ds = none

/-- values of `n`/`buf[:n]`, `i.Transport`, `i.FromCache` after the lookup block when the lookup did
not return -/
structure Stale where
  reply : Bytes := []
  trans : String := ""
  fromCache : Bool := false

def dohKey (url : Url) (q : Query) : Key := ⟨dohCtx url, q.cls, q.type, q.name⟩
def dns53Key (q : Query) : Key := ⟨dns53Ctx, q.cls, q.type, q.name⟩

/-- `q.Type != query.TypePTR && r.Cache != nil` -/
def useCache (cfg : Cfg) (q : Query) : Bool := q.type ≠ 12 && cfg.cacheOn

/-- the part of `DOH.resolve` after the lookup block -/
def dohUpstream (T : TTLFn) (cfg : Cfg) (s : State) (url' : Url) (q : Query) (t0 : Time)
    (st : Stale) (o : DohOut) (lat : Nat) : State × Res :=
  let k : Key := ⟨url', q.cls, q.type, q.name⟩
  let s1 := { s with now := s.now + lat }
  match o with
  | .transportErr | .status =>
    let c : Call := ⟨.doh, url', q, t0, none⟩
    ({ s1 with log := c :: s.log },
     { reply := st.reply, err := true, fromCache := st.fromCache, trans := st.trans, up := some c })
  | .body b readErr lm proto =>
    let rb := readBody b readErr cfg.bufLen
    let m := rb.1
    let trunc := rb.2.1
    let rerr := rb.2.2
    let c : Call := ⟨.doh, url', q, t0, if rerr then none else some m⟩
    let s2 :=
      if m.length > 0 ∧ ¬ trunc ∧ ¬ rerr ∧ cfg.cacheOn then
        { s1 with store := add s.store k ⟨t0, m, proto⟩, lastMod := updateLastMod s.lastMod url' lm }
      else s1
    ({ s2 with log := c :: s.log },
     { reply := if m.length > 0 then T.fresh m else m, err := rerr, fromCache := false, trans := proto,
       up := some c, stored := if m.length > 0 ∧ ¬ trunc ∧ ¬ rerr ∧ cfg.cacheOn then some k else none })

/-- `DOH.resolve(ctx, q, buf, rt)` with `r.URL`/`GetProfileURL` giving `url` -/
def stepDoh (T : TTLFn) (cfg : Cfg) (s : State) (url : Url) (q : Query) (o : DohOut) (lat : Nat) :
    State × Res :=
  let url' := dohCtx url
  let t0 := if useCache cfg q then s.now else 0
  match (if useCache cfg q then get s.store (dohKey url q) else none) with
  | some e =>
    let a := T.adjusted e.msg cfg.bufLen q.id (age t0 e.time)
    if a.2 > 0 ∧ lastModOf s url' < e.time then
      (s, { reply := a.1, err := false, fromCache := true, trans := e.trans, up := none })
    else dohUpstream T cfg s url' q t0 ⟨a.1, e.trans, true⟩ o lat
  | none => dohUpstream T cfg s url' q t0 {} o lat

/-- the part of `DNS53.resolve` after the lookup block -/
def dns53Upstream (T : TTLFn) (cfg : Cfg) (s : State) (q : Query) (t0 : Time) (st : Stale)
    (o : UdpOut) : State × Res :=
  let k := dns53Key q
  match o with
  | .dialErr =>
    let c : Call := ⟨.dns53, [], q, t0, none⟩
    ({ s with log := c :: s.log },
     { reply := st.reply, err := true, fromCache := st.fromCache, trans := "UDP", up := some c })
  | .datagrams ds =>
    match pickDatagram q.id cfg.bufLen ds with
    | none =>
      let c : Call := ⟨.dns53, [], q, t0, none⟩
      ({ s with log := c :: s.log },
       { reply := [], err := true, fromCache := st.fromCache, trans := "UDP", up := some c })
    | some m =>
      let c : Call := ⟨.dns53, [], q, t0, some m⟩
      let s2 := if cfg.cacheOn then { s with store := add s.store k ⟨t0, m, ""⟩ } else s
      ({ s2 with log := c :: s.log },
       { reply := T.fresh m, err := false, fromCache := false, trans := "UDP", up := some c,
         stored := if cfg.cacheOn then some k else none })

/-- `DNS53.resolve(ctx, q, buf, addr)` -/
def stepDns53 (T : TTLFn) (cfg : Cfg) (s : State) (q : Query) (o : UdpOut) : State × Res :=
  let t0 := if useCache cfg q then s.now else 0
  match (if useCache cfg q then get s.store (dns53Key q) else none) with
  | some e =>
    let a := T.adjusted e.msg cfg.bufLen q.id (age t0 e.time)
    if a.2 > 0 then
      (s, { reply := a.1, err := false, fromCache := true, trans := "UDP", up := none })
    else dns53Upstream T cfg s q t0 ⟨a.1, "UDP", true⟩ o
  | none => dns53Upstream T cfg s q t0 { trans := "UDP" } o

def step (T : TTLFn) (cfg : Cfg) (s : State) : Op → State × Option Res
  | .doh url q o lat => let r := stepDoh T cfg s url q o lat; (r.1, some r.2)
  | .dns53 q o => let r := stepDns53 T cfg s q o; (r.1, some r.2)
  | .advance d => ({ s with now := s.now + d }, none)
  | .evict k => ({ s with store := evict s.store k }, none)
  | .evictAll => ({ s with store := [] }, none)
  | .lateStore tr url q t m proto lm =>
    -- a clock reading cannot come from the future
    let t' := min t s.now
    match tr with
    | .doh =>
      let url' := dohCtx url
      ({ s with store := add s.store ⟨url', q.cls, q.type, q.name⟩ ⟨t', m, proto⟩,
                lastMod := updateLastMod s.lastMod url' lm,
                log := ⟨.doh, url', q, t', some m⟩ :: s.log }, none)
    | .dns53 =>
      ({ s with store := add s.store (dns53Key q) ⟨t', m, ""⟩,
                log := ⟨.dns53, [], q, t', some m⟩ :: s.log }, none)

/-- a whole history: final state and the result of every operation -/
def run (T : TTLFn) (cfg : Cfg) : State → List Op → State × List (Option Res)
  | s, [] => (s, [])
  | s, op :: ops =>
    let r := step T cfg s op
    let rest := run T cfg r.1 ops
    (rest.1, r.2 :: rest.2)

/-- the state reached from an empty cache whose clock reads `t0` -/
def reach (T : TTLFn) (cfg : Cfg) (t0 : Time) (ops : List Op) : State :=
  (run T cfg { now := t0 } ops).1

/-- what the handler (proxy/udp.go, proxy/tcp.go) makes of the result: `err != nil` ⇒ SERVFAIL -/
def Res.outcome (r : Res) : Outcome := if r.err then .error else .bytes r.reply

/-- `dnsmessage.Name.String()` of an uncompressed name with these labels -/
def nameText : List Bytes → Bytes
  | [] => [46]
  | ls => ls.flatMap (fun l => l ++ [46])

end NV.Cache
