/-
  NV.Model.ClientInfo — client metadata sent upstream (C14).

  Anchors (repository, after the `fix:` commits recorded in known_findings.json):
    run.go            setupClientReporting (the closure stored in DOH.ClientInfo), normalizeName, shortID
    resolver/doh.go   DOH.resolve: header construction, headerValue (sanitiser added by the repair)
    discovery/util.go isValidName, absDomainName
    net/http          Transport.roundTrip → validateHeaders → httpguts.ValidHeaderFieldName/Value

  External calls are PARAMETERS of the model (recorded here, passed on the case line by the harness):
    xxhash.Sum64                      `H : Bytes → Nat` (any function; theorems hold for every H)
    config.Profiles.Get               `prof` (the profile id chosen for the query; C11's subject)
    net.IP.String                     `ipstr` (text of the peer address)
    discovery.Resolver.LookupAddr/MAC `addrNames`, `macNames` (what the tables return; C18's subject)
    host.Name, machineid.ProtectedID, host.Model   `hostName`, `machineID`, `hostModel`
  Modelled exactly on bytes: net.IP.IsLoopback/To4, net.HardwareAddr.String, strconv.AppendUint(…, 32),
  the in-place buffer arithmetic of shortID, strings.IndexByte, textual header map operations.
  `strings.ToLower`/`ToUpper` are modelled for ASCII input (IP text and the hex machine id are ASCII).
-/
import NV.Model.Wire
namespace NV.CI
open NV

/-! ## net/http header validation (httpguts) -/

/-- httpguts.isCTL -/
def isCTL (b : UInt8) : Bool := b.toNat < 32 || b.toNat == 127
/-- httpguts.isLWS -/
def isLWS (b : UInt8) : Bool := b.toNat == 32 || b.toNat == 9
/-- one byte of `httpguts.ValidHeaderFieldValue` -/
def validValueByte (b : UInt8) : Bool := !(isCTL b && !isLWS b)
/-- `httpguts.ValidHeaderFieldValue` -/
def validHeaderValue (v : Bytes) : Bool := v.all validValueByte

/-- httpguts.isTokenTable: RFC 7230 tchar -/
def isTokenByte (b : UInt8) : Bool :=
  let n := b.toNat
  (48 ≤ n && n ≤ 57) || (65 ≤ n && n ≤ 90) || (97 ≤ n && n ≤ 122) ||
  n == 33 || n == 35 || n == 36 || n == 37 || n == 38 || n == 39 || n == 42 || n == 43 ||
  n == 45 || n == 46 || n == 94 || n == 95 || n == 96 || n == 124 || n == 126
/-- `httpguts.ValidHeaderFieldName` -/
def validHeaderName (k : Bytes) : Bool := !k.isEmpty && k.all isTokenByte

/-! ## resolver/doh.go -/

/-- `headerValue` (added by the repair): keeps exactly the bytes net/http accepts in a value:
`(c >= ' ' && c != 0x7f) || c == '\t'` -/
def keepByte (c : UInt8) : Bool := (c.toNat ≥ 32 && c.toNat != 127) || c.toNat == 9
def sanitize (v : Bytes) : Bytes := v.filter keepByte

structure ClientInfo where
  id : Bytes := []
  ip : Bytes := []
  model : Bytes := []
  name : Bytes := []
deriving Repr, DecidableEq

/-- a request header map: key ↦ list of values (Go `http.Header`); keys are unique -/
abbrev Headers := List (Bytes × List Bytes)

/-- `h[k] = vs` (Go map assignment: replace or add) -/
def hset : Headers → Bytes → List Bytes → Headers
  | [], k, vs => [(k, vs)]
  | (k', vs') :: rest, k, vs => if k' = k then (k, vs) :: rest else (k', vs') :: hset rest k vs

/-- `h[k]` -/
def hget : Headers → Bytes → Option (List Bytes)
  | [], _ => none
  | (k', vs) :: rest, k => if k' = k then some vs else hget rest k

/-- ASCII literal → bytes (reduces in the kernel, unlike `String.toUTF8`) -/
def str (s : String) : Bytes := s.toList.map (fun c => UInt8.ofNat c.toNat)

def kContentType : Bytes := str "Content-Type"
def kLastMod : Bytes := str "X-Conf-Last-Modified"
def kDevId : Bytes := str "X-Device-Id"
def kDevIp : Bytes := str "X-Device-Ip"
def kDevModel : Bytes := str "X-Device-Model"
def kDevName : Bytes := str "X-Device-Name"
def kDevPrefix : Bytes := str "X-Device-"

/-- the two fixed headers of every DoH request (`req.Header.Set` with literal arguments; both keys
are already in canonical MIME form, so `Set` stores them as written) -/
def fixedHeaders : List (Bytes × Bytes) :=
  [(kContentType, str "application/dns-message"), (kLastMod, str "true")]

def setIfNonEmpty (h : Headers) (k v : Bytes) : Headers := if v = [] then h else hset h k [v]

/-- DOH.resolve, header construction.  `ci = none` ⇔ `r.ClientInfo == nil` (client reporting off):
the zero ClientInfo is used and every `!= ""` test fails.  `extra` = `r.ExtraHeaders` in any
iteration order (keys of a Go map are distinct; see `hset`). -/
def buildHeaders (ci : Option ClientInfo) (extra : Headers) : Headers :=
  let c := ci.getD {}
  let h0 : Headers := fixedHeaders.foldl (fun h kv => hset h kv.1 [kv.2]) []
  let h1 := extra.foldl (fun h kv => hset h kv.1 kv.2) h0
  let h2 := setIfNonEmpty h1 kDevId c.id
  let h3 := setIfNonEmpty h2 kDevIp c.ip
  let h4 := setIfNonEmpty h3 kDevModel c.model
  setIfNonEmpty h4 kDevName (sanitize c.name)

/-- http.Transport.roundTrip → validateHeaders: the request is rejected before any connection is
attempted unless every key and every value is valid. -/
def accepted (h : Headers) : Bool := h.all fun kv => validHeaderName kv.1 && kv.2.all validHeaderValue

/-! ## run.go: normalizeName, shortID -/

/-- `normalizeName`: first name, cut at the first '.' -/
def normalizeName : List Bytes → Bytes
  | [] => []
  | n :: _ => n.takeWhile (fun c => c.toNat != 46)

/-- digit of strconv's "0123456789abcdefghijklmnopqrstuvwxyz" (for d < 32) -/
def digit32 (d : Nat) : UInt8 := if d < 10 then b8 (48 + d) else b8 (87 + d)

/-- base-32 digits, least significant first; 13 digits of fuel suffice for a uint64 -/
def b32rev : Nat → Nat → Bytes
  | 0, _ => []
  | f + 1, n => if n < 32 then [digit32 n] else digit32 (n % 32) :: b32rev f (n / 32)

/-- `strconv.FormatUint(n, 32)` for n < 2^64 -/
def base32 (n : Nat) : Bytes := (b32rev 13 n).reverse

/-- the upper-casing loop: `if buf[i] >= 'a' { buf[i] ^= 1 << 5 }` -/
def upperByte (c : UInt8) : UInt8 := if c.toNat ≥ 97 then c ^^^ 32 else c

/-- the backing array after `buf = append(append(make([]byte,0,l), conf...), dev...)` and
`strconv.AppendUint(buf[:0], sum, 32)`: the digits overwrite the first bytes of the SAME array
(capacity l ≥ 13 ≥ number of digits, so append never reallocates); the rest keeps the input bytes,
then the zero bytes `make` left up to the capacity. -/
def backingAfterDigits (sum : Nat) (conf dev : Bytes) : Bytes :=
  let n := conf.length + dev.length
  let l := max 13 n
  let backing := conf ++ dev ++ List.replicate (l - n) 0
  let ds := base32 sum
  ds ++ backing.drop ds.length

/-- shortID as it was before the repair (`buf = buf[:5]` directly): kept for the record, used by
NV.Lemmas.ClientInfo to characterise the leak; not the model of the current code. -/
def shortIDLegacy (sum : Nat) (conf dev : Bytes) : Bytes :=
  ((backingAfterDigits sum conf dev).take 5).map upperByte

/-- shortID (repaired): `b := strconv.AppendUint(buf[:0], sum, 32); for len(b) < 5 { b = append(b, '0') };
buf = b[:5]` — the padding is written into the same array, over the leftover input bytes. -/
def shortIDSum (sum : Nat) (conf dev : Bytes) : Bytes :=
  let k := (base32 sum).length
  let a := backingAfterDigits sum conf dev
  let a' := if k < 5 then a.take k ++ List.replicate (5 - k) 48 ++ a.drop 5 else a
  (a'.take 5).map upperByte

/-- `shortID(confID, deviceID)` with `xxhash.Sum64` as the parameter `H` -/
def shortID (H : Bytes → Nat) (conf dev : Bytes) : Bytes := shortIDSum (H (conf ++ dev)) conf dev

/-! ## net helpers -/

def isV4Mapped (ip : Bytes) : Bool :=
  ip.length == 16 && (ip.take 10).all (· == 0) && byteAt ip 10 == 255 && byteAt ip 11 == 255

/-- `net.IP.IsLoopback` (via To4 / Equal(IPv6loopback)) on the stored bytes -/
def isLoopback (ip : Bytes) : Bool :=
  if ip.length == 4 then byteAt ip 0 == 127
  else if isV4Mapped ip then byteAt ip 12 == 127
  else ip == List.replicate 15 0 ++ [1]

def hexLower (n : Nat) : UInt8 := if n < 10 then b8 (48 + n) else b8 (87 + n)

/-- `net.HardwareAddr.String`: "aa:bb:cc…" (lower-case), "" for the empty address -/
def macString : Bytes → Bytes
  | [] => []
  | [b] => [hexLower (b.toNat / 16), hexLower (b.toNat % 16)]
  | b :: rest => hexLower (b.toNat / 16) :: hexLower (b.toNat % 16) :: 58 :: macString rest

def lowerByte (c : UInt8) : UInt8 := if 65 ≤ c.toNat ∧ c.toNat ≤ 90 then c + 32 else c
def upperASCII (c : UInt8) : UInt8 := if 97 ≤ c.toNat ∧ c.toNat ≤ 122 then c - 32 else c

/-- `hex := q.MAC.String(); if len(hex) >= 8 { ci.Model = "mac:" + hex[:8] }` -/
def macModel (mac : Bytes) : Bytes :=
  let hex := macString mac
  if hex.length ≥ 8 then str "mac:" ++ hex.take 8 else []

/-! ## run.go: setupClientReporting -/

structure Input where
  peer : Bytes                 -- q.PeerIP (4 or 16 bytes)
  mac : Option Bytes           -- q.MAC (none = nil)
  prof : Bytes                 -- conf.Get(q.PeerIP, q.LocalIP, q.MAC)
  ipstr : Bytes                -- q.PeerIP.String()
  addrNames : List Bytes       -- r.LookupAddr(ipstr)
  macNames : List Bytes        -- r.LookupMAC(mac string)
  hostName : Bytes := []       -- host.Name()
  machineID : Bytes := []      -- machineid.ProtectedID("NextDNS")
  hostModel : Bytes := []      -- host.Model()

/-- the closure installed by `setupClientReporting` -/
def clientInfo (H : Bytes → Nat) (x : Input) : ClientInfo :=
  if isLoopback x.peer then
    { id := (x.machineID.take 5).map upperASCII, name := x.hostName, model := x.hostModel }
  else
    let name0 := normalizeName x.addrNames
    match x.mac with
    | some mac =>
      { ip := x.ipstr
        id := shortID H x.prof mac
        model := macModel mac
        name := if x.macNames.length > 0 then normalizeName x.macNames else name0 }
    | none =>
      { ip := x.ipstr, id := shortID H x.prof x.peer, name := name0 }

/-- arguments the closure passes to the discovery tables (after `Resolver.Lookup*`'s ToLower) -/
def lookupArgs (x : Input) : Option (Bytes × Option Bytes) :=
  if isLoopback x.peer then none
  else some (x.ipstr.map lowerByte, x.mac.map fun m => (macString m).map lowerByte)

/-- the whole chain: closure (reporting on) or nil (reporting off), then DOH.resolve's headers -/
def requestHeaders (H : Bytes → Nat) (reporting : Bool) (x : Input) (extra : Headers) : Headers :=
  buildHeaders (if reporting then some (clientInfo H x) else none) extra

/-! ## discovery/util.go -/

def allIn (n : Bytes) (p : UInt8 → Bool) : Bool := n.all p
def isDigit (c : UInt8) : Bool := 48 ≤ c.toNat && c.toNat ≤ 57

/-- `isValidName` (`strings.Trim(name, asciiCutset) == ""` ⇔ every byte is in the cutset) -/
def isValidName (n : Bytes) : Bool :=
  if n == [] || n == [42] then false
  else if n.length == 36 && byteAt n 8 == 45 && byteAt n 13 == 45 && byteAt n 18 == 45 && byteAt n 23 == 45 &&
      allIn n (fun c => isDigit c || (97 ≤ c.toNat && c.toNat ≤ 102) || c.toNat == 45) then false
  else if n.length == 17 && byteAt n 2 == 95 && byteAt n 5 == 95 && byteAt n 8 == 95 && byteAt n 11 == 95 &&
      byteAt n 14 == 95 && allIn n (fun c => isDigit c || (65 ≤ c.toNat && c.toNat ≤ 70) || c.toNat == 95) then false
  else if 7 ≤ n.length && n.length ≤ 15 && allIn n (fun c => isDigit c || c.toNat == 45) then false
  else true

/-- `absDomainName` -/
def absDomainName (b : Bytes) : Bytes := if b.getLast? = some 46 then b else b ++ [46]

/-- what MDNS.read stores for a name delivered by the parser: none = filtered out -/
def mdnsStored (n : Bytes) : Option Bytes := if isValidName n then some (absDomainName n) else none

end NV.CI
