/-
  NV.Model.Config — configuration parsing, storage and reload (property C17).

  Models, function by function, what the Go code does:
    config/config.go        flagSet (option table), flagSet.Parse (flags, file, migration, flags
                            again), Config.Parse (default listen), Config.Save, multiStringValue.Set
    config/profile.go       newConfig, profile.String, Profiles.Set / Strings
    config/forwarder.go     newResolver, Resolver.String, fqdn, Forwarders.Set / Strings
    host/service/config.go  ConfigFlag / ConfigValue / ConfigUint / ConfigDuration Set + String,
                            ConfigFileStorer.SaveConfig / LoadConfig

  Text is `List Char` (`Str`), one `Char` per byte; the models of `strings.TrimSpace` and of the
  first-space / first-'=' splits are exact for ASCII (the stated domain of the property).

  External calls are parameters (`Env`); what is assumed about them is `EnvLaws` in
  NV.Lemmas.Config and is listed here:
    * `parseDur` / `fmtDur`   time.ParseDuration / Duration.String
    * `classify`              the chain net.ParseCIDR → net.ParseMAC → net.InterfaceByName (+Addrs) of
                              `newConfig`, on the trimmed condition text; `none` = "invalid condition
                              format or non-existent interface name".  The result carries the canonical
                              text printed by `IPNet.String` / `HardwareAddr.String`, resp. the
                              interface name as written together with its addresses (canonical
                              `IP.String` texts) at the time of the call.
    * `validAddr`             `resolver.New(addr)` succeeds (depends on the text only).
  The file is a list of lines: `bufio.Scanner` line splitting and `fmt.Fprintf("%s %s\n")` are modelled
  by `scanLines` / `serialize` below (values never contain '\n').
  `os.Exit(2)` (flag.ExitOnError, a failing `LoadConfig`) is `none`.
-/
namespace NV.Config

abbrev Str := List Char

/-! ### strings.TrimSpace, strings.IndexByte -/

/-- ASCII white space of `unicode.IsSpace` -/
def isSpace (c : Char) : Bool :=
  c = ' ' || c = '\t' || c = '\n' || c = '\x0b' || c = '\x0c' || c = '\r'

def trimLeft (s : Str) : Str := s.dropWhile isSpace

def trimRight : Str → Str
  | [] => []
  | c :: cs =>
    match trimRight cs with
    | [] => if isSpace c then [] else [c]
    | r => c :: r

/-- `strings.TrimSpace` -/
def trim (s : Str) : Str := trimLeft (trimRight s)

/-- `idx := strings.IndexByte(s, c)`; `some (s[:idx], s[idx+1:])`, or `none` when `idx == -1` -/
def splitAt1 (c : Char) : Str → Option (Str × Str)
  | [] => none
  | x :: xs =>
    if x = c then some ([], xs)
    else match splitAt1 c xs with
      | none => none
      | some (a, b) => some (x :: a, b)

/-! ### decimal numbers (`strconv.ParseUint(v, 10, bits)`, `fmt.Sprintf("%d")`) -/

def digitVal (c : Char) : Option Nat :=
  if '0' ≤ c ∧ c ≤ '9' then some (c.toNat - 48) else none

def parseDecAux : Nat → Str → Option Nat
  | acc, [] => some acc
  | acc, c :: cs =>
    match digitVal c with
    | none => none
    | some d => parseDecAux (acc * 10 + d) cs

/-- non-empty, digits only (no sign, no underscore) -/
def parseDec (s : Str) : Option Nat := if s = [] then none else parseDecAux 0 s

def parseUint (bits : Nat) (s : Str) : Option Nat :=
  match parseDec s with
  | none => none
  | some n => if n < 2 ^ bits then some n else none

def digitChar (d : Nat) : Char := Char.ofNat (48 + d)

def fmtDec (n : Nat) : Str :=
  if _h : n < 10 then [digitChar n] else fmtDec (n / 10) ++ [digitChar (n % 10)]
termination_by n
decreasing_by omega

/-- bit size of the flag side: `flag.UintVar` = `strconv.ParseUint(s, 0, strconv.IntSize)` (64-bit
platform; only decimal spellings without leading zeros are modelled on the flag side) -/
def uintFlagBits : Nat := 64
/-- bit size of the storage side: `ConfigUint.Set` (regenerated: `Gen.Config.configUintBits`) -/
def uintFileBits : Nat := 64

/-! ### option table (`config.flagSet`) -/

inductive Kind where
  | bool | string | duration | uint | strings | profiles | forwarders
  deriving DecidableEq, Repr

/-- profile condition as left by `newConfig` -/
inductive CondK where
  | pfx (key : Str)                        -- Prefix  (key = IPNet.String())
  | mac (key : Str)                        -- MAC     (key = HardwareAddr.String())
  | iface (name : Str) (ips : List Str)    -- interface name as written, DestIPs
  deriving DecidableEq, Repr

structure Profile where
  cond : Option CondK
  id : Str
  deriving DecidableEq, Repr

structure Fwd where
  domain : Str
  addr : Str
  deriving DecidableEq, Repr

inductive Val where
  | b (v : Bool) | s (v : Str) | d (ns : Int) | u (n : Nat)
  | ss (l : List Str) | ps (l : List Profile) | fs (l : List Fwd)
  deriving DecidableEq, Repr

def Val.strs : Val → List Str | .ss l => l | _ => []
def Val.profs : Val → List Profile | .ps l => l | _ => []
def Val.fwds : Val → List Fwd | .fs l => l | _ => []

structure Opt where
  name : String
  kind : Kind
  dflt : Val
  /-- `false`: the storage entry points at a throw-away variable (`new(bool)`), re-created by every
  `flagSet` call, so `Save` always writes the default -/
  bound : Bool
  deriving DecidableEq, Repr

def Opt.nm (o : Opt) : Str := o.name.toList

/-- hand copy of the table built by `Config.flagSet`, in source order; `NV.C17.gen_optTable_agree`
proves it equal to the table regenerated from config/config.go on every check -/
def optTable : List Opt := [
  ⟨"debug", .bool, .b false, true⟩,
  ⟨"listen", .strings, .ss [], true⟩,
  ⟨"control", .string, .s "/var/run/nextdns.sock".toList, true⟩,
  ⟨"config", .profiles, .ps [], true⟩,
  ⟨"profile", .profiles, .ps [], true⟩,
  ⟨"forwarder", .forwarders, .fs [], true⟩,
  ⟨"log-queries", .bool, .b false, true⟩,
  ⟨"cache-size", .string, .s "0".toList, true⟩,
  ⟨"cache-max-age", .duration, .d 0, true⟩,
  ⟨"max-ttl", .duration, .d 0, true⟩,
  ⟨"report-client-info", .bool, .b false, true⟩,
  ⟨"discovery-dns", .string, .s "".toList, true⟩,
  ⟨"mdns", .string, .s "all".toList, true⟩,
  ⟨"detect-captive-portals", .bool, .b false, true⟩,
  ⟨"hardened-privacy", .bool, .b false, false⟩,
  ⟨"bogus-priv", .bool, .b true, true⟩,
  ⟨"use-hosts", .bool, .b true, true⟩,
  ⟨"timeout", .duration, .d 5000000000, true⟩,
  ⟨"max-inflight-requests", .uint, .u 256, true⟩,
  ⟨"setup-router", .bool, .b false, true⟩,
  ⟨"auto-activate", .bool, .b false, true⟩
]

def findOptIn (tbl : List Opt) (n : Str) : Option Opt := tbl.find? (fun o => o.nm == n)
def findOpt (n : Str) : Option Opt := findOptIn optTable n
def kindOf (n : Str) : Option Kind := (findOpt n).map (·.kind)

/-! ### external functions -/

structure Env where
  parseDur : Str → Option Int
  fmtDur : Int → Str
  classify : Str → Option CondK
  validAddr : Str → Bool

/-! ### profile.go -/

/-- `newConfig` -/
def newConfig (env : Env) (v : Str) : Option Profile :=
  match splitAt1 '=' v with
  | none => some { cond := none, id := v }
  | some (c, i) =>
    match env.classify (trim c) with
    | none => none
    | some ck => some { cond := some ck, id := trim i }

def condText : CondK → Str
  | .pfx k => k
  | .mac k => k
  | .iface n _ => n

/-- `profile.String` (after the repair: the interface name is remembered and printed) -/
def pstring (p : Profile) : Str :=
  match p.cond with
  | none => p.id
  | some ck => condText ck ++ '=' :: p.id

/-- `profile.String` as found: MAC and prefix conditions are printed, an interface condition is not -/
def pstringOrig (p : Profile) : Str :=
  match p.cond with
  | some (.iface _ _) => p.id
  | _ => pstring p

/-- what `Profiles.Set` compares: same kind and same value; a profile without condition and an
interface without addresses (`DestIPs == nil`) fall in the same class -/
inductive CKey where
  | dflt | pfx (k : Str) | mac (k : Str) | dest (ips : List Str)
  deriving DecidableEq, Repr

def ckey : Option CondK → CKey
  | none => .dflt
  | some (.pfx k) => .pfx k
  | some (.mac k) => .mac k
  | some (.iface _ []) => .dflt
  | some (.iface _ (i :: is)) => .dest (i :: is)

def pkey (p : Profile) : CKey := ckey p.cond

/-- list `Set`: replace the first element of the same class, else append
(`Profiles.Set`, `Forwarders.Set`; `multiStringValue.Set` with equality as the class) -/
def setBy {α κ : Type} [DecidableEq κ] (key : α → κ) : List α → α → List α
  | [], x => [x]
  | y :: ys, x => if key x = key y then x :: ys else y :: setBy key ys x

/-- `Profiles.Get`, over an arbitrary match relation between a condition and a client -/
def getProfile {Client : Type} (m : CondK → Client → Bool) (l : List Profile) (cl : Client) : Str :=
  let rec go : List Profile → Str → Str
    | [], d => d
    | p :: ps, d =>
      match p.cond with
      | none => go ps p.id
      | some ck =>
        if m ck cl then
          -- `isDefault()`: no prefix, no MAC, no DestIPs
          (if ckey (some ck) = .dflt then go ps p.id else p.id)
        else go ps d
  go l []

/-! ### forwarder.go -/

def fqdn (s : Str) : Str := if s.getLast? = some '.' then s else s ++ ['.']

/-- `newResolver` -/
def newResolver (env : Env) (v : Str) : Option Fwd :=
  match splitAt1 '=' v with
  | none => if env.validAddr v then some { domain := [], addr := v } else none
  | some (d, a) =>
    if env.validAddr (trim a) then some { domain := fqdn (trim d), addr := trim a } else none

/-- `Resolver.String` -/
def fstring (f : Fwd) : Str := if f.domain = [] then f.addr else f.domain ++ '=' :: f.addr

/-- `Forwarders.Get` over an arbitrary match relation (`Resolver.Match` is C10's subject) -/
def getFwd {Name : Type} (m : Str → Name → Bool) (l : List Fwd) (n : Name) : Option Str :=
  (l.find? fun f => f.domain = [] || m f.domain n).map (·.addr)

/-! ### host/service/config.go: entries -/

def lit (s : String) : Str := s.toList

/-- spellings accepted by `ConfigFlag.Set` (regenerated: `Gen.Config.flagTrue/flagFalse`) -/
def fileTrue : List Str := [lit "yes", lit "true", lit "1"]
def fileFalse : List Str := [lit "no", lit "false", lit "0", []]

/-- `ConfigFlag.Set` -/
def parseBoolFile (v : Str) : Option Bool :=
  if v ∈ fileTrue then some true
  else if v ∈ fileFalse then some false
  else none

/-- `strconv.ParseBool` (flag package) -/
def parseBoolFlag (v : Str) : Option Bool :=
  if v = lit "1" ∨ v = lit "t" ∨ v = lit "T" ∨ v = lit "TRUE" ∨ v = lit "true" ∨ v = lit "True" then some true
  else if v = lit "0" ∨ v = lit "f" ∨ v = lit "F" ∨ v = lit "FALSE" ∨ v = lit "false" ∨ v = lit "False" then some false
  else none

/-- `entry.Set(value)`; `flagSide` selects the flag package's parsers for bool and uint -/
def setVal (env : Env) (flagSide : Bool) (k : Kind) (old : Val) (v : Str) : Option Val :=
  match k with
  | .bool => ((if flagSide then parseBoolFlag v else parseBoolFile v)).map .b
  | .string => some (.s v)
  | .duration => (env.parseDur v).map .d
  | .uint => (parseUint (if flagSide then uintFlagBits else uintFileBits) v).map .u
  | .strings => some (.ss (setBy id old.strs v))
  | .profiles => (newConfig env v).map fun p => .ps (setBy pkey old.profs p)
  | .forwarders => (newResolver env v).map fun f => .fs (setBy Fwd.domain old.fwds f)

/-- `ConfigFlag/Value/Duration/Uint.String` -/
def fmtScalar (env : Env) : Val → Str
  | .b true => lit "true"
  | .b false => lit "false"
  | .s v => v
  | .d ns => env.fmtDur ns
  | .u n => fmtDec n
  | _ => []

/-- the values written for one entry: `Strings()` of a list entry, else `[String()]` -/
def entryValues (env : Env) : Val → List Str
  | .ss l => l
  | .ps l => l.map pstring
  | .fs l => l.map fstring
  | v => [fmtScalar env v]

/-! ### configuration state and the file -/

/-- option name ↦ current value of the variable the entry points at -/
abbrev Cfg := Str → Val

def Cfg.set (c : Cfg) (n : Str) (v : Val) : Cfg := fun m => if m = n then v else c m

def defaultCfg : Cfg := fun n =>
  match findOpt n with
  | some o => o.dflt
  | none => .b false

abbrev Line := Str × Str

def fmtLine (l : Line) : Str := l.1 ++ ' ' :: l.2

/-- one iteration of the `LoadConfig` loop up to the map lookup: `none` = skipped line -/
def parseLine (raw : Str) : Option Line :=
  let t := trim raw
  if t = [] ∨ t.head? = some '#' then none
  else match splitAt1 ' ' t with
    | none => some (t, [])
    | some (n, v) => some (n, trim v)

/-- `if entry := c[name]; entry != nil { entry.Set(value) }` -/
def applyLine (env : Env) (c : Cfg) (l : Line) : Option Cfg :=
  match kindOf l.1 with
  | none => some c
  | some k =>
    match setVal env false k (c l.1) l.2 with
    | none => none
    | some v => some (c.set l.1 v)

def applyLines (env : Env) : Cfg → List Line → Option Cfg
  | c, [] => some c
  | c, l :: ls =>
    match applyLine env c l with
    | none => none
    | some c' => applyLines env c' ls

/-- `ConfigFileStorer.LoadConfig` on the lines of the file -/
def loadLines (env : Env) (c : Cfg) (raws : List Str) : Option Cfg :=
  applyLines env c (raws.filterMap parseLine)

/-- value an entry of the storage map built by `Save` (a fresh `flagSet("")`) points at -/
def stored (c : Cfg) (o : Opt) : Val := if o.bound then c o.nm else o.dflt

/-- `SaveConfig` in table order (the real order is the map's: see `SavedAs` in the property file) -/
def saveLines (env : Env) (c : Cfg) : List Line :=
  optTable.flatMap fun o => (entryValues env (stored c o)).map fun v => (o.nm, v)

/-- `fmt.Fprintf(f, "%s %s\n", …)` for every line -/
def serialize (ls : List Str) : Str := ls.flatMap (· ++ ['\n'])

/-- `bufio.ScanLines`: split at '\n', drop one trailing '\r', no final empty line -/
def scanLines (s : Str) : List Str :=
  let rec go : Str → Str → List Str
    | [], cur => if cur = [] then [] else [dropCR cur.reverse]
    | c :: cs, cur => if c = '\n' then dropCR cur.reverse :: go cs [] else go cs (c :: cur)
  go s []
where
  dropCR (l : Str) : Str := if l.getLast? = some '\r' then l.dropLast else l

/-! ### command line (`flagSet.Parse`, `Config.Parse`) -/

inductive Form where
  | sep    -- `-name value`
  | eq     -- `-name=value`
  | bare   -- `-name` (bool flags)
  deriving DecidableEq, Repr

structure Arg where
  form : Form
  dd : Bool       -- written with two dashes
  name : Str
  value : Str
  deriving DecidableEq, Repr

/-- one flag of `flag.FlagSet.Parse` (ExitOnError): unknown flag, bad value or a bool flag followed by
a separate value (which stops parsing and is later reported as "Unrecognized parameter") exit -/
def applyArg (env : Env) (c : Cfg) (a : Arg) : Option Cfg :=
  match findOpt a.name with
  | none => none
  | some o =>
    if o.kind = .bool then
      match a.form with
      | .bare => some (c.set a.name (.b true))
      | .eq => (parseBoolFlag a.value).map fun b => c.set a.name (.b b)
      | .sep => none
    else
      match a.form with
      | .bare => none
      | _ => (setVal env true o.kind (c a.name) a.value).map fun v => c.set a.name v

def applyArgs (env : Env) : Cfg → List Arg → Option Cfg
  | c, [] => some c
  | c, a :: as =>
    match applyArg env c a with
    | none => none
    | some c' => applyArgs env c' as

/-- `for i, arg := range args { if arg == "-config" { args[i] = "-profile" } }`: rewrites the flag
token `-config` (single dash, value in the next token) and also a *value* token equal to "-config" -/
def renameArg (a : Arg) : Arg :=
  match a.form with
  | .sep =>
    { a with name := if a.dd = false ∧ a.name = lit "config" then lit "profile" else a.name,
             value := if a.value = lit "-config" then lit "-profile" else a.value }
  | _ => a

/-- "Migrate from config to profile": plain `append`, no replace-same-condition -/
def migrate (c : Cfg) : Cfg :=
  let cd := (c (lit "config")).profs
  if cd = [] then c
  else (c.set (lit "profile") (.ps ((c (lit "profile")).profs ++ cd))).set (lit "config") (.ps [])

def defaultListen : Str := lit "localhost:53"

def fixListen (c : Cfg) : Cfg :=
  if (c (lit "listen")).strs = [] then c.set (lit "listen") (.ss [defaultListen]) else c

/-- `Config.Parse(cmd, args, true)` on a fresh `Config` with `-config-file` given: flags, then the
file on top, migration, the flags again, default listen address -/
def parseCmd (env : Env) (file : List Str) (args : List Arg) : Option Cfg :=
  match applyArgs env defaultCfg args with
  | none => none
  | some c1 =>
    match loadLines env c1 file with
    | none => none
    | some c2 =>
      match applyArgs env (migrate c2) (args.map renameArg) with
      | none => none
      | some c4 => some (fixListen c4)

end NV.Config
