/-
  NV.Model.Pool — who holds a pooled buffer (`sync.Pool` of proxy/udp.go, proxy/tcp.go).

  A buffer is a natural number. `holders b` = the goroutines that currently treat buffer `b` as
  theirs (read queries into it, write replies from it); `inPool b` = it lies in the pool, ready to
  be handed out by the next `Get`; buffers `≥ next` have never been allocated (`Pool.New`).
  Steps (any interleaving, any number of goroutines):
    get t b     `Get` returns pooled buffer b to goroutine t          (needs inPool b)
    new t       `Get` on an empty pool allocates buffer `next`
    put t b     `Put(&b)` by t
    hand t u b  `go func(){…b…}()`: t gives b to the new goroutine u
    drop t b    t returns still holding b (garbage)
    gc b        the runtime drops a pooled buffer
  `Disciplined` steps are those in which `put`, `hand` and `drop` are done by a holder of the
  buffer — exactly what the regenerated ownership certificates (`NV.C01.pool_cert_ok`) establish
  for every path of the handlers. `noAlias`: a buffer has at most one holder and none while pooled.
-/
namespace NV.Pool


structure S where
  holders : Nat → List Nat
  inPool  : Nat → Bool
  next    : Nat

def upd {α : Type} (f : Nat → α) (b : Nat) (v : α) : Nat → α := fun x => if x = b then v else f x

inductive Op where
  | get (t : Nat) (b : Nat)
  | new (t : Nat)
  | put (t : Nat) (b : Nat)
  | hand (t u : Nat) (b : Nat)
  | drop (t : Nat) (b : Nat)
  | gc (b : Nat)
  deriving Repr, DecidableEq

/-- is the operation possible at all? (`sync.Pool` hands out only what it holds) -/
def enabled (s : S) : Op → Bool
  | .get _ b => s.inPool b
  | _ => true

/-- does the goroutine doing it hold the buffer? (the certificate's `need`/`rel`/`spawn` condition) -/
def disciplined (s : S) : Op → Bool
  | .put t b => (s.holders b).contains t
  | .hand t _ b => (s.holders b).contains t
  | .drop t b => (s.holders b).contains t
  | _ => true

def apply (s : S) : Op → S
  | .get t b => { s with holders := upd s.holders b (t :: s.holders b), inPool := upd s.inPool b false }
  | .new t => { holders := upd s.holders s.next [t], inPool := s.inPool, next := s.next + 1 }
  | .put t b => { s with holders := upd s.holders b ((s.holders b).erase t), inPool := upd s.inPool b true }
  | .hand t u b => { s with holders := upd s.holders b (u :: (s.holders b).erase t) }
  | .drop t b => { s with holders := upd s.holders b ((s.holders b).erase t) }
  | .gc b => { s with inPool := upd s.inPool b false }

def init : S := { holders := fun _ => [], inPool := fun _ => false, next := 0 }

/-- run a schedule; `none` when an operation is not enabled -/
def run (s : S) : List Op → Option S
  | [] => some s
  | o :: os => if enabled s o then run (apply s o) os else none

def Inv (s : S) : Prop :=
  (∀ b, (s.holders b).length ≤ 1) ∧
  (∀ b, s.inPool b = true → s.holders b = []) ∧
  (∀ b, s.next ≤ b → s.holders b = [] ∧ s.inPool b = false)

end NV.Pool
