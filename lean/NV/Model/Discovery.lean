/-
  NV.Model.Discovery — executable model of the table maintenance in package `discovery`
  (discovery/util.go, hosts.go, dhcp.go, merlin_linux.go, resolver.go).

  Strings are byte lists (`Str = List UInt8`); Go's `<` on strings is the bytewise
  lexicographic order `strLt`.  Go maps `map[string]V` are association lists with unique keys
  (`mset` removes the old binding before adding the new one); the dump sorts by key, so the
  list order is never observable (Go's map order is random, the harness sorts too).

  Faithfulness notes / assumptions about external calls (all recorded in nvcheck/props/c18.py):
  * `sort.SearchStrings` is modelled by the exact binary search of `sort.Search`
    (`searchGo`, same midpoint `(i+j)/2`), so the model agrees with the code on unsorted lists too;
  * `append(set, "")`, `copy(set[k+1:], set[k:])` (memmove semantics), `set[pos] = x` are modelled
    literally (`copyShift`, `List.set`); which index the copy uses is a parameter (`ShiftIdx`):
    the unrepaired code used the loop index `i` (kept as `appendUniqOld` for the record);
  * `bufio.Scanner` + `ScanLines`: split at '\n', one trailing '\r' dropped, a final line without
    '\n' is a line, lines are shorter than 64 KiB (domain: longer lines make the Scanner stop
    with ErrTooLong; not modelled);
  * `strings.Fields`, `strings.ToLower`, `strings.Trim*`, `bytes.ToLower`: exact for ASCII input
    (domain of the file theorems: every byte < 0x80; bytes ≥ 0x80 are treated as non-space,
    non-letter, which is what the Go functions do for invalid UTF-8 except `ToLower`);
  * `net.ParseIP(s).String()` is the parameter `canonIP : Str → Option Str` (none = nil IP);
    the wrapper `parseLiteralIP`/`parseIPZone`/`splitHostZone` around it is modelled;
  * `os.Open`/`Stat` succeed (the harness writes real files).
-/
import NV.Model.Wire
namespace NV.Disc
open NV

abbrev Str := Bytes

/-! ### strings -/

/-- Go `a < b` on strings: bytewise lexicographic. -/
def strLt : Str → Str → Bool
  | [], [] => false
  | [], _ :: _ => true
  | _ :: _, [] => false
  | a :: as, b :: bs =>
    if a.toNat < b.toNat then true else if b.toNat < a.toNat then false else strLt as bs

def lowerByte (b : UInt8) : UInt8 := if 65 ≤ b.toNat ∧ b.toNat ≤ 90 then b + 32 else b

/-- `lowerASCIIBytes` (exact), `strings.ToLower`/`bytes.ToLower` (ASCII domain) -/
def lower (s : Str) : Str := s.map lowerByte

/-- `absDomainName`: append '.' unless the name already ends with one -/
def absName (s : Str) : Str := if s.getLast? = some 46 then s else s ++ [46]

/-- `prepareHostLookup` -/
def prepareHostLookup (s : Str) : Str := absName (lower s)

def allIn (cut : Str) (s : Str) : Bool := s.all fun c => cut.contains c

def hexLowerDash : Str := [48, 49, 50, 51, 52, 53, 54, 55, 56, 57, 97, 98, 99, 100, 101, 102, 45]  /- "0123456789abcdef-" -/
def hexUpperUnd : Str := [48, 49, 50, 51, 52, 53, 54, 55, 56, 57, 65, 66, 67, 68, 69, 70, 95]  /- "0123456789ABCDEF_" -/
def digitsDash : Str := [48, 49, 50, 51, 52, 53, 54, 55, 56, 57, 45]  /- "0123456789-" -/

/-- `isValidName` (`strings.Trim(name, cut) == ""` ⇔ every byte of name is in `cut`) -/
def isValidName (n : Str) : Bool :=
  if n = [] ∨ n = [42] then false
  else if n.length = 36 ∧ byteAt n 8 = 45 ∧ byteAt n 13 = 45 ∧ byteAt n 18 = 45 ∧ byteAt n 23 = 45
      ∧ allIn hexLowerDash n then false
  else if n.length = 17 ∧ byteAt n 2 = 95 ∧ byteAt n 5 = 95 ∧ byteAt n 8 = 95 ∧ byteAt n 11 = 95
      ∧ byteAt n 14 = 95 ∧ allIn hexUpperUnd n then false
  else if 7 ≤ n.length ∧ n.length ≤ 15 ∧ allIn digitsDash n then false
  else true

/-! ### appendUniq -/

/-- `sort.Search(n, f)`: `i, j := 0, n; for i < j { h := int(uint(i+j) >> 1); if !f(h) { i = h+1 } else { j = h } }`.
`fuel` bounds the iterations (`j - i` strictly decreases; `searchStrings` passes `n + 1`). -/
def searchGo (f : Nat → Bool) : Nat → Nat → Nat → Nat
  | 0, i, _ => i
  | fuel + 1, i, j =>
    if i < j then
      let h := (i + j) / 2
      if !f h then searchGo f fuel (h + 1) j else searchGo f fuel i h
    else i

/-- `sort.SearchStrings(set, x)` = `sort.Search(len(set), func(i) bool { return set[i] >= x })` -/
def searchStrings (set : List Str) (x : Str) : Nat :=
  searchGo (fun h => !strLt (set.getD h []) x) (set.length + 1) 0 set.length

/-- `copy(s[k+1:], s[k:])` (overlapping copy = memmove): positions `k+1 …` receive the old
`s[k …]`, as many as fit. -/
def copyShift (s : List Str) (k : Nat) : List Str :=
  s.take (k + 1) ++ (s.drop k).take (s.length - (k + 1))

/-- which index the shifting `copy` uses: `pos` (repaired code) or the loop index `i` (old code) -/
inductive ShiftIdx where
  | pos | i
  deriving DecidableEq, Repr

/-- `appendUniq(set, adds...)`; `i` is the loop index.  Note the early `return set` on the first
duplicate (the remaining adds are dropped; every caller in package discovery passes one value). -/
def appendUniqG (idx : ShiftIdx) : List Str → Nat → List Str → List Str
  | set, _, [] => set
  | set, i, x :: rest =>
    let pos := searchStrings set x
    if pos < set.length ∧ set.getD pos [] = x then set
    else
      let k := match idx with
        | .pos => pos
        | .i => i
      let s1 := set ++ [[]]
      let s2 := copyShift s1 k
      let s3 := s2.set pos x
      appendUniqG idx s3 (i + 1) rest

/-- the repaired `appendUniq` (fix: shift from `pos`) -/
def appendUniq (set adds : List Str) : List Str := appendUniqG .pos set 0 adds
/-- the code before the repair (shift from the loop index) -/
def appendUniqOld (set adds : List Str) : List Str := appendUniqG .i set 0 adds

def appendUniq1 (set : List Str) (x : Str) : List Str := appendUniq set [x]

/-! ### maps -/

def mget {V : Type} (m : List (Str × V)) (k : Str) : Option V := m.lookup k
def mdel {V : Type} (m : List (Str × V)) (k : Str) : List (Str × V) := m.filter fun p => !(p.1 == k)
def mset {V : Type} (m : List (Str × V)) (k : Str) (v : V) : List (Str × V) := (k, v) :: mdel m k

abbrev Tbl := List (Str × List Str)

/-- Go `m[k]` on `map[string][]string` (nil for a missing key) -/
def Tbl.get (m : Tbl) (k : Str) : List Str := (mget m k).getD []
/-- `m[k] = append(m[k], v)` -/
def Tbl.push (m : Tbl) (k v : Str) : Tbl := mset m k (m.get k ++ [v])
/-- `m[k] = appendUniq(m[k], v)` -/
def Tbl.pushU (m : Tbl) (k v : Str) : Tbl := mset m k (appendUniq1 (m.get k) v)

/-! ### lines and fields -/

def dropCR (l : Bytes) : Bytes := if l.getLast? = some 13 then l.dropLast else l

/-- `bufio.ScanLines` over the whole input; `cur` is the current line, reversed -/
def scanLinesAux : Bytes → Bytes → List Bytes
  | [], cur => if cur.isEmpty then [] else [dropCR cur.reverse]
  | c :: rest, cur => if c = 10 then dropCR cur.reverse :: scanLinesAux rest [] else scanLinesAux rest (c :: cur)

def splitLines (b : Bytes) : List Bytes := scanLinesAux b []

/-- `unicode.IsSpace` on ASCII: '\t' '\n' '\v' '\f' '\r' ' ' -/
def isSpace (c : UInt8) : Bool := c = 9 || c = 10 || c = 11 || c = 12 || c = 13 || c = 32

/-- `strings.Fields` (ASCII) -/
def fieldsAux : Bytes → Bytes → List Bytes
  | [], cur => if cur.isEmpty then [] else [cur.reverse]
  | c :: rest, cur =>
    if isSpace c then (if cur.isEmpty then fieldsAux rest [] else cur.reverse :: fieldsAux rest [])
    else fieldsAux rest (c :: cur)

def fields (l : Bytes) : List Bytes := fieldsAux l []

/-- `if i := strings.IndexByte(line, '#'); i >= 0 { line = line[0:i] }` -/
def stripComment (l : Bytes) : Bytes := l.takeWhile (· != 35)

def trimRight (cut : Str) (s : Str) : Str := (s.reverse.dropWhile fun c => cut.contains c).reverse
def trimBoth (cut : Str) (s : Str) : Str := trimRight cut (s.dropWhile fun c => cut.contains c)

/-! ### hosts file -/

/-- `splitHostZone`: the zone starts after the last '%' if that is not the first byte -/
def splitHostZone (s : Str) : Str × Str :=
  let r := s.reverse
  match r.idxOf? 37 with
  | none => (s, [])
  | some j =>
    let i := s.length - 1 - j
    if i > 0 then (s.take i, s.drop (i + 1)) else (s, [])

/-- `parseLiteralIP` with `canonIP s = net.ParseIP(s).String()` (none when ParseIP returns nil) -/
def parseLiteralIP (canonIP : Str → Option Str) (s : Str) : Option Str :=
  match s.find? (fun c => c = 46 || c = 58) with
  | none => none
  | some c =>
    if c = 46 then canonIP s
    else
      let hz := splitHostZone s
      match canonIP hz.1 with
      | none => none
      | some ip => if hz.2 = [] then some ip else some (ip ++ 37 :: hz.2)

structure HostsTbl where
  names : Tbl := []
  addrs : Tbl := []

/-- one `(addr, field)` of a hosts line: `names[key] = append(names[key], addr)`,
`addrs[addr] = append(addrs[addr], name)` -/
def hostsAdd (addr : Str) (t : HostsTbl) (f : Str) : HostsTbl :=
  { names := t.names.push (absName (lower f)) addr, addrs := t.addrs.push addr (absName f) }

/-- the `(addr, name-field)` pairs a hosts line declares (comment stripped, first field an IP literal) -/
def hostsLinePairs (canonIP : Str → Option Str) (line : Bytes) : List (Str × Str) :=
  let flds := fields (stripComment line)
  match flds with
  | f0 :: f1 :: rest =>
    match parseLiteralIP canonIP f0 with
    | none => []
    | some addr => (f1 :: rest).map fun f => (addr, f)
  | _ => []

/-- body of the `for s.Scan()` loop of `readHostsFile` -/
def hostsLine (canonIP : Str → Option Str) (t : HostsTbl) (line : Bytes) : HostsTbl :=
  let flds := fields (stripComment line)
  if flds.length < 2 then t
  else
    match parseLiteralIP canonIP (flds.headD []) with
    | none => t
    | some addr => flds.tail.foldl (hostsAdd addr) t

def lhKey1 : Str := [108, 111, 99, 97, 108, 104, 111, 115, 116]  /- "localhost" -/
def lhKey2 : Str := [108, 111, 99, 97, 108, 104, 111, 115, 116, 46, 108, 111, 99, 97, 108, 100, 111, 109, 97, 105, 110, 46]  /- "localhost.localdomain." -/
def localhostKeys : List Str := [lhKey1, lhKey2]
def localhostAddrs : List Str := [[49, 50, 55, 46, 48, 46, 48, 46, 49]  /- "127.0.0.1" -/, [58, 58, 49]  /- "::1" -/]

/-- the loop over `[]string{"localhost", "localhost.localdomain."}` (note: the first key has no
trailing dot, so `LookupHost` — which always absolutizes — can never hit it; only `Visit` shows it) -/
def hostsDefaults (names : Tbl) : Tbl :=
  localhostKeys.foldl (fun m lh => if (m.get lh).length = 0 then mset m lh localhostAddrs else m) names

def readHostsFile (canonIP : Str → Option Str) (content : Bytes) : HostsTbl :=
  let t := (splitLines content).foldl (hostsLine canonIP) {}
  { t with names := hostsDefaults t.names }

/-- `Hosts.LookupHost` / `DHCP.LookupHost` -/
def lookupHost (names : Tbl) (q : Str) : List Str := names.get (prepareHostLookup q)
/-- `Resolver.LookupHost` for a single source: `strings.ToLower` first -/
def resolverLookupHost (names : Tbl) (q : Str) : List Str := lookupHost names (lower q)
/-- `Resolver.LookupAddr` / `LookupMAC` for a single source -/
def resolverLookupKey (t : Tbl) (q : Str) : List Str := t.get (lower q)

/-! ### DHCP leases -/

structure LeaseTbl where
  macs : Tbl := []
  addrs : Tbl := []
  names : Tbl := []

def localSuffix : Str := [108, 111, 99, 97, 108, 46]  /- "local." -/

/-- a dnsmasq lease line: `(mac, ip, name)` when it has ≥ 5 fields and the host name is not "*" -/
def dnsmasqRec (line : Bytes) : Option (Str × Str × Str) :=
  match fields line with
  | _ :: f1 :: f2 :: f3 :: _ :: _ => if f3 = [42] then none else some (lower f1, lower f2, absName f3)
  | _ => none

/-- body of the loop of `readDNSMasqLease` -/
def dnsmasqLine (t : LeaseTbl) (line : Bytes) : LeaseTbl :=
  let flds := fields line
  if flds.length ≥ 5 then
    let hostname := flds.getD 3 []
    if hostname = [42] then t
    else
      let name := absName hostname
      let key := lower name
      let mac := lower (flds.getD 1 [])
      let ip := lower (flds.getD 2 [])
      { macs := t.macs.pushU mac name,
        addrs := t.addrs.pushU ip name,
        names := (t.names.pushU key ip).pushU (key ++ localSuffix) ip }
  else t

def readDNSMasqLease (content : Bytes) : LeaseTbl := (splitLines content).foldl dnsmasqLine {}

/-- parser state of `readDHCPDLease` -/
structure DhcpdSt where
  name : Str := []
  ip : Str := []
  mac : Str := []
  t : LeaseTbl := {}

def kwLease : Str := [108, 101, 97, 115, 101]  /- "lease" -/
def kwHardware : Str := [104, 97, 114, 100, 119, 97, 114, 101]  /- "hardware" -/
def kwClientHostname : Str := [99, 108, 105, 101, 110, 116, 45, 104, 111, 115, 116, 110, 97, 109, 101]  /- "client-hostname" -/

/-- the table updates at a closing `}` -/
def dhcpdClose (name ip mac : Str) (t : LeaseTbl) : LeaseTbl :=
  if name ≠ [] then
    let name := absName name
    let t1 : LeaseTbl :=
      if ip ≠ [] then
        let key := absName (lower name)
        { t with names := (t.names.pushU key ip).pushU (key ++ localSuffix) ip,
                 addrs := t.addrs.pushU ip name }
      else t
    if mac ≠ [] then { t1 with macs := t1.macs.pushU mac name } else t1
  else t

def dhcpdLine (s : DhcpdSt) (line : Bytes) : DhcpdSt :=
  if line.head? = some 125 then
    { name := [], ip := [], mac := [], t := dhcpdClose s.name s.ip s.mac s.t }
  else
    let flds := fields line
    if flds.length < 2 then s
    else
      let f0 := flds.headD []
      let f1 := flds.getD 1 []
      if f0 = kwLease then { s with ip := lower f1 }
      else if f0 = kwHardware then
        (if flds.length ≥ 3 then { s with mac := lower (trimRight [59] (flds.getD 2 [])) } else s)
      else if f0 = kwClientHostname then { s with name := trimBoth [34, 59] f1 }
      else s

def readDHCPDLease (content : Bytes) : LeaseTbl := ((splitLines content).foldl dhcpdLine {}).t

/-! ### Merlin custom_clientlist -/

/-- `readClientList`: `none` = error; `some none` = `(nil, nil)` for empty input -/
def readClientListLoop : Nat → Bytes → Tbl → Option Tbl
  | 0, _, _ => none   -- unreachable: fuel = len(b) + 1 and every iteration consumes ≥ 1 byte
  | fuel + 1, b, macs =>
    match b with
    | [] => some macs
    | c :: b1 =>
      if c = 10 ∨ c = 13 then readClientListLoop fuel b1 macs
      else if c ≠ 60 then none
      else
        let eol := (b1.idxOf? 60).getD b1.length
        match b1.idxOf? 62 with
        | none => none
        | some idx =>
          let idx2 := idx + 18
          if idx2 > eol ∨ b1.length ≤ idx2 ∨ byteAt b1 idx2 ≠ 62 then none
          else
            let macs' :=
              if idx > 0 then
                macs.pushU (lower ((b1.drop (idx + 1)).take 17)) (b1.take idx)
              else macs
            readClientListLoop fuel (b1.drop eol) macs'

def readClientList (b : Bytes) : Option (Option Tbl) :=
  if b = [] then some none else (readClientListLoop (b.length + 1) b []).map some

end NV.Disc
