/-
  C01 — every well-formed query gets exactly one faithful reply.

  * `exactly_one_write`   : from the regenerated CFGs of the two handler closures — every path
                            from entry to a normal exit performs exactly one write to the client.
  * `tcp_reply_faithful`, `udp_reply_faithful` : when the resolver produced an upstream message `m`
                            (1..65535 bytes) the TCP reply is `len ++ m` byte for byte and the UDP
                            reply is a prefix of `m` except for bit 1 of byte 2 (TC).
  * `servfail_when_failed`, `upstream_when_ok` : SERVFAIL is substituted exactly for an error or an
                            out-of-range size.
  * `servfail_shape`      : the SERVFAIL carries the query's ID, QR=1, RCODE=2.
  "Never another client's answer": the reply is a function of this handler's own query and
  outcome (`udpReply q o`, `tcpReply q o`) PROVIDED no other goroutine writes into this handler's
  buffers. That is `pool_cert_ok` (regenerated ownership certificates of every pooled buffer
  variable: used and put back only while owned, on every path) + `pool_no_alias` (a `sync.Pool`
  used with that discipline never has two holders of one buffer, in any interleaving);
  `double_put_aliases` shows what the discipline excludes. Also exercised by `sockconc`.
-/
import NV.Model.TcpStream
import NV.Model.Reply
import NV.Model.CFG
import NV.Gen.ProxyCFG
import NV.Lemmas.Pool
import NV.Lemmas.ReplyName
namespace NV.C01
open NV NV.CFG NV.Gen

theorem write_cert_ok :
    (ProxyCFG.allWrites.all fun e => check e.2.2.2.2 e.2.1 e.2.2.1 e.2.2.2.1) = true := by decide

/-- non-vacuity and shape of the projection: both handlers contain a write, start at
(written = 0, expected = 1) and never change the expectation. -/
theorem write_nonvacuous :
    (ProxyCFG.serveUDP_handler0_write.any fun b => b.evs.contains .acq) = true ∧
    (ProxyCFG.serveTCPConn_handler0_write.any fun b => b.evs.contains .acq) = true ∧
    (ProxyCFG.allWrites.all fun e => e.2.2.2.1 == ((0, 1) : St)) = true ∧
    (ProxyCFG.allWrites.all fun e => e.2.1.all fun b => !b.evs.contains .deferRel) = true ∧
    ProxyCFG.allWrites.length = 2 := by decide

theorem runEvs_deferred_const (evs : List Ev) (s : St) (h : ∀ e ∈ evs, e ≠ .deferRel) :
    (runEvs evs s).2 = s.2 := by
  induction evs generalizing s with
  | nil => rfl
  | cons e es ih =>
    simp only [runEvs, List.foldl_cons]
    have h1 : e ≠ .deferRel := h e (by simp)
    have : (e.apply s).2 = s.2 := by
      cases e <;> simp_all [Ev.apply]
    have := ih (e.apply s) (fun x hx => h x (by simp [hx]))
    simp only [runEvs] at this
    omega

theorem reach_deferred_const (p : Prog) (init : St)
    (hp : ∀ b ∈ p, ∀ e ∈ b.evs, e ≠ .deferRel) :
    ∀ i s, Reach p init i s → s.2 = init.2 := by
  intro i s hr
  induction hr with
  | entry => rfl
  | @step i j s b _ hb _ ih =>
    have hmem : b ∈ p := List.mem_of_getElem? hb
    rw [runEvs_deferred_const b.evs s (hp b hmem)]; exact ih

/-- **C01 (exactly one reply)**: on every path of either handler closure from its entry to a
normal exit, exactly one write to the client has happened. -/
theorem exactly_one_write (e : String × Prog × Cert × St × Bool) (he : e ∈ ProxyCFG.allWrites)
    (i : Nat) (s : St) (b : Block) (hr : Reach e.2.1 e.2.2.2.1 i s) (hb : e.2.1[i]? = some b)
    (hexit : b.succs = []) : (runEvs b.evs s).1 = 1 := by
  have hall := write_cert_ok
  rw [List.all_eq_true] at hall
  have hbal := exit_balanced _ _ _ _ (hall e he) i s b hr hb hexit
  obtain ⟨_, _, hinit, hnd, _⟩ := write_nonvacuous
  rw [List.all_eq_true] at hinit hnd
  have hi : e.2.2.2.1 = (0, 1) := by simpa using hinit e he
  have hnd' : ∀ b ∈ e.2.1, ∀ ev ∈ b.evs, ev ≠ .deferRel := by
    intro b' hb' ev hev
    have := hnd e he
    rw [List.all_eq_true] at this
    have := this b' hb'
    intro heq; subst heq
    simp_all
  have hs2 : s.2 = 1 := by
    have := reach_deferred_const e.2.1 e.2.2.2.1 hnd' i s hr
    rw [hi] at this; exact this
  have hmem : b ∈ e.2.1 := List.mem_of_getElem? hb
  have := runEvs_deferred_const b.evs s (hnd' b hmem)
  omega

/-- **C01 (TCP faithful)**: an upstream message of 1..65535 bytes is framed unchanged. -/
theorem tcp_reply_faithful (q : Query) (m : Bytes) (h1 : 1 ≤ m.length) (h2 : m.length ≤ 65535) :
    tcpReply q (.bytes m) = be16 m.length ++ m := by
  unfold tcpReply resolved maxTCPSize
  have : ¬(m.length = 0 ∨ m.length > 65535) := by omega
  simp only [this, ↓reduceIte]
  rw [Nat.mod_eq_of_lt (by omega)]

/-- **C01 (UDP faithful)**: the datagram is a prefix of the upstream message, except possibly
byte 2 (whose TC bit the proxy may set). -/
theorem udp_reply_faithful (q : Query) (m : Bytes) (h1 : 1 ≤ m.length) (h2 : m.length ≤ 65535)
    (i : Nat) (hi : i < (udpReply q (.bytes m)).length) (hne : i ≠ 2) :
    (udpReply q (.bytes m))[i]? = m[i]? := by
  unfold udpReply resolved maxTCPSize at *
  have hn : ¬(m.length = 0 ∨ m.length > 65535) := by omega
  simp only [hn, ↓reduceIte] at hi ⊢
  generalize udpTrunc m.length q.msgSize = r at *
  obtain ⟨n, tc⟩ := r
  dsimp only at hi ⊢
  cases tc
  · simp only [Bool.false_eq_true, ↓reduceIte] at hi ⊢
    rw [List.getElem?_take]
    simp only [List.length_take] at hi
    have : i < n := by omega
    simp [this]
  · simp only [↓reduceIte] at hi ⊢
    rw [List.getElem?_take]
    simp only [List.length_take, setTC, List.length_set] at hi
    have : i < n := by omega
    simp only [this, ↓reduceIte, setTC]
    rw [List.getElem?_set]
    simp [Ne.symm hne]

/-- byte 2 differs from the upstream's at most in the TC bit -/
theorem udp_reply_byte2 (q : Query) (m : Bytes) (h1 : 1 ≤ m.length) (h2 : m.length ≤ 65535)
    (h3 : 2 < (udpReply q (.bytes m)).length) :
    byteAt (udpReply q (.bytes m)) 2 = byteAt m 2 ∨ byteAt (udpReply q (.bytes m)) 2 = byteAt m 2 ||| 2 := by
  unfold udpReply resolved maxTCPSize at *
  have hn : ¬(m.length = 0 ∨ m.length > 65535) := by omega
  simp only [hn, ↓reduceIte] at h3 ⊢
  generalize udpTrunc m.length q.msgSize = r at *
  obtain ⟨n, tc⟩ := r
  dsimp only at h3 ⊢
  cases tc
  · left
    simp only [Bool.false_eq_true, ↓reduceIte] at h3 ⊢
    simp only [List.length_take] at h3
    unfold byteAt
    rw [List.getD_eq_getElem?_getD, List.getElem?_take, List.getD_eq_getElem?_getD]
    simp [show 2 < n by omega]
  · right
    simp only [↓reduceIte] at h3 ⊢
    simp only [List.length_take, setTC, List.length_set] at h3
    unfold byteAt setTC byteAt
    rw [List.getD_eq_getElem?_getD, List.getElem?_take]
    simp only [show 2 < n by omega, ↓reduceIte]
    rw [List.getElem?_set]
    simp only [show 2 < m.length by omega, ↓reduceIte, Option.getD_some]
    have hlt : (m.getD 2 0).toNat ||| 2 < 256 := by
      have : ∀ y : Fin 256, (y.val ||| 2) < 256 := by decide +kernel
      exact this ⟨_, UInt8.toNat_lt _⟩
    have := Nat.mod_eq_of_lt hlt
    simp_all

/-- **C01 (SERVFAIL exactly on failure)** -/
theorem servfail_when_failed (q : Query) :
    resolved q .error = replyRCode 2 q ∧
    (∀ m : Bytes, (m.length = 0 ∨ m.length > 65535) → resolved q (.bytes m) = replyRCode 2 q) := by
  refine ⟨rfl, ?_⟩
  intro m h
  unfold resolved maxTCPSize
  dsimp only
  rw [if_pos h]

theorem upstream_when_ok (q : Query) (m : Bytes) (h1 : 1 ≤ m.length) (h2 : m.length ≤ 65535) :
    resolved q (.bytes m) = m := by
  unfold resolved maxTCPSize
  have : ¬(m.length = 0 ∨ m.length > 65535) := by omega
  dsimp only
  rw [if_neg this]

/-- **C01 (SERVFAIL shape)**: ID of the query, QR=1 with RCODE=2 (0x8002), zero answer counts. -/
theorem servfail_shape (q : Query) (hid : q.id < 65536) :
    (replyRCode 2 q).take 4 = be16 q.id ++ [0x80, 0x02] ∧
    rd16 (replyRCode 2 q) 0 = q.id ∧ rd16 (replyRCode 2 q) 6 = 0 ∧ rd16 (replyRCode 2 q) 8 = 0 ∧
    rd16 (replyRCode 2 q) 10 = 0 := by
  unfold replyRCode
  have hb : ∀ n, n < 65536 → rd16 (be16 n ++ ([] : Bytes)) 0 = n := by
    intro n hn
    simp [rd16, be16, byteAt, b8, UInt8.toNat_ofNat']
    omega
  split <;> (simp [be16, rd16, byteAt, b8, UInt8.toNat_ofNat']; omega)


/-! ### the reply carries the query's ID and question -/

open NV.Spec in
/-- **C01 (ID and question of locally built replies)**: for EVERY well-formed query (any ID, flags,
labels of 1..63 bytes without a dot, type, class, records before the OPT record, EDNS options), the
reply the proxy builds itself when resolution fails (`replyRCode`, also used for NXDOMAIN and empty
answers) is exactly: the query's ID, QR=1 with the RCODE, one question — the query's name, type and
class byte for byte — and nothing else. (Labels containing '.' are the recorded finding: the text
form of the name loses where the label ends.) -/
theorem local_reply_id_question (m : QueryMsg) (hwf : m.WF) (hdot : ∀ l ∈ m.qname, (46 : UInt8) ∉ l)
    (rcode : Nat) :
    ∃ q, parse (encode m) = .done .ok q ∧
      replyRCode rcode q = be16 m.id ++ be16 (32768 + rcode) ++ be16 1 ++ be16 0 ++ be16 0 ++ be16 0 ++
        encLabels m.qname ++ be16 m.qtype ++ be16 m.qcls := by
  refine ⟨_, parse_encode m hwf, ?_⟩
  have hf := applyOpts_fixed (optsFrom ((front m).length + 11) m.opts) (q0 m (encode m))
  unfold replyRCode
  rw [hf.1, hf.2.1, hf.2.2.1, hf.2.2.2]
  simp only [q0]
  rw [packName_shown m.qname hwf.qname hdot]

open NV.Spec in
/-- with `servfail_when_failed`: a failed resolution of such a query is answered with that message -/
theorem servfail_reply_id_question (m : QueryMsg) (hwf : m.WF) (hdot : ∀ l ∈ m.qname, (46 : UInt8) ∉ l) :
    ∃ q, parse (encode m) = .done .ok q ∧
      resolved q .error = be16 m.id ++ be16 (32768 + 2) ++ be16 1 ++ be16 0 ++ be16 0 ++ be16 0 ++
        encLabels m.qname ++ be16 m.qtype ++ be16 m.qcls := by
  obtain ⟨q, hq, hr⟩ := local_reply_id_question m hwf hdot 2
  exact ⟨q, hq, by simpa [resolved] using hr⟩

open NV.Spec in
example : (⟨7, 256, [[119, 119, 119], [101, 120]], 1, 1, [], 1232, 0, []⟩ : QueryMsg).WF ∧
    (∀ l ∈ ([[119, 119, 119], [101, 120]] : List Bytes), (46 : UInt8) ∉ l) := by
  refine ⟨⟨by decide, by decide, by decide, by decide, by decide, by simp, by decide, by decide, by decide, by simp, by decide⟩, by decide⟩

/-! ### buffer ownership: never another client's answer -/

/-- **C01 (regenerated)**: every pooled-buffer variable of `serveUDP`, `serveTCPConn` and their
handler closures passes the ownership certificate: on EVERY path the buffer is read, written,
sliced, put back or handed to a goroutine only while this goroutine owns it; a handler owns the
query buffer from its first instruction; what a deferred function puts back is owned at every
point where a panic could unwind (`strict`); nothing is put back twice. -/
theorem pool_cert_ok :
    (ProxyCFG.allPools.all fun e => checkL e.2.2.2.2 e.2.1 e.2.2.1 e.2.2.2.1) = true := by decide

/-- the extraction is not vacuous: two variables per transport (query buffer in the listener loop
and in the handler, reply buffer in the handler), the loops take buffers from the pool, use them
and hand them to handlers, the handlers use them and put them back in a deferred function. -/
theorem pool_nonvacuous :
    ProxyCFG.allPools.length = 6 ∧
    (ProxyCFG.pool_serveUDP_buf.any fun b => b.evs.contains .acq) = true ∧
    (ProxyCFG.pool_serveUDP_buf.any fun b => b.evs.contains .spawn) = true ∧
    (ProxyCFG.pool_serveUDP_buf.any fun b => b.evs.contains .need) = true ∧
    (ProxyCFG.pool_serveUDP_buf.any fun b => b.evs.contains .rel) = true ∧
    (ProxyCFG.pool_serveTCPConn_buf.any fun b => b.evs.contains .acq) = true ∧
    (ProxyCFG.pool_serveTCPConn_buf.any fun b => b.evs.contains .spawn) = true ∧
    (ProxyCFG.pool_serveUDP_handler0_buf.any fun b => b.evs.contains .need) = true ∧
    (ProxyCFG.pool_serveUDP_handler0_buf.any fun b => b.evs.contains .deferRel) = true ∧
    (ProxyCFG.pool_serveUDP_handler0_rbuf.any fun b => b.evs.contains .acq) = true ∧
    (ProxyCFG.pool_serveUDP_handler0_rbuf.any fun b => b.evs.contains .need) = true ∧
    (ProxyCFG.pool_serveUDP_handler0_rbuf.any fun b => b.evs.contains .deferRel) = true ∧
    (ProxyCFG.pool_serveTCPConn_handler0_buf.any fun b => b.evs.contains .deferRel) = true ∧
    (ProxyCFG.pool_serveTCPConn_handler0_rbuf.any fun b => b.evs.contains .need) = true ∧
    ProxyCFG.pool_serveUDP_handler0_buf_init = (1, 0) ∧ ProxyCFG.pool_serveUDP_handler0_rbuf_init = (0, 0) ∧
    ProxyCFG.pool_serveUDP_handler0_buf_strict = true ∧ ProxyCFG.pool_serveTCPConn_handler0_buf_strict = true := by
  decide

/-- lifted to every program point of every path (any number of loop iterations): a use (`need`),
a `Put` (`rel`) or a hand-over (`spawn`) of a pooled buffer happens only while it is owned. -/
theorem pool_use_owned (e : String × Prog × Cert × St × Bool) (he : e ∈ ProxyCFG.allPools)
    (i : Nat) (s : St) (b : Block) (pre post : List Ev) (ev : Ev)
    (hr : Reach e.2.1 e.2.2.2.1 i s) (hb : e.2.1[i]? = some b) (hsplit : b.evs = pre ++ ev :: post)
    (hev : ev = .need ∨ ev = .rel ∨ ev = .spawn) : 1 ≤ (runEvs pre s).1 := by
  have hall := pool_cert_ok
  rw [List.all_eq_true] at hall
  have hc := hall e he
  have h := point_okL e.2.2.2.2 e.2.1 e.2.2.1 e.2.2.2.1 hc i s b hr hb pre ev post hsplit
  rcases hev with rfl | rfl | rfl <;> simp [Ev.okAfter, Ev.apply] at h <;> omega

/-- nothing is put back twice through a deferred function: at every exit the deferred `Put`s do
not exceed what is owned -/
theorem pool_no_double_put_at_exit (e : String × Prog × Cert × St × Bool) (he : e ∈ ProxyCFG.allPools)
    (i : Nat) (s : St) (b : Block) (hr : Reach e.2.1 e.2.2.2.1 i s) (hb : e.2.1[i]? = some b)
    (hexit : b.succs = []) : (runEvs b.evs s).2 ≤ (runEvs b.evs s).1 := by
  have hall := pool_cert_ok
  rw [List.all_eq_true] at hall
  exact exit_no_excessL e.2.2.2.2 e.2.1 e.2.2.1 e.2.2.2.1 (hall e he) i s b hr hb hexit

open NV.Pool in
/-- **C01 (never another client's answer)**: in every interleaving of any number of goroutines
that take buffers from the pool, put back / hand over / drop only buffers they hold (the discipline
`pool_use_owned` establishes for the real handlers), no buffer ever has two holders, and a pooled
buffer has none: the bytes a handler reads its query from and writes its reply to are touched by
no other handler. -/
theorem pool_no_alias (os : List Op) (s : S) (hd : allDisciplined init os = true)
    (hr : run init os = some s) (b : Nat) :
    (s.holders b).length ≤ 1 ∧ (s.inPool b = true → s.holders b = []) := by
  have hi := inv_run os init s inv_init hd hr
  exact ⟨hi.1 b, hi.2.1 b⟩

open NV.Pool in
/-- what the discipline excludes: a buffer put back twice (by its handler and again by a goroutine
that no longer holds it, e.g. a per-connection `defer Put` beside the handlers' own) is handed to
two clients' handlers at once -/
theorem double_put_aliases :
    ∃ s, run init [.new 1, .put 1 0, .get 2 0, .put 1 0, .get 3 0] = some s ∧ s.holders 0 = [3, 2] ∧
      allDisciplined init [.new 1, .put 1 0, .get 2 0, .put 1 0, .get 3 0] = false :=
  ⟨_, rfl, rfl, rfl⟩

open NV.Pool in
example : ∃ s, run init [.new 1, .hand 1 2 0, .new 2, .put 2 0, .put 2 1, .get 3 1] = some s ∧
    allDisciplined init [.new 1, .hand 1 2 0, .new 2, .put 2 0, .put 2 1, .get 3 1] = true ∧ s.holders 1 = [3] :=
  ⟨_, rfl, rfl, rfl⟩

end NV.C01

/-! ### One TCP connection as a byte stream (proxy/tcp.go serveTCPConn, readTCP) -/
namespace NV.C01Stream
open NV NV.TcpStream

theorem frame_len (q : Bytes) (h : q.length ≤ 65535) :
    (UInt8.ofNat (q.length / 256)).toNat * 256 + (UInt8.ofNat (q.length % 256)).toNat = q.length := by
  simp [UInt8.toNat_ofNat']
  omega

/-- one well-sized frame in front of any stream is split off and the rest is treated the same way -/
theorem splitFrames_frame (q rest : Bytes) (h1 : minQuery < q.length) (h2 : q.length ≤ 65535) :
    splitFrames (frame q ++ rest) = (q :: (splitFrames rest).1, (splitFrames rest).2) := by
  have hl := frame_len q h2
  rw [frame, List.cons_append, List.cons_append, splitFrames]
  simp only [hl]
  have : ¬ (q ++ rest).length < q.length := by simp
  simp only [this, ↓reduceIte]
  have : ¬ q.length ≤ minQuery := by omega
  simp [this]

/-- **round trip**: the frames of any list of queries (each longer than 14 bytes, at most 65535) written back to back
are handed to the handlers one by one, in order, nothing else, and the connection ends cleanly -/
theorem frames_roundtrip (qs : List Bytes) (h : ∀ q ∈ qs, minQuery < q.length ∧ q.length ≤ 65535) :
    splitFrames (qs.flatMap frame) = (qs, .eof) := by
  induction qs with
  | nil => simp [splitFrames]
  | cons q qs ih =>
    have hq := h q (by simp)
    rw [List.flatMap_cons, splitFrames_frame q _ hq.1 hq.2, ih (fun x hx => h x (by simp [hx]))]

/-- a frame of at most 14 bytes (also the empty frame) ends the connection: nothing after it is handled, whatever follows -/
theorem small_frame_stops (qs : List Bytes) (small tail : Bytes)
    (h : ∀ q ∈ qs, minQuery < q.length ∧ q.length ≤ 65535) (hs : small.length ≤ minQuery) :
    splitFrames (qs.flatMap frame ++ frame small ++ tail) = (qs, .small) := by
  induction qs with
  | nil =>
    have hl := frame_len small (by unfold minQuery at hs; omega)
    simp only [List.flatMap_nil, List.nil_append]
    rw [frame, List.cons_append, List.cons_append, splitFrames]
    simp only [hl]
    have : ¬ (small ++ tail).length < small.length := by simp
    simp [this, hs]
  | cons q qs ih =>
    have hq := h q (by simp)
    rw [List.flatMap_cons, List.append_assoc, List.append_assoc, splitFrames_frame q _ hq.1 hq.2]
    rw [← List.append_assoc, ih (fun x hx => h x (by simp [hx]))]

/-- every frame that reaches a handler is longer than 14 bytes: it has a header, hence an ID to reply with -/
theorem handled_frames_long (s : Bytes) : ∀ f ∈ (splitFrames s).1, minQuery < f.length := by
  induction hn : s.length using Nat.strongRecOn generalizing s with
  | _ n ih =>
    intro f hf
    match s, hn with
    | [], _ => simp [splitFrames] at hf
    | [_], _ => simp [splitFrames] at hf
    | hi :: lo :: rest, hn =>
      rw [splitFrames] at hf
      simp only at hf
      split at hf
      · simp at hf
      · split at hf
        · simp at hf
        · rename_i h1 h2
          simp only [List.mem_cons] at hf
          rcases hf with rfl | hf
          · simp [List.length_take]; omega
          · exact ih _ (by simp at hn; simp; omega) _ rfl f hf


/-- the hypotheses are satisfiable: a 15-byte message, then an EMPTY frame, then another message that is never handled -/
example : splitFrames ([List.replicate 15 (7 : UInt8)].flatMap frame ++ frame [] ++ frame (List.replicate 15 9)) =
    ([List.replicate 15 7], .small) :=
  small_frame_stops [List.replicate 15 7] [] (frame (List.replicate 15 9)) (by simp [minQuery]) (by simp [minQuery])

end NV.C01Stream
