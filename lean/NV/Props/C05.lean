/-
  C05 — UDP replies respect the client's size limit; cuts are flagged with TC; TCP replies are
  never shortened and carry a correct two-byte length prefix.

  All statements quantify over every query (hence every advertised size 0..65535 or absent = 512)
  and every resolution outcome (every upstream length), with no bound.
-/
import NV.Model.Reply
import NV.Gen.Proxy
namespace NV.C05
open NV

/-- tie to the source: constants and the truncation block regenerated from proxy/udp.go and
proxy/tcp.go by /verif/extract agree with the hand model the theorems are about. -/
theorem gen_consts_agree :
    Gen.maxUDPSize = maxUDPSize ∧ Gen.maxDNS0Size = maxDNS0Size ∧ Gen.maxTCPSize = maxTCPSize ∧
    Gen.maxDNSSize = ({} : Query).msgSize := by decide

theorem gen_udpTrunc_agree (rsize msgSize : Nat) : Gen.udpTrunc rsize msgSize = udpTrunc rsize msgSize := by
  simp only [Gen.udpTrunc, udpTrunc, Gen.maxUDPSize, Gen.maxDNS0Size, maxUDPSize, maxDNS0Size, Id.run, pure]
  repeat' split
  all_goals first | rfl | omega | (simp_all; done) | (simp_all; omega)

theorem packLabels_len : ∀ (name seg out : Bytes), packLabels name seg = some out →
    out.length = name.length + seg.length + 1 := by
  intro name
  induction name with
  | nil =>
    intro seg out h
    unfold packLabels at h
    split at h
    · simp at h; subst h; simp_all
    · simp at h
  | cons c rest ih =>
    intro seg out h
    unfold packLabels at h
    split at h
    · split at h
      · simp at h
      · split at h
        · simp at h
        · simp only [Option.map_eq_some_iff] at h
          obtain ⟨tail, ht, rfl⟩ := h
          have := ih [] tail ht
          simp at *; omega
    · have := ih (seg ++ [c]) out h
      simp at *; omega

theorem packName_len (name out : Bytes) (h : packName name = some out) : out.length ≤ 256 := by
  unfold packName at h
  split at h
  · simp at h
  · split at h
    · simp at h
    · split at h
      · simp at h; subst h; simp
      · have := packLabels_len name [] out h
        simp at this; omega

/-- a SERVFAIL built by the proxy is at most 12 + 256 + 4 bytes: it is never itself truncated -/
theorem servfail_small (rcode : Nat) (q : Query) : (replyRCode rcode q).length ≤ 272 := by
  unfold replyRCode
  split
  · rename_i n h
    have := packName_len q.name n h
    simp [be16]; omega
  · simp [be16]

theorem resolved_le (q : Query) (o : Outcome) : (resolved q o).length ≤ 65535 := by
  unfold resolved maxTCPSize
  split
  · have := servfail_small 2 q; omega
  · split
    · have := servfail_small 2 q; omega
    · omega

theorem udpTrunc_le (r m : Nat) : (udpTrunc r m).1 ≤ max 512 m := by
  unfold udpTrunc maxUDPSize maxDNS0Size
  repeat' split
  all_goals simp_all
  all_goals omega

theorem udpTrunc_le_r (r m : Nat) : (udpTrunc r m).1 ≤ r := by
  unfold udpTrunc maxUDPSize maxDNS0Size
  repeat' split
  all_goals simp_all
  all_goals omega

/-- **C05 (limit)**: a UDP reply never exceeds max(512, advertised EDNS0 size). -/
theorem udp_len_le (q : Query) (o : Outcome) : (udpReply q o).length ≤ max 512 q.msgSize := by
  unfold udpReply
  have h := udpTrunc_le (resolved q o).length q.msgSize
  dsimp only
  split <;> simp [List.length_take, setTC] <;> omega

theorem udpReply_len (q : Query) (o : Outcome) :
    (udpReply q o).length = (udpTrunc (resolved q o).length q.msgSize).1 := by
  unfold udpReply
  have h := udpTrunc_le_r (resolved q o).length q.msgSize
  dsimp only
  split <;> simp [List.length_take, setTC] <;> omega

/-- the TC flag: bit 1 of byte 2 -/
def tcSet (m : Bytes) : Prop := (byteAt m 2 / 2) % 2 = 1

theorem or2_bit (x : Nat) (hx : x < 256) : ((x ||| 2) / 2) % 2 = 1 := by
  have : ∀ y : Fin 256, ((y.val ||| 2) / 2) % 2 = 1 := by decide +kernel
  exact this ⟨x, hx⟩

@[simp] theorem setTC_length (m : Bytes) : (setTC m).length = m.length := by
  simp [setTC]

theorem udpTrunc_cut (r m : Nat) (h : (udpTrunc r m).1 < r) :
    (udpTrunc r m).2 = true ∧ 512 ≤ (udpTrunc r m).1 := by
  unfold udpTrunc maxUDPSize maxDNS0Size at *
  repeat' split
  all_goals simp_all
  all_goals omega

theorem take_setTC_tc (r : Bytes) (n : Nat) (hn : 3 ≤ n) (hr3 : 3 ≤ r.length) :
    tcSet ((setTC r).take n) := by
  unfold tcSet setTC byteAt
  rw [List.getD_eq_getElem?_getD, List.getElem?_take]
  simp [show 2 < n by omega]
  rw [List.getElem?_set]
  simp [show 2 < r.length by omega]
  have := or2_bit ((r[2]).toNat) (UInt8.toNat_lt _)
  simpa [UInt8.toNat_ofNat'] using this

/-- **C05 (cuts are flagged)**: whenever the datagram is shorter than the message the resolver
produced, the TC bit is set in what is sent. -/
theorem udp_cut_sets_tc (q : Query) (o : Outcome)
    (hcut : (udpReply q o).length < (resolved q o).length) : tcSet (udpReply q o) := by
  rw [udpReply_len] at hcut
  obtain ⟨h1, h2⟩ := udpTrunc_cut _ _ hcut
  unfold udpReply
  dsimp only
  rw [h1]
  simp only [↓reduceIte]
  apply take_setTC_tc <;> omega

/-- **C05 (fits ⇒ full length)**: an answer within the client's limit is delivered at full length. -/
theorem udp_fits_full (q : Query) (o : Outcome)
    (hfit : (resolved q o).length ≤ max 512 q.msgSize) :
    (udpReply q o).length = (resolved q o).length := by
  rw [udpReply_len]
  unfold udpTrunc maxUDPSize maxDNS0Size
  repeat' split
  all_goals simp_all
  all_goals omega

/-- … and, when it is also at most 4094 bytes, byte-for-byte (above 4094 the proxy sets TC
although nothing was cut: recorded as known finding C01/C05-tc-without-cut). -/
theorem udp_fits_unmodified_partial (q : Query) (o : Outcome)
    (hfit : (resolved q o).length ≤ max 512 q.msgSize) (h4094 : (resolved q o).length ≤ 4094) :
    udpReply q o = resolved q o := by
  unfold udpReply udpTrunc maxUDPSize maxDNS0Size
  dsimp only
  repeat' split
  all_goals simp_all
  all_goals omega

/-- the negative half kept visible: TC can be set without shortening -/
theorem tc_without_cut_witness : udpTrunc 5000 8000 = (5000, true) := by decide

/-- **C05 (TCP)**: TCP replies are never shortened and carry the exact length prefix. -/
theorem tcp_prefix (q : Query) (o : Outcome) :
    tcpReply q o = be16 (resolved q o).length ++ resolved q o ∧ (resolved q o).length ≤ 65535 := by
  have h := resolved_le q o
  refine ⟨?_, h⟩
  unfold tcpReply
  dsimp only
  rw [Nat.mod_eq_of_lt (by omega)]

/-- non-vacuity of the hypotheses above: a concrete cut and a concrete fit -/
example : (udpTrunc 1500 1232).1 < 1500 ∧ (udpTrunc 1500 1232).2 = true := by decide
example : (1200 : Nat) ≤ max 512 1232 ∧ udpTrunc 1200 1232 = (1200, false) := by decide

end NV.C05
