/-
  C06 — cached answers never cross profiles, transports or question tuples
  (and the history-level half of C07: a cached answer is served only while fresh, never for PTR,
  and a failed refetch ends in SERVFAIL, not in the expired entry).

  All statements are about `NV.Cache` (lean/NV/Model/Cache.lean), the model of `DOH.resolve`,
  `DNS53.resolve`, `cacheKey`, `lastMod`/`updateLastMod`, `readDNSResponse` and the profile-URL
  construction of run.go.  They quantify over
    * every history `ops : List Op` (queries of any profile / URL over DoH and DNS53 with every
      upstream outcome, clock advances, evictions of anything at any time, and stores by
      concurrent resolutions that complete late — `Op.lateStore`, i.e. interleaved schedules), of
      any length,
    * every configuration `cfg` (cache on/off, buffer length),
    * every TTL arithmetic `T : TTLFn` (the theorems do not depend on `AdjustedResponse`/`updateTTL`),
    * every initial clock value.
  The model is tied to the code by the `cache` correspondence area (real `DOH.resolve` /
  `DNS53.resolve` on a shared harness-owned Cacher, injected RoundTripper, loopback UDP server,
  virtual time) and by the regenerated facts of `NV.Gen.Cache`.
-/
import NV.Gen.PkgState
import NV.Lemmas.Cache
import NV.Gen.Cache
import NV.Gen.Dispatch
namespace NV.C06
open NV NV.Cache

/-! ## ties to the source (regenerated on every check by /verif/extract) -/

/-- every `GetProfileURL` function of run.go returns `profilePrefix + profile` as the URL (so the
URL determines the profile, `profileUrl_inj`); doh.go's default URL and query.TypePTR are the
ones of the model -/
theorem gen_consts_agree :
    Gen.Cache.profilePrefix = profilePrefix ∧ 1 ≤ Gen.Cache.profileUrlSites ∧
    Gen.Cache.defaultUrl = defaultUrl ∧ Gen.Cache.typePTR = 12 := by decide

/-- every `cacheKey{…}` literal of `DOH.resolve` (lookup and store) is
`{<the url variable after the default-URL statement>, q.Class, q.Type, q.Name}` and every one of
`DNS53.resolve` is `{"", q.Class, q.Type, q.Name}`: lookup and store use the same tuple, as
`dohKey` / `dns53Key` of the model do. -/
theorem gen_key_shape_agree :
    (∀ s ∈ Gen.Cache.dohKeySites, s = ["var", ".Class", ".Type", ".Name"]) ∧
    2 ≤ Gen.Cache.dohKeySites.length ∧ Gen.Cache.dohCtxIsUrlVar = true ∧
    (∀ s ∈ Gen.Cache.dns53KeySites, s = ["lit:", ".Class", ".Type", ".Name"]) ∧
    2 ≤ Gen.Cache.dns53KeySites.length := by decide

/-! ## C06: keys -/

/-- a DoH context is never the DNS53 context: answers learned over one transport are filed under
keys the other transport never looks up -/
theorem doh_dns53_disjoint (u : Url) : dohCtx u ≠ dns53Ctx := dohCtx_ne_nil u

theorem doh_dns53_keys_disjoint (u : Url) (q q' : Query) : dohKey u q ≠ dns53Key q' := by
  intro h
  exact doh_dns53_disjoint u (congrArg Key.ctx h)

/-- different profiles have different upstream URLs … -/
theorem profileUrl_inj (p₁ p₂ : Bytes) (h : profileUrl p₁ = profileUrl p₂) : p₁ = p₂ :=
  List.append_cancel_left h

/-- … which are used as they are (the default URL only replaces the empty URL) … -/
theorem dohCtx_profileUrl (p : Bytes) : dohCtx (profileUrl p) = profileUrl p := by
  unfold dohCtx profileUrl profilePrefix
  simp

/-- … so queries resolved for different profiles never share a key -/
theorem profile_keys_disjoint (p₁ p₂ : Bytes) (q q' : Query) (h : p₁ ≠ p₂) :
    dohKey (profileUrl p₁) q ≠ dohKey (profileUrl p₂) q' := by
  intro hk
  have := congrArg Key.ctx hk
  simp only [dohKey, dohCtx_profileUrl] at this
  exact h (profileUrl_inj _ _ this)

/-- two explicit URLs share a context only if they are equal or one is empty and the other is the
default URL it stands for -/
theorem dohCtx_eq_iff (u v : Url) :
    dohCtx u = dohCtx v ↔ u = v ∨ (u = [] ∧ v = defaultUrl) ∨ (u = defaultUrl ∧ v = []) := by
  unfold dohCtx
  by_cases hu : u = [] <;> by_cases hv : v = [] <;> simp [hu, hv, eq_comm]

/-- the name is part of the key byte for byte: no case folding -/
theorem key_case_sensitive (k₁ k₂ : Key) (h : k₁.name ≠ k₂.name) : k₁ ≠ k₂ :=
  fun e => h (congrArg Key.name e)

/-- "Foo." and "foo." are different keys under otherwise equal tuples -/
example : (⟨[], 1, 1, [70, 111, 111, 46]⟩ : Key) ≠ ⟨[], 1, 1, [102, 111, 111, 46]⟩ := by decide

theorem key_class_type_sensitive (k₁ k₂ : Key) (h : k₁.cls ≠ k₂.cls ∨ k₁.type ≠ k₂.type) : k₁ ≠ k₂ := by
  rintro rfl
  simp at h

/-! ### text form of the name

FULL STATEMENT (false of the code, DESIGN.md §7 #5):
  `nameText a = nameText b → a = b` for all label lists as they occur on the wire.
`Query.Name` is `dnsmessage.Name.String()`: every label followed by '.'.  A label may itself
contain '.', so the text form — and with it the cache key — does not determine the wire name. -/

/-- proved under the hypothesis that excludes the defect: no label contains '.' -/
theorem name_key_inj_partial (a b : List Bytes) (ha : PlainLabels a) (hb : PlainLabels b)
    (h : nameText a = nameText b) : a = b := by
  cases a with
  | nil =>
    cases b with
    | nil => rfl
    | cons m ms =>
      rw [nameText_cons] at h
      simp only [nameText] at h
      have hm := (hb m List.mem_cons_self).1
      cases m with
      | nil => exact absurd rfl hm
      | cons c m => simp at h
  | cons l ls =>
    cases b with
    | nil =>
      rw [nameText_cons] at h
      simp only [nameText] at h
      have hl := (ha l List.mem_cons_self).1
      cases l with
      | nil => exact absurd rfl hl
      | cons c l => simp at h
    | cons m ms =>
      rw [nameText_cons, nameText_cons] at h
      have h1 := (ha l List.mem_cons_self).2
      have h2 := (hb m List.mem_cons_self).2
      obtain ⟨e1, e2⟩ := append_dot_cancel l m _ _ h1 h2 h
      have := joinDots_inj ls ms (fun x hx => ha x (List.mem_cons_of_mem _ hx))
        (fun x hx => hb x (List.mem_cons_of_mem _ hx)) e2
      rw [e1, this]

/-- the hypothesis is satisfiable: ["foo","com"] is plain -/
example : PlainLabels [[102, 111, 111], [99, 111, 109]] := by
  intro l hl
  simp at hl
  rcases hl with rfl | rfl <;> decide

/-- the negation, with the witness `\x07foo.com\x00` vs `\x03foo\x03com\x00` -/
theorem name_key_not_inj :
    ∃ a b : List Bytes, (∀ l ∈ a, l ≠ []) ∧ (∀ l ∈ b, l ≠ []) ∧ nameText a = nameText b ∧ a ≠ b :=
  ⟨[[102, 111, 111, 46, 99, 111, 109]], [[102, 111, 111], [99, 111, 109]], by decide, by decide, by decide, by decide⟩

/-! ## C06: histories -/

/-- **cache_inv**: after any history, every stored entry is the answer to an upstream request
made for exactly the key it is stored under (`c.key = k`: same context/URL, class, type, name),
over the transport that the key's context names, with the clock value read before that request. -/
theorem cache_inv (T : TTLFn) (cfg : Cfg) (t0 : Time) (ops : List Op) (k : Key) (e : Entry)
    (h : (k, e) ∈ (reach T cfg t0 ops).store) :
    ∃ c ∈ (reach T cfg t0 ops).log,
      c.key = k ∧ c.resp = some e.msg ∧ c.time = e.time ∧
      c.tr = (if k.ctx = [] then Transport.dns53 else Transport.doh) := by
  have hinv : Inv (reach T cfg t0 ops) := by
    unfold reach
    apply inv_run
    intro k e hm
    simp at hm
  exact hinv k e h

/-- **hit_same_key (DoH)**: a reply served from the cache to `q`, resolved against `url` after any
history, is the adjusted answer of an earlier DoH request to the same effective URL for the same
class, type and name. -/
theorem hit_same_key_doh (T : TTLFn) (cfg : Cfg) (t0 : Time) (ops : List Op) (url : Url) (q : Query)
    (o : DohOut) (lat : Nat)
    (h : (stepDoh T cfg (reach T cfg t0 ops) url q o lat).2.served) :
    ∃ c ∈ (reach T cfg t0 ops).log, c.tr = .doh ∧ c.url = dohCtx url ∧
      c.q.cls = q.cls ∧ c.q.type = q.type ∧ c.q.name = q.name ∧
      ∃ m, c.resp = some m ∧
        (stepDoh T cfg (reach T cfg t0 ops) url q o lat).2.reply =
          (T.adjusted m cfg.bufLen q.id (age (reach T cfg t0 ops).now c.time)).1 := by
  rcases stepDoh_cases T cfg (reach T cfg t0 ops) url q o lat with ⟨_, e, hf, heq⟩ | ⟨_, st, heq⟩
  · obtain ⟨c, hc, hk, hr, ht, htr⟩ := cache_inv T cfg t0 ops _ e (get_mem hf.1)
    refine ⟨c, hc, ?_, ?_, ?_, ?_, ?_, e.msg, hr, ?_⟩
    · simpa [dohKey, dohCtx_ne_nil] using htr
    · exact congrArg Key.ctx hk
    · exact congrArg Key.cls hk
    · exact congrArg Key.type hk
    · exact congrArg Key.name hk
    · rw [heq, ht]
  · exfalso
    rw [heq] at h
    obtain ⟨c, hc, _⟩ := dohUpstream_up T cfg (reach T cfg t0 ops) (dohCtx url) q
      (if useCache cfg q then (reach T cfg t0 ops).now else 0) st o lat
    unfold Res.served at h
    rw [hc] at h
    cases h

/-- **hit_same_key (DNS53)** -/
theorem hit_same_key_dns53 (T : TTLFn) (cfg : Cfg) (t0 : Time) (ops : List Op) (q : Query) (o : UdpOut)
    (h : (stepDns53 T cfg (reach T cfg t0 ops) q o).2.served) :
    ∃ c ∈ (reach T cfg t0 ops).log, c.tr = .dns53 ∧
      c.q.cls = q.cls ∧ c.q.type = q.type ∧ c.q.name = q.name ∧
      ∃ m, c.resp = some m ∧
        (stepDns53 T cfg (reach T cfg t0 ops) q o).2.reply =
          (T.adjusted m cfg.bufLen q.id (age (reach T cfg t0 ops).now c.time)).1 := by
  rcases stepDns53_cases T cfg (reach T cfg t0 ops) q o with ⟨_, e, hf, heq⟩ | ⟨_, st, heq⟩
  · obtain ⟨c, hc, hk, hr, ht, htr⟩ := cache_inv T cfg t0 ops _ e (get_mem hf.1)
    refine ⟨c, hc, ?_, ?_, ?_, ?_, e.msg, hr, ?_⟩
    · simpa [dns53Key, dns53Ctx] using htr
    · exact congrArg Key.cls hk
    · exact congrArg Key.type hk
    · exact congrArg Key.name hk
    · rw [heq, ht]
  · exfalso
    rw [heq] at h
    obtain ⟨c, hc, _⟩ := dns53Upstream_up T cfg (reach T cfg t0 ops) q
      (if useCache cfg q then (reach T cfg t0 ops).now else 0) st o
    unfold Res.served at h
    rw [hc] at h
    cases h

/-- profiles: a reply served to a query of profile `p` was fetched from `p`'s own URL -/
theorem hit_same_profile (T : TTLFn) (cfg : Cfg) (t0 : Time) (ops : List Op) (p : Bytes) (q : Query)
    (o : DohOut) (lat : Nat)
    (h : (stepDoh T cfg (reach T cfg t0 ops) (profileUrl p) q o lat).2.served) :
    ∃ c ∈ (reach T cfg t0 ops).log, c.tr = .doh ∧ c.url = profileUrl p ∧
      (∀ p', c.url = profileUrl p' → p' = p) := by
  obtain ⟨c, hc, htr, hu, _⟩ := hit_same_key_doh T cfg t0 ops (profileUrl p) q o lat h
  rw [dohCtx_profileUrl] at hu
  exact ⟨c, hc, htr, hu, fun p' hp' => profileUrl_inj _ _ (hp'.symm.trans hu)⟩

/-- FULL STATEMENT (false, see `dotted_label_alias`): the served answer was fetched for the same
*wire* name.  Proved for names without a '.' inside a label: if `q` asks for labels `a`, the
request the answer came from asked for labels `b`, and both are plain, then `a = b`. -/
theorem hit_same_wire_name_partial (T : TTLFn) (cfg : Cfg) (t0 : Time) (ops : List Op) (url : Url)
    (q : Query) (o : DohOut) (lat : Nat) (a : List Bytes) (ha : PlainLabels a) (hq : q.name = nameText a)
    (h : (stepDoh T cfg (reach T cfg t0 ops) url q o lat).2.served) :
    ∃ c ∈ (reach T cfg t0 ops).log, c.url = dohCtx url ∧
      ∀ b, PlainLabels b → c.q.name = nameText b → b = a := by
  obtain ⟨c, hc, _, hu, _, _, hn, _⟩ := hit_same_key_doh T cfg t0 ops url q o lat h
  exact ⟨c, hc, hu, fun b hb hcb => name_key_inj_partial b a hb ha (hcb.symm.trans (hn.trans hq))⟩

/-- a trivial TTL arithmetic for concrete witnesses: the message as it is, always fresh -/
def constT : TTLFn := ⟨fun m _ _ _ => (m, 1), id⟩

def qFooCom : Query :=
  { id := 1, cls := 1, type := 1, name := nameText [[102, 111, 111], [99, 111, 109]],
    payload := [3, 102, 111, 111, 3, 99, 111, 109, 0] }
def qFooDotCom : Query :=
  { id := 2, cls := 1, type := 1, name := nameText [[102, 111, 111, 46, 99, 111, 109]],
    payload := [7, 102, 111, 111, 46, 99, 111, 109, 0] }
def sFooCom : State := reach constT {} 5 [.doh [] qFooCom (.body [9, 9, 9] false .absent "HTTP/2.0") 0]

/-- the negation at history level (known finding "dotted-label-alias"): a DoH answer fetched for
the wire name `\x03foo\x03com\x00` is served to a query for `\x07foo.com\x00` (payloads differ,
`Query.Name` is "foo.com." for both). -/
theorem dotted_label_alias :
    qFooCom.payload ≠ qFooDotCom.payload ∧
    (stepDoh constT {} sFooCom [] qFooDotCom .transportErr 0).2.served ∧
    (stepDoh constT {} sFooCom [] qFooDotCom .transportErr 0).2.reply = [9, 9, 9] := by decide

/-! ## C07 (history level): freshness -/

/-- **served_only_fresh (DoH)**: the lookup returns iff the query is not PTR, the cache is on, an
entry is stored under the query's key whose adjusted minimum TTL is positive and which was
fetched after the last configuration change announced for this URL.  `e.time` is the clock
value read before the upstream request that produced `e` (`cache_inv`, `stored_time_doh`). -/
theorem served_only_fresh_doh (T : TTLFn) (cfg : Cfg) (s : State) (url : Url) (q : Query) (o : DohOut)
    (lat : Nat) :
    (stepDoh T cfg s url q o lat).2.served ↔
      q.type ≠ 12 ∧ cfg.cacheOn = true ∧ ∃ e, get s.store (dohKey url q) = some e ∧
        (T.adjusted e.msg cfg.bufLen q.id (age s.now e.time)).2 > 0 ∧
        lastModOf s (dohCtx url) < e.time := by
  rw [← and_assoc, ← useCache_iff]
  rcases stepDoh_cases T cfg s url q o lat with ⟨hu, e, hf, heq⟩ | ⟨hn, st, heq⟩
  · rw [heq]
    exact ⟨fun _ => ⟨hu, e, hf⟩, fun _ => rfl⟩
  · rw [heq]
    obtain ⟨c, hc, _⟩ := dohUpstream_up T cfg s (dohCtx url) q (if useCache cfg q then s.now else 0) st o lat
    constructor
    · intro h; unfold Res.served at h; rw [hc] at h; cases h
    · intro h; exact absurd h hn

/-- **served_only_fresh (DNS53)**: the same without the configuration test -/
theorem served_only_fresh_dns53 (T : TTLFn) (cfg : Cfg) (s : State) (q : Query) (o : UdpOut) :
    (stepDns53 T cfg s q o).2.served ↔
      q.type ≠ 12 ∧ cfg.cacheOn = true ∧ ∃ e, get s.store (dns53Key q) = some e ∧
        (T.adjusted e.msg cfg.bufLen q.id (age s.now e.time)).2 > 0 := by
  rw [← and_assoc, ← useCache_iff]
  rcases stepDns53_cases T cfg s q o with ⟨hu, e, hf, heq⟩ | ⟨hn, st, heq⟩
  · rw [heq]
    exact ⟨fun _ => ⟨hu, e, hf⟩, fun _ => rfl⟩
  · rw [heq]
    obtain ⟨c, hc, _⟩ := dns53Upstream_up T cfg s q (if useCache cfg q then s.now else 0) st o
    constructor
    · intro h; unfold Res.served at h; rw [hc] at h; cases h
    · intro h; exact absurd h hn

/-- a served reply is the adjusted stored message, carries no error, and leaves the state alone -/
theorem served_reply_doh (T : TTLFn) (cfg : Cfg) (s : State) (url : Url) (q : Query) (o : DohOut)
    (lat : Nat) (h : (stepDoh T cfg s url q o lat).2.served) :
    ∃ e, get s.store (dohKey url q) = some e ∧
      (stepDoh T cfg s url q o lat).2.reply = (T.adjusted e.msg cfg.bufLen q.id (age s.now e.time)).1 ∧
      (stepDoh T cfg s url q o lat).2.err = false ∧ (stepDoh T cfg s url q o lat).1.store = s.store ∧
      (stepDoh T cfg s url q o lat).1.now = s.now := by
  rcases stepDoh_cases T cfg s url q o lat with ⟨_, e, hf, heq⟩ | ⟨_, st, heq⟩
  · exact ⟨e, hf.1, by rw [heq], by rw [heq], by rw [heq], by rw [heq]⟩
  · exfalso
    rw [heq] at h
    obtain ⟨c, hc, _⟩ := dohUpstream_up T cfg s (dohCtx url) q (if useCache cfg q then s.now else 0) st o lat
    unfold Res.served at h
    rw [hc] at h
    cases h

/-- **ptr_never_cached_read**: a PTR query is never answered from the cache, whatever is stored -/
theorem ptr_never_cached_read (T : TTLFn) (cfg : Cfg) (s : State) (url : Url) (q : Query)
    (o : DohOut) (lat : Nat) (o' : UdpOut) (h : q.type = 12) :
    ¬ (stepDoh T cfg s url q o lat).2.served ∧ ¬ (stepDns53 T cfg s q o').2.served := by
  rw [served_only_fresh_doh, served_only_fresh_dns53]
  exact ⟨fun h' => h'.1 h, fun h' => h'.1 h⟩

/-- **stale_refetch (DoH)**: when the lookup does not return, the upstream is asked — for the
effective URL, with this query — and the clock value kept for the entry is the one read before
the request -/
theorem stale_refetch_doh (T : TTLFn) (cfg : Cfg) (s : State) (url : Url) (q : Query) (o : DohOut)
    (lat : Nat) (h : ¬ (stepDoh T cfg s url q o lat).2.served) :
    ∃ c, (stepDoh T cfg s url q o lat).2.up = some c ∧ c.tr = .doh ∧ c.url = dohCtx url ∧ c.q = q ∧
      c.time = (if q.type ≠ 12 ∧ cfg.cacheOn = true then s.now else 0) := by
  rcases stepDoh_cases T cfg s url q o lat with ⟨_, e, hf, heq⟩ | ⟨_, st, heq⟩
  · exact absurd (by rw [heq]; rfl) h
  · rw [heq]
    obtain ⟨c, hc, h1, h2, h3, h4⟩ :=
      dohUpstream_up T cfg s (dohCtx url) q (if useCache cfg q then s.now else 0) st o lat
    refine ⟨c, hc, h1, h2, h3, ?_⟩
    rw [h4]
    simp [useCache]

theorem stale_refetch_dns53 (T : TTLFn) (cfg : Cfg) (s : State) (q : Query) (o : UdpOut)
    (h : ¬ (stepDns53 T cfg s q o).2.served) :
    ∃ c, (stepDns53 T cfg s q o).2.up = some c ∧ c.tr = .dns53 ∧ c.q = q := by
  rcases stepDns53_cases T cfg s q o with ⟨_, e, hf, heq⟩ | ⟨_, st, heq⟩
  · exact absurd (by rw [heq]; rfl) h
  · rw [heq]
    obtain ⟨c, hc, h1, _, h3, _⟩ :=
      dns53Upstream_up T cfg s q (if useCache cfg q then s.now else 0) st o
    exact ⟨c, hc, h1, h3⟩

/-- **stale_refetch (failure)**: if the lookup does not return and the upstream fails, the result
is an error — whatever expired entry is left in the buffer — and the handler sends SERVFAIL. -/
theorem stale_never_served_doh (T : TTLFn) (cfg : Cfg) (s : State) (url : Url) (q : Query) (o : DohOut)
    (lat : Nat) (h : ¬ (stepDoh T cfg s url q o lat).2.served) (hf : o.fails cfg.bufLen) :
    (stepDoh T cfg s url q o lat).2.err = true ∧
    resolved q (stepDoh T cfg s url q o lat).2.outcome = replyRCode 2 q := by
  have herr : (stepDoh T cfg s url q o lat).2.err = true := by
    rcases stepDoh_cases T cfg s url q o lat with ⟨_, e, hf', heq⟩ | ⟨_, st, heq⟩
    · exact absurd (by rw [heq]; rfl) h
    · rw [heq]
      unfold dohUpstream
      cases o with
      | transportErr => rfl
      | status => rfl
      | body b re lm proto =>
        obtain ⟨h1, h2⟩ := hf
        subst h1
        simp [readBody, Nat.not_le.mpr h2]
  exact ⟨herr, by simp [Res.outcome, herr, resolved]⟩

theorem stale_never_served_dns53 (T : TTLFn) (cfg : Cfg) (s : State) (q : Query) (o : UdpOut)
    (h : ¬ (stepDns53 T cfg s q o).2.served) (hf : o.fails q.id cfg.bufLen) :
    (stepDns53 T cfg s q o).2.err = true ∧
    resolved q (stepDns53 T cfg s q o).2.outcome = replyRCode 2 q := by
  have herr : (stepDns53 T cfg s q o).2.err = true := by
    rcases stepDns53_cases T cfg s q o with ⟨_, e, hf', heq⟩ | ⟨_, st, heq⟩
    · exact absurd (by rw [heq]; rfl) h
    · rw [heq]
      unfold dns53Upstream
      cases o with
      | dialErr => rfl
      | datagrams ds =>
        simp only [UdpOut.fails] at hf
        simp [hf]
  exact ⟨herr, by simp [Res.outcome, herr, resolved]⟩

/-- **entry time = clock before the request**: a cacheable DoH answer to a non-PTR query is
stored with the clock value of the moment the query arrived, although the clock has moved on by
the latency of the request when the answer is stored -/
theorem stored_time_doh (T : TTLFn) (cfg : Cfg) (s : State) (url : Url) (q : Query) (b : Bytes)
    (lm : LmHdr) (proto : String) (lat : Nat)
    (hmiss : ¬ (stepDoh T cfg s url q (.body b false lm proto) lat).2.served)
    (hp : q.type ≠ 12) (hc : cfg.cacheOn = true) (hb : 0 < b.length) (hl : b.length < cfg.bufLen) :
    get (stepDoh T cfg s url q (.body b false lm proto) lat).1.store (dohKey url q) = some ⟨s.now, b, proto⟩ ∧
    (stepDoh T cfg s url q (.body b false lm proto) lat).1.now = s.now + lat := by
  rcases stepDoh_cases T cfg s url q (.body b false lm proto) lat with ⟨_, e, hf', heq⟩ | ⟨_, st, heq⟩
  · exact absurd (by rw [heq]; rfl) hmiss
  · rw [heq]
    have hu : useCache cfg q = true := (useCache_iff cfg q).mpr ⟨hp, hc⟩
    have hnl : ¬ cfg.bufLen ≤ b.length := Nat.not_le.mpr hl
    simp [dohUpstream, readBody, hnl, hb, hc, hu, dohKey, get_add_self]

def qfoo : Query := { id := 7, cls := 1, type := 1, name := [102, 111, 111, 46] }
def qFoo : Query := { id := 8, cls := 1, type := 1, name := [70, 111, 111, 46] }
def sfoo : State :=
  reach constT {} 100 [.doh (profileUrl [97]) qfoo (.body [1, 2, 3] false .absent "HTTP/2.0") 0, .advance 3]

/-- non-vacuity: a concrete history with a fetch, a hit three seconds later, a miss under another
profile, a miss for the same name in another letter case, and a miss over the other transport -/
example :
    (stepDoh constT {} sfoo (profileUrl [97]) qfoo .transportErr 0).2.served ∧
    ¬ (stepDoh constT {} sfoo (profileUrl [98]) qfoo .transportErr 0).2.served ∧
    ¬ (stepDoh constT {} sfoo (profileUrl [97]) qFoo .transportErr 0).2.served ∧
    ¬ (stepDns53 constT {} sfoo qfoo .dialErr).2.served := by decide

/-- the model's clock assumption is an invariant, not a hypothesis: after any history no stored
entry is younger than the clock, so `age = now - time` never truncates -/
theorem entry_time_le_now (T : TTLFn) (cfg : Cfg) (t0 : Time) (ops : List Op) (k : Key) (e : Entry)
    (h : (k, e) ∈ (reach T cfg t0 ops).store) : e.time ≤ (reach T cfg t0 ops).now := by
  have hinv : TimeInv (reach T cfg t0 ops) := by
    unfold reach
    apply timeInv_run
    intro k e hm
    simp at hm
  exact hinv k e h

/-- non-vacuity of the hypotheses of `stale_never_served_doh` / `stored_time_doh`: an expired
entry (TTL arithmetic that never finds it fresh) followed by a failing upstream; a cacheable body -/
def staleT : TTLFn := ⟨fun m _ _ _ => (m, 0), id⟩
example :
    ¬ (stepDoh staleT {} sfoo (profileUrl [97]) qfoo .status 0).2.served ∧
    DohOut.status.fails 65535 ∧
    (stepDoh staleT {} sfoo (profileUrl [97]) qfoo .status 0).2.reply = [1, 2, 3] ∧
    (stepDoh staleT {} sfoo (profileUrl [97]) qfoo .status 0).2.err = true :=
  ⟨by decide, trivial, by decide, by decide⟩
example :
    ¬ (stepDoh constT {} sfoo (profileUrl [98]) qfoo (.body [4, 5] false .absent "HTTP/2.0") 2).2.served ∧
    qfoo.type ≠ 12 ∧ ({} : Cfg).cacheOn = true ∧ 0 < [4, 5].length ∧ [4, 5].length < ({} : Cfg).bufLen := by decide
example : ¬ (stepDns53 staleT {} sfoo qfoo .dialErr).2.served ∧ UdpOut.dialErr.fails 7 65535 :=
  ⟨by decide, trivial⟩

/-- non-vacuity for schedules: a DNS53 resolution whose store is delayed behind a DoH query of the
same question does not leak into the DoH context, and serves later DNS53 queries only -/
example :
    let s := reach constT {} 100 [.doh (profileUrl [97]) qfoo (.body [1, 2, 3] false .absent "HTTP/2.0") 0,
                                  .lateStore .dns53 [] qfoo 100 [7, 7] "" .absent]
    (stepDns53 constT {} s qfoo .dialErr).2.reply = [7, 7] ∧
    (stepDoh constT {} s (profileUrl [97]) qfoo .transportErr 0).2.reply = [1, 2, 3] := by decide

/-- **regenerated (dispatch)**: `(*DNS).Resolve` produces no answer before the endpoint manager has chosen the transport — no
call that touches a resolver or a cache stands outside the type switch of the closure it hands to `Manager.Do` — and in that
switch a DoH endpoint is resolved by `r.DOH.resolve` only, a plain-DNS endpoint by `r.DNS53.resolve` only, any other case by
nothing.  So the `D` / `N` operations of the cache model (whose keys are disjoint across the transports, `doh_dns53_keys_disjoint`)
are all there is between a query and the cache. -/
theorem gen_resolve_dispatch :
    Gen.Dispatch.doCalls = 1 ∧ Gen.Dispatch.outside = [] ∧
    (Gen.Dispatch.cases.all fun c =>
      if c.1 = "*endpoint.DOHEndpoint" then c.2 == ["r.DOH.resolve"]
      else if c.1 = "*endpoint.DNSEndpoint" then c.2 == ["r.DNS53.resolve"]
      else c.2 == []) = true ∧
    (Gen.Dispatch.cases.any fun c => c.1 == "*endpoint.DOHEndpoint") = true ∧
    (Gen.Dispatch.cases.any fun c => c.1 == "*endpoint.DNSEndpoint") = true := by
  decide

/-- **regenerated (no hidden state between exchanges)**, as `NV.C03.gen_no_hidden_process_state`: no package-level variable of
the query-path packages is written after initialisation except the root-certificate pool — an answer can only cross from one question to another through the cache, whose keys `cache_inv` governs. -/
theorem gen_no_hidden_process_state :
    (Gen.PkgState.table.all fun r =>
      r.2.2.isEmpty || (r.1 == "resolver/endpoint" && (r.2.1 == "rootCAInit" || r.2.1 == "rootCAs"))) = true := by
  decide

end NV.C06
