/-
  C18 — discovery tables hold exactly what the sources say, and stay consistent.

  Model: NV.Model.Discovery (appendUniq, hosts / dnsmasq / ISC dhcpd readers, lookups) and
  NV.Model.MDNS (addEntry, removeEntry, removeOldestEntry, ingest loop of MDNS.read).
  All statements quantify over every file content (byte string; the model agrees with the Go
  string functions on ASCII, see the model header) and every sequence of mDNS packets, with the
  entries of each packet in any order (Go's map iteration order), for every cap.

  The theorems are about the REPAIRED code (three `fix:` commits: appendUniq shift index;
  removeOldestEntry source table; removeOldestEntry spelling).  The behaviour before the repairs
  is kept as `appendUniqOld` / `removeOldestOld` with the witnesses that the property failed.
-/
import NV.Lemmas.MDNS
import NV.Gen.Discovery
namespace NV.C18
open NV NV.Disc

/-! ### tie to the source -/

/-- **C18 (regenerated)**: the table update the mDNS receive loop performs for one (address, name)
pair of a packet — the loop body the `mdnsops` correspondence area runs a copy of, with the cap as
a parameter — is, statement by statement, the one in the source: validity filter, lazily created
tables, absolute name, lower-cased key, `addEntry` on both views, eviction AFTER the insert while
the name table exceeds the cap. -/
theorem gen_mdns_ingest_agree :
    Gen.mdnsIngest = ["if isValidName(name)", "  if r.addrs == nil", "    r.addrs = map[string]mdnsEntry{}",
      "    r.names = map[string]mdnsEntry{}", "  name := absDomainName([]byte(name))", "  h := []byte(name)",
      "  lowerASCIIBytes(h)", "  key := absDomainName(h)", "  addEntry(r.addrs, addr, name)",
      "  addEntry(r.names, key, addr)", "  for len(r.names) > mdnsMaxEntries", "    r.removeOldestEntry()"] := by decide

/-- facts regenerated from discovery/util.go and discovery/mdns.go on every check: the
index used by the shifting `copy` of appendUniq, the table `removeOldestEntry` reads the evicted
name's addresses from, and the spelling test before `removeEntry`. -/
theorem gen_discovery_agree :
    Gen.appendUniqShift = ShiftIdx.pos ∧ Gen.evictReadsNames = true ∧ Gen.evictFoldsSpelling = true := by decide

/-! ### appendUniq -/

/-- **appendUniq_spec**: on a sorted duplicate-free list the result is sorted, duplicate-free and
its set is `insert x s`. -/
theorem appendUniq_spec (set : List Str) (x : Str) (hs : Sorted set) :
    Sorted (appendUniq1 set x) ∧ (appendUniq1 set x).Nodup ∧
    ∀ y, y ∈ appendUniq1 set x ↔ y = x ∨ y ∈ set :=
  ⟨sorted_appendUniq1 set x hs, (sorted_appendUniq1 set x hs).nodup, fun y => mem_appendUniq1 set x y hs⟩

/-- the code with the index regenerated from the source is the model the theorems are about -/
theorem gen_appendUniq_agree (set adds : List Str) : appendUniqG Gen.appendUniqShift set 0 adds = appendUniq set adds := rfl

/-- the code before the repair violated the specification: `[a, c] + d = [a, a, d]`
(sorted input; `c` lost, `a` listed twice) -/
theorem appendUniq_old_defect :
    appendUniqOld [[97], [99]] [[100]] = [[97], [97], [100]] ∧ Sorted [[97], [99]] := by
  constructor
  · decide
  · simp [Sorted, strLt]

/-- latent quirk kept visible (no caller in package discovery passes several values): the first
duplicate among several adds drops the remaining ones -/
theorem appendUniq_multi_early_return : appendUniq [[97]] [[97], [98]] = [[97]] := by decide

example : Sorted [[97], [99]] ∧ appendUniq1 [[97], [99]] [100] = [[97], [99], [100]] := by
  constructor
  · simp [Sorted, strLt]
  · decide

/-! ### hosts file -/

/-- **hosts_exact (names)**: the name table lists under key `k` exactly the addresses of the pairs
written in the file whose name folds to `k`, in file order (plain `append`: a pair written twice is
listed twice); the two built-in localhost keys get `127.0.0.1, ::1` when the file says nothing. -/
theorem hosts_exact_names (canonIP : Str → Option Str) (content : Bytes) (k : Str) :
    (readHostsFile canonIP content).names.get k =
      if k ∈ localhostKeys ∧ ((hostsPairs canonIP content).filterMap fun p =>
          if prepareHostLookup p.2 = k then some p.1 else none) = []
      then localhostAddrs
      else (hostsPairs canonIP content).filterMap fun p => if prepareHostLookup p.2 = k then some p.1 else none := by
  unfold readHostsFile
  simp only
  rw [get_hostsDefaults, hostsLines_eq, hostsFold_names, get_pushAll]
  simp only [List.filterMap_map, Function.comp_def, Tbl.get, mget, List.lookup_nil,
    Option.getD_none, List.nil_append, List.length_eq_zero_iff, prepareHostLookup]
  rfl

/-- **hosts_exact (addresses)**: the address table lists under `a` exactly the (absolutized) names
written on lines whose address canonicalises to `a`, in file order. -/
theorem hosts_exact_addrs (canonIP : Str → Option Str) (content : Bytes) (a : Str) :
    (readHostsFile canonIP content).addrs.get a =
      (hostsPairs canonIP content).filterMap fun p => if p.1 = a then some (absName p.2) else none := by
  unfold readHostsFile
  simp only
  rw [hostsLines_eq, hostsFold_addrs, get_pushAll]
  simp [List.filterMap_map, Function.comp_def, Tbl.get, mget]

/-- **hosts_exact (lookup)**: `LookupHost(q)` returns exactly the addresses written for a name equal
to `q` up to ASCII case and a trailing dot — none lost, none invented (outside the built-in
`localhost.localdomain.` default). -/
theorem hosts_lookup_exact (canonIP : Str → Option Str) (content : Bytes) (q a : Str)
    (hq : prepareHostLookup q ∉ localhostKeys) :
    a ∈ lookupHost (readHostsFile canonIP content).names q ↔
      ∃ p ∈ hostsPairs canonIP content, p.1 = a ∧ prepareHostLookup p.2 = prepareHostLookup q := by
  unfold lookupHost
  rw [hosts_exact_names]
  simp only [hq, false_and, ↓reduceIte, List.mem_filterMap]
  constructor
  · rintro ⟨p, hp, h⟩
    split at h
    · rename_i hk; simp at h; exact ⟨p, hp, h, hk⟩
    · simp at h
  · rintro ⟨p, hp, h1, h2⟩
    exact ⟨p, hp, by simp [h1, h2]⟩

/-- non-vacuity: the file `1.1 A b\n` declares the pairs (1.1, A), (1.1, b); `a.` finds 1.1 -/
example : hostsPairs some [49, 46, 49, 32, 65, 32, 98, 10] = [([49, 46, 49], [65]), ([49, 46, 49], [98])] := by decide
example : lookupHost (readHostsFile some [49, 46, 49, 32, 65, 32, 98, 10]).names [97, 46] = [[49, 46, 49]] := by decide
example : prepareHostLookup [97, 46] ∉ localhostKeys := by decide

/-! ### DHCP leases -/

/-- **lease_exact (dnsmasq)**: every value list of the three tables is sorted and duplicate-free
(each association listed once) and holds exactly what the records of the file say; a name is filed
under its folded form and under the `.local` alias. -/
theorem lease_exact (content : Bytes) :
    let t := readDNSMasqLease content
    let recs := dnsmasqRecs content
    (∀ k, Sorted (t.names.get k) ∧ Sorted (t.addrs.get k) ∧ Sorted (t.macs.get k)) ∧
    (∀ k ip, ip ∈ t.names.get k ↔
      ∃ r ∈ recs, r.2.1 = ip ∧ (k = lower r.2.2 ∨ k = lower r.2.2 ++ localSuffix)) ∧
    (∀ ip name, name ∈ t.addrs.get ip ↔ ∃ r ∈ recs, r.2.1 = ip ∧ r.2.2 = name) ∧
    (∀ mac name, name ∈ t.macs.get mac ↔ ∃ r ∈ recs, r.1 = mac ∧ r.2.2 = name) := by
  intro t recs
  have ht : t = recs.foldl dnsmasqApply {} := by
    show readDNSMasqLease content = _
    unfold readDNSMasqLease
    rw [dnsmasqFold]; rfl
  have hn := pushUAll_spec (recs.flatMap fun r => namePairs (lower r.2.2) r.2.1) [] allSorted_nil
  have ha := pushUAll_spec (recs.map fun r => (r.2.1, r.2.2)) [] allSorted_nil
  have hm := pushUAll_spec (recs.map fun r => (r.1, r.2.2)) [] allSorted_nil
  have e1 : t.names = pushUAll [] (recs.flatMap fun r => namePairs (lower r.2.2) r.2.1) := by
    rw [ht, dnsmasqApply_names]
  have e2 : t.addrs = pushUAll [] (recs.map fun r => (r.2.1, r.2.2)) := by rw [ht, dnsmasqApply_addrs]
  have e3 : t.macs = pushUAll [] (recs.map fun r => (r.1, r.2.2)) := by rw [ht, dnsmasqApply_macs]
  have hnil : ∀ k v, ¬ v ∈ Tbl.get [] k := by intro k v; simp [Tbl.get, mget]
  refine ⟨fun k => ⟨e1 ▸ hn.1 k, e2 ▸ ha.1 k, e3 ▸ hm.1 k⟩, ?_, ?_, ?_⟩
  · intro k ip
    rw [e1, hn.2 k ip]
    simp only [hnil, false_or, List.mem_flatMap, namePairs, List.mem_cons, Prod.mk.injEq, List.not_mem_nil, or_false]
    constructor
    · rintro ⟨r, hr, h | h⟩
      · exact ⟨r, hr, h.2.symm, Or.inl h.1⟩
      · exact ⟨r, hr, h.2.symm, Or.inr h.1⟩
    · rintro ⟨r, hr, h1, h2 | h2⟩
      · exact ⟨r, hr, Or.inl ⟨h2, h1.symm⟩⟩
      · exact ⟨r, hr, Or.inr ⟨h2, h1.symm⟩⟩
  · intro ip name
    rw [e2, ha.2 ip name]
    simp only [hnil, false_or, List.mem_map, Prod.mk.injEq]
  · intro mac name
    rw [e3, hm.2 mac name]
    simp only [hnil, false_or, List.mem_map, Prod.mk.injEq]

/-- **lease_exact (ISC dhcpd)**: the same for the block format; a closed block contributes its name
only when it has one, the address pairs only when it has an address, the MAC pair only with a MAC. -/
theorem lease_exact_dhcpd (content : Bytes) :
    let t := readDHCPDLease content
    let blocks := dhcpdBlocks content
    (∀ k, Sorted (t.names.get k) ∧ Sorted (t.addrs.get k) ∧ Sorted (t.macs.get k)) ∧
    (∀ k ip, ip ∈ t.names.get k ↔ ∃ b ∈ blocks, b.name ≠ [] ∧ b.ip ≠ [] ∧ b.ip = ip ∧
      (k = prepareHostLookup (absName b.name) ∨ k = prepareHostLookup (absName b.name) ++ localSuffix)) ∧
    (∀ ip name, name ∈ t.addrs.get ip ↔ ∃ b ∈ blocks, b.name ≠ [] ∧ b.ip ≠ [] ∧ b.ip = ip ∧ absName b.name = name) ∧
    (∀ mac name, name ∈ t.macs.get mac ↔ ∃ b ∈ blocks, b.name ≠ [] ∧ b.mac ≠ [] ∧ b.mac = mac ∧ absName b.name = name) := by
  intro t blocks
  have ht : t = blocks.foldl dhcpdApply {} := by
    show readDHCPDLease content = _
    unfold readDHCPDLease
    exact dhcpdFold _ {} {} {} rfl rfl rfl rfl
  have hf := dhcpdApply_fold blocks {}
  rw [← ht] at hf
  have hn := pushUAll_spec (blocks.flatMap dblockNamePairs) [] allSorted_nil
  have ha := pushUAll_spec (blocks.flatMap dblockAddrPairs) [] allSorted_nil
  have hm := pushUAll_spec (blocks.flatMap dblockMacPairs) [] allSorted_nil
  have hnil : ∀ k v, ¬ v ∈ Tbl.get [] k := by intro k v; simp [Tbl.get, mget]
  have e1 : t.names = pushUAll [] (blocks.flatMap dblockNamePairs) := hf.1
  have e2 : t.addrs = pushUAll [] (blocks.flatMap dblockAddrPairs) := hf.2.1
  have e3 : t.macs = pushUAll [] (blocks.flatMap dblockMacPairs) := hf.2.2
  refine ⟨fun k => ⟨e1 ▸ hn.1 k, e2 ▸ ha.1 k, e3 ▸ hm.1 k⟩, ?_, ?_, ?_⟩
  · intro k ip
    rw [e1, hn.2 k ip]
    simp only [hnil, false_or, List.mem_flatMap, dblockNamePairs, prepareHostLookup]
    constructor
    · rintro ⟨b, hb, h⟩
      split at h
      · rename_i hc
        simp only [namePairs, List.mem_cons, Prod.mk.injEq, List.not_mem_nil, or_false] at h
        rcases h with h | h
        · exact ⟨b, hb, hc.1, hc.2, h.2.symm, Or.inl h.1⟩
        · exact ⟨b, hb, hc.1, hc.2, h.2.symm, Or.inr h.1⟩
      · simp at h
    · rintro ⟨b, hb, h1, h2, h3, h4⟩
      refine ⟨b, hb, ?_⟩
      simp only [h1, h2, ne_eq, not_false_eq_true, and_self, ↓reduceIte, namePairs, List.mem_cons,
        Prod.mk.injEq, List.not_mem_nil, or_false]
      rcases h4 with h4 | h4
      · exact Or.inl ⟨h4, h3.symm⟩
      · exact Or.inr ⟨h4, h3.symm⟩
  · intro ip name
    rw [e2, ha.2 ip name]
    simp only [hnil, false_or, List.mem_flatMap, dblockAddrPairs]
    constructor
    · rintro ⟨b, hb, h⟩
      split at h
      · rename_i hc
        simp at h
        exact ⟨b, hb, hc.1, hc.2, h.1.symm, h.2.symm⟩
      · simp at h
    · rintro ⟨b, hb, h1, h2, h3, h4⟩
      subst h3; subst h4
      exact ⟨b, hb, by simp [h1, h2]⟩
  · intro mac name
    rw [e3, hm.2 mac name]
    simp only [hnil, false_or, List.mem_flatMap, dblockMacPairs]
    constructor
    · rintro ⟨b, hb, h⟩
      split at h
      · rename_i hc
        simp at h
        exact ⟨b, hb, hc.1, hc.2, h.1.symm, h.2.symm⟩
      · simp at h
    · rintro ⟨b, hb, h1, h2, h3, h4⟩
      subst h3; subst h4
      exact ⟨b, hb, by simp [h1, h2]⟩

/-- non-vacuity: the line `t M 1.1 Nas c` is the record (m, 1.1, Nas.) -/
example : dnsmasqRecs [116, 32, 77, 32, 49, 46, 49, 32, 78, 97, 115, 32, 99, 10]
    = [([109], [49, 46, 49], [78, 97, 115, 46])] := by decide

/-! ### mDNS tables -/

/-- every state reached by ingesting packets (entries of a packet in any order) satisfies the table
invariant and the cap -/
theorem mdns_invariant (cap : Nat) (pkts : List (List (Str × Str))) :
    PreInv (run cap pkts) ∧ (run cap pkts).names.length ≤ cap := by
  have step : ∀ (s : MState) (e : Str × Str), (PreInv s ∧ s.names.length ≤ cap) →
      (PreInv (ingestOne cap s e) ∧ (ingestOne cap s e).names.length ≤ cap) := by
    intro s e h
    rw [ingestOne_eq]
    split
    · have h2 := afterAdds_preInv s e.1 e.2 h.1
      have h3 := evictLoop_spec cap ((afterAdds s e.1 (absName e.2)).names.length + 1) _ h2
      exact ⟨h3.1, h3.2 (by omega)⟩
    · exact h
  have pkt : ∀ (es : List (Str × Str)) (s : MState), (PreInv s ∧ s.names.length ≤ cap) →
      (PreInv (ingestPacket cap s es) ∧ (ingestPacket cap s es).names.length ≤ cap) := by
    intro es
    induction es with
    | nil => intro s h; exact h
    | cons e t ih => intro s h; exact ih _ (step s e h)
  unfold run
  have : ∀ (ps : List (List (Str × Str))) (s : MState), (PreInv s ∧ s.names.length ≤ cap) →
      (PreInv (ps.foldl (ingestPacket cap) s) ∧ (ps.foldl (ingestPacket cap) s).names.length ≤ cap) := by
    intro ps
    induction ps with
    | nil => intro s h; exact h
    | cons p t ih => intro s h; exact ih _ (pkt p s h)
  exact this pkts {} ⟨preInv_init, by simp⟩

/-- **mdns_views_agree**: after every packet sequence, address `a` is listed under name key `k`
iff some announced spelling of `k` is listed under `a` in the reverse table. -/
theorem mdns_views_agree (cap : Nat) (pkts : List (List (Str × Str))) (a k : Str) :
    a ∈ (run cap pkts).names.vals k ↔ ∃ n ∈ (run cap pkts).addrs.vals a, prepareHostLookup n = k :=
  (mdns_invariant cap pkts).1.agree a k

/-- **mdns_cap**: the name table never holds more than the cap (distinct keys), for the real cap
regenerated from the source in particular; the model's loop fuel therefore always suffices. -/
theorem mdns_cap (cap : Nat) (pkts : List (List (Str × Str))) :
    (run cap pkts).names.length ≤ cap ∧ (keys (run cap pkts).names).Nodup :=
  ⟨(mdns_invariant cap pkts).2, (mdns_invariant cap pkts).1.namesKeys⟩

/-- … for the cap the code is compiled with (regenerated constant; any value) -/
theorem mdns_cap_real (pkts : List (List (Str × Str))) :
    (run Gen.mdnsMaxEntries pkts).names.length ≤ Gen.mdnsMaxEntries := (mdns_cap _ pkts).1

/-- each association is listed once: every value list of both tables is sorted and duplicate-free -/
theorem mdns_each_once (cap : Nat) (pkts : List (List (Str × Str))) (k : Str) :
    ((run cap pkts).names.vals k).Nodup ∧ ((run cap pkts).addrs.vals k).Nodup :=
  ⟨((mdns_invariant cap pkts).1.sortedN k).nodup, ((mdns_invariant cap pkts).1.sortedA k).nodup⟩

/-- **mdns_evicts_lru**: in every state of the ingest loop (after the two `addEntry` calls, and after
any number of evictions) `removeOldestEntry` removes exactly one key, the one whose `lastUpdate` is
least, and the invariant survives. -/
theorem mdns_evicts_lru (s : MState) (h : PreInv s) (hne : s.names ≠ []) :
    ∃ k, k ∈ keys s.names ∧ (∀ p ∈ s.names, (s.names.ent k).stamp ≤ p.2.stamp) ∧
      (removeOldest s).names = mdel s.names k ∧
      (removeOldest s).names.length + 1 = s.names.length ∧ PreInv (removeOldest s) :=
  ⟨_, removeOldest_spec s h hne⟩

/-- the states `mdns_evicts_lru` speaks about are the reachable ones -/
theorem mdns_loop_states_inv (cap : Nat) (pkts : List (List (Str × Str))) (addr raw : Str) :
    PreInv (afterAdds (run cap pkts) addr (absName raw)) :=
  afterAdds_preInv _ addr raw (mdns_invariant cap pkts).1

/-- the unrepaired eviction left the reverse table pointing at the evicted name: after
`foo.` (10) and `bar.` (11) with cap 1, address 10 still lists `foo.` -/
theorem mdns_old_views_disagree :
    let s := afterAdds (afterAdds {} [49, 48] [102, 111, 111, 46]) [49, 49] [98, 97, 114, 46]
    [102, 111, 111, 46] ∈ (removeOldestOld s).addrs.vals [49, 48] ∧
    [49, 48] ∉ (removeOldestOld s).names.vals [102, 111, 111, 46] := by decide

/-- non-vacuity: a reachable state with two keys, and the repaired eviction on it -/
example :
    let s := afterAdds (afterAdds {} [49, 48] [70, 111, 111, 46]) [49, 49] [98, 97, 114, 46]
    s.names ≠ [] ∧ (removeOldest s).addrs.vals [49, 48] = [] ∧ keys (removeOldest s).names = [[98, 97, 114, 46]] := by decide

end NV.C18
