import NV.Model.Reply
namespace NV.C02
theorem placeholder : True := trivial
end NV.C02
