import NV.Model.Reply
import NV.Gen.Bounds
import NV.Gen.MsgBounds
import NV.Lemmas.ParserChecked
import NV.Model.CFG
import NV.Gen.ProxyCFG
namespace NV.C02
open NV

theorem ca_lt (p : Parser) (sec : Nat) (h : p.sec < sec) :
    p.checkAdvance sec = (.error .notStarted, p) := by
  simp [Parser.checkAdvance, h]

theorem ca_gt (p : Parser) (sec : Nat) (h : p.sec > sec) :
    p.checkAdvance sec = (.error .sectionDone, p) := by
  have : ¬ p.sec < sec := by omega
  simp [Parser.checkAdvance, h, this]

theorem ca_done (p : Parser) (sec : Nat) (h : p.sec = sec) (hi : p.index = p.count sec) :
    p.checkAdvance sec = (.error .sectionDone, { p with rhValid := false, index := 0, sec := p.sec + 1 }) := by
  simp [Parser.checkAdvance, h, Parser.count] at *
  simp [hi]

theorem ca_ok (p : Parser) (sec : Nat) (h : p.sec = sec) (hi : p.index ≠ p.count sec) :
    p.checkAdvance sec = (.ok (), { p with rhValid := false }) := by
  simp [Parser.checkAdvance, h, Parser.count] at *
  simp [hi]

/-- parser invariant between steps of `query.parse` -/
def Inv (p : Parser) : Prop :=
  p.rhValid = false ∧ p.index ≤ p.count p.sec ∧ p.qd < 65536 ∧ p.an < 65536 ∧ p.ns < 65536 ∧ p.ar < 65536

theorem count_lt (p : Parser) (h : Inv p) (s : Nat) : p.count s < 65536 := by
  unfold Parser.count; obtain ⟨_, _, h1, h2, h3, h4⟩ := h
  repeat' split
  all_goals omega

/-- the four possible results of `checkAdvance` -/
theorem ca_cases (p : Parser) (sec : Nat) :
    (p.checkAdvance sec = (.error .notStarted, p)) ∨
    (p.checkAdvance sec = (.error .sectionDone, p) ∧ p.sec > sec) ∨
    (p.checkAdvance sec = (.error .sectionDone, { p with rhValid := false, index := 0, sec := p.sec + 1 })
      ∧ p.sec = sec ∧ p.index = p.count sec) ∨
    (p.checkAdvance sec = (.ok (), { p with rhValid := false }) ∧ p.sec = sec ∧ p.index ≠ p.count sec) := by
  by_cases h1 : p.sec < sec
  · exact .inl (ca_lt p sec h1)
  · by_cases h2 : p.sec > sec
    · exact .inr (.inl ⟨ca_gt p sec h2, h2⟩)
    · have h3 : p.sec = sec := by omega
      by_cases h4 : p.index = p.count sec
      · exact .inr (.inr (.inl ⟨ca_done p sec h3 h4, h3, h4⟩))
      · exact .inr (.inr (.inr ⟨ca_ok p sec h3 h4, h3, h4⟩))

theorem inv_done (p : Parser) (h : Inv p) :
    Inv { p with rhValid := false, index := 0, sec := p.sec + 1 } := by
  obtain ⟨h0, h1, h2, h3, h4, h5⟩ := h
  exact ⟨rfl, Nat.zero_le _, h2, h3, h4, h5⟩

/-- what one `skipX` step may do to the parser -/
structure StepOK (sec : Nat) (step : Parser → Except PErr Unit × Parser) : Prop where
  pres : ∀ p, Inv p → Inv (step p).2
  ok_adv : ∀ p, Inv p → (step p).1 = .ok () →
    p.sec = sec ∧ (step p).2.sec = sec ∧ (step p).2.index = p.index + 1 ∧
    (step p).2.count sec = p.count sec ∧ p.index < p.count sec

theorem skipQuestion_ok : StepOK 2 Parser.skipQuestion := by
  constructor
  · intro p h
    unfold Parser.skipQuestion
    rcases ca_cases p 2 with hc | ⟨hc, _⟩ | ⟨hc, _, _⟩ | ⟨hc, hs, hne⟩ <;> rw [hc] <;> dsimp only
    · exact h
    · exact h
    · exact inv_done p h
    · obtain ⟨h0, h1, h2, h3, h4, h5⟩ := h
      split
      · exact ⟨rfl, h1, h2, h3, h4, h5⟩
      · refine ⟨rfl, ?_, h2, h3, h4, h5⟩
        simp only [Parser.count] at *
        simp [hs] at *
        omega
  · intro p h hok
    unfold Parser.skipQuestion at hok ⊢
    rcases ca_cases p 2 with hc | ⟨hc, _⟩ | ⟨hc, _, _⟩ | ⟨hc, hs, hne⟩ <;> rw [hc] at hok ⊢ <;> dsimp only at hok ⊢
    · simp at hok
    · simp at hok
    · simp at hok
    · split at hok
      · simp at hok
      · obtain ⟨h0, h1, _⟩ := h
        simp [Parser.count, hs] at *
        omega

theorem skipResource_nv (p : Parser) (sec : Nat) (h : p.rhValid = false) :
    p.skipResource sec = p.skipResourceFresh sec := by
  simp [Parser.skipResource, h]

theorem skipResource_ok (sec : Nat) : StepOK sec (fun p => p.skipResource sec) := by
  constructor
  · intro p h
    have hv : p.rhValid = false := h.1
    rw [skipResource_nv p sec hv]; unfold Parser.skipResourceFresh
    rcases ca_cases p sec with hc | ⟨hc, _⟩ | ⟨hc, _, _⟩ | ⟨hc, hs, hne⟩ <;> rw [hc] <;> dsimp only
    · exact h
    · exact h
    · exact inv_done p h
    · obtain ⟨h0, h1, h2, h3, h4, h5⟩ := h
      split
      · exact ⟨rfl, h1, h2, h3, h4, h5⟩
      · refine ⟨rfl, ?_, h2, h3, h4, h5⟩
        subst hs
        simp only [Parser.count] at *
        omega
  · intro p h hok
    have hv : p.rhValid = false := h.1
    rw [skipResource_nv p sec hv] at hok ⊢; unfold Parser.skipResourceFresh at hok ⊢
    rcases ca_cases p sec with hc | ⟨hc, _⟩ | ⟨hc, _, _⟩ | ⟨hc, hs, hne⟩ <;> rw [hc] at hok ⊢ <;> dsimp only at hok ⊢
    · simp at hok
    · simp at hok
    · simp at hok
    · split at hok
      · simp at hok
      · obtain ⟨h0, h1, _⟩ := h
        subst hs
        simp [Parser.count] at *
        omega

/-- `SkipAll…` terminates: with more fuel than records left, the result is never `none`,
and the invariant is kept. -/
theorem skipAll_total (sec : Nat) (step : Parser → Except PErr Unit × Parser) (hs : StepOK sec step) :
    ∀ (fuel : Nat) (p : Parser), Inv p → p.count sec - p.index < fuel →
      ∃ r p', Parser.skipAllFuel fuel step p = some (r, p') ∧ Inv p' := by
  intro fuel
  induction fuel with
  | zero => intro p _ h; omega
  | succ n ih =>
    intro p hinv hlt
    unfold Parser.skipAllFuel
    have hp := hs.pres p hinv
    split
    · exact ⟨_, _, rfl, by rename_i heq; rw [heq] at hp; exact hp⟩
    · exact ⟨_, _, rfl, by rename_i heq; rw [heq] at hp; exact hp⟩
    · rename_i p' heq
      have hok : (step p).1 = .ok () := by rw [heq]
      obtain ⟨h1, h2, h3, h4, h5⟩ := hs.ok_adv p hinv hok
      rw [heq] at hp h2 h3 h4
      apply ih p' hp
      simp at h3 h4
      omega

theorem skipAll_fuel_enough (sec : Nat) (step : Parser → Except PErr Unit × Parser) (hs : StepOK sec step)
    (p : Parser) (h : Inv p) :
    ∃ r p', Parser.skipAllFuel skipFuel step p = some (r, p') ∧ Inv p' := by
  apply skipAll_total sec step hs
  · exact h
  · have := count_lt p h sec
    unfold skipFuel; omega

theorem skipResource_valid (p : Parser) (sec : Nat) (h : p.rhValid = true) :
    p.skipResource sec =
      if p.off + p.rh.len > p.msg.length then (.error .resourceLen, p)
      else (.ok (), { p with off := p.off + p.rh.len, rhValid := false, index := p.index + 1 }) := by
  simp [Parser.skipResource, h]

theorem rh_cases (p : Parser) (sec : Nat) (hv : p.rhValid = false) :
    (∃ e p', p.resourceHeader sec = (.error e, p')) ∨
    (∃ h off, p.resourceHeader sec = (.ok h, { p with rhValid := true, rh := h, off := off })
      ∧ p.sec = sec ∧ p.index ≠ p.count sec) := by
  simp only [Parser.resourceHeader, hv]
  rcases ca_cases p sec with hc | ⟨hc, _⟩ | ⟨hc, _, _⟩ | ⟨hc, hs, hne⟩ <;> rw [hc] <;> simp
  split
  · exact .inl ⟨_, _, rfl⟩
  · rename_i h off _
    exact .inr ⟨⟨h, off, rfl⟩, hs, hne⟩

/-- the additional-section loop of `query.parse` terminates -/
theorem parseLoop_total : ∀ (fuel : Nat) (p : Parser) (q : Query), Inv p →
    p.ar - p.index < fuel → parseLoop fuel p q ≠ .outOfFuel := by
  intro fuel
  induction fuel with
  | zero => intro p q _ h; omega
  | succ n ih =>
    intro p q hinv hlt
    have hv : p.rhValid = false := hinv.1
    unfold parseLoop
    rcases rh_cases p 5 hv with ⟨e, p', he⟩ | ⟨h, off, he, hs, hne⟩ <;> rw [he]
    · cases e <;> simp
    · dsimp only
      split
      · split <;> simp
      · rw [skipResource_valid _ 5 rfl]
        dsimp only
        by_cases hlen : off + h.len > p.msg.length
        · rw [if_pos hlen]; simp
        · rw [if_neg hlen]; dsimp only
          apply ih
          · obtain ⟨h0, h1, h2, h3, h4, h5⟩ := hinv
            refine ⟨rfl, ?_, h2, h3, h4, h5⟩
            simp [Parser.count, hs] at *
            omega
          · obtain ⟨h0, h1, _⟩ := hinv
            simp [Parser.count, hs] at *
            omega

theorem start_inv (msg : Bytes) (p : Parser) (h : Parser.start msg = .ok p) : Inv p ∧ p.index = 0 ∧ p.sec = 2 := by
  unfold Parser.start at h
  split at h
  · simp at h
  · simp at h
    subst h
    refine ⟨⟨rfl, Nat.zero_le _, rd16_lt _ _, rd16_lt _ _, rd16_lt _ _, rd16_lt _ _⟩, rfl, rfl⟩

theorem question_inv (p : Parser) (h : Inv p) : Inv (p.question).2 := by
  unfold Parser.question
  rcases ca_cases p 2 with hc | ⟨hc, _⟩ | ⟨hc, _, _⟩ | ⟨hc, hs, hne⟩ <;> rw [hc] <;> dsimp only
  · exact h
  · exact h
  · exact inv_done p h
  · obtain ⟨h0, h1, h2, h3, h4, h5⟩ := h
    split
    · exact ⟨rfl, h1, h2, h3, h4, h5⟩
    · split
      · exact ⟨rfl, h1, h2, h3, h4, h5⟩
      · split
        · exact ⟨rfl, h1, h2, h3, h4, h5⟩
        · refine ⟨rfl, ?_, h2, h3, h4, h5⟩
          simp [Parser.count, hs] at *
          omega

/-- **C02 (termination)**: `query.parse` terminates on every byte string: the model's fuel
(65537 per loop, more than any 16-bit record count) is never exhausted. -/
theorem parse_total (payload : Bytes) : parse payload ≠ .outOfFuel := by
  unfold parse parseFuel
  dsimp only
  split
  · simp
  · rename_i p hst
    obtain ⟨hinv, _, _⟩ := start_inv payload p hst
    have hq := question_inv p hinv
    split
    · simp
    · rename_i qu p1 heq
      rw [heq] at hq; simp at hq
      obtain ⟨r2, p2, e2, i2⟩ := skipAll_fuel_enough 2 _ skipQuestion_ok p1 hq
      rw [e2]; dsimp only
      obtain ⟨r3, p3, e3, i3⟩ := skipAll_fuel_enough 3 _ (skipResource_ok 3) p2 i2
      rw [e3]; dsimp only
      obtain ⟨r4, p4, e4, i4⟩ := skipAll_fuel_enough 4 _ (skipResource_ok 4) p3 i3
      rw [e4]; dsimp only
      apply parseLoop_total _ _ _ i4
      have := i4.2.2.2.2.2
      unfold skipFuel; omega

theorem replyRCode_len_ge (rcode : Nat) (q : Query) : 12 ≤ (replyRCode rcode q).length := by
  unfold replyRCode
  split <;> simp [be16]

theorem resolved_len_pos (q : Query) (o : Outcome) : 1 ≤ (resolved q o).length := by
  unfold resolved
  split
  · have := replyRCode_len_ge 2 q; omega
  · split
    · have := replyRCode_len_ge 2 q; omega
    · rename_i b h; omega

theorem udpTrunc_pos (r m : Nat) (h : 1 ≤ r) : 1 ≤ (udpTrunc r m).1 := by
  unfold udpTrunc maxUDPSize maxDNS0Size
  repeat' split
  all_goals simp_all
  all_goals omega

/-- **C02 (never silence)**: whatever the payload and whatever the resolution outcome, the handler
model emits a non-empty UDP datagram / a framed TCP message. -/
theorem handler_replies (payload : Bytes) (o : Outcome) :
    ∃ st q, parse payload = .done st q ∧ 1 ≤ (udpReply q o).length ∧ 3 ≤ (tcpReply q o).length := by
  have ht := parse_total payload
  cases hp : parse payload with
  | outOfFuel => exact absurd hp ht
  | done st q =>
    refine ⟨st, q, rfl, ?_, ?_⟩
    · unfold udpReply
      have h1 := resolved_len_pos q o
      have h2 := udpTrunc_pos (resolved q o).length q.msgSize h1
      dsimp only
      split <;> simp [List.length_take, setTC] <;> omega
    · unfold tcpReply
      have h1 := resolved_len_pos q o
      simp [be16]; omega

/-! ### no index-out-of-range panic on option data -/

/-- **C02 (no crash on option data)**: the option loop of `parse`, with every index and slice
expression on `o.Data` carrying Go's run-time bounds check, never panics — for every option list
(any codes, any data lengths, truncated ECS headers included) — and computes what the unchecked model
`applyOpts` computes. -/
theorem applyOpts_no_oob (os : List Opt) (q : Query) : applyOpts? os q = some (applyOpts os q) := by
  induction os generalizing q with
  | nil => rfl
  | cons o os ih =>
    have h1 : applyOpt? o q = some (applyOpts [o] q) := by
      unfold applyOpt? applyOpts applyOpts idx? slice?
      by_cases hm : o.code = 0xfde9
      · simp [hm]
      · by_cases h8 : o.code = 8
        · by_cases hl : o.data.length < 8
          · simp [h8, hl]
          · have h1 : 1 < o.data.length := by omega
            have h2 : 2 < o.data.length := by omega
            have h3 : 8 ≤ o.data.length := by omega
            simp only [hm, h8, hl, h1, h2, if_true, if_false, Option.bind_some]
            by_cases hf1 : byteAt o.data 1 = 1
            · by_cases hb : byteAt o.data 2 = 32 <;> simp [hf1, hb, h3]
            · by_cases hf2 : byteAt o.data 1 = 2
              · by_cases hb : byteAt o.data 2 = 128
                · by_cases h20 : o.data.length ≥ 20
                  · simp [hf2, hb, h20]
                  · simp [hf2, hb, h20]
                · simp [hf2, hb]
              · simp [hf1, hf2]
        · simp [hm, h8]
    have h2 : applyOpts (o :: os) q = applyOpts os (applyOpts [o] q) := by
      conv => lhs; unfold applyOpts
      conv => rhs; arg 2; unfold applyOpts applyOpts
    simp only [applyOpts?, h1, Option.bind_some, ih, h2]

/-- non-vacuity: an ECS option cut after its 4-byte header (the input on which a relaxed guard
panics) is simply skipped. -/
example : applyOpts? [{ code := 8, data := [0, 1, 32, 0], dataOff := 30 }] {} = some {} := by decide

/-- **C02 (regenerated)**: every constant index / slice expression on `o.Data` in the option loop of
resolver/query/query.go is dominated by guards establishing at least the length it needs (the
accesses and guards are re-read from the source on every run). -/
theorem gen_optdata_in_bounds :
    (NV.Gen.Bounds.optDataAccesses.all fun a => a.2.1 ≤ a.2.2) = true ∧
    4 ≤ NV.Gen.Bounds.optDataAccesses.length := by decide


/-- **C02 (cannot be wedged by leaking capacity)**: hostile messages are handled by the same
handler closures as every other query; their regenerated control-flow graphs give the inflight
unit back on EVERY path, including the ones a parse error takes (an early return before the
deferred release is installed breaks this obligation, and `MaxInflightRequests` such messages
would stop the daemon). Same certificate as `NV.C04.gen_cert_ok`, required here because
"keeps answering other clients" depends on it. -/
theorem hostile_paths_return_capacity :
    (NV.Gen.ProxyCFG.all.all fun e => NV.CFG.check e.2.2.2.2 e.2.1 e.2.2.1 e.2.2.2.1) = true ∧
    (NV.Gen.ProxyCFG.allWrites.all fun e => NV.CFG.check e.2.2.2.2 e.2.1 e.2.2.1 e.2.2.2.1) = true := by
  decide


/-! ### no index-out-of-range panic inside internal/dnsmessage -/

/-- **C02 (regenerated)**: the index and slice expressions on the message buffer in the dnsmessage
functions a client byte reaches, each with the length test that precedes it and the assignments
made in between, are the ones the checked twins of NV.Model.ParserChecked were written from. A
removed or weakened guard, a new unguarded access, an index moved in front of its guard change
this table. -/
theorem gen_msg_guards_agree :
    NV.Gen.MsgBounds.accesses = [
      ("unpackUint16", "msg[off]", "off+uint16Len > len(msg)", ""),
      ("unpackUint16", "msg[off+1]", "off+uint16Len > len(msg)", ""),
      ("unpackUint32", "msg[off]", "off+uint32Len > len(msg)", ""),
      ("unpackUint32", "msg[off+1]", "off+uint32Len > len(msg)", ""),
      ("unpackUint32", "msg[off+2]", "off+uint32Len > len(msg)", ""),
      ("unpackUint32", "msg[off+3]", "off+uint32Len > len(msg)", ""),
      ("unpackCompressed", "msg[currOff]", "currOff >= len(msg)", ""),
      ("unpackCompressed", "msg[currOff:endOff]", "endOff > len(msg)", ""),
      ("unpackCompressed", "msg[currOff]", "currOff >= len(msg)", ""),
      ("skipName", "msg[newOff]", "newOff >= len(msg)", ""),
      ("unpackOPTResource", "msg[off:]", "-", "")] := by decide

/-- **C02 (no panic, every byte string)**: with exactly those guards, no index or slice expression
of `unpackUint16` / `unpackUint32` reads outside the message, whatever the message and offset:
the checked twin (every access an `Option`, `none` = runtime panic) returns `some` of the total
model. -/
theorem unpackUint_no_oob (msg : Bytes) (off : Nat) :
    unpackU16? msg off = some (unpackU16 msg off) ∧ unpackU32? msg off = some (unpackU32 msg off) :=
  ⟨unpackU16?_eq msg off, unpackU32?_eq msg off⟩

/-- … nor does `Name.unpackCompressed`, for every message, start offset, pointer chain and label
layout (compression pointers may point anywhere, also past the end or at themselves) -/
theorem unpackName_no_oob (msg : Bytes) (off : Nat) :
    unpackNameLoop? msg off off 0 [] = some (unpackName msg off) :=
  unpackNameLoop?_eq msg off off 0 []

/-- … nor `skipName` -/
theorem skipName_no_oob (msg : Bytes) (off : Nat) : skipNameLoop? msg off = some (skipNameLoop msg off) :=
  skipNameLoop?_eq msg off

/-- … nor `unpackOPTResource`, whose `msg[off:]` has no guard of its own: the two successful
`unpackUint16` before it leave `off ≤ len(msg)`, for every RDLENGTH the header may claim -/
theorem unpackOPT_no_oob (msg : Bytes) (off endOff : Nat) :
    unpackOptsLoop? msg off endOff [] = some (unpackOptsLoop msg off endOff []) :=
  unpackOptsLoop?_eq msg off endOff []

/-- the twins are not vacuous: they DO report the panic a missing guard would cause -/
example : byteAt? [1, 2, 3] 3 = none ∧ sliceTo? [1, 2, 3] 2 5 = none ∧ sliceFrom? [1, 2, 3] 4 = none := by decide

end NV.C02
