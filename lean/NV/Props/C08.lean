/-
  C08 — endpoint election picks the first healthy candidate in preference order.

  Model: NV.Model.Manager (resolver/endpoint/manager.go after the two `fix:` commits; `Variant` keeps
  the pre-repair behaviour for the negative witnesses).  Helper definitions used in the statements
  (NV.Lemmas.Manager):
    items env        everything the providers return, flattened provider-major in preference order:
                     `pok i` (provider i answered), `cand e` (its endpoints, in order), `perr i`,
                     `punreach i`;
    stopOf h it      the item ends the election: `cand e` with a passing probe (elected) or a
                     network-unreachable probe (abort), `punreach` (abort);
    traceEvents      the observable log of a list of processed items (GetEndpoints calls, probe
                     calls with result, OnError / OnProviderError), compared with the real Manager
                     event by event by the `mgr` correspondence area;
    offered env      all endpoints any provider currently returns;
    actions / changes   the `action` / `onChange` events of a log.
  Tie to the source: NV.Gen.Manager (constants, the two comparisons) is regenerated on every run.
-/
import NV.Lemmas.SvcProv
import NV.Model.SrcUrl
import NV.Model.RealEp
import NV.Gen.PkgState
import NV.Lemmas.Manager
import NV.Gen.Manager
import NV.Driver.EpEq
namespace NV.C08
open NV.Mgr

/-- the regenerated constants and comparisons are the ones of the hand model -/
theorem gen_consts_agree :
    Gen.Manager.defaultErrorThreshold = defaultThreshold ∧
    Gen.Manager.defaultMinTestInterval = defaultMinTest ∧
    Gen.Manager.minTestIntervalFailed = failedInterval ∧
    (∀ now last iv, Gen.Manager.exceeded now last iv = exceeded now last iv) ∧
    (∀ now last iv, Gen.Manager.exceededWall now last iv = exceeded now last iv) ∧
    (∀ n t, Gen.Manager.thresholdHit n t = thresholdHit n t) :=
  ⟨rfl, rfl, rfl, fun _ _ _ => rfl, fun _ _ _ => rfl, fun _ _ => rfl⟩

/-- **election order.**  The nested loops of `findBestEndpointLocked` process the flattened
provider-major list strictly left to right:
(a) if `d` is the first item that ends an election, exactly `pre ++ [d]` is processed — nothing
    after it is probed or asked — and the result is `d`'s: the first candidate whose probe passes
    is elected; a network-unreachable probe or provider aborts the election with that error;
(b) if no item ends the election everything is processed and the first listed candidate is
    returned as fallback (short interval), or — no candidate at all — an error.
Providers that returned an ordinary error contribute only a `perr` item, i.e. they are skipped. -/
theorem findBest_spec (v : Variant) (env : Env) :
    (∀ pre d post s, items env = pre ++ d :: post → (∀ x ∈ pre, stopOf env.health x = none) →
        stopOf env.health d = some s →
        (findBest v env).1 = pre ++ [d] ∧
        (findBest v env).2 = (match s with | .elected e => .elected e | .unreach => .unreach)) ∧
    ((∀ x ∈ items env, stopOf env.health x = none) →
        (findBest v env).1 = items env ∧
        (findBest v env).2 = (match firstCand (items env) with
          | some e => .fallback e
          | none => if v.errOnNoCand then .noEndpoint else .fallbackNil)) := by
  constructor
  · intro pre d post s hi hpre hd
    have h := scanFlat_stop env.health d post s hd pre hpre
    unfold findBest
    simp only
    rw [scan_eq_flat]
    unfold items at hi
    rw [hi, h]
    cases s <;> simp
  · intro hall
    have h := scanFlat_none env.health (items env) hall
    unfold findBest
    simp only
    rw [scan_eq_flat]
    unfold items at h ⊢
    rw [h]
    exact ⟨rfl, rfl⟩

/-- the probe log of every election is a prefix of the flattened candidate list, and is exactly
what `testLocked` emits before a possible OnChange -/
theorem probe_log_prefix (v : Variant) (cfg : Cfg) (st : St) (env : Env) :
    (findBest v env).1 <+: items env ∧
    ∃ tail, (testLocked v cfg st env).2.1 = traceEvents env.health (findBest v env).1 ++ tail ∧
      (tail = [] ∨ ∃ e, tail = [.onChange e]) := by
  refine ⟨?_, ?_⟩
  · rw [findBest_trace_eq]; exact scanFlat_prefix _ _
  · rw [testLocked_eq]
    cases electedOf (findBest v env).2 with
    | none => exact ⟨[], by simp, Or.inl rfl⟩
    | some e =>
      refine ⟨(applyElect cfg st e (isShort (findBest v env).2)).2, rfl, ?_⟩
      rcases applyElect_cases cfg st e (isShort (findBest v env).2) with ⟨a, _, hev, _⟩ | ⟨_, hev, _⟩
      · exact Or.inl hev
      · exact Or.inr ⟨e, hev⟩

/-- an elected (or fallback) endpoint was offered by a provider in this very election, and an
elected one passed its probe -/
theorem elected_was_offered (v : Variant) (env : Env) (e : Ep) :
    ((findBest v env).2 = .elected e → e ∈ offered env ∧ env.health e.key = .ok) ∧
    ((findBest v env).2 = .fallback e → e ∈ offered env) := by
  constructor
  · intro h
    refine ⟨findBest_cands_offered v env e (findBest_elected_mem v env e (Or.inl h)), ?_⟩
    unfold findBest at h
    simp only at h
    rw [scan_eq_flat] at h
    cases hs : (scanFlat env.health (itemsFrom 0 env.provs)).2 with
    | some s =>
      cases s with
      | elected x => simp [hs] at h; subst h; exact (scanFlat_elected _ _ _ hs).2
      | unreach => simp [hs] at h
    | none =>
      simp only [hs] at h
      split at h
      · simp at h
      · split at h <;> simp at h
  · intro h
    exact findBest_cands_offered v env e (findBest_elected_mem v env e (Or.inr h))

/-- **OnChange fires exactly when the elected endpoint is not `Equal` to the previously active
one** (or there was none), with that endpoint, and at most once per election. -/
theorem onChange_iff (v : Variant) (cfg : Cfg) (st : St) (env : Env) :
    changes (testLocked v cfg st env).2.1 =
      match electedOf (findBest v env).2 with
      | some e =>
        if st.active = none ∨ ∃ a, st.active = some a ∧ equalOpt (st.heap a).ep e = false
        then [.onChange e] else []
      | none => [] := by
  rw [testLocked_eq]
  cases electedOf (findBest v env).2 with
  | none => simp [trace_no_change]
  | some e =>
    simp only [changes_append, trace_no_change, List.nil_append, applyElect_changes, reuse_none_iff]

/-- the swap itself: after a successful election the active endpoint is `Equal` to the elected
one; it is the SAME object as before iff the old one was already `Equal` (no OnChange then) -/
theorem elected_becomes_active (v : Variant) (cfg : Cfg) (st : St) (env : Env) (e : Ep)
    (h : (findBest v env).2 = .elected e ∨ (findBest v env).2 = .fallback e) :
    ∃ a, (testLocked v cfg st env).1.active = some a ∧
      equalOpt ((testLocked v cfg st env).1.heap a).ep (some e) = true ∧
      (testLocked v cfg st env).2.2 = true := by
  rw [testLocked_eq]
  have he : electedOf (findBest v env).2 = some (some e) := by rcases h with h | h <;> rw [h] <;> rfl
  rw [he]
  simp only
  rcases applyElect_cases cfg st (some e) (isShort (findBest v env).2) with ⟨a, hr, _, hst⟩ | ⟨_, _, hst⟩
  · obtain ⟨hact, heq⟩ := reuse_some hr
    rw [hst]
    refine ⟨a, hact, ?_, trivial⟩
    show equalOpt (upd _ _ _ _).ep _ = true
    rw [upd_ep _ _ _ (by rfl)]; exact heq
  · rw [hst]
    refine ⟨st.next, rfl, ?_, trivial⟩
    show equalOpt (upd _ _ _ _).ep _ = true
    simp [equalOpt]

/-- when nobody passed its probe the elected object carries the short retry interval — also when
it is the object that was already active (the write hits the shared object) -/
theorem fallback_short_interval (v : Variant) (cfg : Cfg) (st : St) (env : Env) (e : Ep)
    (h : (findBest v env).2 = .fallback e) :
    ∃ a, (testLocked v cfg st env).1.active = some a ∧
      ((testLocked v cfg st env).1.heap a).interval = failedInterval := by
  rw [testLocked_eq, h]
  simp only [electedOf, isShort]
  rcases applyElect_cases cfg st (some e) true with ⟨a, hr, _, hst⟩ | ⟨_, _, hst⟩
  · rw [hst]; exact ⟨a, (reuse_some hr).1, by show (upd _ _ _ _).interval = _; simp⟩
  · rw [hst]; exact ⟨st.next, rfl, by show (upd _ _ _ _).interval = _; simp⟩

/-- a failed election (network unreachable / no candidate) changes nothing -/
theorem failed_election_keeps_state (v : Variant) (cfg : Cfg) (st : St) (env : Env)
    (h : (testLocked v cfg st env).2.2 = false) : (testLocked v cfg st env).1 = st := by
  rw [testLocked_eq] at h ⊢
  cases he : electedOf (findBest v env).2 with
  | none => rfl
  | some e => rw [he] at h; simp at h

/-- **every Do runs its action exactly once, on the endpoint that was active when it started**:
`DoStart` either enters the action exactly once, with the endpoint of the active object — the one
that was active before the call if there was one, otherwise the one installed by this call
(InitEndpoint or bootstrap election) — and registers that object as in flight; or it returns an
error without running the action, which only happens when there was no active endpoint, no
InitEndpoint and the bootstrap election failed. -/
theorem do_once_on_active (v : Variant) (cfg : Cfg) (st : St) (env : Env) (r : St × List Ev)
    (hr : doStart v cfg st env = some r) :
    (∃ a, r.1.active = some a ∧ actions r.2 = [.action (r.1.heap a).ep] ∧
        r.1.inflight = st.inflight ++ [a] ∧
        (∀ a0, st.active = some a0 → a = a0 ∧ (r.1.heap a).ep = (st.heap a0).ep)) ∨
    (actions r.2 = [] ∧ Ev.ret false ∈ r.2 ∧ r.1.inflight = st.inflight ∧
        st.active = none ∧ cfg.init = none) := by
  have key : ∀ (s : St) (a : Nat) (evs : List Ev), s.active = some a → actions evs = [] →
      (enterDo s a evs).1.active = some a ∧
      actions (enterDo s a evs).2 = [.action ((enterDo s a evs).1.heap a).ep] ∧
      (enterDo s a evs).1.inflight = s.inflight ++ [a] := by
    intro s a evs ha hev
    obtain ⟨f1, _, _, _, _, f3⟩ := enterDo_frame s a evs
    refine ⟨by rw [f1, ha], ?_, ?_⟩
    · rw [f3]
      show actions (evs ++ [.action (s.heap a).ep]) = _
      rw [actions_append, hev]; rfl
    · unfold enterDo; simp only; split <;> rfl
  unfold doStart at hr
  split at hr
  · simp at hr
  · split at hr
    · next a ha =>
      simp at hr; subst hr
      obtain ⟨k1, k2, k3⟩ := key st a [] ha rfl
      refine Or.inl ⟨a, k1, k2, k3, ?_⟩
      intro a0 h0
      rw [ha] at h0; cases h0
      exact ⟨rfl, (enterDo_frame st a []).2.2.2.2.2 a⟩
    · next hnone =>
      split at hr
      · next e he =>
        simp at hr; subst hr
        obtain ⟨k1, k2, k3⟩ := key (installInit cfg st e) st.next [] rfl rfl
        exact Or.inl ⟨st.next, k1, k2, k3, fun a0 h0 => by rw [hnone] at h0; cases h0⟩
      · next hinit =>
        dsimp only at hr
        split at hr
        · split at hr
          · next a ha =>
            simp at hr; subst hr
            obtain ⟨k1, k2, k3⟩ := key (testLocked v cfg st env).1 a (testLocked v cfg st env).2.1 ha
              (testLocked_actions v cfg st env)
            refine Or.inl ⟨a, k1, k2, ?_, fun a0 h0 => by rw [hnone] at h0; cases h0⟩
            rw [k3, (testLocked_TFrame_inflight v cfg st env)]
          · simp at hr; subst hr
            refine Or.inr ⟨?_, by simp, ?_, hnone, hinit⟩
            · rw [actions_append, testLocked_actions]; rfl
            · exact testLocked_TFrame_inflight v cfg st env
        · simp at hr; subst hr
          refine Or.inr ⟨?_, by simp, ?_, hnone, hinit⟩
          · rw [actions_append, testLocked_actions]; rfl
          · exact testLocked_TFrame_inflight v cfg st env

/-- no other operation runs an action -/
theorem no_action_elsewhere (v : Variant) (cfg : Cfg) (st : St) (op : Op) (r : St × List Ev)
    (hr : step v cfg st op = some r) (hop : ∀ env, op ≠ .doStart env) : actions r.2 = [] := by
  cases op with
  | doStart env => exact absurd rfl (hop env)
  | doFinish j ok => simp [step] at hr; subst hr; rfl
  | advance d => simp [step] at hr; subst hr; rfl
  | electionRun env =>
    simp only [step] at hr
    unfold electionRun at hr
    split at hr
    · simp at hr; subst hr; rfl
    · split at hr
      · simp at hr
      · simp at hr; subst hr; rw [actions_append, testLocked_actions]; rfl
  | forceTest env =>
    simp only [step] at hr
    unfold forceTest at hr
    split at hr
    · simp at hr
    · simp at hr; subst hr; rw [actions_append, testLocked_actions]; rfl

/-- **provenance** (invariant over ALL operation lists from the initial state): the active
endpoint is the InitEndpoint (as long as no election has completed) or is `Equal` to a candidate
the providers returned during the most recent election that completed (`lastOffer`). -/
theorem active_provenance (cfg : Cfg) (ops : List Op) (r : St × List Ev)
    (hr : run repaired cfg St.init ops = some r) (a : Nat) (ha : r.1.active = some a) :
    match r.1.lastOffer with
    | none => (r.1.heap a).ep = cfg.init
    | some l => ∃ e ∈ l, equalOpt (r.1.heap a).ep (some e) = true :=
  (Inv_run cfg ops St.init (Inv_init cfg) r hr).p.prov a ha

/-- `lastOffer` is what it is called: a completed election records exactly the candidates it saw,
all of them returned by providers in that election; a failed one leaves it alone -/
theorem lastOffer_is_last_election (v : Variant) (cfg : Cfg) (st : St) (env : Env) :
    ((testLocked v cfg st env).2.2 = true →
      (testLocked v cfg st env).1.lastOffer = some (candsOf (findBest v env).1) ∧
      ∀ e ∈ candsOf (findBest v env).1, e ∈ offered env) ∧
    ((testLocked v cfg st env).2.2 = false → (testLocked v cfg st env).1.lastOffer = st.lastOffer) := by
  rw [testLocked_eq]
  cases electedOf (findBest v env).2 with
  | none => simp
  | some e => exact ⟨fun _ => ⟨rfl, findBest_cands_offered v env⟩, fun h => by simp at h⟩

/-- **a provider that stops offering an endpoint loses it at the next election**: from any
reachable state, once an election completes in an environment where no provider returns an
endpoint `Equal` to `x` (e.g. the time-limited plain-DNS fallback provider returns nothing any
more), the active endpoint is not `Equal` to `x`. -/
theorem fallback_abandoned (cfg : Cfg) (ops : List Op) (r : St × List Ev)
    (hr : run repaired cfg St.init ops = some r) (env : Env) (x : Ep)
    (hx : ∀ e ∈ offered env, e.key ≠ x.key)
    (hok : (testLocked repaired cfg r.1 env).2.2 = true) (a : Nat)
    (ha : (testLocked repaired cfg r.1 env).1.active = some a) :
    equalOpt ((testLocked repaired cfg r.1 env).1.heap a).ep (some x) = false := by
  have hinv := testLocked_InvP cfg r.1 env (Inv_run cfg ops St.init (Inv_init cfg) r hr).p
  have hp := hinv.prov a ha
  obtain ⟨hl, hoff⟩ := (lastOffer_is_last_election repaired cfg r.1 env).1 hok
  rw [hl] at hp
  obtain ⟨e, he, heq⟩ := hp
  cases hep : ((testLocked repaired cfg r.1 env).1.heap a).ep with
  | none => rfl
  | some y =>
    rw [hep] at heq
    have h1 : y.key = e.key := equalOpt_key.1 heq
    have h2 := hx e (hoff e he)
    simp only [equalOpt]
    simp only [beq_eq_false_iff_ne, ne_eq]
    intro h3; exact h2 (h1 ▸ h3)

/-- **the active endpoint is never nil** (repaired code; all operation lists).  Full statement;
before the repair only `active_nonnil_partial` (some provider offers a candidate) held, see
`prerepair_installs_nil`. -/
theorem active_nonnil (cfg : Cfg) (ops : List Op) (r : St × List Ev)
    (hr : run repaired cfg St.init ops = some r) (a : Nat) (ha : r.1.active = some a) :
    (r.1.heap a).ep ≠ none :=
  (Inv_run cfg ops St.init (Inv_init cfg) r hr).p.nonnil a ha

/-- the pre-repair code (DESIGN §7 #3): one Do with a provider that returns no endpoint installs
an active object whose Endpoint is nil and passes nil to the action -/
theorem prerepair_installs_nil :
    ∃ r, run ⟨true, false⟩ ⟨0, 0, fun _ => 0, none⟩ St.init [.doStart ⟨[.ok []], fun _ => .ok⟩] = some r ∧
      r.1.active = some 0 ∧ (r.1.heap 0).ep = none ∧ Ev.action none ∈ r.2 := by
  refine ⟨_, rfl, rfl, rfl, ?_⟩
  decide

/-- the same script on the repaired code: the Do returns an error, nothing is installed -/
theorem repaired_no_candidate_errors :
    ∃ r, run repaired ⟨0, 0, fun _ => 0, none⟩ St.init [.doStart ⟨[.ok []], fun _ => .ok⟩] = some r ∧
      r.1.active = none ∧ r.2 = [.getEps 0, .ret false] := ⟨_, rfl, rfl, rfl⟩

/-! ### non-vacuity -/

/-- (a) of `findBest_spec` with a real prefix: provider 0 errors, provider 1 offers a failing and a
healthy endpoint, provider 2 is never asked -/
example :
    let env : Env := ⟨[.err, .ok [⟨1, 0⟩, ⟨2, 0⟩, ⟨3, 0⟩], .ok [⟨4, 0⟩]], fun k => if k = 1 then .err else .ok⟩
    items env = [.perr 0, .pok 1, .cand ⟨1, 0⟩] ++ .cand ⟨2, 0⟩ :: [.cand ⟨3, 0⟩, .pok 2, .cand ⟨4, 0⟩] ∧
    (∀ x ∈ [Item.perr 0, .pok 1, .cand ⟨1, 0⟩], stopOf env.health x = none) ∧
    stopOf env.health (.cand ⟨2, 0⟩) = some (.elected ⟨2, 0⟩) ∧
    findBest repaired env = ([.perr 0, .pok 1, .cand ⟨1, 0⟩, .cand ⟨2, 0⟩], .elected ⟨2, 0⟩) := by
  refine ⟨rfl, by decide, rfl, rfl⟩

/-- (b): everything fails, first listed candidate is the fallback -/
example :
    let env : Env := ⟨[.ok [⟨1, 0⟩], .err, .ok [⟨2, 0⟩]], fun _ => .err⟩
    (∀ x ∈ items env, stopOf env.health x = none) ∧ findBest repaired env =
      ([.pok 0, .cand ⟨1, 0⟩, .perr 1, .pok 2, .cand ⟨2, 0⟩], .fallback ⟨1, 0⟩) := by
  refine ⟨by decide, rfl⟩

/-- `fallback_abandoned` is not vacuous: a reachable state using endpoint 5 (plain DNS fallback),
then the provider stops offering it and an election completes -/
example :
    let cfg : Cfg := ⟨0, 0, fun _ => 0, none⟩
    let env1 : Env := ⟨[.ok [⟨5, 0⟩]], fun _ => .ok⟩
    let env2 : Env := ⟨[.ok [⟨1, 0⟩]], fun _ => .ok⟩
    ∃ r, run repaired cfg St.init [.doStart env1] = some r ∧ (r.1.heap 0).ep = some ⟨5, 0⟩ ∧
      (∀ e ∈ offered env2, e.key ≠ 5) ∧ (testLocked repaired cfg r.1 env2).2.2 = true ∧
      (testLocked repaired cfg r.1 env2).1.active = some 1 := by
  refine ⟨_, rfl, rfl, by decide, rfl, rfl⟩


/-! ### endpoint identity (`Equal` of resolver/endpoint doh.go / dns.go, tied by the `epeq` area) -/

/-- `Equal` is identity of (kind, host name, path, bootstrap addresses) resp. (kind, address) -/
theorem ep_equal_iff (a b : NV.EpSpec) : NV.epEqual a b = true ↔ a = b := by simp [NV.epEqual]

/-- the primary and the secondary server of one provider — same host name and path, as many
bootstrap addresses, other addresses — are DIFFERENT endpoints: an election that finds the healthy
one installs it and fires OnChange (`onChange_iff`), it does not keep the dead one. -/
theorem other_bootstrap_other_endpoint (h p : Bytes) (bs bs' : List Bytes) (hne : bs ≠ bs') :
    NV.epEqual (.doh h p bs) (.doh h p bs') = false := by
  simp [NV.epEqual, hne]

example : NV.epEqual (.doh [1] [] [[10], [11]]) (.doh [1] [] [[10], [12]]) = false ∧
    NV.epEqual (.doh [1] [] [[10]]) (.dns [10]) = false := by decide

/-- **regenerated (no hidden state between exchanges)**, as `NV.C03.gen_no_hidden_process_state`: no package-level variable of
the query-path packages is written after initialisation except the root-certificate pool — an election sees the candidates and their probes of that election only. -/
theorem gen_no_hidden_process_state :
    (Gen.PkgState.table.all fun r =>
      r.2.2.isEmpty || (r.1 == "resolver/endpoint" && (r.2.1 == "rootCAInit" || r.2.1 == "rootCAs"))) = true := by
  decide

section RealEp
open NV.RealEp

/-- **C08 on the endpoint stack as the `realep` area sees it**: when some candidate serves, the election makes active a candidate
that serves, and every candidate listed before it does not. -/
theorem realep_election_first_healthy (eps down : List String) (e : String) (h : election eps down = some e)
    (hex : ∃ x, x ∈ eps ∧ down.contains x = false) :
    e ∈ eps ∧ down.contains e = false ∧
    ∃ pre post, eps = pre ++ e :: post ∧ ∀ x, x ∈ pre → down.contains x = true := by
  unfold election at h
  cases hf : eps.find? (fun e => !down.contains e) with
  | some y =>
    rw [hf] at h
    simp at h
    subst h
    have hm := List.mem_of_find?_eq_some hf
    have hp := List.find?_some hf
    refine ⟨hm, by simpa using hp, ?_⟩
    obtain ⟨pre, post, he, hpre⟩ := List.find?_eq_some_iff_append.mp hf |>.2
    exact ⟨pre, post, he, fun x hx => by simpa using hpre x hx⟩
  | none =>
    exfalso
    obtain ⟨x, hx, hd⟩ := hex
    have := List.find?_eq_none.mp hf x hx
    simp at this
    have hc : down.contains x = true := by simpa using this
    rw [hd] at hc; cases hc

/-- … and when none serves, the first candidate (the fallback). -/
theorem realep_election_fallback (eps down : List String) (hall : ∀ x, x ∈ eps → down.contains x = true) :
    election eps down = eps.head? := by
  unfold election
  have : eps.find? (fun e => !down.contains e) = none := by
    apply List.find?_eq_none.mpr
    intro x hx
    have := hall x hx
    simpa using this
  rw [this]

/-- an endpoint with a path of its own receives every request on that path, whatever the profile (C10: the forwarder's upstream;
C11: a custom endpoint) -/
theorem realep_path_own (ep prof prof' : String) (h : ep ≠ "-") : pathOf ep prof = pathOf ep prof' ∧ pathOf ep prof = "/" ++ ep := by
  simp [pathOf, h]

/-- an endpoint without a path receives the request on the path of the chosen profile (C11) -/
theorem realep_path_profile (prof : String) (h : prof ≠ "-") : pathOf "-" prof = "/" ++ prof := by
  simp [pathOf, h]

end RealEp

/-! ### the list provider (`SourceURLProvider`): the candidates of an election are the endpoints the fetched document lists -/
section SrcUrl
open NV.SrcUrl

theorem srcurl_pick_spec (prev : List (Nat × SrcUrl.Ep)) (next : Nat) (e : SrcUrl.Ep) : (SrcUrl.pick prev next e).1.2 = e := by
  unfold SrcUrl.pick
  cases h : (prev.filter fun p => p.2 == e).getLast? with
  | none => rfl
  | some p =>
    have hm : p ∈ prev.filter fun p => p.2 == e := List.mem_of_getLast? h
    have := (List.mem_filter.mp hm).2
    simpa using this

theorem srcurl_build_spec (prev : List (Nat × SrcUrl.Ep)) : ∀ (doc : List SrcUrl.Ep) (next : Nat), (SrcUrl.build prev next doc).1.map (·.2) = doc := by
  intro doc
  induction doc with
  | nil => intro _; rfl
  | cons e es ih =>
    intro next
    simp only [SrcUrl.build, List.map_cons]
    rw [srcurl_pick_spec, ih]

/-- whatever was returned before, a successful call returns, position by position, endpoints EQUAL to the ones the document lists -/
theorem srcurl_candidates_are_the_documents (s : SrcUrl.St) (doc : List SrcUrl.Ep) :
    ((SrcUrl.step s (some doc)).2.map fun objs => objs.map (·.2)) = some doc := by
  simp [SrcUrl.step, srcurl_build_spec]

/-- a failed call changes nothing -/
theorem srcurl_failed_fetch_keeps_state (s : SrcUrl.St) : (SrcUrl.step s none).1 = s := rfl

/-- an element equal to one of the previous list is that earlier object, not a new one -/
theorem srcurl_equal_is_reused (prev : List (Nat × SrcUrl.Ep)) (next : Nat) (e : SrcUrl.Ep) (p : Nat × SrcUrl.Ep) (hp : p ∈ prev) (he : p.2 = e) :
    (SrcUrl.pick prev next e).1 ∈ prev ∧ (SrcUrl.pick prev next e).2 = next := by
  unfold SrcUrl.pick
  cases h : (prev.filter fun p => p.2 == e).getLast? with
  | none =>
    exfalso
    have : p ∈ prev.filter fun p => p.2 == e := List.mem_filter.mpr ⟨hp, by simp [he]⟩
    have hne : (prev.filter fun p => p.2 == e) ≠ [] := List.ne_nil_of_mem this
    exact hne (List.getLast?_eq_none_iff.mp h)
  | some q =>
    exact ⟨(List.mem_filter.mp (List.mem_of_getLast? h)).1, rfl⟩

end SrcUrl

/-! ### the HTTPS-record provider (`SourceHTTPSSVCProvider`), first provider of run.go's manager -/
section SvcProv
open NV.SvcProv NV.SvcProvL

/-- **C08 (candidates of the HTTPS-record provider)**: when GetEndpoints succeeds, the bootstrap addresses of the candidates, read
in candidate order, are exactly the addresses of the ipv4hint / ipv6hint parameters of the answer's HTTPS records, in record
order: none is lost, none is invented, the order of preference is the order of the answer. -/
theorem svcprov_addresses_are_the_hints (rrs : List RR) (eps : List SvcProv.Ep) (h : getEndpoints rrs = some eps) :
    allIps eps = rrs.flatMap (fun r => addrsOf r.params) := by
  have := loop_ips rrs 0 none [] eps h
  simpa [allIps] using this

/-- the number of candidates: one, plus one for every record whose priority value is higher than the one before it -/
theorem svcprov_candidate_count (rr : RR) (rest : List RR) (eps : List SvcProv.Ep) (h : getEndpoints (rr :: rest) = some eps) :
    eps.length = 1 + rises ((rr :: rest).map (·.prio)) := by
  unfold getEndpoints at h
  simp only [loop] at h
  have hn : ¬ (0 < rr.prio ∧ (none : Option SvcProv.Ep).isSome = true) := fun x => by simp at x
  simp only [hn, if_false] at h
  have hg3 : (none : Option SvcProv.Ep).getD ({} : SvcProv.Ep) = ({} : SvcProv.Ep) := rfl
  rw [hg3] at h
  cases ha : applyParams ({} : SvcProv.Ep) rr.params with
  | none => rw [ha] at h; simp at h
  | some e' =>
    rw [ha] at h
    have := loop_some_count rest rr.prio e' [] eps h
    simpa [Nat.add_comm] using this

/-- an answer without HTTPS records gives no candidate (the election moves on to the next provider) -/
theorem svcprov_no_record_no_candidate : getEndpoints [] = some [] := rfl

/-- non-vacuity: two records of priority 1 build one candidate, a record of priority 2 a fallback candidate -/
example : (getEndpoints [⟨1, [⟨4, [45, 90, 28, 0]⟩]⟩, ⟨1, [⟨4, [45, 90, 30, 0]⟩]⟩, ⟨2, [⟨4, [1, 2, 3, 4]⟩]⟩]).map (·.length) = some 2 := by
  decide

end SvcProv

end NV.C08
