/-
  C04 — request capacity is bounded and always given back.

  Tie to the source: `NV.Gen.ProxyCFG` is regenerated on every run from proxy/udp.go and
  proxy/tcp.go (go/cfg): the control-flow graphs of `serveUDP`, `serveTCPConn`, `serveTCP` and of
  the handler closures they spawn, projected on the `inflightRequests` semaphore.
  `gen_cert_ok` is the obligation a missing or doubled `<-inflightRequests` on ANY path breaks.
-/
import NV.Model.CFG
import NV.Gen.ProxyCFG
namespace NV.C04
open NV.CFG NV.Gen

/-- every extracted function passes the certificate check -/
theorem gen_cert_ok :
    (ProxyCFG.all.all fun e => check e.2.2.2.2 e.2.1 e.2.2.1 e.2.2.2.1) = true := by decide

/-- the extraction is not vacuous: the listener loops acquire and hand units to handlers, the
handlers install a deferred release, and handlers are the `strict` (panic-safe) programs. -/
theorem gen_nonvacuous :
    (ProxyCFG.serveUDP.any fun b => b.evs.contains .acq) = true ∧
    (ProxyCFG.serveUDP.any fun b => b.evs.contains .spawn) = true ∧
    (ProxyCFG.serveTCPConn.any fun b => b.evs.contains .acq) = true ∧
    (ProxyCFG.serveTCPConn.any fun b => b.evs.contains .spawn) = true ∧
    (ProxyCFG.serveUDP_handler0.any fun b => b.evs.contains .deferRel) = true ∧
    (ProxyCFG.serveTCPConn_handler0.any fun b => b.evs.contains .deferRel) = true ∧
    ProxyCFG.serveUDP_handler0_strict = true ∧ ProxyCFG.serveTCPConn_handler0_strict = true ∧
    ProxyCFG.serveUDP_handler0_init = (1, 0) ∧ ProxyCFG.serveTCPConn_handler0_init = (1, 0) ∧
    ProxyCFG.serveUDP_init = (0, 0) ∧ ProxyCFG.serveTCPConn_init = (0, 0) := by decide

theorem entry_ok (e : String × Prog × Cert × St × Bool) (he : e ∈ ProxyCFG.all) :
    check e.2.2.2.2 e.2.1 e.2.2.1 e.2.2.2.1 = true := by
  have := gen_cert_ok
  rw [List.all_eq_true] at this
  exact this e he

/-- **C04 (every path gives the unit back)**: for every extracted function and EVERY path
through it (any number of loop iterations), each exit is balanced: the units acquired on the way
were released, handed over to a handler, or are released by an installed deferred function. -/
theorem every_path_balanced (e : String × Prog × Cert × St × Bool) (he : e ∈ ProxyCFG.all)
    (i : Nat) (s : St) (b : Block) (hr : Reach e.2.1 e.2.2.2.1 i s) (hb : e.2.1[i]? = some b)
    (hexit : b.succs = []) : (runEvs b.evs s).1 = (runEvs b.evs s).2 :=
  exit_balanced _ _ _ _ (entry_ok e he) i s b hr hb hexit

/-- **C04 (handlers are panic-safe and never double-release)**: at every point of every path of a
handler closure the unit count is non-negative, and once the deferred release is installed the
handler holds exactly the one unit that the deferred function returns — whether it leaves by
`return` or by a panic that unwinds through the `defer`. -/
theorem handler_point_ok (i : Nat) (s : St) (b : Block) (pre post : List Ev) (ev : Ev)
    (hr : Reach ProxyCFG.serveUDP_handler0 (1, 0) i s) (hb : ProxyCFG.serveUDP_handler0[i]? = some b)
    (hsplit : b.evs = pre ++ ev :: post) : ev.okAfter true (runEvs pre s) = true := by
  have h : check true ProxyCFG.serveUDP_handler0 ProxyCFG.serveUDP_handler0_cert (1, 0) = true := by decide
  exact point_ok true _ _ _ h i s b hr hb pre ev post hsplit

theorem tcp_handler_point_ok (i : Nat) (s : St) (b : Block) (pre post : List Ev) (ev : Ev)
    (hr : Reach ProxyCFG.serveTCPConn_handler0 (1, 0) i s) (hb : ProxyCFG.serveTCPConn_handler0[i]? = some b)
    (hsplit : b.evs = pre ++ ev :: post) : ev.okAfter true (runEvs pre s) = true := by
  have h : check true ProxyCFG.serveTCPConn_handler0 ProxyCFG.serveTCPConn_handler0_cert (1, 0) = true := by decide
  exact point_ok true _ _ _ h i s b hr hb pre ev post hsplit

/-- a handler holds exactly one unit at the entry of every block (from the certificate) -/
theorem handler_holds_one :
    (ProxyCFG.serveUDP_handler0_cert.all fun c => c.1 == 1) = true ∧
    (ProxyCFG.serveTCPConn_handler0_cert.all fun c => c.1 == 1) = true := by decide

end NV.C04
