/-
  C04 — request capacity is bounded and always given back.

  Tie to the source: `NV.Gen.ProxyCFG` is regenerated on every run from proxy/udp.go and
  proxy/tcp.go (go/cfg): the control-flow graphs of `serveUDP`, `serveTCPConn`, `serveTCP` and of
  the handler closures they spawn, projected on the `inflightRequests` semaphore.
  `gen_cert_ok` is the obligation a missing or doubled `<-inflightRequests` on ANY path breaks.
-/
import NV.Model.CFG
import NV.Gen.ProxyCFG
import NV.Gen.Upstream
import NV.Lemmas.Sem
namespace NV.C04
open NV.CFG NV.Gen

/-- every extracted function passes the certificate check -/
theorem gen_cert_ok :
    (ProxyCFG.all.all fun e => check e.2.2.2.2 e.2.1 e.2.2.1 e.2.2.2.1) = true := by decide

/-- **one pool for every listener.** `ListenAndServe` creates exactly one semaphore, at the top
level of the function (not per address, not per goroutine), with capacity
`p.MaxInflightRequests`; every `serveUDP` and `serveTCP` it starts is given that very channel and
`serveTCP` hands it on to every `serveTCPConn`. This is the hypothesis under which the single
K-unit pool of the `NV.Sem` system (`inflight_le_K`, `concurrent_handlers_le_K`) describes the
daemon as a whole: two pools of K units each would satisfy every per-function certificate and
still process 2K queries at once. -/
theorem gen_single_semaphore :
    ProxyCFG.semMakes.length = 1 ∧
    (ProxyCFG.semMakes.all fun m => m.2.1 == "p.MaxInflightRequests" && m.2.2 == 0) = true ∧
    2 ≤ ProxyCFG.semUses.length ∧
    (ProxyCFG.semUses.all fun u => ProxyCFG.semMakes.map (·.1) == [u.2]) = true ∧
    (ProxyCFG.semUses.any fun u => u.1 == "serveUDP") = true ∧
    (ProxyCFG.semUses.any fun u => u.1 == "serveTCP") = true ∧
    ProxyCFG.semPassedToConn = true := by decide

/-- **handlers end** (the hypothesis under which "given back when the query ends" means "given
back"): the handler's unit comes back when `p.Resolve` returns, and every upstream exchange is
bounded by the request context — re-read from the source: every dial of the plain-DNS code takes
the context and sets a deadline before its first I/O, the DoH request is created with the context.
An exchange that can block for ever keeps its unit for ever. -/
theorem gen_resolve_bounded :
    (Upstream.dns53_dialers.all fun d => d.2.1 && d.2.2) = true ∧ Upstream.doh_request_with_ctx = true := by
  decide

/-- the extraction is not vacuous: the listener loops acquire and hand units to handlers, the
handlers install a deferred release, and handlers are the `strict` (panic-safe) programs. -/
theorem gen_nonvacuous :
    (ProxyCFG.serveUDP.any fun b => b.evs.contains .acq) = true ∧
    (ProxyCFG.serveUDP.any fun b => b.evs.contains .spawn) = true ∧
    (ProxyCFG.serveTCPConn.any fun b => b.evs.contains .acq) = true ∧
    (ProxyCFG.serveTCPConn.any fun b => b.evs.contains .spawn) = true ∧
    (ProxyCFG.serveUDP_handler0.any fun b => b.evs.contains .deferRel) = true ∧
    (ProxyCFG.serveTCPConn_handler0.any fun b => b.evs.contains .deferRel) = true ∧
    ProxyCFG.serveUDP_handler0_strict = true ∧ ProxyCFG.serveTCPConn_handler0_strict = true ∧
    ProxyCFG.serveUDP_handler0_init = (1, 0) ∧ ProxyCFG.serveTCPConn_handler0_init = (1, 0) ∧
    ProxyCFG.serveUDP_init = (0, 0) ∧ ProxyCFG.serveTCPConn_init = (0, 0) := by decide

theorem entry_ok (e : String × Prog × Cert × St × Bool) (he : e ∈ ProxyCFG.all) :
    check e.2.2.2.2 e.2.1 e.2.2.1 e.2.2.2.1 = true := by
  have := gen_cert_ok
  rw [List.all_eq_true] at this
  exact this e he

/-- **C04 (every path gives the unit back)**: for every extracted function and EVERY path
through it (any number of loop iterations), each exit is balanced: the units acquired on the way
were released, handed over to a handler, or are released by an installed deferred function. -/
theorem every_path_balanced (e : String × Prog × Cert × St × Bool) (he : e ∈ ProxyCFG.all)
    (i : Nat) (s : St) (b : Block) (hr : Reach e.2.1 e.2.2.2.1 i s) (hb : e.2.1[i]? = some b)
    (hexit : b.succs = []) : (runEvs b.evs s).1 = (runEvs b.evs s).2 :=
  exit_balanced _ _ _ _ (entry_ok e he) i s b hr hb hexit

/-- **C04 (handlers are panic-safe and never double-release)**: at every point of every path of a
handler closure the unit count is non-negative, and once the deferred release is installed the
handler holds exactly the one unit that the deferred function returns — whether it leaves by
`return` or by a panic that unwinds through the `defer`. -/
theorem handler_point_ok (i : Nat) (s : St) (b : Block) (pre post : List Ev) (ev : Ev)
    (hr : Reach ProxyCFG.serveUDP_handler0 (1, 0) i s) (hb : ProxyCFG.serveUDP_handler0[i]? = some b)
    (hsplit : b.evs = pre ++ ev :: post) : ev.okAfter true (runEvs pre s) = true := by
  have h : check true ProxyCFG.serveUDP_handler0 ProxyCFG.serveUDP_handler0_cert (1, 0) = true := by decide
  exact point_ok true _ _ _ h i s b hr hb pre ev post hsplit

theorem tcp_handler_point_ok (i : Nat) (s : St) (b : Block) (pre post : List Ev) (ev : Ev)
    (hr : Reach ProxyCFG.serveTCPConn_handler0 (1, 0) i s) (hb : ProxyCFG.serveTCPConn_handler0[i]? = some b)
    (hsplit : b.evs = pre ++ ev :: post) : ev.okAfter true (runEvs pre s) = true := by
  have h : check true ProxyCFG.serveTCPConn_handler0 ProxyCFG.serveTCPConn_handler0_cert (1, 0) = true := by decide
  exact point_ok true _ _ _ h i s b hr hb pre ev post hsplit

/-- a handler holds exactly one unit at the entry of every block (from the certificate) -/
theorem handler_holds_one :
    (ProxyCFG.serveUDP_handler0_cert.all fun c => c.1 == 1) = true ∧
    (ProxyCFG.serveTCPConn_handler0_cert.all fun c => c.1 == 1) = true := by decide


/-! ### the semaphore system: all interleavings (model NV.Model.Sem) -/

open NV.Sem

theorem apply_fst (e : Ev) (s : St) :
    (e.apply s).1 = s.1 + (if e = .acq then 1 else 0) - (if e = .rel ∨ e = .spawn then 1 else 0) := by
  obtain ⟨h, d⟩ := s
  cases e <;> simp [Ev.apply]

theorem threadOK_stOk (tab : Table) (htab : TableOK tab) (t : Thread) (h : ThreadOK tab t) :
    ∃ pi, tab[t.pid]? = some pi ∧ stOk pi.strict t.st := by
  obtain ⟨pi, b, hpi, hr, hb, hsplit, hst⟩ := h
  have hmem : pi ∈ tab := List.mem_of_getElem? hpi
  obtain ⟨hc, h0, hd, _⟩ := htab pi hmem
  have hinit : stOk pi.strict pi.init := ⟨h0, fun _ => .inl hd⟩
  refine ⟨pi, hpi, ?_⟩
  rw [hst]
  exact point_stOk pi.strict pi.prog pi.cert pi.init hc hinit t.blk t.s0 b hr hb t.done t.rest hsplit

/-- **C04 (all interleavings)**: the invariant `free + Σ held = K ∧ free ≥ 0 ∧ every thread is on a
path of its certified CFG` is preserved by every step of every thread — event, spawn of a handler,
move to a successor block, return, panic after the deferred release is installed. -/
theorem inv_step (tab : Table) (K : Int) (htab : TableOK tab) (s s' : Sys)
    (hinv : Inv tab K s) (hstep : Step tab s s') : Inv tab K s' := by
  obtain ⟨hsum, hfree, hthreads⟩ := hinv
  cases hstep with
  | ev i t e r hget hrest hns hacq =>
    have htok := hthreads t (List.mem_of_getElem? hget)
    refine ⟨?_, ?_, ?_⟩
    · simp only
      rw [heldSum_set s.threads i t _ hget]
      simp only
      rw [apply_fst]
      cases e <;> simp_all <;> omega
    · simp only
      cases e <;> simp_all <;> omega
    · intro x hx
      rcases mem_set_cases' hx with hx | rfl
      · exact hthreads x hx
      · obtain ⟨pi, b, hpi, hr, hb, hsplit, hst⟩ := htok
        refine ⟨pi, b, hpi, hr, hb, ?_, ?_⟩
        · simp [hsplit, hrest]
        · simp only; rw [runEvs_snoc, hst]
  | spawn i t r pi c hget hrest hpi hstart =>
    have htok := hthreads t (List.mem_of_getElem? hget)
    obtain ⟨pi', b, hpi', hr, hb, hsplit, hst⟩ := htok
    have hpieq : pi' = pi := by rw [hpi] at hpi'; exact (Option.some.inj hpi').symm
    subst hpieq
    -- the child program starts holding exactly the unit handed over
    unfold startThread at hstart
    split at hstart
    · simp at hstart
    · rename_i pc hpc
      split at hstart
      · simp at hstart
      · rename_i b0 hb0
        simp only [Option.some.injEq] at hstart
        have hmem : pi' ∈ tab := List.mem_of_getElem? hpi
        obtain ⟨_, _, _, hchild⟩ := htab pi' hmem
        have hcinit : pc.init = (1, 0) := by
          rcases hchild pc hpc with h | h
          · exact h
          · exfalso; apply h
            refine ⟨b, List.mem_of_getElem? hb, ?_⟩
            rw [hsplit, hrest]; simp
        refine ⟨?_, hfree, ?_⟩
        · simp only
          rw [heldSum_append, heldSum_set s.threads i t _ hget]
          subst hstart
          simp only [heldSum, apply_fst, hcinit]
          simp
          omega
        · intro x hx
          simp only [List.mem_append, List.mem_singleton] at hx
          rcases hx with hx | rfl
          · rcases mem_set_cases' hx with hx | rfl
            · exact hthreads x hx
            · refine ⟨pi', b, hpi, hr, hb, ?_, ?_⟩
              · simp [hsplit, hrest]
              · simp only; rw [runEvs_snoc, hst]
          · subst hstart
            exact ⟨pc, b0, hpc, Reach.entry, hb0, by simp, by simp [runEvs]⟩
  | next i t pi b b' j hget hrest hpi hb hj hb' =>
    have htok := hthreads t (List.mem_of_getElem? hget)
    obtain ⟨pi', b2, hpi', hr, hb2, hsplit, hst⟩ := htok
    have hpieq : pi' = pi := by rw [hpi] at hpi'; exact (Option.some.inj hpi').symm
    subst hpieq
    have hbeq : b2 = b := by rw [hb] at hb2; exact (Option.some.inj hb2).symm
    subst hbeq
    refine ⟨?_, hfree, ?_⟩
    · simp only
      rw [heldSum_set s.threads i t _ hget]
      simp only; omega
    · intro x hx
      rcases mem_set_cases' hx with hx | rfl
      · exact hthreads x hx
      · refine ⟨pi', b', hpi, ?_, hb', by simp, by simp [runEvs]⟩
        have hdone : t.done = b2.evs := by rw [hsplit, hrest]; simp
        have := Reach.step hr hb hj
        simp only
        rw [hst, hdone]; exact this
  | exit i t pi b hget hrest hpi hb hexit =>
    have htok := hthreads t (List.mem_of_getElem? hget)
    obtain ⟨pi', b2, hpi', hr, hb2, hsplit, hst⟩ := htok
    have hpieq : pi' = pi := by rw [hpi] at hpi'; exact (Option.some.inj hpi').symm
    subst hpieq
    have hbeq : b2 = b := by rw [hb] at hb2; exact (Option.some.inj hb2).symm
    subst hbeq
    have hmem : pi' ∈ tab := List.mem_of_getElem? hpi
    obtain ⟨hc, h0, hd, _⟩ := htab pi' hmem
    have hdone : t.done = b2.evs := by rw [hsplit, hrest]; simp
    have hbal := exit_balanced pi'.strict pi'.prog pi'.cert pi'.init hc t.blk t.s0 b2 hr hb hexit
    rw [← hdone, ← hst] at hbal
    obtain ⟨_, _, hok⟩ := threadOK_stOk tab htab t ⟨pi', b2, hpi, hr, hb, hsplit, hst⟩
    refine ⟨?_, ?_, ?_⟩
    · simp only
      rw [heldSum_eraseIdx s.threads i t hget]; omega
    · simp only; have := hok.1; omega
    · intro x hx; exact hthreads x (mem_eraseIdx_mem hx)
  | panic i t pi hget hpi hstrict hdef =>
    have htok := hthreads t (List.mem_of_getElem? hget)
    obtain ⟨pi2, hpi2, hok⟩ := threadOK_stOk tab htab t htok
    have hpieq : pi2 = pi := by rw [hpi] at hpi2; exact (Option.some.inj hpi2).symm
    subst hpieq
    have hbal : t.st.1 = t.st.2 := by
      rcases hok.2 hstrict with h | h
      · omega
      · exact h
    refine ⟨?_, ?_, ?_⟩
    · simp only
      rw [heldSum_eraseIdx s.threads i t hget]; omega
    · simp only; omega
    · intro x hx; exact hthreads x (mem_eraseIdx_mem hx)


theorem tableOkB_sound (tab : Table) (h : tableOkB tab = true) : TableOK tab := by
  intro pi hpi
  unfold tableOkB at h
  rw [List.all_eq_true] at h
  have := h pi hpi
  simp only [Bool.and_eq_true, Bool.or_eq_true, decide_eq_true_eq, Bool.not_eq_true'] at this
  obtain ⟨⟨⟨h1, h2⟩, h3⟩, h4⟩ := this
  refine ⟨h1, h2, h3, ?_⟩
  intro pc hpc
  rcases h4 with h4 | h4
  · left
    rw [hpc] at h4
    simpa using h4
  · right
    rintro ⟨b, hb, hs⟩
    have : (pi.prog.any fun b => b.evs.contains .spawn) = true := by
      rw [List.any_eq_true]
      exact ⟨b, hb, by simpa using hs⟩
    rw [this] at h4
    simp at h4

/-- the regenerated programs as a table: 0 serveUDP (spawns 1), 1 its handler, 2 serveTCPConn
(spawns 3), 3 its handler, 4 serveTCP (accept loop; starts connection threads without a unit) -/
def proxyTable : Table := [
  ⟨ProxyCFG.serveUDP, ProxyCFG.serveUDP_cert, ProxyCFG.serveUDP_init, ProxyCFG.serveUDP_strict, 1⟩,
  ⟨ProxyCFG.serveUDP_handler0, ProxyCFG.serveUDP_handler0_cert, (1, 0), ProxyCFG.serveUDP_handler0_strict, 1⟩,
  ⟨ProxyCFG.serveTCPConn, ProxyCFG.serveTCPConn_cert, ProxyCFG.serveTCPConn_init, ProxyCFG.serveTCPConn_strict, 3⟩,
  ⟨ProxyCFG.serveTCPConn_handler0, ProxyCFG.serveTCPConn_handler0_cert, (1, 0), ProxyCFG.serveTCPConn_handler0_strict, 3⟩,
  ⟨ProxyCFG.serveTCP, ProxyCFG.serveTCP_cert, ProxyCFG.serveTCP_init, ProxyCFG.serveTCP_strict, 4⟩]

/-- the regenerated table is certified (each program's certificate, clean entry states, handlers
entered with exactly the unit handed over) -/
theorem proxyTable_ok : TableOK proxyTable := tableOkB_sound _ (by decide)

/-- states of the proxy with `K` units: any number of listener / connection / accept threads at
their entry holding nothing, then any interleaving of steps -/
inductive Reachable (K : Int) : Sys → Prop where
  | init (ts : List Thread) :
      (∀ t ∈ ts, ∃ pid, (pid = 0 ∨ pid = 2 ∨ pid = 4) ∧ startThread proxyTable pid = some t) →
      Reachable K ⟨K, ts⟩
  | step {s s' : Sys} : Reachable K s → Step proxyTable s s' → Reachable K s'

theorem start_listener (pid : Nat) (t : Thread) (hp : pid = 0 ∨ pid = 2 ∨ pid = 4)
    (h : startThread proxyTable pid = some t) : t.st = (0, 0) ∧ ThreadOK proxyTable t := by
  rcases hp with rfl | rfl | rfl <;>
  · simp [startThread, proxyTable, ProxyCFG.serveUDP, ProxyCFG.serveTCPConn, ProxyCFG.serveTCP] at h
    subst h
    refine ⟨by decide, ?_⟩
    exact ⟨_, _, rfl, Reach.entry, rfl, rfl, rfl⟩

theorem reachable_inv (K : Int) (hK : 0 ≤ K) (s : Sys) (h : Reachable K s) : Inv proxyTable K s := by
  induction h with
  | init ts hts =>
    refine ⟨?_, hK, ?_⟩
    · have : heldSum ts = 0 := by
        induction ts with
        | nil => rfl
        | cons t ts ih =>
          obtain ⟨pid, hp, hst⟩ := hts t (by simp)
          have := (start_listener pid t hp hst).1
          simp [heldSum, this, ih (fun x hx => hts x (by simp [hx]))]
      simp [this]
    · intro t ht
      obtain ⟨pid, hp, hst⟩ := hts t ht
      exact (start_listener pid t hp hst).2
  | step _ hs ih => exact inv_step proxyTable K proxyTable_ok _ _ ih hs

/-- **C04 (bounded)**: in every reachable state of every interleaving the units in use never exceed
the capacity, and the free count never goes negative. -/
theorem inflight_le_K (K : Int) (hK : 0 ≤ K) (s : Sys) (h : Reachable K s) :
    heldSum s.threads ≤ K ∧ 0 ≤ s.free ∧ s.free + heldSum s.threads = K := by
  obtain ⟨h1, h2, _⟩ := reachable_inv K hK s h
  exact ⟨by omega, h2, h1⟩

/-- **C04 (given back)**: whenever no thread holds a unit (all handlers have ended, listeners not
yet past their acquire) the whole capacity is free again — after any storm, in any order. -/
theorem capacity_restored (K : Int) (hK : 0 ≤ K) (s : Sys) (h : Reachable K s)
    (hq : ∀ t ∈ s.threads, t.st.1 = 0) : s.free = K := by
  obtain ⟨h1, _, _⟩ := reachable_inv K hK s h
  have : heldSum s.threads = 0 := by
    generalize s.threads = ts at hq
    induction ts with
    | nil => rfl
    | cons t ts ih => simp [heldSum, hq t (by simp), ih (fun x hx => hq x (by simp [hx]))]
  omega

def isHandler (t : Thread) : Bool := t.pid == 1 || t.pid == 3

theorem runEvs_held_const (evs : List Ev) (s : St)
    (h : ∀ e ∈ evs, e = .deferRel ∨ e = .need ∨ e = .nop) : (runEvs evs s).1 = s.1 := by
  induction evs generalizing s with
  | nil => rfl
  | cons e es ih =>
    simp only [runEvs, List.foldl_cons]
    have he := h e (by simp)
    have h1 : (e.apply s).1 = s.1 := by
      obtain ⟨a, b⟩ := s
      rcases he with rfl | rfl | rfl <;> rfl
    have := ih (e.apply s) (fun x hx => h x (by simp [hx]))
    simp only [runEvs] at this
    omega

theorem reach_held_const (p : Prog) (init : St)
    (hp : ∀ b ∈ p, ∀ e ∈ b.evs, e = .deferRel ∨ e = .need ∨ e = .nop) :
    ∀ i s, Reach p init i s → s.1 = init.1 := by
  intro i s hr
  induction hr with
  | entry => rfl
  | @step i j s b _ hb _ ih =>
    rw [runEvs_held_const b.evs s (hp b (List.mem_of_getElem? hb))]; exact ih

theorem handler_progs_quiet :
    (∀ b ∈ ProxyCFG.serveUDP_handler0, ∀ e ∈ b.evs, e = Ev.deferRel ∨ e = .need ∨ e = .nop) ∧
    (∀ b ∈ ProxyCFG.serveTCPConn_handler0, ∀ e ∈ b.evs, e = Ev.deferRel ∨ e = .need ∨ e = .nop) := by
  decide

/-- a live handler thread holds exactly one unit at every point of its execution -/
theorem handler_holds_unit (t : Thread) (hok : ThreadOK proxyTable t) (hh : isHandler t = true) :
    t.st.1 = 1 := by
  obtain ⟨pi, b, hpi, hr, hb, hsplit, hst⟩ := hok
  obtain ⟨q1, q3⟩ := handler_progs_quiet
  unfold isHandler at hh
  simp only [Bool.or_eq_true, beq_iff_eq] at hh
  rcases hh with hh | hh <;>
  · rw [hh] at hpi
    simp [proxyTable] at hpi
    subst hpi
    have hmem := List.mem_of_getElem? hb
    first
      | (have h1 := reach_held_const _ _ q1 _ _ hr
         have h2 := runEvs_held_const t.done t.s0 (fun e he => q1 b hmem e (by rw [hsplit]; simp [he]))
         rw [hst, h2, h1])
      | (have h1 := reach_held_const _ _ q3 _ _ hr
         have h2 := runEvs_held_const t.done t.s0 (fun e he => q3 b hmem e (by rw [hsplit]; simp [he]))
         rw [hst, h2, h1])

/-- **C04 (at most K queries in process)**: the number of live handler goroutines never exceeds
the capacity, in any reachable state of any interleaving. -/
theorem concurrent_handlers_le_K (K : Int) (hK : 0 ≤ K) (s : Sys) (h : Reachable K s) :
    ((s.threads.filter isHandler).length : Int) ≤ K := by
  obtain ⟨h1, h2, h3⟩ := reachable_inv K hK s h
  have key : ∀ ts : List Thread, (∀ t ∈ ts, ThreadOK proxyTable t) →
      ((ts.filter isHandler).length : Int) ≤ heldSum ts := by
    intro ts
    induction ts with
    | nil => intro _; simp [heldSum]
    | cons t ts ih =>
      intro hall
      have hrest := ih (fun x hx => hall x (by simp [hx]))
      have htok := hall t (by simp)
      obtain ⟨_, _, hst⟩ := threadOK_stOk proxyTable proxyTable_ok t htok
      cases hh : isHandler t with
      | true =>
        have := handler_holds_unit t htok hh
        simp [List.filter, hh, heldSum]; omega
      | false =>
        have := hst.1
        simp [List.filter, hh, heldSum]; omega
  have := key s.threads h3
  omega

end NV.C04
