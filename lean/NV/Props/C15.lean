/-
  C15 — the query path is free of data races.

  * `gen_discipline_ok` : the table of ALL field accesses of mutex-owning structs in packages
    discovery, resolver/endpoint, resolver, arp, ndp — regenerated from the source on every run with
    the lock mode held at each access (CFG dataflow, callees analysed in the caller's state) —
    satisfies the discipline: every field is immutable after publication, or only accessed
    atomically, or written only under the write lock and read only under a lock.
  * `rw_inv`, `no_conflict` : in every interleaving of Lock/Unlock/RLock/RUnlock operations of any
    number of threads on a sync.RWMutex, two different threads that both follow the discipline are
    never simultaneously at conflicting accesses (one of them a write) of the same field.
  * `lastmod_any_schedule`, `lastmod_sequential`, `lastmod_order_irrelevant` : the recorded "configuration last modified"
    time of a profile URL (`DOH.updateLastMod`: a look under the read lock, then compare-and-store under the write lock)
    after ANY interleaving of any number of handlers is the one every sequential order records — the newest; so a cached
    reply served afterwards is one a sequential order serves.  `lastmod_unchecked_store_loses_update` : without the
    comparison under the write lock an interleaving records an older time (the reply no sequential order gives).
    `gen_lastmod_update_atomic` : the regenerated CFG of updateLastMod has that shape (every store holds the write lock and
    follows a read made since it was taken).
  Not carried by the model (partial): the Go memory model itself; instance identity of locks; the
  second half of the statement (replies linearizable) is covered by C01's concurrent harness only.
-/
import NV.Model.Lockset
import NV.Gen.Lockset
import NV.Lemmas.LastMod
import NV.Gen.LastMod
import NV.Gen.ReadOnly
namespace NV.C15
open NV.Lockset

theorem gen_extracted : Gen.Lockset.extracted = true := by decide

set_option maxRecDepth 100000 in
theorem gen_discipline_ok : disciplineOk Gen.Lockset.accesses = true := by decide +kernel

theorem rw_inv (m : RW) (h : RW.Reach m) : m.Inv := by
  induction h with
  | init => intro h; simp at h
  | @step m m' o _ hs ih =>
    cases o with
    | lock t =>
      simp only [RW.step] at hs
      split at hs
      · rename_i hc; simp at hs; subst hs; intro _; exact hc.2
      · simp at hs
    | unlock t =>
      simp only [RW.step] at hs
      split at hs
      · simp at hs; subst hs; intro h; simp at h
      · simp at hs
    | rlock t =>
      simp only [RW.step] at hs
      split at hs
      · rename_i hc; simp at hs; subst hs; intro h; simp_all
      · simp at hs
    | runlock t =>
      simp only [RW.step] at hs
      split at hs
      · simp at hs; subst hs
        intro h
        have := ih h
        simp [this]
      · simp at hs

/-- **C15 (no conflicting simultaneous accesses)**: in any reachable state of the mutex, if thread
`t1` is at access `a1` and a different thread `t2` at access `a2` of the same field, each holding
the mutex in the mode the table records and each following the discipline, then neither access is
a write: a data race on that field is impossible. -/
theorem no_conflict (m : RW) (h : RW.Reach m) (t1 t2 : Nat) (hne : t1 ≠ t2) (a1 a2 : Access)
    (h1 : a1.guarded = true) (h2 : a2.guarded = true)
    (hm1 : m.modeOf t1 = a1.mode) (hm2 : m.modeOf t2 = a2.mode) :
    a1.kind ≠ .write ∧ a2.kind ≠ .write := by
  have hinv := rw_inv m h
  unfold RW.Inv at hinv
  unfold Access.guarded at h1 h2
  unfold RW.modeOf at hm1 hm2
  constructor
  · intro hw
    rw [hw] at h1
    -- a1 is a write, so t1 is the writer; then t2 holds nothing, but a2 needs a lock
    split at hm1
    · rename_i hw1
      have hr := hinv (by simp [hw1])
      have : m.writer ≠ some t2 := by rw [hw1]; intro h; injection h with h; exact hne h
      simp [this, hr] at hm2
      rw [← hm2] at h2
      cases a2.kind <;> simp at h2
    · split at hm1 <;> (rw [← hm1] at h1; simp at h1)
  · intro hw
    rw [hw] at h2
    split at hm2
    · rename_i hw2
      have hr := hinv (by simp [hw2])
      have : m.writer ≠ some t1 := by rw [hw2]; intro h; injection h with h; exact hne h.symm
      simp [this, hr] at hm1
      rw [← hm1] at h1
      cases a1.kind <;> simp at h1
    · split at hm2 <;> (rw [← hm2] at h2; simp at h2)

/-- non-vacuity: a reader and a writer schedule; the discipline rejects a write under RLock -/
example : ({ ty := "T", field := "f", kind := .write, mode := .r, fresh := false, site := "" } : Access).guarded = false := rfl
example : ∃ m, RW.Reach m ∧ m.modeOf 1 = .r ∧ m.modeOf 2 = .r :=
  ⟨_, .step (.step .init (o := .rlock 1) rfl) (o := .rlock 2) rfl, by decide, by decide⟩

/-! ### `updateLastMod`: concurrent handlers record what a sequential order records -/

section LastMod
open NV.LastMod

/-- **C15 (replies of some sequential order, last-modified table)**: `ts i` = the time announced to handler `i`, `sched` = any
interleaving of the handlers' two critical sections (look under RLock; compare-and-store under Lock) in which exactly the
handlers `threads` take part and finish.  The time recorded at the end is the one every sequential order records. -/
theorem lastmod_any_schedule (ts : Nat → Nat) (cur0 : Nat) (sched threads : List Nat)
    (honly : ∀ i, i ∈ sched → i ∈ threads)
    (hdone : ∀ i, i ∈ threads → (run ts (init cur0) sched).ph i = .done) :
    (run ts (init cur0) sched).cur = newest cur0 ts threads :=
  NV.LastModL.any_schedule ts cur0 sched threads honly hdone

/-- one handler after the other, in any order: `newest` is what is recorded -/
theorem lastmod_sequential (ts : Nat → Nat) (cur0 : Nat) (order : List Nat) :
    (run ts (init cur0) (sequential order)).cur = newest cur0 ts order :=
  NV.LastModL.lastmod_sequential ts cur0 order

/-- … and it does not depend on the order -/
theorem lastmod_order_irrelevant (ts : Nat → Nat) (cur0 : Nat) (order order' : List Nat) (h : order.Perm order') :
    newest cur0 ts order = newest cur0 ts order' := by
  rw [← lastmod_sequential ts cur0 order']
  exact (lastmod_any_schedule ts cur0 (sequential order') order
    (fun i hi => h.symm.subset (NV.LastModL.mem_sequential order' i hi))
    (fun i hi => NV.LastModL.sequential_all_done ts order' _ i (h.subset hi))).symm

/-- nothing recorded is ever lost: the recorded time never goes back, whatever the schedule (also a partial one) -/
theorem lastmod_monotone (ts : Nat → Nat) (cur0 : Nat) (sched : List Nat) : cur0 ≤ (run ts (init cur0) sched).cur :=
  (NV.LastModL.run_inv ts cur0 (fun _ => True) sched (init cur0) (fun _ _ => trivial) (NV.LastModL.init_inv ts cur0 _)).1

def tsW : Nat → Nat := fun i => if i = 0 then 2 else 1

/-- what the comparison under the write lock is for: storing unconditionally after the look (check-then-act), handler 1
(announced time 1) looks, handler 0 (time 2) looks and stores, handler 1 stores: time 1 is recorded, although both
sequential orders record 2. -/
theorem lastmod_unchecked_store_loses_update :
    (runNA tsW (init 0) [1, 0, 0, 1]).cur = 1 ∧ (runNA tsW (init 0) [1, 0, 0, 1]).ph 0 = .done ∧
    (runNA tsW (init 0) [1, 0, 0, 1]).ph 1 = .done ∧ newest 0 tsW [0, 1] = 2 ∧ newest 0 tsW [1, 0] = 2 := by
  decide

/-- non-vacuity of `lastmod_any_schedule`: the same interleaving on the code as it is meets the hypotheses and records 2 -/
example : (∀ i, i ∈ [1, 0, 0, 1] → i ∈ [0, 1]) ∧ (run tsW (init 0) [1, 0, 0, 1]).ph 0 = .done ∧
    (run tsW (init 0) [1, 0, 0, 1]).ph 1 = .done ∧ (run tsW (init 0) [1, 0, 0, 1]).cur = 2 := by decide

/-- **regenerated**: in the control-flow graph of `(*DOH).updateLastMod` every store into the table happens with the write
lock held (`lmLocked`: acquired by `mu.Lock()`, released by `mu.Unlock()`) and after a read of the table made since the
last lock release (`lmFresh`), on every path; the extraction saw the store(s). -/
theorem gen_lastmod_update_atomic :
    NV.CFG.check Gen.LastMod.lmLocked_strict Gen.LastMod.lmLocked Gen.LastMod.lmLocked_cert Gen.LastMod.lmLocked_init = true ∧
    NV.CFG.check Gen.LastMod.lmFresh_strict Gen.LastMod.lmFresh Gen.LastMod.lmFresh_cert Gen.LastMod.lmFresh_init = true ∧
    Gen.LastMod.lmLocked_init = (0, 0) ∧ Gen.LastMod.lmFresh_init = (0, 0) ∧
    1 ≤ Gen.LastMod.stores ∧
    (Gen.LastMod.lmLocked.filter fun b => b.evs.contains .need).length = Gen.LastMod.stores ∧
    (Gen.LastMod.lmFresh.filter fun b => b.evs.contains .need).length = Gen.LastMod.stores := by
  decide

end LastMod

/-- **regenerated (configuration consulted per query)**: `(*Profiles).Get` and `(*Forwarders).Get` — called by every handler
goroutine on objects that carry no lock — and everything they call inside package config write nothing that outlives the
call: no assignment through the receiver, a parameter or a pointer derived from them, no `sync/atomic` store.  Functions
without shared writes commute, so their answers under any interleaving are those of every sequential order. -/
theorem gen_query_path_config_readonly :
    (Gen.ReadOnly.table.all fun r => r.2.isEmpty) = true ∧
    (Gen.ReadOnly.table.any fun r => r.1 == "Profiles.Get") = true ∧
    (Gen.ReadOnly.table.any fun r => r.1 == "Forwarders.Get") = true ∧
    (Gen.ReadOnly.table.any fun r => r.1 == "profile.Match") = true ∧
    (Gen.ReadOnly.table.any fun r => r.1 == "Resolver.Match") = true := by
  decide

end NV.C15
