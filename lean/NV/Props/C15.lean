/-
  C15 — the query path is free of data races.

  * `gen_discipline_ok` : the table of ALL field accesses of mutex-owning structs in packages
    discovery, resolver/endpoint, resolver, arp, ndp — regenerated from the source on every run with
    the lock mode held at each access (CFG dataflow, callees analysed in the caller's state) —
    satisfies the discipline: every field is immutable after publication, or only accessed
    atomically, or written only under the write lock and read only under a lock.
  * `rw_inv`, `no_conflict` : in every interleaving of Lock/Unlock/RLock/RUnlock operations of any
    number of threads on a sync.RWMutex, two different threads that both follow the discipline are
    never simultaneously at conflicting accesses (one of them a write) of the same field.
  Not carried by the model (partial): the Go memory model itself; instance identity of locks; the
  second half of the statement (replies linearizable) is covered by C01's concurrent harness only.
-/
import NV.Model.Lockset
import NV.Gen.Lockset
namespace NV.C15
open NV.Lockset

theorem gen_extracted : Gen.Lockset.extracted = true := by decide

set_option maxRecDepth 100000 in
theorem gen_discipline_ok : disciplineOk Gen.Lockset.accesses = true := by decide +kernel

theorem rw_inv (m : RW) (h : RW.Reach m) : m.Inv := by
  induction h with
  | init => intro h; simp at h
  | @step m m' o _ hs ih =>
    cases o with
    | lock t =>
      simp only [RW.step] at hs
      split at hs
      · rename_i hc; simp at hs; subst hs; intro _; exact hc.2
      · simp at hs
    | unlock t =>
      simp only [RW.step] at hs
      split at hs
      · simp at hs; subst hs; intro h; simp at h
      · simp at hs
    | rlock t =>
      simp only [RW.step] at hs
      split at hs
      · rename_i hc; simp at hs; subst hs; intro h; simp_all
      · simp at hs
    | runlock t =>
      simp only [RW.step] at hs
      split at hs
      · simp at hs; subst hs
        intro h
        have := ih h
        simp [this]
      · simp at hs

/-- **C15 (no conflicting simultaneous accesses)**: in any reachable state of the mutex, if thread
`t1` is at access `a1` and a different thread `t2` at access `a2` of the same field, each holding
the mutex in the mode the table records and each following the discipline, then neither access is
a write: a data race on that field is impossible. -/
theorem no_conflict (m : RW) (h : RW.Reach m) (t1 t2 : Nat) (hne : t1 ≠ t2) (a1 a2 : Access)
    (h1 : a1.guarded = true) (h2 : a2.guarded = true)
    (hm1 : m.modeOf t1 = a1.mode) (hm2 : m.modeOf t2 = a2.mode) :
    a1.kind ≠ .write ∧ a2.kind ≠ .write := by
  have hinv := rw_inv m h
  unfold RW.Inv at hinv
  unfold Access.guarded at h1 h2
  unfold RW.modeOf at hm1 hm2
  constructor
  · intro hw
    rw [hw] at h1
    -- a1 is a write, so t1 is the writer; then t2 holds nothing, but a2 needs a lock
    split at hm1
    · rename_i hw1
      have hr := hinv (by simp [hw1])
      have : m.writer ≠ some t2 := by rw [hw1]; intro h; injection h with h; exact hne h
      simp [this, hr] at hm2
      rw [← hm2] at h2
      cases a2.kind <;> simp at h2
    · split at hm1 <;> (rw [← hm1] at h1; simp at h1)
  · intro hw
    rw [hw] at h2
    split at hm2
    · rename_i hw2
      have hr := hinv (by simp [hw2])
      have : m.writer ≠ some t1 := by rw [hw2]; intro h; injection h with h; exact hne h.symm
      simp [this, hr] at hm1
      rw [← hm1] at h1
      cases a1.kind <;> simp at h1
    · split at hm2 <;> (rw [← hm2] at h2; simp at h2)

/-- non-vacuity: a reader and a writer schedule; the discipline rejects a write under RLock -/
example : ({ ty := "T", field := "f", kind := .write, mode := .r, fresh := false, site := "" } : Access).guarded = false := rfl
example : ∃ m, RW.Reach m ∧ m.modeOf 1 = .r ∧ m.modeOf 2 = .r :=
  ⟨_, .step (.step .init (o := .rlock 1) rfl) (o := .rlock 2) rfl, by decide, by decide⟩

end NV.C15
